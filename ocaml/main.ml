(* main.ml — unverified glue: parses one case per line, calls the functions
   extracted from Coq (Clipmodel), prints one result per line.
   Line format:  <id> <cmd> <args...>      Output:  <id> <result...>     *)
open Clipmodel

let rec pos_of_int n =
  if n = 1 then XH
  else if n land 1 = 0 then XO (pos_of_int (n lsr 1))
  else XI (pos_of_int (n lsr 1))

let z_of_int n =
  if n = 0 then Z0 else if n > 0 then Zpos (pos_of_int n) else Zneg (pos_of_int (- n))

let z_chunk = z_of_int 1_000_000_000_000_000 (* 10^15 *)

let z_of_string s =
  let neg = String.length s > 0 && s.[0] = '-' in
  let body = if neg || (String.length s > 0 && s.[0] = '+') then String.sub s 1 (String.length s - 1) else s in
  let len = String.length body in
  let v =
    if len <= 18 then z_of_int (int_of_string body)
    else begin
      let acc = ref Z0 in
      let first = len mod 15 in
      let pos = ref 0 in
      if first > 0 then begin acc := z_of_int (int_of_string (String.sub body 0 first)); pos := first end;
      while !pos < len do
        let c = int_of_string (String.sub body !pos 15) in
        acc := Z.add (Z.mul !acc z_chunk) (z_of_int c);
        pos := !pos + 15
      done;
      !acc
    end in
  if neg then Z.opp v else v

let rec pos_size p = match p with XH -> 1 | XO p | XI p -> 1 + pos_size p
let rec int_of_pos p = match p with XH -> 1 | XO p -> 2 * int_of_pos p | XI p -> 2 * int_of_pos p + 1

let int_of_z z = match z with Z0 -> 0 | Zpos p -> int_of_pos p | Zneg p -> - (int_of_pos p)

let rec string_of_posz (z : z) : string =
  (* z >= 0 *)
  match z with
  | Z0 -> "0"
  | Zneg _ -> assert false
  | Zpos p ->
    if pos_size p <= 61 then string_of_int (int_of_pos p)
    else begin
      let (q, r) = Z.div_eucl z z_chunk in
      let rs = string_of_int (int_of_z r) in
      string_of_posz q ^ String.make (15 - String.length rs) '0' ^ rs
    end

let string_of_z z = match z with
  | Zneg p -> "-" ^ string_of_posz (Zpos p)
  | _ -> string_of_posz z

let string_of_q (x : q) = string_of_z x.qnum ^ "/" ^ string_of_posz (Zpos x.qden)

let q_of_string s =
  match String.index_opt s '/' with
  | None -> { qnum = z_of_string s; qden = XH }
  | Some i ->
    let n = z_of_string (String.sub s 0 i) in
    let d = z_of_string (String.sub s (i + 1) (String.length s - i - 1)) in
    (match d with Zpos p -> { qnum = n; qden = p } | _ -> failwith "bad denominator")

let rec nat_of_int n = if n <= 0 then O else S (nat_of_int (n - 1))

(* token stream *)
let toks : string array ref = ref [||]
let ti = ref 0
let next () = let t = !toks.(!ti) in incr ti; t
let next_int () = int_of_string (next ())
let next_z () = z_of_string (next ())
let next_fuel () = let t = next () in
  if String.length t > 5 && String.sub t 0 5 = "fuel=" then int_of_string (String.sub t 5 (String.length t - 5))
  else int_of_string t
let next_q () = q_of_string (next ())
let next_pt () = let x = next_z () in let y = next_z () in (x, y)
let next_list f = let n = next_int () in List.init n (fun _ -> f ())
let next_path () = next_list next_pt
let next_paths () = next_list next_path
let next_ct () = match next_int () with
  | 0 -> NoClip | 1 -> Intersection | 2 -> Union | 3 -> Difference | 4 -> Xor | _ -> NoClip
let next_fr () = match next_int () with
  | 0 -> EvenOdd | 1 -> NonZero | 2 -> Positive | 3 -> Negative | _ -> EvenOdd

let next_fspec () = match next () with
  | "bool" -> let ct = next_ct () in let fr = next_fr () in FBool (ct, fr)
  | "canon" -> FCanon (next_z ())
  | "samenz" -> FSameNZ
  | "sameodd" -> FSameOdd
  | "eq" -> FEq
  | "imp" -> FImp
  | "disj" -> FDisj
  | "rect" -> FRect
  | "oddnz" -> FOddNZ
  | "oddimpnz" -> FOddImpNZ
  | "nzimpodd" -> FNZImpOdd
  | "four" -> FFour (next_fr ())
  | s -> failwith ("bad fspec " ^ s)

let str_path (p : (z * z) list) =
  String.concat " " (string_of_int (List.length p) :: List.map (fun (x, y) -> string_of_z x ^ " " ^ string_of_z y) p)

let b2s b = if b then "1" else "0"
let diag_str d = match d with
  | None -> "FAIL nodiag"
  | Some ((x, y), vec) ->
    "FAIL " ^ string_of_q x ^ " " ^ string_of_q y ^ " v=" ^ String.concat "," (List.map string_of_z vec)

let handle cmd =
  match cmd with
  | "tri" -> string_of_z (triSign (next_z ()))
  | "r53" -> string_of_z (round53 (next_z ()))
  | "peq" -> let a = next_z () in let b = next_z () in let c = next_z () in let d = next_z () in
    b2s (productsAreEqual a b c d)
  | "mul" -> let a = next_z () in let b = next_z () in
    let (lo, hi) = multiplyUInt64 a b in string_of_z lo ^ " " ^ string_of_z hi
  | "col" -> let a = next_pt () in let b = next_pt () in let c = next_pt () in b2s (isCollinear a b c)
  | "cross" -> let a = next_pt () in let b = next_pt () in let c = next_pt () in string_of_z (crossProduct a b c)
  | "noop" -> "OK"
  | "c09seg" ->
    let ct = next_ct () in let fr = next_fr () in let fuel = nat_of_int (next_int ()) in
    let s = next_paths () in let c = next_paths () in let os = next_paths () in
    let a = next_pt () in let b = next_pt () in
    let y = next_list next_q in let t = next_list next_q in
    if c09_seg_check ct fr fuel s c os a b y t then "OK" else "FAIL"
  | "rectlines" ->
    let l = next_z () in let t = next_z () in let r = next_z () in let b = next_z () in
    let rc = { rl = l; rt = t; rr = r; rb = b } in
    let lines = next_paths () in let os = next_paths () in
    if rectlines_check rc lines os then "OK"
    else if not (verts_in_rect rc os) then "FAIL vertex-outside-rectangle"
    else if not (verts_on_lines lines os) then "FAIL vertex-off-the-input-lines"
    else begin
      (* name the first failing input segment *)
      let segs = List.concat_map (fun p -> let rec go = function a :: (b :: _ as tl) -> (a, b) :: go tl | _ -> [] in go p) lines in
      match List.find_opt (fun (a, b) -> not (rectline_check rc a b os)) segs with
      | Some ((ax, ay), (bx, by)) -> "FAIL segment " ^ string_of_z ax ^ " " ^ string_of_z ay ^ " " ^ string_of_z bx ^ " " ^ string_of_z by
      | None -> "FAIL unknown"
    end
  | "simp64" -> let eps = next_q () in let c = next_int () = 1 in let p = next_path () in
    (match simplifyPath64_model eps p c with None -> "NONE" | Some r -> str_path r)
  | "simpD" -> let eps = next_q () in let c = next_int () = 1 in
    let p = next_list (fun () -> let x = next_q () in let y = next_q () in (x, y)) in
    (match simplifyPathD_model eps p c with None -> "NONE"
     | Some r -> String.concat " " (string_of_int (List.length r) :: List.map (fun (x, y) -> string_of_q (qred x) ^ " " ^ string_of_q (qred y)) r))
  | "perp64" -> let a = next_pt () in let b = next_pt () in let c = next_pt () in string_of_q (qred (perp_f64 a b c))
  | "area" -> let p = next_path () in
    string_of_z (area64_twice p) ^ " " ^ b2s (isPositive64_model p) ^ " " ^ string_of_z (shoelace2 p)
  | "bounds" -> let p = next_path () in
    let (((l, t), r), b) = getBounds64_model p in
    let (((l2, t2), r2), b2) = getBounds_model p in
    String.concat " " (List.map string_of_z [l; t; r; b; l2; t2; r2; b2])
  | "strip" -> let c = next_int () = 1 in let p = next_path () in str_path (stripDuplicates_model p c)
  | "pip" -> let q = next_pt () in let p = next_path () in
    string_of_z (pip_model q p) ^ " " ^ string_of_z (pip_spec q p)
  | "crossx" -> let a = next_pt () in let b = next_pt () in let c = next_pt () in string_of_z (cross_exact a b c)
  | "mink" ->
    let s = next_int () = 1 in let c = next_int () = 1 in
    let pat = next_path () in let p = next_path () in
    (match mink_model pat p s c with
     | None -> "PANIC"
     | Some r -> String.concat " ; " (List.map str_path r))
  | "trim" ->
    let o = next_int () = 1 in let p = next_path () in
    let ex = trim_exact p o in
    str_path (trim_faithful p o) ^ " ; " ^ str_path ex ^ " ; " ^ str_path (trim_exact ex o)
  | "gen" ->
    let sp = next_fspec () in let rm = next_z () in
    let fuel = nat_of_int (next_fuel ()) in let r2 = next_q () in
    let ps = next_list next_paths in
    let bc = next_paths () in let bo = next_paths () in
    let y = next_list next_q in
    if gen_check sp rm fuel r2 ps bc bo y then "OK"
    else diag_str (gen_diag sp rm fuel r2 ps bc bo y)
  | _ -> "ERROR unknown-command " ^ cmd

let () =
  try
    while true do
      let line = input_line stdin in
      let line = String.trim line in
      if line <> "" then begin
        toks := Array.of_list (List.filter (fun s -> s <> "") (String.split_on_char ' ' line));
        ti := 0;
        let id = next () in
        let cmd = next () in
        let res = (try handle cmd with
            | e -> "ERROR " ^ Printexc.to_string e) in
        print_string id; print_char ' '; print_endline res
      end
    done
  with End_of_file -> ()
