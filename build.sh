#!/bin/bash
# build.sh — (re)build the Coq development, the extracted OCaml checker and the
# Go harness from the files on disk.  Idempotent; a no-op when everything is
# current.  Used by MANIFEST.setup_cmd and by every check.
set -e
cd "$(dirname "$0")"
ROOT=$(pwd)
export GOFLAGS=-mod=mod GOPROXY=off
unset GOTOOLCHAIN GOSUMDB
mkdir -p build evidence replays
# Go harness (built against /repo's working tree with the verif tag)
cp /repo/go.sum "$ROOT/harness/go.sum" 2>/dev/null || true
(cd "$ROOT/harness" && timeout 900 go build -tags verif -o "$ROOT/build/vh" .) >"$ROOT/build/go_build.log" 2>&1 || { tail -30 "$ROOT/build/go_build.log"; exit 1; }
# K3: regenerate the models that are derived from /repo's current source text
mkdir -p "$ROOT/coq/Gen" "$ROOT/build/gen"
"$ROOT/build/vh" scan -out "$ROOT/build/gen/scan" "$ROOT/build/gen/Facts_gen.v" >/dev/null || exit 1
cmp -s "$ROOT/build/gen/Facts_gen.v" "$ROOT/coq/Gen/Facts_gen.v" || cp "$ROOT/build/gen/Facts_gen.v" "$ROOT/coq/Gen/Facts_gen.v"
"$ROOT/build/vh" translate -out "$ROOT/build/gen/translate" "$ROOT/build/gen/Wrappers_gen.v" >/dev/null || exit 1
cmp -s "$ROOT/build/gen/Wrappers_gen.v" "$ROOT/coq/Gen/Wrappers_gen.v" || cp "$ROOT/build/gen/Wrappers_gen.v" "$ROOT/coq/Gen/Wrappers_gen.v"
"$ROOT/build/vh" comparators -out "$ROOT/build/gen/comparators" "$ROOT/build/gen/Comparators_gen.v" >/dev/null || exit 1
cmp -s "$ROOT/build/gen/Comparators_gen.v" "$ROOT/coq/Gen/Comparators_gen.v" || cp "$ROOT/build/gen/Comparators_gen.v" "$ROOT/coq/Gen/Comparators_gen.v"
"$ROOT/build/vh" decisions -out "$ROOT/build/gen/decisions" "$ROOT/build/gen/Decisions_gen.v" >/dev/null || exit 1
cmp -s "$ROOT/build/gen/Decisions_gen.v" "$ROOT/coq/Gen/Decisions_gen.v" || cp "$ROOT/build/gen/Decisions_gen.v" "$ROOT/coq/Gen/Decisions_gen.v"
"$ROOT/build/vh" fragments -out "$ROOT/build/gen/fragments" "$ROOT/build/gen/Windcount_gen.v" >/dev/null || exit 1
cmp -s "$ROOT/build/gen/Windcount_gen.v" "$ROOT/coq/Gen/Windcount_gen.v" || cp "$ROOT/build/gen/Windcount_gen.v" "$ROOT/coq/Gen/Windcount_gen.v"
"$ROOT/build/vh" pure -out "$ROOT/build/gen/pure" "$ROOT/build/gen/RectLeaf_gen.v" >/dev/null || exit 1
cmp -s "$ROOT/build/gen/RectLeaf_gen.v" "$ROOT/coq/Gen/RectLeaf_gen.v" || cp "$ROOT/build/gen/RectLeaf_gen.v" "$ROOT/coq/Gen/RectLeaf_gen.v"
"$ROOT/build/vh" newpoly -out "$ROOT/build/gen/newpoly" "$ROOT/build/gen/NewPoly_gen.v" >/dev/null || exit 1
cmp -s "$ROOT/build/gen/NewPoly_gen.v" "$ROOT/coq/Gen/NewPoly_gen.v" || cp "$ROOT/build/gen/NewPoly_gen.v" "$ROOT/coq/Gen/NewPoly_gen.v"
"$ROOT/build/vh" kernels -out "$ROOT/build/gen/kernels" "$ROOT/build/gen/Kernels_gen.v" >/dev/null || exit 1
cmp -s "$ROOT/build/gen/Kernels_gen.v" "$ROOT/coq/Gen/Kernels_gen.v" || cp "$ROOT/build/gen/Kernels_gen.v" "$ROOT/coq/Gen/Kernels_gen.v"
"$ROOT/build/vh" kernels2 -out "$ROOT/build/gen/kernels2" "$ROOT/build/gen/Kernels2_gen.v" >/dev/null || exit 1
cmp -s "$ROOT/build/gen/Kernels2_gen.v" "$ROOT/coq/Gen/Kernels2_gen.v" || cp "$ROOT/build/gen/Kernels2_gen.v" "$ROOT/coq/Gen/Kernels2_gen.v"
"$ROOT/build/vh" fingerprints -out "$ROOT/build/gen/fingerprints" "$ROOT/build/gen/Fingerprints_gen.v" >/dev/null || exit 1
cmp -s "$ROOT/build/gen/Fingerprints_gen.v" "$ROOT/coq/Gen/Fingerprints_gen.v" || cp "$ROOT/build/gen/Fingerprints_gen.v" "$ROOT/coq/Gen/Fingerprints_gen.v"
cd "$ROOT/coq"
if [ ! -f Makefile ] || [ _CoqProject -nt Makefile ]; then
  coq_makefile -f _CoqProject -o Makefile >/dev/null
fi
timeout 2400 make -j16 >"$ROOT/build/coq_make.log" 2>&1 || { tail -40 "$ROOT/build/coq_make.log"; exit 1; }
# extraction + OCaml driver when stale
cd "$ROOT/ocaml"
NEED=0
[ -x clipcheck ] || NEED=1
[ -f clipmodel.ml ] || NEED=1
if [ $NEED = 0 ]; then
  for f in "$ROOT"/coq/Extract.v "$ROOT"/coq/Base/*.vo "$ROOT"/coq/Model/*.vo "$ROOT"/coq/Cert/*.vo main.ml; do
    if [ "$f" -nt clipcheck ]; then NEED=1; break; fi
  done
fi
if [ $NEED = 1 ]; then
  timeout 600 coqc -Q ../coq Clip ../coq/Extract.v >"$ROOT/build/extract.log" 2>&1 || { tail -20 "$ROOT/build/extract.log"; exit 1; }
  timeout 600 ocamlfind ocamlopt -w -a clipmodel.mli clipmodel.ml main.ml -o clipcheck >"$ROOT/build/ocaml.log" 2>&1 || { tail -20 "$ROOT/build/ocaml.log"; exit 1; }
fi
exit 0
