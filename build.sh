#!/bin/bash
# build.sh — (re)build the Coq development, the extracted OCaml checker and the
# Go harness from the files on disk.  Idempotent; a no-op when everything is
# current.  Used by MANIFEST.setup_cmd and by every check.
set -e
cd "$(dirname "$0")"
ROOT=$(pwd)
export GOFLAGS=-mod=mod GOPROXY=off
unset GOTOOLCHAIN GOSUMDB
mkdir -p build evidence replays
cd "$ROOT/coq"
if [ ! -f Makefile ] || [ _CoqProject -nt Makefile ]; then
  coq_makefile -f _CoqProject -o Makefile >/dev/null
fi
timeout 2400 make -j16 >"$ROOT/build/coq_make.log" 2>&1 || { tail -40 "$ROOT/build/coq_make.log"; exit 1; }
# extraction + OCaml driver when stale
cd "$ROOT/ocaml"
NEED=0
[ -x clipcheck ] || NEED=1
[ -f clipmodel.ml ] || NEED=1
if [ $NEED = 0 ]; then
  for f in "$ROOT"/coq/Extract.v "$ROOT"/coq/Base/*.vo "$ROOT"/coq/Model/*.vo "$ROOT"/coq/Cert/*.vo main.ml; do
    if [ "$f" -nt clipcheck ]; then NEED=1; break; fi
  done
fi
if [ $NEED = 1 ]; then
  timeout 600 coqc -Q ../coq Clip ../coq/Extract.v >"$ROOT/build/extract.log" 2>&1 || { tail -20 "$ROOT/build/extract.log"; exit 1; }
  timeout 600 ocamlfind ocamlopt -w -a clipmodel.mli clipmodel.ml main.ml -o clipcheck >"$ROOT/build/ocaml.log" 2>&1 || { tail -20 "$ROOT/build/ocaml.log"; exit 1; }
fi
exit 0
