#!/bin/bash
# harmless_rewrites.sh : behaviour-preserving rewrites of code that the K3 translators read; every check
# must stay green (exit 0) on each of them.  /repo is restored after each rewrite.
cd /verif
run() { # name, python edit snippet, checks...
  name=$1; edit=$2; shift; shift
  python3 -c "$edit" || { echo "$name: edit failed"; return; }
  (cd /repo && GOFLAGS=-mod=mod GOPROXY=off go build ./... ) || { echo "$name: does not build"; git -C /repo checkout -- .; return; }
  for p in "$@"; do
    out=$(./check $p 2>&1); rc=$?
    echo "$name / $p: exit $rc $(echo "$out" | grep -c '^VIOLATION') violation(s)"
    [ $rc -ne 0 ] && echo "$out" | grep -A2 "^VIOLATION\|^ERROR" | head -12 | cut -c1-200
  done
  git -C /repo checkout -- .
}
run "isContributingClosed: abs via two comparisons" "
p='/repo/clipper_base.go'; s=open(p).read()
a='if math.Abs(float64(ae.windCount)) != 1 {'
assert a in s
s=s.replace(a,'if ae.windCount != 1 && ae.windCount != -1 {',1); open(p,'w').write(s)" C19
run "isContributingOpen: if/else instead of switch default" "
p='/repo/clipper_base.go'; s=open(p).read()
a='''	var result bool
	switch c.clipType {
	case Intersection:
		result = isInClip
	case Union:
		result = !isInSubj && !isInClip
	default:
		result = !isInClip
	}
	return result'''
assert a in s
s=s.replace(a,'''	if c.clipType == Intersection {
		return isInClip
	}
	if c.clipType == Union {
		return !(isInSubj || isInClip)
	}
	return !isInClip''',1); open(p,'w').write(s)" C09
run "horzSegSort: explicit comparisons instead of cmp.Compare" "
p='/repo/clipper_base.go'; s=open(p).read()
a='	return cmp.Compare(hs1.leftOp.pt.X, hs2.leftOp.pt.X)'
assert a in s
s=s.replace(a,'''	if hs1.leftOp.pt.X < hs2.leftOp.pt.X {
		return -1
	}
	if hs1.leftOp.pt.X > hs2.leftOp.pt.X {
		return 1
	}
	return 0''',1).replace('\t\"cmp\"\n','',1); open(p,'w').write(s)" C17
run "getLocation: side tests in another order" "
p='/repo/rect_clip.go'; s=open(p).read()
a='''	if pt.X == rec.left && pt.Y >= rec.top && pt.Y <= rec.bottom {
		return Left, false
	}
	if pt.X == rec.right && pt.Y >= rec.top && pt.Y <= rec.bottom {
		return Right, false
	}'''
assert a in s
s=s.replace(a,'''	if pt.Y >= rec.top && pt.Y <= rec.bottom {
		if pt.X == rec.left {
			return Left, false
		}
		if pt.X == rec.right {
			return Right, false
		}
	}''',1); open(p,'w').write(s)" C11
run "intersectEdges wind counts: else-if chain flattened" "
p='/repo/clipper_base.go'; s=open(p).read()
a='''			if ae1.windCount+ae2.windDx == 0 {
				ae1.windCount = -ae1.windCount
			} else {
				ae1.windCount += ae2.windDx
			}'''
assert a in s
s=s.replace(a,'''			if ae1.windCount == -ae2.windDx {
				ae1.windCount = ae2.windDx
			} else {
				ae1.windCount = ae1.windCount + ae2.windDx
			}''',1); open(p,'w').write(s)" C01
run "PerpendicDistFromLineSqr64: named cross product, explicit square" "
p='/repo/clipper.go'; s=open(p).read()
i=s.index('func PerpendicDistFromLineSqr64')
a='	return sqr(a*d-c*b) / (c*c + d*d)'
j=s.index(a,i)
s=s[:j]+'''	cross := a*d - c*b
	lenSqr := c*c + d*d
	return cross * cross / lenSqr'''+s[j+len(a):]; open(p,'w').write(s)" C16
run "triSign: else-if chain" "
p='/repo/internal_clipper.go'; s=open(p).read()
a='''	if x < 0 {
		return -1
	}
	if x > 1 {
		return 1
	}
	return 0'''
assert a in s
s=s.replace(a,'''	if x > 1 {
		return 1
	} else if x < 0 {
		return -1
	} else {
		return 0
	}''',1); open(p,'w').write(s)" C15
run "Area64: a = a + ..., renamed loop variable" "
p='/repo/clipper.go'; s=open(p).read()
a='''	for _, pt := range path {
		a += (prevPt.Y + pt.Y) * (prevPt.X - pt.X)
		prevPt = pt
	}'''
assert a in s
s=s.replace(a,'''	for _, cur := range path {
		a = a + (prevPt.Y+cur.Y)*(prevPt.X-cur.X)
		prevPt = cur
	}''',1); open(p,'w').write(s)" C14
run "getBounds: right/bottom tested before left/top" "
p='/repo/internal_clipper.go'; s=open(p).read()
i=s.index('func getBounds(')
a='''		if pt.X < result.left {
			result.left = pt.X
		}
		if pt.X > result.right {
			result.right = pt.X
		}'''
j=s.index(a,i)
s=s[:j]+'''		if pt.X > result.right {
			result.right = pt.X
		}
		if pt.X < result.left {
			result.left = pt.X
		}'''+s[j+len(a):]; open(p,'w').write(s)" C14
./build.sh
