#!/bin/bash
# confirm_seed.sh <PROP> <demo_dir> : confirm a seeded change in a scratch worktree of /repo:
# compiles, baseline tests pass with it, demo fails with it and passes without it.
set -u
P=$1; D=$2
export GOFLAGS=-mod=mod GOPROXY=off
W=/tmp/confirm_$P
git -C /repo worktree remove --force $W 2>/dev/null
git -C /repo worktree add -q $W HEAD || exit 1
cp $D/demo_test.go $W/zz_demo_test.go
T=$(grep -o 'func Test[A-Za-z0-9_]*' $D/demo_test.go | head -1 | sed 's/func //')
echo "demo test: $T"
(cd $W && go test -run "^$T\$" -count=1 . >/tmp/confirm_$P.clean.log 2>&1); echo "demo on clean tree: exit $?"
(cd $W && git apply $D/patch.diff) || { echo "patch does not apply"; exit 1; }
(cd $W && go build ./... ) ; echo "build with patch: exit $?"
(cd $W && go test -run "^$T\$" -count=1 . >/tmp/confirm_$P.mut.log 2>&1); echo "demo with patch: exit $? (expected non-zero)"
rm $W/zz_demo_test.go
(cd $W && go test -count=1 ./... 2>&1 | tail -1)
(cd $W && go test -count=1 -v ./... 2>&1 | grep -c "^--- PASS\|^    --- PASS") 
git -C /repo worktree remove --force $W
