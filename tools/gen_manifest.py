#!/usr/bin/env python3
"""Regenerates MANIFEST.json from the table below (keeps it valid and consistent)."""
import json, os, subprocess
ROOT = os.path.dirname(os.path.dirname(os.path.abspath(__file__)))

REGION = "Coq proof of a certified result checker (slab decomposition, soundness for every real point) + extracted checker run on the implementation's outputs"
K1 = "Coq proofs about a hand-written Gallina model + correspondence check (model vs implementation on generated and exhaustive inputs)"

CHECKS = {
 'C01': (REGION, "Theorem C01_region (all inputs, outputs, every real point): a pair accepted by the extracted checker satisfies the property at every point farther than 2 from the input edges; per-run certification of the implementation's outputs on generated + corpus inputs; K3 theorems over terms regenerated from the source on every run (contribution rule, wind-count updates, new-polygon decision, topX at vertices, isValidAelOrder = the geometric order above the scanline).", "4.1", "coq-region"),
 'C02': (REGION, "Theorem C02_canonical: accepted outputs have winding 0 or s at every real point farther than 2 from their edges; corollaries for the three readings and re-union; syntactic half decided directly on every output.", "4.2", "coq-region"),
 'C03': (K1 + "; hostile-input exploration of every exported entry point for the unmodelled engines", "Totality theorems for the modelled leaf routines (C03_trim_total, C03_minkowski_total, C03_pip_total, C03_precision_total) for all inputs; for the sweep, the offsetter and the rectangle clipper totality is observed under recover/time-limit/success-flag on a hostile stream covering all API groups and enum values (PARTIAL).", "4.3", "coq-k1"),
 'C04': (REGION, "Theorems C04_child_inside_parent / C04_siblings_disjoint: accepted node pairs satisfy containment / disjointness at every real point away from their edges; C04_parent_is_innermost (abstract forest): with those two clauses the polygons around a point form a chain, so a parent is the innermost polygon around its child; node API theorems (IsHole alternates with level); same-polygons, levels and IsHole <=> negative area decided directly.", "4.4", "coq-region"),
 'C05': (REGION, "Theorems C05_implication / C05_disjoint / C05_winding_zero_or: for accepted instances the input region is kept, every point within |delta| of an edge along its normal (and the vertex discs for round joins) is inside, nothing is farther than k|delta|+tol, the result is canonical; mirror statements for shrinking; the over-shrink premise is certified the same way. The join construction is not modelled (PARTIAL).", "4.5", "coq-region"),
 'C06': (REGION, "Theorem C06_rect: accepted (input, output, rectangle) triples have output winding = input winding inside and 0 outside the rectangle at every real point away from the band; vertex bound, inside-unchanged, outside-vanishes and the driver decided directly; K3: the rectangle predicates (Contains / Intersects / IsEmpty), getLocation, getNextLocation's decisions and getSegmentIntersection regenerated from the source and proved against their specifications.", "4.6", "coq-region"),
 'C07': ("differential comparison of every float entry point with its 64-bit counterpart on quantised input (bit-exact) for all precisions; Coq theorems over wrapper terms regenerated from the source (K3)", "Every float entry point is run against the 64-bit entry point on ScalePathsDToPaths64(input) for all 17 precisions and 4 illegal ones, compared bit for bit; the wrapper dataflow is translated from /repo's current text into Coq terms and proved equal to the specified dataflow (see evidence for which wrappers).", "4.7", "coq-k3"),
 'C08': (K1 + "; " + REGION, "Theorems C08_total/C08_count/C08_quads_closed/C08_quads_positive about the faithful model of minkowskiInternal (all inputs); C08_region: accepted results equal the union of the swept parallelograms at every real point farther than 2 from every parallelogram edge; canonical form and sum(A,B)=sum(B,A) certified likewise. PARTIAL near interior parallelogram edges (DESIGN 4.8).", "4.8", "coq-region"),
 'C09': ("Coq proof of a certified result checker for open segments (slab ordering + exact pointwise evaluation, soundness for every real parameter) + extracted checker run on the implementation's outputs", "Theorem c09_seg_sound: for an accepted (closed subject, clip, open solution, subject segment), every real point of the segment farther than 2 from every closed edge is covered by the open solution exactly when the clip-type rule on the exact winding numbers says so; the closed solution is certified against the closed inputs alone (C01_region); sub-polyline clause decided directly.", "4.9", "coq-region"),
 'C10': (REGION, "Theorems C10_strips_inside / C10_nothing_far (+ C02_canonical): accepted strokes contain both normal strips of every segment and nothing farther than k*delta+tol from the polyline, at every real point away from the band. The missing end caps of the unchanged tree are a recorded known finding.", "4.10", "coq-region"),
 'C11': ("Coq proof of a certified result checker for line clipping (exact Liang-Barsky intervals, soundness for every real parameter) + extracted checker run on the implementation's outputs", "Theorem C11_lines: for an accepted (rectangle, lines, output), every real point of every input segment farther than 2 from the rectangle's sides is covered by the output exactly when it is strictly inside; C11_vertices: output vertices within the rectangle enlarged by 1 and within 1 of an input segment; driver consistency decided directly; K3: getLocation / getSegmentIntersection (reported point lies on both closed segments) regenerated from the source.", "4.11", "coq-region"),
 'C12': ("Coq proofs about a hand-written state machine of the engine between calls (sweep as oracle), state compared with the real engine through a verif hook after every history; history-vs-fresh-engine differential run with certified region equality", "Theorems C12_* for ALL operation sequences: scratch lists are empty between calls, an Execute's output depends only on the paths added (and the sticky tree flag), equals a fresh engine's under the flat-output hypothesis (which the check tests), solution arguments are replaced; machine-checked refutation without that hypothesis. Input immutability is checked dynamically (PARTIAL).", "4.12", "coq-k1"),
 'C13': (K1 + "; " + REGION, "Theorems C13_* (all int64 inputs): the computed cross product is the exact one mod 2^64, translation invariance of cross product / collinearity / area accumulator with no range hypothesis, exactness from coordinate differences, the exact (tight) coordinate range 2^30.5 of CrossProduct, and machine-checked wrong signs inside the advertised 2^61; translated and scaled runs certified by the proved region checker.", "4.13", "coq-region"),
 'C14': (K1, "Theorems C14_* for all inputs within 2^29: Area64/IsPositive64 exact when the doubled area is below 2^63 (and machine-checked refutation beyond), GetBounds64 exact, 128-bit product exact, isCollinear exact except when a coordinate difference is 1 (refutations proved), CrossProduct sign exact, PointInPolygon total and equal to the exact even-odd specification on an exhaustively enumerated scope (partial beyond, tied by correspondence).", "4.14", "coq-k1"),
 'C15': (K1, "Theorems C15_* about Model/Trim.v for all paths (totality, sub-sequence, open ends, removed-only-collinear, area preservation for sound predicates) and machine-checked refutations of the clauses that are false (idempotence, no collinear triple, >= 3 vertices); model tied to the code by exact comparison incl. all paths <= 4 points on the 3x3 lattice.", "4.15", "coq-k1"),
 'C16': (K1, "Theorems C16_* about the parametric model of the greedy loop for every distance function (totality, short paths, sub-sequence, open ends, post-condition on every retained vertex) instantiated with a float-faithful distance; the instance is compared exactly with SimplifyPath64 and SimplifyPathD on every run; translation/scaling invariance of the retained set and the epsilon-0 area clause decided on the outputs.", "4.16", "coq-k1"),
 'C17': (REGION, "Respelling invariance of the specification proved for all path sets and real points (C17_permute_paths ... C17_translate); outputs of respelt inputs certified region-equal by the proved checker (C17_same_region); determinism observed by double calls.", "4.17", "coq-region"),
 'C18': ("Coq theorems over facts regenerated from the source text on every run (K3) + abstract interleaving theorem + go test -race exploration", "C18_package_level_state_never_written / C18_no_concurrency_primitives are reflexivity over lists the scanner regenerates from /repo on every run; C18_interleaving_is_sequential: every schedule gives each call its sequential result when calls write only private state. Data-race freedom of compiled Go is exercised under -race, not proved (PARTIAL).", "4.18", "coq-k3"),
 'C19': (REGION, "Theorem C19_identities: the five outputs accepted by the checker satisfy the set identities at every real point away from the input edges; C19_from_C01 (Boolean algebra); exact integer area identities and the wrapper clause decided directly.", "4.19", "coq-region"),
}

NOT_YET = {
}

def main():
    man = {
        "version": 1,
        "setup_cmd": "./build.sh",
        "hooks": {
            "guard": "verif",
            "enable": "go build -tags verif (the harness module /verif/harness replaces github.com/bolom009/go-clipper2 by /repo and is built with -tags verif on every check)",
            "baseline_off_cmd": "cd /repo && GOFLAGS=-mod=mod GOPROXY=off go test -vet=off -count=1 -json ./...",
            "source_commits": ["e6396a4", "0cd0e01", "175adc0", "f951ef9"],
            "add_only": True,
        },
        "engines": [
            {"name": "coq-region", "path": "coq/Cert", "serves_properties": sorted(k for k, v in CHECKS.items() if v[3] == 'coq-region'),
             "kind_free_text": "Coq-proved sound region checker (Cert/Region.v, RegionSound.v), extracted to OCaml, fed with the implementation's outputs by the Go harness"},
            {"name": "coq-k3", "path": "coq/Gen", "serves_properties": sorted(k for k, v in CHECKS.items() if v[3] == 'coq-k3'),
             "kind_free_text": "models regenerated from /repo's source text on every run by harness/scan.go and harness/translate.go, with Coq theorems re-checked against the regenerated terms"},
            {"name": "coq-k1", "path": "coq/Model", "serves_properties": sorted(k for k, v in CHECKS.items() if v[3] == 'coq-k1'),
             "kind_free_text": "faithful Gallina models of leaf routines with for-all theorems; extracted and compared with the Go functions"},
        ],
        "checks": [],
        "not_applicable": [],
        "notes": "See DESIGN.md. KNOWN_FINDINGS.txt lists the genuine defects recorded rather than repaired and the fix: commits made in /repo.",
    }
    for pid in sorted(CHECKS):
        tech, text, ref, eng = CHECKS[pid]
        man["checks"].append({
            "property_id": pid,
            "quick_cmd": "./check %s --tier quick" % pid,
            "thorough_cmd": "./check %s --tier thorough" % pid,
            "evidence_file": "evidence/%s.json" % pid,
            "replay_cmd_template": "./check %s --replay {path}" % pid,
            "engine": eng,
            "level_claimed": {"category": "proof", "text": text, "design_ref": "DESIGN.md " + ref},
            "level_note": "Trusted: Coq 8.16.1 kernel, ExtrOcamlBasic extraction, ocaml/main.ml glue, the Go harness generators, Base/Geom.v definitions, stdlib real-number axioms where R is used. The tie between model/checker and code is validated per run, bounded by the generators (see evidence trusted_base).",
            "technique": tech,
        })
    for pid, reason in sorted(NOT_YET.items()):
        man["not_applicable"].append({"property_id": pid, "reason": reason})
    with open(os.path.join(ROOT, 'MANIFEST.json'), 'w') as f:
        json.dump(man, f, indent=1)
    print('wrote MANIFEST.json with', len(man['checks']), 'checks')

main()
