#!/bin/bash
# update_fingerprints.sh — record the current source fingerprints of the hand-modelled functions as the ones the K1
# models were last reconciled with (run ONLY on a tree on which the correspondence runs of C04 C08 C14 C15 C16 are clean;
# it rewrites coq/Model/Fingerprints.v, which is committed).
set -e
cd "$(dirname "$0")/.."
[ -z "$(git -C /repo status --short -- '*.go')" ] || { echo "/repo has uncommitted changes to .go files: refusing"; exit 1; }
./build/vh fingerprints -out build/gen/fingerprints build/gen/Fingerprints_gen.v >/dev/null
{
  echo '(* Model/Fingerprints.v — WRITTEN by tools/update_fingerprints.sh (never at check time): the SHA-256 of the normalised'
  echo '   source text of every function that coq/Model models by hand, as it was when the model was last reconciled with the'
  echo '   code (correspondence runs clean).  Gen/Fingerprints_gen.v holds the same list for the source as it is NOW. *)'
  echo 'From Coq Require Import String List Bool.'
  echo 'Import ListNotations.'
  echo 'Open Scope string_scope.'
  echo
  sed -n '/^Definition gen_fingerprints/,/^\]\./p' build/gen/Fingerprints_gen.v | sed 's/gen_fingerprints/expected_fingerprints/'
  cat <<'EOF'

Fixpoint fp_of (n : string) (l : list (string * string)) : option string :=
  match l with
  | [] => None
  | (k, v) :: tl => if String.eqb k n then Some v else fp_of n tl
  end.

(* every named function is present on both sides with the same fingerprint *)
Definition fps_agree (now : list (string * string)) (names : list string) : bool :=
  forallb (fun n => match fp_of n now, fp_of n expected_fingerprints with
                    | Some a, Some b => String.eqb a b
                    | _, _ => false
                    end) names.
EOF
} > coq/Model/Fingerprints.v
echo "coq/Model/Fingerprints.v updated"
