#!/bin/bash
# seed_round.sh <AGENT-ID e.g. C01b> <name> <check ids...> : confirm a delivered seeded change in a scratch
# worktree, save it under seeded/<PROP>-<name>/, run the named checks against it, clean up the scratch dirs
A=$1; N=$2; shift; shift
P=${A:0:3}
D=/tmp/mut_${A}_demo
cd /verif
tools/confirm_seed.sh $A $D 2>&1 | tail -5
mkdir -p seeded/$P-$N
cp $D/patch.diff $D/demo_test.go $D/meta.json seeded/$P-$N/
tools/try_seed.sh /verif/seeded/$P-$N/patch.diff "$@" 2>&1 | cut -c1-220
git -C /repo worktree remove --force /tmp/mut_$A 2>/dev/null
rm -rf $D /tmp/confirm_$A.*.log
