#!/bin/bash
# try_seed.sh <patch> <check ids...> : apply the patch to /repo, run the checks, undo the patch
PATCH=$1; shift
cd /verif
git -C /repo apply $PATCH || { echo "patch does not apply to /repo"; exit 1; }
for p in "$@"; do
  ./check $p > /tmp/try_seed.$$.log 2>&1
  grep -E "^VIOLATION|^ERROR" /tmp/try_seed.$$.log | cut -c1-200 | head -2
  grep -E "^$p " /tmp/try_seed.$$.log | cut -c1-200 | tail -1
  rm -f /tmp/try_seed.$$.log
done
git -C /repo checkout -- . 
git -C /repo status --short | head -3
./build.sh >/dev/null 2>&1
git -C /verif checkout -- evidence 2>/dev/null   # evidence written during a run against a seeded change is not kept
