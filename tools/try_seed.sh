#!/bin/bash
# try_seed.sh <patch> <check ids...> : apply the patch to /repo, run the checks, undo the patch
PATCH=$1; shift
cd /verif
git -C /repo apply $PATCH || { echo "patch does not apply to /repo"; exit 1; }
for p in "$@"; do
  ./check $p 2>&1 | grep -E "^VIOLATION|^KNOWN-FINDING|^$p |^ERROR" | cut -c1-260 | grep -v "^  " | head -4
done
git -C /repo checkout -- . 
git -C /repo status --short | head -3
./build.sh >/dev/null 2>&1
