#!/usr/bin/env python3
"""Shrink a failing C01 input (corpus entry JSON on stdin or file) while the
extracted checker still rejects the implementation's output and the witness is
confirmed by exact arithmetic.  Usage: minimize_c01.py entry.json"""
import sys, os, json, subprocess, tempfile, shutil
ROOT = os.path.dirname(os.path.dirname(os.path.abspath(__file__)))
sys.path.insert(0, os.path.join(ROOT, 'lib'))
import geom, props as fw

def fails(entry):
    d = tempfile.mkdtemp(prefix='min')
    try:
        cf = os.path.join(d, 'c.jsonl')
        open(cf, 'w').write(json.dumps(entry) + '\n')
        rc, out, _ = fw.sh([os.path.join(ROOT, 'build', 'vh'), 'c01', '-seed', '1', '-n', '0', '-out', d, cf])
        if rc != 0:
            return False
        summ = json.load(open(os.path.join(d, 'summary.json')))
        if summ.get('direct_failures'):
            return False
        p = subprocess.run([os.path.join(ROOT, 'ocaml', 'clipcheck')], stdin=open(os.path.join(d, 'cases.txt')), stdout=subprocess.PIPE)
        meta = fw.load_meta(d)
        for l in p.stdout.decode().splitlines():
            cid, res = l.split(' ', 1)
            if cid.startswith('c01-') and res.startswith('FAIL'):
                m = meta[cid]
                S, C, Sol = m['subject'], m['clip'] or [], m['solution']
                ct, fr = m['ct'], m['fr']
                pred = lambda w: (w[2] % 2 != 0) == geom.expected(ct, geom.filled(fr, w[0]), geom.filled(fr, w[1]))
                if fw.confirm_region([S, C, Sol], geom.closed_edges(S) + geom.closed_edges(C), 4, pred, fw.parse_fail(res), search=True):
                    return True
        return False
    finally:
        shutil.rmtree(d, ignore_errors=True)

def variants(entry):
    for key in ('subject', 'clip'):
        ps = entry[key] or []
        for i in range(len(ps)):
            e = json.loads(json.dumps(entry)); del e[key][i]; yield e
        for i in range(len(ps)):
            for j in range(len(ps[i])):
                if len(ps[i]) > 3:
                    e = json.loads(json.dumps(entry)); del e[key][i][j]; yield e

def main():
    entry = json.load(open(sys.argv[1]))
    assert fails(entry), 'input does not fail'
    changed = True
    while changed:
        changed = False
        for e in variants(entry):
            if fails(e):
                entry = e; changed = True
                break
    # translate towards the origin
    xs = [p[0] for k in ('subject', 'clip') for path in (entry[k] or []) for p in path]
    ys = [p[1] for k in ('subject', 'clip') for path in (entry[k] or []) for p in path]
    if xs:
        dx, dy = min(xs), min(ys)
        e = json.loads(json.dumps(entry))
        for k in ('subject', 'clip'):
            for path in e[k] or []:
                for p in path:
                    p[0] -= dx; p[1] -= dy
        if fails(e):
            entry = e
    print(json.dumps(entry))

main()
