"""Exact (Fraction) geometry used by the check driver to confirm witness
points independently of both the Go code and the extracted Coq checker."""
from fractions import Fraction as F

def closed_edges(paths):
    out = []
    for p in paths:
        n = len(p)
        for i in range(n):
            out.append((tuple(p[i]), tuple(p[(i + 1) % n])))
    return out

def open_edges(paths):
    out = []
    for p in paths:
        for i in range(len(p) - 1):
            out.append((tuple(p[i]), tuple(p[i + 1])))
    return out

def cr(a, b, q):
    """signed crossing of the left ray from q with edge a->b (Geom.cr)"""
    (ax, ay), (bx, by) = a, b
    qx, qy = q
    if ay <= qy < by:
        x = ax + (qy - ay) * F(bx - ax, by - ay)
        return -1 if x < qx else 0
    if by <= qy < ay:
        x = ax + (qy - ay) * F(bx - ax, by - ay)
        return 1 if x < qx else 0
    return 0

def wn(paths, q):
    return sum(cr(a, b, q) for a, b in closed_edges(paths))

def dist2_seg(a, b, q):
    (ax, ay), (bx, by) = a, b
    qx, qy = q
    dx, dy = bx - ax, by - ay
    L = dx * dx + dy * dy
    if L == 0:
        t = F(0)
    else:
        t = F((qx - ax) * dx + (qy - ay) * dy) / L
        t = max(F(0), min(F(1), t))
    ex, ey = qx - (ax + t * dx), qy - (ay + t * dy)
    return ex * ex + ey * ey

def min_dist2(edges, q):
    return min((dist2_seg(a, b, q) for a, b in edges), default=None)

def filled(fr, w):
    return [w % 2 != 0, w != 0, w > 0, w < 0][fr]

def expected(ct, s, c):
    return [False, s and c, s or c, s and not c, s != c][ct]

def parse_q(s):
    if '/' in s:
        n, d = s.split('/')
        return F(int(n), int(d))
    return F(int(s))
