"""propdefs.py — one entry per property: how its stream is produced, how a
reported failure is confirmed, what is trusted."""
import os, json
from fractions import Fraction as F
import geom
import props as fw


def _tier(ctx, quick, thorough):
    return quick if ctx['tier'] == 'quick' else thorough


def _corpus_args(ctx, name):
    """corpus file (runs first) or, in replay mode, the single replayed input"""
    if ctx.get('replay'):
        rep = json.load(open(ctx['replay']))
        entry = (rep.get('detail') or {}).get('corpus_entry')
        fn = os.path.join(ctx['workdir'], 'replay_corpus.jsonl')
        with open(fn, 'w') as f:
            if entry is not None:
                f.write(json.dumps(entry) + '\n')
        return [fn], 0
    fn = os.path.join(ctx['root'], 'corpus', name)
    return ([fn] if os.path.exists(fn) else []), None


def _stream(ctx, cmd, n, corpus_name, timeout, extra=()):
    args, force_n = _corpus_args(ctx, corpus_name)
    if force_n is not None:
        n = force_n
    else:
        args = list(args) + list(extra)
    out, err = fw.run_stream(ctx['root'], ctx['workdir'], cmd, ctx['seed'], n, args)
    if out is None:
        raise RuntimeError(err)
    results, ncases, timed_out = fw.run_checker(ctx['root'], out, timeout)
    ctx['outdir'] = out
    meta = fw.load_meta(out)
    summary = json.load(open(os.path.join(out, 'summary.json')))
    if timed_out:
        ctx['notes'].append('checker shard(s) hit the time limit; unevaluated cases are not counted')
    return results, meta, summary


def _merge_dist(ctx, summary):
    for k, v in (summary.get('distribution') or {}).items():
        ctx['distribution'][k] = ctx['distribution'].get(k, 0) + v


def _c01_entry(m):
    return {'subject': m['subject'], 'clip': m['clip'], 'clip_nil': m.get('clip_nil', False), 'ct': m['ct'], 'fr': m['fr']}


def _direct(summary, pid, entry_fn):
    out = []
    for d in summary.get('direct_failures') or []:
        entry = entry_fn(d)
        out.append({'key': fw.input_key(entry), 'kind': d.get('kind'),
                    'text': '%s: %s (api %s) on input key %s' % (d.get('kind'), d.get('panic') or '', d.get('api'), fw.input_key(entry)),
                    'detail': {'corpus_entry': entry, 'failure': {k: d[k] for k in d if k not in ('subject', 'clip')}}})
    return out


LOBE_KEY = 'doSplitOp-opposite-lobe'


def lobe_known(m, conf):
    """True when the confirmed witness lies in (or within 2 units of) a lobe that
    doSplitOp dropped under exactly the upstream rule 'opposite orientation and not
    larger than the ring' -- the one recorded known finding of the sweep."""
    if not conf:
        return False
    q = (geom.parse_q(conf['point'][0]), geom.parse_q(conf['point'][1]))
    for ev in m.get('split_discards') or []:
        a1, a2 = ev['area1'], ev['area2']
        if not ((a2 > 0) != (a1 > 0) and abs(a2) <= abs(a1) and abs(a2) > 1):
            continue
        tri = [ev['tri']]
        if geom.wn(tri, q) != 0 or geom.min_dist2(geom.closed_edges(tri), q) <= 4:
            return True
    return False


MICRO_KEY = 'fixSelfIntersects-micro-splice'


def micro_known(m, conf):
    """True when the confirmed witness lies in (or within 2 units of) the triangle that fixSelfIntersects'
    "adjacent intersections" repair added to a ring (upstream's heuristic; recorded known finding)"""
    if not conf:
        return False
    q = (geom.parse_q(conf['point'][0]), geom.parse_q(conf['point'][1]))
    for tri in m.get('micro_splices') or []:
        t = [tri]
        if geom.wn(t, q) != 0 or geom.min_dist2(geom.closed_edges(t), q) <= 4:
            return True
    return False


BAND_KEY = 'rounding-band-exceeded-marginally'


def sweep_key(m, conf, key):
    """the recorded known findings of the sweep, identified by the verif event hooks (or, for the marginal
    band excess, by the absence of any failing point deeper than 1.1 x the band radius)"""
    if lobe_known(m, conf):
        return LOBE_KEY
    if micro_known(m, conf):
        return MICRO_KEY
    if conf and conf.get('marginal_only'):
        return BAND_KEY
    return key


# ------------------------------------------------------------------ C01
def run_c01(ctx):
    n = _tier(ctx, 4000, 60000)
    results, meta, summary = _stream(ctx, 'c01', n, 'c01.jsonl', _tier(ctx, 600, 5400))
    _merge_dist(ctx, summary)
    viol = _direct(summary, 'C01', _c01_entry)
    seen = set()
    for cid, res in results.items():
        if not cid.startswith('c01-'):
            continue
        m = meta[cid]
        ctx['evaluations'] += 1
        key = fw.input_key(_c01_entry(m))
        if len(m['solution']) > 0 and key not in seen:
            seen.add(key)
        if len(ctx['samples']) < 3:
            ctx['samples'].append({'id': cid, 'subject': m['subject'], 'clip': m['clip'], 'ct': m['ct'], 'fr': m['fr'],
                                   'api': m['api'], 'solution': m['solution'], 'verdict': res.split()[0]})
        if res.startswith('OK'):
            continue
        S, C, Sol = m['subject'], m['clip'] or [], m['solution']
        ct, fr = m['ct'], m['fr']
        pred = lambda w: (w[2] % 2 != 0) == geom.expected(ct, geom.filled(fr, w[0]), geom.filled(fr, w[1]))
        conf = fw.confirm_region([S, C, Sol], geom.closed_edges(S) + geom.closed_edges(C), 4, pred, fw.parse_fail(res))
        if not conf:
            r2 = fw.recheck_deeper(ctx['root'], ctx['outdir'], [cid]).get(cid, '')
            if r2.startswith('OK'):
                ctx['distribution']['accepted_at_deeper_cover'] = ctx['distribution'].get('accepted_at_deeper_cover', 0) + 1
                continue
        entry = _c01_entry(m)
        v = {'key': sweep_key(m, conf, key), 'kind': 'region',
             'detail': {'corpus_entry': entry, 'api': m['api'], 'solution': Sol, 'checker': res, 'confirmed': conf,
                        'split_discards': m.get('split_discards')}}
        if conf:
            v['text'] = 'clip type %d fill rule %d (%s): at point (%s, %s), > 2 units from every input edge, windings subject/clip/solution = %s contradict the boolean combination' % (
                ct, fr, m['api'], conf['point'][0], conf['point'][1], conf['windings'])
        else:
            v['text'] = 'region certificate rejected (%s) for input key %s; theorem C01_region no longer applies to this output' % (res[:80], key)
            v['no_input'] = True
        viol.append(v)
    ctx['nontrivial'] += len(seen)
    return viol


# ------------------------------------------------------------------ C02
def canonical_syntax_errors(sol):
    errs = []
    for i, p in enumerate(sol):
        if len(p) < 3:
            errs.append('path %d has %d vertices' % (i, len(p)))
        for j in range(len(p)):
            if p[j] == p[(j + 1) % len(p)]:
                errs.append('path %d repeats vertex %s at %d' % (i, p[j], j))
                break
    return errs


def run_c02(ctx):
    n = _tier(ctx, 3000, 60000)
    results, meta, summary = _stream(ctx, 'c02', n, 'c01.jsonl', _tier(ctx, 600, 5400))
    _merge_dist(ctx, summary)
    viol = _direct(summary, 'C02', _c01_entry)
    seen = set()
    for cid, res in results.items():
        if not cid.startswith('c02-'):
            continue
        m = meta[cid]
        ctx['evaluations'] += 1
        entry = dict(_c01_entry(m), rev=m.get('rev', False), pc=m.get('pc', True))
        key = fw.input_key(entry)
        Sol = m['solution']
        if len(Sol) > 0:
            seen.add(key)
        if len(ctx['samples']) < 3:
            ctx['samples'].append({'id': cid, 'solution': Sol, 'reverse': m.get('rev', False), 'verdict': res.split()[0], 'what': m.get('what', 'canon')})
        what = m.get('what', 'canon')
        if what == 'syntax':
            continue
        if res.startswith('OK'):
            continue
        if what == 'reunion':
            # Sol2 = Union(Sol, NonZero) must describe the same region as Sol away from Sol's edges
            Sol2 = m['solution2']
            pred = lambda w: (w[0] != 0) == (w[1] != 0)
            conf = fw.confirm_region([Sol, Sol2], geom.closed_edges(Sol), 4, pred, fw.parse_fail(res))
            txt = 're-uniting the solution changed the region'
        else:
            s = -1 if m.get('rev') else 1
            pred = lambda w: w[0] == 0 or w[0] == s
            conf = fw.confirm_region([Sol], geom.closed_edges(Sol), 4, pred, fw.parse_fail(res))
            txt = 'solution winding number is neither 0 nor %d' % s
        if not conf:
            r2 = fw.recheck_deeper(ctx['root'], ctx['outdir'], [cid]).get(cid, '')
            if r2.startswith('OK'):
                ctx['distribution']['accepted_at_deeper_cover'] = ctx['distribution'].get('accepted_at_deeper_cover', 0) + 1
                continue
        v = {'key': sweep_key(m, conf, key), 'kind': 'canonical-' + what, 'detail': {'corpus_entry': entry, 'solution': Sol, 'checker': res, 'confirmed': conf}}
        if conf:
            v['text'] = '%s at point (%s, %s) > 2 units from every solution edge: windings %s (clip type %d, fill rule %d, reverse=%s)' % (
                txt, conf['point'][0], conf['point'][1], conf['windings'], m['ct'], m['fr'], m.get('rev', False))
        else:
            v['text'] = 'canonical-form certificate rejected (%s) for input key %s' % (res[:80], key)
            v['no_input'] = True
        viol.append(v)
    # the syntactic half is decided directly on every output
    for cid, m in meta.items():
        if not cid.startswith('c02-') or m.get('what', 'canon') not in ('canon', 'syntax'):
            continue
        errs = canonical_syntax_errors(m['solution'])
        if errs:
            entry = dict(_c01_entry(m), rev=m.get('rev', False), pc=m.get('pc', True))
            viol.append({'key': fw.input_key(entry), 'kind': 'canonical-syntax',
                         'text': 'solution path not canonical: ' + '; '.join(errs[:3]),
                         'detail': {'corpus_entry': entry, 'solution': m['solution'], 'errors': errs}})
    ctx['nontrivial'] += len(seen)
    return viol


# ------------------------------------------------------------------ C19
def shoelace2(paths):
    t = 0
    for p in paths:
        n = len(p)
        for i in range(n):
            a, b = p[i - 1], p[i]
            t += (a[1] + b[1]) * (a[0] - b[0])
    return t   # twice the signed area (Area64's convention)


def edge_len_upper(paths):
    import math
    t = 0
    for p in paths:
        n = len(p)
        for i in range(n):
            a, b = p[i - 1], p[i]
            t += math.isqrt((a[0] - b[0]) ** 2 + (a[1] - b[1]) ** 2) + 1
    return t


def four_pred(w):
    u, i, d, x, d2 = [k % 2 != 0 for k in w]
    return x == (u and not i) and u == (d or i or d2) and not (d and i) and not (d and d2) and not (i and d2)


def run_c19(ctx):
    n = _tier(ctx, 1200, 20000)
    results, meta, summary = _stream(ctx, 'c19', n, 'c01.jsonl', _tier(ctx, 600, 5400))
    _merge_dist(ctx, summary)
    ent = lambda m: {'subject': m['subject'], 'clip': m['clip'], 'clip_nil': False, 'ct': 0, 'fr': m['fr']}
    viol = _direct(summary, 'C19', ent)
    seen = set()
    for cid, res in results.items():
        if not cid.startswith('c19-'):
            continue
        m = meta[cid]
        ctx['evaluations'] += 1
        entry = ent(m)
        key = fw.input_key(entry)
        seen.add(key)
        S, C = m['subject'], m['clip']
        U, I, D, X, D2, SR, CR = (m[k] for k in ('U', 'I', 'D', 'X', 'D2', 'SR', 'CR'))
        if len(ctx['samples']) < 2:
            ctx['samples'].append({'id': cid, 'subject': S if len(str(S)) < 2000 else '(%d paths, large)' % len(S), 'fr': m['fr'],
                                   'areas2': {k: shoelace2(m[k]) for k in ('U', 'I', 'D', 'X', 'D2', 'SR', 'CR')}, 'verdict': res.split()[0]})
        # area identities, exact integers (twice the areas); bound 2 * L  => 4 * L on doubled areas
        L = edge_len_upper(S) + edge_len_upper(C)
        a = {k: shoelace2(m[k]) for k in ('U', 'I', 'D', 'X', 'D2', 'SR', 'CR')}
        ids = [('area(U)+area(I) = area(S)+area(C)', a['U'] + a['I'] - a['SR'] - a['CR']),
               ('area(X) = area(U)-area(I)', a['X'] - a['U'] + a['I']),
               ('area(D) = area(S)-area(I)', a['D'] - a['SR'] + a['I']),
               ('area(D)+area(I)+area(D\') = area(U)', a['D'] + a['I'] + a['D2'] - a['U'])]
        for name, disc in ids:
            if abs(disc) > 4 * L:
                viol.append({'key': key, 'kind': 'area-identity',
                             'text': 'fill rule %d: %s violated: discrepancy %s/2 exceeds 2 x total input edge length %d' % (m['fr'], name, disc, L),
                             'detail': {'corpus_entry': entry, 'areas_twice': a, 'L': L}})
                break
        if not m.get('pointwise') or res.startswith('OK'):
            continue
        conf = fw.confirm_region([U, I, D, X, D2], geom.closed_edges(S) + geom.closed_edges(C), 4, four_pred, fw.parse_fail(res))
        if not conf:
            r2 = fw.recheck_deeper(ctx['root'], ctx['outdir'], [cid]).get(cid, '')
            if r2.startswith('OK'):
                continue
        v = {'key': sweep_key(m, conf, key), 'kind': 'set-identities', 'detail': {'corpus_entry': entry, 'checker': res, 'confirmed': conf,
                                                               'outputs': {k: m[k] for k in ('U', 'I', 'D', 'X', 'D2')}}}
        if conf:
            v['text'] = 'fill rule %d: at point (%s, %s), > 2 units from every input edge, the parities of Union/Intersection/Difference/Xor/Difference(C,S) = %s break the set identities' % (
                m['fr'], conf['point'][0], conf['point'][1], [k % 2 for k in conf['windings']])
        else:
            v['text'] = 'set-identity certificate rejected (%s) for input key %s' % (res[:80], key)
            v['no_input'] = True
        viol.append(v)
    ctx['nontrivial'] += len(seen)
    return viol


# ------------------------------------------------------------------ generic "two outputs describe the same region" runner
def run_same_region(ctx, cmd, prefix, n, corpus, a_key, b_key, band_fn, r2_fn, entry_fn, what_fn, parity=True):
    results, meta, summary = _stream(ctx, cmd, n, corpus, _tier(ctx, 600, 5400))
    _merge_dist(ctx, summary)
    viol = _direct(summary, ctx['pid'], entry_fn)
    seen = set()
    for cid, res in results.items():
        if not cid.startswith(prefix):
            continue
        m = meta[cid]
        ctx['evaluations'] += 1
        entry = entry_fn(m)
        key = fw.input_key(entry)
        seen.add(key)
        if len(ctx['samples']) < 3:
            ctx['samples'].append({'id': cid, 'case': {k: m[k] for k in m if k not in ('gen',) and len(str(m[k])) < 1500}, 'verdict': res.split()[0]})
        if res.startswith('OK'):
            continue
        A, B = m[a_key], m[b_key]
        band = band_fn(m)
        r2 = r2_fn(m)
        if parity:
            pred = lambda w: (w[0] % 2 != 0) == (w[1] % 2 != 0)
        else:
            pred = lambda w: (w[0] != 0) == (w[1] != 0)
        conf = fw.confirm_region([A, B], band, r2, pred, fw.parse_fail(res))
        if not conf:
            r2x = fw.recheck_deeper(ctx['root'], ctx['outdir'], [cid]).get(cid, '')
            if r2x.startswith('OK'):
                continue
        v = {'key': sweep_key(m, conf, key), 'kind': 'region-differs', 'detail': {'corpus_entry': entry, 'case': m, 'checker': res, 'confirmed': conf}}
        if conf:
            v['text'] = '%s: the two results differ at point (%s, %s), outside the rounding band (windings %s)' % (what_fn(m), conf['point'][0], conf['point'][1], conf['windings'])
        else:
            v['text'] = '%s: region-equality certificate rejected (%s)' % (what_fn(m), res[:80])
            v['no_input'] = True
        viol.append(v)
    ctx['nontrivial'] += len(seen)
    return viol


def run_c17(ctx):
    band = lambda m: geom.closed_edges(m['subject']) + geom.closed_edges(m['clip'] or [])
    ent = lambda m: dict(_c01_entry(m), variant=m.get('variant'), v_subject=m.get('v_subject'), v_clip=m.get('v_clip'), v_ct=m.get('v_ct'), v_fr=m.get('v_fr'))
    return run_same_region(ctx, 'c17', 'c17-', _tier(ctx, 1000, 10000), 'c01.jsonl', 'out_base', 'out_variant_in_base_frame',
                           band, lambda m: 4, ent, lambda m: 'respelling %s (clip type %d, fill rule %d)' % (m.get('variant'), m['ct'], m['fr']))


# ------------------------------------------------------------------ C06
RECT_MULTI_KEY = 'rectclip-multiply-wound'


def run_c06(ctx):
    n = _tier(ctx, 4000, 80000)
    results, meta, summary = _stream(ctx, 'c06', n, 'c06.jsonl', _tier(ctx, 600, 5400),
                                     extra=['lattice3'] if ctx['tier'] == 'quick' else ['lattice3', 'lattice4'])
    _merge_dist(ctx, summary)
    ent = lambda m: {'in': m['in'], 'rect': m['rect']}
    viol = []
    for d in summary.get('direct_failures') or []:
        e = ent(d)
        viol.append({'key': fw.input_key(e), 'kind': d.get('kind'), 'text': 'RectClipPaths64 rect %s: %s' % (d['rect'], d.get('kind') or d.get('panic')),
                     'detail': {'corpus_entry': e, 'out': d.get('out'), 'failure': d.get('kind'), 'panic': d.get('panic')}})
    seen = set()
    for cid, res in results.items():
        if not cid.startswith('c06-'):
            continue
        m = meta[cid]
        ctx['evaluations'] += 1
        entry = ent(m)
        key = fw.input_key(entry)
        if m['out']:
            seen.add(key)
        if len(ctx['samples']) < 3:
            ctx['samples'].append({'id': cid, 'rect': m['rect'], 'in': m['in'], 'out': m['out'], 'verdict': res.split()[0]})
        if res.startswith('OK'):
            continue
        l, t, r, b = m['rect']
        rp = [[[l, t], [r, t], [r, b], [l, b]]]
        pred = lambda w: (w[1] == w[0]) if w[2] != 0 else (w[1] == 0)
        conf = fw.confirm_region([m['in'], m['out'], rp], geom.closed_edges(m['in']) + geom.closed_edges(rp), 4, pred, fw.parse_fail(res))
        if not conf:
            r2 = fw.recheck_deeper(ctx['root'], ctx['outdir'], [cid]).get(cid, '')
            if r2.startswith('OK'):
                continue
        v = {'key': key, 'kind': 'rect-region', 'detail': {'corpus_entry': entry, 'out': m['out'], 'checker': res, 'confirmed': conf}}
        if conf:
            wi, wo, wr = conf['windings']
            if wr != 0 and abs(wi) >= 2 and (wi - wo) % 2 == 0:
                v['key'] = RECT_MULTI_KEY
            v['text'] = 'rect %s: at point (%s, %s), > 2 units from the rectangle boundary and every input edge, winding input/output/rectangle = %s' % (
                m['rect'], conf['point'][0], conf['point'][1], conf['windings'])
        else:
            v['text'] = 'rectangle-clip certificate rejected (%s) for input key %s' % (res[:80], key)
            v['no_input'] = True
        viol.append(v)
    ctx['nontrivial'] += len(seen)
    return viol


# ------------------------------------------------------------------ K1 helpers
def parse_paths_out(res):
    """'n x y ... ; n x y ...' -> list of paths"""
    out = []
    for part in res.split(';'):
        t = part.split()
        if not t:
            out.append([]); continue
        n = int(t[0])
        out.append([[int(t[1 + 2 * i]), int(t[2 + 2 * i])] for i in range(n)])
    return out


def is_subseq(a, b):
    it = iter(b)
    return all(any(x == y for y in it) for x in a)


def cross3(a, b, c):
    return (b[0] - a[0]) * (c[1] - b[1]) - (b[1] - a[1]) * (c[0] - b[0])


def has_unit_diff(p):
    for a in p:
        for b in p:
            if b[0] - a[0] == 1 or b[1] - a[1] == 1:
                return True
    return False


def k1_finish(ctx, pid, viol, mismatches, what):
    """a broken correspondence with no property failure found is still reported"""
    if mismatches and not any(not v.get('_known_class') for v in viol):
        mm = mismatches[0]
        viol.append({'key': 'correspondence:' + what, 'kind': 'correspondence-broken', 'no_input': True,
                     'text': 'model %s and implementation disagree on %d of the generated inputs (first: %s) but no input violating the property was found; correspondence with the Coq model (theorems about %s) no longer checks' % (what, len(mismatches), json.dumps(mm)[:300], what),
                     'detail': {'first_mismatches': mismatches[:5]}})
    return viol


# ------------------------------------------------------------------ C15
def trim_clauses(p, is_open, out, out_twice):
    """executable statement of C15 on one (input, output, output-of-output); returns failing clause names"""
    bad = []
    if not is_subseq(out, p):
        bad.append('not-a-subsequence')
    if is_open:
        if len(p) >= 2 and out and (out[0] != p[0] or out[-1] != p[-1]):
            bad.append('open-end-points-not-kept')
        if len(p) >= 2 and p[0] != p[-1] and not out and len(set(map(tuple, p))) > 1:
            bad.append('open-path-vanished')
    else:
        if shoelace2([out]) != shoelace2([p]):
            bad.append('area-changed')
        if out and len(out) < 3:
            bad.append('fewer-than-3-vertices')
        n = len(out)
        if n >= 3 and any(cross3(out[i - 1], out[i], out[(i + 1) % n]) == 0 for i in range(n)):
            bad.append('collinear-triple-remains')
    if out_twice != out:
        bad.append('not-idempotent')
    return bad


def run_c15(ctx):
    n = _tier(ctx, 20000, 400000)
    args = ['exhaustive']
    out, err = fw.run_stream(ctx['root'], ctx['workdir'], 'c15', ctx['seed'], n, args)
    if out is None:
        raise RuntimeError(err)
    results, ncases, timed_out = fw.run_checker(ctx['root'], out, _tier(ctx, 600, 3600))
    meta = fw.load_meta(out)
    summary = json.load(open(os.path.join(out, 'summary.json')))
    _merge_dist(ctx, summary)
    viol = []
    for d in summary.get('direct_failures') or []:
        e = {'path': d['path'], 'open': d['open']}
        viol.append({'key': fw.input_key(e), 'kind': d.get('kind'), 'text': 'TrimCollinear64(%s, open=%s): %s %s' % (d['path'], d['open'], d.get('kind'), d.get('panic', '')),
                     'detail': {'corpus_entry': e}})
    mismatches = []
    seen = set()
    for cid, res in results.items():
        m = meta[cid]
        ctx['evaluations'] += 1
        p, is_open, go, go2 = m['path'], m['open'], m['go'], m['go_twice']
        if res.startswith('ERROR'):
            raise RuntimeError('model evaluation failed: ' + res)
        faithful, exact, exact2 = parse_paths_out(res)
        if go != p and go:
            seen.add(json.dumps([p, is_open]))
        if len(ctx['samples']) < 4 and go != p:
            ctx['samples'].append({'path': p, 'open': is_open, 'go': go, 'model': faithful, 'model_exact_predicate': exact})
        if faithful != go:
            mismatches.append({'path': p, 'open': is_open, 'go': go, 'model': faithful})
        bad = trim_clauses(p, is_open, go, go2)
        if not bad:
            continue
        bad_exact = trim_clauses(p, is_open, exact, exact2)
        for cl in bad:
            e = {'path': p, 'open': is_open}
            if cl in bad_exact and faithful == go:
                key, kc = 'trim-lookahead', True
            elif faithful == go and (has_unit_diff(p)):
                key, kc = 'trisign-unit-difference', True
            else:
                key, kc = fw.input_key(e), False
            viol.append({'key': key, '_known_class': kc, 'kind': cl,
                         'text': 'TrimCollinear64(%s, open=%s) = %s: %s%s' % (p, is_open, go, cl, (' (trimming again gives %s)' % go2) if cl == 'not-idempotent' else ''),
                         'detail': {'corpus_entry': e, 'go': go, 'go_twice': go2, 'model_faithful': faithful, 'model_exact_predicate': exact}})
    ctx['nontrivial'] += len(seen)
    # keep one representative per (key, clause) to bound the report
    uniq, out_v = set(), []
    for v in viol:
        k = (v['key'], v['kind'])
        if k in uniq:
            continue
        uniq.add(k)
        out_v.append(v)
    return k1_finish(ctx, 'C15', out_v, mismatches, 'TrimCollinear64')


# ------------------------------------------------------------------ C08
def run_c08(ctx):
    n = _tier(ctx, 1500, 30000)
    out, err = fw.run_stream(ctx['root'], ctx['workdir'], 'c08', ctx['seed'], n, [])
    if out is None:
        raise RuntimeError(err)
    ctx['outdir'] = out
    results, ncases, timed_out = fw.run_checker(ctx['root'], out, _tier(ctx, 900, 5400))
    meta = fw.load_meta(out)
    summary = json.load(open(os.path.join(out, 'summary.json')))
    _merge_dist(ctx, summary)
    ent = lambda m: {'pattern': m['pattern'], 'path': m['path'], 'sum': m['sum'], 'closed': m['closed']}
    viol = []
    for d in summary.get('direct_failures') or []:
        e = ent(d)
        viol.append({'key': fw.input_key(e), 'kind': d.get('kind'), 'text': 'Minkowski%s64(%s, %s, closed=%s): %s %s' % ('Sum' if d['sum'] else 'Diff', d['pattern'], d['path'], d['closed'], d.get('kind'), d.get('panic', '')),
                     'detail': {'corpus_entry': e}})
    mismatches, seen = [], set()
    for cid, res in results.items():
        m = meta[cid]
        entry = ent(m)
        key = fw.input_key(entry)
        kind = cid[-1]
        ctx['evaluations'] += 1
        if kind == 'm':
            if m['quads'] and m['result']:
                seen.add(key)
            if res.startswith('ERROR'):
                raise RuntimeError(res)
            model = None if res.startswith('PANIC') else [p for p in parse_paths_out(res)] if res.strip() else []
            if model is not None and m['quads'] == [] and model == [[]]:
                model = []
            if model != m['quads']:
                mismatches.append({'input': entry, 'go_quads': m['quads'], 'model': model})
                # search for a failing input with the MODEL's parallelograms as the reference (the K1 theorems say
                # they are the swept quadrilaterals): a point far from their edges where the result disagrees with their union
                if model and m.get('result') is not None and sum(1 for v in viol if v['kind'] == 'minkowski-model-quads') < 3 and len(mismatches) <= 12:
                    mq = [q for q in model if q]
                    conf = fw.confirm_region([m['result'], mq], geom.closed_edges(mq), 4, (lambda w: (w[0] % 2 != 0) == (w[1] != 0)), None)
                    if conf:
                        viol.append({'key': key, 'kind': 'minkowski-model-quads',
                                     'text': '%s closed=%s: at point (%s, %s), > 2 units from every swept-parallelogram edge, the result (winding %d) disagrees with the union of the parallelograms of the Coq model (winding %d)' % (
                                         'MinkowskiSum64' if entry['sum'] else 'MinkowskiDiff64', entry['closed'], conf['point'][0], conf['point'][1], conf['windings'][0], conf['windings'][1]),
                                     'detail': {'corpus_entry': entry, 'result': m['result'], 'model_quads': mq, 'go_quads': m['quads'], 'confirmed': conf}})
            if len(ctx['samples']) < 3 and m['quads']:
                ctx['samples'].append({'input': entry, 'quads': m['quads'][:4], 'result': m['result']})
            continue
        if res.startswith('OK'):
            continue
        R, Q = m['result'], m['quads']
        if kind == 'q':
            sets, band, pred, what = [R, Q], geom.closed_edges(Q), (lambda w: (w[0] % 2 != 0) == (w[1] != 0)), 'result differs from the union of the swept parallelograms'
        elif kind == 'c':
            sets, band, pred, what = [R], geom.closed_edges(R), (lambda w: w[0] in (0, 1)), 'result is not a canonical polygon set'
        else:
            R2 = m['result_swapped']
            sets, band, pred, what = [R, R2], geom.closed_edges(Q), (lambda w: (w[0] % 2 != 0) == (w[1] % 2 != 0)), 'sum(A,B) and sum(B,A) differ'
        conf = fw.confirm_region(sets, band, 4, pred, fw.parse_fail(res))
        if not conf:
            r2 = fw.recheck_deeper(ctx['root'], ctx['outdir'], [cid]).get(cid, '')
            if r2.startswith('OK'):
                continue
        v = {'key': sweep_key(m, conf, key), 'kind': 'minkowski-' + kind, 'detail': {'corpus_entry': entry, 'result': R, 'quads': Q, 'checker': res, 'confirmed': conf}}
        if conf:
            v['text'] = 'Minkowski%s64 closed=%s: %s at point (%s, %s), windings %s' % ('Sum' if m['sum'] else 'Diff', m['closed'], what, conf['point'][0], conf['point'][1], conf['windings'])
        else:
            v['text'] = 'Minkowski region certificate rejected (%s) for input key %s' % (res[:80], key)
            v['no_input'] = True
        viol.append(v)
    ctx['nontrivial'] += len(seen)
    return k1_finish(ctx, 'C08', viol, mismatches, 'minkowskiInternal')


# ------------------------------------------------------------------ C14
def round53(x):
    a = abs(x)
    n = a.bit_length()
    if n <= 53:
        return x
    e = n - 53
    qq, r = a >> e, a & ((1 << e) - 1)
    half = 1 << (e - 1)
    if r > half or (r == half and qq % 2 == 1):
        qq += 1
    return (qq << e) * (1 if x > 0 else -1)


def exact_shoelace2(p):
    if len(p) < 3:
        return 0
    return shoelace2([p])


def pip_exact(q, poly):
    """0 on, 1 inside, 2 outside; exact, even-odd"""
    n = len(poly)
    for i in range(n):
        a, b = poly[i - 1], poly[i]
        if cross3(a, b, q) == 0 and min(a[0], b[0]) <= q[0] <= max(a[0], b[0]) and min(a[1], b[1]) <= q[1] <= max(a[1], b[1]):
            return 0
    w = geom.wn([poly], (F(q[0]), F(q[1])))
    return 1 if w % 2 != 0 else 2


def run_c14(ctx):
    n = _tier(ctx, 30000, 600000)
    out, err = fw.run_stream(ctx['root'], ctx['workdir'], 'c14', ctx['seed'], n, [])
    if out is None:
        raise RuntimeError(err)
    results, ncases, timed_out = fw.run_checker(ctx['root'], out, _tier(ctx, 600, 3600))
    meta = fw.load_meta(out)
    summary = json.load(open(os.path.join(out, 'summary.json')))
    _merge_dist(ctx, summary)
    viol, mismatches = [], []
    for d in summary.get('direct_failures') or []:
        viol.append({'key': fw.input_key(d.get('path')), 'kind': d.get('kind'), 'text': '%s: %s' % (d.get('kind'), d.get('panic')), 'detail': {'corpus_entry': d}})
    B = 1 << 29
    inb = lambda p: all(abs(c) <= B for v in p for c in v)
    ntriv = 0
    for cid, res in results.items():
        m = meta[cid]
        kind = cid[-1]
        ctx['evaluations'] += 1
        if res.startswith('ERROR'):
            raise RuntimeError(res)
        go = m['go']
        if kind == 'x':
            # CrossProduct: the faithful model (int64 expression wrapped, then float64) must agree bit for bit;
            # within the coordinate domain (no wrap) its sign must be the sign of the exact cross product
            model = res.strip()
            if str(go) != model:
                mismatches.append({'case': m, 'model': model})
            p1, p2, p3 = m['pts']
            ex = cross3(p1, p2, p3)
            if max(abs(c) for p in m['pts'] for c in p) <= 2 ** 29 and (int(go) > 0) - (int(go) < 0) != (ex > 0) - (ex < 0):
                viol.append({'key': fw.input_key(m['pts']), 'kind': 'cross-product-sign', 'text': 'CrossProduct%s = %s but the exact cross product is %d' % (m['pts'], go, ex), 'detail': {'corpus_entry': m['pts']}})
            continue
        if kind in ('t', 'u', 'p', 'c'):
            model = res.strip()
            if str(go) != model:
                mismatches.append({'case': m, 'model': model})
            if kind == 'c':
                p1, p2, p3 = m['pts']
                exact0 = cross3(p1, p2, p3) == 0
                ntriv += 1
                if len(ctx['samples']) < 2:
                    ctx['samples'].append({'collinear': m['pts'], 'go': go, 'exact_cross_is_zero': exact0})
                if bool(go) != exact0:
                    diffs = (p2[0] - p1[0], p3[1] - p2[1], p2[1] - p1[1], p3[0] - p2[0])
                    unit = 1 in diffs
                    viol.append({'key': 'trisign-unit-difference' if unit and str(go) == model else fw.input_key(m['pts']), '_known_class': unit and str(go) == model,
                                 'kind': 'collinear',
                                 'text': 'isCollinear%s = %s but the exact cross product is %d (TrimCollinear64 of the 3-point closed path gives %s)' % (m['pts'], bool(go), cross3(p1, p2, p3), m.get('trim3')),
                                 'detail': {'corpus_entry': m['pts'], 'differences': diffs}})
            continue
        if kind == 'a':
            p = m['path']
            mt, mp, ex = res.split()
            if go != '%s %s' % (mt, mp) or m.get('areapaths') != mt:
                mismatches.append({'case': m, 'model': res})
            if len(p) >= 3:
                ntriv += 1
            if inb(p):
                ex = int(ex)
                gt, gp = go.split()
                ok = gt != 'inexact' and int(gt) == round53(ex) and int(gp) == (1 if ex >= 0 else 0)
                if not ok:
                    wrap = abs(ex) >= (1 << 63)
                    viol.append({'key': 'area64-int64-wrap' if wrap and go == '%s %s' % (mt, mp) else fw.input_key(p), '_known_class': wrap, 'kind': 'area',
                                 'text': 'Area64 of a %d-vertex path within 2^29 is %s/2 (IsPositive64=%s) but the exact shoelace sum is %d' % (len(p), gt, gp, ex),
                                 'detail': {'corpus_entry': p}})
            continue
        if kind == 'b':
            p = m['path']
            if go != res.strip():
                mismatches.append({'case': m, 'model': res})
            if p and inb(p):
                xs, ys = [v[0] for v in p], [v[1] for v in p]
                want = '%d %d %d %d' % (min(xs), min(ys), max(xs), max(ys))
                if go != want + ' ' + want:
                    viol.append({'key': fw.input_key(p), 'kind': 'bounds', 'text': 'GetBounds64/getBounds(%s) = %s, exact extremes are %s' % (p[:6], go, want), 'detail': {'corpus_entry': p}})
            elif not p and go != '0 0 0 0 0 0 0 0':
                viol.append({'key': 'bounds-empty', 'kind': 'bounds', 'text': 'GetBounds64([]) = %s' % go, 'detail': {'corpus_entry': p}})
            continue
        if kind == 's':
            model = parse_paths_out(res)[0]
            if model != go:
                mismatches.append({'case': m, 'model': model})
            continue
        if kind == 'i':
            mm, ms = res.split()
            ntriv += 1
            if str(go) != mm:
                mismatches.append({'case': m, 'model': res})
            poly, qq = m['poly'], m['q']
            if len(ctx['samples']) < 4:
                ctx['samples'].append({'point': qq, 'polygon': poly, 'go': go, 'spec': ms})
            flat = len(set(v[1] for v in poly)) <= 1
            if not flat and len(poly) >= 3 and inb(poly + [qq]):
                want = pip_exact(qq, poly)
                if go != want or int(ms) != want:
                    viol.append({'key': fw.input_key([qq, poly]), 'kind': 'point-in-polygon',
                                 'text': 'PointInPolygon(%s, %s) = %d, exact integer arithmetic gives %d (0 on, 1 inside, 2 outside)' % (qq, poly, go, want),
                                 'detail': {'corpus_entry': {'q': qq, 'poly': poly}, 'model_spec': ms}})
            continue
    ctx['nontrivial'] += ntriv
    uniq, out_v = set(), []
    for v in viol:
        k = (v['key'], v['kind'])
        if k in uniq:
            continue
        uniq.add(k)
        out_v.append(v)
    return k1_finish(ctx, 'C14', out_v, mismatches, 'Area64/GetBounds64/PointInPolygon/isCollinear/productsAreEqual/multiplyUInt64/triSign/StripDuplicates')


# ------------------------------------------------------------------ generic runner for harness-decided cases
def run_direct(ctx, cmd, n, key_fields, text_fn, args=(), timeout=900):
    out, err = fw.run_stream(ctx['root'], ctx['workdir'], cmd, ctx['seed'], n, list(args))
    if out is None:
        raise RuntimeError(err)
    ctx['outdir'] = out
    meta = fw.load_meta(out)
    summary = json.load(open(os.path.join(out, 'summary.json')))
    _merge_dist(ctx, summary)
    ctx['evaluations'] += sum(int(m.get('calls', 1)) for m in meta.values())
    ctx['nontrivial'] += int(summary.get('distinct_nontrivial', 0))
    for m in list(meta.values())[:2]:
        ctx['samples'].append({k: m[k] for k in m if len(str(m[k])) < 800})
    viol, seen = [], set()
    for d in summary.get('direct_failures') or []:
        e = {k: d.get(k) for k in key_fields}
        key = d.get('known_key') or fw.input_key(e)
        kk = (key, d.get('kind'))
        if kk in seen:
            continue
        seen.add(kk)
        viol.append({'key': key, 'kind': d.get('kind'), 'text': text_fn(d), 'detail': {'corpus_entry': e, 'failure': {k: d[k] for k in d if len(str(d[k])) < 3000}}})
    return viol


def run_c03(ctx):
    fields = ('api', 'subject', 'clip', 'open', 'subject_nil', 'clip_nil', 'ct', 'fr', 'precision', 'delta', 'jt', 'et')
    return run_direct(ctx, 'c03', _tier(ctx, 4000, 150000), fields,
                      lambda d: '%s %s (clip type %s, fill rule %s, precision %s, delta %s, join %s, end %s; subject %s)' % (
                          d.get('api'), d.get('kind'), d.get('ct'), d.get('fr'), d.get('precision'), d.get('delta'), d.get('jt'), d.get('et'), str(d.get('subject'))[:200]))


# ------------------------------------------------------------------ C13
OVERFLOW_KEY = 'int64-product-overflow'


def max_diff_bits(sets):
    xs = [v[0] for ps in sets for p in ps for v in p]
    ys = [v[1] for ps in sets for p in ps for v in p]
    if not xs:
        return 0
    return max(max(xs) - min(xs), max(ys) - min(ys)).bit_length()


def run_c13(ctx):
    n = _tier(ctx, 1500, 30000)
    results, meta, summary = _stream(ctx, 'c13', n, 'none', _tier(ctx, 900, 5400))
    _merge_dist(ctx, summary)
    viol = []
    for d in summary.get('direct_failures') or []:
        e = {k: d.get(k) for k in ('subject', 'clip', 'ct', 'fr', 'mode', 'v', 'k', 'path', 'q', 'eps', 'closed', 'op') if d.get(k) is not None}
        viol.append({'key': d.get('known_key') or fw.input_key(e), 'kind': d.get('kind'), 'text': str(d.get('kind')) + ' ' + str(d.get('panic', '')) + ' ' + json.dumps(e)[:300], 'detail': {'corpus_entry': e, 'failure': {k: d[k] for k in d if len(str(d[k])) < 2000}}})
    seen = set()
    for cid, res in results.items():
        m = meta[cid]
        ctx['evaluations'] += 1
        entry = {k: m.get(k) for k in ('subject', 'clip', 'ct', 'fr', 'mode', 'v', 'k')}
        if m.get('op'):
            entry['op'] = m['op']
        key = fw.input_key(entry)
        seen.add(key)
        if len(ctx['samples']) < 3:
            ctx['samples'].append(dict(entry, verdict=res.split()[0]))
        if res.startswith('OK'):
            continue
        ct, fr = m['ct'], m['fr']
        if m['mode'] == 'translate':
            sets, band, r2 = [m['out_base'], m['out_back']], geom.closed_edges(m['subject']) + geom.closed_edges(m['clip']), 4
            pred = lambda w: (w[0] % 2 != 0) == (w[1] % 2 != 0)
            what = '%stranslation by %s' % ((m['op'].split()[0] + ': ') if m.get('op') else '', m['v'])
            bits = 0
        else:
            S, C = m['ks'], m['kc']
            sets, band, r2 = [S, C, m['out_scaled']], geom.closed_edges(S) + geom.closed_edges(C), geom.parse_q(m['r2'])
            pred = lambda w: (w[2] % 2 != 0) == geom.expected(ct, geom.filled(fr, w[0]), geom.filled(fr, w[1]))
            what = 'scaling by %d' % m['k']
            bits = max_diff_bits([S, C])
        conf = fw.confirm_region(sets, band, r2, pred, fw.parse_fail(res))
        if not conf:
            r2x = fw.recheck_deeper(ctx['root'], ctx['outdir'], [cid]).get(cid, '')
            if r2x.startswith('OK'):
                continue
        k = key
        import re as _re
        mj = _re.search(r'join=(\d+)', m.get('op') or '')
        if conf and bits >= 32:
            k = OVERFLOW_KEY   # beyond 32-bit differences the int64 products of the sweep wrap: whatever else happened in the call is incidental
        elif lobe_known(m, conf):
            k = LOBE_KEY
        elif micro_known(m, conf):
            k = MICRO_KEY
        elif conf and conf.get('marginal_only') and m['mode'] == 'translate' and (m.get('op') or '').startswith('InflatePaths64') and max(abs(x) for x in m['v']) >= 2 ** 50:
            k = 'offset-float-spacing-beyond-2^50'   # offset vertices are float64 sums of absolute coordinates: spacing 0.25..1 unit there
        elif (m.get('op') or '').startswith('InflatePaths64') and mj and int(mj.group(1)) in (0, 1) and max(abs(x) for x in m['v']) >= 2 ** 45:
            k = 'offset-square-join-absolute-coordinates'   # doSquare (Square joins, and Miter joins beyond the miter limit), translation beyond 2^45
        elif conf and conf.get('marginal_only') and m['mode'] == 'translate':
            k = BAND_KEY
        elif conf and bits >= 32:
            k = OVERFLOW_KEY
        v = {'key': k, 'kind': 'magnitude', 'detail': {'corpus_entry': entry, 'checker': res, 'confirmed': conf, 'max_difference_bits': bits}}
        if conf:
            v['text'] = '%s (clip type %d, fill rule %d): region differs at point (%s, %s), windings %s; largest coordinate difference has %d bits' % (what, ct, fr, conf['point'][0], conf['point'][1], conf['windings'], bits)
        else:
            v['text'] = '%s: certificate rejected (%s)' % (what, res[:80])
            v['no_input'] = True
        viol.append(v)
    ctx['nontrivial'] += len(seen)
    return viol


# ------------------------------------------------------------------ C16
def perp2_exact(p, a, b):
    c, d = b[0] - a[0], b[1] - a[1]
    if c == 0 and d == 0:
        return F(0)
    x, y = p[0] - a[0], p[1] - a[1]
    return F((x * d - c * y) ** 2, c * c + d * d)


def simplify_clauses(p, eps, closed, out, m):
    bad = []
    if not is_subseq(out, p):
        return ['not-a-subsequence']
    if len(p) < 4 and out != p:
        bad.append('short-path-changed')
    if not closed and len(p) >= 4 and out and (out[0] != p[0] or out[-1] != p[-1]):
        bad.append('open-end-points-not-kept')
    n = len(out)
    e2 = F(eps) * F(eps)
    slack = F(1) - F(1, 1 << 40)
    if n >= 3 and len(p) >= 4:
        rng = range(n) if closed else range(1, n - 1)
        for i in rng:
            if perp2_exact(out[i], out[i - 1], out[(i + 1) % n]) <= e2 * slack and e2 > 0:
                bad.append('retained-vertex-within-epsilon')
                break
            if cross3(out[i - 1], out[i], out[(i + 1) % n]) == 0 and out[i - 1] != out[(i + 1) % n]:
                # distance exactly 0 (computed exactly in floating point too): within every epsilon >= 0
                bad.append('retained-vertex-exactly-on-the-line-through-its-retained-neighbours')
                break
    if eps == 0 and closed and shoelace2([out]) != shoelace2([p]):
        bad.append('area-changed-at-epsilon-0')
    if m.get('retained') is not None:
        if m.get('retained_translated') != m['retained']:
            bad.append('retained-set-changes-under-translation')
        if m.get('retained_scaled') != m['retained']:
            bad.append('retained-set-changes-under-power-of-two-scaling')
    return bad


FLOAT_CANCEL_KEY = 'simplify-float-cancellation'


def float_cancel_known(p, kind):
    """the clause failures that float64 cancellation in a*d - c*b explains: some product of two coordinate differences
    of the path needs more than 53 bits (then the two rounded products can agree, or differ by a multiple of their
    last bit, while the exact cross product is a few units)"""
    if kind.replace('D:', '') not in ('area-changed-at-epsilon-0', 'retained-vertex-within-epsilon'):
        return False
    xs, ys = [q[0] for q in p], [q[1] for q in p]
    return (max(xs) - min(xs)) * (max(ys) - min(ys)) >= 2 ** 53


def run_c16(ctx):
    n = _tier(ctx, 12000, 300000)
    out, err = fw.run_stream(ctx['root'], ctx['workdir'], 'c16', ctx['seed'], n, [])
    if out is None:
        raise RuntimeError(err)
    results, ncases, timed_out = fw.run_checker(ctx['root'], out, _tier(ctx, 600, 3600))
    meta = fw.load_meta(out)
    summary = json.load(open(os.path.join(out, 'summary.json')))
    _merge_dist(ctx, summary)
    viol, mismatches, ntriv = [], [], 0
    for d in summary.get('direct_failures') or []:
        e = {'path': d.get('path'), 'eps': d.get('eps'), 'closed': d.get('closed')}
        viol.append({'key': fw.input_key(e), 'kind': d.get('kind'), 'text': 'SimplifyPath64(%s, %s, %s): %s %s' % (str(d.get('path'))[:200], d.get('eps'), d.get('closed'), d.get('kind'), d.get('panic', '')), 'detail': {'corpus_entry': e}})
    for cid, res in results.items():
        m = meta[cid]
        ctx['evaluations'] += 1
        if res.startswith('ERROR'):
            raise RuntimeError(res)
        t = res.split()
        if cid.endswith('D'):
            norm = lambda s: s if '/' in s else s + '/1'
            want = [[norm(a), norm(b)] for a, b in m['godD']]
            got = None if t[0] == 'NONE' else [[t[1 + 2 * i], t[2 + 2 * i]] for i in range(int(t[0]))]
            if got != want:
                mismatches.append({'case': 'SimplifyPathD', 'eps': m['eps'], 'closed': m['closed'], 'go': want, 'model': got})
            # the property's clauses on the float result, in units of 1/8 (the inputs are exact multiples of 1/8)
            if m.get('path8') is not None:
                k2 = 2 ** int(m.get('dscale', 3))
                go8 = [[int(F(a) * k2), int(F(b) * k2)] for a, b in want]
                for cl in simplify_clauses(m['path8'], F(m['eps']) * k2, m['closed'], go8, {}):
                    e = {'pathD_times_2^k': m['path8'], 'k': int(m.get('dscale', 3)), 'eps_times_2^k': float(F(m['eps']) * k2), 'closed': m['closed']}
                    viol.append({'key': FLOAT_CANCEL_KEY if (float_cancel_known(m['path8'], cl) and got == want) else fw.input_key(e), 'kind': 'D:' + cl, 'text': 'SimplifyPathD(path/2^k of %s, eps=%s, closed=%s) = 2^-k*%s: %s' % (str(m['path8'])[:300], m['eps'], m['closed'], str(go8)[:200], cl),
                                 'detail': {'corpus_entry': e, 'go_times_2^k': go8, 'model': got}})
            continue
        p, eps, closed, go = m['path'], m['eps'], m['closed'], m['go']
        model = None if t[0] == 'NONE' else [[int(t[1 + 2 * i]), int(t[2 + 2 * i])] for i in range(int(t[0]))]
        if model != go:
            mismatches.append({'path': p, 'eps': eps, 'closed': closed, 'go': go, 'model': model})
        if len(go) < len(p):
            ntriv += 1
            if len(ctx['samples']) < 3:
                ctx['samples'].append({'path': p, 'eps': eps, 'closed': closed, 'go': go, 'model': model})
        for cl in simplify_clauses(p, eps, closed, go, m):
            e = {'path': p, 'eps': eps, 'closed': closed}
            # the float-cancellation finding explains a failure only when the faithful float64 model reproduces the output
            viol.append({'key': FLOAT_CANCEL_KEY if (float_cancel_known(p, cl) and model == go) else fw.input_key(e), 'kind': cl, 'text': 'SimplifyPath64(%s, eps=%s, closed=%s) = %s: %s' % (str(p)[:300], eps, closed, str(go)[:200], cl),
                         'detail': {'corpus_entry': e, 'go': go, 'model': model, 'retained': m.get('retained'), 'retained_translated': m.get('retained_translated'), 'retained_scaled': m.get('retained_scaled'), 'v': m.get('v'), 'k': m.get('k')}})
    ctx['nontrivial'] += ntriv
    uniq, out_v = set(), []
    for v in viol:
        uk = (v['kind'], v['key'] == FLOAT_CANCEL_KEY)
        if uk in uniq:
            continue
        uniq.add(uk)
        out_v.append(v)
    return k1_finish(ctx, 'C16', out_v, mismatches, 'SimplifyPath64/SimplifyPathD')


# ------------------------------------------------------------------ C18
def run_c18(ctx):
    root = ctx['root']
    facts = open(os.path.join(root, 'coq', 'Gen', 'Facts_gen.v')).read()
    ctx['samples'].append({'generated_facts': [l for l in facts.splitlines() if l.startswith('Definition')]})
    ctx['notes'].append('Gen/Facts_gen.v is regenerated from /repo by build.sh (vh scan) on every run before the theorems are re-checked')
    rounds = _tier(ctx, 4, 60)
    env = dict(fw.ENV)
    env['VERIF_SEED'] = str(ctx['seed'])
    env['VERIF_RACE_ROUNDS'] = str(rounds)
    rc, out, dt = fw.sh(['go', 'test', '-race', '-tags', 'verif', '-run', 'TestConcurrent', '-count=1', '.'],
                        cwd=os.path.join(root, 'harness'), timeout=_tier(ctx, 900, 3600), env=env)
    nops = 26
    ctx['evaluations'] += rounds * 32 * nops
    ctx['nontrivial'] += rounds * nops
    ctx['distribution']['race_rounds'] = rounds
    ctx['distribution']['goroutines'] = 32
    viol = []
    if 'DATA RACE' in out:
        import re as _re
        first = out[out.index('DATA RACE'):][:1500]
        viol.append({'key': 'data-race:' + fw.input_key(_re.sub(r'0x[0-9a-f]+|goroutine \d+', '', first)[:400]), 'kind': 'data-race',
                     'text': 'go test -race reports a data race between concurrent independent calls: ' + ' '.join(first.split()[:40]),
                     'detail': {'race_report': first, 'seed': ctx['seed'], 'rounds': rounds, 'replay': 'cd /verif/harness && VERIF_SEED=%d VERIF_RACE_ROUNDS=%d go test -race -tags verif -run TestConcurrent -count=1 .' % (ctx['seed'], rounds)}})
    elif rc != 0:
        lines = [l for l in out.splitlines() if 'returned a different result' in l or 'shared input modified' in l or 'panic' in l]
        viol.append({'key': 'concurrent-result:' + fw.input_key(lines[:1]), 'kind': 'concurrent-result-differs',
                     'text': 'concurrent run differs from the sequential run: ' + '; '.join(lines[:3]) if lines else 'concurrent test failed: ' + out[-400:],
                     'detail': {'output': out[-3000:], 'seed': ctx['seed'], 'rounds': rounds}})
    elif 'CONCURRENT-OK' not in out and 'ok' not in out:
        raise RuntimeError('race run produced no verdict: ' + out[-500:])
    return viol


# ------------------------------------------------------------------ C11
def c11_cov(a, b, out):
    dx, dy = b[0] - a[0], b[1] - a[1]
    L = dx * dx + dy * dy
    def proj(u):
        if L == 0:
            return F(0)
        return max(F(0), min(F(1), F((u[0] - a[0]) * dx + (u[1] - a[1]) * dy, L)))
    cov = []
    for p in out:
        for i in range(len(p) - 1):
            u, v = p[i], p[i + 1]
            if geom.dist2_seg(tuple(a), tuple(b), (F(u[0]), F(u[1]))) <= 1 and geom.dist2_seg(tuple(a), tuple(b), (F(v[0]), F(v[1]))) <= 1:
                tu, tv = proj(u), proj(v)
                cov.append((min(tu, tv), max(tu, tv)))
    return cov


def c11_confirm(rect, lines, out):
    l, t, r, b = rect
    sides = [((l, t), (r, t)), ((r, t), (r, b)), ((r, b), (l, b)), ((l, b), (l, t))]
    for line in lines:
        for i in range(len(line) - 1):
            a, bb = line[i], line[i + 1]
            if a == bb:
                continue
            cov = c11_cov(a, bb, out)
            ts = set(F(k, 240) for k in range(241))
            for lo, hi in cov:
                ts.update([lo, hi])
            for tt in sorted(ts):
                qq = (a[0] + tt * (bb[0] - a[0]), a[1] + tt * (bb[1] - a[1]))
                if geom.min_dist2(sides, qq) <= 4:
                    continue
                inside = l < qq[0] < r and t < qq[1] < b
                covered = any(lo <= tt <= hi for lo, hi in cov)
                if inside != covered:
                    return {'segment': [a, bb], 't': str(tt), 'point': [str(qq[0]), str(qq[1])], 'inside': inside, 'covered': covered}
    return None


def run_c11(ctx):
    n = _tier(ctx, 12000, 300000)
    results, meta, summary = _stream(ctx, 'c11', n, 'none', _tier(ctx, 600, 3600))
    _merge_dist(ctx, summary)
    ent = lambda m: {'rect': m['rect'], 'lines': m['lines']}
    viol = []
    for d in summary.get('direct_failures') or []:
        e = ent(d)
        viol.append({'key': fw.input_key(e), 'kind': d.get('kind'), 'text': 'RectClipLinesPaths64 rect %s lines %s: %s %s' % (d['rect'], str(d['lines'])[:200], d.get('kind'), d.get('panic', '')), 'detail': {'corpus_entry': e, 'out': d.get('out')}})
    seen = set()
    for cid, res in results.items():
        m = meta[cid]
        ctx['evaluations'] += 1
        entry = ent(m)
        key = fw.input_key(entry)
        if m['out']:
            seen.add(key)
        if len(ctx['samples']) < 3 and m['out']:
            ctx['samples'].append({'rect': m['rect'], 'lines': m['lines'], 'out': m['out'], 'verdict': res.split()[0]})
        if res.startswith('OK'):
            continue
        out = m['out']
        l, t, r, b = m['rect']
        v = {'key': key, 'kind': 'rect-lines', 'detail': {'corpus_entry': entry, 'out': out, 'checker': res}}
        if 'vertex-outside' in res:
            v['text'] = 'rect %s: an output vertex lies more than 1 unit outside the rectangle: %s' % (m['rect'], out)
        elif 'vertex-off' in res:
            v['text'] = 'rect %s: an output vertex is more than 1 unit from every input segment (lines %s, output %s)' % (m['rect'], str(m['lines'])[:200], str(out)[:200])
        else:
            conf = c11_confirm(m['rect'], m['lines'], out)
            v['detail']['confirmed'] = conf
            if conf:
                v['text'] = 'rect %s: point %s of input segment %s (t=%s), > 2 units from the rectangle boundary, is %s the rectangle but %s by the result %s' % (
                    m['rect'], conf['point'], conf['segment'], conf['t'], 'inside' if conf['inside'] else 'outside', 'covered' if conf['covered'] else 'not covered', str(out)[:200])
            else:
                v['text'] = 'rectangle-line certificate rejected (%s) for input key %s' % (res[:80], key)
                v['no_input'] = True
        viol.append(v)
    ctx['nontrivial'] += len(seen)
    return viol


# ------------------------------------------------------------------ C12
def open_coverage_differs(m):
    """exact comparison of what two open solutions cover of the open subject lines, away from the closed input edges"""
    band = geom.closed_edges(m['subject']) + geom.closed_edges(m['clip'])
    for line in m['open_subjects']:
        for i in range(len(line) - 1):
            a, b = line[i], line[i + 1]
            if a == b:
                continue
            c1, c2 = c11_cov2(a, b, m['open_history']), c11_cov2(a, b, m['open_fresh'])
            ts = set(F(k, 120) for k in range(121))
            for lo, hi in c1 + c2:
                ts.update([lo, hi])
            for tt in sorted(ts):
                qq = (a[0] + tt * (b[0] - a[0]), a[1] + tt * (b[1] - a[1]))
                d2 = geom.min_dist2(band, qq)
                if d2 is not None and d2 <= 4:
                    continue
                k1, k2 = any(lo <= tt <= hi for lo, hi in c1), any(lo <= tt <= hi for lo, hi in c2)
                if k1 != k2:
                    return {'segment': [a, b], 't': str(tt), 'point': [str(qq[0]), str(qq[1])], 'covered_after_history': k1, 'covered_by_fresh_engine': k2}
    return None


def c11_cov2(a, b, out):
    # as c11_cov with the sqrt(2) tolerance used for sweep intersections
    dx, dy = b[0] - a[0], b[1] - a[1]
    L = dx * dx + dy * dy
    def proj(u):
        if L == 0:
            return F(0)
        return max(F(0), min(F(1), F((u[0] - a[0]) * dx + (u[1] - a[1]) * dy, L)))
    cov = []
    for p in out:
        for i in range(len(p) - 1):
            u, v = p[i], p[i + 1]
            if geom.dist2_seg(tuple(a), tuple(b), (F(u[0]), F(u[1]))) <= 2 and geom.dist2_seg(tuple(a), tuple(b), (F(v[0]), F(v[1]))) <= 2:
                tu, tv = proj(u), proj(v)
                cov.append((min(tu, tv), max(tu, tv)))
    return cov


def run_c12(ctx):
    n = _tier(ctx, 3000, 60000)
    results, meta, summary = _stream(ctx, 'c12', n, 'none', _tier(ctx, 600, 3600))
    _merge_dist(ctx, summary)
    viol, seen = [], set()
    for d in summary.get('direct_failures') or []:
        e = {k: d.get(k) for k in ('engine', 'history', 'g1', 'g2', 'd1', 'd2', 'jt')}
        kk = d.get('kind', '')[:60]
        if kk in seen:
            continue
        seen.add(kk)
        viol.append({'key': fw.input_key(e), 'kind': 'history', 'text': '%s: %s (history of %d operations)' % (d.get('engine'), d.get('kind'), len(d.get('history') or [])),
                     'detail': {'corpus_entry': e, 'failure': {k: d[k] for k in d if k not in ('history',) and len(str(d[k])) < 2000}}})
    nt = 0
    for cid, res in results.items():
        m = meta[cid]
        if 'calls' in m:
            ctx['evaluations'] += int(m['calls'])
            nt += 1
            if len(ctx['samples']) < 2:
                ctx['samples'].append({'history': m.get('history') or m.get('offset_history')})
            continue
        ctx['evaluations'] += 1
        entry = {'history': m['history'], 'engine_D': m['engine_D']}
        key = fw.input_key(entry)
        if m.get('open_history') is not None:
            od = open_coverage_differs(m)
            if od:
                viol.append({'key': key, 'kind': 'history-open', 'text': 'open solution after this history differs from a fresh engine\'s on the same paths: %s' % od,
                             'detail': {'corpus_entry': entry, 'difference': od, 'open_history': m['open_history'], 'open_fresh': m['open_fresh']}})
        if res.startswith('OK'):
            continue
        pred = lambda w: (w[0] % 2 != 0) == (w[1] % 2 != 0)
        conf = fw.confirm_region([m['out_history'], m['out_fresh']], geom.closed_edges(m['subject']) + geom.closed_edges(m['clip']), 4, pred, fw.parse_fail(res))
        if not conf:
            r2 = fw.recheck_deeper(ctx['root'], ctx['outdir'], [cid]).get(cid, '')
            if r2.startswith('OK'):
                continue
        v = {'key': sweep_key(m, conf, key), 'kind': 'history-region', 'detail': {'corpus_entry': entry, 'out_history': m['out_history'], 'out_fresh': m['out_fresh'], 'checker': res, 'confirmed': conf}}
        if conf:
            v['text'] = 'closed result after this history differs from a fresh engine\'s as a region at (%s, %s), windings %s' % (conf['point'][0], conf['point'][1], conf['windings'])
        else:
            v['text'] = 'history region-equality certificate rejected (%s)' % res[:80]
            v['no_input'] = True
        viol.append(v)
    ctx['nontrivial'] += nt
    return viol


# ------------------------------------------------------------------ C07
def run_c07(ctx):
    fields = ('api', 'precision', 'subject', 'clip', 'ct', 'fr', 'delta', 'arc_tolerance', 'jt', 'et', 'closed', 'is_open', 'rect')
    return run_direct(ctx, 'c07', _tier(ctx, 2500, 60000), fields,
                      lambda d: '%s at precision %s: %s' % (d.get('api'), d.get('precision'), d.get('kind')))


# ------------------------------------------------------------------ C04
def run_c04(ctx):
    n = _tier(ctx, 1500, 40000)
    results, meta, summary = _stream(ctx, 'c04', n, 'c04.jsonl', _tier(ctx, 600, 5400))
    _merge_dist(ctx, summary)
    ent = lambda m: {'subject': m['subject'], 'clip': m['clip'], 'ct': m['ct'], 'fr': m['fr']}
    viol = []
    def _canon_ring(p):
        q = [tuple(v) for v in p]
        k = q.index(min(q)) if q else 0
        return tuple(q[k:] + q[:k])

    for d in summary.get('direct_failures') or []:
        e = ent(d)
        k4 = fw.input_key(e)
        if 'not the closed paths' in (d.get('kind') or '') and d.get('flat') is not None and d.get('nodes') is not None:
            # the flat result keeps a ring of zero area (all vertices collinear) that the tree builder's bounds test drops
            import collections as _c
            fa = _c.Counter(_canon_ring(p) for p in d['flat'])
            tr = _c.Counter(_canon_ring(nd['poly']) for nd in d['nodes'])
            diff = list((fa - tr).elements()) + list((tr - fa).elements())
            if diff and not list((tr - fa).elements()) and all(shoelace2([list(map(list, r))]) == 0 for r in diff):
                k4 = 'zero-area-ring-in-flat-result-only'
        viol.append({'key': k4, 'kind': d.get('kind'), 'text': '%s (clip type %d, fill rule %d, %s): %s %s' % (d.get('api'), d['ct'], d['fr'], fw.input_key(e), d.get('kind'), d.get('panic', '')),
                     'detail': {'corpus_entry': e, 'flat': d.get('flat'), 'nodes': d.get('nodes')}})
    seen = set()
    for cid, res in results.items():
        m = meta[cid]
        ctx['evaluations'] += 1
        entry = ent(m)
        key = fw.input_key(entry)
        if 'what' not in m:
            # per-tree record: IsHole <=> negative exact area
            seen.add(key)
            if len(ctx['samples']) < 2 and len(m['nodes'] or []) >= 3:
                ctx['samples'].append({'input': entry, 'nodes': m['nodes'][:6]})
            for nd in m['nodes'] or []:
                a2 = shoelace2([nd['poly']])
                if (a2 < 0) != nd['is_hole']:
                    # "smaller than the rounding band": tiny, or so thin that no point of it is more than 2 units from its own boundary
                    sub_band = abs(a2) <= 25 or not fw.confirm_region([[nd['poly']]], geom.closed_edges([nd['poly']]), 4, (lambda w: w[0] == 0), None)
                    par = m['nodes'][nd['parent']]['poly'] if isinstance(nd.get('parent'), int) and 0 <= nd['parent'] < len(m['nodes']) else None
                    touch = (not sub_band) and par is not None and vote_inconclusive(nd['poly'], par)
                    poke = False
                    if not sub_band and not touch and par is None and a2 < 0:
                        # a hole left at the top level: is there a top-level polygon it pokes out of by less than the band?
                        poke = any(o is not nd and o.get('parent') == -1 and shoelace2([o['poly']]) > 0 and pokes_out(nd['poly'], o['poly']) for o in m['nodes'])
                    viol.append({'key': 'sub-band-polygon-misparented' if sub_band else (TOUCH_KEY if touch else (POKE_KEY if poke else key)), 'kind': 'hole-orientation', 'text': 'node %s reports IsHole()=%s but its exact doubled area is %d' % (nd['poly'][:4], nd['is_hole'], a2),
                                 'detail': {'corpus_entry': entry, 'nodes': m['nodes']}})
                    break
            continue
        if res.startswith('OK'):
            continue
        A, B = [m['node']], [m['other']]
        if m['what'] == 'parent':
            pred, txt = (lambda w: w[0] == 0 or w[1] != 0), 'a node\'s polygon is not inside its parent\'s'
        else:
            pred, txt = (lambda w: not (w[0] != 0 and w[1] != 0)), 'two sibling polygons overlap'
        conf = fw.confirm_region([A, B], geom.closed_edges(A) + geom.closed_edges(B), 4, pred, fw.parse_fail(res))
        if not conf:
            r2 = fw.recheck_deeper(ctx['root'], ctx['outdir'], [cid]).get(cid, '')
            if r2.startswith('OK'):
                continue
        k4 = sweep_key(m, conf, key)
        if k4 == key and m['what'] == 'parent' and vote_inconclusive(m['node'], m['other']):
            k4 = TOUCH_KEY
        if k4 == key and m['what'] != 'parent':
            # overlapping siblings one of which is a hole that pokes out of the other by less than the band
            for h, o in ((m['node'], m['other']), (m['other'], m['node'])):
                if shoelace2([h]) < 0 and shoelace2([o]) > 0 and pokes_out(h, o):
                    k4 = POKE_KEY
        v = {'key': k4, 'kind': 'nesting-' + m['what'], 'detail': {'corpus_entry': entry, 'node': m['node'], 'other': m['other'], 'nodes': m['nodes'], 'checker': res, 'confirmed': conf}}
        if conf:
            v['text'] = '%s at point (%s, %s) (windings %s): node %s vs %s' % (txt, conf['point'][0], conf['point'][1], conf['windings'], m['node'][:4], m['other'][:4])
        else:
            v['text'] = 'nesting certificate rejected (%s)' % res[:80]
            v['no_input'] = True
        viol.append(v)
    ctx['nontrivial'] += len(seen)
    return viol


POKE_KEY = 'rounded-ring-pokes-out-of-its-owner'


def pokes_out(hole, outer):
    """the ring `hole` has two cyclically consecutive vertices (vertices ON outer's ring not counted) strictly outside
    `outer` - which is what makes engine.go:path1InsidePath2's vote answer "not inside" - but every vertex of it is
    inside `outer` or within 2 units of outer's boundary: after rounding the ring is no longer exactly contained in the
    polygon it belongs to, and the tree builder's exact containment test rejects the only owner there is"""
    if not hole or not outer:
        return False
    edges = geom.closed_edges([outer])
    verdicts = []
    for v in hole:
        q = (F(v[0]), F(v[1]))
        if _on_ring(v, outer):
            continue
        if geom.wn([outer], q) != 0:
            verdicts.append('in')
            continue
        if geom.min_dist2(edges, q) > 4:
            return False
        verdicts.append('out')
    n = len(verdicts)
    return n >= 2 and any(verdicts[i] == 'out' and verdicts[(i + 1) % n] == 'out' for i in range(n))


TOUCH_KEY = 'owner-vote-inconclusive-touching-ring'


def _on_ring(q, ring):
    n = len(ring)
    for i in range(n):
        a, b = ring[i], ring[(i + 1) % n]
        if (b[0] - a[0]) * (q[1] - a[1]) - (b[1] - a[1]) * (q[0] - a[0]) == 0 and min(a[0], b[0]) <= q[0] <= max(a[0], b[0]) and min(a[1], b[1]) <= q[1] <= max(a[1], b[1]):
            return True
    return False


def vote_inconclusive(child, parent):
    """engine.go:path1InsidePath2 decides 'child inside parent?' by the per-vertex verdicts of the child against the
    parent's ring; when at most one vertex of the child lies off that ring the vote is inconclusive and the answer comes
    from Path2ContainsPath1's last resort, the midpoint of the child's BOUNDS (which need not be a point of the child)"""
    if not child or not parent:
        return False
    off = sum(1 for q in child if not _on_ring(q, parent))
    return off <= 1


# ------------------------------------------------------------------ C05 / C10 (offsetting)
def _offset_common(ctx, cmd, pid, n, ent, classify):
    results, meta, summary = _stream(ctx, cmd, n, 'none', _tier(ctx, 900, 5400))
    _merge_dist(ctx, summary)
    viol = []
    for d in summary.get('direct_failures') or []:
        e = ent(d)
        viol.append({'key': fw.input_key(e), 'kind': d.get('kind'), 'text': 'InflatePaths64 %s: %s %s' % (json.dumps(e)[:300], d.get('kind'), d.get('panic', '')), 'detail': {'corpus_entry': e, 'out': d.get('out')}})
    seen = set()
    # first pass results; unconfirmed rejections get a deeper cover search (wide bands need fine subdivision)
    pending = []
    for cid, res in results.items():
        m = meta[cid]
        kind = cid[-1]
        if kind.isdigit():
            ctx['evaluations'] += 1
            seen.add(fw.input_key(ent(m)))
            if len(ctx['samples']) < 3 and m.get('out'):
                ctx['samples'].append(dict(ent(m), out=m['out'][:2]))
            continue
        ctx['evaluations'] += 1
        if kind == 'e':
            # over-shrinking premise: accepted means every interior point is within |delta| - tol of the boundary
            if res.startswith('OK') and m['out']:
                # "over-shrinking yields an empty result", up to the property's 2-unit tolerance: slivers thinner than
                # the tolerance (no point farther than 2 units from the result's own boundary) are not a violation
                R = m['out']
                deep = fw.confirm_region([R], geom.closed_edges(R), 4, (lambda w: w[0] == 0), None)
                if deep:
                    e = ent(m)
                    viol.append({'key': fw.input_key(e), 'kind': 'over-shrink', 'text': 'every interior point is within |delta|-tol of the boundary but the result %s contains the point (%s, %s), more than 2 units inside it' % (str(R)[:160], deep['point'][0], deep['point'][1]),
                                 'detail': {'corpus_entry': e, 'out': R, 'confirmed': deep}})
            continue
        if not res.startswith('OK'):
            pending.append(cid)
    deeper = fw.recheck_deeper(ctx['root'], ctx['outdir'], pending, fuel=9, timeout=_tier(ctx, 900, 3600)) if pending else {}
    known_seen = {}
    for cid in pending:
        m = meta[cid]
        kind = cid[-1]
        res2 = deeper.get(cid, '')
        if res2.startswith('OK'):
            continue
        res = res2 or results[cid]
        e = ent(m)
        I = m.get('in') if m.get('in') is not None else [m['line']]
        R = m['out']
        is_open = m.get('in') is None
        delta = m['delta']
        if kind == 'a':
            sets, band, r2 = ([I, R] if delta > 0 else [R, I]), geom.closed_edges(I), 4
            pred, txt = (lambda w: w[0] == 0 or w[1] != 0), ('the input region is not contained in the grown result' if delta > 0 else 'the shrunk result is not contained in the input region')
        elif kind in 'bp':
            A = m.get('strips_paths') or m.get('inner')
            sets, band, r2 = [A, R], geom.closed_edges(R), 4
            if delta > 0 or is_open:
                pred, txt = (lambda w: w[0] == 0 or w[1] != 0), 'a point within |delta| of an input edge along its normal (or of an end point / vertex) is missing from the result'
            else:
                pred, txt = (lambda w: not (w[0] != 0 and w[1] != 0)), 'a point within |delta| of an input edge along its inward normal survives the shrinking'
        elif kind == 'c':
            sets, band, r2 = [R], geom.closed_edges(R), 4
            s = m.get('sign', 1)
            pred, txt = (lambda w: w[0] in (0, s)), 'the result is not a canonical polygon set'
        else:  # 'f'
            r2 = geom.parse_q(m['r_far2'])
            if is_open:
                closed_loop = m.get('et') == 1
                pts = [p for i, p in enumerate(I[0]) if i == 0 or p != I[0][i - 1]]
                band = geom.closed_edges([pts]) if closed_loop else geom.open_edges([pts])
                sets, pred, txt = [R], (lambda w: w[0] == 0), 'the result reaches farther than k*delta + tol from the polyline'
            else:
                band = geom.closed_edges(I)
                sets = [R, I] if delta > 0 else [I, R]
                pred = lambda w: w[0] == 0 or w[1] != 0
                txt = 'the result reaches farther than k*delta + tol from the input region' if delta > 0 else 'interior points farther than k|delta| + tol from the boundary are missing'
        # a rejection that already carries the signature of a listed finding (classified from the checker's own failing
        # point) is confirmed by exact re-evaluation only for the first few cases per finding: thousands of them occur
        pre = None
        try:
            pre = classify(m, None, kind, res)
        except TypeError:
            pre = None
        if pre is not None and known_seen.get(pre, 0) >= 25:
            conf = None
        else:
            conf = fw.confirm_region(sets, band, r2, pred, fw.parse_fail(res))
        key = fw.input_key(e)
        try:
            kc = classify(m, conf, kind, res)
        except TypeError:
            kc = classify(m, conf, kind)
        if kc is None and pre is not None and conf is None:
            kc = pre
        if kc is not None:
            known_seen[kc] = known_seen.get(kc, 0) + 1
        v = {'key': kc or key, 'kind': 'offset-' + kind, 'detail': {'corpus_entry': e, 'out': R, 'checker': res, 'confirmed': conf}}
        if conf:
            v['text'] = '%s: %s at point (%s, %s), windings %s (delta %.3f, join %s%s)' % (pid, txt, conf['point'][0], conf['point'][1], conf['windings'], delta, m.get('jt'), (', end %s' % m.get('et')) if is_open else '')
        else:
            v['text'] = 'offset certificate (%s) rejected (%s) for input key %s' % (kind, res[:80], key)
            v['no_input'] = True
        viol.append(v)
    ctx['nontrivial'] += len(seen)
    uniq, out_v = set(), []
    for v in viol:
        k = (v['key'], v['kind']) if v['key'] in ('open-end-caps-missing', 'joined-single-point-vanishes') else (v['key'], v['kind'], v['text'][:40])
        if k in uniq:
            continue
        uniq.add(k)
        out_v.append(v)
    return out_v


def run_c05(ctx):
    ent = lambda m: {'in': m['in'], 'delta': m['delta'], 'jt': m['jt'], 'miter': m.get('miter'), 'arc_tolerance': m.get('arc_tolerance')}
    return _offset_common(ctx, 'c05', 'C05', _tier(ctx, 700, 20000), ent, lambda m, conf, kind: sweep_key(m, conf, None))


def run_c10(ctx):
    ent = lambda m: {'line': m['line'], 'delta': m['delta'], 'jt': m['jt'], 'et': m['et'], 'miter': m.get('miter')}

    def classify(m, conf, kind, res=''):
        line = [p for i, p in enumerate(m['line']) if i == 0 or p != m['line'][i - 1]]
        et = m['et']
        if len(line) == 1 and et == 1:
            return 'joined-single-point-vanishes'
        if kind == 'f' and m['jt'] == 1 and conf and len(line) >= 3:
            # Square join at a vertex that turns back on itself within 2.56 degrees (cos of the angle between the edge
            # normals below -0.999): offsetPoint does not take its "concave" branch there, so doSquare is also run on
            # the inner side, where its corners reach sqrt(1 + (1/cos a + tan a)^2) * delta <= 1.4304 delta
            import math as _m
            pts = line + ([line[0], line[1]] if et == 1 else [])
            sharp = False
            for i in range(1, len(pts) - 1):
                ax, ay = pts[i][0] - pts[i - 1][0], pts[i][1] - pts[i - 1][1]
                bx, by = pts[i + 1][0] - pts[i][0], pts[i + 1][1] - pts[i][1]
                la, lb = _m.hypot(ax, ay), _m.hypot(bx, by)
                if la > 0 and lb > 0 and (ax * bx + ay * by) / (la * lb) < -0.999:
                    sharp = True
            if sharp and conf.get('min_dist2_to_band') is not None and _m.sqrt(conf['min_dist2_to_band']) <= 1.4304 * m['delta'] + m['tol'] and conf.get('marginal_only'):
                return 'square-join-u-turn-reach'
        capless = et in (2, 3, 4) or (et == 1 and len(line) <= 2)   # a 2-point Joined path is stroked as Square/Round ended
        if capless and kind in ('b', 'p'):
            if len(line) <= 2:
                return 'open-end-caps-missing'
            qq = None
            if conf:
                qq = (geom.parse_q(conf['point'][0]), geom.parse_q(conf['point'][1]))
            else:
                qq = fw.parse_fail(res)
            if qq is not None:
                lim = F(m['k'] * m['delta'] + m['tol']) ** 2
                ends = [(tuple(line[0]), tuple(line[1])), (tuple(line[-2]), tuple(line[-1]))]
                if geom.min_dist2(ends, qq) <= lim:
                    return 'open-end-caps-missing'
        return None
    return _offset_common(ctx, 'c10', 'C10', _tier(ctx, 600, 20000), ent, classify)


# ------------------------------------------------------------------ C09
def want_open(ct, fr, ws, wc):
    s, c = geom.filled(fr, ws), geom.filled(fr, wc)
    return [None, c, (not s) and (not c), not c, not c][ct]


def c09_confirm(m, seg):
    S, C, OS = m['subject'], m['clip'], m['open_solution']
    band = geom.closed_edges(S) + geom.closed_edges(C)
    a, b = seg
    # orient as the checker does
    if a[1] == b[1]:
        if a[0] > b[0]:
            a, b = b, a
    elif a[1] > b[1]:
        a, b = b, a
    cov = c11_cov2(a, b, OS)
    ts = set(F(k, 360) for k in range(361))
    for lo, hi in cov:
        ts.update([lo, hi])
        for d in (F(1, 1000), -F(1, 1000)):
            for v in (lo + d, hi + d):
                if 0 <= v <= 1:
                    ts.add(v)
    for tt in sorted(ts):
        qq = (a[0] + tt * (b[0] - a[0]), a[1] + tt * (b[1] - a[1]))
        d2 = geom.min_dist2(band, qq)
        if d2 is not None and d2 <= 4:
            continue
        w = want_open(m['ct'], m['fr'], geom.wn(S, qq), geom.wn(C, qq))
        cv = any(lo <= tt <= hi for lo, hi in cov)
        if w != cv:
            return {'segment': [a, b], 't': str(tt), 'point': [str(qq[0]), str(qq[1])], 'should_be_covered': w, 'covered': cv,
                    'windings': [geom.wn(S, qq), geom.wn(C, qq)]}
    return None


def run_c09(ctx):
    n = _tier(ctx, 2000, 50000)
    results, meta, summary = _stream(ctx, 'c09', n, 'none', _tier(ctx, 600, 5400))
    _merge_dist(ctx, summary)
    ent = lambda m: {'open': m['open'], 'subject': m['subject'], 'clip': m['clip'], 'ct': m['ct'], 'fr': m['fr']}
    viol = _direct(summary, 'C09', lambda d: {k: d.get(k) for k in ('open', 'subject', 'clip', 'ct', 'fr')})
    seen = set()
    for cid, res in results.items():
        m = meta[cid]
        entry = ent(m)
        key = fw.input_key(entry)
        ctx['evaluations'] += 1
        if 'segment' in m:
            if res.startswith('OK'):
                continue
            conf = c09_confirm(m, m['segment'])
            v = {'key': key, 'kind': 'open-coverage', 'detail': {'corpus_entry': entry, 'segment': m['segment'], 'open_solution': m['open_solution'], 'confirmed': conf}}
            if conf:
                v['text'] = 'clip type %d fill rule %d: point %s of open subject segment %s (t=%s), > 2 units from every closed edge, is %s by the open solution but should %sbe (closed windings %s)' % (
                    m['ct'], m['fr'], conf['point'], conf['segment'], conf['t'], 'covered' if conf['covered'] else 'not covered', '' if conf['should_be_covered'] else 'not ', conf['windings'])
            else:
                v['text'] = 'open-path certificate rejected for segment %s of input key %s' % (m['segment'], key)
                v['no_input'] = True
            viol.append(v)
            continue
        if cid.endswith('c'):
            if res.startswith('OK'):
                continue
            S, C, Sol, Sol0 = m['subject'], m['clip'], m['closed_solution'], m['closed_without_open']
            pred = lambda w: (w[0] % 2 != 0) == (w[1] % 2 != 0)
            conf = fw.confirm_region([Sol, Sol0], geom.closed_edges(S) + geom.closed_edges(C), 4, pred, fw.parse_fail(res))
            if not conf:
                r2 = fw.recheck_deeper(ctx['root'], ctx['outdir'], [cid]).get(cid, '')
                if r2.startswith('OK'):
                    continue
            v = {'key': sweep_key(m, conf, key), 'kind': 'closed-altered', 'detail': {'corpus_entry': entry, 'closed_solution': Sol, 'closed_without_open': Sol0, 'confirmed': conf}}
            v['text'] = ('the closed solution computed in the presence of open paths differs from the one computed without them at (%s, %s), > 2 units from every closed input edge: windings with/without open paths %s' % (conf['point'][0], conf['point'][1], conf['windings'])) if conf else 'closed-solution certificate rejected (%s)' % res[:80]
            if not conf:
                v['no_input'] = True
            viol.append(v)
            continue
        # per-case record: sub-polyline clause, decided directly
        seen.add(key) if m['open_solution'] else None
        if len(ctx['samples']) < 3 and m['open_solution']:
            ctx['samples'].append(dict(entry, open_solution=m['open_solution']))
        segs = geom.open_edges(m['open'])
        for p in m['open_solution']:
            for vtx in p:
                if segs and geom.min_dist2(segs, (F(vtx[0]), F(vtx[1]))) > 2:
                    viol.append({'key': key, 'kind': 'open-vertex-off-subject', 'text': 'open solution vertex %s is more than sqrt 2 from every open subject segment' % vtx,
                                 'detail': {'corpus_entry': entry, 'open_solution': m['open_solution']}})
                    break
    ctx['nontrivial'] += len(seen)
    return viol


REGION_TRUST = [
    "the region checker is proved sound for every real point (Cert/RegionSound.v); what ties it to the code is that the implementation's actual outputs are fed to the extracted checker on every run (generated + corpus inputs): a defect no generated input triggers stays invisible",
    fw.REAL_AXIOMS,
    "modelled rather than verified: the Vatti sweep itself (clipper_base.go, engine.go) is certified result-by-result, not proved",
]

PROPS = {
    'C01': {
        'run': run_c01, 'level': 'proof', 'trust': REGION_TRUST,
        'rule': 'structured random subject/clip pairs (8 polygon kinds, 10 grids from 3 to 2^20, shifts up to 2^29, 4 clip types x 4 fill rules, nil/empty clip, 3 API variants; a tenth of the cases dense many-vertex polygons on a small grid, a tenth tie-heavy lattice polygons (2-6 polygons on a 4..30 lattice times a scale 10..100: shared vertices, edges ending in common vertices, crossings on scanlines, exactly collinear tops), a tenth with redundant collinear vertices on the edges) plus the committed corpus (minimised failures and known-finding witnesses, run first); distinct = distinct (subject, clip, clip type, fill rule); non-trivial = the solution is non-empty',
        'assumes': ['the reading of "inside the solution" as odd winding of the solution (orientation is C02\'s business)'],
    },
    'C19': {
        'run': run_c19, 'level': 'proof', 'trust': REGION_TRUST + ['area identities: exact integer shoelace sums of the outputs computed by the driver (Python integers)'],
        'rule': 'C01-style random pairs x 4 fill rules, all five operations per input, every tenth case a many-vertex input (1000-4000 vertices, areas only); distinct = distinct (subject, clip, fill rule)',
        'assumes': [],
    },
    'C17': {
        'run': run_c17, 'level': 'proof', 'trust': REGION_TRUST + ['determinism: every call is made twice on equal inputs and compared bytewise by the harness (observed, not proved, for the sweep)',
                                                                      'K3: the three sort orderings of the sweep (horzSegSort, the processIntersectList and reset closures) are translated from /repo/clipper_base.go on every run by harness/comparators.go (a go/ast expression translator: if/return/||/&&/comparisons/nil tests/cmp.Compare over field paths; compared objects abstract) into Gen/Comparators_gen.v; the translator is trusted, an untranslatable comparator breaks the theorems'],
        'rule': 'corpus/c01.jsonl first (without the witnesses of recorded findings); C01-style random inputs (a fifth tie-heavy lattice polygons, a fifth with redundant collinear vertices); per base input 5-6 respellings (path permutation, start rotation, vertex/closing-vertex duplication, reversal under the matching fill-rule change, subject/clip exchange, one of the 7 non-trivial lattice symmetries); distinct = distinct (input, variant)',
        'assumes': ['orientation-reversing lattice symmetries exchange Positive and Negative (winding numbers negate under reflection)'],
    },
    'C06': {
        'run': run_c06, 'level': 'proof', 'trust': [t.replace('the Vatti sweep itself (clipper_base.go, engine.go)', 'the rectangle clipper state machine (rect_clip.go)') for t in REGION_TRUST] + ['vertex-in-rectangle, inside-unchanged, outside-vanishes and the driver (joint result = concatenation of per-path results) are decided directly by the harness on every case'],
        'rule': 'corpus/c06.jsonl first; a sixth of the random cases on grids 2^22..2^27; grazer family (long shallow or steep edges passing 1-6 units outside a rectangle corner and running far beyond it on both sides, joined to interior points, side-region points and further grazers); ALL 25^3 ordered triangles (thorough: also all 25^4 quadrilaterals) on the 5x5 lattice {outside, low side, middle, high side, outside} of a rectangle, whose diagonals pass through the corners; random lattice and boundary families (vertices on corners/sides, edges exactly through corners); random closed path sets (8 polygon kinds, 9 grids) x rectangles whose sides often pass through path vertices, empty and swallowing rectangles; distinct = distinct (rect, paths); non-trivial = non-empty output',
        'assumes': [],
    },
    'C15': {
        'run': run_c15, 'level': 'proof',
        'trust': ['hand-written Gallina model Model/Trim.v of TrimCollinear64 (parametric in the collinearity predicate); tied to the code by exact output comparison on every generated input (correspondence), including ALL paths of <= 4 points on the 3x3 lattice, closed and open',
                  'Model/Arith.v isCollinear/productsAreEqual/triSign models (faithful, including triSign 1 = 0)',
                  'the executable statement of the property (lib/propdefs.py trim_clauses) evaluated on the implementation outputs'],
        'rule': 'exhaustive: all closed and open paths of <= 4 points on the 3x3 lattice; random: tiny-grid paths, polygons with inserted collinear midpoints/duplicates/spikes/rotated starts, staircases, large coordinates with unit differences, fully collinear paths; non-trivial = at least one vertex removed and the result non-empty',
        'assumes': [],
    },
    'C08': {
        'run': run_c08, 'level': 'proof',
        'trust': ['Model/Minkowski.v: faithful model of minkowskiInternal, compared exactly (all quads, in order) with the implementation through the verif hook on every generated input'] + REGION_TRUST,
        'rule': 'patterns (convex, random, rectangles, stars, both orientations, empty) x paths (polygons, zigzags, single point, collinear, empty) x sum/diff x closed/open; region certification for cases with <= 24 quads; distinct = distinct input; non-trivial = non-empty quads and result',
        'assumes': ['PARTIAL: the result is certified equal to the union of the swept parallelograms at every point farther than 2 from every parallelogram edge (and canonical); points near an INTERIOR parallelogram edge whose whole 2-neighbourhood is swept are not decided by the certificate (see DESIGN.md 4.8)'],
    },
    'C14': {
        'run': run_c14, 'level': 'proof',
        'trust': ['hand-written Gallina models Model/Arith.v and Model/Measures.v (int64 wrap-around explicit, float64(int64) as round53), compared exactly with the Go functions (exported ones directly, unexported ones through the verif hooks) on every generated input',
                  'the float64 result of Area64 is compared through its exact value (2*Area64 as an integer)',
                  'lib/propdefs.py: exact-integer statement of each clause (shoelace sum, extremes, crossing parity, cross product) evaluated on the implementation outputs',
                  'PointInPolygon: the model is PROVED equal to the exact even-odd specification for every polygon of >= 3 vertices not contained in the horizontal line through the query point, coordinates within 2^29 (Model/PipProofs.v, no axioms); what remains trusted is model = code, compared exactly on every generated pair'],
        'rule': 'int64 values around 0, +-1, 2^26, 2^29, 2^53, arbitrary 64-bit patterns for the arithmetic kernels; point triples biased to exact collinearity and unit differences, a quarter of them nearly collinear far apart (every factor below 2^31, both products beyond 2^54, exact difference a few units); paths of all generator kinds plus the 2^30 square wound 1-5 times; point/polygon pairs with the point on vertices, edges and horizontals through vertices, on grids 2..10 and at 2^26/2^29, triangles spanning the whole domain with query points a few units off their long edges; CrossProduct on random, nearly collinear far-apart (products beyond 2^54, exact value below 100) and wrapping triples; non-trivial = collinear triples, paths >= 3 points, all point-in-polygon cases',
        'assumes': [],
    },
    'C03': {
        'run': run_c03, 'level': 'proof',
        'trust': ['totality theorems are about the Gallina models of the leaf routines (Trim, Minkowski, PointInPolygon, StripDuplicates, SimplifyPath, precision check), tied to the code by the correspondence checks of C14/C15/C16/C08',
                  'PARTIAL: for the sweep, ClipperOffset and the rectangle clipper "terminates, does not panic, reports success" is OBSERVED, not proved: every exported entry point is driven under recover, a 90 s wall-clock limit and a success-flag check on hostile inputs; nil dereferences and unbounded loops inside the sweep are runtime behaviours no model here exhibits'],
        'rule': 'hostile path sets (nil, empty, empty paths, 1-2 points, repeated points, all-horizontal, all-collinear, out-and-back, on-rectangle-boundary, coincident polygons, coordinates up to 2^29) x 26 API groups x clip types 0..6 x fill rules 0..5 x precisions -9..12 x deltas 0..1e7 both signs x join types 0..4 x end types 0..5 x empty/inverted rectangles; evaluations = individual API calls; a case is non-trivial always (every case drives all 26 API groups)',
        'assumes': ['D-API inputs are scaled so that quantised magnitudes stay within 2^29 (beyond it int64 products wrap: recorded under C13)'],
    },
    'C13': {
        'run': run_c13, 'level': 'proof', 'trust': REGION_TRUST + ['Model/Arith.v: explicit int64 wrap-around in the models of CrossProduct, dotProduct64, Area64, productsAreEqual'],
        'rule': 'PointInPolygon under scaling by 2^24 on flat-topped 64..256-gons (edges below 2^31, extent above 2^33; a quarter of the scaled cases); small base inputs (grids 4..100) x clip types x fill rules; translated by vectors of magnitude 2^20..2^52 and compared with the untranslated result; scaled by k up to extents 2^61 and certified against the exact boolean region with band 2 + 2^-40 x extent; Area64, PointInPolygon and SimplifyPath64 compared exactly under translation; RectClipPaths64 and InflatePaths64 (simple polygon sets, all join types) compared as regions under translation; distinct = distinct (input, vector or factor)',
        'assumes': [],
    },
    'C16': {
        'run': run_c16, 'level': 'proof',
        'trust': ['Model/Simplify.v: parametric Gallina model of the greedy removal loop (theorems for every distance function and comparison); Model/SimplifyF64.v: its float-faithful instance (binary64 = exact rational arithmetic + round-to-nearest-even at 53 bits, normal range only), compared exactly with SimplifyPath64 and SimplifyPathD outputs on every generated input',
                  'gc on amd64 does not fuse multiply-add; NaN/Inf/subnormal distances are outside the model (they need |coords| beyond the generated range)',
                  'lib/propdefs.py simplify_clauses: exact-rational statement of the property on the implementation outputs (2^-40 relative slack on the epsilon comparison so that float rounding is not an alarm)'],
        'rule': 'noisy lines at extents 2^32..2^38 with epsilon a few times the noise and genuine corners whose exact cross product is a non-zero multiple of 2^64 (1 case in 13); trim-style paths (incl. quadrilaterals with a vertex a few units off the line through far-apart neighbours), noisy lines, noisy circles, tie-rich zigzags, generic polygons x 12 epsilons + random ones x closed/open; each input also translated by up to 2^28 and scaled by 2^0..2^9 (with epsilon) to compare retained index sets; a third of the cases also through SimplifyPathD on the points/8; non-trivial = at least one vertex removed',
        'assumes': [],
    },
    'C18': {
        'run': run_c18, 'level': 'proof',
        'trust': ['K3 scanner harness/scan.go: purely syntactic (go/ast) listing of package-level variables, writes/address-taking/inc-dec whose root is one of them, init functions, go/select/channel/sync uses, in the non-test non-verif files of /repo, regenerated on every run',
                  'Model/Footprint.v: abstract interleaving model; its hypotheses (each call reads shared state and writes only private state) are what the regenerated facts support, not something proved of Go code',
                  'PARTIAL: data-race freedom under the Go memory model (allocator, runtime, govalues/decimal internals) is not modelled; it is exercised by go test -race with 32 goroutines x 18 API groups on shared read-only inputs, results compared with the sequential run'],
        'rule': 'per round: one random shared (subject, clip) input; 32 goroutines each run all 26 API groups (round-join offsets with different delta/arc-tolerance ratios, rectangle clipping of paths inside the rectangle among them) (package functions and distinct engine / offset / rect-clip objects, including the functions that may return their argument) in rotated order under -race; evaluations = calls made concurrently; non-trivial = rounds x API groups',
        'assumes': [],
    },
    'C11': {
        'run': run_c11, 'level': 'proof',
        'trust': ['Cert/RectLine.v checker proved sound for every real parameter of every input segment (Cert/RectLineSound.v); the implementation outputs are fed to the extracted checker on every run',
                  fw.REAL_AXIOMS,
                  'the reading of "covered": a point of an input segment is covered when its parameter lies between the projections of the two end points of a solution segment both of which are within 1 unit of that input segment (Cert/RectLine.v cov_intervals)',
                  'modelled rather than verified: the line state machine of rect_clip.go is certified result-by-result'],
        'rule': 'random polylines (2..7 points, a quarter of them 2-point segments) around rectangles on grids 10..1000, with lines along a side, through a corner and ending on a corner; joint result compared with per-line results; non-trivial = non-empty output',
        'assumes': [],
    },
    'C12': {
        'run': run_c12, 'level': 'proof',
        'trust': ['Model/Engine.v: hand-written state machine of the engine between calls (flags, scratch lists abstracted to lengths) with the sweep as an oracle; tied to the code by the verif hook VerifScratch: after every history the real engine\'s scratch lengths and sticky flags are compared with the model\'s state',
                  'the oracle hypotheses of C12_fresh_engine (flat output independent of the tree flag; dependence on the added paths only) are what the harness tests: every Execute after a random history is compared with a fresh engine (bytewise; by certified region equality / exact coverage comparison when paths were added in several calls)',
                  'input immutability is checked dynamically (deep copies before/after every call in every harness), not proved'] + REGION_TRUST,
        'rule': 'random histories of 3-11 operations (AddPaths subject/clip/open, Execute, ExecuteOC, ExecutePolyTree, random clip types and fill rules, one execute in six with a fill rule outside the enumeration and one in twelve with NoClip or an out-of-range clip type, pre-filled solution arguments) on Clipper64 and ClipperD, each execute compared with a fresh engine; ClipperOffset executed twice with different deltas and with a group (possibly of another join type) added in between; evaluations = operations; non-trivial = histories',
        'assumes': [],
    },
    'C07': {
        'run': run_c07, 'level': 'proof',
        'trust': ['K3 translator harness/translate.go: prints the bodies of the floating-point wrappers from /repo\'s current source as terms of the wrapper IR (coq/Model/WrapperIR.v) on every run; the Coq interpreter gives them meaning over uninterpreted primitives (the 64-bit entry points, the scale helpers, math.Pow) and the theorems are re-checked against the regenerated terms',
                  'the numeric behaviour of the quantiser (float64 product, govalues/decimal shortest-decimal parse, half-even Int64(0)) is an oracle: the property itself takes the library\'s quantiser as the reference',
                  'differential run: every float entry point is also executed and compared bit for bit with its 64-bit counterpart applied to ScalePathsDToPaths64(input) and unscaled by ScalePaths64ToPathsD, for all 17 precisions and 4 illegal ones'],
        'rule': 'float inputs on a lattice of quanta with sub-quantum jitter (exact ties at .5, .49999, .50001) x 21 precisions x 13 entry points (boolean ops, wrappers, engine object, engine object with open subjects through ExecuteOC and ExecutePolyTreeD, PolyTree, inflate, Minkowski sum/diff, rectangle clipping of polygons and lines, trim); evaluations = entry-point calls; non-trivial = inputs',
        'assumes': [],
    },
    'C04': {
        'run': run_c04, 'level': 'proof',
        'trust': REGION_TRUST + ['Model/PolyTree.v: node API (Level/IsHole) and the abstract nesting lemma (polygons containing a point form a chain, so a parent is the innermost polygon around its child)',
                                 'same-polygons (as cyclic vertex sequences, each exactly once), Level = parent level + 1, IsHole <=> even level, IsHole <=> negative exact area are decided directly on every tree'],
        'rule': 'corpus/c04.jsonl first; nested rings to depth 6 (islands in holes in islands, second islands touching their hole), nested-vs-nested, rectangle soups on a coarse lattice (a quarter of them 4-6 rectangles a side), messy polygons inside one or two big frames (every ring nested), the cavities family (an arch glued to a base bar whose cavity is cut into 2-4 holes by pairs of shelves meeting along a horizontal segment, an island in every hole, 4 orientations x 4 scales), the pinch family (two clip bars meeting along a horizontal line, holes and islands aligned with it), and generic random pairs x clip types x fill rules through BooleanOpPolyTree64 and Clipper64.ExecutePolyTree64 (the float tree is tied to the 64-bit one by C07); pairwise parent/sibling certificates for trees of <= 14 nodes; non-trivial = depth >= 2',
        'assumes': [],
    },
    'C05': {
        'run': run_c05, 'level': 'proof', 'trust': [t.replace('the Vatti sweep itself (clipper_base.go, engine.go)', 'the offsetter\'s per-vertex join construction (offset.go: float trigonometry, not modelled) and the final union') for t in REGION_TRUST] + [
                  'the strips and discs handed to the checker (points within |delta|-1 of an edge along its normal, discs of radius |delta|-tol about vertices for round joins) are built by the harness in floating point and rounded to the lattice; their containment in the ideal |delta|-tol neighbourhood is not re-proved',
                  'squared radii (k|delta| + tol)^2 are passed as rational upper bounds chosen by the harness; the checker uses them exactly'],
        'rule': 'huge thin quadrilaterals (one side 3.1e9..4.2e9 units: its squared length exceeds 2^63; 4 orientations, slightly slanted) in a ninth of the cases; simple polygon sets (1-2 star-shaped islands of 3-10 vertices, holes inside islands with >= 6 vertices listed before or after their island, either global orientation, rings also written with an explicit closing vertex or a repeated vertex; needles with an interior angle below 2.5 degrees) x deltas of both signs from 0.3 to 2.5 diameters x 4 join types x miter limits 1..5 x arc tolerances 0..3, through InflatePaths64 and ClipperOffset with one group per island; per case up to 5 certificates (input kept / result inside input, normal strips and vertex discs, far bound, canonical form, over-shrink premise); non-trivial = |delta| >= 0.5',
        'assumes': ['PARTIAL: certified with bands of 2 units around the input edges / the result\'s own edges and the radius k|delta|+tol; the join construction itself is not modelled'],
    },
    'C10': {
        'run': run_c10, 'level': 'proof', 'trust': [t.replace('the Vatti sweep itself (clipper_base.go, engine.go)', 'the offsetter\'s per-vertex join construction (offset.go: float trigonometry, not modelled) and the final union') for t in REGION_TRUST] + [
                  'the strips and discs handed to the checker (points within |delta|-1 of an edge along its normal, discs of radius |delta|-tol about vertices for round joins) are built by the harness in floating point and rounded to the lattice; their containment in the ideal |delta|-tol neighbourhood is not re-proved',
                  'squared radii (k|delta| + tol)^2 are passed as rational upper bounds chosen by the harness; the checker uses them exactly'],
        'rule': 'open polylines of 1-6 points (duplicates, gentle turns), flat zigzags stroked as Joined loops with a half-width above half their height (a seventh of the cases), polylines with one near-vertical segment of 3.1e9..4.2e9 units (an eleventh of the cases; near-horizontal ones are not generated: the cover search of the far-band certificate bisects cells and would need ~35 levels next to the end caps), loops whose last point repeats the first, a third of the calls with 1-2 companion polylines in the same call x 4 end types x 4 join types x half-widths 5%-30% of the segment length; per case: canonical form, both normal strips of every segment inside the result, nothing farther than k*delta+tol from the polyline, single points against an inscribed square/disc',
        'assumes': ['PARTIAL as C05'],
    },
    'C09': {
        'run': run_c09, 'level': 'proof',
        'trust': ['Cert/Line.v checker proved sound for every real parameter of every open subject segment (Cert/LineSound.v): slab ordering for non-horizontal segments, split-point chains for horizontal ones, exact pointwise evaluation at the end point; the implementation outputs are fed to the extracted checker on every run',
                  fw.REAL_AXIOMS,
                  'the reading of "covered" (Cert/RectLine.v cov_intervals with tolerance sqrt 2): the parameter lies between the projections of the end points of a solution segment both within sqrt 2 of the subject segment',
                  'Xor is read as the code documents it for open paths (as Difference)',
                  'the closed solution computed together with open paths is certified against the closed inputs alone by C01_region; the sub-polyline clause (vertices within sqrt 2 of a subject segment) is decided directly',
                  'modelled rather than verified: the sweep\'s open-path handling is certified result-by-result'],
        'rule': 'open polylines (2-7 points, horizontal segments anywhere including the first and doubling back, starting on clip vertices / running along clip edges) x closed clip sets (and closed subjects in a third of the cases) x 4 clip types x 4 fill rules through Clipper64.AddPaths(..., Subject, true) + ExecuteOC; every open subject segment is a certificate; non-trivial = non-empty open solution',
        'assumes': [],
    },
    'C02': {
        'run': run_c02, 'level': 'proof', 'trust': REGION_TRUST,
        'rule': 'outputs of the C01 stream (a sixth rectangle soups, a sixth nested mixed rings, a sixth tie-heavy lattice polygons) under all four (reverse-solution, preserve-collinear) settings, plus the re-union run; distinct = distinct (input, options); non-trivial = non-empty solution',
        'assumes': [],
    },
}


# K3 additions (models regenerated from the source text on every run)
_K3DEC = "K3: clipper_base.go:isContributingClosed / isContributingOpen are translated from the current source on every run (harness/decisions.go: switch/if/return/local variables, continuation-passing) into Gen/Decisions_gen.v and proved equal to 'the expected region differs across the edge' / want_open for every fill rule, clip type and wind count (Model/DecisionProofs.v); the translator is trusted, untranslatable code breaks the theorem"
_K3WC = 'K3: the wind-count statements of setWindCountForClosedPathEdge and intersectEdges are translated (harness/fragments.go) into Gen/Windcount_gen.v and proved to maintain the left/right encoding of windCount (Model/WindcountProofs.v); the global sweep invariant (ordered active edge list, every crossing found) is NOT proved'
_K3NP = "K3: the tail of intersectEdges that decides whether two crossing non-hot edges start a new output polygon is translated (harness/newpoly.go; a call of addLocalMinPoly read as true, a bare return as false) into Gen/NewPoly_gen.v and proved to say 'both edges are contributing' for edges of the same path set (Model/NewPolyProofs.v)"
_K3RECT = "K3: rect_clip.go:getLocation, headingClockwise, getAdjacentLocation, areOpposites, getEdgesForPt, and the five decisions of getNextLocation (the stay condition of each outside state, the classification of the first point that left it — proved to test the OPPOSITE side first —, the classification from Inside; cut out of the source text and rewritten as functions of (pt, rec): any other shape of that function is refused) are translated on every run (harness/pure.go) into Gen/RectLeaf_gen.v and proved against their specifications (Model/RectLeafProofs.v); Go's % is read as Z.modulo (operands are non-negative in the stated ranges); the translator is trusted"
for _pid, _extra in (('C01', [_K3DEC, _K3WC, _K3NP]), ('C19', [_K3DEC, _K3NP]), ('C09', [_K3DEC]), ('C06', [_K3RECT]), ('C11', [_K3RECT])):
    PROPS[_pid]['trust'] = list(PROPS[_pid]['trust']) + _extra

_K3KER = ("K3: the scalar arithmetic kernels (internal_clipper.go triSign, multiplyUInt64, productsAreEqual, isCollinear, CrossProduct, dotProduct64, getSegmentIntersectPt; "
          "clipper.go PerpendicDistFromLineSqr64/D, the guard / initial state / loop body of Area64, getBounds, GetBounds64; generics.go sqr; core.go NewRect64Invalid) are translated "
          "from the current source on every run (harness/kernels.go: typed translation, int64 -> wrapping Z operations, uint64 -> Z mod 2^64, float64 -> exact rationals rounded to 53 bits "
          "after every operation) into Gen/Kernels_gen.v and proved EQUAL to the hand-written models the theorems are about (Model/KernelProofs.v); trusted: the translator, the float64 "
          "reading (round to nearest even, no overflow/NaN, no fused multiply-add: true on amd64), the text comparison of the statements after a loop (Area64's conversion through the decimal package is "
          "modelled as float64(a)/2 and compared with the code on every generated input)")
for _pid in ('C08', 'C13', 'C14', 'C15', 'C16'):
    PROPS[_pid]['trust'] = list(PROPS[_pid]['trust']) + [_K3KER]

_K3KER2 = ("K3 (second batch): core.go Rect64.IsEmpty / MidPoint / Contains / Intersects / NewRect64, Point64.Equals; engine.go pointsEqual, ptsReallyClose (generics.go absInt inlined "
           "from its own body), IsOdd, areaTriangle, topX (the scalar leaves it reads through its *Active become parameters named by their field path); rect_clip.go hasVertOverlap, "
           "hasHorzOverlap, isHorizontalPoint, getSegmentIntersection are translated on every run (harness/kernels2.go, same typed translator: Go's integer / and % as truncating "
           "Z.quot / Z.rem under wrap64, max/min as Z.max/Z.min, & on int as Z.land, math.Round as exact round-half-away, struct == field by field, methods with a pointer receiver "
           "that only read it as functions of the receiver's fields) into Gen/Kernels2_gen.v and proved against their specifications in Model/Kernel2Proofs.v (Contains = every point "
           "of the argument is inside, Intersects = the closed rectangles share a point, getSegmentIntersection's reported point lies on both closed segments unless the segments cross "
           "properly, topX is exactly the vertex at both ends of an edge and on vertical edges); the rounding error of topX strictly inside an edge is NOT bounded by a theorem")
for _pid in ('C01', 'C02', 'C06', 'C11'):
    PROPS[_pid]['trust'] = list(PROPS[_pid]['trust']) + [_K3KER2]

_K3AEL = ("K3: the first three statements of engine.go:isValidAelOrder (all that runs unless the two edges are collinear) are translated on every run as a prefix whose remaining statements are a "
          "parameter (harness/kernels2.go) and proved to order a new edge in the active edge list geometrically: by current X, else — coordinates within 2^29, both edges leaving the common point "
          "upwards, not collinear — to the right exactly when its line is to the right of the resident's at every real ordinate above the scanline (Model/AelOrderProofs.v, depends on the standard "
          "library's real-number axioms); the collinear tie-breaks and the global order invariant of the list are NOT proved")
PROPS['C01']['trust'] = list(PROPS['C01']['trust']) + [_K3AEL]
_K3FP = ("K3 tripwire: the SHA-256 of the normalised source text of the functions coq/Model models by hand is regenerated on every run (harness/fingerprints.go -> Gen/Fingerprints_gen.v) and "
         "stated equal to the values recorded when the models were last reconciled with the code (Model/Fingerprints.v, written only by tools/update_fingerprints.sh on a clean tree); not a "
         "semantic tie: any edit of a modelled function breaks the obligation, the check then widens its search (three more streams) and reports the broken obligation with or without a failing input")
for _pid in ('C04', 'C08', 'C14', 'C15', 'C16'):
    PROPS[_pid]['trust'] = list(PROPS[_pid]['trust']) + [_K3FP]
PROPS['C19']['trust'] = list(PROPS['C19']['trust']) + [_K3KER2]
