"""propdefs.py — one entry per property: how its stream is produced, how a
reported failure is confirmed, what is trusted."""
import os, json
from fractions import Fraction as F
import geom
import props as fw


def _tier(ctx, quick, thorough):
    return quick if ctx['tier'] == 'quick' else thorough


def _corpus_args(ctx, name):
    """corpus file (runs first) or, in replay mode, the single replayed input"""
    if ctx.get('replay'):
        rep = json.load(open(ctx['replay']))
        entry = (rep.get('detail') or {}).get('corpus_entry')
        fn = os.path.join(ctx['workdir'], 'replay_corpus.jsonl')
        with open(fn, 'w') as f:
            if entry is not None:
                f.write(json.dumps(entry) + '\n')
        return [fn], 0
    fn = os.path.join(ctx['root'], 'corpus', name)
    return ([fn] if os.path.exists(fn) else []), None


def _stream(ctx, cmd, n, corpus_name, timeout):
    args, force_n = _corpus_args(ctx, corpus_name)
    if force_n is not None:
        n = force_n
    out, err = fw.run_stream(ctx['root'], ctx['workdir'], cmd, ctx['seed'], n, args)
    if out is None:
        raise RuntimeError(err)
    results, ncases, timed_out = fw.run_checker(ctx['root'], out, timeout)
    ctx['outdir'] = out
    meta = fw.load_meta(out)
    summary = json.load(open(os.path.join(out, 'summary.json')))
    if timed_out:
        ctx['notes'].append('checker shard(s) hit the time limit; unevaluated cases are not counted')
    return results, meta, summary


def _merge_dist(ctx, summary):
    for k, v in (summary.get('distribution') or {}).items():
        ctx['distribution'][k] = ctx['distribution'].get(k, 0) + v


def _c01_entry(m):
    return {'subject': m['subject'], 'clip': m['clip'], 'clip_nil': m.get('clip_nil', False), 'ct': m['ct'], 'fr': m['fr']}


def _direct(summary, pid, entry_fn):
    out = []
    for d in summary.get('direct_failures') or []:
        entry = entry_fn(d)
        out.append({'key': fw.input_key(entry), 'kind': d.get('kind'),
                    'text': '%s: %s (api %s) on input key %s' % (d.get('kind'), d.get('panic') or '', d.get('api'), fw.input_key(entry)),
                    'detail': {'corpus_entry': entry, 'failure': {k: d[k] for k in d if k not in ('subject', 'clip')}}})
    return out


# ------------------------------------------------------------------ C01
def run_c01(ctx):
    n = _tier(ctx, 4000, 60000)
    results, meta, summary = _stream(ctx, 'c01', n, 'c01.jsonl', _tier(ctx, 600, 5400))
    _merge_dist(ctx, summary)
    viol = _direct(summary, 'C01', _c01_entry)
    seen = set()
    for cid, res in results.items():
        if not cid.startswith('c01-'):
            continue
        m = meta[cid]
        ctx['evaluations'] += 1
        key = fw.input_key(_c01_entry(m))
        if len(m['solution']) > 0 and key not in seen:
            seen.add(key)
        if len(ctx['samples']) < 3:
            ctx['samples'].append({'id': cid, 'subject': m['subject'], 'clip': m['clip'], 'ct': m['ct'], 'fr': m['fr'],
                                   'api': m['api'], 'solution': m['solution'], 'verdict': res.split()[0]})
        if res.startswith('OK'):
            continue
        S, C, Sol = m['subject'], m['clip'] or [], m['solution']
        ct, fr = m['ct'], m['fr']
        pred = lambda w: (w[2] % 2 != 0) == geom.expected(ct, geom.filled(fr, w[0]), geom.filled(fr, w[1]))
        conf = fw.confirm_region([S, C, Sol], geom.closed_edges(S) + geom.closed_edges(C), 4, pred, fw.parse_fail(res))
        if not conf:
            r2 = fw.recheck_deeper(ctx['root'], ctx['outdir'], [cid]).get(cid, '')
            if r2.startswith('OK'):
                ctx['distribution']['accepted_at_deeper_cover'] = ctx['distribution'].get('accepted_at_deeper_cover', 0) + 1
                continue
        entry = _c01_entry(m)
        v = {'key': key, 'kind': 'region', 'detail': {'corpus_entry': entry, 'api': m['api'], 'solution': Sol,
                                                       'checker': res, 'confirmed': conf}}
        if conf:
            v['text'] = 'clip type %d fill rule %d (%s): at point (%s, %s), > 2 units from every input edge, windings subject/clip/solution = %s contradict the boolean combination' % (
                ct, fr, m['api'], conf['point'][0], conf['point'][1], conf['windings'])
        else:
            v['text'] = 'region certificate rejected (%s) for input key %s; theorem C01_region no longer applies to this output' % (res[:80], key)
            v['no_input'] = True
        viol.append(v)
    ctx['nontrivial'] += len(seen)
    return viol


# ------------------------------------------------------------------ C02
def canonical_syntax_errors(sol):
    errs = []
    for i, p in enumerate(sol):
        if len(p) < 3:
            errs.append('path %d has %d vertices' % (i, len(p)))
        for j in range(len(p)):
            if p[j] == p[(j + 1) % len(p)]:
                errs.append('path %d repeats vertex %s at %d' % (i, p[j], j))
                break
    return errs


def run_c02(ctx):
    n = _tier(ctx, 3000, 60000)
    results, meta, summary = _stream(ctx, 'c02', n, 'c01.jsonl', _tier(ctx, 600, 5400))
    _merge_dist(ctx, summary)
    viol = _direct(summary, 'C02', _c01_entry)
    seen = set()
    for cid, res in results.items():
        if not cid.startswith('c02-'):
            continue
        m = meta[cid]
        ctx['evaluations'] += 1
        entry = dict(_c01_entry(m), rev=m.get('rev', False), pc=m.get('pc', True))
        key = fw.input_key(entry)
        Sol = m['solution']
        if len(Sol) > 0:
            seen.add(key)
        if len(ctx['samples']) < 3:
            ctx['samples'].append({'id': cid, 'solution': Sol, 'reverse': m.get('rev', False), 'verdict': res.split()[0], 'what': m.get('what', 'canon')})
        what = m.get('what', 'canon')
        if what == 'syntax':
            continue
        if res.startswith('OK'):
            continue
        if what == 'reunion':
            # Sol2 = Union(Sol, NonZero) must describe the same region as Sol away from Sol's edges
            Sol2 = m['solution2']
            pred = lambda w: (w[0] != 0) == (w[1] != 0)
            conf = fw.confirm_region([Sol, Sol2], geom.closed_edges(Sol), 4, pred, fw.parse_fail(res))
            txt = 're-uniting the solution changed the region'
        else:
            s = -1 if m.get('rev') else 1
            pred = lambda w: w[0] == 0 or w[0] == s
            conf = fw.confirm_region([Sol], geom.closed_edges(Sol), 4, pred, fw.parse_fail(res))
            txt = 'solution winding number is neither 0 nor %d' % s
        if not conf:
            r2 = fw.recheck_deeper(ctx['root'], ctx['outdir'], [cid]).get(cid, '')
            if r2.startswith('OK'):
                ctx['distribution']['accepted_at_deeper_cover'] = ctx['distribution'].get('accepted_at_deeper_cover', 0) + 1
                continue
        v = {'key': key, 'kind': 'canonical-' + what, 'detail': {'corpus_entry': entry, 'solution': Sol, 'checker': res, 'confirmed': conf}}
        if conf:
            v['text'] = '%s at point (%s, %s) > 2 units from every solution edge: windings %s (clip type %d, fill rule %d, reverse=%s)' % (
                txt, conf['point'][0], conf['point'][1], conf['windings'], m['ct'], m['fr'], m.get('rev', False))
        else:
            v['text'] = 'canonical-form certificate rejected (%s) for input key %s' % (res[:80], key)
            v['no_input'] = True
        viol.append(v)
    # the syntactic half is decided directly on every output
    for cid, m in meta.items():
        if not cid.startswith('c02-') or m.get('what', 'canon') not in ('canon', 'syntax'):
            continue
        errs = canonical_syntax_errors(m['solution'])
        if errs:
            entry = dict(_c01_entry(m), rev=m.get('rev', False), pc=m.get('pc', True))
            viol.append({'key': fw.input_key(entry), 'kind': 'canonical-syntax',
                         'text': 'solution path not canonical: ' + '; '.join(errs[:3]),
                         'detail': {'corpus_entry': entry, 'solution': m['solution'], 'errors': errs}})
    ctx['nontrivial'] += len(seen)
    return viol


REGION_TRUST = [
    "the region checker is proved sound for every real point (Cert/RegionSound.v); what ties it to the code is that the implementation's actual outputs are fed to the extracted checker on every run (generated + corpus inputs): a defect no generated input triggers stays invisible",
    fw.REAL_AXIOMS,
    "modelled rather than verified: the Vatti sweep itself (clipper_base.go, engine.go) is certified result-by-result, not proved",
]

PROPS = {
    'C01': {
        'run': run_c01, 'level': 'proof', 'trust': REGION_TRUST,
        'rule': 'structured random subject/clip pairs (8 polygon kinds, 10 grids from 3 to 2^20, shifts up to 2^29, 4 clip types x 4 fill rules, nil/empty clip, 3 API variants) plus the committed corpus; distinct = distinct (subject, clip, clip type, fill rule); non-trivial = the solution is non-empty',
        'assumes': ['the reading of "inside the solution" as odd winding of the solution (orientation is C02\'s business)'],
    },
    'C02': {
        'run': run_c02, 'level': 'proof', 'trust': REGION_TRUST,
        'rule': 'outputs of the C01 stream under all four (reverse-solution, preserve-collinear) settings, plus the re-union run; distinct = distinct (input, options); non-trivial = non-empty solution',
        'assumes': [],
    },
}
