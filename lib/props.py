"""props.py — the per-property pipelines behind ./check (see DESIGN.md)."""
import os, sys, json, time, subprocess, re, hashlib, glob, shutil
from fractions import Fraction as F
import geom

NPROC = 16
ENV = dict(os.environ)
ENV['GOFLAGS'] = '-mod=mod'
ENV['GOPROXY'] = 'off'
# NB: GOTOOLCHAIN=local / GOSUMDB=off break the cached-toolchain switch for go 1.25
ENV.pop('GOTOOLCHAIN', None)
ENV.pop('GOSUMDB', None)

COMMON_TRUST = [
    "Coq 8.16.1 kernel (coqc); vm_compute used in concrete Examples only; no native_compute",
    "extraction to OCaml via ExtrOcamlBasic only (its stock Extract Inductive for bool/option/unit/list/prod/sumbool/sumor and Extract Inlined Constant for andb/orb/negb/fst/snd); Z, positive, Q, nat stay extracted inductives; ocamlfind ocamlopt 4.13.1",
    "ocaml/main.ml (unverified glue: parses cases, prints verdicts)",
    "Go harness /verif/harness (generators, untrusted certificate finder, serialisation) built with -tags verif against /repo's working tree",
    "lib/geom.py: independent exact-rational confirmation of every reported witness",
    "Base/Geom.v: the reading of 'winding number', 'inside', 'far from every edge' (definitions)",
]
REAL_AXIOMS = "axioms reported by Print Assumptions: standard-library real-number axioms (ClassicalDedekindReals.sig_forall_dec, sig_not_dec, FunctionalExtensionality.functional_extensionality_dep); none declared by this development"


def sh(cmd, cwd=None, timeout=3600, env=None, stdin=None):
    t0 = time.time()
    try:
        p = subprocess.run(cmd, cwd=cwd, shell=isinstance(cmd, str), env=env or ENV,
                           stdout=subprocess.PIPE, stderr=subprocess.STDOUT, timeout=timeout, stdin=stdin)
        return p.returncode, p.stdout.decode('utf-8', 'replace'), time.time() - t0
    except subprocess.TimeoutExpired as e:
        out = (e.stdout or b'').decode('utf-8', 'replace')
        return 124, out + '\n[timeout]', time.time() - t0


# ---------------------------------------------------------------- builds
def build_harness(root):
    hd = os.path.join(root, 'harness')
    try:
        shutil.copy('/repo/go.sum', os.path.join(hd, 'go.sum'))
    except Exception:
        pass
    os.makedirs(os.path.join(root, 'build'), exist_ok=True)
    rc, out, _ = sh(['go', 'build', '-tags', 'verif', '-o', os.path.join(root, 'build', 'vh'), '.'], cwd=hd, timeout=900)
    return rc == 0, out


def build_coq(root):
    """make (no-op when current) + extraction + ocaml driver when stale"""
    rc, out, _ = sh(['bash', os.path.join(root, 'build.sh')], cwd=root, timeout=3000)
    return rc == 0, out


def theorem_names(vfile):
    names = []
    try:
        for line in open(vfile):
            m = re.match(r'\s*(Theorem|Lemma|Example|Corollary)\s+([A-Za-z0-9_\']+)', line)
            if m:
                names.append(m.group(2))
    except FileNotFoundError:
        pass
    return names


def check_props(root, pid, extra_files=()):
    """re-check the property's theorem file(s) with coqc; returns dict"""
    coq = os.path.join(root, 'coq')
    files = ['Props/%s.v' % pid] + list(extra_files)
    res = {'files': files, 'obligations': [], 'discharged': [], 'assumptions': '', 'ok': True, 'log': ''}
    for f in files:
        vf = os.path.join(coq, f)
        names = theorem_names(vf)
        res['obligations'] += names
        if not os.path.exists(vf):
            res['ok'] = False
            res['log'] += 'missing ' + f + '\n'
            continue
        rc, out, _ = sh(['coqc', '-Q', '.', 'Clip', f], cwd=coq, timeout=1200)
        if rc != 0 and 'inconsistent assumptions' in out:
            # a compiled dependency is older than what it imports (an interrupted build): finish the build, retry once
            sh(['make', '-j16'], cwd=coq, timeout=2400)
            rc, out, _ = sh(['coqc', '-Q', '.', 'Clip', f], cwd=coq, timeout=1200)
        res['log'] += out[-4000:]
        if rc == 0:
            res['discharged'] += names
            res['assumptions'] += out
        else:
            res['ok'] = False
    # hygiene grep over the whole development
    rc, out, _ = sh("grep -rnE '\\b(Admitted|admit|Axiom|Parameter|Conjecture)\\b|Unset Guard|bypass_check|type-in-type' --include=*.v . | grep -v '^./Gen/.*Parameter' || true", cwd=coq)
    bad = [l for l in out.splitlines() if l.strip() and '(*' not in l.split(':', 2)[-1][:3]]
    res['hygiene'] = bad
    if bad:
        res['ok'] = False
    return res


def axioms_of(text):
    ax = set()
    for l in text.splitlines():
        m = re.match(r'^([A-Za-z_][A-Za-z0-9_]*(\.[A-Za-z0-9_\']+)+)\s*(:.*)?$', l)
        if m:
            ax.add(m.group(1))
    return sorted(ax)


# ---------------------------------------------------------------- streams
class HarnessCrash(Exception):
    def __init__(self, cmd, inp, msg):
        Exception.__init__(self, msg)
        self.cmd, self.inp, self.msg = cmd, inp, msg


def run_stream(root, workdir, cmd, seed, n, extra_args=()):
    out = os.path.join(workdir, cmd)
    shutil.rmtree(out, ignore_errors=True)
    os.makedirs(out)
    rc, log, _ = sh([os.path.join(root, 'build', 'vh'), cmd, '-seed', str(seed), '-n', str(n), '-out', out] + list(extra_args),
                    timeout=3000)
    if rc != 0:
        cur = os.path.join(out, 'current.json')
        if os.path.exists(cur) and ('fatal error' in log or 'stack overflow' in log or 'signal' in log):
            # the library killed the process in a way no recover can catch: a violation of its own, with its input
            try:
                inp = json.load(open(cur))
            except Exception:
                inp = None
            i = log.find('fatal error')
            raise HarnessCrash(cmd, inp, log[max(0, i):i + 600] if i >= 0 else log[-600:])
        return None, 'harness command %s failed rc=%d\n%s' % (cmd, rc, log[-3000:])
    return out, ''


def run_checker(root, outdir, timeout):
    """run the extracted checker over cases.txt in NPROC shards; returns {id: resultline}"""
    cases = os.path.join(outdir, 'cases.txt')
    lines = open(cases).read().splitlines()
    shards = [[] for _ in range(NPROC)]
    for i, l in enumerate(lines):
        shards[i % NPROC].append(l)
    procs = []
    for k, sl in enumerate(shards):
        if not sl:
            continue
        fn = os.path.join(outdir, 'shard.%02d' % k)
        with open(fn, 'w') as f:
            f.write('\n'.join(sl) + '\n')
        fo = open(fn + '.out', 'w')
        p = subprocess.Popen([os.path.join(root, 'ocaml', 'clipcheck')], stdin=open(fn), stdout=fo, stderr=subprocess.STDOUT)
        procs.append((p, fn, fo, len(sl)))
    t0 = time.time()
    results = {}
    timed_out = False
    for p, fn, fo, cnt in procs:
        left = max(1, timeout - (time.time() - t0))
        try:
            p.wait(timeout=left)
        except subprocess.TimeoutExpired:
            p.kill()
            timed_out = True
        fo.close()
        for l in open(fn + '.out'):
            t = l.rstrip('\n').split(' ', 1)
            if len(t) == 2:
                results[t[0]] = t[1]
    return results, len(lines), timed_out


def recheck_deeper(root, outdir, ids, fuel=9, timeout=600):
    """second stage for rejected-but-unconfirmed cases: the same certificate with a
    deeper cover search (acceptance at any depth is sound)"""
    want = set(ids)
    if not want:
        return {}
    lines = []
    for l in open(os.path.join(outdir, 'cases.txt')):
        cid = l.split(' ', 1)[0]
        if cid in want:
            lines.append(re.sub(r' fuel=\d+ ', ' fuel=%d ' % fuel, l.rstrip('\n')))
    d = os.path.join(outdir, 'deeper')
    os.makedirs(d, exist_ok=True)
    with open(os.path.join(d, 'cases.txt'), 'w') as f:
        f.write('\n'.join(lines) + '\n')
    res, _, _ = run_checker(root, d, timeout)
    # third stage for the few that are still rejected: wide bands need cells finer than the margin
    still = [l for l in lines if not res.get(l.split(' ', 1)[0], '').startswith('OK')]
    if still and fuel < 13 and len(still) <= 400:
        d3 = os.path.join(outdir, 'deepest')
        os.makedirs(d3, exist_ok=True)
        with open(os.path.join(d3, 'cases.txt'), 'w') as f:
            f.write('\n'.join(re.sub(r' fuel=\d+ ', ' fuel=13 ', l) for l in still) + '\n')
        res3, _, _ = run_checker(root, d3, timeout)
        for k, v in res3.items():
            if v.startswith('OK'):
                res[k] = v
    return res


def load_meta(outdir):
    meta = {}
    for l in open(os.path.join(outdir, 'meta.jsonl')):
        m = json.loads(l)
        meta[m['id']] = m
    return meta


# ---------------------------------------------------------------- known findings
def load_known(root):
    known, fixed = [], []
    fn = os.path.join(root, 'KNOWN_FINDINGS.txt')
    if os.path.exists(fn):
        for l in open(fn):
            l = l.strip()
            if l.startswith('known:'):
                m = re.match(r'known:\s+property=(\S+)\s+key=(\S+)\s+(.*)', l)
                if m:
                    known.append({'property': m.group(1), 'key': m.group(2), 'text': m.group(3)})
            elif l.startswith('fixed:'):
                fixed.append(l)
    return known, fixed


def input_key(obj):
    """stable key of a concrete failing input"""
    s = json.dumps(obj, sort_keys=True, separators=(',', ':'))
    return hashlib.sha1(s.encode()).hexdigest()[:16]


# ---------------------------------------------------------------- confirmation of region failures
def parse_fail(res):
    t = res.split()
    if len(t) >= 3 and t[0] == 'FAIL' and t[1] != 'nodiag':
        try:
            return (geom.parse_q(t[1]), geom.parse_q(t[2]))
        except Exception:
            return None
    return None


def candidate_points(q, extra=()):
    pts = []
    if q is not None:
        pts.append(q)
        for dx, dy in ((F(1, 3), F(1, 7)), (-F(1, 3), F(1, 5)), (F(2, 3), -F(1, 9)), (-F(1, 5), -F(1, 3))):
            pts.append((q[0] + dx, q[1] + dy))
    pts += list(extra)
    return pts


def grid_candidates(paths_list, limit=4000):
    """midpoints of a coarse lattice over the bounding box, used when the checker
    rejects without a usable witness"""
    xs = [p[0] for ps in paths_list for path in ps for p in path]
    ys = [p[1] for ps in paths_list for path in ps for p in path]
    if not xs:
        return []
    x0, x1, y0, y1 = min(xs) - 3, max(xs) + 3, min(ys) - 3, max(ys) + 3
    nx = ny = int(limit ** 0.5)
    out = []
    for i in range(nx):
        for j in range(ny):
            out.append((x0 + F((2 * i + 1) * (x1 - x0), 2 * nx) + F(1, 97), y0 + F((2 * j + 1) * (y1 - y0), 2 * ny) + F(1, 89)))
    return out


DENSE_BUDGET = [60]   # dense local searches per run (each costs seconds of exact arithmetic)


def confirm_region(sets, band_edges, r2, pred, q, search=True):
    """independent confirmation: find a point farther than sqrt(r2) from every band
    edge where pred(list of winding numbers) is False.  Returns dict or None."""
    def finish(hit):
        # does the wrong region clear the band only marginally (by less than 10% of its radius)?  then every
        # failing point found lies within 1.1 r of a band edge: recorded as 'marginal_only' for classification
        if hit and hit.get('min_dist2_to_band') is not None and F(hit['min_dist2_to_band']) <= F(r2) * F(121, 100):
            deeper = _confirm(sets, band_edges, F(r2) * F(121, 100), pred, q, search)
            hit['marginal_only'] = deeper is None
        return hit
    return finish(_confirm(sets, band_edges, r2, pred, q, search))


def _confirm(sets, band_edges, r2, pred, q, search):
    def scan(cands):
        for c in cands:
            d2 = geom.min_dist2(band_edges, c)
            if d2 is not None and d2 <= r2:
                continue
            ws = [geom.wn(s, c) for s in sets]
            if not pred(ws):
                return {'point': [str(c[0]), str(c[1])], 'windings': ws,
                        'min_dist2_to_band': None if d2 is None else float(d2)}
        return None
    hit = scan(candidate_points(q))
    if hit or not search:
        return hit
    hit = scan(grid_candidates(sets, 1600))
    if hit or q is None or DENSE_BUDGET[0] <= 0:
        return hit
    # dense local search around the checker's witness (a wrong region may clear the band by a sliver)
    DENSE_BUDGET[0] -= 1
    for step, half in ((F(1, 8), 24), (F(1, 32), 32), (F(1, 4), 44), (F(1, 16), 80)):
        hit = scan((q[0] + i * step + F(1, 1009), q[1] + j * step + F(1, 997))
                   for i in range(-half, half + 1) for j in range(-half, half + 1))
        if hit:
            return hit
    return None


# ---------------------------------------------------------------- property table
import propdefs  # noqa: E402  (imports this module's helpers lazily)


def run(root, pid, tier, seed, replay):
    t0 = time.time()
    if pid not in propdefs.PROPS:
        print('unknown property', pid)
        return 2
    P = propdefs.PROPS[pid]
    os.makedirs(os.path.join(root, 'evidence'), exist_ok=True)
    workdir = os.path.join(root, 'build', 'work', '%s-%s' % (pid, tier))
    shutil.rmtree(workdir, ignore_errors=True)
    os.makedirs(workdir)
    repdir = os.path.join(root, 'replays', pid)
    os.makedirs(repdir, exist_ok=True)

    ok, log = build_harness(root)
    if not ok:
        print('ERROR: harness does not build against /repo working tree:\n' + log[-3000:])
        return 2
    ok, log = build_coq(root)
    build_error = ''
    if not ok:
        # the first error of the full build (make stops there; later .vo files may be stale)
        try:
            mk = open(os.path.join(root, 'build', 'coq_make.log')).read()
        except OSError:
            mk = log
        i = mk.find('Error')
        build_error = mk[max(0, mk.rfind('File "', 0, i)):i + 1500] if i >= 0 else log[-1500:]
        print('ERROR: Coq/OCaml build failed:\n' + build_error[:1500])
        # a broken proof is handled below through check_props; a broken build of the
        # shared development is reported per property by the theorem re-check
    pr = check_props(root, pid, P.get('extra_props', ()))

    violations = []   # dicts with 'key', 'text', 'replay'
    known, fixed = load_known(root)
    # replay: properties whose harness command reads a corpus re-run the single recorded input;
    # the others re-run the recorded stream (same seed and tier: every random choice derives from
    # the one PRNG state) and report only the recorded finding
    replay_key = None
    if replay:
        rep = json.load(open(replay))
        if pid not in ('C01', 'C02', 'C19', 'C06', 'C04', 'C17') and rep.get('stream'):
            tier, seed = rep['stream']['tier'], rep['stream']['seed']
            replay_key = rep.get('key')
            replay = None
    ctx = {'root': root, 'workdir': workdir, 'tier': tier, 'seed': seed, 'pid': pid, 'replay': replay,
           'evaluations': 0, 'nontrivial': 0, 'distribution': {}, 'samples': [], 'notes': []}

    if not pr['ok']:
        # a theorem (or the generated model it is about) no longer checks
        violations.append({'key': 'theorem:' + pid, 'kind': 'proof-broken',
                           'text': 'theorem file no longer checks: ' + ';'.join(pr['files']),
                           'detail': {'log': pr['log'][-3000:], 'hygiene': pr.get('hygiene'), 'first_build_error': build_error}, 'no_input': True})
    try:
        found = P['run'](ctx)
    except HarnessCrash as hc:
        found = [{'key': input_key(hc.inp), 'kind': 'process-killed',
                  'text': 'the library killed the process (no recover possible) while the harness command %s ran the recorded input: %s' % (hc.cmd, ' '.join(hc.msg.split())[:300]),
                  'detail': {'corpus_entry': hc.inp, 'fatal': hc.msg}}]
    except Exception as e:  # machinery error, not a verdict
        import traceback
        traceback.print_exc()
        print('ERROR: check machinery failed:', e)
        return 2
    _known_keys = set(k['key'] for k in known if k['property'] == pid)
    if not pr['ok'] and not replay and replay_key is None and tier == 'quick' \
            and not any(not v.get('no_input') and v['key'] not in _known_keys for v in found):
        # a proof obligation (or the build of the generated model) broke and the quick stream met no failing input:
        # widen the search before reporting no-failing-input-found — three more quick streams with other seeds
        for extra in (1, 2, 3):
            ctx['seed'] = seed + 7919 * extra
            ctx['notes'].append('proof obligation broken: additional search stream with seed %d' % ctx['seed'])
            try:
                more = P['run'](ctx)
            except HarnessCrash as hc:
                more = [{'key': input_key(hc.inp), 'kind': 'process-killed',
                         'text': 'the library killed the process while the harness command %s ran the recorded input: %s' % (hc.cmd, ' '.join(hc.msg.split())[:300]),
                         'detail': {'corpus_entry': hc.inp, 'fatal': hc.msg}}]
            except Exception as e:
                print('ERROR: additional search stream failed:', e)
                break
            for v in more:
                v.setdefault('detail', {})
                if isinstance(v['detail'], dict):
                    v['detail']['search_seed'] = ctx['seed']
            found += more
            if any(not v.get('no_input') and v['key'] not in _known_keys for v in more):
                break
        ctx['seed'] = seed
    violations += found
    if violations and violations[0].get('kind') == 'proof-broken' and any(not v.get('no_input') and v['key'] not in _known_keys for v in found):
        # the search found concrete failing inputs for the broken obligation: they are reported below
        violations[0]['no_input'] = False
        violations[0]['text'] += ' (concrete failing inputs found by the search: see the following replays)'
    if replay_key is not None:
        violations = [v for v in violations if v['key'] == replay_key or str(v['key']).startswith('theorem:')]

    # a broken theorem with a concrete failing input found by the stream: keep both;
    # known-findings filter
    out_viol = []
    kn_hits = []
    for v in violations:
        hit = None
        for k in known:
            if k['property'] == pid and k['key'] == v['key']:
                hit = k
                break
        if hit:
            kn_hits.append((hit, v))
        else:
            out_viol.append(v)
    seenk = set()
    for hit, v in kn_hits:
        if hit['key'] in seenk:
            continue
        seenk.add(hit['key'])
        print('KNOWN-FINDING: property=%s key=%s %s' % (pid, hit['key'], hit['text']))
    rc = 0
    n_rep = 0
    for v in out_viol:
        n_rep += 1
        fn = os.path.join(repdir, '%s%s-%d-%d.json' % ('replayed-' if (replay or replay_key is not None) else '', tier, seed, n_rep))
        with open(fn, 'w') as f:
            json.dump({'property': pid, 'key': v['key'], 'kind': v.get('kind'), 'text': v['text'],
                       'detail': v.get('detail'), 'stream': {'tier': tier, 'seed': (v.get('detail') or {}).get('search_seed', seed) if isinstance(v.get('detail'), dict) else seed}, 'replay_cmd': './check %s --replay %s' % (pid, fn)}, f, indent=1, default=str)
        suffix = ' no-failing-input-found' if v.get('no_input') else ''
        print('VIOLATION property=%s replay=%s%s' % (pid, fn, suffix))
        print('  ' + v['text'][:300])
        rc = 1
        if n_rep >= 25:
            break

    ax = axioms_of(pr['assumptions'])
    ev = {
        'property_id': pid, 'tier': tier, 'seed': seed, 'level': P.get('level', 'proof'),
        'coverage': {
            'obligations': len(pr['obligations']), 'discharged': len(pr['discharged']),
            'checker_cmd': 'make -C coq (coq_makefile, full .vo build) && coqc -Q coq Clip coq/Props/%s.v' % pid,
            'trusted_base': COMMON_TRUST + P.get('trust', []) + (['axioms used: ' + ', '.join(ax)] if ax else ['Print Assumptions: closed under the global context (no axioms)']),
            'theorems': pr['obligations'], 'theorems_discharged': pr['discharged'],
            'print_assumptions_axioms': ax,
            'evaluations': ctx['evaluations'], 'distinct_nontrivial': ctx['nontrivial'],
            'rule': P.get('rule', ''), 'samples': ctx['samples'][:5],
            'distribution': ctx['distribution'], 'notes': ctx['notes'],
            'known_findings_hit': sorted(set(h['key'] for h, _ in kn_hits)),
            'known_findings_hit_counts': {k: sum(1 for h, _ in kn_hits if h['key'] == k) for k in set(h['key'] for h, _ in kn_hits)},
        },
        'assumptions': P.get('assumes', []),
        'wall_s': round(time.time() - t0, 2),
        'violations': len(out_viol),
    }
    if ev['coverage']['obligations'] == 0:
        ev['coverage'].pop('obligations'); ev['coverage'].pop('discharged')
    if not (replay or replay_key is not None):   # a replay does not rewrite the evidence of the full run
        with open(os.path.join(root, 'evidence', pid + '.json'), 'w') as f:
            json.dump(ev, f, indent=1, default=str)
    print('%s %s seed=%d: %d evaluations, %d distinct non-trivial, %d/%d theorems, %d violation(s), %d known (%d cases), %.1fs'
          % (pid, tier, seed, ctx['evaluations'], ctx['nontrivial'], len(pr['discharged']), len(pr['obligations']),
             len(out_viol), len(seenk), len(kn_hits), time.time() - t0))
    return rc
