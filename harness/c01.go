package main

import (
	"encoding/json"
	"fmt"
	"math"
	"math/big"
	"strings"
	"time"

	clip "github.com/bolom009/go-clipper2"
)

func init() { commands["c01"] = cmdC01 }

// safeCall runs f and converts a panic into an error string
// safeCall runs one library call under recover and a watchdog: a panic comes back as its message, a call
// that does not return within hangLimit as "hang: ..." (its goroutine is abandoned; after maxHangs such
// calls the remaining calls of the stream are skipped so that the run still ends and reports).
const hangLimit = 10 * time.Second
const maxHangs = 3

var hangs int

var slowCalls int

const hangGrace = 80 * time.Second

func safeCall(f func()) (perr string) {
	if hangs >= maxHangs {
		return "skipped: earlier calls did not return"
	}
	done := make(chan string, 1)
	go func() {
		defer func() {
			if x := recover(); x != nil {
				done <- fmt.Sprint(x)
			}
		}()
		f()
		done <- ""
	}()
	select {
	case msg := <-done:
		return msg
	case <-time.After(hangLimit):
	}
	// not back within the limit: on a loaded machine a slow call is not a hang, so it gets a long grace period
	// before it is reported (a genuine non-termination still is, 3 times at most per stream)
	select {
	case msg := <-done:
		slowCalls++
		return msg
	case <-time.After(hangGrace):
		hangs++
		return fmt.Sprintf("hang: the call did not return within %v", hangLimit+hangGrace)
	}
}

// run a boolean op through one of the API variants
func runBool(variant int, ct clip.ClipType, fr clip.FillRule, s, c clip.Paths64) (sol clip.Paths64, ok bool, api string) {
	ok = true
	switch variant {
	case 1:
		api = "NewClipper64.Execute"
		cl := clip.NewClipper64()
		cl.AddPaths(s, clip.Subject, false)
		if c != nil {
			cl.AddPaths(c, clip.Clip, false)
		}
		sol = clip.Paths64{}
		ok = cl.Execute(ct, fr, &sol)
	case 2:
		api = "wrapper"
		switch ct {
		case clip.Union:
			sol = clip.UnionWithClipPaths64(s, c, fr)
		case clip.Intersection:
			sol = clip.IntersectWithClipPaths64(s, c, fr)
		case clip.Difference:
			sol = clip.DifferenceWithClipPaths64(s, c, fr)
		default:
			sol = clip.XorWithClipPaths64(s, c, fr)
		}
	default:
		api = "BooleanOpPaths64"
		sol = clip.BooleanOpPaths64(ct, s, c, fr)
	}
	return
}

func allEdges(sets ...clip.Paths64) []Edge {
	var out []Edge
	for _, s := range sets {
		out = append(out, closedEdges(s)...)
	}
	return out
}

type corpusC01 struct {
	Subject [][][2]int64 `json:"subject"`
	Clip    [][][2]int64 `json:"clip"`
	ClipNil bool         `json:"clip_nil"`
	Ct      int          `json:"ct"`
	Fr      int          `json:"fr"`
	Note    string       `json:"note"`
}

func loadCorpusC01(file string) []corpusC01 {
	var out []corpusC01
	for _, line := range readLines(file) {
		var c corpusC01
		if json.Unmarshal([]byte(line), &c) == nil {
			out = append(out, c)
		}
	}
	return out
}

func cmdC01(r *RNG, n int, e *Emitter, args []string) {
	if len(args) > 0 {
		for i, c := range loadCorpusC01(args[0]) {
			var cl clip.Paths64
			if !c.ClipNil {
				cl = pathsFromJSON(c.Clip)
			}
			for v := 0; v < 3; v++ {
				emitC01(e, fmt.Sprintf("corpus%d.%d", i, v), pathsFromJSON(c.Subject), cl, clip.ClipType(c.Ct), clip.FillRule(c.Fr), v, GenInfo{Kinds: []string{"corpus:" + c.Note}})
			}
		}
	}
	for i := 0; i < n; i++ {
		s, c, info := genPair(r)
		ct := clip.ClipType(1 + r.Intn(4))
		fr := clip.FillRule(r.Intn(4))
		switch r.Intn(8) {
		case 0:
			c = nil
		case 1:
			c = clip.Paths64{}
		}
		if i%10 == 7 {
			// dense: many-vertex random polygons on a small grid (many crossings within a unit of each other, holes whose
			// boundaries need the self-intersection repair)
			G := r.Range(20, 60)
			mk := func() clip.Path64 {
				p := make(clip.Path64, 7+r.Intn(8))
				for j := range p {
					p[j] = clip.Point64{X: r.Range(-G, G), Y: r.Range(-G, G)}
				}
				return p
			}
			s, c = clip.Paths64{mk()}, clip.Paths64{mk()}
			if r.Bool() {
				s = append(s, mk())
			}
			ct = []clip.ClipType{clip.Union, clip.Union, clip.Xor, clip.Difference, clip.Intersection}[r.Intn(5)]
			fr = []clip.FillRule{clip.EvenOdd, clip.NonZero, clip.NonZero, clip.Positive}[r.Intn(4)]
			info = GenInfo{Grid: G, Kinds: []string{"dense"}}
		}
		if i%10 == 3 {
			// tie-heavy: 2-6 small polygons on a coarse lattice multiplied by a scale, so that vertices are shared,
			// edges end in common vertices, crossings fall on lattice points and tops are exactly collinear, while the
			// features stay far larger than the 2-unit band
			s, c = genLatticeScaled(r)
			info = GenInfo{Grid: 0, Kinds: []string{"lattice-scaled"}}
		}
		if i%10 == 5 {
			// redundant collinear vertices on the edges (runs of collinear horizontal / vertical / sloped pieces)
			s, c = insertCollinear(r, s), insertCollinear(r, c)
			info.Kinds = append(info.Kinds, "collinear-runs")
		}
		emitC01(e, fmt.Sprint(i), s, c, ct, fr, r.Intn(3), info)
	}
}

func genLatticeScaled(r *RNG) (clip.Paths64, clip.Paths64) {
	G := []int64{4, 6, 8, 12, 30}[r.Intn(5)]
	S := []int64{10, 25, 50, 100}[r.Intn(4)]
	np := 2 + r.Intn(5)
	var s, c clip.Paths64
	for k := 0; k < np; k++ {
		p := make(clip.Path64, 3+r.Intn(6))
		for j := range p {
			p[j] = clip.Point64{X: r.Range(0, G) * S, Y: r.Range(0, G) * S}
		}
		if k == 0 || r.Intn(3) != 0 {
			s = append(s, p)
		} else {
			c = append(c, p)
		}
	}
	if c == nil {
		c = clip.Paths64{}
	}
	return s, c
}

// insertCollinear puts 1-3 extra vertices exactly on some edges (integer points a + k(b-a)/g for the gcd g)
func insertCollinear(r *RNG, ps clip.Paths64) clip.Paths64 {
	if ps == nil {
		return nil
	}
	out := make(clip.Paths64, 0, len(ps))
	for _, p := range ps {
		var q clip.Path64
		for i, a := range p {
			b := p[(i+1)%len(p)]
			q = append(q, a)
			g := gcd64(abs64(b.X-a.X), abs64(b.Y-a.Y))
			if g < 2 || r.Intn(2) == 0 {
				continue
			}
			k := 1 + r.Intn(3)
			var ts []int64
			for j := 0; j < k; j++ {
				ts = append(ts, r.Range(1, g-1))
			}
			sortInt64(ts)
			for j, t := range ts {
				if j > 0 && t == ts[j-1] {
					continue
				}
				q = append(q, clip.Point64{X: a.X + (b.X-a.X)/g*t, Y: a.Y + (b.Y-a.Y)/g*t})
			}
		}
		out = append(out, q)
	}
	return out
}

func gcd64(a, b int64) int64 {
	for b != 0 {
		a, b = b, a%b
	}
	return a
}

func sortInt64(v []int64) {
	for i := 1; i < len(v); i++ {
		for j := i; j > 0 && v[j] < v[j-1]; j-- {
			v[j], v[j-1] = v[j-1], v[j]
		}
	}
}

func emitC01(e *Emitter, idx string, s, c clip.Paths64, ct clip.ClipType, fr clip.FillRule, variant int, info GenInfo) {
	clearEvents()
	s0, c0 := clonePaths(s), clonePaths(c)
	var sol clip.Paths64
	var ok bool
	var api string
	perr := safeCall(func() { sol, ok, api = runBool(variant, ct, fr, s, c) })
	id := "c01-" + idx
	meta := map[string]any{"subject": pathsJSON(s0), "clip": pathsJSON(c0), "clip_nil": c0 == nil, "ct": int(ct), "fr": int(fr), "api": api, "gen": info}
	if perr != "" || !ok {
		meta["panic"] = perr
		meta["ok"] = ok
		meta["kind"] = "panic-or-failure"
		e.Fail(meta)
		return
	}
	if !pathsEqual(s, s0) || !pathsEqual(c, c0) {
		meta["kind"] = "input-mutated"
		e.Fail(meta)
		return
	}
	meta["solution"] = pathsJSON(sol)
	line, nslabs := genLine(fmt.Sprintf("bool %d %d", int(ct), int(fr)), "4", []clip.Paths64{s, c, sol}, append(clonePaths(s), c...), nil)
	e.Case(id, line, meta)
	e.Count(fmt.Sprintf("ct=%d", ct))
	e.Count(fmt.Sprintf("fr=%d", fr))
	e.Count(fmt.Sprintf("grid=%d", info.Grid))
	e.Count(fmt.Sprintf("slabs<=%d", bucket(nslabs)))
	e.Count(fmt.Sprintf("soln_paths<=%d", bucket(len(sol))))
	if nslabs > 2 && len(sol) > 0 {
		e.Nontrivial(line)
	}
}

// genLine builds one "gen" case for the extracted region checker:
// decision function spec, squared band radius, the path sets, the band.
func genLine(spec string, r2 string, sets []clip.Paths64, bandC, bandO clip.Paths64) (string, int) {
	ys := slabYs(allEdges(sets...))
	var sb strings.Builder
	// the bounding-box prefilter margin must not be smaller than the band radius
	rm := int64(3)
	if rr, ok := new(big.Rat).SetString(r2); ok {
		f, _ := rr.Float64()
		if m := int64(math.Ceil(math.Sqrt(f))) + 1; m > rm {
			rm = m
		}
	}
	fmt.Fprintf(&sb, "gen %s %d fuel=5 %s %d", spec, rm, r2, len(sets))
	for _, s := range sets {
		encPaths(&sb, s)
	}
	encPaths(&sb, bandC)
	encPaths(&sb, bandO)
	encRats(&sb, ys)
	return sb.String(), len(ys)
}

func bucket(n int) int {
	switch {
	case n <= 4:
		return n
	case n <= 8:
		return 8
	case n <= 16:
		return 16
	case n <= 32:
		return 32
	case n <= 64:
		return 64
	case n <= 128:
		return 128
	default:
		return 1000
	}
}
