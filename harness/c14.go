package main

import (
	"fmt"
	"math/big"

	clip "github.com/bolom009/go-clipper2"
)

func init() { commands["c14"] = cmdC14 }

var magVals = []int64{0, 1, -1, 2, -2, 3, 5, 1 << 26, (1 << 26) + 1, -(1 << 26), 1 << 29, -(1 << 29), (1 << 29) - 1}

func genCoord(r *RNG, lim int64) int64 {
	switch r.Intn(4) {
	case 0:
		v := magVals[r.Intn(len(magVals))]
		if v > lim {
			v = lim
		}
		if v < -lim {
			v = -lim
		}
		return v
	case 1:
		return r.Range(-3, 3)
	case 2:
		return r.Range(-lim, lim)
	default:
		return r.Range(-20, 20)
	}
}

func genInt64Any(r *RNG) int64 {
	switch r.Intn(6) {
	case 0:
		return int64(r.U64())
	case 1:
		return r.Range(-3, 3)
	case 2:
		return (int64(1) << 53) + r.Range(-3, 3)
	case 3:
		return -((int64(1) << 53) + r.Range(-3, 3))
	case 4:
		return (int64(1) << uint(r.Intn(63))) + r.Range(-2, 2)
	default:
		return r.Range(-1<<31, 1<<31)
	}
}

// twice the value of a float64 as an exact integer string (Area64 results are k/2)
func twiceExact(v float64) string {
	f := new(big.Float).SetPrec(200).SetFloat64(v)
	f.Mul(f, big.NewFloat(2))
	i, acc := f.Int(nil)
	if acc != big.Exact {
		return "inexact"
	}
	return i.String()
}

func cmdC14(r *RNG, n int, e *Emitter, args []string) {
	lim := int64(1) << 29
	for i := 0; i < n; i++ {
		id := fmt.Sprintf("c14-%d", i)
		switch r.Intn(9) {
		case 8: // CrossProduct: random, nearly collinear far-apart points (products beyond 2^53, tiny exact value), wrap range
			var p1, p2, p3 clip.Point64
			switch r.Intn(3) {
			case 0:
				p1 = clip.Point64{X: genCoord(r, lim), Y: genCoord(r, lim)}
				p2 = clip.Point64{X: genCoord(r, lim), Y: genCoord(r, lim)}
				p3 = clip.Point64{X: genCoord(r, lim), Y: genCoord(r, lim)}
			case 1:
				// p2 = p1 + k*v, p3 = p1 + m*v + (d,d) with v = (dx, dx+e): the exact value is -k*e*d (tiny), both products exceed 2^54
				p1 = clip.Point64{X: -lim + r.Range(0, 5), Y: -lim + r.Range(0, 5)}
				dx := (int64(1) << 27) - r.Range(40, 4000)
				dy := dx + r.Range(-30, 30)
				k, m := r.Range(1, 3), r.Range(4, 7)
				d := r.Range(-4, 4)
				p2 = clip.Point64{X: p1.X + k*dx, Y: p1.Y + k*dy}
				p3 = clip.Point64{X: p1.X + m*dx + d, Y: p1.Y + m*dy + d}
				if r.Bool() {
					p1, p3 = p3, p1
				}
			default:
				p1 = clip.Point64{X: genInt64Any(r) / 4, Y: genInt64Any(r) / 4}
				p2 = clip.Point64{X: genInt64Any(r) / 4, Y: genInt64Any(r) / 4}
				p3 = clip.Point64{X: genInt64Any(r) / 4, Y: genInt64Any(r) / 4}
			}
			v := clip.CrossProduct(p1, p2, p3)
			bi, _ := new(big.Float).SetFloat64(v).Int(nil)
			e.Case(id+"x", fmt.Sprintf("cross %d %d %d %d %d %d", p1.X, p1.Y, p2.X, p2.Y, p3.X, p3.Y),
				map[string]any{"pts": [][2]int64{{p1.X, p1.Y}, {p2.X, p2.Y}, {p3.X, p3.Y}}, "go": bi.String()})
			e.Count("cross-product")
		case 0: // triSign / multiply / productsAreEqual on arbitrary int64
			a, b, c, d := genInt64Any(r), genInt64Any(r), genInt64Any(r), genInt64Any(r)
			if r.Bool() { // make the products equal in magnitude
				c, d = b, a
				if r.Bool() {
					c = -c
				}
			}
			lo, hi := clip.VerifMultiplyUInt64(uint64(a), uint64(b))
			e.Case(id+"t", fmt.Sprintf("tri %d", a), map[string]any{"x": a, "go": clip.VerifTriSign(a)})
			e.Case(id+"u", fmt.Sprintf("mul %d %d", uint64(a), uint64(b)), map[string]any{"a": fmt.Sprint(uint64(a)), "b": fmt.Sprint(uint64(b)), "go": fmt.Sprintf("%d %d", lo, hi)})
			e.Case(id+"p", fmt.Sprintf("peq %d %d %d %d", a, b, c, d), map[string]any{"a": fmt.Sprint(a), "b": fmt.Sprint(b), "c": fmt.Sprint(c), "d": fmt.Sprint(d), "go": b2i(clip.VerifProductsAreEqual(a, b, c, d))})
			e.Count("arith")
		case 1, 2: // collinearity on the coordinate domain, biased to exact collinearity and unit differences
			p1 := clip.Point64{X: genCoord(r, lim), Y: genCoord(r, lim)}
			dx, dy := r.Range(-4, 4), r.Range(-4, 4)
			if r.Intn(3) == 0 {
				dx, dy = genCoord(r, 1<<20), genCoord(r, 1<<20)
			}
			k1, k2 := r.Range(-3, 3), r.Range(-3, 3)
			p2 := clip.Point64{X: p1.X + k1*dx, Y: p1.Y + k1*dy}
			p3 := clip.Point64{X: p2.X + k2*dx, Y: p2.Y + k2*dy}
			if r.Intn(3) == 0 {
				p3.X += r.Range(-1, 1)
				p3.Y += r.Range(-1, 1)
			}
			clampPt(&p2, lim)
			clampPt(&p3, lim)
			if r.Intn(4) == 0 {
				// nearly collinear far apart: p2 = p1 + k v, p3 = p1 + m v + (d, d) with v = (dx, dx+e): the two products
				// compared by productsAreEqual exceed 2^54 (every factor below 2^31) and differ by k e d, a few units
				p1 = clip.Point64{X: -lim + r.Range(0, 5), Y: -lim + r.Range(0, 5)}
				vx := (int64(1) << 27) - r.Range(40, 4000)
				vy := vx + r.Range(-30, 30)
				k, m := r.Range(1, 3), r.Range(4, 7)
				d := r.Range(-4, 4)
				p2 = clip.Point64{X: p1.X + k*vx, Y: p1.Y + k*vy}
				p3 = clip.Point64{X: p1.X + m*vx + d, Y: p1.Y + m*vy + d}
				if r.Bool() {
					p1, p3 = p3, p1
				}
				e.Count("collinear-near-far")
			}
			g := clip.VerifIsCollinear(p1, p2, p3)
			// also as observed through the public API on a 3-point closed path
			tr := clip.TrimCollinear64(clip.Path64{p1, p2, p3}, false)
			e.Case(id+"c", fmt.Sprintf("col %d %d %d %d %d %d", p1.X, p1.Y, p2.X, p2.Y, p3.X, p3.Y),
				map[string]any{"pts": [][2]int64{{p1.X, p1.Y}, {p2.X, p2.Y}, {p3.X, p3.Y}}, "go": b2i(g), "trim3": pathJSON(tr)})
			e.Count("collinear")
			if g {
				e.Nontrivial(fmt.Sprint(p1, p2, p3))
			}
		case 3, 4: // area / orientation / bounds / strip
			var p clip.Path64
			switch r.Intn(4) {
			case 0:
				p = genPoly(r, polyKinds[r.Intn(len(polyKinds))], grids[r.Intn(len(grids))])
			case 1: // huge square wound several times: the doubled area reaches 2^63
				h := lim
				sq := clip.Path64{{X: -h, Y: -h}, {X: h, Y: -h}, {X: h, Y: h}, {X: -h, Y: h}}
				for k := 0; k < 1+r.Intn(5); k++ {
					p = append(p, sq...)
				}
			case 2:
				nn := r.Intn(7)
				p = make(clip.Path64, nn)
				for k := range p {
					p[k] = clip.Point64{X: genCoord(r, lim), Y: genCoord(r, lim)}
				}
			default:
				p = genTrimPath(r)
			}
			a := clip.Area64(p)
			l, t, rr, b := clip.VerifRectFields(clip.GetBounds64(p))
			l2, t2, r2, b2 := clip.VerifRectFields(clip.VerifGetBounds(p))
			e.Case(id+"a", "area"+encPathStr(p), map[string]any{"path": pathJSON(p), "go": fmt.Sprintf("%s %d", twiceExact(a), b2i(clip.IsPositive64(p))),
				"areapaths": twiceExact(clip.AreaPaths64(clip.Paths64{p}))})
			e.Case(id+"b", "bounds"+encPathStr(p), map[string]any{"path": pathJSON(p), "go": fmt.Sprintf("%d %d %d %d %d %d %d %d", l, t, rr, b, l2, t2, r2, b2)})
			cl := r.Bool()
			var sp clip.Path64
			perr := safeCall(func() { sp = clip.StripDuplicates(p, cl) })
			if perr != "" {
				e.Fail(map[string]any{"kind": "panic in StripDuplicates", "panic": perr, "path": pathJSON(p)})
			} else {
				e.Case(id+"s", fmt.Sprintf("strip %d%s", b2i(cl), encPathStr(p)), map[string]any{"path": pathJSON(p), "closed": cl, "go": pathJSON(sp)})
			}
			e.Count("area-bounds-strip")
			if len(p) >= 3 {
				e.Nontrivial(fmt.Sprint(p))
			}
		default: // point in polygon: points on vertices, edges, horizontals through vertices
			G := []int64{2, 3, 4, 6, 10, 1 << 26, 1 << 29}[r.Intn(7)]
			var poly clip.Path64
			if G <= 10 {
				nn := 3 + r.Intn(5)
				poly = make(clip.Path64, nn)
				for k := range poly {
					poly[k] = clip.Point64{X: r.Range(0, G), Y: r.Range(0, G)}
				}
			} else {
				poly = shiftPaths(clip.Paths64{genPoly(r, polyKinds[r.Intn(len(polyKinds))], 16)}, G-16, -(G - 16))[0]
			}
			bigTri := G > 10 && r.Intn(3) == 0
			if bigTri { // a triangle spanning the whole domain: long edges, query points a few units off them
				poly = clip.Path64{{X: -G + r.Range(0, 9), Y: -G + r.Range(0, 9)}, {X: G - r.Range(0, 9), Y: G - r.Range(0, 9)}, {X: -G + r.Range(0, 9), Y: G - r.Range(0, 9)}}
				if r.Bool() {
					poly = clip.ReversePath(poly)
				}
			}
			var q clip.Point64
			if bigTri {
				k := r.Intn(3)
				a, b := poly[k], poly[(k+1)%3]
				t := r.Range(1, 1023)
				q = clip.Point64{X: a.X + (b.X-a.X)/1024*t + r.Range(-12, 12), Y: a.Y + (b.Y-a.Y)/1024*t + r.Range(-12, 12)}
				res := clip.PointInPolygon(q, poly)
				e.Case(id+"i", fmt.Sprintf("pip %d %d%s", q.X, q.Y, encPathStr(poly)), map[string]any{"q": [2]int64{q.X, q.Y}, "poly": pathJSON(poly), "go": int(res)})
				e.Count("pip-big-triangle")
				continue
			}
			switch r.Intn(4) {
			case 0:
				q = poly[r.Intn(len(poly))]
			case 1: // on the horizontal through a vertex
				q = clip.Point64{X: poly[r.Intn(len(poly))].X + r.Range(-2, 2), Y: poly[r.Intn(len(poly))].Y}
			case 2: // midpoint of an edge
				k := r.Intn(len(poly))
				a, b := poly[k], poly[(k+1)%len(poly)]
				q = clip.Point64{X: (a.X + b.X) / 2, Y: (a.Y + b.Y) / 2}
			default:
				l, t, rr, b := boundsOf(poly)
				q = clip.Point64{X: r.Range(l-1, rr+1), Y: r.Range(t-1, b+1)}
			}
			res := clip.PointInPolygon(q, poly)
			e.Case(id+"i", fmt.Sprintf("pip %d %d%s", q.X, q.Y, encPathStr(poly)), map[string]any{"q": [2]int64{q.X, q.Y}, "poly": pathJSON(poly), "go": int(res)})
			e.Count(fmt.Sprintf("pip=%d", int(res)))
			e.Nontrivial(fmt.Sprint(q, poly))
		}
	}
}

func clampPt(p *clip.Point64, lim int64) {
	p.X = max(-lim, min(lim, p.X))
	p.Y = max(-lim, min(lim, p.Y))
}
