package main

import (
	"fmt"
	"reflect"
	"sort"

	clip "github.com/bolom009/go-clipper2"
)

func init() { commands["c12"] = cmdC12 }

type histOp struct {
	Kind    string       `json:"kind"` // addS addC addO exec execOC tree
	Paths   [][][2]int64 `json:"paths,omitempty"`
	Ct      int          `json:"ct,omitempty"`
	Fr      int          `json:"fr,omitempty"`
	Prefill bool         `json:"prefill,omitempty"`
	Alias   bool         `json:"alias,omitempty"`
}

func junkPaths() clip.Paths64 {
	return clip.Paths64{{{X: 777, Y: 777}, {X: 778, Y: 777}, {X: 778, Y: 778}}, {{X: -5, Y: -5}, {X: -6, Y: -5}, {X: -6, Y: -6}}}
}

// C12: an engine's answer depends only on the paths added, not on its history.
func cmdC12(r *RNG, n int, e *Emitter, args []string) {
	for i := 0; i < n; i++ {
		clearEvents()
		useD := r.Intn(3) == 0
		G := []int64{6, 10, 16, 32}[r.Intn(4)]
		var hist []histOp
		nops := 3 + r.Intn(9)
		var subj, clp, opn clip.Paths64 // everything added so far, in order
		c64 := clip.NewClipper64()
		cD := clip.NewClipperD(0) // precision 0 means the default 2
		fail := func(kind string, extra map[string]any) {
			m := map[string]any{"kind": kind, "history": hist, "engine": map[bool]string{false: "Clipper64", true: "ClipperD"}[useD]}
			for k, v := range extra {
				m[k] = v
			}
			e.Fail(m)
		}
		ok := true
		nexec := 0
		for k := 0; k < nops && ok; k++ {
			op := r.Intn(8)
			if k == 0 {
				op = 0
			}
			switch {
			case op <= 2: // add paths
				var info GenInfo
				ps := genPathSetN(r, G, 2, 6, &info)
				kind := []string{"addS", "addC", "addS"}[op]
				if r.Intn(6) == 0 {
					kind = "addO"
				}
				hist = append(hist, histOp{Kind: kind, Paths: pathsJSON(ps)})
				ps0 := clonePaths(ps)
				switch kind {
				case "addS":
					subj = append(subj, clonePaths(ps)...)
					if useD {
						cD.AddPaths(toD(ps, 0.01), clip.Subject, false)
					} else {
						c64.AddPaths(ps, clip.Subject, false)
					}
				case "addC":
					clp = append(clp, clonePaths(ps)...)
					if useD {
						cD.AddPaths(toD(ps, 0.01), clip.Clip, false)
					} else {
						c64.AddPaths(ps, clip.Clip, false)
					}
				default:
					opn = append(opn, clonePaths(ps)...)
					if useD {
						cD.AddPaths(toD(ps, 0.01), clip.Subject, true)
					} else {
						c64.AddPaths(ps, clip.Subject, true)
					}
				}
				if !pathsEqual(ps, ps0) {
					fail("AddPaths modified its argument", nil)
					ok = false
				}
			default: // some execute
				ct := clip.ClipType(1 + r.Intn(4))
				fr := clip.FillRule(r.Intn(4))
				if r.Intn(6) == 0 { // values outside the enumerations (treated as even-odd / no clipping), also after valid ones
					fr = clip.FillRule(4 + r.Intn(3))
				}
				if r.Intn(12) == 0 {
					ct = []clip.ClipType{clip.NoClip, clip.ClipType(5), clip.ClipType(7)}[r.Intn(3)]
				}
				kind := []string{"exec", "execOC", "tree", "exec", "execOC"}[r.Intn(5)]
				prefill := r.Bool() && kind != "tree"
				// the solution argument holds path slices the caller still owns (copies of what it added): they are the
				// caller's data and must come back unmodified ("replaced", not written through)
				alias := !useD && !prefill && kind != "tree" && r.Intn(3) == 0
				var keep, keep0 clip.Paths64
				hist = append(hist, histOp{Kind: kind, Ct: int(ct), Fr: int(fr), Prefill: prefill, Alias: alias})
				nexec++
				// the reference: a fresh engine given the same paths, one call per kind
				var gotC, gotO, wantC, wantO clip.Paths64
				var gotT, wantT string
				var gotFlat, wantFlat clip.Paths64
				perr := safeCall(func() {
					if useD {
						var a, b clip.PathsD
						if prefill {
							a, b = toD(junkPaths(), 1), toD(junkPaths(), 1)
						}
						switch kind {
						case "exec":
							cD.Execute(ct, fr, &a)
						case "execOC":
							cD.ExecuteOC(ct, fr, &a, &b)
						default:
							t := clip.NewPolyTreeD()
							cD.ExecutePolyTreeD(ct, fr, t, &b)
							gotT = treeSig(t.PolyPathBase)
							gotFlat = flattenTree(t.PolyPathBase)
						}
						gotC, gotO = fromD(a), fromD(b)
						f := clip.NewClipperD(2)
						f.AddPaths(toD(subj, 0.01), clip.Subject, false)
						f.AddPaths(toD(clp, 0.01), clip.Clip, false)
						f.AddPaths(toD(opn, 0.01), clip.Subject, true)
						var fa, fb clip.PathsD
						switch kind {
						case "exec":
							f.Execute(ct, fr, &fa)
						case "execOC":
							f.ExecuteOC(ct, fr, &fa, &fb)
						default:
							t := clip.NewPolyTreeD()
							f.ExecutePolyTreeD(ct, fr, t, &fb)
							wantT = treeSig(t.PolyPathBase)
							wantFlat = flattenTree(t.PolyPathBase)
						}
						wantC, wantO = fromD(fa), fromD(fb)
					} else {
						var a, b clip.Paths64
						if prefill {
							a, b = junkPaths(), junkPaths()
						}
						if alias {
							keep = append(clonePaths(subj), clonePaths(clp)...)
							keep0 = clonePaths(keep)
							a = append(clip.Paths64{}, keep...)
						}
						switch kind {
						case "exec":
							c64.Execute(ct, fr, &a)
						case "execOC":
							c64.ExecuteOC(ct, fr, &a, &b)
						default:
							t := clip.NewPolyTree64()
							var od clip.PathsD
							c64.ExecutePolyTree64(ct, fr, t, &od)
							gotT = treeSig(t.PolyPathBase)
							gotFlat = flattenTree(t.PolyPathBase)
						}
						gotC, gotO = a, b
						f := clip.NewClipper64()
						f.AddPaths(subj, clip.Subject, false)
						f.AddPaths(clp, clip.Clip, false)
						f.AddPaths(opn, clip.Subject, true)
						var fa, fb clip.Paths64
						switch kind {
						case "exec":
							f.Execute(ct, fr, &fa)
						case "execOC":
							f.ExecuteOC(ct, fr, &fa, &fb)
						default:
							t := clip.NewPolyTree64()
							var od clip.PathsD
							f.ExecutePolyTree64(ct, fr, t, &od)
							wantT = treeSig(t.PolyPathBase)
							wantFlat = flattenTree(t.PolyPathBase)
						}
						wantC, wantO = fa, fb
					}
				})
				if perr != "" {
					fail("panic: "+perr, nil)
					ok = false
					break
				}
				if alias && !pathsEqual(keep, keep0) {
					fail("Execute wrote through the path slices found in the solution argument: the caller's paths were modified", map[string]any{"caller_paths_before": pathsJSON(keep0), "caller_paths_after": pathsJSON(keep)})
					ok = false
					break
				}
				if kind == "exec" {
					gotO, wantO = nil, nil
				}
				if kind == "tree" {
					gotC, wantC = nil, nil
				}
				gotO, wantO = canonOpen(gotO), canonOpen(wantO)
				same := reflect.DeepEqual(normP(gotC), normP(wantC)) && reflect.DeepEqual(normP(gotO), normP(wantO)) && gotT == wantT
				e.Count("op=" + kind)
				if same {
					continue
				}
				// a prefilled solution that survives is a direct violation ("replaced, not appended to")
				if prefill && (containsJunk(gotC) || containsJunk(gotO) || (useD && (hasJunkPrefixD(gotC, wantC) || hasJunkPrefixD(gotO, wantO)))) {
					fail("solution argument was appended to instead of replaced", map[string]any{"got_closed": pathsJSON(gotC), "got_open": pathsJSON(gotO), "fresh_closed": pathsJSON(wantC)})
					ok = false
					break
				}
				// different vertex lists: acceptable only when the regions agree (paths were added in
				// several calls / another order, and the minima sort is unstable)
				if kind == "tree" {
					gotC, wantC = gotFlat, wantFlat
				}
				openDiffers := !reflect.DeepEqual(normP(gotO), normP(wantO))
				scale := int64(1)
				band := append(clonePaths(subj), clp...)
				if useD {
					// D results are compared on the quantised grid (precision 2: x100 of 0.01*coords = coords)
					scale = 100
				}
				_ = scale
				meta := map[string]any{"history": hist, "engine_D": useD, "out_history": pathsJSON(gotC), "out_fresh": pathsJSON(wantC), "subject": pathsJSON(subj), "clip": pathsJSON(clp), "ct": int(ct), "fr": int(fr), "clip_nil": false}
				if openDiffers {
					// compared by coverage of the open subject lines (driver, exact arithmetic)
					meta["open_subjects"], meta["open_history"], meta["open_fresh"] = pathsJSON(opn), pathsJSON(gotO), pathsJSON(wantO)
				}
				line, _ := genLine("sameodd", "4", []clip.Paths64{gotC, wantC}, band, nil)
				e.Case(fmt.Sprintf("c12-%d.%d", i, k), line, meta)
				e.Count("region-compared")
			}
		}
		// engine state machine (Model/Engine.v): between calls the scratch lists are empty, the flags are as predicted
		var st clip.VerifScratchState
		if useD {
			st = cD.VerifScratch()
		} else {
			st = c64.VerifScratch()
		}
		wantTree, wantOpen := false, false
		for _, h := range hist {
			if h.Kind == "tree" {
				wantTree = true
			}
			if h.Kind == "addO" {
				wantOpen = true
			}
		}
		if ok && (st.Scan != 0 || st.Intersect != 0 || st.Outrec != 0 || st.HorzSeg != 0 || st.HorzJoin != 0 || !st.ActivesEmpty || st.UsingPolyTree != wantTree || st.HasOpenPaths != wantOpen) {
			fail(fmt.Sprintf("engine state between calls differs from the state-machine model: %+v (model: scratch empty, usingPolyTree=%v, hasOpenPaths=%v)", st, wantTree, wantOpen), nil)
		}
		e.Case(fmt.Sprintf("c12-%d", i), "noop", map[string]any{"history": hist, "engine_D": useD, "calls": len(hist)})
		if nexec >= 2 {
			e.Nontrivial(fmt.Sprint(i))
		}
	}
	cmdC12Offset(r, n/4, e)
}

func normP(p clip.Paths64) clip.Paths64 {
	if len(p) == 0 {
		return nil
	}
	return p
}

func containsJunk(ps clip.Paths64) bool {
	for _, p := range ps {
		for _, j := range junkPaths() {
			if reflect.DeepEqual(p, j) {
				return true
			}
		}
	}
	return false
}

// D results at precision 2 of inputs 0.01*k are k/100 ... map back to the integer grid by x100 rounding
func fromD(ps clip.PathsD) clip.Paths64 {
	out := make(clip.Paths64, len(ps))
	for i, p := range ps {
		out[i] = make(clip.Path64, len(p))
		for j, q := range p {
			out[i][j] = clip.Point64{X: roundHalfEven(q.X * 100), Y: roundHalfEven(q.Y * 100)}
		}
	}
	return out
}

func roundHalfEven(v float64) int64 {
	f := int64(v)
	d := v - float64(f)
	switch {
	case d > 0.5 || (d == 0.5 && f%2 != 0):
		return f + 1
	case d < -0.5 || (d == -0.5 && f%2 != 0):
		return f - 1
	}
	return f
}

// ClipperOffset: executing twice, and adding groups between executions
func cmdC12Offset(r *RNG, n int, e *Emitter) {
	for i := 0; i < n; i++ {
		var info GenInfo
		g1 := genPathSetN(r, 40, 2, 6, &info)
		g2 := genPathSetN(r, 40, 2, 6, &info)
		d1 := []float64{2, -2, 5, 0.3, -1}[r.Intn(5)]
		d2 := []float64{3, -1, 0.2, 4}[r.Intn(4)]
		jt := clip.JoinType(r.Intn(4))
		jt2 := jt
		if r.Bool() {
			jt2 = clip.JoinType(r.Intn(4)) // the second group may use another join type
		}
		co := clip.NewClipperOffset(2, 0, false, false)
		co.AddPaths(g1, jt, clip.Polygon)
		var a, b, c clip.Paths64
		if r.Bool() {
			a = junkPaths()
		}
		co.Execute64(d1, &a)
		co.Execute64(d2, &b) // an earlier execution must not influence this one
		co.AddPaths(g2, jt2, clip.Polygon)
		co.Execute64(d1, &c)
		f1 := clip.NewClipperOffset(2, 0, false, false)
		f1.AddPaths(g1, jt, clip.Polygon)
		var fa, fb, fc clip.Paths64
		f1.Execute64(d1, &fa)
		f2 := clip.NewClipperOffset(2, 0, false, false)
		f2.AddPaths(g1, jt, clip.Polygon)
		f2.Execute64(d2, &fb)
		f3 := clip.NewClipperOffset(2, 0, false, false)
		f3.AddPaths(g1, jt, clip.Polygon)
		f3.AddPaths(g2, jt2, clip.Polygon)
		f3.Execute64(d1, &fc)
		desc := map[string]any{"engine": "ClipperOffset", "g1": pathsJSON(g1), "g2": pathsJSON(g2), "d1": d1, "d2": d2, "jt": int(jt), "jt2": int(jt2)}
		bad := ""
		switch {
		case !reflect.DeepEqual(normP(a), normP(fa)):
			bad = "first Execute64 differs from a fresh ClipperOffset (prefilled solution?)"
		case !reflect.DeepEqual(normP(b), normP(fb)):
			bad = "second Execute64 (other delta) differs from a fresh ClipperOffset"
		case !reflect.DeepEqual(normP(c), normP(fc)):
			bad = "Execute64 after adding a second group differs from a fresh ClipperOffset with both groups"
		}
		if bad != "" {
			desc["kind"] = bad
			e.Fail(desc)
		}
		e.Case(fmt.Sprintf("c12o-%d", i), "noop", map[string]any{"offset_history": desc, "calls": 6})
		e.Nontrivial(fmt.Sprint("o", i))
	}
}

func treeSig(t *clip.PolyPathBase) string {
	var kids []string
	for _, ch := range t.GetChildren() {
		kids = append(kids, treeSig(ch))
	}
	sort.Strings(kids)
	return fmt.Sprint(t.Polygon(), t.IsHole(), "(", kids, ")")
}

// the junk pre-filled into a PathsD solution, as it comes back through fromD
func hasJunkPrefixD(got, want clip.Paths64) bool {
	j := fromD(toD(junkPaths(), 1))
	if len(got) != len(want)+len(j) {
		return false
	}
	return reflect.DeepEqual(got[:len(j)], j)
}

func flattenTree(t *clip.PolyPathBase) clip.Paths64 {
	var out clip.Paths64
	for _, ch := range t.GetChildren() {
		out = append(out, ch.Polygon())
		out = append(out, flattenTree(ch)...)
	}
	return out
}

func lessPt(a, b clip.Point64) bool { return a.X < b.X || (a.X == b.X && a.Y < b.Y) }

// open polylines up to direction and order
func canonOpen(ps clip.Paths64) clip.Paths64 {
	out := make(clip.Paths64, 0, len(ps))
	for _, p := range ps {
		q := append(clip.Path64{}, p...)
		if len(q) > 1 && lessPt(q[len(q)-1], q[0]) {
			q = clip.ReversePath(q)
		}
		out = append(out, q)
	}
	sort.Slice(out, func(i, j int) bool { return fmt.Sprint(out[i]) < fmt.Sprint(out[j]) })
	return out
}
