package main

// K3: the tail of clipper_base.go:intersectEdges that decides, for two crossing edges neither of which is
// "hot", whether a new output polygon starts at the crossing (a call of c.addLocalMinPoly), is translated
// from /repo's current source into a Gallina boolean function (coq/Gen/NewPoly_gen.v) on every run.  The
// fragment starts at the declaration `var e1Wc2, e2Wc2 int` and runs to the end of the function:
// `c.addLocalMinPoly(...)` is read as "true", a bare `return` and the end of the function as "false".
// Locals computed before the fragment (oldE1WindCount, oldE2WindCount) and fields are parameters.
// Theorem: Model/NewPolyProofs.v.

import (
	"fmt"
	"go/ast"
	"go/parser"
	"go/token"
	"os"
	"path/filepath"
	"sort"
	"strings"
)

func init() { commands["newpoly"] = cmdNewPoly }

type npTr struct {
	recv   string
	inputs map[string]string
	err    string
}

type npEnv map[string]string // local -> term

func (e npEnv) clone() npEnv {
	n := npEnv{}
	for k, v := range e {
		n[k] = v
	}
	return n
}

func (t *npTr) fail(format string, a ...any) string {
	if t.err == "" {
		t.err = fmt.Sprintf(format, a...)
	}
	return "ERR"
}

func (t *npTr) z(x ast.Expr, env npEnv) string {
	switch e := x.(type) {
	case *ast.ParenExpr:
		return t.z(e.X, env)
	case *ast.BasicLit:
		if e.Kind == token.INT {
			return "(" + e.Value + ")"
		}
	case *ast.Ident:
		if v, ok := env[e.Name]; ok {
			return v
		}
		t.inputs[e.Name] = "Z" // a local of the enclosing function computed before the fragment
		return e.Name
	case *ast.SelectorExpr:
		if id, ok := e.X.(*ast.Ident); ok && id.Name != t.recv {
			nm := id.Name + "_" + e.Sel.Name
			t.inputs[nm] = "Z"
			return nm
		}
	case *ast.UnaryExpr:
		if e.Op == token.SUB {
			return "(- " + t.z(e.X, env) + ")"
		}
	case *ast.CallExpr:
		if id, ok := e.Fun.(*ast.Ident); ok && len(e.Args) == 1 {
			switch id.Name {
			case "absInt":
				return "(Z.abs " + t.z(e.Args[0], env) + ")"
			case "int", "int64", "float64":
				return t.z(e.Args[0], env)
			}
		}
	}
	return t.fail("unsupported integer expression %T", x)
}

func (t *npTr) b(x ast.Expr, env npEnv) string {
	switch e := x.(type) {
	case *ast.ParenExpr:
		return t.b(e.X, env)
	case *ast.UnaryExpr:
		if e.Op == token.NOT {
			return "(negb " + t.b(e.X, env) + ")"
		}
	case *ast.CallExpr:
		if id, ok := e.Fun.(*ast.Ident); ok && id.Name == "isSamePolyType" {
			t.inputs["same_polytype"] = "bool"
			return "same_polytype"
		}
	case *ast.BinaryExpr:
		switch e.Op {
		case token.LOR:
			return "(" + t.b(e.X, env) + " || " + t.b(e.Y, env) + ")"
		case token.LAND:
			return "(" + t.b(e.X, env) + " && " + t.b(e.Y, env) + ")"
		case token.EQL, token.NEQ:
			var inner string
			if c, ok := e.X.(*ast.CallExpr); ok {
				if id, ok := c.Fun.(*ast.Ident); ok && id.Name == "getPolyType" && len(c.Args) == 1 {
					if k, ok := e.Y.(*ast.Ident); ok && (k.Name == "Subject" || k.Name == "Clip") {
						nm := "is_subj_" + fmt.Sprint(c.Args[0].(*ast.Ident).Name)
						t.inputs[nm] = "bool"
						inner = nm
						if k.Name == "Clip" {
							inner = "(negb " + nm + ")"
						}
					}
				}
			}
			if inner == "" {
				inner = "(" + t.z(e.X, env) + " =? " + t.z(e.Y, env) + ")"
			}
			if e.Op == token.NEQ {
				return "(negb " + inner + ")"
			}
			return inner
		case token.LSS:
			return "(" + t.z(e.X, env) + " <? " + t.z(e.Y, env) + ")"
		case token.GTR:
			return "(" + t.z(e.X, env) + " >? " + t.z(e.Y, env) + ")"
		case token.LEQ:
			return "(" + t.z(e.X, env) + " <=? " + t.z(e.Y, env) + ")"
		case token.GEQ:
			return "(" + t.z(e.X, env) + " >=? " + t.z(e.Y, env) + ")"
		}
	}
	return t.fail("unsupported boolean expression %T", x)
}

func (t *npTr) tag(x ast.Expr) string {
	if s, ok := x.(*ast.SelectorExpr); ok {
		if id, ok := s.X.(*ast.Ident); ok && id.Name == t.recv {
			switch s.Sel.Name {
			case "fillRule":
				return "fr"
			case "clipType":
				return "ct"
			}
		}
	}
	return ""
}

func (t *npTr) stmts(list []ast.Stmt, env npEnv, k func(npEnv) string) string {
	if t.err != "" {
		return "ERR"
	}
	if len(list) == 0 {
		return k(env)
	}
	rest := list[1:]
	cont := func(e npEnv) string { return t.stmts(rest, e, k) }
	switch s := list[0].(type) {
	case *ast.ReturnStmt:
		if len(s.Results) != 0 {
			return t.fail("return with a value")
		}
		return "false"
	case *ast.ExprStmt:
		if c, ok := s.X.(*ast.CallExpr); ok {
			if f, ok := c.Fun.(*ast.SelectorExpr); ok && f.Sel.Name == "addLocalMinPoly" {
				return "true" // a new output polygon starts here (nothing after it in any branch changes that)
			}
		}
		return t.fail("unsupported call statement")
	case *ast.DeclStmt:
		gd, ok := s.Decl.(*ast.GenDecl)
		if !ok || gd.Tok != token.VAR {
			return t.fail("unsupported declaration")
		}
		e2 := env.clone()
		for _, sp := range gd.Specs {
			vs := sp.(*ast.ValueSpec)
			for i, nm := range vs.Names {
				if len(vs.Values) > i {
					e2[nm.Name] = t.z(vs.Values[i], env)
				} else {
					e2[nm.Name] = "(0)"
				}
			}
		}
		return cont(e2)
	case *ast.AssignStmt:
		if len(s.Lhs) != len(s.Rhs) || (s.Tok != token.ASSIGN && s.Tok != token.DEFINE) {
			return t.fail("unsupported assignment")
		}
		e2 := env.clone()
		for i, l := range s.Lhs {
			id, ok := l.(*ast.Ident)
			if !ok {
				return t.fail("assignment to a non-local")
			}
			if id.Name == "_" {
				continue
			}
			e2[id.Name] = t.z(s.Rhs[i], env)
		}
		return cont(e2)
	case *ast.IfStmt:
		if s.Init != nil {
			return t.fail("if with init statement")
		}
		c := t.b(s.Cond, env)
		thenB := t.stmts(s.Body.List, env.clone(), cont)
		var elseB string
		switch el := s.Else.(type) {
		case nil:
			elseB = cont(env.clone())
		case *ast.BlockStmt:
			elseB = t.stmts(el.List, env.clone(), cont)
		case *ast.IfStmt:
			elseB = t.stmts([]ast.Stmt{el}, env.clone(), cont)
		}
		return "(if " + c + " then " + thenB + " else " + elseB + ")"
	case *ast.SwitchStmt:
		tag := t.tag(s.Tag)
		if s.Init != nil || tag == "" {
			return t.fail("unsupported switch")
		}
		covered := map[string]bool{}
		var arms []string
		deflt, hasDefault := "", false
		for _, cl := range s.Body.List {
			cc := cl.(*ast.CaseClause)
			body := t.stmts(cc.Body, env.clone(), cont)
			if cc.List == nil {
				deflt, hasDefault = body, true
				continue
			}
			var pats []string
			for _, x := range cc.List {
				id, ok := x.(*ast.Ident)
				if !ok || covered[id.Name] {
					return t.fail("unsupported case")
				}
				covered[id.Name] = true
				pats = append(pats, id.Name)
			}
			arms = append(arms, "| "+strings.Join(pats, " | ")+" => "+body)
		}
		if !hasDefault {
			deflt = cont(env.clone())
		}
		if len(covered) < len(enumCtors[tag]) {
			arms = append(arms, "| _ => "+deflt)
		}
		return "(match " + tag + " with " + strings.Join(arms, " ") + " end)"
	}
	return t.fail("unsupported statement %T", list[0])
}

func cmdNewPoly(r *RNG, n int, e *Emitter, args []string) {
	repo := "/repo"
	out := "/verif/coq/Gen/NewPoly_gen.v"
	if len(args) > 0 {
		out = args[0]
	}
	fset := token.NewFileSet()
	src, err := os.ReadFile(repo + "/clipper_base.go")
	if err != nil {
		fmt.Println(err)
		os.Exit(1)
	}
	af, err := parser.ParseFile(fset, "clipper_base.go", src, 0)
	if err != nil {
		fmt.Println("parse error", err)
		os.Exit(1)
	}
	var sb strings.Builder
	sb.WriteString("(* GENERATED by `vh newpoly` from /repo/clipper_base.go on every run. Do not edit. *)\n")
	sb.WriteString("From Coq Require Import ZArith Bool String.\nFrom Clip Require Import Base.Geom.\nOpen Scope Z_scope.\nOpen Scope bool_scope.\n\n")
	var fn *ast.FuncDecl
	for _, d := range af.Decls {
		if f, ok := d.(*ast.FuncDecl); ok && f.Name.Name == "intersectEdges" && f.Body != nil && f.Recv != nil {
			fn = f
		}
	}
	t := &npTr{inputs: map[string]string{}}
	start := -1
	if fn != nil {
		if len(fn.Recv.List) == 1 && len(fn.Recv.List[0].Names) == 1 {
			t.recv = fn.Recv.List[0].Names[0].Name
		}
		for i, st := range fn.Body.List {
			if ds, ok := st.(*ast.DeclStmt); ok {
				if gd, ok := ds.Decl.(*ast.GenDecl); ok && gd.Tok == token.VAR {
					for _, sp := range gd.Specs {
						for _, nm := range sp.(*ast.ValueSpec).Names {
							if nm.Name == "e1Wc2" {
								start = i
							}
						}
					}
				}
			}
		}
	}
	if start < 0 {
		sb.WriteString("(* clipper_base.go:intersectEdges: the declaration of e1Wc2 was NOT FOUND *)\nDefinition gen_newpoly_missing : string := \"not found\"%string.\n")
	} else {
		term := t.stmts(fn.Body.List[start:], npEnv{}, func(npEnv) string { return "false" })
		if t.err != "" {
			fmt.Fprintf(&sb, "(* clipper_base.go:intersectEdges tail: NOT TRANSLATABLE: %s *)\nDefinition gen_newpoly_untranslatable : string := \"%s\"%%string.\n", t.err, strings.ReplaceAll(t.err, "\"", "'"))
		} else {
			var names []string
			for nm := range t.inputs {
				names = append(names, nm)
			}
			sort.Strings(names)
			var params []string
			for _, nm := range names {
				params = append(params, fmt.Sprintf("(%s : %s)", nm, t.inputs[nm]))
			}
			fmt.Fprintf(&sb, "(* clipper_base.go:intersectEdges from `var e1Wc2, e2Wc2 int` to the end: does a new output polygon start at the crossing? *)\nDefinition gen_newpoly (fr : fillrule) (ct : cliptype) %s : bool :=\n  %s.\n", strings.Join(params, " "), term)
		}
	}
	os.MkdirAll(filepath.Dir(out), 0o755)
	if err := os.WriteFile(out, []byte(sb.String()), 0o644); err != nil {
		fmt.Println(err)
		os.Exit(1)
	}
	e.Case("newpoly-0", "noop", map[string]any{"ok": t.err == "" && start >= 0})
}
