package main

// K3 comparators: the three ordering functions the sweep sorts with
// (clipper_base.go: horzSegSort, the closure given to sort.Slice in
// processIntersectList, the closure given to sort.Slice in reset) are translated
// from /repo's current source into Gallina terms (coq/Gen/Comparators_gen.v) on
// every run.  The objects compared are abstract (a Section variable `obj`); every
// field path read becomes a Section variable of type obj -> Z, every nil test a
// Section variable of type obj -> bool.  The theorems over the generated terms
// (Model/ComparatorProofs.v, Props/C17.v) are re-checked on every run.

import (
	"fmt"
	"go/ast"
	"go/parser"
	"go/token"
	"os"
	"path/filepath"
	"sort"
	"strings"
)

func init() { commands["comparators"] = cmdComparators }

type cmpTr struct {
	env    map[string]string // Go identifier -> "x" / "y" (object) or a Gallina term
	fields map[string]bool   // Z-valued field paths
	nils   map[string]bool   // nil-tested paths ("" = the object itself)
	err    string
}

func (t *cmpTr) fail(format string, a ...any) string {
	if t.err == "" {
		t.err = fmt.Sprintf(format, a...)
	}
	return "ERR"
}

// object and field path of an expression such as a.pt.X, c.list[i].Vertex.pt.Y, hs1
func (t *cmpTr) path(x ast.Expr) (obj string, path []string, ok bool) {
	switch e := x.(type) {
	case *ast.Ident:
		if o, ok := t.env[e.Name]; ok && (o == "x" || o == "y") {
			return o, nil, true
		}
	case *ast.ParenExpr:
		return t.path(e.X)
	case *ast.IndexExpr:
		if id, ok := e.Index.(*ast.Ident); ok {
			if o, ok := t.env[id.Name]; ok && (o == "x" || o == "y") {
				return o, nil, true
			}
		}
	case *ast.SelectorExpr:
		if o, p, ok := t.path(e.X); ok {
			return o, append(append([]string{}, p...), e.Sel.Name), true
		}
	}
	return "", nil, false
}

func isNil(x ast.Expr) bool {
	id, ok := x.(*ast.Ident)
	return ok && id.Name == "nil"
}

func (t *cmpTr) zexpr(x ast.Expr) string {
	switch e := x.(type) {
	case *ast.ParenExpr:
		return t.zexpr(e.X)
	case *ast.BasicLit:
		if e.Kind == token.INT {
			return "(" + e.Value + ")"
		}
	case *ast.UnaryExpr:
		if e.Op == token.SUB {
			return "(- " + t.zexpr(e.X) + ")"
		}
	case *ast.CallExpr:
		if s, ok := e.Fun.(*ast.SelectorExpr); ok && len(e.Args) == 2 {
			if p, ok := s.X.(*ast.Ident); ok && p.Name == "cmp" && s.Sel.Name == "Compare" {
				return "(cmpZ " + t.zexpr(e.Args[0]) + " " + t.zexpr(e.Args[1]) + ")"
			}
		}
	case *ast.BinaryExpr:
		switch e.Op {
		case token.ADD:
			return "(" + t.zexpr(e.X) + " + " + t.zexpr(e.Y) + ")"
		case token.SUB:
			return "(" + t.zexpr(e.X) + " - " + t.zexpr(e.Y) + ")"
		}
	}
	if o, p, ok := t.path(x); ok && len(p) > 0 {
		f := strings.Join(p, "_")
		t.fields[f] = true
		return "(f_" + f + " " + o + ")"
	}
	return t.fail("unsupported integer expression %T", x)
}

func (t *cmpTr) bexpr(x ast.Expr) string {
	switch e := x.(type) {
	case *ast.ParenExpr:
		return t.bexpr(e.X)
	case *ast.Ident:
		if e.Name == "true" || e.Name == "false" {
			return e.Name
		}
	case *ast.UnaryExpr:
		if e.Op == token.NOT {
			return "(negb " + t.bexpr(e.X) + ")"
		}
	case *ast.BinaryExpr:
		switch e.Op {
		case token.LOR:
			return "(" + t.bexpr(e.X) + " || " + t.bexpr(e.Y) + ")"
		case token.LAND:
			return "(" + t.bexpr(e.X) + " && " + t.bexpr(e.Y) + ")"
		case token.EQL, token.NEQ:
			var inner string
			if isNil(e.Y) || isNil(e.X) {
				other := e.X
				if isNil(e.X) {
					other = e.Y
				}
				o, p, ok := t.path(other)
				if !ok {
					return t.fail("nil test of an unsupported expression")
				}
				f := strings.Join(p, "_")
				t.nils[f] = true
				inner = "(nil_" + f + " " + o + ")"
				if f == "" {
					inner = "(nil_self " + o + ")"
				}
			} else if id, ok := e.X.(*ast.Ident); ok && (id.Name == "true" || id.Name == "false") {
				return t.fail("boolean equality not supported")
			} else {
				inner = "(" + t.zexpr(e.X) + " =? " + t.zexpr(e.Y) + ")"
			}
			if e.Op == token.NEQ {
				return "(negb " + inner + ")"
			}
			return inner
		case token.LSS:
			return "(" + t.zexpr(e.X) + " <? " + t.zexpr(e.Y) + ")"
		case token.GTR:
			return "(" + t.zexpr(e.X) + " >? " + t.zexpr(e.Y) + ")"
		case token.LEQ:
			return "(" + t.zexpr(e.X) + " <=? " + t.zexpr(e.Y) + ")"
		case token.GEQ:
			return "(" + t.zexpr(e.X) + " >=? " + t.zexpr(e.Y) + ")"
		}
	}
	return t.fail("unsupported boolean expression %T", x)
}

// a statement list that returns on every path -> nested conditionals
func (t *cmpTr) block(stmts []ast.Stmt, boolResult bool) string {
	if len(stmts) == 0 {
		return t.fail("a path does not end in a return")
	}
	rest := stmts[1:]
	switch s := stmts[0].(type) {
	case *ast.ReturnStmt:
		if len(s.Results) != 1 {
			return t.fail("return with %d results", len(s.Results))
		}
		if boolResult {
			return t.bexpr(s.Results[0])
		}
		return t.zexpr(s.Results[0])
	case *ast.AssignStmt:
		if s.Tok != token.DEFINE || len(s.Lhs) != len(s.Rhs) {
			return t.fail("unsupported assignment")
		}
		for i, l := range s.Lhs {
			id, ok := l.(*ast.Ident)
			o, p, ok2 := t.path(s.Rhs[i])
			if !ok || !ok2 || len(p) != 0 {
				return t.fail("unsupported binding")
			}
			t.env[id.Name] = o
		}
		return t.block(rest, boolResult)
	case *ast.IfStmt:
		if s.Init != nil {
			return t.fail("if with init statement")
		}
		c := t.bexpr(s.Cond)
		thenB := t.block(append(append([]ast.Stmt{}, s.Body.List...), rest...), boolResult)
		var elseB string
		switch el := s.Else.(type) {
		case nil:
			elseB = t.block(rest, boolResult)
		case *ast.BlockStmt:
			elseB = t.block(append(append([]ast.Stmt{}, el.List...), rest...), boolResult)
		case *ast.IfStmt:
			elseB = t.block(append([]ast.Stmt{el}, rest...), boolResult)
		default:
			return t.fail("unsupported else")
		}
		return "(if " + c + " then " + thenB + " else " + elseB + ")"
	}
	return t.fail("unsupported statement %T", stmts[0])
}

type cmpDef struct {
	name, where string
	ft          *ast.FuncType
	body        *ast.BlockStmt
	boolResult  bool
}

func cmdComparators(r *RNG, n int, e *Emitter, args []string) {
	repo := "/repo"
	out := "/verif/coq/Gen/Comparators_gen.v"
	if len(args) > 0 {
		out = args[0]
	}
	fset := token.NewFileSet()
	src, err := os.ReadFile(repo + "/clipper_base.go")
	if err != nil {
		fmt.Println(err)
		os.Exit(1)
	}
	af, err := parser.ParseFile(fset, "clipper_base.go", src, 0)
	if err != nil {
		fmt.Println("parse error", err)
		os.Exit(1)
	}
	var defs []cmpDef
	// the closure passed as second argument of the first sort.Slice / sort.SliceStable / slices.SortFunc call in fn
	sortClosure := func(fn *ast.FuncDecl) (*ast.FuncLit, string) {
		var lit *ast.FuncLit
		var how string
		ast.Inspect(fn, func(nd ast.Node) bool {
			if lit != nil {
				return false
			}
			if c, ok := nd.(*ast.CallExpr); ok && len(c.Args) == 2 {
				if s, ok := c.Fun.(*ast.SelectorExpr); ok {
					if p, ok := s.X.(*ast.Ident); ok && (p.Name == "sort" || p.Name == "slices") {
						if l, ok := c.Args[1].(*ast.FuncLit); ok {
							lit, how = l, p.Name+"."+s.Sel.Name
						}
					}
				}
			}
			return true
		})
		return lit, how
	}
	sortCalls := map[string]string{}
	for _, d := range af.Decls {
		fn, ok := d.(*ast.FuncDecl)
		if !ok || fn.Body == nil {
			continue
		}
		switch fn.Name.Name {
		case "horzSegSort":
			defs = append(defs, cmpDef{"horzSegSort", "clipper_base.go:horzSegSort", fn.Type, fn.Body, false})
		case "processIntersectList":
			if l, how := sortClosure(fn); l != nil {
				defs = append(defs, cmpDef{"intersect_less", "clipper_base.go:processIntersectList (" + how + ")", l.Type, l.Body, true})
				sortCalls["processIntersectList"] = how
			}
		case "reset":
			if l, how := sortClosure(fn); l != nil {
				defs = append(defs, cmpDef{"minima_less", "clipper_base.go:reset (" + how + ")", l.Type, l.Body, true})
				sortCalls["reset"] = how
			}
		case "convertHorzSegsToJoins":
			ast.Inspect(fn, func(nd ast.Node) bool {
				if c, ok := nd.(*ast.CallExpr); ok && len(c.Args) == 2 {
					if s, ok := c.Fun.(*ast.SelectorExpr); ok {
						if p, ok := s.X.(*ast.Ident); ok && (p.Name == "sort" || p.Name == "slices") {
							if id, ok := c.Args[1].(*ast.Ident); ok {
								sortCalls["convertHorzSegsToJoins"] = p.Name + "." + s.Sel.Name + " " + id.Name
							}
						}
					}
				}
				return true
			})
		}
	}
	var sb strings.Builder
	sb.WriteString("(* GENERATED by `vh comparators` from /repo/clipper_base.go on every run. Do not edit. *)\n")
	sb.WriteString("From Coq Require Import ZArith Bool String List.\nImport ListNotations.\nOpen Scope Z_scope.\nOpen Scope bool_scope.\n\n")
	sb.WriteString("Definition cmpZ (a b : Z) : Z := match Z.compare a b with Lt => -1 | Eq => 0 | Gt => 1 end.\n\n")
	var found []string
	for _, d := range defs {
		t := &cmpTr{env: map[string]string{}, fields: map[string]bool{}, nils: map[string]bool{}}
		// the two parameters are the compared objects (or the indices of the compared elements)
		var params []string
		for _, f := range d.ft.Params.List {
			for _, nm := range f.Names {
				params = append(params, nm.Name)
			}
		}
		if len(params) != 2 {
			fmt.Printf("comparator %s: %d parameters\n", d.name, len(params))
			os.Exit(1)
		}
		t.env[params[0]], t.env[params[1]] = "x", "y"
		term := t.block(d.body.List, d.boolResult)
		if t.err != "" {
			// an untranslatable comparator is a broken obligation: emit a definition the theorems cannot be about
			fmt.Fprintf(&sb, "(* %s: NOT TRANSLATABLE: %s *)\nDefinition gen_%s_untranslatable : string := \"%s\"%%string.\n\n", d.where, t.err, d.name, strings.ReplaceAll(t.err, "\"", "'"))
			continue
		}
		var fs, ns []string
		for f := range t.fields {
			fs = append(fs, f)
		}
		for f := range t.nils {
			if f == "" {
				f = "self"
			}
			ns = append(ns, f)
		}
		sort.Strings(fs)
		sort.Strings(ns)
		fmt.Fprintf(&sb, "(* %s *)\nSection Gen_%s.\n  Variable obj : Type.\n", d.where, d.name)
		for _, f := range ns {
			fmt.Fprintf(&sb, "  Variable nil_%s : obj -> bool.\n", f)
		}
		for _, f := range fs {
			fmt.Fprintf(&sb, "  Variable f_%s : obj -> Z.\n", f)
		}
		res := "Z"
		if d.boolResult {
			res = "bool"
		}
		fmt.Fprintf(&sb, "  Definition gen_%s (x y : obj) : %s :=\n    %s.\nEnd Gen_%s.\n\n", d.name, res, term, d.name)
		found = append(found, d.name)
	}
	// which sorting routine each list goes through (sort.Slice and slices.SortFunc are not stable)
	var calls []string
	for k, v := range sortCalls {
		calls = append(calls, k+": "+v)
	}
	sort.Strings(calls)
	fmt.Fprintf(&sb, "Definition sort_calls : list string := [%s]%%string.\n", strings.Join(quoteAll(calls), "; "))
	os.MkdirAll(filepath.Dir(out), 0o755)
	if err := os.WriteFile(out, []byte(sb.String()), 0o644); err != nil {
		fmt.Println(err)
		os.Exit(1)
	}
	e.Case("comparators-0", "noop", map[string]any{"translated": found, "sort_calls": calls})
}

func quoteAll(l []string) []string {
	out := make([]string, len(l))
	for i, s := range l {
		out[i] = "\"" + strings.ReplaceAll(s, "\"", "'") + "\"%string"
	}
	return out
}
