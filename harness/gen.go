package main

import (
	clip "github.com/bolom009/go-clipper2"
)

// Structured generators of closed integer paths.  All randomness comes from
// the single RNG.  "kind" names are recorded in the evidence distribution.

var polyKinds = []string{"random", "rect", "star", "zigzag", "coarse", "dups", "convex", "spiky"}

func genPoly(r *RNG, kind string, G int64) clip.Path64 { return genPolyN(r, kind, G, 8) }

func genPolyN(r *RNG, kind string, G int64, nmax int) clip.Path64 {
	if nmax < 3 {
		nmax = 3
	}
	switch kind {
	case "rect":
		x0, y0 := r.Range(0, G-1), r.Range(0, G-1)
		x1, y1 := r.Range(x0+1, G), r.Range(y0+1, G)
		p := clip.Path64{{X: x0, Y: y0}, {X: x1, Y: y0}, {X: x1, Y: y1}, {X: x0, Y: y1}}
		if r.Bool() {
			p = clip.ReversePath(p)
		}
		return p
	case "star":
		// self-intersecting star: connect every k-th of n points on a rough circle
		n := 5 + 2*r.Intn(3)
		if n > nmax {
			n = 5
		}
		pts := circlePts(r, n, G)
		k := 2 + r.Intn(2)
		p := make(clip.Path64, 0, n)
		for i, j := 0, 0; i < n; i, j = i+1, (j+k)%n {
			p = append(p, pts[j])
		}
		return p
	case "zigzag":
		n := 2 + r.Intn(min(4, nmax/2))
		p := clip.Path64{}
		for i := 0; i < n; i++ {
			p = append(p, clip.Point64{X: int64(i) * G / int64(n), Y: r.Range(0, G)})
		}
		for i := n - 1; i >= 0; i-- {
			p = append(p, clip.Point64{X: int64(i)*G/int64(n) + r.Range(0, 1), Y: r.Range(0, G)})
		}
		return p
	case "coarse":
		// vertices on a coarse sub-lattice: many shared / collinear / horizontal edges
		step := G / 4
		if step < 1 {
			step = 1
		}
		n := 3 + r.Intn(min(5, nmax-2))
		p := make(clip.Path64, n)
		for i := range p {
			p[i] = clip.Point64{X: step * r.Range(0, 4), Y: step * r.Range(0, 4)}
		}
		return p
	case "dups":
		p := genPolyN(r, "random", G, nmax)
		// repeat some vertices and the closing vertex
		out := clip.Path64{}
		for _, pt := range p {
			out = append(out, pt)
			if r.Intn(3) == 0 {
				out = append(out, pt)
			}
		}
		if r.Bool() {
			out = append(out, out[0])
		}
		return out
	case "convex":
		n := 3 + r.Intn(min(6, nmax-2))
		return circlePts(r, n, G)
	case "spiky":
		p := genPolyN(r, "convex", G, nmax)
		// insert an out-and-back spike
		i := r.Intn(len(p))
		sp := clip.Point64{X: r.Range(0, G), Y: r.Range(0, G)}
		out := append(clip.Path64{}, p[:i+1]...)
		out = append(out, sp, p[i])
		out = append(out, p[i+1:]...)
		return out
	default:
		n := 3 + r.Intn(min(6, nmax-2))
		p := make(clip.Path64, n)
		for i := range p {
			p[i] = clip.Point64{X: r.Range(0, G), Y: r.Range(0, G)}
		}
		return p
	}
}

// n points in counter-clockwise order around the centre of [0,G]^2 (rough circle, integer)
func circlePts(r *RNG, n int, G int64) clip.Path64 {
	// use a fixed table of directions to avoid trigonometry
	dirs := [][2]int64{{8, 0}, {7, 3}, {6, 6}, {3, 7}, {0, 8}, {-3, 7}, {-6, 6}, {-7, 3}, {-8, 0}, {-7, -3}, {-6, -6}, {-3, -7}, {0, -8}, {3, -7}, {6, -6}, {7, -3}}
	idx := make([]int, 0, n)
	// choose n increasing indices out of 16
	start := r.Intn(16)
	pos := 0
	for i := 0; i < n; i++ {
		rem := 16 - pos
		need := n - i
		stepMax := rem - need + 1
		if stepMax < 1 {
			stepMax = 1
		}
		s := 1
		if stepMax > 1 {
			s = 1 + r.Intn(min(stepMax, 3))
		}
		if i == 0 {
			s = 0
		}
		pos += s
		idx = append(idx, (start+pos)%16)
	}
	c := G / 2
	p := make(clip.Path64, 0, n)
	for _, k := range idx {
		rad := r.Range(G/4+1, G/2)
		x := c + dirs[k][0]*rad/8
		y := c + dirs[k][1]*rad/8
		p = append(p, clip.Point64{X: x, Y: y})
	}
	return p
}

var grids = []int64{3, 4, 6, 8, 10, 16, 32, 100, 1000, 1 << 20}

type GenInfo struct {
	Grid  int64
	Kinds []string
	Shift [2]int64
}

func genPathSet(r *RNG, G int64, maxPaths int, info *GenInfo) clip.Paths64 {
	return genPathSetN(r, G, maxPaths, 8, info)
}

func genPathSetN(r *RNG, G int64, maxPaths int, nmax int, info *GenInfo) clip.Paths64 {
	n := 1 + r.Intn(maxPaths)
	ps := make(clip.Paths64, 0, n)
	for i := 0; i < n; i++ {
		k := polyKinds[r.Intn(len(polyKinds))]
		if info != nil {
			info.Kinds = append(info.Kinds, k)
		}
		ps = append(ps, genPolyN(r, k, G, nmax))
	}
	return ps
}

func shiftPaths(ps clip.Paths64, dx, dy int64) clip.Paths64 {
	out := make(clip.Paths64, len(ps))
	for i, p := range ps {
		out[i] = make(clip.Path64, len(p))
		for j, pt := range p {
			out[i][j] = clip.Point64{X: pt.X + dx, Y: pt.Y + dy}
		}
	}
	return out
}

var shifts = []int64{0, 0, 0, -5, 1 << 20, -(1 << 28), (1 << 29) - (1 << 21)}

// a subject/clip pair over a common grid and shift
func genPair(r *RNG) (s, c clip.Paths64, info GenInfo) {
	G := grids[r.Intn(len(grids))]
	info.Grid = G
	dx, dy := shifts[r.Intn(len(shifts))], shifts[r.Intn(len(shifts))]
	if r.Intn(4) == 0 && G <= 1000 {
		// centred on the origin: coordinates of both signs, many vertices exactly on X = 0 or Y = 0
		dx, dy = -G/2+r.Range(-1, 1), -G/2+r.Range(-1, 1)
	}
	// exact rational checking is quadratic in the bit length: large magnitudes
	// get fewer and smaller polygons (the magnitude-dependent defects seen so
	// far show on simple shapes; the topological ones on small grids)
	big := G >= 1000 || (G >= 100 && (dx != 0 || dy != 0)) || dx > 1<<20 || dx < -(1<<20) || dy > 1<<20 || dy < -(1<<20)
	if big {
		s = genPathSetN(r, G, 2, 5, &info)
		c = genPathSetN(r, G, 1, 5, &info)
	} else {
		s = genPathSet(r, G, 3, &info)
		c = genPathSet(r, G, 2, &info)
	}
	if G > 1<<19 && (dx > 1<<28 || dy > 1<<28) {
		dx, dy = 0, 0
	}
	info.Shift = [2]int64{dx, dy}
	s = shiftPaths(s, dx, dy)
	c = shiftPaths(c, dx, dy)
	return
}
