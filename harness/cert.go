package main

// Untrusted certificate finder for the Coq region checker: the slab
// boundaries (all vertex ordinates plus the ordinates of all pairwise
// intersections of non-horizontal edges).  A wrong or incomplete answer can
// only make the verified checker reject, never accept wrongly.

import (
	"math/big"
	"sort"

	clip "github.com/bolom009/go-clipper2"
)

type Edge struct{ A, B clip.Point64 }

func closedEdges(ps clip.Paths64) []Edge {
	var out []Edge
	for _, p := range ps {
		n := len(p)
		if n == 0 {
			continue
		}
		for i := 0; i < n; i++ {
			out = append(out, Edge{p[i], p[(i+1)%n]})
		}
	}
	return out
}

func openEdges(ps clip.Paths64) []Edge {
	var out []Edge
	for _, p := range ps {
		for i := 0; i+1 < len(p); i++ {
			out = append(out, Edge{p[i], p[i+1]})
		}
	}
	return out
}

func bi(x int64) *big.Int { return big.NewInt(x) }

// intersection ordinate of two segments if they properly meet (parameters in [0,1])
func intersectY(e, f Edge) *big.Rat {
	d1x := new(big.Int).Sub(bi(e.B.X), bi(e.A.X))
	d1y := new(big.Int).Sub(bi(e.B.Y), bi(e.A.Y))
	d2x := new(big.Int).Sub(bi(f.B.X), bi(f.A.X))
	d2y := new(big.Int).Sub(bi(f.B.Y), bi(f.A.Y))
	den := new(big.Int).Sub(new(big.Int).Mul(d1x, d2y), new(big.Int).Mul(d1y, d2x))
	if den.Sign() == 0 {
		return nil
	}
	cx := new(big.Int).Sub(bi(f.A.X), bi(e.A.X))
	cy := new(big.Int).Sub(bi(f.A.Y), bi(e.A.Y))
	tn := new(big.Int).Sub(new(big.Int).Mul(cx, d2y), new(big.Int).Mul(cy, d2x))
	un := new(big.Int).Sub(new(big.Int).Mul(cx, d1y), new(big.Int).Mul(cy, d1x))
	if den.Sign() < 0 {
		den.Neg(den)
		tn.Neg(tn)
		un.Neg(un)
	}
	if tn.Sign() < 0 || tn.Cmp(den) > 0 || un.Sign() < 0 || un.Cmp(den) > 0 {
		return nil
	}
	// y = e.A.Y + tn/den * d1y
	num := new(big.Int).Add(new(big.Int).Mul(bi(e.A.Y), den), new(big.Int).Mul(tn, d1y))
	return new(big.Rat).SetFrac(num, den)
}

func slabYs(edges []Edge) []*big.Rat {
	var nh []Edge
	ys := []*big.Rat{}
	for _, e := range edges {
		if e.A.Y != e.B.Y {
			nh = append(nh, e)
			ys = append(ys, new(big.Rat).SetInt64(e.A.Y), new(big.Rat).SetInt64(e.B.Y))
		}
	}
	for i := 0; i < len(nh); i++ {
		ei := nh[i]
		ilo, ihi := ei.A.Y, ei.B.Y
		if ilo > ihi {
			ilo, ihi = ihi, ilo
		}
		for j := i + 1; j < len(nh); j++ {
			ej := nh[j]
			jlo, jhi := ej.A.Y, ej.B.Y
			if jlo > jhi {
				jlo, jhi = jhi, jlo
			}
			if jhi <= ilo || ihi <= jlo {
				continue
			}
			if y := intersectY(ei, ej); y != nil {
				ys = append(ys, y)
			}
		}
	}
	if len(ys) == 0 {
		return []*big.Rat{big.NewRat(0, 1), big.NewRat(1, 1)}
	}
	sort.Slice(ys, func(a, b int) bool { return ys[a].Cmp(ys[b]) < 0 })
	out := ys[:1]
	for _, y := range ys[1:] {
		if y.Cmp(out[len(out)-1]) != 0 {
			out = append(out, y)
		}
	}
	if len(out) == 1 {
		out = append(out, new(big.Rat).Add(out[0], big.NewRat(1, 1)))
	}
	return out
}

// (2 + ext/2^40)^2 as an exact rational string
func r2Scaled(ext int64) string {
	n := new(big.Int).Add(new(big.Int).Lsh(big.NewInt(1), 41), big.NewInt(ext))
	n.Mul(n, n)
	d := new(big.Int).Lsh(big.NewInt(1), 80)
	return new(big.Rat).SetFrac(n, d).String()
}
