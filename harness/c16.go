package main

import (
	"fmt"
	"math"
	"math/big"
	"strings"

	clip "github.com/bolom009/go-clipper2"
)

func init() { commands["c16"] = cmdC16 }

// exact value of a float64 as "num/den"
func ratOfFloat(v float64) string {
	r, _ := new(big.Float).SetFloat64(v).Rat(nil)
	return r.String()
}

// a noisy line at huge scale: extents 2^33..2^38 in both directions, perpendicular noise of a few thousand to a few
// million units; used with an epsilon several times the noise, so that most vertices are well within epsilon
func genHugeNoisyLine(r *RNG) (clip.Path64, float64) {
	n := 5 + r.Intn(10)
	sx := (int64(1) << uint(33+r.Intn(5))) / int64(n)
	sy := (int64(1) << uint(32+r.Intn(6))) / int64(n)
	if r.Bool() {
		sy = -sy
	}
	amp := int64(1) << uint(10+r.Intn(12))
	p := make(clip.Path64, n)
	for i := range p {
		// noise along the normal direction (-sy, sx), scaled
		t := float64(r.Range(-amp, amp))
		l := math.Hypot(float64(sx), float64(sy))
		p[i] = clip.Point64{X: int64(i)*sx + int64(-float64(sy)/l*t) + r.Range(-3, 3), Y: int64(i)*sy + int64(float64(sx)/l*t) + r.Range(-3, 3)}
	}
	// two genuine corners far off the line
	p = append(p, clip.Point64{X: p[n-1].X + sy*3, Y: p[n-1].Y - sx*3}, clip.Point64{X: p[0].X + sy*3, Y: p[0].Y - sx*3})
	return p, float64(amp) * float64(2+r.Intn(6))
}

func genSimplifyPath(r *RNG) clip.Path64 {
	switch r.Intn(5) {
	case 0:
		// C16 is stated for magnitudes up to 2^29: paths of the trim generator beyond that are not used here
		for {
			p := genTrimPath(r)
			ok := true
			for _, q := range p {
				if abs64(q.X) > 1<<29 || abs64(q.Y) > 1<<29 {
					ok = false
				}
			}
			if ok {
				return p
			}
		}
	case 1: // noisy line / curve: many near-collinear vertices
		n := 4 + r.Intn(20)
		p := make(clip.Path64, n)
		amp := r.Range(0, 4)
		for i := range p {
			p[i] = clip.Point64{X: int64(i) * r.Range(5, 20), Y: int64(i)*r.Range(-1, 2) + r.Range(-amp, amp)}
		}
		return p
	case 2: // noisy circle
		n := 6 + r.Intn(30)
		p := make(clip.Path64, n)
		rad := float64(r.Range(20, 2000))
		for i := range p {
			a := 2 * math.Pi * float64(i) / float64(n)
			p[i] = clip.Point64{X: int64(rad*math.Cos(a)) + r.Range(-2, 2), Y: int64(rad*math.Sin(a)) + r.Range(-2, 2)}
		}
		return p
	case 3: // equal distances (ties between neighbours)
		n := 4 + r.Intn(10)
		p := make(clip.Path64, n)
		for i := range p {
			p[i] = clip.Point64{X: int64(i) * 10, Y: int64(i%2) * r.Range(0, 3)}
		}
		return p
	default:
		return genPoly(r, polyKinds[r.Intn(len(polyKinds))], grids[r.Intn(8)])
	}
}

func retained(in, out clip.Path64) []int {
	// greedy subsequence matching (outputs are subsequences of inputs)
	idx := []int{}
	j := 0
	for i := range in {
		if j < len(out) && in[i] == out[j] {
			idx = append(idx, i)
			j++
		}
	}
	if j != len(out) {
		return nil
	}
	return idx
}

func cmdC16(r *RNG, n int, e *Emitter, args []string) {
	epsVals := []float64{0, 0, 0.5, 1, 1.5, 2, 2.5, 3.7, 10, 0.1, 1e-3, 100}
	for i := 0; i < n; i++ {
		p := genSimplifyPath(r)
		eps := epsVals[r.Intn(len(epsVals))]
		if r.Intn(6) == 0 {
			eps = r.Float() * 5
		}
		if i%13 == 7 {
			p, eps = genHugeNoisyLine(r)
			e.Count("family=huge-noisy-line")
			if r.Intn(3) == 0 {
				// a genuine corner whose exact cross product with its neighbours is a non-zero multiple of 2^64
				// (differences (m 2^32, 0) and (c, k 2^32)), with epsilon 0 or tiny: it must stay
				x0, y0 := r.Range(-1000, 1000), r.Range(-1000, 1000)
				m, k := r.Range(1, 40), r.Range(1, 40)
				c := r.Range(-(1 << 20), 1<<34)
				p = clip.Path64{{X: x0, Y: y0}, {X: x0 + m<<32, Y: y0}, {X: x0 + c, Y: y0 + k<<32}, {X: x0 - r.Range(1, 1<<30), Y: y0 + r.Range(1, 1<<33)}}
				k0 := r.Intn(4)
				p = append(append(clip.Path64{}, p[k0:]...), p[:k0]...)
				eps = []float64{0, 0, 0.5, 3}[r.Intn(4)]
				e.Count("family=huge-wrap-corner")
			}
		}
		forceD := false
		if i%13 == 3 {
			// exactly collinear runs on a line with a large odd direction vector (products of coordinate differences need
			// more than 53 bits but are EQUAL, so the float cross product is exactly 0), closed by two vertices off the line
			dx, dy := r.Range(1<<20, 1<<25)|1, r.Range(1<<20, 1<<25)|1
			if r.Bool() {
				dy = -dy
			}
			x0, y0 := r.Range(-(1 << 20), 1<<20), r.Range(-(1 << 20), 1<<20)
			m := 3 + r.Intn(4)
			p = clip.Path64{}
			t := int64(0)
			for j := 0; j < m; j++ {
				p = append(p, clip.Point64{X: x0 + t*dx, Y: y0 + t*dy})
				t += r.Range(1, 2)
			}
			p = append(p, clip.Point64{X: x0 + t*dx - dy, Y: y0 + t*dy + dx}, clip.Point64{X: x0 - dy, Y: y0 + dx})
			k0 := r.Intn(len(p))
			p = append(append(clip.Path64{}, p[k0:]...), p[:k0]...)
			eps = []float64{0, 0, 1e-9, 0.25}[r.Intn(4)]
			forceD = true
			e.Count("family=large-direction-collinear-run")
		}
		closed := r.Bool()
		p0 := append(clip.Path64{}, p...)
		var out clip.Path64
		var outs clip.Paths64
		perr := safeCall(func() {
			out = clip.SimplifyPath64(p, eps, closed)
			outs = clip.SimplifyPaths64(clip.Paths64{p, p}, eps, closed)
		})
		meta := map[string]any{"path": pathJSON(p0), "eps": eps, "eps_exact": ratOfFloat(eps), "closed": closed}
		if perr != "" {
			meta["panic"], meta["kind"] = perr, "panic"
			e.Fail(meta)
			continue
		}
		if !pathsEqual(clip.Paths64{p}, clip.Paths64{p0}) {
			meta["kind"] = "input-mutated"
			e.Fail(meta)
			continue
		}
		if !pathsEqual(outs, clip.Paths64{out, out}) {
			meta["kind"] = "SimplifyPaths64 differs from SimplifyPath64 path by path"
			e.Fail(meta)
			continue
		}
		meta["go"] = pathJSON(out)
		// invariance of the retained index set under translation and power-of-two scaling
		vx, vy := r.Range(-(1<<28), 1<<28), r.Range(-(1<<28), 1<<28)
		k := int64(1) << uint(r.Intn(10))
		ok := true
		for _, q := range p {
			if abs64(q.X*k) > 1<<28 || abs64(q.Y*k) > 1<<28 {
				ok = false
			}
		}
		if ok && len(p) >= 4 {
			pt := shiftPaths(clip.Paths64{p}, vx, vy)[0]
			ps := scalePaths(clip.Paths64{p}, k)[0]
			ot := clip.SimplifyPath64(pt, eps, closed)
			os := clip.SimplifyPath64(ps, eps*float64(k), closed)
			meta["retained"] = retained(p, out)
			meta["retained_translated"] = retained(pt, ot)
			meta["retained_scaled"] = retained(ps, os)
			meta["v"], meta["k"] = []int64{vx, vy}, k
		}
		var sb strings.Builder
		fmt.Fprintf(&sb, "simp64 %s %d", ratOfFloat(eps), b2i(closed))
		encPath(&sb, p0)
		e.Case(fmt.Sprintf("c16-%d", i), sb.String(), meta)
		e.Count(fmt.Sprintf("closed=%v", closed))
		e.Count(fmt.Sprintf("removed<=%d", bucket(len(p0)-len(out))))
		if len(out) < len(p0) {
			e.Nontrivial(sb.String())
		}
		// the float version on the same points scaled by 2^-k (exact in binary), down to micro scale
		if forceD || r.Intn(3) == 0 {
			k := []int{3, 3, 3, 10, 20, 30, 40}[r.Intn(7)]
			sc := math.Ldexp(1, -k)
			pd := make(clip.PathD, len(p0))
			for j, q := range p0 {
				pd[j] = clip.PointD{X: float64(q.X) * sc, Y: float64(q.Y) * sc}
			}
			od := clip.SimplifyPathD(pd, eps*sc, closed)
			var sd strings.Builder
			fmt.Fprintf(&sd, "simpD %s %d %d", ratOfFloat(eps*sc), b2i(closed), len(pd))
			for _, q := range pd {
				fmt.Fprintf(&sd, " %s %s", ratOfFloat(q.X), ratOfFloat(q.Y))
			}
			god := make([][2]string, len(od))
			for j, q := range od {
				god[j] = [2]string{ratOfFloat(q.X), ratOfFloat(q.Y)}
			}
			e.Count(fmt.Sprintf("D-scale=2^-%d", k))
			e.Case(fmt.Sprintf("c16-%dD", i), sd.String(), map[string]any{"godD": god, "eps": eps * sc, "closed": closed, "n": len(pd), "path8": pathJSON(p0), "dscale": k})
		}
	}
}

func abs64(x int64) int64 {
	if x < 0 {
		return -x
	}
	return x
}
