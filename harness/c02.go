package main

import (
	"fmt"

	clip "github.com/bolom009/go-clipper2"
)

func init() { commands["c02"] = cmdC02 }

// C02: canonical form of closed solutions under all option settings, and the
// "re-uniting changes nothing" consequence.
func cmdC02(r *RNG, n int, e *Emitter, args []string) {
	if len(args) > 0 {
		for i, c := range loadCorpusC01(args[0]) {
			var cl clip.Paths64
			if !c.ClipNil {
				cl = pathsFromJSON(c.Clip)
			}
			for v := 0; v < 4; v++ {
				emitC02(e, fmt.Sprintf("corpus%d.%d", i, v), pathsFromJSON(c.Subject), cl, clip.ClipType(c.Ct), clip.FillRule(c.Fr), v&1 == 1, v&2 == 0, GenInfo{})
			}
		}
	}
	for i := 0; i < n; i++ {
		s, c, info := genPair(r)
		ct := clip.ClipType(1 + r.Intn(4))
		fr := clip.FillRule(r.Intn(4))
		if r.Intn(8) == 0 {
			c = nil
		}
		if i%6 == 4 {
			// rectangles on a coarse lattice: rings split and joined along shared horizontal edges, frames with several panes
			G := []int64{16, 40, 80}[r.Intn(3)]
			s, c = genRectSoup(r, G, 2+r.Intn(3)), genRectSoup(r, G, 2+r.Intn(4))
			if r.Intn(4) == 0 {
				s, c = genPinch(r, G)
			}
			ct = clip.ClipType(1 + r.Intn(4))
			fr = []clip.FillRule{clip.EvenOdd, clip.NonZero, clip.NonZero, clip.Positive}[r.Intn(4)]
			info = GenInfo{Kinds: []string{"rect-soup"}}
		}
		if i%6 == 5 {
			// nested rings (island in hole in island ...), triangles with an axis-parallel side among them: a ring that
			// is dropped or emitted with the wrong orientation shows as a winding number outside {0, 1}
			s, c = genNestedMixed(r), nil
			if r.Intn(3) == 0 {
				c = genNestedMixed(r)
			}
			ct = []clip.ClipType{clip.Union, clip.Union, clip.Difference, clip.Xor}[r.Intn(4)]
			fr = []clip.FillRule{clip.EvenOdd, clip.EvenOdd, clip.NonZero}[r.Intn(3)]
			info = GenInfo{Kinds: []string{"nested-mixed"}}
		}
		if i%6 == 2 {
			// tie-heavy lattice polygons: crossings exactly on scanlines, shared vertices, collinear tops
			s, c = genLatticeScaled(r)
			info = GenInfo{Kinds: []string{"lattice-scaled"}}
		}
		if i%6 == 1 && i%12 == 1 {
			s, c = insertCollinear(r, s), insertCollinear(r, c)
			info.Kinds = append(info.Kinds, "collinear-runs")
		}
		emitC02(e, fmt.Sprint(i), s, c, ct, fr, r.Intn(3) == 0, r.Intn(3) != 0, info)
	}
}

func emitC02(e *Emitter, idx string, s, c clip.Paths64, ct clip.ClipType, fr clip.FillRule, rev, pc bool, info GenInfo) {
	clearEvents()
	s0, c0 := clonePaths(s), clonePaths(c)
	var sol clip.Paths64
	ok := true
	perr := safeCall(func() {
		cl := clip.NewClipper64()
		cl.VerifSetOptions(pc, rev)
		cl.AddPaths(s, clip.Subject, false)
		if c != nil {
			cl.AddPaths(c, clip.Clip, false)
		}
		sol = clip.Paths64{}
		ok = cl.Execute(ct, fr, &sol)
	})
	meta := map[string]any{"subject": pathsJSON(s0), "clip": pathsJSON(c0), "clip_nil": c0 == nil, "ct": int(ct), "fr": int(fr),
		"rev": rev, "pc": pc, "api": "NewClipper64+VerifSetOptions", "gen": info, "what": "canon"}
	if perr != "" || !ok {
		meta["panic"] = perr
		meta["ok"] = ok
		meta["kind"] = "panic-or-failure"
		e.Fail(meta)
		return
	}
	meta["solution"] = pathsJSON(sol)
	sign := 1
	if rev {
		sign = -1
	}
	line, nslabs := genLine(fmt.Sprintf("canon %d", sign), "4", []clip.Paths64{sol}, sol, nil)
	e.Case("c02-"+idx, line, meta)
	e.Count(fmt.Sprintf("rev=%v", rev))
	e.Count(fmt.Sprintf("pc=%v", pc))
	e.Count(fmt.Sprintf("ct=%d", ct))
	e.Count(fmt.Sprintf("fr=%d", fr))
	e.Count(fmt.Sprintf("soln_paths<=%d", bucket(len(sol))))
	if nslabs > 2 && len(sol) > 0 {
		e.Nontrivial(line)
	}
	if !rev && len(sol) > 0 {
		var sol2 clip.Paths64
		perr := safeCall(func() { sol2 = clip.UnionPaths64(sol, clip.NonZero) })
		m2 := map[string]any{"subject": pathsJSON(s0), "clip": pathsJSON(c0), "clip_nil": c0 == nil, "ct": int(ct), "fr": int(fr),
			"rev": rev, "pc": pc, "what": "reunion", "solution": pathsJSON(sol)}
		if perr != "" {
			m2["panic"] = perr
			m2["kind"] = "panic-in-reunion"
			e.Fail(m2)
			return
		}
		m2["solution2"] = pathsJSON(sol2)
		line2, _ := genLine("samenz", "4", []clip.Paths64{sol, sol2}, sol, nil)
		e.Case("c02-"+idx+"u", line2, m2)
	}
}

// concentric rings about a common centre, each a square or a right triangle with a vertical and a horizontal side,
// shrinking by at least 6 units per level so that consecutive rings never touch
func genNestedMixed(r *RNG) clip.Paths64 {
	depth := 2 + r.Intn(4)
	h := int64(40 + 10*depth + r.Intn(30))
	cx, cy := r.Range(-20, 20), r.Range(-20, 20)
	var ps clip.Paths64
	for d := 0; d < depth && h >= 8; d++ {
		var p clip.Path64
		if r.Bool() {
			p = clip.Path64{{X: cx - h, Y: cy - h}, {X: cx + h, Y: cy - h}, {X: cx + h, Y: cy + h}, {X: cx - h, Y: cy + h}}
			h = h/2 - 3
		} else {
			// right triangle with legs 2h, containing the square of half-size h/3 - 2 about (cx - h/3, cy - h/3)
			p = clip.Path64{{X: cx - h, Y: cy - h}, {X: cx + h, Y: cy - h}, {X: cx - h, Y: cy + h}}
			cx, cy = cx-h/3, cy-h/3
			h = h/4 - 2
		}
		if r.Intn(3) == 0 {
			p = clip.ReversePath(p)
		}
		ps = append(ps, p)
	}
	return ps
}
