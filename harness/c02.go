package main

import (
	"fmt"

	clip "github.com/bolom009/go-clipper2"
)

func init() { commands["c02"] = cmdC02 }

// C02: canonical form of closed solutions under all option settings, and the
// "re-uniting changes nothing" consequence.
func cmdC02(r *RNG, n int, e *Emitter, args []string) {
	if len(args) > 0 {
		for i, c := range loadCorpusC01(args[0]) {
			var cl clip.Paths64
			if !c.ClipNil {
				cl = pathsFromJSON(c.Clip)
			}
			for v := 0; v < 4; v++ {
				emitC02(e, fmt.Sprintf("corpus%d.%d", i, v), pathsFromJSON(c.Subject), cl, clip.ClipType(c.Ct), clip.FillRule(c.Fr), v&1 == 1, v&2 == 0, GenInfo{})
			}
		}
	}
	for i := 0; i < n; i++ {
		s, c, info := genPair(r)
		ct := clip.ClipType(1 + r.Intn(4))
		fr := clip.FillRule(r.Intn(4))
		if r.Intn(8) == 0 {
			c = nil
		}
		emitC02(e, fmt.Sprint(i), s, c, ct, fr, r.Intn(3) == 0, r.Intn(3) != 0, info)
	}
}

func emitC02(e *Emitter, idx string, s, c clip.Paths64, ct clip.ClipType, fr clip.FillRule, rev, pc bool, info GenInfo) {
	takeDiscards() // start from a clean event log
	s0, c0 := clonePaths(s), clonePaths(c)
	var sol clip.Paths64
	ok := true
	perr := safeCall(func() {
		cl := clip.NewClipper64()
		cl.VerifSetOptions(pc, rev)
		cl.AddPaths(s, clip.Subject, false)
		if c != nil {
			cl.AddPaths(c, clip.Clip, false)
		}
		sol = clip.Paths64{}
		ok = cl.Execute(ct, fr, &sol)
	})
	meta := map[string]any{"subject": pathsJSON(s0), "clip": pathsJSON(c0), "clip_nil": c0 == nil, "ct": int(ct), "fr": int(fr),
		"rev": rev, "pc": pc, "api": "NewClipper64+VerifSetOptions", "gen": info, "what": "canon"}
	if perr != "" || !ok {
		meta["panic"] = perr
		meta["ok"] = ok
		meta["kind"] = "panic-or-failure"
		e.Fail(meta)
		return
	}
	meta["solution"] = pathsJSON(sol)
	sign := 1
	if rev {
		sign = -1
	}
	line, nslabs := genLine(fmt.Sprintf("canon %d", sign), "4", []clip.Paths64{sol}, sol, nil)
	e.Case("c02-"+idx, line, meta)
	e.Count(fmt.Sprintf("rev=%v", rev))
	e.Count(fmt.Sprintf("pc=%v", pc))
	e.Count(fmt.Sprintf("ct=%d", ct))
	e.Count(fmt.Sprintf("fr=%d", fr))
	e.Count(fmt.Sprintf("soln_paths<=%d", bucket(len(sol))))
	if nslabs > 2 && len(sol) > 0 {
		e.Nontrivial(line)
	}
	if !rev && len(sol) > 0 {
		var sol2 clip.Paths64
		perr := safeCall(func() { sol2 = clip.UnionPaths64(sol, clip.NonZero) })
		m2 := map[string]any{"subject": pathsJSON(s0), "clip": pathsJSON(c0), "clip_nil": c0 == nil, "ct": int(ct), "fr": int(fr),
			"rev": rev, "pc": pc, "what": "reunion", "solution": pathsJSON(sol)}
		if perr != "" {
			m2["panic"] = perr
			m2["kind"] = "panic-in-reunion"
			e.Fail(m2)
			return
		}
		m2["solution2"] = pathsJSON(sol2)
		line2, _ := genLine("samenz", "4", []clip.Paths64{sol, sol2}, sol, nil)
		e.Case("c02-"+idx+"u", line2, m2)
	}
}
