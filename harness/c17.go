package main

import (
	"strings"
	"fmt"

	clip "github.com/bolom009/go-clipper2"
)

func init() { commands["c17"] = cmdC17 }

// C17: determinism and independence of the spelling of the input.
// For a base input x and each respelling x' the two outputs are compared as
// regions in x's frame (region checker: parities agree away from the input
// edges); every call is also made twice and compared bytewise.

type xform struct {
	name string
	f    func(p clip.Point64) clip.Point64 // T
	inv  func(p clip.Point64) clip.Point64 // T^-1
	flip bool                              // orientation-reversing
}

var lattice = []xform{
	{"rot90", func(p clip.Point64) clip.Point64 { return clip.Point64{X: -p.Y, Y: p.X} }, func(p clip.Point64) clip.Point64 { return clip.Point64{X: p.Y, Y: -p.X} }, false},
	{"rot180", func(p clip.Point64) clip.Point64 { return clip.Point64{X: -p.X, Y: -p.Y} }, func(p clip.Point64) clip.Point64 { return clip.Point64{X: -p.X, Y: -p.Y} }, false},
	{"rot270", func(p clip.Point64) clip.Point64 { return clip.Point64{X: p.Y, Y: -p.X} }, func(p clip.Point64) clip.Point64 { return clip.Point64{X: -p.Y, Y: p.X} }, false},
	{"mirrorX", func(p clip.Point64) clip.Point64 { return clip.Point64{X: -p.X, Y: p.Y} }, func(p clip.Point64) clip.Point64 { return clip.Point64{X: -p.X, Y: p.Y} }, true},
	{"mirrorY", func(p clip.Point64) clip.Point64 { return clip.Point64{X: p.X, Y: -p.Y} }, func(p clip.Point64) clip.Point64 { return clip.Point64{X: p.X, Y: -p.Y} }, true},
	{"transpose", func(p clip.Point64) clip.Point64 { return clip.Point64{X: p.Y, Y: p.X} }, func(p clip.Point64) clip.Point64 { return clip.Point64{X: p.Y, Y: p.X} }, true},
	{"antitranspose", func(p clip.Point64) clip.Point64 { return clip.Point64{X: -p.Y, Y: -p.X} }, func(p clip.Point64) clip.Point64 { return clip.Point64{X: -p.Y, Y: -p.X} }, true},
}

func mapPaths(ps clip.Paths64, f func(clip.Point64) clip.Point64) clip.Paths64 {
	if ps == nil {
		return nil
	}
	out := make(clip.Paths64, len(ps))
	for i, p := range ps {
		out[i] = make(clip.Path64, len(p))
		for j, pt := range p {
			out[i][j] = f(pt)
		}
	}
	return out
}

func revPaths(ps clip.Paths64) clip.Paths64 {
	out := make(clip.Paths64, len(ps))
	for i, p := range ps {
		out[i] = clip.ReversePath(p)
	}
	return out
}

func permPaths(r *RNG, ps clip.Paths64) clip.Paths64 {
	out := clonePaths(ps)
	for i := len(out) - 1; i > 0; i-- {
		j := r.Intn(i + 1)
		out[i], out[j] = out[j], out[i]
	}
	return out
}

func rotPaths(r *RNG, ps clip.Paths64) clip.Paths64 {
	out := make(clip.Paths64, len(ps))
	for i, p := range ps {
		if len(p) == 0 {
			out[i] = clip.Path64{}
			continue
		}
		k := r.Intn(len(p))
		out[i] = append(append(clip.Path64{}, p[k:]...), p[:k]...)
	}
	return out
}

func dupPaths(r *RNG, ps clip.Paths64) clip.Paths64 {
	out := make(clip.Paths64, len(ps))
	for i, p := range ps {
		q := clip.Path64{}
		for _, pt := range p {
			q = append(q, pt)
			if r.Intn(3) == 0 {
				q = append(q, pt)
			}
		}
		if len(q) > 0 && r.Bool() {
			q = append(q, q[0])
		}
		out[i] = q
	}
	return out
}

func swapPN(fr clip.FillRule) clip.FillRule {
	switch fr {
	case clip.Positive:
		return clip.Negative
	case clip.Negative:
		return clip.Positive
	}
	return fr
}

func cmdC17(r *RNG, n int, e *Emitter, args []string) {
	var presets []corpusC01
	if len(args) > 0 {
		// the C01 corpus: its tie-heavy entries are respelled too; witnesses of recorded findings are left to C01, which
		// identifies them through event coordinates in the frame of the call
		for _, pc := range loadCorpusC01(args[0]) {
			if !strings.Contains(pc.Note, "known finding") {
				presets = append(presets, pc)
			}
		}
	}
	for i := -len(presets); i < n; i++ {
		clearEvents()
		s, c, info := genPair(r)
		if i < 0 {
			pc := presets[-i-1]
			s, c = pathsFromJSON(pc.Subject), pathsFromJSON(pc.Clip)
			if c == nil {
				c = clip.Paths64{}
			}
			info = GenInfo{Kinds: []string{"corpus:" + pc.Note}}
		}
		if i >= 0 && i%5 == 2 {
			// tie-heavy lattice polygons (shared vertices, exactly collinear tops, crossings on lattice points): the
			// order-dependent tie-breaks of the sweep are what respelling exercises
			s, c = genLatticeScaled(r)
			info = GenInfo{Kinds: []string{"lattice-scaled"}}
		}
		if i >= 0 && i%5 == 4 {
			s, c = insertCollinear(r, s), insertCollinear(r, c)
			info.Kinds = append(info.Kinds, "collinear-runs")
		}
		ct := clip.ClipType(1 + r.Intn(4))
		fr := clip.FillRule(r.Intn(4))
		if i < 0 {
			ct, fr = clip.ClipType(presets[-i-1].Ct), clip.FillRule(presets[-i-1].Fr)
		}
		var base, again clip.Paths64
		perr := safeCall(func() {
			base = clip.BooleanOpPaths64(ct, s, c, fr)
			again = clip.BooleanOpPaths64(ct, clonePaths(s), clonePaths(c), fr)
		})
		meta0 := map[string]any{"subject": pathsJSON(s), "clip": pathsJSON(c), "clip_nil": false, "ct": int(ct), "fr": int(fr), "gen": info}
		if perr != "" {
			meta0["panic"], meta0["kind"] = perr, "panic"
			e.Fail(meta0)
			continue
		}
		if !pathsEqual(base, again) {
			meta0["kind"] = "nondeterministic: two calls with equal inputs differ"
			meta0["out1"], meta0["out2"] = pathsJSON(base), pathsJSON(again)
			e.Fail(meta0)
			continue
		}
		type variant struct {
			name string
			s, c clip.Paths64
			ct   clip.ClipType
			fr   clip.FillRule
			back func(clip.Point64) clip.Point64
		}
		id := func(p clip.Point64) clip.Point64 { return p }
		vs := []variant{
			{"permute", permPaths(r, s), permPaths(r, c), ct, fr, id},
			{"rotate-start", rotPaths(r, s), rotPaths(r, c), ct, fr, id},
			{"duplicate-vertices", dupPaths(r, s), dupPaths(r, c), ct, fr, id},
		}
		switch fr {
		case clip.EvenOdd:
			// reversing any single path changes nothing under EvenOdd
			s2 := clonePaths(s)
			if len(s2) > 0 {
				k := r.Intn(len(s2))
				s2[k] = clip.ReversePath(s2[k])
			}
			vs = append(vs, variant{"reverse-one-evenodd", s2, c, ct, fr, id})
		case clip.NonZero:
			vs = append(vs, variant{"reverse-all-nonzero", revPaths(s), revPaths(c), ct, fr, id})
		default:
			vs = append(vs, variant{"reverse-all-swap-posneg", revPaths(s), revPaths(c), ct, swapPN(fr), id})
		}
		if ct != clip.Difference {
			vs = append(vs, variant{"swap-subject-clip", c, s, ct, fr, id})
		}
		x := lattice[r.Intn(len(lattice))]
		frx := fr
		if x.flip {
			frx = swapPN(fr)
		}
		vs = append(vs, variant{"lattice-" + x.name, mapPaths(s, x.f), mapPaths(c, x.f), ct, frx, x.inv})
		for k, v := range vs {
			var out clip.Paths64
			perr := safeCall(func() { out = clip.BooleanOpPaths64(v.ct, v.s, v.c, v.fr) })
			meta := map[string]any{"subject": pathsJSON(s), "clip": pathsJSON(c), "clip_nil": false, "ct": int(ct), "fr": int(fr), "gen": info,
				"variant": v.name, "v_subject": pathsJSON(v.s), "v_clip": pathsJSON(v.c), "v_ct": int(v.ct), "v_fr": int(v.fr)}
			if perr != "" {
				meta["panic"], meta["kind"] = perr, "panic"
				e.Fail(meta)
				continue
			}
			back := mapPaths(out, v.back)
			meta["out_base"], meta["out_variant_in_base_frame"] = pathsJSON(base), pathsJSON(back)
			line, nslabs := genLine("sameodd", "4", []clip.Paths64{base, back}, append(clonePaths(s), c...), nil)
			e.Case(fmt.Sprintf("c17-%d.%d", i, k), line, meta)
			e.Count("variant=" + v.name)
			if nslabs > 2 && len(base) > 0 {
				e.Nontrivial(line)
			}
		}
	}
}
