package main

// kernels2.go — second batch of K3 kernels: Rect64 methods (core.go), the small point predicates of engine.go and
// rect_clip.go, topX (engine.go, reads its edge through a pointer: every scalar leaf it reads becomes a parameter named by
// its field path), getSegmentIntersection (rect_clip.go).  Written to coq/Gen/Kernels2_gen.v on every run;
// Model/Kernel2Proofs.v proves the generated terms against their specifications.

import (
	"fmt"
	"go/ast"
	"go/parser"
	"go/token"
	"os"
	"path/filepath"
	"sort"
	"strings"
)

func init() { commands["kernels2"] = cmdKernels2 }

// deepSel resolves a selector chain rooted at a pointer parameter of a "deep" struct type (one with pointer or nested
// fields): ae.top.X -> parameter ae_top_X : i64.  A chain ending at a flat struct gives the tuple of its leaves.
func (t *kTr) deepSel(e *ast.SelectorExpr, env kEnv) (string, string, bool) {
	var path []string
	var x ast.Expr = e
	for {
		s, ok := x.(*ast.SelectorExpr)
		if !ok {
			break
		}
		path = append([]string{s.Sel.Name}, path...)
		x = s.X
	}
	root, ok := x.(*ast.Ident)
	if !ok {
		return "", "", false
	}
	ty := env.typ[root.Name]
	if !strings.HasPrefix(ty, "D:") {
		return "", "", false
	}
	name := root.Name
	cur := ty[2:]
	deep := true
	for i, f := range path {
		if deep {
			fe, ok := t.deep[cur][f]
			if !ok {
				t.fail("unknown field %s of %s", f, cur)
				return "ERR", "err", true
			}
			fty := kType(fe)
			name += "_" + f
			switch {
			case fty == "i64" || fty == "int" || fty == "u64" || fty == "f64" || fty == "bool":
				if i != len(path)-1 {
					t.fail("selector on scalar field %s", f)
					return "ERR", "err", true
				}
				return t.lazyParam(name, fty), fty, true
			case strings.HasPrefix(fty, "S:"):
				if _, ok := t.structs[fty[2:]]; ok {
					cur, deep = fty[2:], false
					continue
				}
				t.fail("field %s has unsupported type %s", f, fty)
				return "ERR", "err", true
			default:
				t.fail("field %s has unsupported type %s (pointer chains are not followed)", f, fty)
				return "ERR", "err", true
			}
		}
		// inside a flat struct
		for _, fd := range t.structs[cur] {
			if fd.name == f {
				if i != len(path)-1 {
					t.fail("selector below flat struct field")
					return "ERR", "err", true
				}
				return t.lazyParam(name+"_"+f, fd.typ), fd.typ, true
			}
		}
		t.fail("unknown field %s of %s", f, cur)
		return "ERR", "err", true
	}
	if !deep {
		var fs []string
		for _, fd := range t.structs[cur] {
			fs = append(fs, t.lazyParam(name+"_"+fd.name, fd.typ))
		}
		return mkTup(fs), "S:" + cur, true
	}
	t.fail("whole deep struct used as a value")
	return "ERR", "err", true
}

func (t *kTr) lazyParam(name, ty string) string {
	if !t.lazySeen[name] {
		t.lazySeen[name] = true
		t.lazy = append(t.lazy, kField{name, ty})
	}
	return name
}

// prefix translates the longest translatable prefix of a function body (at least min statements) into a term whose
// remaining statements are the parameter `rest`; the number of statements covered and the text of the first
// uncovered statement's leading comment-free source line are emitted beside it
func (t *kTr) prefix(name string, min int, sb *strings.Builder, file string) {
	fn := t.decls[name]
	if fn == nil {
		fmt.Fprintf(sb, "(* %s: NOT FOUND *)\n\n", name)
		return
	}
	var results []string
	if fn.Type.Results != nil {
		for _, f := range fn.Type.Results.List {
			k := len(f.Names)
			if k == 0 {
				k = 1
			}
			for i := 0; i < k; i++ {
				results = append(results, kType(f.Type))
			}
		}
	}
	if len(results) != 1 {
		fmt.Fprintf(sb, "(* %s:%s: NOT TRANSLATABLE: prefix of a function with %d results *)\n\n", file, name, len(results))
		return
	}
	for n := len(fn.Body.List); n >= min; n-- {
		t.err = ""
		env := kEnv{map[string]string{}, map[string]string{}}
		ps := t.params(fn, env)
		term := t.stmts(fn.Body.List[:n], env, results, func(kEnv) string { return "rest" })
		if t.err != "" {
			continue
		}
		sort.Slice(t.lazy, func(i, j int) bool { return t.lazy[i].name < t.lazy[j].name })
		ps = append(ps, t.lazy...)
		ps = append(ps, kField{"rest", results[0]})
		fmt.Fprintf(sb, "(* %s:%s — the first %d of %d statements; rest = the value of the remaining ones *)\nDefinition gen_%s_prefix %s : %s :=\n  %s.\nDefinition gen_%s_prefix_len : Z := %d.\n\n",
			file, name, n, len(fn.Body.List), name, t.paramList(ps), coqType(results[0], t), term, name, n)
		return
	}
	fmt.Fprintf(sb, "(* %s:%s: NOT TRANSLATABLE: no prefix of at least %d statements: %s *)\n\n", file, name, min, t.err)
}

func cmdKernels2(r *RNG, n int, e *Emitter, args []string) {
	repo := "/repo"
	out := "/verif/coq/Gen/Kernels2_gen.v"
	if len(args) > 0 {
		out = args[0]
	}
	if len(args) > 1 {
		repo = args[1]
	}
	fset := token.NewFileSet()
	t := &kTr{structs: map[string][]kField{}, decls: map[string]*ast.FuncDecl{}, sigs: map[string]*kSig{}, consts: map[string]string{},
		deep: map[string]map[string]ast.Expr{}}
	where := map[string]string{}
	files := []string{"internal_clipper.go", "core.go", "generics.go", "engine.go", "rect_clip.go"}
	for _, f := range files {
		src, err := os.ReadFile(repo + "/" + f)
		if err != nil {
			fmt.Println(err)
			os.Exit(1)
		}
		af, err := parser.ParseFile(fset, f, src, 0)
		if err != nil {
			fmt.Println("parse error", err)
			os.Exit(1)
		}
		for _, d := range af.Decls {
			switch v := d.(type) {
			case *ast.FuncDecl:
				if v.Body == nil {
					continue
				}
				name := v.Name.Name
				if v.Recv != nil {
					if len(v.Recv.List) != 1 {
						continue
					}
					rt := kType(v.Recv.List[0].Type)
					if len(rt) < 3 {
						continue
					}
					name = rt[2:] + "_" + name
				}
				t.decls[name] = v
				where[name] = f
			case *ast.GenDecl:
				if v.Tok != token.TYPE {
					continue
				}
				for _, sp := range v.Specs {
					ts := sp.(*ast.TypeSpec)
					st, ok := ts.Type.(*ast.StructType)
					if !ok {
						continue
					}
					var fs []kField
					okAll := true
					dm := map[string]ast.Expr{}
					for _, fd := range st.Fields.List {
						ty := kType(fd.Type)
						if strings.HasPrefix(ty, "S:") || strings.HasPrefix(ty, "P:") || ty == "?" {
							okAll = false
						}
						for _, nm := range fd.Names {
							fs = append(fs, kField{nm.Name, ty})
							dm[nm.Name] = fd.Type
						}
					}
					if okAll && len(fs) > 0 {
						t.structs[ts.Name.Name] = fs
					} else if len(dm) > 0 {
						t.deep[ts.Name.Name] = dm
					}
				}
			}
		}
	}
	var sb strings.Builder
	sb.WriteString("(* GENERATED by `vh kernels2` from /repo/" + strings.Join(files, ", ") + " on every run. Do not edit. *)\n")
	sb.WriteString("From Coq Require Import ZArith QArith Qabs Bool String List.\nFrom Clip Require Import Base.Int64 Model.Arith Model.Simplify Model.SimplifyF64 Model.KernelOps.\nImport ListNotations.\nOpen Scope Z_scope.\nOpen Scope bool_scope.\n\n")
	scalars := []string{"CrossProduct", "getSegmentIntersectPt",
		"NewRect64", "Rect64_IsEmpty", "Rect64_MidPoint", "Rect64_Contains", "Rect64_Intersects",
		"Point64_Equals", "pointsEqual", "ptsReallyClose", "IsOdd", "areaTriangle",
		"hasVertOverlap", "hasHorzOverlap", "isHorizontalPoint", "getSegmentIntersection", "topX"}
	for _, nm := range scalars {
		t.scalar(nm, &sb, where[nm])
	}
	t.prefix("isValidAelOrder", 3, &sb, where["isValidAelOrder"])
	os.MkdirAll(filepath.Dir(out), 0o755)
	if err := os.WriteFile(out, []byte(sb.String()), 0o644); err != nil {
		fmt.Println(err)
		os.Exit(1)
	}
	var found []string
	for k := range t.sigs {
		found = append(found, k)
	}
	sort.Strings(found)
	if e != nil {
		e.Case("kernels2-0", "noop", map[string]any{"translated": found})
	}
}
