package main

import (
	"encoding/json"
	"fmt"
	"math"

	clip "github.com/bolom009/go-clipper2"
)

func init() { commands["c06"] = cmdC06 }

func rectPath(l, t, r, b int64) clip.Path64 {
	return clip.Path64{{X: l, Y: t}, {X: r, Y: t}, {X: r, Y: b}, {X: l, Y: b}}
}

func boundsOf(p clip.Path64) (l, t, r, b int64) {
	l, t, r, b = p[0].X, p[0].Y, p[0].X, p[0].Y
	for _, q := range p {
		l, r = min(l, q.X), max(r, q.X)
		t, b = min(t, q.Y), max(b, q.Y)
	}
	return
}

// C06: rectangle clipping of closed paths.
func cmdC06(r *RNG, n int, e *Emitter, args []string) {
	if len(args) > 0 && args[0] != "lattice3" && args[0] != "lattice4" {
		for i, line := range readLines(args[0]) {
			var c struct {
				In   [][][2]int64 `json:"in"`
				Rect []int64      `json:"rect"`
				Note string       `json:"note"`
			}
			if json.Unmarshal([]byte(line), &c) != nil || len(c.Rect) != 4 {
				continue
			}
			emitC06(e, fmt.Sprintf("corpus%d", i), pathsFromJSON(c.In), c.Rect[0], c.Rect[1], c.Rect[2], c.Rect[3], GenInfo{Kinds: []string{"corpus:" + c.Note}})
		}
	}
	for _, a := range args {
		if a == "lattice3" || a == "lattice4" {
			nv := int(a[7] - '0')
			tot := 1
			for j := 0; j < nv; j++ {
				tot *= 25
			}
			for code := 0; code < tot; code++ {
				var p clip.Path64
				c := code
				for j := 0; j < nv; j++ {
					p = append(p, latticePoint(c%25, 0, 0, 20))
					c /= 25
				}
				emitC06(e, fmt.Sprintf("%s.%d", a, code), clip.Paths64{p}, 0, 0, 40, 40, GenInfo{})
			}
			e.Count("family=" + a + "-exhaustive")
		}
	}
	for i := 0; i < n; i++ {
		if i%4 == 0 {
			genC06Boundary(r, e, i)
			continue
		}
		if i%4 == 2 {
			if i%8 == 2 {
				if i%16 == 10 {
					genC06Grazer(r, e, i)
				} else {
					genC06Around(r, e, i)
				}
			} else if i%16 == 6 {
				genC06Comb(r, e, i)
			} else {
				genC06Lattice(r, e, i)
			}
			continue
		}
		G := grids[r.Intn(len(grids)-1)]
		if r.Intn(6) == 0 {
			G = int64(1) << uint(22+r.Intn(6)) // 4e6 .. 1.3e8: three-factor products of such differences exceed 2^63, two-factor ones do not
		}
		var info GenInfo
		info.Grid = G
		nm := 8
		if G >= 1000 {
			nm = 5
		}
		in := genPathSetN(r, G, 3, nm, &info)
		// rectangle: often through path vertices
		var xs, ys []int64
		for _, p := range in {
			for _, q := range p {
				xs, ys = append(xs, q.X), append(ys, q.Y)
			}
		}
		pick := func(v []int64) int64 {
			if r.Intn(3) == 0 && len(v) > 0 {
				return v[r.Intn(len(v))]
			}
			return r.Range(-G/4, G+G/4)
		}
		l, rr := pick(xs), pick(xs)
		t, b := pick(ys), pick(ys)
		if l > rr {
			l, rr = rr, l
		}
		if t > b {
			t, b = b, t
		}
		if r.Intn(20) == 0 {
			l, rr = -G, 2*G // rectangle swallowing everything
			t, b = -G, 2*G
		}
		dx, dy := shifts[r.Intn(len(shifts))], shifts[r.Intn(len(shifts))]
		if G >= 100 {
			dx, dy = 0, 0
		}
		in = shiftPaths(in, dx, dy)
		l, rr, t, b = l+dx, rr+dx, t+dy, b+dy
		emitC06(e, fmt.Sprint(i), in, l, t, rr, b, info)
	}
}

// boundary family: the rectangle is chosen first; every path vertex is a rectangle corner, a point
// on a rectangle side, a point of one of the eight outer regions or an interior point, so that
// edges touch the rectangle in single points, run along its sides and pass straight through it.
func genC06Boundary(r *RNG, e *Emitter, i int) {
	l, t := r.Range(-50, 50), r.Range(-50, 50)
	w, h := r.Range(6, 400), r.Range(6, 400)
	rr, b := l+w, t+h
	var info GenInfo
	info.Grid = 0
	np := 1 + r.Intn(2)
	var in clip.Paths64
	coord := func(lo, hi int64) int64 {
		switch r.Intn(6) {
		case 0:
			return lo
		case 1:
			return hi
		case 2:
			return lo - r.Range(1, (hi-lo))
		case 3:
			return hi + r.Range(1, (hi-lo))
		default:
			return r.Range(lo, hi)
		}
	}
	for k := 0; k < np; k++ {
		nv := 3 + r.Intn(4)
		var p clip.Path64
		for j := 0; j < nv; j++ {
			if r.Intn(5) == 0 { // a rectangle corner
				p = append(p, clip.Point64{X: []int64{l, rr}[r.Intn(2)], Y: []int64{t, b}[r.Intn(2)]})
				continue
			}
			if j > 0 && r.Intn(4) == 0 { // the edge from the previous vertex runs exactly through a corner
				c := clip.Point64{X: []int64{l, rr}[r.Intn(2)], Y: []int64{t, b}[r.Intn(2)]}
				k := r.Range(1, 2)
				q := p[len(p)-1]
				p = append(p, clip.Point64{X: c.X + k*(c.X-q.X), Y: c.Y + k*(c.Y-q.Y)})
				continue
			}
			p = append(p, clip.Point64{X: coord(l, rr), Y: coord(t, b)})
		}
		in = append(in, p)
	}
	e.Count("family=boundary")
	emitC06(e, fmt.Sprint(i), in, l, t, rr, b, info)
}

// lattice family: every coordinate is one of {outside-, low side, middle, high side, outside+} of the
// rectangle, placed so that the diagonals through the corners are lattice lines; 3-5 vertices.
// All 25^3 ordered triangles are enumerated by the thorough tier ("c06 ... lattice3").
func latticePoint(k int, l, t, w int64) clip.Point64 {
	c := []int64{-2, 0, 1, 2, 4}
	return clip.Point64{X: l + c[k%5]*w, Y: t + c[k/5]*w}
}

func genC06Lattice(r *RNG, e *Emitter, i int) {
	l, t := r.Range(-50, 50), r.Range(-50, 50)
	w := r.Range(4, 30)
	var info GenInfo
	nv := 3 + r.Intn(3)
	var p clip.Path64
	for j := 0; j < nv; j++ {
		p = append(p, latticePoint(r.Intn(25), l, t, w))
	}
	e.Count("family=lattice")
	emitC06(e, fmt.Sprint(i), clip.Paths64{p}, l, t, l+2*w, t+2*w, info)
}

// around family: a star-shaped simple polygon about the rectangle's centre whose vertices lie outside the
// rectangle (beyond its corners) or inside it, so that the path runs round several sides without touching
// the rectangle between its visits; every cyclic start vertex and both orientations occur
func genC06Around(r *RNG, e *Emitter, i int) {
	w, h := r.Range(20, 200), r.Range(20, 200)
	l, t := r.Range(-50, 50), r.Range(-50, 50)
	cx, cy := float64(l)+float64(w)/2, float64(t)+float64(h)/2
	diag := math.Hypot(float64(w), float64(h)) / 2
	nv := 5 + r.Intn(5)
	p := make(clip.Path64, 0, nv)
	a0 := r.Float() * 2 * math.Pi
	for j := 0; j < nv; j++ {
		a := a0 + 2*math.Pi*(float64(j)+0.1+0.8*r.Float())/float64(nv)
		rad := diag * (1.05 + 1.5*r.Float())
		if r.Intn(4) == 0 {
			rad = diag * 0.6 * r.Float() * math.Min(float64(w), float64(h)) / (2 * diag)
		}
		p = append(p, clip.Point64{X: int64(math.Round(cx + rad*math.Cos(a))), Y: int64(math.Round(cy + rad*math.Sin(a)))})
	}
	// back-tracking: now and then the path steps back towards the previous vertex's direction before going on
	// (a notch that does not reach the rectangle), so that consecutive outside regions are visited non-monotonically
	if r.Bool() {
		var p2 clip.Path64
		for j := range p {
			p2 = append(p2, p[j])
			if j > 0 && r.Intn(3) == 0 {
				a, b := p[j-1], p[j]
				in1 := clip.Point64{X: int64(math.Round(cx + (float64(a.X)-cx)*0.93)), Y: int64(math.Round(cy + (float64(a.Y)-cy)*0.93))}
				out1 := clip.Point64{X: int64(math.Round(cx + (float64(b.X)-cx)*1.12)), Y: int64(math.Round(cy + (float64(b.Y)-cy)*1.12))}
				p2 = append(p2, in1, out1)
			}
		}
		p = p2
		nv = len(p)
	}
	k := r.Intn(nv)
	p = append(append(clip.Path64{}, p[k:]...), p[:k]...)
	if r.Bool() {
		p = clip.ReversePath(p)
	}
	in := clip.Paths64{p}
	if r.Intn(4) == 0 { // a second path lying inside
		in = append(in, rectPath(l+w/3, t+h/3, l+w/2, t+h/2))
	}
	e.Count("family=around")
	emitC06(e, fmt.Sprint(i), in, l, t, l+w, t+h, GenInfo{})
}

// grazer family: long shallow edges that pass just outside a rectangle corner and run far beyond it on both sides,
// so that an edge joins a side region to the diagonally opposite corner zone (or to the opposite side) round the FAR
// side of the rectangle; the other vertices are interior points, points of the side regions and further grazers
func genC06Grazer(r *RNG, e *Emitter, i int) {
	w, h := r.Range(20, 120), r.Range(20, 120)
	l, t := r.Range(-30, 30), r.Range(-30, 30)
	rr, b := l+w, t+h
	crosses := func(a, c clip.Point64) bool { // does segment ac meet the closed rectangle? (sampled exactly enough: 400 steps)
		for k := 0; k <= 400; k++ {
			x := float64(a.X) + (float64(c.X)-float64(a.X))*float64(k)/400
			y := float64(a.Y) + (float64(c.Y)-float64(a.Y))*float64(k)/400
			if x >= float64(l) && x <= float64(rr) && y >= float64(t) && y <= float64(b) {
				return true
			}
		}
		return false
	}
	grazer := func() (clip.Point64, clip.Point64) {
		for {
			ox, oy := int64(1), int64(1)
			kx, ky := rr, b
			if r.Bool() {
				ox, kx = -1, l
			}
			if r.Bool() {
				oy, ky = -1, t
			}
			m := r.Range(1, 6)
			mx, my := kx+ox*m, ky+oy*m
			da, db := r.Range(1, 12), r.Range(1, 12)
			if r.Bool() {
				da *= r.Range(2, 10) // shallow
			} else {
				db *= r.Range(2, 10) // steep
			}
			dx, dy := ox*da, -oy*db
			s1, s2 := r.Range(1, 25), r.Range(1, 25)
			a := clip.Point64{X: mx - s1*dx, Y: my - s1*dy}
			c := clip.Point64{X: mx + s2*dx, Y: my + s2*dy}
			if !crosses(a, c) {
				if r.Bool() {
					a, c = c, a
				}
				return a, c
			}
		}
	}
	inside := func() clip.Point64 { return clip.Point64{X: r.Range(l+1, rr-1), Y: r.Range(t+1, b-1)} }
	side := func() clip.Point64 { // a point of one of the four side regions
		switch r.Intn(4) {
		case 0:
			return clip.Point64{X: r.Range(l, rr), Y: b + r.Range(1, 60)}
		case 1:
			return clip.Point64{X: r.Range(l, rr), Y: t - r.Range(1, 60)}
		case 2:
			return clip.Point64{X: l - r.Range(1, 60), Y: r.Range(t, b)}
		}
		return clip.Point64{X: rr + r.Range(1, 60), Y: r.Range(t, b)}
	}
	var p clip.Path64
	switch r.Intn(4) {
	case 0:
		a, c := grazer()
		p = clip.Path64{inside(), side(), a, c}
	case 1:
		a, c := grazer()
		p = clip.Path64{inside(), a, c}
	case 2:
		a, c := grazer()
		a2, c2 := grazer()
		p = clip.Path64{a, c, a2, c2}
	default:
		a, c := grazer()
		p = clip.Path64{side(), a, c, side(), inside()}
	}
	k := r.Intn(len(p))
	p = append(append(clip.Path64{}, p[k:]...), p[:k]...)
	if r.Bool() {
		p = clip.ReversePath(p)
	}
	e.Count("family=grazer")
	emitC06(e, fmt.Sprint(i), clip.Paths64{p}, l, t, rr, b, GenInfo{})
}

// comb family: a simple zigzag polygon that enters and leaves the rectangle several times through ONE side with
// slanted teeth, its connecting part outside, so that the clipped pieces share that rectangle side; any of the four
// sides, both orientations, every start vertex
func genC06Comb(r *RNG, e *Emitter, i int) {
	w, h := r.Range(40, 200), r.Range(60, 300)
	teeth := 2 + r.Intn(3)
	// built against the LEFT side of the rectangle (0,0,w,h), y increasing along the zigzag
	var p clip.Path64
	y := r.Range(2, h/(2*int64(teeth)+1))
	for k := 0; k <= teeth; k++ {
		p = append(p, clip.Point64{X: -r.Range(3, 40), Y: y})
		y += r.Range(3, h/(2*int64(teeth)+1))
		if k < teeth {
			p = append(p, clip.Point64{X: r.Range(3, w-3), Y: y})
			y += r.Range(3, h/(2*int64(teeth)+1))
		}
	}
	far := -r.Range(50, 90)
	p = append(p, clip.Point64{X: far, Y: p[len(p)-1].Y}, clip.Point64{X: far, Y: p[0].Y})
	// map to the chosen side
	side := r.Intn(4)
	l, t := r.Range(-50, 50), r.Range(-50, 50)
	rw, rh := w, h
	for j := range p {
		x, yy := p[j].X, p[j].Y
		switch side {
		case 1: // right
			x = w - x
		case 2: // top
			x, yy = yy, x
		case 3: // bottom
			x, yy = yy, w-x
		}
		p[j] = clip.Point64{X: x + l, Y: yy + t}
	}
	if side >= 2 {
		rw, rh = h, w
	}
	k := r.Intn(len(p))
	p = append(append(clip.Path64{}, p[k:]...), p[:k]...)
	if r.Bool() {
		p = clip.ReversePath(p)
	}
	e.Count("family=comb")
	emitC06(e, fmt.Sprint(i), clip.Paths64{p}, l, t, l+rw, t+rh, GenInfo{})
}

func emitC06(e *Emitter, idx string, in clip.Paths64, l, t, rr, b int64, info GenInfo) {
	rect := clip.NewRect64(l, t, rr, b)
	in0 := clonePaths(in)
	var out clip.Paths64
	var per []clip.Paths64
	perr := safeCall(func() {
		out = clip.RectClipPaths64(rect, in)
		for _, p := range in {
			per = append(per, clip.RectClipPath64(rect, p))
		}
	})
	meta := map[string]any{"in": pathsJSON(in0), "rect": []int64{l, t, rr, b}, "gen": info}
	if perr != "" {
		meta["panic"], meta["kind"] = perr, "panic"
		e.Fail(meta)
		return
	}
	meta["out"] = pathsJSON(out)
	if !pathsEqual(in, in0) {
		meta["kind"] = "input-mutated"
		e.Fail(meta)
		return
	}
	empty := b <= t || rr <= l
	if empty {
		if len(out) != 0 {
			meta["kind"] = "empty rectangle returned paths"
			e.Fail(meta)
		}
		e.Count("empty-rect")
		return
	}
	// driver: the joint result is the concatenation of the single-path results
	var cat clip.Paths64
	for _, ps := range per {
		cat = append(cat, ps...)
	}
	if !pathsEqual(cat, out) {
		meta["kind"] = "RectClipPaths64 differs from the concatenation of RectClipPath64 results"
		meta["per_path"] = cat
		e.Fail(meta)
		return
	}
	// vertices within the rectangle enlarged by 1
	for _, p := range out {
		for _, q := range p {
			if q.X < l-1 || q.X > rr+1 || q.Y < t-1 || q.Y > b+1 {
				meta["kind"] = fmt.Sprintf("output vertex (%d,%d) more than 1 unit outside the rectangle", q.X, q.Y)
				e.Fail(meta)
				return
			}
		}
	}
	// inside unchanged / outside vanish, path by path
	for k, p := range in {
		if len(p) < 3 {
			continue
		}
		pl, pt, pr, pb := boundsOf(p)
		if pl >= l && pr <= rr && pt >= t && pb <= b {
			if len(per[k]) != 1 || !pathsEqual(per[k], clip.Paths64{p}) {
				meta["kind"] = fmt.Sprintf("path %d lies entirely inside the rectangle but was not returned unchanged", k)
				meta["per_path_result"] = pathsJSON(per[k])
				e.Fail(meta)
				return
			}
			e.Count("path-inside")
		} else if pr < l || pl > rr || pb < t || pt > b {
			if len(per[k]) != 0 {
				meta["kind"] = fmt.Sprintf("path %d lies entirely outside the rectangle but produced output", k)
				e.Fail(meta)
				return
			}
			e.Count("path-outside")
		} else {
			e.Count("path-crossing")
		}
	}
	// closed inputs with < 3 points have no region; the checker sees them as degenerate edges
	rp := clip.Paths64{rectPath(l, t, rr, b)}
	band := append(clonePaths(in), rp...)
	line, nslabs := genLine("rect", "4", []clip.Paths64{in, out, rp}, band, nil)
	e.Case("c06-"+idx, line, meta)
	e.Count(fmt.Sprintf("grid=%d", info.Grid))
	e.Count(fmt.Sprintf("out_paths<=%d", bucket(len(out))))
	if nslabs > 2 && len(out) > 0 {
		e.Nontrivial(line)
	}
}
