package main

import (
	"fmt"

	clip "github.com/bolom009/go-clipper2"
)

func init() { commands["c06"] = cmdC06 }

func rectPath(l, t, r, b int64) clip.Path64 {
	return clip.Path64{{X: l, Y: t}, {X: r, Y: t}, {X: r, Y: b}, {X: l, Y: b}}
}

func boundsOf(p clip.Path64) (l, t, r, b int64) {
	l, t, r, b = p[0].X, p[0].Y, p[0].X, p[0].Y
	for _, q := range p {
		l, r = min(l, q.X), max(r, q.X)
		t, b = min(t, q.Y), max(b, q.Y)
	}
	return
}

// C06: rectangle clipping of closed paths.
func cmdC06(r *RNG, n int, e *Emitter, args []string) {
	for i := 0; i < n; i++ {
		G := grids[r.Intn(len(grids)-1)]
		var info GenInfo
		info.Grid = G
		nm := 8
		if G >= 1000 {
			nm = 5
		}
		in := genPathSetN(r, G, 3, nm, &info)
		// rectangle: often through path vertices
		var xs, ys []int64
		for _, p := range in {
			for _, q := range p {
				xs, ys = append(xs, q.X), append(ys, q.Y)
			}
		}
		pick := func(v []int64) int64 {
			if r.Intn(3) == 0 && len(v) > 0 {
				return v[r.Intn(len(v))]
			}
			return r.Range(-G/4, G+G/4)
		}
		l, rr := pick(xs), pick(xs)
		t, b := pick(ys), pick(ys)
		if l > rr {
			l, rr = rr, l
		}
		if t > b {
			t, b = b, t
		}
		if r.Intn(20) == 0 {
			l, rr = -G, 2*G // rectangle swallowing everything
			t, b = -G, 2*G
		}
		dx, dy := shifts[r.Intn(len(shifts))], shifts[r.Intn(len(shifts))]
		if G >= 100 {
			dx, dy = 0, 0
		}
		in = shiftPaths(in, dx, dy)
		l, rr, t, b = l+dx, rr+dx, t+dy, b+dy
		emitC06(e, fmt.Sprint(i), in, l, t, rr, b, info)
	}
}

func emitC06(e *Emitter, idx string, in clip.Paths64, l, t, rr, b int64, info GenInfo) {
	rect := clip.NewRect64(l, t, rr, b)
	in0 := clonePaths(in)
	var out clip.Paths64
	var per []clip.Paths64
	perr := safeCall(func() {
		out = clip.RectClipPaths64(rect, in)
		for _, p := range in {
			per = append(per, clip.RectClipPath64(rect, p))
		}
	})
	meta := map[string]any{"in": pathsJSON(in0), "rect": []int64{l, t, rr, b}, "gen": info}
	if perr != "" {
		meta["panic"], meta["kind"] = perr, "panic"
		e.Fail(meta)
		return
	}
	meta["out"] = pathsJSON(out)
	if !pathsEqual(in, in0) {
		meta["kind"] = "input-mutated"
		e.Fail(meta)
		return
	}
	empty := b <= t || rr <= l
	if empty {
		if len(out) != 0 {
			meta["kind"] = "empty rectangle returned paths"
			e.Fail(meta)
		}
		e.Count("empty-rect")
		return
	}
	// driver: the joint result is the concatenation of the single-path results
	var cat clip.Paths64
	for _, ps := range per {
		cat = append(cat, ps...)
	}
	if !pathsEqual(cat, out) {
		meta["kind"] = "RectClipPaths64 differs from the concatenation of RectClipPath64 results"
		meta["per_path"] = cat
		e.Fail(meta)
		return
	}
	// vertices within the rectangle enlarged by 1
	for _, p := range out {
		for _, q := range p {
			if q.X < l-1 || q.X > rr+1 || q.Y < t-1 || q.Y > b+1 {
				meta["kind"] = fmt.Sprintf("output vertex (%d,%d) more than 1 unit outside the rectangle", q.X, q.Y)
				e.Fail(meta)
				return
			}
		}
	}
	// inside unchanged / outside vanish, path by path
	for k, p := range in {
		if len(p) < 3 {
			continue
		}
		pl, pt, pr, pb := boundsOf(p)
		if pl >= l && pr <= rr && pt >= t && pb <= b {
			if len(per[k]) != 1 || !pathsEqual(per[k], clip.Paths64{p}) {
				meta["kind"] = fmt.Sprintf("path %d lies entirely inside the rectangle but was not returned unchanged", k)
				meta["per_path_result"] = pathsJSON(per[k])
				e.Fail(meta)
				return
			}
			e.Count("path-inside")
		} else if pr < l || pl > rr || pb < t || pt > b {
			if len(per[k]) != 0 {
				meta["kind"] = fmt.Sprintf("path %d lies entirely outside the rectangle but produced output", k)
				e.Fail(meta)
				return
			}
			e.Count("path-outside")
		} else {
			e.Count("path-crossing")
		}
	}
	// closed inputs with < 3 points have no region; the checker sees them as degenerate edges
	rp := clip.Paths64{rectPath(l, t, rr, b)}
	band := append(clonePaths(in), rp...)
	line, nslabs := genLine("rect", "4", []clip.Paths64{in, out, rp}, band, nil)
	e.Case("c06-"+idx, line, meta)
	e.Count(fmt.Sprintf("grid=%d", info.Grid))
	e.Count(fmt.Sprintf("out_paths<=%d", bucket(len(out))))
	if nslabs > 2 && len(out) > 0 {
		e.Nontrivial(line)
	}
}
