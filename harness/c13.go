package main

import (
	"fmt"

	clip "github.com/bolom009/go-clipper2"
)

func init() { commands["c13"] = cmdC13 }

func scalePaths(ps clip.Paths64, k int64) clip.Paths64 {
	out := make(clip.Paths64, len(ps))
	for i, p := range ps {
		out[i] = make(clip.Path64, len(p))
		for j, q := range p {
			out[i][j] = clip.Point64{X: q.X * k, Y: q.Y * k}
		}
	}
	return out
}

// C13: results do not depend on coordinate magnitude.
//
//	translation: op(x + v) - v describes the same region as op(x)      (|coords| <= 2^52)
//	scaling:     op(k x) is the k-fold of the true region of x          (|coords| <= 2^61)
func cmdC13(r *RNG, n int, e *Emitter, args []string) {
	for i := 0; i < n; i++ {
		takeDiscards()
		G := []int64{4, 8, 16, 32, 100}[r.Intn(5)]
		var info GenInfo
		info.Grid = G
		s := genPathSetN(r, G, 2, 6, &info)
		c := genPathSetN(r, G, 1, 6, &info)
		ct := clip.ClipType(1 + r.Intn(4))
		fr := clip.FillRule(r.Intn(4))
		base := clip.BooleanOpPaths64(ct, s, c, fr)
		mode := r.Intn(3)
		meta := map[string]any{"subject": pathsJSON(s), "clip": pathsJSON(c), "clip_nil": false, "ct": int(ct), "fr": int(fr), "gen": info}
		switch mode {
		case 0, 1: // translation anywhere in [-2^52, 2^52]
			sh := uint(20 + r.Intn(33))
			vx, vy := r.Range(-(int64(1)<<sh)+200, (int64(1)<<sh)-200), r.Range(-(int64(1)<<sh)+200, (int64(1)<<sh)-200)
			var out clip.Paths64
			perr := safeCall(func() { out = clip.BooleanOpPaths64(ct, shiftPaths(s, vx, vy), shiftPaths(c, vx, vy), fr) })
			meta["mode"], meta["v"] = "translate", []int64{vx, vy}
			if perr != "" {
				meta["panic"], meta["kind"] = perr, "panic on translated input"
				e.Fail(meta)
				continue
			}
			back := shiftPaths(out, -vx, -vy)
			meta["out_base"], meta["out_back"] = pathsJSON(base), pathsJSON(back)
			line, _ := genLine("sameodd", "4", []clip.Paths64{base, back}, append(clonePaths(s), c...), nil)
			e.Case(fmt.Sprintf("c13-%dt", i), line, meta)
			e.Count(fmt.Sprintf("translate<=2^%d", (sh/8+1)*8))
			// exact functions on the translated copy
			if len(s) > 0 && len(s[0]) >= 3 && sh <= 52 {
				p := s[0]
				pt := shiftPaths(clip.Paths64{p}, vx, vy)[0]
				q := clip.Point64{X: r.Range(0, G), Y: r.Range(0, G)}
				if clip.PointInPolygon(q, p) != clip.PointInPolygon(clip.Point64{X: q.X + vx, Y: q.Y + vy}, pt) {
					m := map[string]any{"kind": "PointInPolygon changes under translation", "path": pathJSON(p), "q": []int64{q.X, q.Y}, "v": []int64{vx, vy}}
					e.Fail(m)
				}
				if a, b := clip.Area64(p), clip.Area64(pt); a != b {
					m := map[string]any{"kind": fmt.Sprintf("Area64 changes under translation: %v vs %v", a, b), "known_key": "area64-absolute-coordinates", "path": pathJSON(p), "v": []int64{vx, vy}}
					e.Fail(m)
				}
			}
		default: // scaling up to 2^61
			sh := uint(20 + r.Intn(36))
			k := (int64(1) << sh) / G
			if k < 1 {
				k = 1
			}
			ks, kc := scalePaths(s, k), scalePaths(c, k)
			var out clip.Paths64
			perr := safeCall(func() { out = clip.BooleanOpPaths64(ct, ks, kc, fr) })
			meta["mode"], meta["k"] = "scale", k
			if perr != "" {
				meta["panic"], meta["kind"] = perr, "panic on scaled input"
				e.Fail(meta)
				continue
			}
			meta["out_scaled"] = pathsJSON(out)
			meta["ks"], meta["kc"] = pathsJSON(ks), pathsJSON(kc)
			// band radius 2 + 2^-40 * extent (extent = k*G), squared, as an exact rational
			// r = 2 + ext/2^40 ; r2 = (2^41 + ext)^2 / 2^80
			ext := k * G
			num := fmt.Sprintf("%d", 0) // placeholder, computed in big ints below
			_ = num
			r2 := r2Scaled(ext)
			line, _ := genLine(fmt.Sprintf("bool %d %d", int(ct), int(fr)), r2, []clip.Paths64{ks, kc, out}, append(clonePaths(ks), kc...), nil)
			meta["r2"] = r2
			e.Case(fmt.Sprintf("c13-%ds", i), line, meta)
			e.Count(fmt.Sprintf("scale<=2^%d", (sh/8+1)*8))
		}
		e.Nontrivial(fmt.Sprint(i))
	}
}
