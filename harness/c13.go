package main

import (
	"math"
	"fmt"

	clip "github.com/bolom009/go-clipper2"
)

func init() { commands["c13"] = cmdC13 }

func scalePaths(ps clip.Paths64, k int64) clip.Paths64 {
	out := make(clip.Paths64, len(ps))
	for i, p := range ps {
		out[i] = make(clip.Path64, len(p))
		for j, q := range p {
			out[i][j] = clip.Point64{X: q.X * k, Y: q.Y * k}
		}
	}
	return out
}

// C13: results do not depend on coordinate magnitude.
//
//	translation: op(x + v) - v describes the same region as op(x)      (|coords| <= 2^52)
//	scaling:     op(k x) is the k-fold of the true region of x          (|coords| <= 2^61)
func cmdC13(r *RNG, n int, e *Emitter, args []string) {
	for i := 0; i < n; i++ {
		clearEvents()
		G := []int64{4, 8, 16, 32, 100}[r.Intn(5)]
		var info GenInfo
		info.Grid = G
		s := genPathSetN(r, G, 2, 6, &info)
		c := genPathSetN(r, G, 1, 6, &info)
		ct := clip.ClipType(1 + r.Intn(4))
		fr := clip.FillRule(r.Intn(4))
		base := clip.BooleanOpPaths64(ct, s, c, fr)
		mode := r.Intn(3)
		meta := map[string]any{"subject": pathsJSON(s), "clip": pathsJSON(c), "clip_nil": false, "ct": int(ct), "fr": int(fr), "gen": info}
		switch mode {
		case 0, 1: // translation anywhere in [-2^52, 2^52]
			sh := uint(20 + r.Intn(33))
			vx, vy := r.Range(-(int64(1)<<sh)+200, (int64(1)<<sh)-200), r.Range(-(int64(1)<<sh)+200, (int64(1)<<sh)-200)
			var out clip.Paths64
			perr := safeCall(func() { out = clip.BooleanOpPaths64(ct, shiftPaths(s, vx, vy), shiftPaths(c, vx, vy), fr) })
			meta["mode"], meta["v"] = "translate", []int64{vx, vy}
			if perr != "" {
				meta["panic"], meta["kind"] = perr, "panic on translated input"
				e.Fail(meta)
				continue
			}
			back := shiftPaths(out, -vx, -vy)
			meta["out_base"], meta["out_back"] = pathsJSON(base), pathsJSON(back)
			line, _ := genLine("sameodd", "4", []clip.Paths64{base, back}, append(clonePaths(s), c...), nil)
			e.Case(fmt.Sprintf("c13-%dt", i), line, meta)
			e.Count(fmt.Sprintf("translate<=2^%d", (sh/8+1)*8))
			// exact functions on the translated copy
			if len(s) > 0 && len(s[0]) >= 3 && sh <= 52 {
				p := s[0]
				pt := shiftPaths(clip.Paths64{p}, vx, vy)[0]
				q := clip.Point64{X: r.Range(0, G), Y: r.Range(0, G)}
				if clip.PointInPolygon(q, p) != clip.PointInPolygon(clip.Point64{X: q.X + vx, Y: q.Y + vy}, pt) {
					m := map[string]any{"kind": "PointInPolygon changes under translation", "path": pathJSON(p), "q": []int64{q.X, q.Y}, "v": []int64{vx, vy}}
					e.Fail(m)
				}
				if a, b := clip.Area64(p), clip.Area64(pt); a != b {
					m := map[string]any{"kind": fmt.Sprintf("Area64 changes under translation: %v vs %v", a, b), "known_key": "area64-absolute-coordinates", "path": pathJSON(p), "v": []int64{vx, vy}}
					e.Fail(m)
				}
			}
			// the other operations on translated copies (sh <= 52)
			if sh <= 52 {
				// SimplifyPath64: depends on coordinate differences only, so the result translates exactly
				if len(s) > 0 && len(s[0]) >= 4 {
					p := s[0]
					eps := []float64{0, 1, 1.5, float64(G) / 8, float64(G) / 3}[r.Intn(5)]
					closed := r.Bool()
					a := clip.SimplifyPath64(p, eps, closed)
					b := shiftPaths(clip.Paths64{clip.SimplifyPath64(shiftPaths(clip.Paths64{p}, vx, vy)[0], eps, closed)}, -vx, -vy)[0]
					if !pathsEqual(clip.Paths64{a}, clip.Paths64{b}) {
						e.Fail(map[string]any{"kind": "SimplifyPath64 changes under translation", "path": pathJSON(p), "eps": eps, "closed": closed, "v": []int64{vx, vy}, "base": pathJSON(a), "translated_back": pathJSON(b)})
					}
					e.Count("simplify-translated")
				}
				// RectClipPaths64 of the subject by a rectangle through the grid
				if r.Intn(2) == 0 {
					l, t := r.Range(-G/4, G/2), r.Range(-G/4, G/2)
					rr, b := l+r.Range(5, G), t+r.Range(5, G)
					var o1, o2 clip.Paths64
					perr := safeCall(func() {
						o1 = clip.RectClipPaths64(clip.NewRect64(l, t, rr, b), s)
						o2 = clip.RectClipPaths64(clip.NewRect64(l+vx, t+vy, rr+vx, b+vy), shiftPaths(s, vx, vy))
					})
					rp := clip.Paths64{rectPath(l, t, rr, b)}
					m2 := map[string]any{"subject": pathsJSON(s), "clip": pathsJSON(rp), "clip_nil": false, "ct": 0, "fr": 0, "mode": "translate", "op": "RectClipPaths64", "v": []int64{vx, vy}}
					if perr != "" {
						m2["panic"], m2["kind"] = perr, "RectClipPaths64 panics on translated input"
						e.Fail(m2)
					} else {
						m2["out_base"], m2["out_back"] = pathsJSON(o1), pathsJSON(shiftPaths(o2, -vx, -vy))
						line, _ := genLine("sameodd", "4", []clip.Paths64{o1, shiftPaths(o2, -vx, -vy)}, append(clonePaths(s), rp...), nil)
						e.Case(fmt.Sprintf("c13-%dtr", i), line, m2)
						e.Count("rectclip-translated")
					}
				}
				// InflatePaths64 of a simple polygon set: the band is the two results' own boundaries
				if r.Intn(3) == 0 {
					S := []float64{40, 80, 200}[r.Intn(3)]
					in := genSimpleSet(r, S)
					delta := S * (0.05 + 0.3*r.Float())
					if r.Bool() {
						delta = -delta / 2
					}
					jt := clip.JoinType(r.Intn(4))
					var o1, o2 clip.Paths64
					perr := safeCall(func() {
						o1 = clip.InflatePaths64(in, delta, jt, clip.Polygon)
						o2 = clip.InflatePaths64(shiftPaths(in, vx, vy), delta, jt, clip.Polygon)
					})
					if perr != "" {
						e.Fail(map[string]any{"kind": "InflatePaths64 panics on translated input", "panic": perr, "path": pathsJSON(in), "v": []int64{vx, vy}})
					} else {
						back := shiftPaths(o2, -vx, -vy)
						m3 := map[string]any{"subject": pathsJSON(o1), "clip": pathsJSON(back), "clip_nil": false, "ct": 0, "fr": 0, "mode": "translate", "op": fmt.Sprintf("InflatePaths64 delta=%v join=%d of %v", delta, jt, in), "v": []int64{vx, vy},
							"out_base": pathsJSON(o1), "out_back": pathsJSON(back)}
						line, _ := genLine("sameodd", "4", []clip.Paths64{o1, back}, append(clonePaths(o1), back...), nil)
						e.Case(fmt.Sprintf("c13-%dto", i), line, m3)
						e.Count("inflate-translated")
					}
				}
			}
		default: // scaling up to 2^61
			sh := uint(20 + r.Intn(36))
			k := (int64(1) << sh) / G
			if k < 1 {
				k = 1
			}
			ks, kc := scalePaths(s, k), scalePaths(c, k)
			if r.Intn(5) == 0 {
				// near-touch at large extent: a long, nearly flat subject edge A = (0,H) -> (512H+1, 0) and a thin clip
				// triangle whose vertex V lies a fraction of a unit beside A (V = (512u, H-u) is u/H units left of it),
				// all multiplied by kk so that the extent reaches up to 2^29 while V stays within half a unit of A
				H := int64(1) << uint(8+r.Intn(5))
				L := 512*H + 1
				kk := r.Range(1, (int64(1)<<29)/L)
				u := r.Range(1, max(1, H/(2*kk))) // kk*u/H < 1/2: V stays within half a unit of A after scaling
				V := clip.Point64{X: 512 * u, Y: H - u}
				bs := clip.Paths64{{{X: 0, Y: H}, {X: L, Y: 0}, {X: L, Y: H}}}
				// the clip wedge is shallow too (its edges through V are nearly parallel to A), or steep
				a1, a2 := r.Range(500, 30000), r.Range(500, 30000)
				bc := clip.Paths64{{{X: V.X - a1, Y: V.Y + r.Range(1, a1/200+1)}, V, {X: V.X - a2, Y: V.Y - r.Range(1, a2/200+1)}}}
				if r.Intn(3) == 0 {
					bc = clip.Paths64{{V, {X: V.X + r.Range(20, 80), Y: V.Y + H/4}, {X: V.X - r.Range(20, 80), Y: V.Y + H/4}}}
				}
				if r.Bool() { // mirrored top-bottom
					for _, ps := range []clip.Paths64{bs, bc} {
						for i := range ps {
							for j := range ps[i] {
								ps[i][j].Y = H - ps[i][j].Y
							}
						}
					}
				}
				ks, kc = scalePaths(bs, kk), scalePaths(bc, kk)
				k, G = kk, L
				s, c = bs, bc
				meta["subject"], meta["clip"] = pathsJSON(s), pathsJSON(c)
				e.Count("scale-near-touch")
			}
			if r.Intn(4) == 0 {
				// PointInPolygon on a many-vertex polygon whose edges stay below 2^31 while its extent exceeds 2^33: the
				// answer for (k q, k P) must be the answer for (q, P).  Flat-topped (the closing edge is horizontal), so that
				// the routine's unguarded closing-edge product is not what is being measured.
				n := 64 + 2*r.Intn(97)
				R := float64(r.Range(800, 2000))
				pp := make(clip.Path64, n)
				for j := range pp {
					a := -math.Pi/2 + (float64(j)+0.5)*2*math.Pi/float64(n)
					rad := R * (1 + 0.02*(r.Float()-0.5))
					if j == 0 || j == n-1 {
						rad = R
					}
					pp[j] = clip.Point64{X: int64(math.Round(rad * math.Cos(a))), Y: int64(math.Round(rad * math.Sin(a)))}
				}
				pp[n-1].Y = pp[0].Y
				kp := int64(1) << 24
				sp := scalePaths(clip.Paths64{pp}, kp)[0]
				for t := 0; t < 40; t++ {
					q := clip.Point64{X: r.Range(-int64(R)-50, int64(R)+50), Y: r.Range(-int64(R)-50, int64(R)+50)}
					a, b := clip.PointInPolygon(q, pp), clip.PointInPolygon(clip.Point64{X: q.X * kp, Y: q.Y * kp}, sp)
					if a != b {
						e.Fail(map[string]any{"kind": fmt.Sprintf("PointInPolygon changes under scaling by 2^24 (%d-gon, edges below 2^31, extent above 2^33): %v vs %v", n, a, b), "path": pathJSON(pp), "q": []int64{q.X, q.Y}, "k": kp})
						break
					}
				}
				e.Count("pip-scaled-many-vertex")
			}
			var out clip.Paths64
			perr := safeCall(func() { out = clip.BooleanOpPaths64(ct, ks, kc, fr) })
			meta["mode"], meta["k"] = "scale", k
			if perr != "" {
				meta["panic"], meta["kind"] = perr, "panic on scaled input"
				e.Fail(meta)
				continue
			}
			meta["out_scaled"] = pathsJSON(out)
			meta["ks"], meta["kc"] = pathsJSON(ks), pathsJSON(kc)
			// band radius 2 + 2^-40 * extent (extent = k*G), squared, as an exact rational
			// r = 2 + ext/2^40 ; r2 = (2^41 + ext)^2 / 2^80
			ext := k * G
			num := fmt.Sprintf("%d", 0) // placeholder, computed in big ints below
			_ = num
			r2 := r2Scaled(ext)
			line, _ := genLine(fmt.Sprintf("bool %d %d", int(ct), int(fr)), r2, []clip.Paths64{ks, kc, out}, append(clonePaths(ks), kc...), nil)
			meta["r2"] = r2
			e.Case(fmt.Sprintf("c13-%ds", i), line, meta)
			e.Count(fmt.Sprintf("scale<=2^%d", (sh/8+1)*8))
		}
		e.Nontrivial(fmt.Sprint(i))
	}
}
