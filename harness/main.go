package main

import (
	"runtime/debug"
	"bufio"
	"strings"

	"encoding/json"
	"flag"
	"fmt"
	clip "github.com/bolom009/go-clipper2"
	"os"
	"sort"
)

// Emitter writes the case lines for the extracted Coq checker/model and a
// parallel JSONL file with the raw inputs (for replay files and evidence).
type Emitter struct {
	cases *bufio.Writer
	meta  *bufio.Writer
	n     int
	dist  map[string]int
	// direct failures found by the harness itself (panics, non-success, byte diffs ...)
	Direct     []map[string]any
	nontrivial map[string]bool
}

func NewEmitter(dir string) *Emitter {
	os.MkdirAll(dir, 0o755)
	cf, err := os.Create(dir + "/cases.txt")
	if err != nil {
		panic(err)
	}
	mf, err := os.Create(dir + "/meta.jsonl")
	if err != nil {
		panic(err)
	}
	return &Emitter{cases: bufio.NewWriterSize(cf, 1<<20), meta: bufio.NewWriterSize(mf, 1<<20), dist: map[string]int{}, nontrivial: map[string]bool{}}
}

func (e *Emitter) Case(id string, line string, meta map[string]any) {
	fmt.Fprintf(e.cases, "%s %s\n", id, line)
	meta["id"] = id
	// geometry the sweep discarded while producing the outputs of this case
	if ev := takeDiscards(); len(ev) > 0 {
		meta["split_discards"] = ev
	}
	if ev := takeMicro(); len(ev) > 0 {
		meta["micro_splices"] = ev
	}
	b, _ := json.Marshal(meta)
	e.meta.Write(b)
	e.meta.WriteByte('\n')
	e.n++
}

func (e *Emitter) Count(key string) { e.dist[key]++ }

func (e *Emitter) Nontrivial(key string) { e.nontrivial[key] = true }

func (e *Emitter) Fail(m map[string]any) {
	if p, ok := m["panic"].(string); ok && strings.HasPrefix(p, "skipped:") {
		return // the stream is being wound down after repeated hangs
	}
	if ev := takeDiscards(); len(ev) > 0 {
		m["split_discards"] = ev
	}
	if ev := takeMicro(); len(ev) > 0 {
		m["micro_splices"] = ev
	}
	e.Direct = append(e.Direct, m)
}

// vertices fixSelfIntersects spliced into a ring by its "adjacent intersections" repair: the triangle (prev, spliced, at)
func takeMicro() [][][2]int64 {
	var out [][][2]int64
	for _, d := range clip.VerifTakeMicroSplices() {
		out = append(out, [][2]int64{{d.Prev.X, d.Prev.Y}, {d.Spliced.X, d.Spliced.Y}, {d.At.X, d.At.Y}})
	}
	return out
}

// clearEvents drops everything recorded so far (start of a case)
func clearEvents() {
	clip.VerifTakeSplitDiscards()
	clip.VerifTakeMicroSplices()
}

func takeDiscards() []map[string]any {
	var out []map[string]any
	for _, d := range clip.VerifTakeSplitDiscards() {
		out = append(out, map[string]any{"tri": [][2]int64{{d.Ip.X, d.Ip.Y}, {d.A.X, d.A.Y}, {d.B.X, d.B.Y}}, "area1": d.Area1, "area2": d.Area2})
	}
	return out
}

func (e *Emitter) Close(dir string, extra map[string]any) {
	e.cases.Flush()
	e.meta.Flush()
	keys := make([]string, 0, len(e.dist))
	for k := range e.dist {
		keys = append(keys, k)
	}
	sort.Strings(keys)
	sum := map[string]any{"cases": e.n, "distribution": e.dist, "direct_failures": e.Direct, "distinct_nontrivial": len(e.nontrivial)}
	for k, v := range extra {
		sum[k] = v
	}
	b, _ := json.MarshalIndent(sum, "", " ")
	os.WriteFile(dir+"/summary.json", b, 0o644)
}

// noteInput records the input about to be handed to the library in <out>/current.json, so that a fatal error
// that no recover can catch (stack overflow, concurrent map write ...) can still be reported with its input.
var outDirGlobal string

func noteInput(v any) {
	if outDirGlobal == "" {
		return
	}
	b, _ := json.Marshal(v)
	os.WriteFile(outDirGlobal+"/current.json", b, 0o644)
}

type cmdFn func(r *RNG, n int, e *Emitter, args []string)

var commands = map[string]cmdFn{}

func main() {
	if len(os.Args) < 2 {
		fmt.Println("usage: vh <cmd> -seed S -n N -out DIR")
		os.Exit(2)
	}
	cmd := os.Args[1]
	fs := flag.NewFlagSet(cmd, flag.ExitOnError)
	seed := fs.Uint64("seed", 1, "seed")
	n := fs.Int("n", 100, "number of cases")
	out := fs.String("out", "/tmp/vh", "output directory")
	fs.Parse(os.Args[2:])
	fn, ok := commands[cmd]
	if !ok {
		fmt.Println("unknown command", cmd)
		os.Exit(2)
	}
	outDirGlobal = *out
	debug.SetMaxStack(256 << 20) // a runaway recursion dies quickly (and is reported through current.json)
	e := NewEmitter(*out)
	r := NewRNG(*seed)
	fn(r, *n, e, fs.Args())
	e.Close(*out, map[string]any{"seed": *seed, "cmd": cmd})
}

func readLines(file string) []string {
	b, err := os.ReadFile(file)
	if err != nil {
		return nil
	}
	var out []string
	start := 0
	for i, ch := range b {
		if ch == '\n' {
			if i > start {
				out = append(out, string(b[start:i]))
			}
			start = i + 1
		}
	}
	if start < len(b) {
		out = append(out, string(b[start:]))
	}
	return out
}
