package main

// K3 arithmetic kernels: the scalar leaf functions of internal_clipper.go and clipper.go
// (triSign, multiplyUInt64, productsAreEqual, isCollinear, CrossProduct, dotProduct64,
// crossProductD, dotProductD, getSegmentIntersectPt, segsIntersect, PerpendicDistFromLineSqr64/D,
// PointsNearEqual) and the loop bodies of Area64, getBounds and GetBounds64 are translated from
// /repo's current source into typed Gallina terms (coq/Gen/Kernels_gen.v) on every run.
//
// Typing: int64/int -> Z with the wrapping operations add64/sub64/mul64 (Base/Int64.v);
// uint64 -> Z with uadd64/umul64/land/lor/shiftr/shiftl-mod-2^64; float64 -> Q holding the
// exact value of the float, with fadd/fsub/fmul/fdiv (exact operation, then round to nearest
// even on 53 bits: Model/SimplifyF64.v); float64(int) -> f_of_int; uint64(float)/int64(float)
// -> truncation.  A struct parameter contributes one parameter per field (declaration order),
// a struct result is a tuple.  Everything else is refused ("NOT TRANSLATABLE").
//
// Theorems (Model/KernelProofs.v): each generated term equals the hand-written model the K1
// theorems are about, so those theorems are statements about what the source says now.

import (
	"fmt"
	"go/ast"
	"go/parser"
	"go/token"
	"math/big"
	"os"
	"path/filepath"
	"sort"
	"strconv"
	"strings"
)

func init() { commands["kernels"] = cmdKernels }

type kField struct{ name, typ string }

type kSig struct {
	params  []kField // flattened scalar parameters in order
	results []string // result types (scalar or "S:Name")
}

type kTr struct {
	structs map[string][]kField
	decls   map[string]*ast.FuncDecl
	sigs    map[string]*kSig // functions already translated (callable as gen_<name>)
	consts  map[string]string // package-level untyped integer constants given by a literal or 1 << n
	err     string
	// kernels2: structs with pointer / nested fields (Active, ...): field name -> type expression; the scalar leaves a
	// function reads through a pointer parameter become parameters of the generated term, named by their path
	deep     map[string]map[string]ast.Expr
	lazy     []kField
	lazySeen map[string]bool
	ptrParam map[string]bool
}

type kEnv struct {
	val map[string]string // scalar variable or "var.field" -> term
	typ map[string]string // variable -> type
}

func (e kEnv) clone() kEnv {
	n := kEnv{map[string]string{}, map[string]string{}}
	for k, v := range e.val {
		n.val[k] = v
	}
	for k, v := range e.typ {
		n.typ[k] = v
	}
	return n
}

func (t *kTr) fail(format string, a ...any) (string, string) {
	if t.err == "" {
		t.err = fmt.Sprintf(format, a...)
	}
	return "ERR", "err"
}

func kType(x ast.Expr) string {
	if id, ok := x.(*ast.Ident); ok {
		switch id.Name {
		case "int64":
			return "i64"
		case "int":
			return "int"
		case "uint64":
			return "u64"
		case "float64":
			return "f64"
		case "bool":
			return "bool"
		default:
			return "S:" + id.Name
		}
	}
	if st, ok := x.(*ast.StarExpr); ok {
		if id, ok := st.X.(*ast.Ident); ok {
			return "P:" + id.Name
		}
	}
	return "?"
}

func isInt(ty string) bool { return ty == "i64" || ty == "int" }

func coqType(ty string, t *kTr) string {
	switch ty {
	case "i64", "int", "u64":
		return "Z"
	case "f64":
		return "Q"
	case "bool":
		return "bool"
	}
	if strings.HasPrefix(ty, "S:") {
		var fs []string
		for _, f := range t.structs[ty[2:]] {
			fs = append(fs, coqType(f.typ, t))
		}
		return "(" + strings.Join(fs, " * ") + ")"
	}
	return "?"
}

// projection i of an n-tuple (left-nested pairs)
func proj(term string, i, n int) string {
	if isTup(term) {
		fs := tupFields(term)
		if i < len(fs) {
			return fs[i]
		}
	}
	// ((a, b), c): a = fst (fst t), b = snd (fst t), c = snd t
	s := term
	for k := n - 1; k > i; k-- {
		s = "(fst " + s + ")"
	}
	if i > 0 {
		s = "(snd " + s + ")"
	}
	if i == 0 && n == 1 {
		return term
	}
	return s
}

func (t *kTr) constTo(lit string, isFloat bool, ty string) (string, string) {
	if !isFloat {
		v, err := strconv.ParseInt(lit, 0, 64)
		if err != nil {
			u, err2 := strconv.ParseUint(lit, 0, 64)
			if err2 != nil {
				return t.fail("integer literal %s", lit)
			}
			if ty == "f64" {
				return t.fail("large literal as float")
			}
			return fmt.Sprintf("(%d)", u), ty
		}
		if ty == "f64" {
			return fmt.Sprintf("(inject_Z (%d))", v), "f64"
		}
		return fmt.Sprintf("(%d)", v), ty
	}
	r, ok := new(big.Rat).SetString(lit)
	if !ok {
		return t.fail("float literal %s", lit)
	}
	// exactly representable: denominator a power of two, numerator below 2^53
	d := new(big.Int).Set(r.Denom())
	for d.Bit(0) == 0 && d.BitLen() > 1 {
		d.Rsh(d, 1)
	}
	if d.Cmp(big.NewInt(1)) != 0 || r.Num().BitLen() > 53 {
		return t.fail("float literal %s is not exactly representable", lit)
	}
	if ty != "f64" && ty != "" {
		return t.fail("float literal used as %s", ty)
	}
	return fmt.Sprintf("(Qmake (%s) %s)", r.Num().String(), r.Denom().String()), "f64"
}

// expr translates x; want is the type an untyped constant should take ("" = leave untyped)
func (t *kTr) expr(x ast.Expr, env kEnv, want string) (string, string) {
	if t.err != "" {
		return "ERR", "err"
	}
	switch e := x.(type) {
	case *ast.ParenExpr:
		return t.expr(e.X, env, want)
	case *ast.BasicLit:
		if e.Kind == token.INT || e.Kind == token.FLOAT {
			if want == "" {
				if e.Kind == token.INT {
					return e.Value, "untyped-int"
				}
				return e.Value, "untyped-float"
			}
			return t.constTo(e.Value, e.Kind == token.FLOAT, want)
		}
	case *ast.Ident:
		if e.Name == "true" || e.Name == "false" {
			return e.Name, "bool"
		}
		if ty, ok := env.typ[e.Name]; ok {
			if strings.HasPrefix(ty, "S:") {
				return t.structTerm(e.Name, ty, env), ty
			}
			return env.val[e.Name], ty
		}
		if c, ok := t.consts[e.Name]; ok {
			if want == "" {
				return c, "untyped-int"
			}
			return t.constTo(c, false, want)
		}
	case *ast.SelectorExpr:
		if v, ty, ok := t.deepSel(e, env); ok {
			return v, ty
		}
		if id, ok := e.X.(*ast.Ident); ok {
			if id.Name == "math" && e.Sel.Name == "MaxInt64" {
				return "maxint64", "i64"
			}
			if id.Name == "math" && e.Sel.Name == "MinInt64" {
				return "(- two63)", "i64"
			}
			if ty, ok := env.typ[id.Name]; ok && strings.HasPrefix(ty, "S:") {
				for _, f := range t.structs[ty[2:]] {
					if f.name == e.Sel.Name {
						return env.val[id.Name+"."+f.name], f.typ
					}
				}
			}
		}
		// field of a struct-valued expression (call result)
		vt, vty := t.expr(e.X, env, "")
		if strings.HasPrefix(vty, "S:") {
			fs := t.structs[vty[2:]]
			for i, f := range fs {
				if f.name == e.Sel.Name {
					return proj(vt, i, len(fs)), f.typ
				}
			}
		}
	case *ast.UnaryExpr:
		switch e.Op {
		case token.SUB:
			v, ty := t.expr(e.X, env, want)
			switch {
			case isInt(ty):
				return "(neg64 " + v + ")", ty
			case ty == "f64":
				return "(Qopp " + v + ")", ty
			case ty == "untyped-int" || ty == "untyped-float":
				return "-" + v, ty
			}
		case token.NOT:
			v, ty := t.expr(e.X, env, "bool")
			if ty == "bool" {
				return "(negb " + v + ")", "bool"
			}
		}
	case *ast.BinaryExpr:
		return t.binary(e, env, want)
	case *ast.CallExpr:
		return t.call(e, env, want)
	case *ast.CompositeLit:
		return t.composite(e, env)
	}
	return t.fail("unsupported expression %T", x)
}

// struct values travel as a marked field list so that projections of a literal tuple are taken syntactically
func isTup(v string) bool { return strings.HasPrefix(v, "\x00") }

func tupFields(v string) []string { return strings.Split(v[1:], "\x01") }

func mkTup(fs []string) string { return "\x00" + strings.Join(fs, "\x01") }

func render(v string) string {
	if isTup(v) {
		return "(" + strings.Join(tupFields(v), ", ") + ")"
	}
	return v
}

func (t *kTr) structTerm(name, ty string, env kEnv) string {
	var fs []string
	for _, f := range t.structs[ty[2:]] {
		fs = append(fs, env.val[name+"."+f.name])
	}
	return mkTup(fs)
}

// Rect64{} / Point64{X: a, Y: b}
func (t *kTr) composite(e *ast.CompositeLit, env kEnv) (string, string) {
	id, ok := e.Type.(*ast.Ident)
	if !ok {
		return t.fail("unsupported composite literal")
	}
	fs, ok := t.structs[id.Name]
	if !ok {
		return t.fail("composite literal of unknown type %s", id.Name)
	}
	vals := make([]string, len(fs))
	for i, f := range fs {
		vals[i], _ = t.zeroOf(f.typ)
	}
	for _, el := range e.Elts {
		kv, ok := el.(*ast.KeyValueExpr)
		if !ok {
			return t.fail("positional composite literal")
		}
		k, ok := kv.Key.(*ast.Ident)
		if !ok {
			return t.fail("composite literal key")
		}
		found := false
		for i, f := range fs {
			if f.name == k.Name {
				v, ty := t.expr(kv.Value, env, f.typ)
				v, ty = t.resolve(v, ty, f.typ)
				if ty != f.typ && !(isInt(ty) && isInt(f.typ)) {
					return t.fail("field %s of type %s given a %s", f.name, f.typ, ty)
				}
				vals[i] = v
				found = true
			}
		}
		if !found {
			return t.fail("unknown field %s", k.Name)
		}
	}
	return mkTup(vals), "S:" + id.Name
}

func (t *kTr) resolve(v, ty, other string) (string, string) {
	if ty == "untyped-int" || ty == "untyped-float" {
		neg := strings.HasPrefix(v, "-")
		lit := strings.TrimPrefix(v, "-")
		target := other
		if target == "untyped-int" || target == "untyped-float" || target == "" {
			if ty == "untyped-float" {
				target = "f64"
			} else {
				target = "int"
			}
		}
		tv, tt := t.constTo(lit, ty == "untyped-float", target)
		if neg {
			if tt == "f64" {
				return "(Qopp " + tv + ")", tt
			}
			return "(- " + tv + ")", tt
		}
		return tv, tt
	}
	return v, ty
}

func (t *kTr) binary(e *ast.BinaryExpr, env kEnv, want string) (string, string) {
	switch e.Op {
	case token.LAND, token.LOR:
		a, at := t.expr(e.X, env, "bool")
		b, bt := t.expr(e.Y, env, "bool")
		if at != "bool" || bt != "bool" {
			return t.fail("non-boolean operand of %s", e.Op)
		}
		op := map[token.Token]string{token.LAND: "&&", token.LOR: "||"}[e.Op]
		return "(" + a + " " + op + " " + b + ")", "bool"
	}
	a, at := t.expr(e.X, env, "")
	b, bt := t.expr(e.Y, env, "")
	if e.Op == token.SHL || e.Op == token.SHR {
		// shift counts are small constants
		n, err := strconv.ParseInt(b, 0, 64)
		if bt != "untyped-int" || err != nil || at != "u64" {
			return t.fail("unsupported shift")
		}
		if e.Op == token.SHR {
			return fmt.Sprintf("(Z.shiftr %s %d)", a, n), "u64"
		}
		return fmt.Sprintf("(u64 (Z.shiftl %s %d))", a, n), "u64"
	}
	a, at = t.resolve(a, at, bt)
	b, bt = t.resolve(b, bt, at)
	if strings.HasPrefix(at, "S:") && at == bt && (e.Op == token.EQL || e.Op == token.NEQ) {
		// struct comparison: field by field
		fs := t.structs[at[2:]]
		var cs []string
		for i, f := range fs {
			x, y := proj(a, i, len(fs)), proj(b, i, len(fs))
			switch {
			case isInt(f.typ) || f.typ == "u64":
				cs = append(cs, "("+x+" =? "+y+")")
			case f.typ == "f64":
				cs = append(cs, "(Qeq_bool "+x+" "+y+")")
			default:
				return t.fail("comparison of struct field of type %s", f.typ)
			}
		}
		c := "(" + strings.Join(cs, " && ") + ")"
		if e.Op == token.NEQ {
			c = "(negb " + c + ")"
		}
		return c, "bool"
	}
	if (e.Op == token.QUO || e.Op == token.REM) && isInt(at) && isInt(bt) {
		op := map[token.Token]string{token.QUO: "quot64", token.REM: "rem64"}[e.Op]
		return "(" + op + " " + a + " " + b + ")", at
	}
	if at != bt && !(isInt(at) && isInt(bt)) {
		return t.fail("operands of %s have types %s and %s", e.Op, at, bt)
	}
	ty := at
	switch e.Op {
	case token.ADD, token.SUB, token.MUL, token.QUO:
		var op string
		switch {
		case isInt(ty):
			op = map[token.Token]string{token.ADD: "add64", token.SUB: "sub64", token.MUL: "mul64"}[e.Op]
		case ty == "u64":
			op = map[token.Token]string{token.ADD: "uadd64", token.SUB: "usub64", token.MUL: "umul64"}[e.Op]
		case ty == "f64":
			op = map[token.Token]string{token.ADD: "fadd", token.SUB: "fsub", token.MUL: "fmul", token.QUO: "fdiv"}[e.Op]
		}
		if op == "" {
			return t.fail("operator %s at type %s", e.Op, ty)
		}
		return "(" + op + " " + a + " " + b + ")", ty
	case token.AND, token.OR:
		if isInt(ty) && e.Op == token.AND {
			// two's complement AND on int: Z.land agrees with it on the whole int64 range
			return "(Z.land " + a + " " + b + ")", ty
		}
		if ty != "u64" {
			return t.fail("bitwise operator at type %s", ty)
		}
		op := map[token.Token]string{token.AND: "Z.land", token.OR: "Z.lor"}[e.Op]
		return "(" + op + " " + a + " " + b + ")", ty
	case token.EQL, token.NEQ, token.LSS, token.GTR, token.LEQ, token.GEQ:
		var s string
		switch {
		case isInt(ty) || ty == "u64":
			s = map[token.Token]string{token.EQL: "(%s =? %s)", token.NEQ: "(negb (%s =? %s))", token.LSS: "(%s <? %s)", token.GTR: "(%s >? %s)", token.LEQ: "(%s <=? %s)", token.GEQ: "(%s >=? %s)"}[e.Op]
		case ty == "f64":
			s = map[token.Token]string{token.EQL: "(Qeq_bool %s %s)", token.NEQ: "(negb (Qeq_bool %s %s))", token.LSS: "(Qltb %s %s)", token.GTR: "(Qgtb %s %s)", token.LEQ: "(Qle_bool %s %s)", token.GEQ: "(Qgeb %s %s)"}[e.Op]
		case ty == "bool" && e.Op == token.EQL:
			s = "(Bool.eqb %s %s)"
		case ty == "bool" && e.Op == token.NEQ:
			s = "(xorb %s %s)"
		}
		if s == "" {
			return t.fail("comparison %s at type %s", e.Op, ty)
		}
		return fmt.Sprintf(s, a, b), "bool"
	}
	return t.fail("unsupported operator %s", e.Op)
}

// flattened argument terms of a call to a translated function
func (t *kTr) args(list []ast.Expr, sig *kSig, env kEnv) []string {
	var out []string
	k := 0
	for _, a := range list {
		if k >= len(sig.params) {
			t.fail("too many arguments")
			return nil
		}
		v, ty := t.expr(a, env, sig.params[k].typ)
		if strings.HasPrefix(ty, "S:") {
			fs := t.structs[ty[2:]]
			for i := range fs {
				out = append(out, proj(v, i, len(fs)))
			}
			k += len(fs)
			continue
		}
		v, ty = t.resolve(v, ty, sig.params[k].typ)
		if ty != sig.params[k].typ && !(isInt(ty) && isInt(sig.params[k].typ)) {
			t.fail("argument of type %s for parameter of type %s", ty, sig.params[k].typ)
			return nil
		}
		out = append(out, v)
		k++
	}
	if k != len(sig.params) {
		t.fail("argument count")
	}
	return out
}

func (t *kTr) call(e *ast.CallExpr, env kEnv, want string) (string, string) {
	if s, ok := e.Fun.(*ast.SelectorExpr); ok && len(e.Args) == 1 {
		if p, ok := s.X.(*ast.Ident); ok && p.Name == "math" && s.Sel.Name == "Abs" {
			v, ty := t.expr(e.Args[0], env, "f64")
			if ty == "f64" {
				return "(Qabs " + v + ")", "f64"
			}
			return t.fail("math.Abs at type %s", ty)
		}
		if p, ok := s.X.(*ast.Ident); ok && p.Name == "math" && s.Sel.Name == "Round" {
			v, ty := t.expr(e.Args[0], env, "f64")
			if ty == "f64" {
				return "(fround " + v + ")", "f64"
			}
			return t.fail("math.Round at type %s", ty)
		}
	}
	if id, ok := e.Fun.(*ast.Ident); ok && (id.Name == "max" || id.Name == "min") && len(e.Args) == 2 && t.decls[id.Name] == nil {
		a, at := t.expr(e.Args[0], env, want)
		b, bt := t.expr(e.Args[1], env, want)
		a, at = t.resolve(a, at, bt)
		b, bt = t.resolve(b, bt, at)
		if isInt(at) && isInt(bt) {
			return "(Z." + id.Name + " " + a + " " + b + ")", at
		}
		return t.fail("%s at types %s, %s", id.Name, at, bt)
	}
	if id, ok := e.Fun.(*ast.Ident); ok && id.Name == "absInt" && len(e.Args) == 1 {
		// generics.go:absInt — inlined from its own body at the argument's type
		fn := t.decls["absInt"]
		if fn == nil || len(fn.Type.Params.List) != 1 || len(fn.Type.Params.List[0].Names) != 1 {
			return t.fail("absInt: unexpected shape")
		}
		v, ty := t.expr(e.Args[0], env, want)
		v, ty = t.resolve(v, ty, want)
		if ty != "f64" && !isInt(ty) {
			return t.fail("absInt at type %s", ty)
		}
		pn := fn.Type.Params.List[0].Names[0].Name
		inner := kEnv{map[string]string{pn: v}, map[string]string{pn: ty}}
		term := t.stmts(fn.Body.List, inner, []string{ty}, func(kEnv) string { t.fail("absInt: a path does not end in a return"); return "ERR" })
		return term, ty
	}
	if s, ok := e.Fun.(*ast.SelectorExpr); ok {
		// method call on a flat struct value: p1.Equals(p2) -> gen_Point64_Equals p1 p2
		if p, ok := s.X.(*ast.Ident); ok && strings.HasPrefix(env.typ[p.Name], "S:") {
			mn := env.typ[p.Name][2:] + "_" + s.Sel.Name
			if sig, ok := t.sigs[mn]; ok && len(sig.results) == 1 {
				as := t.args(append([]ast.Expr{s.X}, e.Args...), sig, env)
				if t.err != "" {
					return "ERR", "err"
				}
				return "(gen_" + mn + " " + strings.Join(as, " ") + ")", sig.results[0]
			}
		}
	}
	id, ok := e.Fun.(*ast.Ident)
	if !ok {
		return t.fail("unsupported call")
	}
	if len(e.Args) == 1 {
		switch id.Name {
		case "float64":
			v, ty := t.expr(e.Args[0], env, "f64")
			switch {
			case ty == "f64":
				return v, ty
			case isInt(ty):
				return "(f_of_int " + v + ")", "f64"
			}
			return t.fail("float64() of %s", ty)
		case "uint64":
			v, ty := t.expr(e.Args[0], env, "u64")
			switch ty {
			case "u64":
				return v, ty
			case "f64":
				return "(u64_of_f " + v + ")", "u64"
			case "i64", "int":
				return "(u64 " + v + ")", "u64"
			}
			return t.fail("uint64() of %s", ty)
		case "int64", "int":
			tgt := map[string]string{"int64": "i64", "int": "int"}[id.Name]
			v, ty := t.expr(e.Args[0], env, tgt)
			switch {
			case isInt(ty):
				return v, tgt
			case ty == "f64":
				return "(i64_of_f " + v + ")", tgt
			case ty == "u64":
				return "(wrap64 " + v + ")", tgt
			}
			return t.fail("%s() of %s", id.Name, ty)
		case "sqr":
			// generics.go:sqr — translated from its own body (return val * val)
			fn := t.decls["sqr"]
			if fn == nil || len(fn.Body.List) != 1 {
				return t.fail("sqr: unexpected shape")
			}
			rs, ok := fn.Body.List[0].(*ast.ReturnStmt)
			if !ok || len(rs.Results) != 1 || len(fn.Type.Params.List) != 1 || len(fn.Type.Params.List[0].Names) != 1 {
				return t.fail("sqr: unexpected shape")
			}
			v, ty := t.expr(e.Args[0], env, want)
			if ty != "f64" && !isInt(ty) {
				return t.fail("sqr at type %s", ty)
			}
			pn := fn.Type.Params.List[0].Names[0].Name
			inner := kEnv{map[string]string{pn: v}, map[string]string{pn: ty}}
			return t.expr(rs.Results[0], inner, ty)
		}
	}
	if sig, ok := t.sigs[id.Name]; ok {
		as := t.args(e.Args, sig, env)
		if t.err != "" {
			return "ERR", "err"
		}
		term := "(gen_" + id.Name + " " + strings.Join(as, " ") + ")"
		if len(sig.results) != 1 {
			return t.fail("call of %s with %d results in an expression", id.Name, len(sig.results))
		}
		return term, sig.results[0]
	}
	return t.fail("call of %s", id.Name)
}

func (t *kTr) zero(name, ty string, env kEnv) {
	env.typ[name] = ty
	switch {
	case strings.HasPrefix(ty, "S:"):
		for _, f := range t.structs[ty[2:]] {
			z, _ := t.zeroOf(f.typ)
			env.val[name+"."+f.name] = z
		}
	default:
		env.val[name], _ = t.zeroOf(ty)
	}
}

func (t *kTr) zeroOf(ty string) (string, string) {
	switch ty {
	case "i64", "int", "u64":
		return "(0)", ty
	case "f64":
		return "(inject_Z (0))", ty
	case "bool":
		return "false", ty
	}
	return t.fail("zero value of %s", ty)
}

func (t *kTr) bind(name string, v, ty string, env kEnv) {
	env.typ[name] = ty
	if strings.HasPrefix(ty, "S:") {
		fs := t.structs[ty[2:]]
		for i, f := range fs {
			env.val[name+"."+f.name] = proj(v, i, len(fs))
		}
		return
	}
	env.val[name] = v
}

func (t *kTr) stmts(list []ast.Stmt, env kEnv, results []string, k func(kEnv) string) string {
	if t.err != "" {
		return "ERR"
	}
	if len(list) == 0 {
		return k(env)
	}
	rest := list[1:]
	cont := func(e kEnv) string { return t.stmts(rest, e, results, k) }
	switch s := list[0].(type) {
	case *ast.ReturnStmt:
		if len(s.Results) == 1 && len(results) > 1 {
			// return f(...) where f has the same result list
			if ce, ok := s.Results[0].(*ast.CallExpr); ok {
				if id, ok := ce.Fun.(*ast.Ident); ok {
					if sig, ok := t.sigs[id.Name]; ok && strings.Join(sig.results, ",") == strings.Join(results, ",") {
						as := t.args(ce.Args, sig, env)
						if t.err != "" {
							return "ERR"
						}
						return "(gen_" + id.Name + " " + strings.Join(as, " ") + ")"
					}
				}
			}
		}
		if len(s.Results) != len(results) {
			t.fail("return with %d results", len(s.Results))
			return "ERR"
		}
		var vs []string
		for i, r := range s.Results {
			v, ty := t.expr(r, env, results[i])
			v, ty = t.resolve(v, ty, results[i])
			if ty != results[i] && !(isInt(ty) && isInt(results[i])) {
				t.fail("returning %s where %s is declared", ty, results[i])
				return "ERR"
			}
			vs = append(vs, render(v))
		}
		if len(vs) == 1 {
			return vs[0]
		}
		return "(" + strings.Join(vs, ", ") + ")"
	case *ast.DeclStmt:
		gd, ok := s.Decl.(*ast.GenDecl)
		if !ok || gd.Tok != token.VAR {
			t.fail("unsupported declaration")
			return "ERR"
		}
		e2 := env.clone()
		for _, sp := range gd.Specs {
			vs := sp.(*ast.ValueSpec)
			for i, nm := range vs.Names {
				switch {
				case len(vs.Values) > i:
					w := ""
					if vs.Type != nil {
						w = kType(vs.Type)
					}
					v, ty := t.expr(vs.Values[i], env, w)
					v, ty = t.resolve(v, ty, w)
					t.bind(nm.Name, v, ty, e2)
				case vs.Type != nil:
					t.zero(nm.Name, kType(vs.Type), e2)
				default:
					t.fail("declaration without type or value")
				}
			}
		}
		return cont(e2)
	case *ast.AssignStmt:
		if len(s.Lhs) > 1 && len(s.Lhs) == len(s.Rhs) && (s.Tok == token.DEFINE || s.Tok == token.ASSIGN) {
			// parallel assignment of scalars: every right-hand side is evaluated before any assignment
			e2 := env.clone()
			for i := range s.Lhs {
				id, ok := s.Lhs[i].(*ast.Ident)
				if !ok {
					t.fail("unsupported parallel assignment")
					return "ERR"
				}
				w := env.typ[id.Name]
				v, ty := t.expr(s.Rhs[i], env, w)
				v, ty = t.resolve(v, ty, w)
				if w != "" && ty != w && !(isInt(ty) && isInt(w)) {
					t.fail("assigning %s to %s variable %s", ty, w, id.Name)
					return "ERR"
				}
				t.bind(id.Name, v, ty, e2)
			}
			return cont(e2)
		}
		if len(s.Lhs) != 1 || len(s.Rhs) != 1 {
			t.fail("unsupported assignment")
			return "ERR"
		}
		e2 := env.clone()
		rhs := s.Rhs[0]
		if op, ok := map[token.Token]token.Token{token.ADD_ASSIGN: token.ADD, token.SUB_ASSIGN: token.SUB, token.MUL_ASSIGN: token.MUL}[s.Tok]; ok {
			rhs = &ast.BinaryExpr{X: s.Lhs[0], Op: op, Y: s.Rhs[0]}
		} else if s.Tok != token.DEFINE && s.Tok != token.ASSIGN {
			t.fail("unsupported assignment operator")
			return "ERR"
		}
		switch l := s.Lhs[0].(type) {
		case *ast.Ident:
			w := env.typ[l.Name]
			v, ty := t.expr(rhs, env, w)
			v, ty = t.resolve(v, ty, w)
			if w != "" && ty != w && !(isInt(ty) && isInt(w)) {
				t.fail("assigning %s to %s variable %s", ty, w, l.Name)
				return "ERR"
			}
			if w != "" {
				ty = w
			}
			t.bind(l.Name, v, ty, e2)
		case *ast.SelectorExpr:
			id, ok := l.X.(*ast.Ident)
			sty := ""
			if ok {
				sty = env.typ[id.Name]
			}
			if !strings.HasPrefix(sty, "S:") || (ok && t.ptrParam[id.Name]) {
				t.fail("assignment to a field of a non-local")
				return "ERR"
			}
			fty := ""
			for _, f := range t.structs[sty[2:]] {
				if f.name == l.Sel.Name {
					fty = f.typ
				}
			}
			v, ty := t.expr(rhs, env, fty)
			v, ty = t.resolve(v, ty, fty)
			if fty == "" || (ty != fty && !(isInt(ty) && isInt(fty))) {
				t.fail("assigning %s to field %s", ty, l.Sel.Name)
				return "ERR"
			}
			e2.val[id.Name+"."+l.Sel.Name] = v
		default:
			t.fail("unsupported assignment target")
			return "ERR"
		}
		return cont(e2)
	case *ast.IfStmt:
		if s.Init != nil {
			t.fail("if with init statement")
			return "ERR"
		}
		c, cty := t.expr(s.Cond, env, "bool")
		if cty != "bool" {
			t.fail("non-boolean condition")
			return "ERR"
		}
		thenB := t.stmts(s.Body.List, env.clone(), results, cont)
		var elseB string
		switch el := s.Else.(type) {
		case nil:
			elseB = cont(env.clone())
		case *ast.BlockStmt:
			elseB = t.stmts(el.List, env.clone(), results, cont)
		case *ast.IfStmt:
			elseB = t.stmts([]ast.Stmt{el}, env.clone(), results, cont)
		}
		return "(if " + c + " then " + thenB + " else " + elseB + ")"
	}
	t.fail("unsupported statement %T", list[0])
	return "ERR"
}

// the state of a loop body: the variables it assigns, in sorted order
func assigned(list []ast.Stmt, out map[string]bool) {
	for _, s := range list {
		switch v := s.(type) {
		case *ast.AssignStmt:
			for _, l := range v.Lhs {
				switch x := l.(type) {
				case *ast.Ident:
					out[x.Name] = true
				case *ast.SelectorExpr:
					if id, ok := x.X.(*ast.Ident); ok {
						out[id.Name] = true
					}
				}
			}
		case *ast.IfStmt:
			assigned(v.Body.List, out)
			if b, ok := v.Else.(*ast.BlockStmt); ok {
				assigned(b.List, out)
			}
			if b, ok := v.Else.(*ast.IfStmt); ok {
				assigned([]ast.Stmt{b}, out)
			}
		}
	}
}

func (t *kTr) params(fn *ast.FuncDecl, env kEnv) []kField {
	var ps []kField
	t.lazy, t.lazySeen, t.ptrParam = nil, map[string]bool{}, map[string]bool{}
	fields := fn.Type.Params.List
	if fn.Recv != nil {
		fields = append(append([]*ast.Field{}, fn.Recv.List...), fields...)
	}
	for _, f := range fields {
		ty := kType(f.Type)
		if strings.HasPrefix(ty, "P:") {
			if _, ok := t.structs[ty[2:]]; ok {
				ty = "S:" + ty[2:]
				for _, nm := range f.Names {
					t.ptrParam[nm.Name] = true
				}
			} else if _, ok := t.deep[ty[2:]]; ok {
				for _, nm := range f.Names {
					env.typ[nm.Name] = "D:" + ty[2:]
				}
				continue
			}
		}
		for _, nm := range f.Names {
			env.typ[nm.Name] = ty
			if strings.HasPrefix(ty, "S:") {
				fs, ok := t.structs[ty[2:]]
				if !ok {
					t.fail("parameter %s of unknown type %s", nm.Name, ty)
				}
				for _, fd := range fs {
					p := nm.Name + "_" + fd.name
					env.val[nm.Name+"."+fd.name] = p
					ps = append(ps, kField{p, fd.typ})
				}
			} else {
				env.val[nm.Name] = nm.Name
				ps = append(ps, kField{nm.Name, ty})
			}
		}
	}
	return ps
}

func (t *kTr) paramList(ps []kField) string {
	var s []string
	for _, p := range ps {
		s = append(s, "("+p.name+" : "+coqType(p.typ, t)+")")
	}
	return strings.Join(s, " ")
}

// scalar function: the whole body becomes one term
func (t *kTr) scalar(name string, sb *strings.Builder, file string) {
	fn := t.decls[name]
	if fn == nil {
		fmt.Fprintf(sb, "(* %s: NOT FOUND *)\n\n", name)
		return
	}
	t.err = ""
	env := kEnv{map[string]string{}, map[string]string{}}
	ps := t.params(fn, env)
	var results []string
	if fn.Type.Results != nil {
		for _, f := range fn.Type.Results.List {
			k := len(f.Names)
			if k == 0 {
				k = 1
			}
			for i := 0; i < k; i++ {
				results = append(results, kType(f.Type))
			}
		}
	}
	term := t.stmts(fn.Body.List, env, results, func(kEnv) string { t.fail("a path does not end in a return"); return "ERR" })
	if t.err != "" {
		fmt.Fprintf(sb, "(* %s:%s: NOT TRANSLATABLE: %s *)\n\n", file, name, t.err)
		return
	}
	var rts []string
	for _, r := range results {
		rts = append(rts, coqType(r, t))
	}
	sort.Slice(t.lazy, func(i, j int) bool { return t.lazy[i].name < t.lazy[j].name })
	ps = append(ps, t.lazy...)
	fmt.Fprintf(sb, "(* %s:%s *)\nDefinition gen_%s %s : %s :=\n  %s.\n\n", file, name, name, t.paramList(ps), strings.Join(rts, " * "), term)
	if len(t.lazy) == 0 {
		t.sigs[name] = &kSig{params: ps, results: results}
	}
}

// loop function of the shape  <guards and initialisation> ; for _, pt := range <path param> { body } ; <tail>
// emits  gen_<name>_step : state -> element -> state  (the loop body), the guards/initialisation as
// gen_<name>_init : option-free description (early-return condition on len(path), initial state as a function of the
// last element), and the source text of the tail (statements after the loop) as a string
func (t *kTr) loop(name string, sb *strings.Builder, file string, fset *token.FileSet, src []byte) {
	fn := t.decls[name]
	if fn == nil {
		fmt.Fprintf(sb, "(* %s: NOT FOUND *)\n\n", name)
		return
	}
	t.err = ""
	bad := func(msg string) {
		fmt.Fprintf(sb, "(* %s:%s: NOT TRANSLATABLE: %s *)\n\n", file, name, msg)
	}
	if len(fn.Type.Params.List) != 1 || len(fn.Type.Params.List[0].Names) != 1 {
		bad("expected exactly one (path) parameter")
		return
	}
	pathName := fn.Type.Params.List[0].Names[0].Name
	if id, ok := fn.Type.Params.List[0].Type.(*ast.Ident); !ok || id.Name != "Path64" {
		bad("the parameter is not a Path64")
		return
	}
	li := -1
	for i, s := range fn.Body.List {
		if _, ok := s.(*ast.RangeStmt); ok {
			if li >= 0 {
				bad("more than one loop")
				return
			}
			li = i
		} else if _, ok := s.(*ast.ForStmt); ok {
			bad("a for loop that is not a range loop")
			return
		}
	}
	if li < 0 {
		bad("no range loop")
		return
	}
	rs := fn.Body.List[li].(*ast.RangeStmt)
	if id, ok := rs.X.(*ast.Ident); !ok || id.Name != pathName {
		bad("the loop does not range over the path parameter")
		return
	}
	if k, ok := rs.Key.(*ast.Ident); !ok || k.Name != "_" || rs.Tok != token.DEFINE {
		bad("the loop uses its index")
		return
	}
	elem, ok := rs.Value.(*ast.Ident)
	if !ok {
		bad("no element variable")
		return
	}
	// prelude: guards  if len(path) <op> N { return <zero value> }  and initialisations
	env := kEnv{map[string]string{}, map[string]string{}}
	var guards []string
	for _, s := range fn.Body.List[:li] {
		switch v := s.(type) {
		case *ast.IfStmt:
			be, ok := v.Cond.(*ast.BinaryExpr)
			var ce *ast.CallExpr
			if ok {
				ce, ok = be.X.(*ast.CallExpr)
			}
			var lit *ast.BasicLit
			if ok {
				lit, ok = be.Y.(*ast.BasicLit)
			}
			if !ok || len(v.Body.List) != 1 || v.Else != nil {
				bad("unsupported guard")
				return
			}
			if id, ok2 := ce.Fun.(*ast.Ident); !ok2 || id.Name != "len" || len(ce.Args) != 1 {
				bad("unsupported guard")
				return
			}
			if id, ok2 := ce.Args[0].(*ast.Ident); !ok2 || id.Name != pathName {
				bad("unsupported guard")
				return
			}
			ret, ok2 := v.Body.List[0].(*ast.ReturnStmt)
			if !ok2 || len(ret.Results) != 1 {
				bad("unsupported guard")
				return
			}
			var b strings.Builder
			b.Write(src[fset.Position(ret.Results[0].Pos()).Offset:fset.Position(ret.Results[0].End()).Offset])
			guards = append(guards, fmt.Sprintf("(\"%s\"%%string, %s, \"%s\"%%string)", be.Op.String(), lit.Value, b.String()))
		case *ast.AssignStmt, *ast.DeclStmt:
			// initialisation: evaluated with  path[len(path)-1]  bound to the parameters last_X, last_Y
			// and NewRect64Invalid(false) bound to rect_invalid
			e2 := t.initStmt(v, env, pathName)
			if t.err != "" {
				bad(t.err)
				return
			}
			env = e2
		default:
			bad(fmt.Sprintf("unsupported statement %T before the loop", s))
			return
		}
	}
	// state = variables assigned in the body that exist before the loop
	as := map[string]bool{}
	assigned(rs.Body.List, as)
	var state []string
	for v := range as {
		if _, ok := env.typ[v]; !ok {
			bad("the loop body assigns " + v + ", which is not initialised before the loop")
			return
		}
		state = append(state, v)
	}
	sort.Strings(state)
	// initial state term
	var initv, stys []string
	for _, v := range state {
		ty := env.typ[v]
		stys = append(stys, coqType(ty, t))
		if strings.HasPrefix(ty, "S:") {
			initv = append(initv, render(t.structTerm(v, ty, env)))
		} else {
			initv = append(initv, env.val[v])
		}
	}
	// step: state variables and the element become parameters
	senv := kEnv{map[string]string{}, map[string]string{}}
	var sps []kField
	for _, v := range state {
		ty := env.typ[v]
		senv.typ[v] = ty
		if strings.HasPrefix(ty, "S:") {
			for _, f := range t.structs[ty[2:]] {
				p := v + "_" + f.name
				senv.val[v+"."+f.name] = p
				sps = append(sps, kField{p, f.typ})
			}
		} else {
			senv.val[v] = v
			sps = append(sps, kField{v, ty})
		}
	}
	senv.typ[elem.Name] = "S:Point64"
	for _, f := range t.structs["Point64"] {
		p := elem.Name + "_" + f.name
		senv.val[elem.Name+"."+f.name] = p
		sps = append(sps, kField{p, f.typ})
	}
	final := func(e kEnv) string {
		var out []string
		for _, v := range state {
			ty := e.typ[v]
			if strings.HasPrefix(ty, "S:") {
				out = append(out, render(t.structTerm(v, ty, e)))
			} else {
				out = append(out, e.val[v])
			}
		}
		if len(out) == 1 {
			return out[0]
		}
		return "(" + strings.Join(out, ", ") + ")"
	}
	step := t.stmts(rs.Body.List, senv, nil, final)
	if t.err != "" {
		bad(t.err)
		return
	}
	tail := strings.Join(strings.Fields(string(src[fset.Position(rs.End()).Offset:fset.Position(fn.Body.Rbrace).Offset])), " ")
	fmt.Fprintf(sb, "(* %s:%s — state variables: %s *)\n", file, name, strings.Join(state, ", "))
	fmt.Fprintf(sb, "Definition gen_%s_guards : list (string * Z * string) := [%s].\n", name, strings.Join(guards, "; "))
	fmt.Fprintf(sb, "Definition gen_%s_init (last_X last_Y : Z) : %s :=\n  %s.\n", name, strings.Join(stys, " * "), tupleOf(initv))
	fmt.Fprintf(sb, "Definition gen_%s_step %s : %s :=\n  %s.\n", name, t.paramList(sps), strings.Join(stys, " * "), step)
	fmt.Fprintf(sb, "Definition gen_%s_tail : string := \"%s\"%%string.\n\n", name, strings.ReplaceAll(tail, "\"", "'"))
}

func tupleOf(vs []string) string {
	if len(vs) == 1 {
		return vs[0]
	}
	return "(" + strings.Join(vs, ", ") + ")"
}

func (t *kTr) initStmt(s ast.Stmt, env kEnv, pathName string) kEnv {
	e2 := env.clone()
	special := func(x ast.Expr) (string, string, bool) {
		// path[len(path)-1]
		if ix, ok := x.(*ast.IndexExpr); ok {
			if id, ok := ix.X.(*ast.Ident); ok && id.Name == pathName {
				if be, ok := ix.Index.(*ast.BinaryExpr); ok && be.Op == token.SUB {
					if ce, ok := be.X.(*ast.CallExpr); ok {
						if f, ok := ce.Fun.(*ast.Ident); ok && f.Name == "len" && len(ce.Args) == 1 {
							if a, ok := ce.Args[0].(*ast.Ident); ok && a.Name == pathName {
								if l, ok := be.Y.(*ast.BasicLit); ok && l.Value == "1" {
									return mkTup([]string{"last_X", "last_Y"}), "S:Point64", true
								}
							}
						}
					}
				}
			}
			return "", "", false
		}
		return "", "", false
	}
	switch v := s.(type) {
	case *ast.AssignStmt:
		if len(v.Lhs) != 1 || len(v.Rhs) != 1 || (v.Tok != token.DEFINE && v.Tok != token.ASSIGN) {
			t.fail("unsupported initialisation")
			return e2
		}
		id, ok := v.Lhs[0].(*ast.Ident)
		if !ok {
			t.fail("unsupported initialisation target")
			return e2
		}
		if term, ty, ok := special(v.Rhs[0]); ok {
			t.bind(id.Name, term, ty, e2)
			return e2
		}
		val, ty := t.expr(v.Rhs[0], env, env.typ[id.Name])
		val, ty = t.resolve(val, ty, env.typ[id.Name])
		t.bind(id.Name, val, ty, e2)
	case *ast.DeclStmt:
		gd, ok := v.Decl.(*ast.GenDecl)
		if !ok || gd.Tok != token.VAR {
			t.fail("unsupported declaration")
			return e2
		}
		for _, sp := range gd.Specs {
			vs := sp.(*ast.ValueSpec)
			for i, nm := range vs.Names {
				w := ""
				if vs.Type != nil {
					w = kType(vs.Type)
				}
				if len(vs.Values) > i {
					val, ty := t.expr(vs.Values[i], env, w)
					val, ty = t.resolve(val, ty, w)
					t.bind(nm.Name, val, ty, e2)
				} else if w != "" {
					t.zero(nm.Name, w, e2)
				} else {
					t.fail("declaration without type or value")
				}
			}
		}
	}
	return e2
}

func cmdKernels(r *RNG, n int, e *Emitter, args []string) {
	repo := "/repo"
	out := "/verif/coq/Gen/Kernels_gen.v"
	if len(args) > 0 {
		out = args[0]
	}
	if len(args) > 1 {
		repo = args[1]
	}
	fset := token.NewFileSet()
	t := &kTr{structs: map[string][]kField{}, decls: map[string]*ast.FuncDecl{}, sigs: map[string]*kSig{}, consts: map[string]string{}}
	srcs := map[string][]byte{}
	where := map[string]string{}
	for _, f := range []string{"internal_clipper.go", "clipper.go", "core.go", "generics.go"} {
		src, err := os.ReadFile(repo + "/" + f)
		if err != nil {
			fmt.Println(err)
			os.Exit(1)
		}
		srcs[f] = src
		af, err := parser.ParseFile(fset, f, src, 0)
		if err != nil {
			fmt.Println("parse error", err)
			os.Exit(1)
		}
		for _, d := range af.Decls {
			switch v := d.(type) {
			case *ast.FuncDecl:
				if v.Recv == nil && v.Body != nil {
					t.decls[v.Name.Name] = v
					where[v.Name.Name] = f
				}
			case *ast.GenDecl:
				if v.Tok == token.CONST {
					for _, sp := range v.Specs {
						vs := sp.(*ast.ValueSpec)
						if vs.Type != nil || len(vs.Names) != len(vs.Values) {
							continue
						}
						for i, nm := range vs.Names {
							switch x := vs.Values[i].(type) {
							case *ast.BasicLit:
								if x.Kind == token.INT {
									t.consts[nm.Name] = x.Value
								}
							case *ast.BinaryExpr:
								a, ok1 := x.X.(*ast.BasicLit)
								b, ok2 := x.Y.(*ast.BasicLit)
								if x.Op == token.SHL && ok1 && ok2 && a.Kind == token.INT && b.Kind == token.INT {
									av, e1 := strconv.ParseInt(a.Value, 0, 64)
									bv, e2 := strconv.ParseInt(b.Value, 0, 64)
									if e1 == nil && e2 == nil && bv >= 0 && bv < 62 && av >= 0 && av < 4 {
										t.consts[nm.Name] = strconv.FormatInt(av<<uint(bv), 10)
									}
								}
							}
						}
					}
					continue
				}
				if v.Tok != token.TYPE {
					continue
				}
				for _, sp := range v.Specs {
					ts := sp.(*ast.TypeSpec)
					st, ok := ts.Type.(*ast.StructType)
					if !ok {
						continue
					}
					var fs []kField
					okAll := true
					for _, fd := range st.Fields.List {
						ty := kType(fd.Type)
						if strings.HasPrefix(ty, "S:") || ty == "?" {
							okAll = false
						}
						for _, nm := range fd.Names {
							fs = append(fs, kField{nm.Name, ty})
						}
					}
					if okAll && len(fs) > 0 {
						t.structs[ts.Name.Name] = fs
					}
				}
			}
		}
	}
	var sb strings.Builder
	sb.WriteString("(* GENERATED by `vh kernels` from /repo/internal_clipper.go, clipper.go, core.go, generics.go on every run. Do not edit. *)\n")
	sb.WriteString("From Coq Require Import ZArith QArith Qabs Bool String List.\nFrom Clip Require Import Base.Int64 Model.Arith Model.Simplify Model.SimplifyF64 Model.KernelOps.\nImport ListNotations.\nOpen Scope Z_scope.\nOpen Scope bool_scope.\n\n")
	var sn []string
	for k, fs := range t.structs {
		if k == "Point64" || k == "PointD" || k == "Rect64" || k == "UInt128Struct" {
			var s []string
			for _, f := range fs {
				s = append(s, f.name+":"+f.typ)
			}
			sn = append(sn, fmt.Sprintf("(\"%s\"%%string, \"%s\"%%string)", k, strings.Join(s, ",")))
		}
	}
	sort.Strings(sn)
	fmt.Fprintf(&sb, "Definition struct_layouts : list (string * string) := [%s].\n\n", strings.Join(sn, "; "))
	scalars := []string{"NewRect64Invalid", "triSign", "multiplyUInt64", "productsAreEqual", "isCollinear", "CrossProduct", "dotProduct64",
		"crossProductD", "dotProductD", "getSegmentIntersectPt", "segsIntersect", "PerpendicDistFromLineSqr64", "PerpendicDistFromLineSqrD", "PointsNearEqual"}
	for _, nm := range scalars {
		t.scalar(nm, &sb, where[nm])
	}
	for _, nm := range []string{"Area64", "getBounds", "GetBounds64"} {
		t.loop(nm, &sb, where[nm], fset, srcs[where[nm]])
	}
	// IsPositive64 is  Area64(poly) >= 0
	if fn := t.decls["IsPositive64"]; fn != nil {
		txt := strings.Join(strings.Fields(string(srcs[where["IsPositive64"]][fset.Position(fn.Body.Lbrace).Offset+1:fset.Position(fn.Body.Rbrace).Offset])), " ")
		fmt.Fprintf(&sb, "Definition gen_IsPositive64_body : string := \"%s\"%%string.\n", txt)
	}
	os.MkdirAll(filepath.Dir(out), 0o755)
	if err := os.WriteFile(out, []byte(sb.String()), 0o644); err != nil {
		fmt.Println(err)
		os.Exit(1)
	}
	var found []string
	for k := range t.sigs {
		found = append(found, k)
	}
	sort.Strings(found)
	if e != nil {
		e.Case("kernels-0", "noop", map[string]any{"translated": found})
	}
}
