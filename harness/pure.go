package main

// K3 leaf functions of the rectangle clipper: rect_clip.go:getLocation, headingClockwise,
// getAdjacentLocation, areOpposites, getEdgesForPt are translated from /repo's current source
// into Gallina functions (coq/Gen/RectLeaf_gen.v) on every run.  Location values are their
// integer codes (Left 0, Top 1, Right 2, Bottom 3, Inside 4: read from the const block), struct
// parameters contribute one integer parameter per field read, results with several values
// become tuples.  Theorems: Model/RectLeafProofs.v.

import (
	"fmt"
	"go/ast"
	"go/parser"
	"go/token"
	"os"
	"path/filepath"
	"sort"
	"strings"
)

func init() { commands["pure"] = cmdPure }

type pureTr struct {
	fset    *token.FileSet
	consts  map[string]int64  // named integer constants (Location values)
	ptypes  map[string]string // parameter name -> "Z" | "bool" | "struct"
	inputs  map[string]string // generated parameter -> type
	results []string          // result types "Z" | "bool"
	err     string
}

type pureEnv struct {
	val map[string]string
	typ map[string]string
}

func (e pureEnv) clone() pureEnv {
	n := pureEnv{map[string]string{}, map[string]string{}}
	for k, v := range e.val {
		n.val[k] = v
	}
	for k, v := range e.typ {
		n.typ[k] = v
	}
	return n
}

func (t *pureTr) fail(format string, a ...any) string {
	if t.err == "" {
		t.err = fmt.Sprintf(format, a...)
	}
	return "ERR"
}

func (t *pureTr) isBool(x ast.Expr, env pureEnv) bool {
	switch e := x.(type) {
	case *ast.ParenExpr:
		return t.isBool(e.X, env)
	case *ast.Ident:
		return e.Name == "true" || e.Name == "false" || env.typ[e.Name] == "bool" || t.ptypes[e.Name] == "bool"
	case *ast.UnaryExpr:
		return e.Op == token.NOT
	case *ast.BinaryExpr:
		switch e.Op {
		case token.LAND, token.LOR, token.EQL, token.NEQ, token.LSS, token.GTR, token.LEQ, token.GEQ:
			return true
		}
	}
	return false
}

func (t *pureTr) zexpr(x ast.Expr, env pureEnv) string {
	switch e := x.(type) {
	case *ast.ParenExpr:
		return t.zexpr(e.X, env)
	case *ast.BasicLit:
		if e.Kind == token.INT {
			return "(" + e.Value + ")"
		}
	case *ast.Ident:
		if v, ok := env.val[e.Name]; ok && env.typ[e.Name] == "Z" {
			return v
		}
		if t.ptypes[e.Name] == "Z" {
			t.inputs[e.Name] = "Z"
			return e.Name
		}
		if c, ok := t.consts[e.Name]; ok {
			return fmt.Sprintf("(%d)", c)
		}
	case *ast.SelectorExpr:
		if id, ok := e.X.(*ast.Ident); ok && t.ptypes[id.Name] == "struct" {
			nm := id.Name + "_" + e.Sel.Name
			t.inputs[nm] = "Z"
			return nm
		}
	case *ast.UnaryExpr:
		if e.Op == token.SUB {
			return "(- " + t.zexpr(e.X, env) + ")"
		}
	case *ast.BinaryExpr:
		op := map[token.Token]string{token.ADD: "+", token.SUB: "-", token.MUL: "*"}[e.Op]
		if op != "" {
			return "(" + t.zexpr(e.X, env) + " " + op + " " + t.zexpr(e.Y, env) + ")"
		}
		if e.Op == token.REM {
			// Go's % truncates; it agrees with Z.modulo when both operands are non-negative (the theorems assume the ranges)
			return "(Z.modulo " + t.zexpr(e.X, env) + " " + t.zexpr(e.Y, env) + ")"
		}
	case *ast.CallExpr:
		if s, ok := e.Fun.(*ast.SelectorExpr); ok && len(e.Args) == 1 {
			if p, ok := s.X.(*ast.Ident); ok && p.Name == "math" && s.Sel.Name == "Abs" {
				return "(Z.abs " + t.zexpr(e.Args[0], env) + ")"
			}
		}
		if id, ok := e.Fun.(*ast.Ident); ok && len(e.Args) == 1 {
			switch id.Name {
			case "float64", "int", "int64", "uint", "Location":
				return t.zexpr(e.Args[0], env)
			case "absInt":
				return "(Z.abs " + t.zexpr(e.Args[0], env) + ")"
			}
		}
	}
	return t.fail("unsupported integer expression %T", x)
}

func (t *pureTr) bexpr(x ast.Expr, env pureEnv) string {
	switch e := x.(type) {
	case *ast.ParenExpr:
		return t.bexpr(e.X, env)
	case *ast.Ident:
		if e.Name == "true" || e.Name == "false" {
			return e.Name
		}
		if v, ok := env.val[e.Name]; ok && env.typ[e.Name] == "bool" {
			return v
		}
		if t.ptypes[e.Name] == "bool" {
			t.inputs[e.Name] = "bool"
			return e.Name
		}
	case *ast.UnaryExpr:
		if e.Op == token.NOT {
			return "(negb " + t.bexpr(e.X, env) + ")"
		}
	case *ast.BinaryExpr:
		switch e.Op {
		case token.LOR:
			return "(" + t.bexpr(e.X, env) + " || " + t.bexpr(e.Y, env) + ")"
		case token.LAND:
			return "(" + t.bexpr(e.X, env) + " && " + t.bexpr(e.Y, env) + ")"
		case token.EQL:
			return "(" + t.zexpr(e.X, env) + " =? " + t.zexpr(e.Y, env) + ")"
		case token.NEQ:
			return "(negb (" + t.zexpr(e.X, env) + " =? " + t.zexpr(e.Y, env) + "))"
		case token.LSS:
			return "(" + t.zexpr(e.X, env) + " <? " + t.zexpr(e.Y, env) + ")"
		case token.GTR:
			return "(" + t.zexpr(e.X, env) + " >? " + t.zexpr(e.Y, env) + ")"
		case token.LEQ:
			return "(" + t.zexpr(e.X, env) + " <=? " + t.zexpr(e.Y, env) + ")"
		case token.GEQ:
			return "(" + t.zexpr(e.X, env) + " >=? " + t.zexpr(e.Y, env) + ")"
		}
	}
	return t.fail("unsupported boolean expression %T", x)
}

func (t *pureTr) stmts(list []ast.Stmt, env pureEnv, k func(pureEnv) string) string {
	if t.err != "" {
		return "ERR"
	}
	if len(list) == 0 {
		return k(env)
	}
	rest := list[1:]
	cont := func(e pureEnv) string { return t.stmts(rest, e, k) }
	switch s := list[0].(type) {
	case *ast.ReturnStmt:
		if len(s.Results) != len(t.results) {
			return t.fail("return with %d results", len(s.Results))
		}
		var vs []string
		for i, r := range s.Results {
			if t.results[i] == "bool" {
				vs = append(vs, t.bexpr(r, env))
			} else {
				vs = append(vs, t.zexpr(r, env))
			}
		}
		if len(vs) == 1 {
			return vs[0]
		}
		return "(" + strings.Join(vs, ", ") + ")"
	case *ast.DeclStmt:
		gd, ok := s.Decl.(*ast.GenDecl)
		if !ok || gd.Tok != token.VAR {
			return t.fail("unsupported declaration")
		}
		e2 := env.clone()
		for _, sp := range gd.Specs {
			vs := sp.(*ast.ValueSpec)
			ty, _ := vs.Type.(*ast.Ident)
			for i, nm := range vs.Names {
				switch {
				case len(vs.Values) > i && t.isBool(vs.Values[i], env):
					e2.val[nm.Name], e2.typ[nm.Name] = t.bexpr(vs.Values[i], env), "bool"
				case len(vs.Values) > i:
					e2.val[nm.Name], e2.typ[nm.Name] = t.zexpr(vs.Values[i], env), "Z"
				case ty != nil && ty.Name == "bool":
					e2.val[nm.Name], e2.typ[nm.Name] = "false", "bool"
				default: // integer-like zero value (int, uint, Location)
					e2.val[nm.Name], e2.typ[nm.Name] = "(0)", "Z"
				}
			}
		}
		return cont(e2)
	case *ast.AssignStmt:
		if len(s.Lhs) != 1 || len(s.Rhs) != 1 {
			return t.fail("unsupported assignment")
		}
		id, ok := s.Lhs[0].(*ast.Ident)
		if !ok {
			return t.fail("assignment to a non-local")
		}
		e2 := env.clone()
		switch s.Tok {
		case token.DEFINE, token.ASSIGN:
			if t.isBool(s.Rhs[0], env) || env.typ[id.Name] == "bool" {
				e2.val[id.Name], e2.typ[id.Name] = t.bexpr(s.Rhs[0], env), "bool"
			} else {
				e2.val[id.Name], e2.typ[id.Name] = t.zexpr(s.Rhs[0], env), "Z"
			}
		case token.ADD_ASSIGN:
			e2.val[id.Name], e2.typ[id.Name] = "("+t.zexpr(id, env)+" + "+t.zexpr(s.Rhs[0], env)+")", "Z"
		case token.SUB_ASSIGN:
			e2.val[id.Name], e2.typ[id.Name] = "("+t.zexpr(id, env)+" - "+t.zexpr(s.Rhs[0], env)+")", "Z"
		default:
			return t.fail("unsupported assignment operator")
		}
		return cont(e2)
	case *ast.IfStmt:
		if s.Init != nil {
			return t.fail("if with init statement")
		}
		c := t.bexpr(s.Cond, env)
		thenB := t.stmts(s.Body.List, env.clone(), cont)
		var elseB string
		switch el := s.Else.(type) {
		case nil:
			elseB = cont(env.clone())
		case *ast.BlockStmt:
			elseB = t.stmts(el.List, env.clone(), cont)
		case *ast.IfStmt:
			elseB = t.stmts([]ast.Stmt{el}, env.clone(), cont)
		}
		return "(if " + c + " then " + thenB + " else " + elseB + ")"
	case *ast.SwitchStmt:
		if s.Init != nil || s.Tag != nil {
			return t.fail("only tagless switch is supported")
		}
		// first matching case wins; default (or the continuation) last
		var conds, bodies []string
		deflt, hasDefault := "", false
		for _, cl := range s.Body.List {
			cc := cl.(*ast.CaseClause)
			body := t.stmts(cc.Body, env.clone(), cont)
			if cc.List == nil {
				deflt, hasDefault = body, true
				continue
			}
			var cs []string
			for _, x := range cc.List {
				cs = append(cs, t.bexpr(x, env))
			}
			conds = append(conds, "("+strings.Join(cs, " || ")+")")
			bodies = append(bodies, body)
		}
		if !hasDefault {
			deflt = cont(env.clone())
		}
		term := deflt
		for i := len(conds) - 1; i >= 0; i-- {
			term = "(if " + conds[i] + " then " + bodies[i] + " else " + term + ")"
		}
		return term
	}
	return t.fail("unsupported statement %T", list[0])
}

func cmdPure(r *RNG, n int, e *Emitter, args []string) {
	repo := "/repo"
	out := "/verif/coq/Gen/RectLeaf_gen.v"
	if len(args) > 0 {
		out = args[0]
	}
	fset := token.NewFileSet()
	src, err := os.ReadFile(repo + "/rect_clip.go")
	if err != nil {
		fmt.Println(err)
		os.Exit(1)
	}
	af, err := parser.ParseFile(fset, "rect_clip.go", src, 0)
	if err != nil {
		fmt.Println("parse error", err)
		os.Exit(1)
	}
	// Location constants: the iota block whose first spec has type Location
	consts := map[string]int64{}
	for _, d := range af.Decls {
		gd, ok := d.(*ast.GenDecl)
		if !ok || gd.Tok != token.CONST || len(gd.Specs) == 0 {
			continue
		}
		first := gd.Specs[0].(*ast.ValueSpec)
		if ty, ok := first.Type.(*ast.Ident); !ok || ty.Name != "Location" {
			continue
		}
		if len(first.Values) != 1 {
			continue
		}
		if id, ok := first.Values[0].(*ast.Ident); !ok || id.Name != "iota" {
			continue
		}
		for i, sp := range gd.Specs {
			vs := sp.(*ast.ValueSpec)
			if i > 0 && (vs.Type != nil || len(vs.Values) > 0) {
				consts = map[string]int64{} // not a plain iota block: refuse
				break
			}
			for _, nm := range vs.Names {
				consts[nm.Name] = int64(i)
			}
		}
	}
	var sb strings.Builder
	sb.WriteString("(* GENERATED by `vh pure` from /repo/rect_clip.go on every run. Do not edit. *)\n")
	sb.WriteString("From Coq Require Import ZArith Bool String List.\nImport ListNotations.\nOpen Scope Z_scope.\nOpen Scope bool_scope.\n\n")
	var cn []string
	for k, v := range consts {
		cn = append(cn, fmt.Sprintf("(\"%s\"%%string, %d)", k, v))
	}
	sort.Strings(cn)
	fmt.Fprintf(&sb, "Definition location_codes : list (string * Z) := [%s].\n\n", strings.Join(cn, "; "))
	var found []string
	// the classification decisions of getNextLocation, cut out of its source text as small functions of (pt, rec)
	synth, synthNames, synthErr := nextLocationFuncs(fset, af, src)
	if synthErr != "" {
		fmt.Fprintf(&sb, "(* rect_clip.go:getNextLocation: NOT TRANSLATABLE: %s *)\n\n", synthErr)
	}
	wants := append([]string{"getLocation", "headingClockwise", "getAdjacentLocation", "areOpposites", "getEdgesForPt"}, synthNames...)
	for _, want := range wants {
		var fn *ast.FuncDecl
		for _, d := range af.Decls {
			if f, ok := d.(*ast.FuncDecl); ok && f.Name.Name == want && f.Body != nil && f.Recv == nil {
				fn = f
			}
		}
		if f, ok := synth[want]; ok {
			fn = f
		}
		if fn == nil {
			fmt.Fprintf(&sb, "(* rect_clip.go:%s: NOT FOUND *)\nDefinition gen_%s_missing : string := \"not found\"%%string.\n\n", want, want)
			continue
		}
		t := &pureTr{fset: fset, consts: consts, ptypes: map[string]string{}, inputs: map[string]string{}}
		if _, ok := synth[want]; ok {
			for _, nm := range []string{"pt_X", "pt_Y", "rec_left", "rec_top", "rec_right", "rec_bottom"} {
				t.inputs[nm] = "Z"
			}
		}
		var order []string
		for _, f := range fn.Type.Params.List {
			ty := "struct"
			if id, ok := f.Type.(*ast.Ident); ok {
				switch id.Name {
				case "bool":
					ty = "bool"
				case "int", "int64", "uint", "Location":
					ty = "Z"
				}
			}
			for _, nm := range f.Names {
				t.ptypes[nm.Name] = ty
				order = append(order, nm.Name)
			}
		}
		if fn.Type.Results != nil {
			for _, f := range fn.Type.Results.List {
				ty := "Z"
				if id, ok := f.Type.(*ast.Ident); ok && id.Name == "bool" {
					ty = "bool"
				}
				k := len(f.Names)
				if k == 0 {
					k = 1
				}
				for i := 0; i < k; i++ {
					t.results = append(t.results, ty)
				}
			}
		}
		term := t.stmts(fn.Body.List, pureEnv{map[string]string{}, map[string]string{}}, func(pureEnv) string { return t.fail("a path does not end in a return") })
		if t.err != "" {
			fmt.Fprintf(&sb, "(* rect_clip.go:%s: NOT TRANSLATABLE: %s *)\nDefinition gen_%s_untranslatable : string := \"%s\"%%string.\n\n", want, t.err, want, strings.ReplaceAll(t.err, "\"", "'"))
			continue
		}
		// parameters in declaration order; the fields of a struct parameter sorted by name
		var params []string
		for _, p := range order {
			if t.ptypes[p] == "struct" {
				var fs []string
				for nm := range t.inputs {
					if strings.HasPrefix(nm, p+"_") {
						fs = append(fs, nm)
					}
				}
				sort.Strings(fs)
				for _, nm := range fs {
					params = append(params, "("+nm+" : Z)")
				}
			} else {
				params = append(params, "("+p+" : "+t.ptypes[p]+")")
			}
		}
		fmt.Fprintf(&sb, "(* rect_clip.go:%s *)\nDefinition gen_%s %s : %s :=\n  %s.\n\n", want, want, strings.Join(params, " "), strings.Join(t.results, " * "), term)
		found = append(found, want)
	}
	os.MkdirAll(filepath.Dir(out), 0o755)
	if err := os.WriteFile(out, []byte(sb.String()), 0o644); err != nil {
		fmt.Println(err)
		os.Exit(1)
	}
	e.Case("pure-0", "noop", map[string]any{"translated": found})
}


// nextLocationFuncs cuts the five decisions of (r *RectClip64) getNextLocation out of the source: for each outside state L
// the "stay" condition of its scanning loop (for *i <= highI && <stay>) and the tagless switch that classifies the first
// point that left L; for Inside the switch in its loop (default = the point is kept: code 5).  The pieces are rewritten
// textually (path[*i] -> pt, r.rect -> rec, *loc = X -> return X) into functions of (pt Point64, rec Rect64) and handed to
// the same translator as the other leaf functions.  Any other shape is refused.
func nextLocationFuncs(fset *token.FileSet, af *ast.File, src []byte) (map[string]*ast.FuncDecl, []string, string) {
	var fn *ast.FuncDecl
	for _, d := range af.Decls {
		if f, ok := d.(*ast.FuncDecl); ok && f.Name.Name == "getNextLocation" && f.Recv != nil && f.Body != nil {
			fn = f
		}
	}
	if fn == nil {
		return nil, nil, "getNextLocation not found"
	}
	if len(fn.Body.List) != 1 {
		return nil, nil, "body is not a single switch"
	}
	sw, ok := fn.Body.List[0].(*ast.SwitchStmt)
	if !ok || sw.Tag == nil {
		return nil, nil, "body is not a switch on *loc"
	}
	text := func(n ast.Node) string { return string(src[fset.Position(n.Pos()).Offset:fset.Position(n.End()).Offset]) }
	rw := func(s string) string {
		s = strings.ReplaceAll(s, "path[*i]", "pt")
		s = strings.ReplaceAll(s, "r.rect.", "rec.")
		s = strings.ReplaceAll(s, "*loc = ", "return ")
		return s
	}
	var sb strings.Builder
	sb.WriteString("package x\n")
	var names []string
	seen := map[string]bool{}
	for _, cl := range sw.Body.List {
		cc := cl.(*ast.CaseClause)
		if len(cc.List) != 1 {
			return nil, nil, "a case with several values"
		}
		id, ok := cc.List[0].(*ast.Ident)
		if !ok {
			return nil, nil, "a case that is not a location name"
		}
		L := id.Name
		seen[L] = true
		if L == "Inside" {
			if len(cc.Body) != 1 {
				return nil, nil, "Inside: unexpected statements"
			}
			fs, ok := cc.Body[0].(*ast.ForStmt)
			if !ok || fs.Init != nil || fs.Post != nil || text(fs.Cond) != "*i <= highI" || len(fs.Body.List) != 2 {
				return nil, nil, "Inside: unexpected loop"
			}
			isw, ok := fs.Body.List[0].(*ast.SwitchStmt)
			br, ok2 := fs.Body.List[1].(*ast.BranchStmt)
			if !ok || !ok2 || br.Tok != token.BREAK || isw.Tag != nil {
				return nil, nil, "Inside: unexpected loop body"
			}
			var cases []string
			for _, c2 := range isw.Body.List {
				c3 := c2.(*ast.CaseClause)
				if c3.List == nil {
					want := "r.add(path[*i], false) *i++ continue"
					var got []string
					for _, st := range c3.Body {
						got = append(got, text(st))
					}
					if strings.Join(got, " ") != want {
						return nil, nil, "Inside: unexpected default branch"
					}
					cases = append(cases, "default:\n return 5\n")
				} else {
					cases = append(cases, rw(text(c3))+"\n")
				}
			}
			fmt.Fprintf(&sb, "func next_Inside(pt Point64, rec Rect64) Location {\n switch {\n%s}\n}\n", strings.Join(cases, ""))
			names = append(names, "next_Inside")
			continue
		}
		if len(cc.Body) != 3 {
			return nil, nil, L + ": unexpected statements"
		}
		fs, ok := cc.Body[0].(*ast.ForStmt)
		if !ok || fs.Init != nil || fs.Post != nil || len(fs.Body.List) != 1 || text(fs.Body.List[0]) != "*i++" {
			return nil, nil, L + ": unexpected scanning loop"
		}
		be, ok := fs.Cond.(*ast.BinaryExpr)
		if !ok || be.Op != token.LAND || text(be.X) != "*i <= highI" {
			return nil, nil, L + ": unexpected loop condition"
		}
		ifs, ok := cc.Body[1].(*ast.IfStmt)
		if !ok || text(ifs.Cond) != "*i > highI" || len(ifs.Body.List) != 1 || text(ifs.Body.List[0]) != "break" || ifs.Else != nil {
			return nil, nil, L + ": unexpected end test"
		}
		isw, ok := cc.Body[2].(*ast.SwitchStmt)
		if !ok || isw.Tag != nil || isw.Init != nil {
			return nil, nil, L + ": unexpected classification"
		}
		for _, c2 := range isw.Body.List {
			c3 := c2.(*ast.CaseClause)
			if len(c3.Body) != 1 || !strings.HasPrefix(text(c3.Body[0]), "*loc = ") {
				return nil, nil, L + ": a classification branch that does more than set *loc"
			}
		}
		fmt.Fprintf(&sb, "func stay_%s(pt Point64, rec Rect64) bool {\n return %s\n}\n", L, rw(text(be.Y)))
		fmt.Fprintf(&sb, "func next_%s(pt Point64, rec Rect64) Location {\n %s\n}\n", L, rw(text(isw)))
		names = append(names, "stay_"+L, "next_"+L)
	}
	for _, L := range []string{"Left", "Top", "Right", "Bottom", "Inside"} {
		if !seen[L] {
			return nil, nil, "no case for " + L
		}
	}
	f2, err := parser.ParseFile(fset, "nextloc_synth.go", sb.String(), 0)
	if err != nil {
		return nil, nil, "rewritten pieces do not parse: " + err.Error()
	}
	out := map[string]*ast.FuncDecl{}
	for _, d := range f2.Decls {
		if f, ok := d.(*ast.FuncDecl); ok {
			out[f.Name.Name] = f
		}
	}
	return out, names, ""
}
