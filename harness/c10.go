package main

import (
	"fmt"
	"math"

	clip "github.com/bolom009/go-clipper2"
)

// C10: open-path offsetting (strokes).
func cmdC10(r *RNG, n int, e *Emitter, args []string) {
	for i := 0; i < n; i++ {
		clearEvents()
		S := []float64{40, 100, 400}[r.Intn(3)]
		np := []int{1, 2, 2, 3, 4, 5, 6}[r.Intn(7)]
		line := make(clip.Path64, 0, np)
		x, y := int64(0), int64(0)
		for k := 0; k < np; k++ {
			line = append(line, clip.Point64{X: x, Y: y})
			if r.Intn(8) == 0 && k > 0 {
				line = append(line, clip.Point64{X: x, Y: y}) // duplicate point
			}
			// mostly gentle turns so that the stroke does not swallow itself
			x += int64(S * (0.6 + r.Float()))
			y += int64(S * (r.Float() - 0.5) * 1.5)
		}
		if len(line) >= 3 && r.Intn(6) == 0 {
			// a sharp interior vertex whose two edges mirror each other in the horizontal (or vertical) line through
			// it: the join's bisector is exactly axis-parallel while neither edge is
			k := 1 + r.Intn(len(line)-2)
			v := line[k]
			a, b := int64(S*(2+3*r.Float())), int64(S*(0.2+0.6*r.Float()))
			if r.Bool() {
				line[k-1], line[k+1] = clip.Point64{X: v.X - a, Y: v.Y - b}, clip.Point64{X: v.X - a, Y: v.Y + b}
			} else {
				line[k-1], line[k+1] = clip.Point64{X: v.X - b, Y: v.Y - a}, clip.Point64{X: v.X + b, Y: v.Y - a}
			}
			line = line[k-1 : k+2]
			if r.Bool() { // lead-in and lead-out so that the vertex is far from the end points
				line = append(append(clip.Path64{{X: line[0].X - int64(3*S), Y: line[0].Y - int64(S)}}, line...), clip.Point64{X: line[2].X - int64(3*S), Y: line[2].Y + int64(S)})
			}
			e.Count("shape=mirrored-spike")
		}
		if r.Intn(5) == 0 {
			// a loop: the last point repeats the first (either direction, sometimes with a further duplicate)
			line = genStarShaped(r, 0, 0, 0.6*S, 1.2*S, 3+r.Intn(5))
			if r.Bool() {
				line = clip.ReversePath(line)
			}
			line = append(line, line[0])
			if r.Intn(6) == 0 {
				line = append(line, line[0])
			}
			e.Count("shape=loop")
		}
		huge := false
		if i%11 == 6 {
			huge = true
			// a polyline with one huge segment (longer than 2^31.6: its squared length does not fit 63 bits), axis-parallel
			// or slightly slanted, in 4 orientations, with short lead-in / lead-out segments
			L := r.Range(3100000000, 4200000000) // squared length beyond 2^63, yet (L/2)^2 below it: the library's own int64 dot products of two pieces of such an edge still fit (beyond that the int64-product-overflow finding of C13 takes over)
			h0 := int64(0)
			if r.Bool() {
				h0 = r.Range(-3000, 3000)
			}
			line = clip.Path64{{X: 0, Y: 0}, {X: L, Y: h0}}
			if r.Bool() {
				line = append(clip.Path64{{X: -int64(3 * S), Y: int64(S)}}, line...)
			}
			if r.Bool() {
				line = append(line, clip.Point64{X: L + int64(3*S), Y: h0 - int64(S)})
			}
			// near-vertical only: the certificate's cover works on horizontal slabs between vertex levels and bisects
			// cells, so a near-horizontal cell 10^11 units long next to the end caps would need ~35 levels of bisection
			for j := range line {
				x, y := line[j].X, line[j].Y
				if (i/11)%2 == 0 {
					x, y = -y, x
				} else {
					x, y = y, -x
				}
				line[j] = clip.Point64{X: x, Y: y}
			}
			e.Count("shape=huge-segment")
		}
		jt := clip.JoinType(r.Intn(4))
		et := []clip.EndType{clip.Butt, clip.SquareET, clip.RoundET, clip.Joined}[r.Intn(4)]
		delta := S * (0.05 + 0.25*r.Float())
		if delta < 0.6 {
			delta = 0.6
		}
		if i%7 == 3 && !huge {
			// a flat zigzag stroked as a Joined loop with a half-width above half its height: the closing segment runs
			// through the zigzag, so the implied loop is a chain of lobes wound alternately, and the stroke is wider
			// than the loop's bounding box is high
			np := 4 + r.Intn(3)
			line = line[:0]
			x := int64(0)
			for k := 0; k < np; k++ {
				y := int64(S * (0.1 + 0.4*r.Float()))
				if k%2 == 1 {
					y = -y
				}
				line = append(line, clip.Point64{X: x, Y: y})
				x += int64(S * (0.8 + r.Float()))
			}
			if r.Bool() { // upright instead of flat
				for k := range line {
					line[k] = clip.Point64{X: line[k].Y, Y: line[k].X}
				}
			}
			et = clip.Joined
			delta = S * (0.3 + 0.4*r.Float())
			e.Count("shape=flat-zigzag-loop")
		}
		miter := []float64{2, 2, 3}[r.Intn(3)]
		in0 := clip.Paths64{append(clip.Path64{}, line...)}
		var out clip.Paths64
		// several open paths in one call: companions far away (y + 100 S and beyond); only the result pieces near the
		// line under test are examined, so each path must get its own stroke whatever its position in the call
		call := clip.Paths64{line}
		ncomp := 0
		if len(line) >= 2 && r.Intn(3) == 0 && !huge { // (a huge segment would run through the companions)
			ncomp = 1 + r.Intn(2)
			pos := r.Intn(ncomp + 1)
			call = nil
			for k := 0; k <= ncomp; k++ {
				if k == pos {
					call = append(call, line)
					continue
				}
				comp := make(clip.Path64, 0, 4)
				cx, cy := int64(0), int64(100*S)*int64(k+1)
				for j := 0; j < 2+r.Intn(4); j++ {
					comp = append(comp, clip.Point64{X: cx, Y: cy})
					cx += int64(S * (0.6 + r.Float()))
					cy += int64(S * (r.Float() - 0.5))
				}
				call = append(call, comp)
			}
			e.Count("several-paths-in-one-call")
		}
		perr := safeCall(func() { out = clip.InflatePaths64(call, delta, jt, et, clip.WithMitterLimit(miter)) })
		if ncomp > 0 {
			var near clip.Paths64
			for _, p := range out {
				_, t, _, _ := boundsOf(p)
				if len(p) > 0 && t < int64(50*S) {
					near = append(near, p)
				}
			}
			out = near
		}
		meta := map[string]any{"line": pathJSON(in0[0]), "delta": delta, "jt": int(jt), "et": int(et), "miter": miter, "companions": ncomp}
		if perr != "" {
			meta["panic"], meta["kind"] = perr, "panic"
			e.Fail(meta)
			continue
		}
		meta["out"] = pathsJSON(out)
		id := fmt.Sprintf("c10-%d", i)
		tol := 2 + 0.002*delta
		k := math.Max(joinK(jt, miter), 1.0)
		if et == clip.SquareET {
			k = math.Max(k, 1.4143)
		}
		meta["tol"], meta["k"] = tol, k
		e.Case(id, "noop", meta)
		e.Count(fmt.Sprintf("et=%d", et))
		e.Count(fmt.Sprintf("points=%d", len(line)))
		e.Nontrivial(fmt.Sprint(i))
		pts := clip.StripDuplicates(in0[0], false)
		if len(pts) == 1 {
			// a single point becomes a square or circle of radius delta: two-sided check against the square [p +- delta]
			d := int64(math.Floor(delta - 1))
			if d >= 1 {
				sq := clip.Paths64{{{X: pts[0].X - d, Y: pts[0].Y - d}, {X: pts[0].X + d, Y: pts[0].Y - d}, {X: pts[0].X + d, Y: pts[0].Y + d}, {X: pts[0].X - d, Y: pts[0].Y + d}}}
				if et == clip.RoundET {
					sq = clip.Paths64{inscribed(pts[0], delta-2-0.002*delta)}
				}
				l1, _ := genLine("imp", "4", []clip.Paths64{sq, out}, out, nil)
				e.Case(id+"p", l1, map[string]any{"line": meta["line"], "out": meta["out"], "delta": delta, "jt": int(jt), "et": int(et), "inner": pathsJSON(sq), "k": k, "tol": tol})
			}
			continue
		}
		lc, _ := genLine("canon 1", "4", []clip.Paths64{out}, out, nil)
		e.Case(id+"c", lc, meta)
		// strips on both sides of every segment, depth delta - 1
		var strips clip.Paths64
		segs := len(pts) - 1
		closedLoop := et == clip.Joined
		if closedLoop && len(pts) > 2 {
			segs = len(pts)
		}
		for j := 0; j < segs; j++ {
			a, b := pts[j], pts[(j+1)%len(pts)]
			nx, ny, ok := unitNormalLeft(a, b)
			if !ok {
				continue
			}
			d := delta - 1
			if d <= 0.5 {
				continue
			}
			strips = append(strips, stripQuad(a, b, nx*d, ny*d), stripQuad(a, b, -nx*d, -ny*d))
		}
		if len(strips) > 0 {
			l2, _ := genLine("imp", "4", []clip.Paths64{strips, out}, out, nil)
			e.Case(id+"b", l2, map[string]any{"line": meta["line"], "out": meta["out"], "delta": delta, "jt": int(jt), "et": int(et), "strips_paths": pathsJSON(strips), "points": pathJSON(pts), "k": k, "tol": tol})
		}
		// nothing farther than k*delta + tol from the polyline: the band is the polyline itself (open edges; closed for Joined)
		rFar := ratSq(k*delta + tol)
		var l3 string
		if closedLoop {
			l3, _ = genLine("canon 0", rFar, []clip.Paths64{out}, clip.Paths64{pts}, nil)
		} else {
			l3, _ = genLine("canon 0", rFar, []clip.Paths64{out}, nil, clip.Paths64{pts})
		}
		meta["r_far2"] = rFar
		e.Case(id+"f", l3, meta)
	}
}
