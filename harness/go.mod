module verifharness

go 1.25

require github.com/bolom009/go-clipper2 v0.0.0

require (
	github.com/govalues/decimal v0.1.36 // indirect
	golang.org/x/exp v0.0.0-20250911091902-df9299821621 // indirect
)

replace github.com/bolom009/go-clipper2 => /repo
