package main

import (
	"fmt"
	"strings"

	clip "github.com/bolom009/go-clipper2"
)

func init() { commands["c08"] = cmdC08 }

func b2i(b bool) int {
	if b {
		return 1
	}
	return 0
}

// C08: Minkowski sum / difference.
func cmdC08(r *RNG, n int, e *Emitter, args []string) {
	for i := 0; i < n; i++ {
		G := []int64{4, 6, 10, 20, 100, 1000}[r.Intn(6)]
		var pat, path clip.Path64
		switch r.Intn(10) {
		case 9: // a SHORT rasterised run followed by a long jump across it, small pattern: few enough quads to certify
			pat = clip.Path64{{X: 0, Y: 0}, {X: r.Range(4, 12), Y: r.Range(0, 3)}, {X: r.Range(0, 3), Y: r.Range(4, 12)}}
			d := [][2]int64{{1, 0}, {1, 1}, {0, 1}, {-1, 1}}[r.Intn(4)]
			x, y := r.Range(0, 20), r.Range(0, 20)
			for k, nk := 0, 5+r.Intn(3); k < nk; k++ {
				path = append(path, clip.Point64{X: x, Y: y})
				x, y = x+d[0], y+d[1]
			}
			// the jump leaves perpendicular to the run
			j := r.Range(30, 120)
			path = append(path, clip.Point64{X: x - d[1]*j, Y: y + d[0]*j})
		case 8: // a rasterised path: runs of unit steps (and a few longer ones)
			pat = genPolyN(r, []string{"convex", "rect", "random"}[r.Intn(3)], G, 5)
			x, y := r.Range(0, G), r.Range(0, G)
			for seg, nseg := 0, 1+r.Intn(3); seg < nseg; seg++ {
				// a rasterised straight run: unit steps in one of the 8 lattice directions, with some jitter
				d := [][2]int64{{1, 0}, {1, 1}, {0, 1}, {-1, 1}, {1, -1}, {-1, 0}, {0, -1}, {-1, -1}}[r.Intn(8)]
				for k, nk := 0, 8+r.Intn(70); k < nk; k++ {
					path = append(path, clip.Point64{X: x, Y: y})
					x, y = x+d[0], y+d[1]
					if r.Intn(10) == 0 {
						x += r.Range(-1, 1)
					}
				}
				if r.Bool() { // a long jump between runs
					x, y = x+r.Range(-3*G, 3*G), y+r.Range(2, 3*G)
				}
			}
			path = append(path, clip.Point64{X: x, Y: y})
		case 0:
			pat = genPolyN(r, "random", G, 4)
			path = clip.Path64{} // empty path
		case 1:
			pat = genPolyN(r, "convex", G, 5)
			path = clip.Path64{{X: r.Range(0, G), Y: r.Range(0, G)}} // single point
		case 2:
			pat = genPolyN(r, "rect", G, 4)
			t := r.Range(1, 3)
			path = clip.Path64{{X: 0, Y: 0}, {X: t * 3, Y: t * 2}, {X: 2 * t * 3, Y: 2 * t * 2}} // collinear path
		case 3:
			pat = clip.Path64{}
			path = genPolyN(r, "random", G, 4)
		default:
			pat = genPolyN(r, []string{"convex", "random", "rect", "star"}[r.Intn(4)], G, 5)
			path = genPolyN(r, []string{"convex", "random", "zigzag", "coarse"}[r.Intn(4)], 3*G, 5)
		}
		if r.Bool() {
			pat = clip.ReversePath(pat)
		}
		isSum, isClosed := r.Bool(), r.Bool()
		pat0, path0 := append(clip.Path64{}, pat...), append(clip.Path64{}, path...)
		var quads, res, comm clip.Paths64
		perr := safeCall(func() {
			quads = clip.VerifMinkowskiInternal(pat, path, isSum, isClosed)
			if isSum {
				res = clip.MinkowskiSum64(pat, path, isClosed)
				if isClosed {
					comm = clip.MinkowskiSum64(path, pat, true)
				}
			} else {
				res = clip.MinkowskiDiff64(pat, path, isClosed)
			}
		})
		meta := map[string]any{"pattern": pathJSON(pat0), "path": pathJSON(path0), "sum": isSum, "closed": isClosed}
		if perr != "" {
			meta["panic"], meta["kind"] = perr, "panic"
			e.Fail(meta)
			continue
		}
		if !pathsEqual(clip.Paths64{pat, path}, clip.Paths64{pat0, path0}) {
			meta["kind"] = "input-mutated"
			e.Fail(meta)
			continue
		}
		meta["quads"], meta["result"] = pathsJSON(quads), pathsJSON(res)
		id := fmt.Sprintf("c08-%d", i)
		var sb strings.Builder
		fmt.Fprintf(&sb, "mink %d %d", b2i(isSum), b2i(isClosed))
		encPath(&sb, pat0)
		encPath(&sb, path0)
		e.Case(id+"m", sb.String(), meta)
		e.Count(fmt.Sprintf("sum=%v closed=%v", isSum, isClosed))
		e.Count(fmt.Sprintf("quads<=%d", bucket(len(quads))))
		if len(quads) > 0 && len(res) > 0 {
			e.Nontrivial(sb.String())
		}
		if len(quads) > 24 {
			continue // exact region certification of very many overlapping quads is too slow for the per-change run
		}
		// result region = union of the quads (NonZero), away from the quad edges
		l1, _ := genLine("oddnz", "4", []clip.Paths64{res, quads}, quads, nil)
		e.Case(id+"q", l1, meta)
		l3, _ := genLine("canon 1", "4", []clip.Paths64{res}, res, nil)
		e.Case(id+"c", l3, meta)
		if comm != nil {
			m2 := map[string]any{"pattern": pathJSON(pat0), "path": pathJSON(path0), "sum": isSum, "closed": isClosed, "result": pathsJSON(res), "result_swapped": pathsJSON(comm), "quads": pathsJSON(quads)}
			l4, _ := genLine("sameodd", "4", []clip.Paths64{res, comm}, quads, nil)
			e.Case(id+"s", l4, m2)
		}
	}
}
