package main

// K3 wind-count arithmetic: two statement fragments of the sweep are translated from
// /repo's current source into Gallina state transformers (coq/Gen/Windcount_gen.v) on
// every run:
//   * setWindCountForClosedPathEdge: the statement `if ae2.windCount*ae2.windDx < 0 {..} else {..}`
//     that computes the new edge's windCount from its left neighbour of the same path set;
//   * intersectEdges: the statement `if ae1.localMin.PolyType == ae2.localMin.PolyType {..} else {..}`
//     that updates the four wind counts of two crossing edges.
// Every field read that the fragment has not itself assigned becomes a parameter (Z),
// isOpen(x) and comparisons of deeper selector chains become boolean parameters.
// Theorems: Model/WindcountProofs.v.

import (
	"bytes"
	"fmt"
	"go/ast"
	"go/parser"
	"go/printer"
	"go/token"
	"os"
	"path/filepath"
	"sort"
	"strings"
)

func init() { commands["fragments"] = cmdFragments }

type fragTr struct {
	fset   *token.FileSet
	recv   string
	inputs map[string]string // parameter name -> "Z" | "bool"
	err    string
}

type fragEnv map[string]string // assigned lvalue ("ae1.windCount", "old") -> term ; "#type:"+name -> type of locals

func (e fragEnv) clone() fragEnv {
	n := fragEnv{}
	for k, v := range e {
		n[k] = v
	}
	return n
}

func (t *fragTr) fail(format string, a ...any) string {
	if t.err == "" {
		t.err = fmt.Sprintf(format, a...)
	}
	return "ERR"
}

func (t *fragTr) text(x ast.Node) string {
	var b bytes.Buffer
	printer.Fprint(&b, t.fset, x)
	return strings.Join(strings.Fields(b.String()), "")
}

func sanitize(s string) string {
	var b strings.Builder
	for _, c := range s {
		switch {
		case c >= 'a' && c <= 'z', c >= 'A' && c <= 'Z', c >= '0' && c <= '9':
			b.WriteRune(c)
		default:
			b.WriteRune('_')
		}
	}
	return b.String()
}

// "a.b" for a two-level selector on an identifier, "" otherwise
func lvalKey(x ast.Expr) string {
	switch e := x.(type) {
	case *ast.Ident:
		return e.Name
	case *ast.SelectorExpr:
		if id, ok := e.X.(*ast.Ident); ok {
			return id.Name + "." + e.Sel.Name
		}
	}
	return ""
}

func (t *fragTr) isFillRule(x ast.Expr) bool {
	return t.recv != "" && lvalKey(x) == t.recv+".fillRule"
}

func (t *fragTr) zexpr(x ast.Expr, env fragEnv) string {
	switch e := x.(type) {
	case *ast.ParenExpr:
		return t.zexpr(e.X, env)
	case *ast.BasicLit:
		if e.Kind == token.INT {
			return "(" + e.Value + ")"
		}
	case *ast.UnaryExpr:
		if e.Op == token.SUB {
			return "(- " + t.zexpr(e.X, env) + ")"
		}
	case *ast.BinaryExpr:
		switch e.Op {
		case token.ADD:
			return "(" + t.zexpr(e.X, env) + " + " + t.zexpr(e.Y, env) + ")"
		case token.SUB:
			return "(" + t.zexpr(e.X, env) + " - " + t.zexpr(e.Y, env) + ")"
		case token.MUL:
			return "(" + t.zexpr(e.X, env) + " * " + t.zexpr(e.Y, env) + ")"
		}
	case *ast.CallExpr:
		if s, ok := e.Fun.(*ast.SelectorExpr); ok && len(e.Args) == 1 {
			if p, ok := s.X.(*ast.Ident); ok && p.Name == "math" && s.Sel.Name == "Abs" {
				return "(Z.abs " + t.zexpr(e.Args[0], env) + ")"
			}
		}
		if id, ok := e.Fun.(*ast.Ident); ok && len(e.Args) == 1 {
			switch id.Name {
			case "float64", "int", "int64":
				return t.zexpr(e.Args[0], env)
			case "absInt":
				return "(Z.abs " + t.zexpr(e.Args[0], env) + ")"
			}
		}
	case *ast.Ident, *ast.SelectorExpr:
		if k := lvalKey(x); k != "" {
			if v, ok := env[k]; ok {
				return v
			}
			if _, isIdent := x.(*ast.Ident); !isIdent {
				nm := sanitize(k)
				t.inputs[nm] = "Z"
				return nm
			}
		}
	}
	return t.fail("unsupported integer expression %s", t.text(x))
}

func (t *fragTr) bexpr(x ast.Expr, env fragEnv) string {
	switch e := x.(type) {
	case *ast.ParenExpr:
		return t.bexpr(e.X, env)
	case *ast.UnaryExpr:
		if e.Op == token.NOT {
			return "(negb " + t.bexpr(e.X, env) + ")"
		}
	case *ast.CallExpr:
		if id, ok := e.Fun.(*ast.Ident); ok && id.Name == "isOpen" && len(e.Args) == 1 {
			nm := "isOpen_" + sanitize(t.text(e.Args[0]))
			t.inputs[nm] = "bool"
			return nm
		}
	case *ast.BinaryExpr:
		switch e.Op {
		case token.LOR:
			return "(" + t.bexpr(e.X, env) + " || " + t.bexpr(e.Y, env) + ")"
		case token.LAND:
			return "(" + t.bexpr(e.X, env) + " && " + t.bexpr(e.Y, env) + ")"
		case token.EQL, token.NEQ:
			var inner string
			if t.isFillRule(e.X) {
				k, ok := e.Y.(*ast.Ident)
				if !ok {
					return t.fail("fill rule compared with a non-constant")
				}
				inner = "(match fr with " + k.Name + " => true | _ => false end)"
			} else if deepSel(e.X) || deepSel(e.Y) {
				// comparison of deeper selector chains: an opaque boolean parameter
				nm := "eq_" + sanitize(t.text(e.X)) + "__" + sanitize(t.text(e.Y))
				t.inputs[nm] = "bool"
				inner = nm
			} else {
				inner = "(" + t.zexpr(e.X, env) + " =? " + t.zexpr(e.Y, env) + ")"
			}
			if e.Op == token.NEQ {
				return "(negb " + inner + ")"
			}
			return inner
		case token.LSS:
			return "(" + t.zexpr(e.X, env) + " <? " + t.zexpr(e.Y, env) + ")"
		case token.GTR:
			return "(" + t.zexpr(e.X, env) + " >? " + t.zexpr(e.Y, env) + ")"
		case token.LEQ:
			return "(" + t.zexpr(e.X, env) + " <=? " + t.zexpr(e.Y, env) + ")"
		case token.GEQ:
			return "(" + t.zexpr(e.X, env) + " >=? " + t.zexpr(e.Y, env) + ")"
		}
	}
	return t.fail("unsupported boolean expression %s", t.text(x))
}

// a selector chain with more than one dot (ae1.localMin.PolyType)
func deepSel(x ast.Expr) bool {
	s, ok := x.(*ast.SelectorExpr)
	if !ok {
		return false
	}
	_, inner := s.X.(*ast.SelectorExpr)
	return inner
}

func isIntish(x ast.Expr) bool {
	switch e := x.(type) {
	case *ast.BasicLit:
		return e.Kind == token.INT
	case *ast.UnaryExpr:
		return e.Op == token.SUB
	case *ast.BinaryExpr:
		return true
	case *ast.ParenExpr:
		return isIntish(e.X)
	}
	return false
}

func (t *fragTr) stmts(list []ast.Stmt, env fragEnv, k func(fragEnv) string) string {
	if t.err != "" {
		return "ERR"
	}
	if len(list) == 0 {
		return k(env)
	}
	rest := list[1:]
	cont := func(e fragEnv) string { return t.stmts(rest, e, k) }
	switch s := list[0].(type) {
	case *ast.AssignStmt:
		if len(s.Lhs) != len(s.Rhs) {
			return t.fail("unsupported assignment")
		}
		e2 := env.clone()
		vals := make([]string, len(s.Lhs))
		for i := range s.Lhs {
			key := lvalKey(s.Lhs[i])
			if key == "" {
				return t.fail("assignment to %s", t.text(s.Lhs[i]))
			}
			switch s.Tok {
			case token.ASSIGN, token.DEFINE:
				vals[i] = t.zexpr(s.Rhs[i], env)
			case token.ADD_ASSIGN:
				vals[i] = "(" + t.zexpr(s.Lhs[i], env) + " + " + t.zexpr(s.Rhs[i], env) + ")"
			case token.SUB_ASSIGN:
				vals[i] = "(" + t.zexpr(s.Lhs[i], env) + " - " + t.zexpr(s.Rhs[i], env) + ")"
			default:
				return t.fail("unsupported assignment operator")
			}
		}
		for i := range s.Lhs {
			e2[lvalKey(s.Lhs[i])] = vals[i]
		}
		return cont(e2)
	case *ast.IfStmt:
		if s.Init != nil {
			return t.fail("if with init statement")
		}
		c := t.bexpr(s.Cond, env)
		thenB := t.stmts(s.Body.List, env.clone(), cont)
		var elseB string
		switch el := s.Else.(type) {
		case nil:
			elseB = cont(env.clone())
		case *ast.BlockStmt:
			elseB = t.stmts(el.List, env.clone(), cont)
		case *ast.IfStmt:
			elseB = t.stmts([]ast.Stmt{el}, env.clone(), cont)
		}
		return "(if " + c + " then " + thenB + " else " + elseB + ")"
	}
	return t.fail("unsupported statement %T", list[0])
}

type fragSpec struct {
	name, fn, cond string
	targets        []string
}

func cmdFragments(r *RNG, n int, e *Emitter, args []string) {
	repo := "/repo"
	out := "/verif/coq/Gen/Windcount_gen.v"
	if len(args) > 0 {
		out = args[0]
	}
	fset := token.NewFileSet()
	src, err := os.ReadFile(repo + "/clipper_base.go")
	if err != nil {
		fmt.Println(err)
		os.Exit(1)
	}
	af, err := parser.ParseFile(fset, "clipper_base.go", src, 0)
	if err != nil {
		fmt.Println("parse error", err)
		os.Exit(1)
	}
	specs := []fragSpec{
		{"windcount_step", "setWindCountForClosedPathEdge", "ae2.windCount*ae2.windDx<0", []string{"ae.windCount"}},
		{"intersect_windcounts", "intersectEdges", "ae1.localMin.PolyType==ae2.localMin.PolyType", []string{"ae1.windCount", "ae2.windCount", "ae1.windCount2", "ae2.windCount2"}},
	}
	var sb strings.Builder
	sb.WriteString("(* GENERATED by `vh fragments` from /repo/clipper_base.go on every run. Do not edit. *)\n")
	sb.WriteString("From Coq Require Import ZArith Bool String.\nFrom Clip Require Import Base.Geom.\nOpen Scope Z_scope.\nOpen Scope bool_scope.\n\n")
	var found []string
	for _, sp := range specs {
		var fn *ast.FuncDecl
		for _, d := range af.Decls {
			if f, ok := d.(*ast.FuncDecl); ok && f.Name.Name == sp.fn && f.Body != nil {
				fn = f
			}
		}
		t := &fragTr{fset: fset, inputs: map[string]string{}}
		var frag *ast.IfStmt
		if fn != nil {
			if fn.Recv != nil && len(fn.Recv.List) == 1 && len(fn.Recv.List[0].Names) == 1 {
				t.recv = fn.Recv.List[0].Names[0].Name
			}
			ast.Inspect(fn, func(nd ast.Node) bool {
				if is, ok := nd.(*ast.IfStmt); ok && frag == nil && t.text(is.Cond) == sp.cond {
					frag = is
				}
				return frag == nil
			})
		}
		if frag == nil {
			fmt.Fprintf(&sb, "(* clipper_base.go:%s: the statement `if %s` was NOT FOUND *)\nDefinition gen_%s_missing : string := \"not found\"%%string.\n\n", sp.fn, sp.cond, sp.name)
			continue
		}
		term := t.stmts([]ast.Stmt{frag}, fragEnv{}, func(env fragEnv) string {
			var vals []string
			for _, tg := range sp.targets {
				v, ok := env[tg]
				if !ok { // not assigned on this path: the value on entry
					v = sanitize(tg)
					t.inputs[v] = "Z"
				}
				vals = append(vals, v)
			}
			return "(" + strings.Join(vals, ", ") + ")"
		})
		if t.err != "" {
			fmt.Fprintf(&sb, "(* clipper_base.go:%s: NOT TRANSLATABLE: %s *)\nDefinition gen_%s_untranslatable : string := \"%s\"%%string.\n\n", sp.fn, t.err, sp.name, strings.ReplaceAll(t.err, "\"", "'"))
			continue
		}
		var names []string
		for nm := range t.inputs {
			names = append(names, nm)
		}
		sort.Strings(names)
		var params []string
		for _, nm := range names {
			params = append(params, fmt.Sprintf("(%s : %s)", nm, t.inputs[nm]))
		}
		res := "Z"
		for i := 1; i < len(sp.targets); i++ {
			res += " * Z"
		}
		fmt.Fprintf(&sb, "(* clipper_base.go:%s, statement `if %s`; result: the values of %s afterwards *)\nDefinition gen_%s (fr : fillrule) %s : %s :=\n  %s.\n\n",
			sp.fn, sp.cond, strings.Join(sp.targets, ", "), sp.name, strings.Join(params, " "), res, term)
		found = append(found, sp.name)
	}
	os.MkdirAll(filepath.Dir(out), 0o755)
	if err := os.WriteFile(out, []byte(sb.String()), 0o644); err != nil {
		fmt.Println(err)
		os.Exit(1)
	}
	e.Case("fragments-0", "noop", map[string]any{"translated": found})
}
