package main

// splitmix64: one PRNG state per run; every random choice derives from it.
type RNG struct{ s uint64 }

// The initial state is a hash of the seed (the splitmix finaliser with other constants), NOT seed * increment:
// with the latter, the streams of seeds k and k+1 are the same stream shifted by one draw.
func NewRNG(seed uint64) *RNG {
	z := seed + 0x1234567
	z = (z ^ (z >> 33)) * 0xFF51AFD7ED558CCD
	z = (z ^ (z >> 33)) * 0xC4CEB9FE1A85EC53
	z ^= z >> 33
	return &RNG{s: z}
}

func (r *RNG) U64() uint64 {
	r.s += 0x9E3779B97F4A7C15
	z := r.s
	z = (z ^ (z >> 30)) * 0xBF58476D1CE4E5B9
	z = (z ^ (z >> 27)) * 0x94D049BB133111EB
	return z ^ (z >> 31)
}

// Intn returns a value in [0,n)
func (r *RNG) Intn(n int) int {
	if n <= 0 {
		return 0
	}
	return int(r.U64() % uint64(n))
}

// Range returns a value in [lo,hi]
func (r *RNG) Range(lo, hi int64) int64 {
	if hi <= lo {
		return lo
	}
	return lo + int64(r.U64()%uint64(hi-lo+1))
}

func (r *RNG) Bool() bool { return r.U64()&1 == 1 }

func (r *RNG) Float() float64 { return float64(r.U64()>>11) / float64(1<<53) }
