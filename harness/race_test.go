package main

// C18: concurrent use of independent calls/objects on shared read-only inputs.
// Run with: go test -race -tags verif -run TestConcurrent -count=1 .

import (
	"fmt"
	"os"
	"reflect"
	"strconv"
	"sync"
	"testing"

	clip "github.com/bolom009/go-clipper2"
)

type opFn struct {
	name string
	f    func(s, c clip.Paths64, sd, cd clip.PathsD) any
}

var raceOps = []opFn{
	{"BooleanOpPaths64/Union", func(s, c clip.Paths64, sd, cd clip.PathsD) any {
		return clip.BooleanOpPaths64(clip.Union, s, c, clip.NonZero)
	}},
	{"BooleanOpPaths64/Xor", func(s, c clip.Paths64, sd, cd clip.PathsD) any {
		return clip.BooleanOpPaths64(clip.Xor, s, c, clip.EvenOdd)
	}},
	{"Clipper64 object", func(s, c clip.Paths64, sd, cd clip.PathsD) any {
		cl := clip.NewClipper64()
		cl.AddPaths(s, clip.Subject, false)
		cl.AddPaths(c, clip.Clip, false)
		var a, b clip.Paths64
		cl.Execute(clip.Intersection, clip.NonZero, &a)
		cl.Execute(clip.Difference, clip.Positive, &b)
		return []clip.Paths64{a, b}
	}},
	{"BooleanOpPolyTree64", func(s, c clip.Paths64, sd, cd clip.PathsD) any {
		return treeSig(clip.BooleanOpPolyTree64(clip.Union, s, c, clip.NonZero).PolyPathBase)
	}},
	{"BooleanOpPathsD", func(s, c clip.Paths64, sd, cd clip.PathsD) any {
		return clip.BooleanOpPathsD(clip.Difference, sd, cd, clip.NonZero, 3)
	}},
	{"InflatePaths64/round", func(s, c clip.Paths64, sd, cd clip.PathsD) any {
		return clip.InflatePaths64(s, 3.5, clip.Round, clip.Polygon)
	}},
	{"InflatePaths64/round, other delta and arc tolerance", func(s, c clip.Paths64, sd, cd clip.PathsD) any {
		return clip.InflatePaths64(s, 7.25, clip.Round, clip.Polygon, clip.WithArcTolerance(0.5))
	}},
	{"InflatePathsD/round ends", func(s, c clip.Paths64, sd, cd clip.PathsD) any {
		return clip.InflatePathsD(cd, 2.5, clip.Round, clip.RoundET, clip.WithArcTolerance(0.125))
	}},
	{"ClipperOffset object/round, two groups", func(s, c clip.Paths64, sd, cd clip.PathsD) any {
		co := clip.NewClipperOffset(2, 1.5, false, false)
		co.AddPaths(s, clip.Round, clip.Polygon)
		co.AddPaths(c, clip.Round, clip.RoundET)
		var sol clip.Paths64
		co.Execute64(4.75, &sol)
		return sol
	}},
	{"InflatePaths64/open", func(s, c clip.Paths64, sd, cd clip.PathsD) any {
		return clip.InflatePaths64(c, 2, clip.Square, clip.Butt)
	}},
	{"ClipperOffset object", func(s, c clip.Paths64, sd, cd clip.PathsD) any {
		co := clip.NewClipperOffset(2, 0.25, false, false)
		co.AddPaths(s, clip.Miter, clip.Polygon)
		var sol clip.Paths64
		co.Execute64(-1.5, &sol)
		return sol
	}},
	{"InflatePathsD", func(s, c clip.Paths64, sd, cd clip.PathsD) any {
		return clip.InflatePathsD(sd, 1.25, clip.Bevel, clip.Polygon)
	}},
	{"MinkowskiSum64", func(s, c clip.Paths64, sd, cd clip.PathsD) any { return clip.MinkowskiSum64(c[0], s[0], true) }},
	{"MinkowskiDiff64 (same pattern slice as MinkowskiSum64)", func(s, c clip.Paths64, sd, cd clip.PathsD) any { return clip.MinkowskiDiff64(c[0], s[0], false) }},
	{"MinkowskiSum64 (pattern also used by Diff64), open", func(s, c clip.Paths64, sd, cd clip.PathsD) any {
		return []any{clip.MinkowskiSum64(c[0], s[len(s)-1], false), clip.Area64(c[0])}
	}},
	{"MinkowskiDiffD", func(s, c clip.Paths64, sd, cd clip.PathsD) any { return clip.MinkowskiDiffD(cd[0], sd[0], false) }},
	{"RectClipPaths64", func(s, c clip.Paths64, sd, cd clip.PathsD) any {
		return clip.RectClipPaths64(clip.NewRect64(3, 3, 40, 30), s)
	}},
	{"RectClipLinesPaths64", func(s, c clip.Paths64, sd, cd clip.PathsD) any {
		return clip.RectClipLinesPaths64(clip.NewRect64(3, 3, 40, 30), s)
	}},
	{"RectClipPathsD, paths inside the rectangle", func(s, c clip.Paths64, sd, cd clip.PathsD) any {
		return clip.RectClipPathsD(clip.NewRectD(-100, -100, 200, 200), sd, 2)
	}},
	{"RectClipPathsD, other input, paths inside", func(s, c clip.Paths64, sd, cd clip.PathsD) any {
		return clip.RectClipPathsD(clip.NewRectD(-100, -100, 200, 200), cd, 2)
	}},
	{"RectClipLinesPathsD", func(s, c clip.Paths64, sd, cd clip.PathsD) any {
		return clip.RectClipLinesPathsD(clip.NewRectD(2, 2, 20, 15), cd, 1)
	}},
	{"RectClip64 object", func(s, c clip.Paths64, sd, cd clip.PathsD) any {
		rc := clip.NewRectClip64(clip.NewRect64(5, 5, 25, 45))
		return []clip.Paths64{rc.Execute(s), rc.Execute(c)}
	}},
	{"TrimCollinear64 (may alias)", func(s, c clip.Paths64, sd, cd clip.PathsD) any {
		return []clip.Path64{clip.TrimCollinear64(s[0], false), clip.TrimCollinear64(s[0][:2], true)}
	}},
	{"SimplifyPaths64 (may alias)", func(s, c clip.Paths64, sd, cd clip.PathsD) any {
		return []any{clip.SimplifyPaths64(s, 1.5, true), clip.SimplifyPath64(s[0][:3], 1, true)}
	}},
	{"ScalePath64 (may alias)", func(s, c clip.Paths64, sd, cd clip.PathsD) any {
		return []any{clip.ScalePath64(s[0], 1), clip.ScalePath64(s[0], 2.5), clip.ScalePathD(sd[0], 1)}
	}},
	{"measures", func(s, c clip.Paths64, sd, cd clip.PathsD) any {
		return []any{clip.Area64(s[0]), clip.AreaPaths64(c), clip.IsPositive64(s[0]), clip.GetBounds64(s[0]), clip.PointInPolygon(clip.Point64{X: 10, Y: 10}, s[0]), clip.Path2ContainsPath1(c[0], s[0])}
	}},
}

func TestConcurrent(t *testing.T) {
	seed := uint64(1)
	if v, err := strconv.ParseUint(os.Getenv("VERIF_SEED"), 10, 64); err == nil {
		seed = v
	}
	rounds := 3
	if v, err := strconv.Atoi(os.Getenv("VERIF_RACE_ROUNDS")); err == nil {
		rounds = v
	}
	r := NewRNG(seed)
	for round := 0; round < rounds; round++ {
		var info GenInfo
		s := genPathSetN(r, 50, 3, 8, &info)
		c := genPathSetN(r, 50, 2, 8, &info)
		sd, cd := toD(s, 0.5), toD(c, 0.5)
		s0, c0 := clonePaths(s), clonePaths(c)
		want := make([]any, len(raceOps))
		for i, op := range raceOps {
			want[i] = op.f(s, c, sd, cd)
		}
		const G = 32
		var wg sync.WaitGroup
		errs := make(chan string, G*len(raceOps))
		for g := 0; g < G; g++ {
			wg.Add(1)
			go func(g int) {
				defer wg.Done()
				for k := range raceOps {
					i := (k + g) % len(raceOps)
					got := raceOps[i].f(s, c, sd, cd)
					if !reflect.DeepEqual(got, want[i]) {
						errs <- fmt.Sprintf("round %d goroutine %d: %s returned a different result under concurrency", round, g, raceOps[i].name)
					}
				}
			}(g)
		}
		wg.Wait()
		close(errs)
		for e := range errs {
			t.Error(e)
		}
		if !pathsEqual(s, s0) || !pathsEqual(c, c0) {
			t.Errorf("round %d: shared input modified", round)
		}
	}
	fmt.Printf("CONCURRENT-OK rounds=%d goroutines=32 ops=%d\n", rounds, len(raceOps))
}
