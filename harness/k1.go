package main

import (
	"fmt"
	"strings"

	clip "github.com/bolom009/go-clipper2"
)

func init() {
	commands["c15"] = cmdC15
}

func pathJSON(p clip.Path64) [][2]int64 {
	out := make([][2]int64, len(p))
	for i, q := range p {
		out[i] = [2]int64{q.X, q.Y}
	}
	return out
}

func encPathStr(p clip.Path64) string {
	var sb strings.Builder
	encPath(&sb, p)
	return sb.String()
}

// small-coordinate paths rich in exact collinearity, spikes, duplicates, unit differences
func genTrimPath(r *RNG) clip.Path64 {
	if r.Intn(12) == 0 {
		// huge coordinate differences (2^33..2^44): exactly collinear runs P0 + k*v and corners whose exact cross
		// product is a multiple of 2^64 or off it by a little, so that the 128-bit product comparison is exercised
		vx := (int64(1) << uint(33+r.Intn(8))) + r.Range(-99999, 99999)
		vy := (int64(1) << uint(20+r.Intn(12))) + r.Range(-999, 999)
		if r.Bool() {
			vy = -vy
		}
		p0 := clip.Point64{X: r.Range(-1000, 1000), Y: r.Range(-1000, 1000)}
		k1, k2 := r.Range(1, 4), r.Range(5, 9)
		p := clip.Path64{p0, {X: p0.X + k1*vx, Y: p0.Y + k1*vy}, {X: p0.X + k2*vx, Y: p0.Y + k2*vy}}
		// a genuine corner far away, so that the closed path has area
		p = append(p, clip.Point64{X: p0.X + k2*vx + r.Range(-5, 5), Y: p0.Y + k2*vy + (int64(1) << 34) + r.Range(0, 99)})
		if r.Intn(3) == 0 { // knock one run vertex off the line by a few units
			p[1].Y += r.Range(-3, 3)
		}
		if r.Intn(3) == 0 { // differences (m1*2^32, a), (m2*2^32, b): cross products near multiples of 2^64
			m1, m2 := r.Range(2, 2000), r.Range(2, 2000)
			a, b := r.Range(1<<30, 1<<32), r.Range(1<<30, 1<<32)
			p = clip.Path64{p0, {X: p0.X + m1<<32, Y: p0.Y + a}, {X: p0.X + (m1+m2)<<32, Y: p0.Y + a + b}, {X: p0.X, Y: p0.Y + (int64(1) << 40)}}
		}
		return p
	}
	if r.Intn(12) == 0 {
		// within 2^29: a quadrilateral with a vertex a few units off the line through its far-apart neighbours (the
		// products compared by the collinearity test exceed 2^54 with every factor below 2^31 and differ by a few units)
		lim := int64(1) << 29
		p1 := clip.Point64{X: -lim + r.Range(0, 5), Y: -lim + r.Range(0, 5)}
		vx := (int64(1) << 27) - r.Range(40, 4000)
		vy := vx + r.Range(-30, 30)
		k, m := r.Range(1, 3), r.Range(4, 7)
		d := r.Range(-4, 4)
		p2 := clip.Point64{X: p1.X + k*vx, Y: p1.Y + k*vy}
		p3 := clip.Point64{X: p1.X + m*vx + d, Y: p1.Y + m*vy + d}
		p4 := clip.Point64{X: p1.X + r.Range(1000, 1<<27), Y: p3.Y - r.Range(0, 1<<20)}
		p := clip.Path64{p1, p2, p3, p4}
		if r.Bool() {
			p = clip.Path64{p3, p2, p1, p4}
		}
		k0 := r.Intn(4)
		return append(append(clip.Path64{}, p[k0:]...), p[:k0]...)
	}
	switch r.Intn(6) {
	case 0: // tiny grid, any shape
		n := r.Intn(8)
		G := int64(2 + r.Intn(3))
		p := make(clip.Path64, n)
		for i := range p {
			p[i] = clip.Point64{X: r.Range(0, G), Y: r.Range(0, G)}
		}
		return p
	case 1: // polygon with inserted collinear midpoints, duplicates and spikes
		base := genPolyN(r, "convex", int64(8+r.Intn(40)), 6)
		var p clip.Path64
		for i, a := range base {
			b := base[(i+1)%len(base)]
			p = append(p, a)
			switch r.Intn(5) {
			case 0:
				p = append(p, clip.Point64{X: (a.X + b.X) / 2 * 1, Y: (a.Y + b.Y) / 2})
			case 1:
				p = append(p, a)
			case 2:
				k := r.Range(2, 4)
				p = append(p, clip.Point64{X: a.X + (b.X-a.X)*k, Y: a.Y + (b.Y-a.Y)*k}, a) // out-and-back spike along the edge
			case 3:
				// exact multiples: points a + t(b-a)/g for the gcd-free direction
				p = append(p, clip.Point64{X: 2*b.X - a.X, Y: 2*b.Y - a.Y})
			}
		}
		if r.Bool() {
			k := r.Intn(len(p))
			p = append(append(clip.Path64{}, p[k:]...), p[:k]...)
		}
		return p
	case 2: // axis-parallel staircase with runs of collinear points across index 0
		n := 3 + r.Intn(6)
		p := clip.Path64{}
		x, y := int64(0), int64(0)
		for i := 0; i < n; i++ {
			if i%2 == 0 {
				x += r.Range(-3, 3)
			} else {
				y += r.Range(-3, 3)
			}
			p = append(p, clip.Point64{X: x, Y: y})
			if r.Intn(3) == 0 {
				p = append(p, clip.Point64{X: x, Y: y})
			}
		}
		return p
	case 3: // large coordinates, unit differences
		base := int64(1) << uint(20+r.Intn(9))
		n := 3 + r.Intn(5)
		p := make(clip.Path64, n)
		for i := range p {
			p[i] = clip.Point64{X: base + r.Range(-2, 2), Y: -base + r.Range(-2, 2)}
		}
		return p
	case 4: // all on one line
		n := r.Intn(7)
		dx, dy := r.Range(-3, 3), r.Range(-3, 3)
		p := make(clip.Path64, n)
		for i := range p {
			t := r.Range(-4, 4)
			p[i] = clip.Point64{X: 5 + t*dx, Y: 7 + t*dy}
		}
		return p
	default:
		return genPoly(r, polyKinds[r.Intn(len(polyKinds))], grids[r.Intn(5)])
	}
}

// all paths of n points on the G x G lattice, by index
func latticePath(idx int, n int, G int) clip.Path64 {
	p := make(clip.Path64, n)
	for i := 0; i < n; i++ {
		c := idx % (G * G)
		idx /= G * G
		p[i] = clip.Point64{X: int64(c % G), Y: int64(c / G)}
	}
	return p
}

func cmdC15(r *RNG, n int, e *Emitter, args []string) {
	emit := func(id string, p clip.Path64, isOpen bool, kind string) {
		p0 := append(clip.Path64{}, p...)
		var out, out2 clip.Path64
		perr := safeCall(func() {
			out = clip.TrimCollinear64(p, isOpen)
			out2 = clip.TrimCollinear64(out, isOpen)
		})
		meta := map[string]any{"path": pathJSON(p0), "open": isOpen, "kind": kind}
		if perr != "" {
			meta["panic"], meta["kind"] = perr, "panic"
			e.Fail(meta)
			return
		}
		if !pathsEqual(clip.Paths64{p}, clip.Paths64{p0}) {
			meta["kind"] = "input-mutated"
			e.Fail(meta)
			return
		}
		meta["go"], meta["go_twice"] = pathJSON(out), pathJSON(out2)
		o := 0
		if isOpen {
			o = 1
		}
		e.Case(id, fmt.Sprintf("trim %d%s", o, encPathStr(p0)), meta)
		e.Count("kind=" + kind)
		e.Count(fmt.Sprintf("open=%v", isOpen))
		e.Count(fmt.Sprintf("removed<=%d", bucket(len(p0)-len(out))))
		if len(out) != len(p0) && len(out) > 0 {
			e.Nontrivial(fmt.Sprint(p0, isOpen))
		}
	}
	// exhaustive smallest scope: all paths of <= 4 points on the 3x3 lattice (closed and open)
	if len(args) > 0 && args[0] == "exhaustive" {
		k := 0
		for np := 0; np <= 4; np++ {
			tot := 1
			for i := 0; i < np; i++ {
				tot *= 9
			}
			for idx := 0; idx < tot; idx++ {
				p := latticePath(idx, np, 3)
				emit(fmt.Sprintf("c15-x%d", k), p, false, "exhaustive3x3")
				emit(fmt.Sprintf("c15-y%d", k), p, true, "exhaustive3x3")
				k++
			}
		}
	}
	for i := 0; i < n; i++ {
		p := genTrimPath(r)
		emit(fmt.Sprintf("c15-%d", i), p, r.Intn(3) == 0, "random")
	}
}
