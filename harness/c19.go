package main

import (
	"fmt"

	clip "github.com/bolom009/go-clipper2"
)

func init() { commands["c19"] = cmdC19 }

// C19: the four boolean operations on one (S, C, fill rule) are mutually
// consistent.  Pointwise identities are certified by the region checker on the
// five outputs; exact areas and the wrapper clause are emitted as data for the
// driver (exact rational arithmetic there).
func cmdC19(r *RNG, n int, e *Emitter, args []string) {
	if len(args) > 0 {
		for i, c := range loadCorpusC01(args[0]) {
			emitC19(e, fmt.Sprintf("corpus%d", i), pathsFromJSON(c.Subject), pathsFromJSON(c.Clip), clip.FillRule(c.Fr), GenInfo{}, true)
		}
	}
	for i := 0; i < n; i++ {
		if i%10 == 9 {
			// large inputs: area identities only
			s, c := genLargePair(r)
			emitC19(e, fmt.Sprint(i), s, c, clip.FillRule(r.Intn(4)), GenInfo{Kinds: []string{"large"}}, false)
			continue
		}
		s, c, info := genPair(r)
		emitC19(e, fmt.Sprint(i), s, c, clip.FillRule(r.Intn(4)), info, true)
	}
}

// many-vertex inputs: noisy rings (thousands of vertices)
func genLargePair(r *RNG) (clip.Paths64, clip.Paths64) {
	mk := func(cx, cy, rad int64, n int) clip.Path64 {
		p := make(clip.Path64, 0, n)
		// walk around a square-ish ring with jitter
		for k := 0; k < n; k++ {
			t := int64(k) * 4 * rad / int64(n)
			var x, y int64
			switch {
			case t < rad:
				x, y = -rad/2+t, -rad/2
			case t < 2*rad:
				x, y = rad/2, -rad/2+(t-rad)
			case t < 3*rad:
				x, y = rad/2-(t-2*rad), rad/2
			default:
				x, y = -rad/2, rad/2-(t-3*rad)
			}
			jit := rad / 50
			p = append(p, clip.Point64{X: cx + x + r.Range(-jit, jit), Y: cy + y + r.Range(-jit, jit)})
		}
		return p
	}
	n := 500 + r.Intn(1500)
	rad := int64(100000)
	s := clip.Paths64{mk(0, 0, rad, n), mk(rad/3, rad/4, rad/2, n/2)}
	c := clip.Paths64{mk(rad/2, rad/3, rad, n)}
	return s, c
}

func emitC19(e *Emitter, idx string, s, c clip.Paths64, fr clip.FillRule, info GenInfo, pointwise bool) {
	clearEvents()
	s0, c0 := clonePaths(s), clonePaths(c)
	var u, in, d, x, d2, sr, cr, uw, un, ue clip.Paths64
	perr := safeCall(func() {
		u = clip.BooleanOpPaths64(clip.Union, s, c, fr)
		in = clip.BooleanOpPaths64(clip.Intersection, s, c, fr)
		d = clip.BooleanOpPaths64(clip.Difference, s, c, fr)
		x = clip.BooleanOpPaths64(clip.Xor, s, c, fr)
		d2 = clip.BooleanOpPaths64(clip.Difference, c, s, fr)
		sr = clip.UnionPaths64(s, fr)
		cr = clip.UnionPaths64(c, fr)
		uw = clip.UnionPaths64(s, fr)
		un = clip.BooleanOpPaths64(clip.Union, s, nil, fr)
		ue = clip.BooleanOpPaths64(clip.Union, s, clip.Paths64{}, fr)
	})
	meta := map[string]any{"subject": pathsJSON(s0), "clip": pathsJSON(c0), "fr": int(fr), "gen": info, "ct": 0, "clip_nil": false}
	if perr != "" {
		meta["panic"] = perr
		meta["kind"] = "panic"
		e.Fail(meta)
		return
	}
	if !pathsEqual(uw, un) || !pathsEqual(un, ue) {
		meta["kind"] = "wrapper-mismatch: UnionPaths64(S) vs BooleanOpPaths64(Union,S,nil) vs (Union,S,{})"
		e.Fail(meta)
		return
	}
	meta["U"], meta["I"], meta["D"], meta["X"], meta["D2"] = pathsJSON(u), pathsJSON(in), pathsJSON(d), pathsJSON(x), pathsJSON(d2)
	meta["SR"], meta["CR"] = pathsJSON(sr), pathsJSON(cr)
	meta["pointwise"] = pointwise
	nv := 0
	for _, p := range s {
		nv += len(p)
	}
	for _, p := range c {
		nv += len(p)
	}
	e.Count(fmt.Sprintf("fr=%d", fr))
	e.Count(fmt.Sprintf("input_vertices<=%d", bucket(nv)))
	if pointwise {
		line, nslabs := genLine(fmt.Sprintf("four %d", int(fr)), "4", []clip.Paths64{u, in, d, x, d2}, append(clonePaths(s), c...), nil)
		e.Case("c19-"+idx, line, meta)
		if nslabs > 2 && len(u) > 0 {
			e.Nontrivial(line)
		}
	} else {
		// area-only case: a trivial line so the driver sees the id
		e.Case("c19-"+idx, "noop", meta)
		e.Nontrivial("large" + idx)
	}
}
