package main

import (
	"fmt"
	"strings"

	clip "github.com/bolom009/go-clipper2"
)

func init() { commands["c11"] = cmdC11 }

func genPolyline(r *RNG, G int64) clip.Path64 {
	n := 2 + r.Intn(6)
	if r.Intn(4) == 0 {
		n = 2
	}
	p := make(clip.Path64, n)
	for i := range p {
		p[i] = clip.Point64{X: r.Range(-G/3, G+G/3), Y: r.Range(-G/3, G+G/3)}
	}
	return p
}

// C11: rectangle clipping of open polylines.
func cmdC11(r *RNG, n int, e *Emitter, args []string) {
	for i := 0; i < n; i++ {
		G := []int64{10, 20, 50, 100, 1000}[r.Intn(5)]
		l, rr := r.Range(0, G/2), r.Range(G/2+1, G)
		t, b := r.Range(0, G/2), r.Range(G/2+1, G)
		nl := 1 + r.Intn(3)
		lines := make(clip.Paths64, nl)
		for k := range lines {
			lines[k] = genPolyline(r, G)
			// special shapes: along a side, through a corner, touching a vertex
			switch r.Intn(8) {
			case 0:
				lines[k][0] = clip.Point64{X: l, Y: r.Range(-G/3, G+G/3)}
				lines[k][1] = clip.Point64{X: l, Y: r.Range(-G/3, G+G/3)}
			case 1:
				lines[k][0] = clip.Point64{X: l - 5, Y: t - 5}
				lines[k][1] = clip.Point64{X: rr + 5, Y: t - 5 + (rr + 10 - l)}
			case 2:
				lines[k][len(lines[k])-1] = clip.Point64{X: rr, Y: b}
			}
		}
		if r.Intn(5) == 0 {
			// the same configuration far from the origin (the clipper works with coordinate differences: nothing may change)
			mags := []int64{1 << 31, 1 << 40, 1<<53 + 1, 1 << 58, 1<<60 + 100}
			ox, oy := mags[r.Intn(len(mags))]+r.Range(-1000, 1000), mags[r.Intn(len(mags))]+r.Range(-1000, 1000)
			if r.Bool() {
				ox = -ox
			}
			if r.Bool() {
				oy = -oy
			}
			l, rr, t, b = l+ox, rr+ox, t+oy, b+oy
			for k := range lines {
				for j := range lines[k] {
					lines[k][j].X += ox
					lines[k][j].Y += oy
				}
			}
			e.Count("far-from-origin")
		}
		rect := clip.NewRect64(l, t, rr, b)
		in0 := clonePaths(lines)
		var out clip.Paths64
		var per []clip.Paths64
		perr := safeCall(func() {
			out = clip.RectClipLinesPaths64(rect, lines)
			for _, p := range lines {
				per = append(per, clip.RectClipLinesPath64(rect, p))
			}
		})
		meta := map[string]any{"lines": pathsJSON(in0), "rect": []int64{l, t, rr, b}}
		if perr != "" {
			meta["panic"], meta["kind"] = perr, "panic"
			e.Fail(meta)
			continue
		}
		meta["out"] = pathsJSON(out)
		if !pathsEqual(lines, in0) {
			meta["kind"] = "input-mutated"
			e.Fail(meta)
			continue
		}
		var cat clip.Paths64
		for _, ps := range per {
			cat = append(cat, ps...)
		}
		if !pathsEqual(cat, out) {
			meta["kind"] = "RectClipLinesPaths64 differs from the concatenation of RectClipLinesPath64 results"
			e.Fail(meta)
			continue
		}
		// lines are never closed up: an output polyline may return to its first vertex only where the input does
		var sb strings.Builder
		fmt.Fprintf(&sb, "rectlines %d %d %d %d", l, t, rr, b)
		encPaths(&sb, in0)
		encPaths(&sb, out)
		e.Case(fmt.Sprintf("c11-%d", i), sb.String(), meta)
		e.Count(fmt.Sprintf("grid=%d", G))
		e.Count(fmt.Sprintf("out_paths<=%d", bucket(len(out))))
		if len(out) > 0 {
			e.Nontrivial(sb.String())
		}
	}
}
