package main

import (
	"fmt"
	"sort"

	clip "github.com/bolom009/go-clipper2"
)

func init() { commands["c04"] = cmdC04 }

type treeNode struct {
	Poly   [][2]int64 `json:"poly"`
	Parent int        `json:"parent"` // index into the node list, -1 = root
	Level  int        `json:"level"`
	IsHole bool       `json:"is_hole"`
}

func walkTree(t *clip.PolyPathBase, parent int, out *[]treeNode) {
	for _, ch := range t.GetChildren() {
		*out = append(*out, treeNode{Poly: pathJSON(ch.Polygon()), Parent: parent, Level: ch.Level(), IsHole: ch.IsHole()})
		walkTree(ch, len(*out)-1, out)
	}
}

// nested rings: islands in holes in islands, possibly touching
func genNested(r *RNG, G int64) clip.Paths64 {
	depth := 2 + r.Intn(5)
	var ps clip.Paths64
	cx, cy := G/2, G/2
	for d := 0; d < depth; d++ {
		h := G/2 - int64(d)*G/(2*int64(depth)+1)
		if h < 2 {
			break
		}
		jx, jy := r.Range(-1, 1), r.Range(-1, 1)
		p := clip.Path64{{X: cx - h + jx, Y: cy - h + jy}, {X: cx + h + jx, Y: cy - h + jy}, {X: cx + h + jx, Y: cy + h + jy}, {X: cx - h + jx, Y: cy + h + jy}}
		if r.Intn(3) == 0 {
			p = clip.ReversePath(p)
		}
		ps = append(ps, p)
		if r.Intn(3) == 0 { // a second island at this level, possibly touching
			w := h / 3
			if w >= 1 {
				ox := cx - h + w + r.Range(0, 2)
				ps = append(ps, clip.Path64{{X: ox - w, Y: cy - w}, {X: ox + w, Y: cy - w}, {X: ox + w, Y: cy + w}, {X: ox - w, Y: cy + w}})
			}
		}
	}
	return ps
}

func cmdC04(r *RNG, n int, e *Emitter, args []string) {
	for i := 0; i < n; i++ {
		takeDiscards()
		G := []int64{12, 20, 40, 100, 400}[r.Intn(5)]
		var info GenInfo
		info.Grid = G
		var s, c clip.Paths64
		switch r.Intn(3) {
		case 0:
			s = genNested(r, G)
			c = genPathSetN(r, G, 1, 6, &info)
			info.Kinds = append(info.Kinds, "nested")
		case 1:
			s = genNested(r, G)
			c = genNested(r, G-G/5)
			info.Kinds = append(info.Kinds, "nested-both")
		default:
			s = genPathSetN(r, G, 3, 7, &info)
			c = genPathSetN(r, G, 2, 7, &info)
		}
		ct := clip.ClipType(1 + r.Intn(4))
		fr := clip.FillRule(r.Intn(4))
		if r.Intn(3) == 0 {
			fr = clip.EvenOdd
		}
		var flat clip.Paths64
		var nodes []treeNode
		api := "BooleanOpPolyTree64"
		perr := safeCall(func() {
			flat = clip.BooleanOpPaths64(ct, s, c, fr)
			if r.Bool() {
				walkTree(clip.BooleanOpPolyTree64(ct, s, c, fr).PolyPathBase, -1, &nodes)
			} else {
				api = "Clipper64.ExecutePolyTree64"
				cl := clip.NewClipper64()
				cl.AddPaths(s, clip.Subject, false)
				cl.AddPaths(c, clip.Clip, false)
				t := clip.NewPolyTree64()
				var od clip.PathsD
				cl.ExecutePolyTree64(ct, fr, t, &od)
				walkTree(t.PolyPathBase, -1, &nodes)
			}
		})
		meta := map[string]any{"subject": pathsJSON(s), "clip": pathsJSON(c), "clip_nil": false, "ct": int(ct), "fr": int(fr), "gen": info, "api": api}
		if perr != "" {
			meta["panic"], meta["kind"] = perr, "panic"
			e.Fail(meta)
			continue
		}
		meta["flat"], meta["nodes"] = pathsJSON(flat), nodes
		// (a) same polygons, each exactly once (as cyclic vertex sequences)
		canon := func(p [][2]int64) string {
			if len(p) == 0 {
				return ""
			}
			k := 0
			for j := range p {
				if p[j][0] < p[k][0] || (p[j][0] == p[k][0] && p[j][1] < p[k][1]) {
					k = j
				}
			}
			return fmt.Sprint(append(append([][2]int64{}, p[k:]...), p[:k]...))
		}
		var a, b []string
		for _, p := range flat {
			a = append(a, canon(pathJSON(p)))
		}
		for _, nd := range nodes {
			b = append(b, canon(nd.Poly))
		}
		sort.Strings(a)
		sort.Strings(b)
		if fmt.Sprint(a) != fmt.Sprint(b) {
			meta["kind"] = "the polygons stored in the PolyTree are not the closed paths of the flat result"
			e.Fail(meta)
			continue
		}
		// level / IsHole consistency of the node API
		bad := ""
		maxLevel := 0
		for _, nd := range nodes {
			pl := 0
			if nd.Parent >= 0 {
				pl = nodes[nd.Parent].Level
			}
			if nd.Level != pl+1 {
				bad = "Level() is not parent level + 1"
			}
			if nd.IsHole != (nd.Level%2 == 0) {
				bad = "IsHole() does not alternate with the nesting level"
			}
			maxLevel = max(maxLevel, nd.Level)
		}
		if bad != "" {
			meta["kind"] = bad
			e.Fail(meta)
			continue
		}
		e.Count(fmt.Sprintf("nodes<=%d", bucket(len(nodes))))
		e.Count(fmt.Sprintf("depth=%d", maxLevel))
		e.Case(fmt.Sprintf("c04-%d", i), "noop", meta)
		if maxLevel >= 2 {
			e.Nontrivial(fmt.Sprint(i))
		}
		if len(nodes) > 14 {
			continue
		}
		// (b) every node inside its parent; (c) siblings disjoint
		for k, nd := range nodes {
			pk := pathsFromJSON([][][2]int64{nd.Poly})
			if nd.Parent >= 0 {
				pp := pathsFromJSON([][][2]int64{nodes[nd.Parent].Poly})
				line, _ := genLine("imp", "4", []clip.Paths64{pk, pp}, append(clonePaths(pk), pp...), nil)
				e.Case(fmt.Sprintf("c04-%d.p%d", i, k), line, map[string]any{"subject": meta["subject"], "clip": meta["clip"], "ct": int(ct), "fr": int(fr), "clip_nil": false, "what": "parent", "node": nd.Poly, "other": nodes[nd.Parent].Poly, "nodes": nodes})
			}
			for k2 := k + 1; k2 < len(nodes); k2++ {
				if nodes[k2].Parent != nd.Parent {
					continue
				}
				p2 := pathsFromJSON([][][2]int64{nodes[k2].Poly})
				line, _ := genLine("disj", "4", []clip.Paths64{pk, p2}, append(clonePaths(pk), p2...), nil)
				e.Case(fmt.Sprintf("c04-%d.s%d.%d", i, k, k2), line, map[string]any{"subject": meta["subject"], "clip": meta["clip"], "ct": int(ct), "fr": int(fr), "clip_nil": false, "what": "sibling", "node": nd.Poly, "other": nodes[k2].Poly, "nodes": nodes})
			}
		}
	}
}
