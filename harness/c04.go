package main

import (
	"fmt"
	"sort"

	clip "github.com/bolom009/go-clipper2"
)

func init() { commands["c04"] = cmdC04 }

type treeNode struct {
	Poly   [][2]int64 `json:"poly"`
	Parent int        `json:"parent"` // index into the node list, -1 = root
	Level  int        `json:"level"`
	IsHole bool       `json:"is_hole"`
}

func walkTree(t *clip.PolyPathBase, parent int, out *[]treeNode) {
	for _, ch := range t.GetChildren() {
		*out = append(*out, treeNode{Poly: pathJSON(ch.Polygon()), Parent: parent, Level: ch.Level(), IsHole: ch.IsHole()})
		walkTree(ch, len(*out)-1, out)
	}
}

// nested rings: islands in holes in islands, possibly touching
func genNested(r *RNG, G int64) clip.Paths64 {
	depth := 2 + r.Intn(5)
	var ps clip.Paths64
	cx, cy := G/2, G/2
	for d := 0; d < depth; d++ {
		h := G/2 - int64(d)*G/(2*int64(depth)+1)
		if h < 2 {
			break
		}
		jx, jy := r.Range(-1, 1), r.Range(-1, 1)
		p := clip.Path64{{X: cx - h + jx, Y: cy - h + jy}, {X: cx + h + jx, Y: cy - h + jy}, {X: cx + h + jx, Y: cy + h + jy}, {X: cx - h + jx, Y: cy + h + jy}}
		if r.Intn(3) == 0 {
			p = clip.ReversePath(p)
		}
		ps = append(ps, p)
		if r.Intn(3) == 0 { // a second island at this level, possibly touching
			w := h / 3
			if w >= 1 {
				ox := cx - h + w + r.Range(0, 2)
				ps = append(ps, clip.Path64{{X: ox - w, Y: cy - w}, {X: ox + w, Y: cy - w}, {X: ox + w, Y: cy + w}, {X: ox - w, Y: cy + w}})
			}
		}
	}
	return ps
}

// axis-aligned rectangles on a coarse lattice: many shared horizontal edge pieces, so that horizontal
// joins pinch rings into siblings, with holes and islands next to them
func genRectSoup(r *RNG, G int64, n int) clip.Paths64 {
	step := G / 8
	if step < 1 {
		step = 1
	}
	var ps clip.Paths64
	for k := 0; k < n; k++ {
		x0, y0 := r.Range(0, 6)*step, r.Range(0, 6)*step
		w, h := r.Range(1, 5)*step, r.Range(1, 5)*step
		p := clip.Path64{{X: x0, Y: y0}, {X: x0 + w, Y: y0}, {X: x0 + w, Y: y0 + h}, {X: x0, Y: y0 + h}}
		if r.Intn(5) == 0 {
			p = clip.ReversePath(p)
		}
		ps = append(ps, p)
	}
	return ps
}

func rectP(x0, y0, x1, y1 int64) clip.Path64 {
	return clip.Path64{{X: x0, Y: y0}, {X: x1, Y: y0}, {X: x1, Y: y1}, {X: x0, Y: y1}}
}

// pinch family: two clip bars, one from above and one from below, that meet (touch, overlap or miss by
// a unit) along a horizontal line and so cut the subject rectangle into side-by-side pieces, plus small
// rectangles (holes, or islands inside holes) in the pieces, often aligned with the meeting line
func genPinch(r *RNG, G int64) (clip.Paths64, clip.Paths64) {
	u := G / 12
	if u < 3 {
		u = 3
	}
	W, H := 12*u, 8*u
	s := clip.Paths64{rectP(0, 0, W, H)}
	ym := r.Range(2, 6) * u
	xa := r.Range(2, 8) * u
	wa, wb := r.Range(1, 3)*u, r.Range(1, 4)*u
	xb := xa + r.Range(-2, 1)*u
	gap := []int64{0, 0, 0, 1, -1}[r.Intn(5)]
	c := clip.Paths64{rectP(xa, -u, xa+wa, ym), rectP(xb, ym+gap, xb+wb, H+u)}
	for k, nk := 0, 1+r.Intn(3); k < nk; k++ {
		x0 := r.Range(0, 10) * u
		y0 := r.Range(1, 6) * u
		if r.Intn(2) == 0 {
			y0 = ym
		}
		if r.Intn(4) == 0 {
			y0 = ym - u
		}
		hole := rectP(x0+u/3, y0, x0+u, y0+u+r.Range(0, 1)*u)
		c = append(c, hole)
		if r.Intn(3) == 0 { // an island inside that hole
			s = append(s, rectP(x0+u/3+1, y0+1, x0+u-1, y0+u-1))
		}
	}
	if r.Bool() { // mirror top-bottom
		for _, ps := range []clip.Paths64{s, c} {
			for i := range ps {
				for j := range ps[i] {
					ps[i][j].Y = H - ps[i][j].Y
				}
				ps[i] = clip.ReversePath(ps[i])
			}
		}
	}
	return s, c
}

func rect64(x0, y0, x1, y1 int64) clip.Path64 {
	return clip.Path64{{X: x0, Y: y0}, {X: x1, Y: y0}, {X: x1, Y: y1}, {X: x0, Y: y1}}
}

// genCavities: an arch standing on a base bar (glued along a horizontal line), k pairs of shelves growing from the
// left and right inner walls that overlap in x and touch along one horizontal segment (each pair cuts the cavity in
// two), and a small island in every compartment.  Optionally mirrored top-bottom or turned by 90 degrees.
func genCavities(r *RNG) clip.Paths64 {
	u := []int64{1, 2, 5, 10}[r.Intn(4)]
	k := 1 + r.Intn(3)
	W := int64(100)
	wall := int64(20)
	top := int64(0)
	compH := int64(40)
	th := int64(10) // shelf thickness
	H := top + 10 + int64(k+1)*compH + int64(k)*2*th
	var ps clip.Paths64
	ps = append(ps, rect64(0, H, W, H+10)) // base bar
	ps = append(ps, clip.Path64{{X: 0, Y: top}, {X: W, Y: top}, {X: W, Y: H}, {X: W - wall, Y: H}, {X: W - wall, Y: top + 10}, {X: wall, Y: top + 10}, {X: wall, Y: H}, {X: 0, Y: H}})
	y := top + 10
	for j := 0; j <= k; j++ {
		// island in this compartment
		ix := wall + 5 + r.Range(0, 30)
		ps = append(ps, rect64(ix, y+10, ix+10+r.Range(0, 10), y+10+r.Range(8, 18)))
		y += compH
		if j == k {
			break
		}
		// a pair of shelves meeting along y
		m1, m2 := 40+r.Range(0, 10), 50+r.Range(1, 10)
		if r.Bool() {
			ps = append(ps, rect64(wall-10, y, m2, y+th), rect64(m1, y+th, W-wall+10, y+2*th))
		} else {
			ps = append(ps, rect64(m1, y, W-wall+10, y+th), rect64(wall-10, y+th, m2, y+2*th))
		}
		y += 2 * th
	}
	// shuffle the order of the pieces
	for i := len(ps) - 1; i > 0; i-- {
		j := r.Intn(i + 1)
		ps[i], ps[j] = ps[j], ps[i]
	}
	mode := r.Intn(4)
	for _, p := range ps {
		for i := range p {
			x, yy := p[i].X, p[i].Y
			switch mode {
			case 1:
				yy = H + 10 - yy
			case 2:
				x, yy = yy, x
			case 3:
				x, yy = H+10-yy, x
			}
			p[i] = clip.Point64{X: x * u, Y: yy * u}
		}
	}
	return ps
}

func cmdC04(r *RNG, n int, e *Emitter, args []string) {
	if len(args) > 0 {
		for i, cc := range loadCorpusC01(args[0]) {
			var cl clip.Paths64
			if !cc.ClipNil {
				cl = pathsFromJSON(cc.Clip)
			}
			for v := 0; v < 2; v++ {
				emitC04(e, fmt.Sprintf("corpus%d.%d", i, v), pathsFromJSON(cc.Subject), cl, clip.ClipType(cc.Ct), clip.FillRule(cc.Fr), GenInfo{Kinds: []string{"corpus:" + cc.Note}}, v == 0)
			}
		}
	}
	for i := 0; i < n; i++ {
		clearEvents()
		G := []int64{12, 20, 40, 100, 400}[r.Intn(5)]
		var info GenInfo
		info.Grid = G
		var s, c clip.Paths64
		pinch := false
		switch r.Intn(7) {
		case 6:
			// messy self-intersecting polygons inside a big frame (or two nested frames): under EvenOdd / Xor every ring
			// they produce is nested (has an owner), also the rings that the self-intersection repair splits off later
			s = genPathSetN(r, G, 2, 7, &info)
			m := G/4 + 3
			frame := clip.Path64{{X: -m, Y: -m}, {X: G + m, Y: -m}, {X: G + m, Y: G + m}, {X: -m, Y: G + m}}
			if r.Bool() {
				s = append(s, frame)
			} else {
				c = clip.Paths64{frame}
			}
			if r.Intn(3) == 0 {
				m2 := 2 * m
				s = append(s, clip.Path64{{X: -m2, Y: -m2}, {X: G + m2, Y: -m2}, {X: G + m2, Y: G + m2}, {X: -m2, Y: G + m2}})
			}
			if c == nil {
				c = clip.Paths64{}
			}
			info.Kinds = append(info.Kinds, "framed-messy")
		case 5:
			// a frame glued from pieces along horizontal lines whose cavity is cut into several holes by shelves that
			// meet along horizontal segments; an island in each hole (rings split off rings split off rings)
			s, c = genCavities(r), clip.Paths64{}
			info.Kinds = append(info.Kinds, "cavities")
		case 4:
			s, c = genPinch(r, G)
			pinch = true
			info.Kinds = append(info.Kinds, "pinch")
		case 3:
			s = genRectSoup(r, G, 1+r.Intn(3))
			c = genRectSoup(r, G, 2+r.Intn(4))
			if r.Intn(4) == 0 { // bigger soups: records emptied by joins whose split lists refer to each other need 10+ rectangles
				s = genRectSoup(r, G, 4+r.Intn(3))
				c = genRectSoup(r, G, 4+r.Intn(3))
			}
			info.Kinds = append(info.Kinds, "rect-soup")
		case 0:
			s = genNested(r, G)
			c = genPathSetN(r, G, 1, 6, &info)
			info.Kinds = append(info.Kinds, "nested")
		case 1:
			s = genNested(r, G)
			c = genNested(r, G-G/5)
			info.Kinds = append(info.Kinds, "nested-both")
		default:
			s = genPathSetN(r, G, 3, 7, &info)
			c = genPathSetN(r, G, 2, 7, &info)
		}
		ct := clip.ClipType(1 + r.Intn(4))
		fr := clip.FillRule(r.Intn(4))
		if r.Intn(3) == 0 {
			fr = clip.EvenOdd
		}
		if pinch && r.Intn(3) > 0 {
			ct = clip.Difference
		}
		emitC04(e, fmt.Sprint(i), s, c, ct, fr, info, r.Bool())
	}
}

func emitC04(e *Emitter, id string, s, c clip.Paths64, ct clip.ClipType, fr clip.FillRule, info GenInfo, useWrapper bool) {
	noteInput(map[string]any{"subject": pathsJSON(s), "clip": pathsJSON(c), "clip_nil": false, "ct": int(ct), "fr": int(fr), "api": "BooleanOpPolyTree64 / Clipper64.ExecutePolyTree64"})
	var flat clip.Paths64
	var nodes []treeNode
	api := "BooleanOpPolyTree64"
	perr := safeCall(func() {
		flat = clip.BooleanOpPaths64(ct, s, c, fr)
		if useWrapper {
			walkTree(clip.BooleanOpPolyTree64(ct, s, c, fr).PolyPathBase, -1, &nodes)
		} else {
			api = "Clipper64.ExecutePolyTree64"
			cl := clip.NewClipper64()
			cl.AddPaths(s, clip.Subject, false)
			cl.AddPaths(c, clip.Clip, false)
			t := clip.NewPolyTree64()
			var od clip.PathsD
			cl.ExecutePolyTree64(ct, fr, t, &od)
			walkTree(t.PolyPathBase, -1, &nodes)
		}
	})
	meta := map[string]any{"subject": pathsJSON(s), "clip": pathsJSON(c), "clip_nil": false, "ct": int(ct), "fr": int(fr), "gen": info, "api": api}
	if perr != "" {
		meta["panic"], meta["kind"] = perr, "panic"
		e.Fail(meta)
		return
	}
	meta["flat"], meta["nodes"] = pathsJSON(flat), nodes
	// (a) same polygons, each exactly once (as cyclic vertex sequences)
	canon := func(p [][2]int64) string {
		if len(p) == 0 {
			return ""
		}
		k := 0
		for j := range p {
			if p[j][0] < p[k][0] || (p[j][0] == p[k][0] && p[j][1] < p[k][1]) {
				k = j
			}
		}
		return fmt.Sprint(append(append([][2]int64{}, p[k:]...), p[:k]...))
	}
	var a, b []string
	for _, p := range flat {
		a = append(a, canon(pathJSON(p)))
	}
	for _, nd := range nodes {
		b = append(b, canon(nd.Poly))
	}
	sort.Strings(a)
	sort.Strings(b)
	if fmt.Sprint(a) != fmt.Sprint(b) {
		meta["kind"] = "the polygons stored in the PolyTree are not the closed paths of the flat result"
		e.Fail(meta)
		return
	}
	// level / IsHole consistency of the node API
	bad := ""
	maxLevel := 0
	for _, nd := range nodes {
		pl := 0
		if nd.Parent >= 0 {
			pl = nodes[nd.Parent].Level
		}
		if nd.Level != pl+1 {
			bad = "Level() is not parent level + 1"
		}
		if nd.IsHole != (nd.Level%2 == 0) {
			bad = "IsHole() does not alternate with the nesting level"
		}
		maxLevel = max(maxLevel, nd.Level)
	}
	if bad != "" {
		meta["kind"] = bad
		e.Fail(meta)
		return
	}
	e.Count(fmt.Sprintf("nodes<=%d", bucket(len(nodes))))
	e.Count(fmt.Sprintf("depth=%d", maxLevel))
	e.Case("c04-"+id, "noop", meta)
	if maxLevel >= 2 {
		e.Nontrivial(id)
	}
	if len(nodes) > 14 {
		return
	}
	// (b) every node inside its parent; (c) siblings disjoint
	for k, nd := range nodes {
		pk := pathsFromJSON([][][2]int64{nd.Poly})
		if nd.Parent >= 0 {
			pp := pathsFromJSON([][][2]int64{nodes[nd.Parent].Poly})
			line, _ := genLine("imp", "4", []clip.Paths64{pk, pp}, append(clonePaths(pk), pp...), nil)
			e.Case(fmt.Sprintf("c04-%s.p%d", id, k), line, map[string]any{"subject": meta["subject"], "clip": meta["clip"], "ct": int(ct), "fr": int(fr), "clip_nil": false, "what": "parent", "node": nd.Poly, "other": nodes[nd.Parent].Poly, "nodes": nodes, "micro_splices": meta["micro_splices"], "split_discards": meta["split_discards"]})
		}
		for k2 := k + 1; k2 < len(nodes); k2++ {
			if nodes[k2].Parent != nd.Parent {
				continue
			}
			p2 := pathsFromJSON([][][2]int64{nodes[k2].Poly})
			line, _ := genLine("disj", "4", []clip.Paths64{pk, p2}, append(clonePaths(pk), p2...), nil)
			e.Case(fmt.Sprintf("c04-%s.s%d.%d", id, k, k2), line, map[string]any{"subject": meta["subject"], "clip": meta["clip"], "ct": int(ct), "fr": int(fr), "clip_nil": false, "what": "sibling", "node": nd.Poly, "other": nodes[k2].Poly, "nodes": nodes, "micro_splices": meta["micro_splices"], "split_discards": meta["split_discards"]})
		}
	}
}
