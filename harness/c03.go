package main

import (
	"fmt"
	"math"
	"time"

	clip "github.com/bolom009/go-clipper2"
)

func init() { commands["c03"] = cmdC03 }

// hostile closed/open integer paths
func genHostilePath(r *RNG) clip.Path64 {
	G := []int64{1, 2, 3, 5, 10, 1000, 1 << 29}[r.Intn(7)]
	switch r.Intn(10) {
	case 0:
		return clip.Path64{}
	case 1:
		return clip.Path64{{X: r.Range(-G, G), Y: r.Range(-G, G)}}
	case 2:
		a := clip.Point64{X: r.Range(-G, G), Y: r.Range(-G, G)}
		if r.Bool() {
			return clip.Path64{a, a}
		}
		return clip.Path64{a, {X: r.Range(-G, G), Y: r.Range(-G, G)}}
	case 3: // repeated points
		a := clip.Point64{X: r.Range(-G, G), Y: r.Range(-G, G)}
		n := 1 + r.Intn(6)
		p := make(clip.Path64, n)
		for i := range p {
			p[i] = a
		}
		return p
	case 4: // all horizontal
		n := 2 + r.Intn(6)
		y := r.Range(-G, G)
		p := make(clip.Path64, n)
		for i := range p {
			p[i] = clip.Point64{X: r.Range(-G, G), Y: y}
		}
		return p
	case 5: // all collinear
		n := 2 + r.Intn(6)
		dx, dy := r.Range(-3, 3), r.Range(-3, 3)
		p := make(clip.Path64, n)
		for i := range p {
			t := r.Range(-5, 5)
			p[i] = clip.Point64{X: t * dx, Y: t * dy}
		}
		return p
	case 6: // zero-area: out and back
		a := genPolyN(r, "random", G+2, 5)
		return append(a, clip.ReversePath(a)...)
	case 7: // all on the boundary of a rectangle
		n := 3 + r.Intn(6)
		p := make(clip.Path64, n)
		for i := range p {
			switch r.Intn(4) {
			case 0:
				p[i] = clip.Point64{X: 0, Y: r.Range(0, G)}
			case 1:
				p[i] = clip.Point64{X: G, Y: r.Range(0, G)}
			case 2:
				p[i] = clip.Point64{X: r.Range(0, G), Y: 0}
			default:
				p[i] = clip.Point64{X: r.Range(0, G), Y: G}
			}
		}
		return p
	default:
		return genPolyN(r, polyKinds[r.Intn(len(polyKinds))], G+2, 8)
	}
}

func genHostilePaths(r *RNG) clip.Paths64 {
	switch r.Intn(8) {
	case 0:
		return nil
	case 1:
		return clip.Paths64{}
	case 2: // coincident polygons
		p := genHostilePath(r)
		return clip.Paths64{p, append(clip.Path64{}, p...), clip.ReversePath(p)}
	}
	n := 1 + r.Intn(3)
	ps := make(clip.Paths64, n)
	for i := range ps {
		ps[i] = genHostilePath(r)
	}
	return ps
}

func toD(ps clip.Paths64, s float64) clip.PathsD {
	if ps == nil {
		return nil
	}
	out := make(clip.PathsD, len(ps))
	for i, p := range ps {
		out[i] = make(clip.PathD, len(p))
		for j, q := range p {
			out[i][j] = clip.PointD{X: float64(q.X) * s, Y: float64(q.Y) * s}
		}
	}
	return out
}

type callResult struct {
	panicMsg string
	hung     bool
	note     string // e.g. "Execute returned false"
}

// runGuarded runs f under recover and a wall-clock limit
func runGuarded(f func() string) callResult {
	ch := make(chan callResult, 1)
	go func() {
		var res callResult
		defer func() {
			if x := recover(); x != nil {
				res.panicMsg = fmt.Sprint(x)
			}
			ch <- res
		}()
		res.note = f()
	}()
	select {
	case r := <-ch:
		return r
	case <-time.After(90 * time.Second): // generous: on a loaded machine a slow call is not a hang
		return callResult{hung: true}
	}
}

func cmdC03(r *RNG, n int, e *Emitter, args []string) {
	calls := 0
	for i := 0; i < n; i++ {
		s, c := genHostilePaths(r), genHostilePaths(r)
		if i%9 == 4 {
			// rectangle soups of 4-6 rectangles a side on a coarse lattice: many horizontal joins and splits (the tree
			// builders walk the split lists of the records those leave behind)
			s, c = genRectSoup(r, 96, 4+r.Intn(3)), genRectSoup(r, 96, 4+r.Intn(3))
		}
		open := genHostilePaths(r)
		ct := clip.ClipType(r.Intn(7)) // includes NoClip and out-of-range values
		fr := clip.FillRule(r.Intn(6)) // includes out-of-range values
		prec := []int{-9, -8, -3, 0, 2, 8, 9, 12}[r.Intn(8)]
		delta := []float64{0, 0.3, -0.3, 1, -1, 2.5, -2.5, 10, -10, 1e4, -1e4, 1e7}[r.Intn(12)]
		jt := clip.JoinType(r.Intn(5))
		et := clip.EndType(r.Intn(6))
		G := int64(10)
		rect := clip.NewRect64(r.Range(-G, G), r.Range(-G, G), r.Range(-G, G), r.Range(-G, G)) // often empty or inverted
		desc := map[string]any{"subject": pathsJSON(s), "clip": pathsJSON(c), "open": pathsJSON(open), "subject_nil": s == nil, "clip_nil": c == nil,
			"ct": int(ct), "fr": int(fr), "precision": prec, "delta": delta, "jt": int(jt), "et": int(et)}
		var pat, pth clip.Path64
		if len(s) > 0 {
			pat = s[0]
		}
		if len(c) > 0 {
			pth = c[0]
		}
		okPrec := prec >= -8 && prec <= 8
		type call struct {
			name      string
			precPanic bool // the documented precision-range panic is permitted here
			f         func() string
		}
		notOK := func(name string, ok bool) string {
			if !ok {
				return name + " returned false"
			}
			return ""
		}
		// keep the quantised magnitudes inside the exact-product domain (2^29): beyond it the
		// 64-bit cross products wrap (known finding int64-product-overflow, C13)
		fs := 0.37
		if mc := maxAbsCoord(s, c, open); mc > 0 && prec > 0 {
			lim := float64(int64(1)<<29) / (float64(mc) * math.Pow(10, float64(prec)))
			if lim < fs {
				fs = lim
			}
		}
		sD, cD := toD(s, fs), toD(c, fs)
		list := []call{
			{"BooleanOpPaths64", false, func() string { clip.BooleanOpPaths64(ct, s, c, fr); return "" }},
			{"Clipper64.Execute", false, func() string {
				cl := clip.NewClipper64()
				cl.AddPaths(s, clip.Subject, false)
				cl.AddPaths(c, clip.Clip, false)
				var sol clip.Paths64
				return notOK("Execute", cl.Execute(ct, fr, &sol))
			}},
			{"Clipper64.ExecuteOC+open", false, func() string {
				cl := clip.NewClipper64()
				cl.AddPaths(s, clip.Subject, false)
				cl.AddPaths(open, clip.Subject, true)
				cl.AddPaths(c, clip.Clip, false)
				var a, b clip.Paths64
				return notOK("ExecuteOC", cl.ExecuteOC(ct, fr, &a, &b))
			}},
			{"Clipper64.ExecutePolyTree64", false, func() string {
				cl := clip.NewClipper64()
				cl.AddPaths(s, clip.Subject, false)
				cl.AddPaths(c, clip.Clip, false)
				t := clip.NewPolyTree64()
				var op clip.PathsD
				ok := cl.ExecutePolyTree64(ct, fr, t, &op)
				_ = t.ToString()
				return notOK("ExecutePolyTree64", ok)
			}},
			{"BooleanOpPolyTree64", false, func() string { clip.BooleanOpPolyTree64(ct, s, c, fr); return "" }},
			{"UnionPaths64", false, func() string { clip.UnionPaths64(s, fr); return "" }},
			{"BooleanOpPathsD", true, func() string { clip.BooleanOpPathsD(ct, sD, cD, fr, prec); return "" }},
			{"BooleanOpPolyTreeD", true, func() string { clip.BooleanOpPolyTreeD(ct, sD, cD, fr, prec); return "" }},
			{"ClipperD.ExecuteOC", true, func() string {
				cl := clip.NewClipperD(prec)
				cl.AddPaths(sD, clip.Subject, false)
				cl.AddPaths(toD(open, fs), clip.Subject, true)
				cl.AddPaths(cD, clip.Clip, false)
				var a, b clip.PathsD
				return notOK("ClipperD.ExecuteOC", cl.ExecuteOC(ct, fr, &a, &b))
			}},
			{"InflatePaths64", false, func() string { clip.InflatePaths64(s, delta, jt, et); return "" }},
			{"InflatePaths64 with options", false, func() string {
				// option values of every finite kind: tolerances far above |delta| (the arc-step computation leaves the domain of
				// acos), zero and negative values, tiny and huge miter limits
				arc := []float64{0, 0.01, 0.25, 5, 40, 1e3, 1e9, -1}[r.Intn(8)]
				mit := []float64{0, 0.5, 1, 2, 100, -3}[r.Intn(6)]
				clip.InflatePaths64(s, delta, jt, et, clip.WithArcTolerance(arc), clip.WithMitterLimit(mit))
				co := clip.NewClipperOffset(mit, arc, r.Bool(), r.Bool())
				co.AddPaths(s, jt, et)
				var sol clip.Paths64
				co.Execute64(delta, &sol)
				return ""
			}},
			{"InflatePathsD", true, func() string { clip.InflatePathsD(sD, delta, jt, et, clip.WithPrecision(prec)); return "" }},
			{"ClipperOffset", false, func() string {
				co := clip.NewClipperOffset(2, 0.25, r.Bool(), r.Bool())
				co.AddPaths(s, jt, et)
				co.AddPaths(c, clip.JoinType(r.Intn(4)), clip.EndType(r.Intn(5)))
				var sol clip.Paths64
				co.Execute64(delta, &sol)
				co.Execute64(-delta, &sol)
				return ""
			}},
			{"MinkowskiSum64", false, func() string { clip.MinkowskiSum64(pat, pth, r.Bool()); return "" }},
			{"MinkowskiDiff64", false, func() string { clip.MinkowskiDiff64(pat, pth, r.Bool()); return "" }},
			{"MinkowskiSumD", true, func() string {
				clip.MinkowskiSumD(toD(clip.Paths64{pat}, fs)[0], toD(clip.Paths64{pth}, fs)[0], r.Bool(), prec)
				return ""
			}},
			{"RectClipPaths64", false, func() string { clip.RectClipPaths64(rect, s); return "" }},
			{"RectClipLinesPaths64", false, func() string { clip.RectClipLinesPaths64(rect, s); return "" }},
			{"RectClipPathsD", true, func() string {
				clip.RectClipPathsD(clip.NewRectD(-3.5, -2.25, 4.5, 7.75), sD, prec)
				return ""
			}},
			{"RectClipLinesPathsD", true, func() string {
				clip.RectClipLinesPathsD(clip.NewRectD(-3.5, -2.25, 4.5, 7.75), sD, prec)
				return ""
			}},
			{"TrimCollinear64", false, func() string { clip.TrimCollinear64(pat, r.Bool()); return "" }},
			{"TrimCollinearD", true, func() string { clip.TrimCollinearD(toD(clip.Paths64{pat}, fs)[0], prec, r.Bool()); return "" }},
			{"SimplifyPaths64", false, func() string { clip.SimplifyPaths64(s, []float64{0, 0.5, 2, 1e6}[r.Intn(4)], r.Bool()); return "" }},
			{"SimplifyPathsD", false, func() string { clip.SimplifyPathsD(sD, []float64{0, 0.5, 2, 1e6}[r.Intn(4)], r.Bool()); return "" }},
			{"StripDuplicates", false, func() string { clip.StripDuplicates(pat, r.Bool()); return "" }},
			{"Area/Bounds/PIP", false, func() string {
				clip.Area64(pat)
				clip.AreaPaths64(s)
				clip.IsPositive64(pat)
				clip.GetBounds64(pat)
				clip.PointInPolygon(clip.Point64{X: 1, Y: 1}, pat)
				clip.Path2ContainsPath1(pat, pth)
				return ""
			}},
			{"Ellipse64", false, func() string {
				clip.Ellipse64(clip.Point64{X: 3, Y: 4}, []float64{0, -1, 0.4, 10, 1e5}[r.Intn(5)], []float64{0, -1, 7}[r.Intn(3)], []int{-1, 0, 2, 3, 100}[r.Intn(5)])
				return ""
			}},
		}
		noteInput(desc) // one record per case (all entry points run on it)
		for _, cl := range list {
			res := runGuarded(cl.f)
			calls++
			e.Count("api=" + cl.name)
			bad := ""
			switch {
			case res.hung:
				bad = "did not return within 20 s"
			case res.panicMsg != "":
				if cl.precPanic && !okPrec && res.panicMsg == clip.ErrPrecisionRange.Error() {
					e.Count("documented-precision-panic")
				} else {
					bad = "panic: " + res.panicMsg
				}
			case res.note != "":
				bad = res.note
			}
			if bad != "" {
				m := map[string]any{"api": cl.name, "kind": bad}
				for k, v := range desc {
					m[k] = v
				}
				e.Fail(m)
				if res.hung {
					// a hung goroutine cannot be stopped: flush what we have and stop the stream
					e.Case(fmt.Sprintf("c03-%d", i), "noop", map[string]any{"calls": calls})
					return
				}
			}
		}
		e.Case(fmt.Sprintf("c03-%d", i), "noop", map[string]any{"calls": len(list)})
		e.Nontrivial(fmt.Sprint(i))
	}
}

func maxAbsCoord(sets ...clip.Paths64) int64 {
	var m int64
	for _, ps := range sets {
		for _, p := range ps {
			for _, q := range p {
				m = max(m, max(q.X, -q.X), max(q.Y, -q.Y))
			}
		}
	}
	return m
}
