package main

import (
	"fmt"
	"math"
	"math/big"

	clip "github.com/bolom009/go-clipper2"
)

func init() {
	commands["c05"] = cmdC05
	commands["c10"] = cmdC10
}

// a simple (non-self-intersecting) star-shaped polygon around (cx,cy): vertices at
// increasing angles with radii in [rmin, rmax]; counter-clockwise in Area64's sense
func genStarShaped(r *RNG, cx, cy int64, rmin, rmax float64, n int) clip.Path64 {
	p := make(clip.Path64, 0, n)
	a0 := r.Float() * 2 * math.Pi
	for i := 0; i < n; i++ {
		a := a0 + 2*math.Pi*(float64(i)+0.15+0.7*r.Float())/float64(n)
		rad := rmin + (rmax-rmin)*r.Float()
		p = append(p, clip.Point64{X: cx + int64(math.Round(rad*math.Cos(a))), Y: cy + int64(math.Round(rad*math.Sin(a)))})
	}
	if clip.Area64(p) < 0 {
		p = clip.ReversePath(p)
	}
	return p
}

// simple polygon sets with holes: disjoint islands, each optionally with a hole
func genSimpleSet(r *RNG, S float64) clip.Paths64 {
	ps, _ := genSimpleSetGroups(r, S)
	return ps
}

// as genSimpleSet, also returning the index at which the second island (a valid group of its own) starts
func genSimpleSetGroups(r *RNG, S float64) (clip.Paths64, int) {
	ps, split, _ := genSimpleSetGroupsSign(r, S)
	return ps, split
}

// ... and the global orientation: +1 when outer boundaries are positively oriented (Area64), -1 otherwise
func genSimpleSetGroupsSign(r *RNG, S float64) (clip.Paths64, int, int) {
	var ps clip.Paths64
	split := 0
	n := 1 + r.Intn(2)
	for k := 0; k < n; k++ {
		cx, cy := int64(float64(k)*3.2*S), int64(r.Range(-10, 10))
		nv := 3 + r.Intn(8)
		outer := genStarShaped(r, cx, cy, 0.55*S, S, nv)
		if k == 1 {
			split = len(ps)
		}
		if r.Intn(2) == 0 && nv >= 6 {
			// with >= 6 vertices at radius >= 0.55 S every edge stays farther than 0.3 S from the centre
			hole := genStarShaped(r, cx, cy, 0.12*S, 0.24*S, 3+r.Intn(5))
			if r.Intn(3) == 0 { // the hole may be listed before its outer boundary
				ps = append(ps, clip.ReversePath(hole), outer)
			} else {
				ps = append(ps, outer, clip.ReversePath(hole))
			}
		} else {
			ps = append(ps, outer)
		}
	}
	sign := 1
	if r.Intn(3) == 0 { // either global orientation
		for i := range ps {
			ps[i] = clip.ReversePath(ps[i])
		}
		sign = -1
	}
	return ps, split, sign
}

// positively oriented quadrilateral a, b, b+v, a+v (v given as float, rounded to the lattice)
func stripQuad(a, b clip.Point64, vx, vy float64) clip.Path64 {
	q := clip.Path64{a, b, {X: b.X + int64(math.Round(vx)), Y: b.Y + int64(math.Round(vy))}, {X: a.X + int64(math.Round(vx)), Y: a.Y + int64(math.Round(vy))}}
	if clip.Area64(q) < 0 {
		q = clip.ReversePath(q)
	}
	return q
}

func unitNormalLeft(a, b clip.Point64) (float64, float64, bool) {
	dx, dy := float64(b.X-a.X), float64(b.Y-a.Y)
	l := math.Hypot(dx, dy)
	if l == 0 {
		return 0, 0, false
	}
	return -dy / l, dx / l, true // left of a->b (for Area64-positive paths: interior side)
}

// regular-ish polygon inscribed in the disc of radius rad around c (positively oriented)
func inscribed(c clip.Point64, rad float64) clip.Path64 {
	n := 12
	p := make(clip.Path64, 0, n)
	for i := 0; i < n; i++ {
		a := 2 * math.Pi * float64(i) / float64(n)
		// round towards the centre so that the polygon stays inside the disc
		x, y := rad*math.Cos(a), rad*math.Sin(a)
		p = append(p, clip.Point64{X: c.X + int64(math.Trunc(x)), Y: c.Y + int64(math.Trunc(y))})
	}
	if clip.Area64(p) < 0 {
		p = clip.ReversePath(p)
	}
	return p
}

func ratSq(v float64) string {
	// a rational upper bound of v^2 with denominator 2^20
	x := new(big.Float).SetFloat64(v)
	x.Mul(x, x)
	sc := new(big.Float).SetInt64(1 << 20)
	x.Mul(x, sc)
	i, _ := x.Int(nil)
	i.Add(i, big.NewInt(1))
	return new(big.Rat).SetFrac(i, big.NewInt(1<<20)).String()
}

func joinK(jt clip.JoinType, miter float64) float64 {
	switch jt {
	case clip.Square:
		return 1.4143
	case clip.Miter:
		return math.Max(miter, 1.4143)
	}
	return 1
}

// C05: polygon offsetting.
func cmdC05(r *RNG, n int, e *Emitter, args []string) {
	for i := 0; i < n; i++ {
		clearEvents()
		S := []float64{40, 80, 200, 1000}[r.Intn(4)]
		in, split, sign := genSimpleSetGroupsSign(r, S)
		if r.Intn(6) == 0 {
			// a needle: a triangle or quadrilateral with an interior angle below 2.5 degrees (edge normals
			// nearly anti-parallel), in any of the 8 lattice orientations, either orientation
			L := int64(S) * (8 + r.Range(0, 8))
			h := r.Range(2, L/30)
			nd := clip.Path64{{X: 0, Y: 0}, {X: L, Y: 0}, {X: L, Y: h}}
			if r.Intn(3) == 0 {
				nd = clip.Path64{{X: 0, Y: 0}, {X: L, Y: -h / 2}, {X: L + int64(S), Y: 0}, {X: L, Y: h / 2}}
			}
			for j := range nd {
				x, y := nd[j].X, nd[j].Y
				switch i % 4 {
				case 1:
					x, y = -y, x
				case 2:
					x, y = -x, -y
				case 3:
					x, y = y, -x
				}
				nd[j] = clip.Point64{X: x, Y: y}
			}
			if clip.Area64(nd) < 0 {
				nd = clip.ReversePath(nd)
			}
			sign = 1
			if r.Intn(3) == 0 {
				nd = clip.ReversePath(nd)
				sign = -1
			}
			in, split = clip.Paths64{nd}, 0
			e.Count("shape=needle")
		}
		if i%9 == 4 {
			// huge thin quadrilateral: one dimension between 2^31.6 and 2^40 (the squared length of its long edges does not
			// fit 63 bits), the other a few hundred units; axis-parallel or slightly slanted, 4 orientations
			L := r.Range(3100000000, 4200000000) // squared length beyond 2^63, yet (L/2)^2 below it: the library's own int64 dot products of two pieces of such an edge still fit (beyond that the int64-product-overflow finding of C13 takes over)
			W := r.Range(200, 5000)
			h0 := int64(0)
			if r.Bool() {
				h0 = r.Range(-3000, 3000)
			}
			x0, y0 := r.Range(-1000, 1000), r.Range(-1000, 1000)
			hq := clip.Path64{{X: x0, Y: y0}, {X: x0 + L, Y: y0 + h0}, {X: x0 + L, Y: y0 + h0 + W}, {X: x0, Y: y0 + W}}
			for j := range hq {
				x, y := hq[j].X, hq[j].Y
				switch (i / 9) % 4 {
				case 1:
					x, y = -y, x
				case 2:
					x, y = -x, -y
				case 3:
					x, y = y, -x
				}
				hq[j] = clip.Point64{X: x, Y: y}
			}
			if clip.Area64(hq) < 0 {
				hq = clip.ReversePath(hq)
			}
			sign = 1
			if r.Intn(3) == 0 {
				hq = clip.ReversePath(hq)
				sign = -1
			}
			in, split = clip.Paths64{hq}, 0
			S = float64(W) / 4 // deltas are chosen relative to the thin dimension
			e.Count("shape=huge-thin")
		}
		manySided := false
		if i%47 == 11 {
			// a many-sided near-circular polygon: every vertex turns by less than a degree (the offsetter's almost-straight
			// shortcuts), shrunk beyond its inradius in half of the cases (over-shrinking must yield nothing)
			nv := int(r.Range(300, 620))
			R := float64(r.Range(40000, 200000))
			cx, cy := r.Range(-100000, 100000), r.Range(-100000, 100000)
			ms := make(clip.Path64, nv)
			for j := 0; j < nv; j++ {
				a := 2 * math.Pi * float64(j) / float64(nv)
				ms[j] = clip.Point64{X: cx + int64(math.Round(R*math.Cos(a))), Y: cy + int64(math.Round(R*math.Sin(a)))}
			}
			sign = 1
			if clip.Area64(ms) < 0 {
				ms = clip.ReversePath(ms)
			}
			if r.Intn(3) == 0 {
				ms = clip.ReversePath(ms)
				sign = -1
			}
			in, split = clip.Paths64{ms}, 0
			S = R
			manySided = true
			e.Count("shape=many-sided")
		}
		// ways of writing a ring down: explicit closing vertex, a repeated vertex
		for k := range in {
			if r.Intn(4) == 0 {
				in[k] = append(append(clip.Path64{}, in[k]...), in[k][0])
			}
			if r.Intn(6) == 0 {
				j := r.Intn(len(in[k]))
				d := append(clip.Path64{}, in[k][:j+1]...)
				in[k] = append(append(d, in[k][j]), in[k][j+1:]...)
			}
		}
		jt := clip.JoinType(r.Intn(4))
		miter := []float64{1, 2, 2, 3, 5}[r.Intn(5)]
		arct := []float64{0, 0, 0.25, 1, 3}[r.Intn(5)]
		var delta float64
		switch r.Intn(6) {
		case 0:
			delta = []float64{0.3, -0.3, 0.49}[r.Intn(3)]
		case 1:
			delta = -S * (0.1 + r.Float()*1.2) // shrink, possibly to nothing
		case 2:
			delta = S * (0.5 + 2*r.Float())
		default:
			delta = S * (0.03 + 0.3*r.Float())
			if r.Bool() {
				delta = -delta
			}
		}
		if manySided {
			delta = -S * []float64{1.5, 1.2, 1.05, 0.5, 0.1}[r.Intn(5)]
			if r.Intn(5) == 0 {
				delta = S * 0.05
			}
		}
		in0 := clonePaths(in)
		var out clip.Paths64
		perr := safeCall(func() {
			if r.Bool() {
				out = clip.InflatePaths64(in, delta, jt, clip.Polygon, clip.WithMitterLimit(miter), clip.WithArcTolerance(arct))
			} else {
				co := clip.NewClipperOffset(miter, arct, false, false)
				// several groups
				// several groups: one per island (a polygon together with its hole)
				if split > 0 {
					co.AddPaths(in[:split], jt, clip.Polygon)
					co.AddPaths(in[split:], jt, clip.Polygon)
				} else {
					co.AddPaths(in, jt, clip.Polygon)
				}
				co.Execute64(delta, &out)
			}
		})
		meta := map[string]any{"in": pathsJSON(in0), "delta": delta, "jt": int(jt), "miter": miter, "arc_tolerance": arct}
		if perr != "" {
			meta["panic"], meta["kind"] = perr, "panic"
			e.Fail(meta)
			continue
		}
		meta["out"] = pathsJSON(out)
		id := fmt.Sprintf("c05-%d", i)
		e.Count(fmt.Sprintf("jt=%d", jt))
		if math.Abs(delta) < 0.5 {
			// returns the input paths apart from repeated points
			var want clip.Paths64
			for _, p := range in0 {
				want = append(want, clip.StripDuplicates(p, true))
			}
			if !pathsEqual(out, want) {
				meta["kind"] = "|delta| < 0.5 must return the input paths (without repeated points)"
				e.Fail(meta)
			}
			e.Case(id, "noop", meta)
			e.Count("tiny-delta")
			continue
		}
		// the orientation of the outer boundaries decides the orientation of the result
		ad := math.Abs(delta)
		tol := 2 + math.Max(arct, 0.002*ad)
		k := joinK(jt, miter)
		meta["tol"], meta["k"], meta["sign"] = tol, k, sign
		e.Case(id, "noop", meta)
		e.Nontrivial(fmt.Sprint(i))
		// canonical result
		lc, _ := genLine(fmt.Sprintf("canon %d", sign), "4", []clip.Paths64{out}, out, nil)
		e.Case(id+"c", lc, meta)
		rFar := ratSq(k*ad + tol)
		// strips of depth |delta| - 1 along the normals (outward for growth, inward for shrinking)
		var strips clip.Paths64
		for _, p := range in0 {
			for j := range p {
				a, b := p[j], p[(j+1)%len(p)]
				nx, ny, ok := unitNormalLeft(a, b)
				if !ok {
					continue
				}
				// in a canonical polygon set the filled region lies on the left of EVERY edge (outer
				// boundaries counter-clockwise, holes clockwise); on the right when the whole set is reversed
				inward := 1.0
				if sign < 0 {
					inward = -1
				}
				d := ad - 1
				if d <= 0.5 {
					continue
				}
				if delta > 0 {
					strips = append(strips, stripQuad(a, b, -inward*nx*d, -inward*ny*d))
				} else {
					strips = append(strips, stripQuad(a, b, inward*nx*d, inward*ny*d))
				}
			}
			if jt == clip.Round && delta > 0 && ad-tol > 3 {
				// round joins: the disc of radius |delta| - tol about every vertex (tol includes the arc tolerance)
				for _, v := range p {
					strips = append(strips, inscribed(v, ad-tol))
				}
			}
		}
		meta["strips"] = len(strips)
		if delta > 0 {
			l1, _ := genLine("imp", "4", []clip.Paths64{in0, out}, in0, nil) // the input region is kept
			e.Case(id+"a", l1, meta)
			if len(strips) > 0 && len(strips) <= 40 {
				l2, _ := genLine("imp", "4", []clip.Paths64{strips, out}, out, nil) // everything within |delta| of an edge along its normal is inside
				m2 := map[string]any{"in": meta["in"], "out": meta["out"], "delta": delta, "jt": int(jt), "miter": miter, "arc_tolerance": arct, "strips_paths": pathsJSON(strips)}
				e.Case(id+"b", l2, m2)
			}
			l3, _ := genLine("imp", rFar, []clip.Paths64{out, in0}, in0, nil) // nothing farther than k*delta + tol from the input
			meta["r_far2"] = rFar
			e.Case(id+"f", l3, meta)
		} else {
			l1, _ := genLine("imp", "4", []clip.Paths64{out, in0}, in0, nil) // the result lies inside the input region
			e.Case(id+"a", l1, meta)
			if len(strips) > 0 && len(strips) <= 40 {
				l2, _ := genLine("disj", "4", []clip.Paths64{strips, out}, out, nil) // nothing within |delta| of an edge along the inward normal survives
				m2 := map[string]any{"in": meta["in"], "out": meta["out"], "delta": delta, "jt": int(jt), "miter": miter, "arc_tolerance": arct, "strips_paths": pathsJSON(strips)}
				e.Case(id+"b", l2, m2)
			}
			l3, _ := genLine("imp", rFar, []clip.Paths64{in0, out}, in0, nil) // interior points farther than k|delta| + tol from the boundary survive
			meta["r_far2"] = rFar
			e.Case(id+"f", l3, meta)
			// over-shrinking: if every interior point is within |delta| - tol of the boundary, the result is empty
			// (the premise is the Euclidean one only where the property gives it: Round joins remove the whole disc about a
			// vertex; the other joins are only bound along the edge normals, which coincides with the Euclidean distance to the
			// boundary from inside a single convex ring — a grown HOLE with bevelled corners legitimately leaves points that
			// are within |delta| of one of its vertices)
			if ad-tol > 1 && (jt == clip.Round || (len(in0) == 1 && isConvexRing(in0[0]))) {
				l4, _ := genLine("canon 0", ratSq(ad-tol), []clip.Paths64{in0}, in0, nil)
				e.Case(id+"e", l4, meta)
			}
		}
	}
}

// isConvexRing: all turns of the closed ring have the same sign (zero turns allowed)
func isConvexRing(p clip.Path64) bool {
	n := len(p)
	if n < 3 {
		return false
	}
	pos, neg := false, false
	for i := 0; i < n; i++ {
		a, b, c := p[i], p[(i+1)%n], p[(i+2)%n]
		cr := new(big.Int).Sub(new(big.Int).Mul(big.NewInt(b.X-a.X), big.NewInt(c.Y-b.Y)), new(big.Int).Mul(big.NewInt(b.Y-a.Y), big.NewInt(c.X-b.X)))
		switch cr.Sign() {
		case 1:
			pos = true
		case -1:
			neg = true
		}
	}
	return !(pos && neg)
}
