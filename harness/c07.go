package main

import (
	"fmt"
	"math"
	"reflect"

	clip "github.com/bolom009/go-clipper2"
)

func init() { commands["c07"] = cmdC07 }

// float inputs whose scaled magnitude stays inside the exact-product domain,
// with many exact ties at half a quantum
func genPathsDForPrec(r *RNG, prec int, maxPaths int) clip.PathsD {
	scale := math.Pow(10, float64(prec))
	// integer lattice in quantised units, then jitter in sub-quantum units
	G := []int64{8, 20, 60, 200}[r.Intn(4)]
	var info GenInfo
	ps := genPathSetN(r, G, maxPaths, 6, &info)
	out := make(clip.PathsD, len(ps))
	for i, p := range ps {
		out[i] = make(clip.PathD, len(p))
		for j, q := range p {
			jx := []float64{0, 0, 0.5, -0.5, 0.25, 0.49999, 0.50001, 0.1}[r.Intn(8)]
			jy := []float64{0, 0, 0.5, -0.5, 0.75, -0.25, 1.5, 0.3}[r.Intn(8)]
			out[i][j] = clip.PointD{X: (float64(q.X) + jx) / scale, Y: (float64(q.Y) + jy) / scale}
		}
	}
	return out
}

func bitsEqualD(a, b clip.PathsD) bool {
	if len(a) != len(b) {
		return false
	}
	for i := range a {
		if len(a[i]) != len(b[i]) {
			return false
		}
		for j := range a[i] {
			if math.Float64bits(a[i][j].X) != math.Float64bits(b[i][j].X) || math.Float64bits(a[i][j].Y) != math.Float64bits(b[i][j].Y) {
				return false
			}
		}
	}
	return true
}

func treePolys(t *clip.PolyPathBase) string {
	s := fmt.Sprint(t.Polygon(), t.IsHole(), "(")
	for _, ch := range t.GetChildren() {
		s += treePolys(ch)
	}
	return s + ")"
}

type dcall struct {
	name string
	d    func() any // the floating-point entry point
	ref  func() any // its 64-bit counterpart on quantised input, unscaled
}

func cmdC07(r *RNG, n int, e *Emitter, args []string) {
	precs := []int{-8, -7, -6, -5, -4, -3, -2, -1, 0, 1, 2, 3, 4, 5, 6, 7, 8, -9, 9, 12, -20}
	for i := 0; i < n; i++ {
		prec := precs[r.Intn(len(precs))]
		legal := prec >= -8 && prec <= 8
		gp := prec
		if !legal {
			gp = 2
		}
		scale := math.Pow(10, float64(prec))
		inv := 1 / scale
		s, c := genPathsDForPrec(r, gp, 2), genPathsDForPrec(r, gp, 2)
		ct := clip.ClipType(1 + r.Intn(4))
		fr := clip.FillRule(r.Intn(4))
		q := func(p clip.PathsD) clip.Paths64 { return clip.ScalePathsDToPaths64(p, scale) }
		u := func(p clip.Paths64) clip.PathsD { return clip.ScalePaths64ToPathsD(p, inv) }
		delta := []float64{1.5, -1.5, 3, 0.4, 10, 0, 0, 0.1, -0.25}[r.Intn(9)] / math.Pow(10, float64(gp))
		arct := []float64{0, 0.25, 1}[r.Intn(3)] / math.Pow(10, float64(gp))
		jt := clip.JoinType(r.Intn(4))
		et := clip.EndType(r.Intn(5))
		closed := r.Bool()
		isOpen := r.Bool()
		qs := math.Pow(10, float64(gp))
		rl, rt := float64(r.Range(0, 20))/qs+0.5/qs, float64(r.Range(0, 20))/qs
		rr, rb := rl+float64(r.Range(5, 60))/qs+0.5/qs, rt+float64(r.Range(5, 60))/qs
		rectD := clip.NewRectD(rl, rt, rr, rb)
		if r.Intn(4) == 0 {
			// a segment hugging the rectangle's top (or bottom) side from outside by less than half a quantum: outside the
			// float rectangle, on the boundary of the quantised one
			y := rt - 0.4/qs
			if r.Bool() {
				y = rb + 0.4/qs
			}
			s = append(s, clip.PathD{{X: rl + 1/qs, Y: y}, {X: rr - 1/qs, Y: y}})
		}
		// "rectangle bounds are quantised like path coordinates"
		qr := clip.ScalePathDToPath64(clip.PathD{{X: rl, Y: rt}, {X: rr, Y: rb}}, scale)
		rect64 := clip.NewRect64(qr[0].X, qr[0].Y, qr[1].X, qr[1].Y)
		calls := []dcall{
			{"BooleanOpPathsD", func() any { return clip.BooleanOpPathsD(ct, s, c, fr, prec) }, func() any { return u(clip.BooleanOpPaths64(ct, q(s), q(c), fr)) }},
			{"UnionPathsD", func() any { return clip.UnionPathsD(s, fr, prec) }, func() any { return u(clip.UnionPaths64(q(s), fr)) }},
			{"DifferenceWithClipPathsD", func() any { return clip.DifferenceWithClipPathsD(s, c, fr, prec) }, func() any { return u(clip.DifferenceWithClipPaths64(q(s), q(c), fr)) }},
			{"ClipperD.ExecuteOC", func() any {
				cl := clip.NewClipperD(prec)
				cl.AddPaths(s, clip.Subject, false)
				cl.AddPaths(c, clip.Clip, false)
				var a, b clip.PathsD
				cl.ExecuteOC(ct, fr, &a, &b)
				return []clip.PathsD{normD(a), normD(b)}
			}, func() any {
				cl := clip.NewClipper64()
				cl.AddPaths(q(s), clip.Subject, false)
				cl.AddPaths(q(c), clip.Clip, false)
				var a, b clip.Paths64
				cl.ExecuteOC(ct, fr, &a, &b)
				return []clip.PathsD{normD(u(a)), normD(u(b))}
			}},
			{"ClipperD open subject ExecuteOC", func() any {
				cl := clip.NewClipperD(prec)
				cl.AddPaths(s, clip.Subject, true)
				cl.AddPaths(c, clip.Clip, false)
				var a, b clip.PathsD
				cl.ExecuteOC(ct, fr, &a, &b)
				return []clip.PathsD{normD(a), normD(b)}
			}, func() any {
				cl := clip.NewClipper64()
				cl.AddPaths(q(s), clip.Subject, true)
				cl.AddPaths(q(c), clip.Clip, false)
				var a, b clip.Paths64
				cl.ExecuteOC(ct, fr, &a, &b)
				return []clip.PathsD{normD(u(a)), normD(u(b))}
			}},
			{"ClipperD open subject ExecutePolyTreeD", func() any {
				cl := clip.NewClipperD(prec)
				cl.AddPaths(s, clip.Subject, true)
				cl.AddPaths(c, clip.Subject, false)
				cl.AddPaths(c, clip.Clip, false)
				t := clip.NewPolyTreeD()
				var b clip.PathsD
				cl.ExecutePolyTreeD(ct, fr, t, &b)
				return []any{treePolys(t.PolyPathBase), normD(b)}
			}, func() any {
				// the tree of the 64-bit engine; its open paths through ExecuteOC (the 64-bit tree call takes no open result in 64-bit form)
				cl := clip.NewClipper64()
				cl.AddPaths(q(s), clip.Subject, true)
				cl.AddPaths(q(c), clip.Subject, false)
				cl.AddPaths(q(c), clip.Clip, false)
				t := clip.NewPolyTree64()
				var od clip.PathsD
				cl.ExecutePolyTree64(ct, fr, t, &od)
				c2 := clip.NewClipper64()
				c2.AddPaths(q(s), clip.Subject, true)
				c2.AddPaths(q(c), clip.Subject, false)
				c2.AddPaths(q(c), clip.Clip, false)
				var a, b clip.Paths64
				c2.ExecuteOC(ct, fr, &a, &b)
				return []any{treePolys(t.PolyPathBase), normD(u(b))}
			}},
			{"ClipperD object reused (tree, flat, add, flat, tree, flat)", func() any {
				// the float engine object over several executions: every step must equal the same step of a 64-bit engine
				cl := clip.NewClipperD(prec)
				cl.AddPaths(s, clip.Subject, false)
				cl.AddPaths(c, clip.Clip, false)
				t := clip.NewPolyTreeD()
				var o clip.PathsD
				cl.ExecutePolyTreeD(ct, fr, t, &o)
				var a1, b1, a2, b2, a3, b3 clip.PathsD
				cl.ExecuteOC(ct, fr, &a1, &b1)
				cl.AddPaths(c, clip.Subject, false)
				cl.ExecuteOC(clip.Union, fr, &a2, &b2)
				t2 := clip.NewPolyTreeD()
				cl.ExecutePolyTreeD(clip.Xor, fr, t2, &o)
				cl.ExecuteOC(clip.Union, fr, &a3, &b3)
				return []any{treePolys(t.PolyPathBase), normD(a1), normD(b1), normD(a2), normD(b2), normD(a3), normD(b3)}
			}, func() any {
				cl := clip.NewClipper64()
				cl.AddPaths(q(s), clip.Subject, false)
				cl.AddPaths(q(c), clip.Clip, false)
				t := clip.NewPolyTree64()
				var o clip.PathsD
				cl.ExecutePolyTree64(ct, fr, t, &o)
				var a1, b1, a2, b2, a3, b3 clip.Paths64
				cl.ExecuteOC(ct, fr, &a1, &b1)
				cl.AddPaths(q(c), clip.Subject, false)
				cl.ExecuteOC(clip.Union, fr, &a2, &b2)
				t2 := clip.NewPolyTree64()
				cl.ExecutePolyTree64(clip.Xor, fr, t2, &o)
				cl.ExecuteOC(clip.Union, fr, &a3, &b3)
				return []any{treePolys(t.PolyPathBase), normD(u(a1)), normD(u(b1)), normD(u(a2)), normD(u(b2)), normD(u(a3)), normD(u(b3))}
			}},
			{"BooleanOpPolyTreeD", func() any { return treePolys(clip.BooleanOpPolyTreeD(ct, s, c, fr, prec).PolyPathBase) }, func() any { return treePolys(clip.BooleanOpPolyTree64(ct, q(s), q(c), fr).PolyPathBase) }},
			{"InflatePathsD", func() any {
				return clip.InflatePathsD(s, delta, jt, et, clip.WithPrecision(prec), clip.WithArcTolerance(arct))
			}, func() any {
				return u(clip.InflatePaths64(q(s), delta*scale, jt, et, clip.WithArcTolerance(arct*scale)))
			}},
			{"MinkowskiSumD", func() any { return clip.MinkowskiSumD(s[0], c[0], closed, prec) }, func() any { return u(clip.MinkowskiSum64(q(s)[0], q(c)[0], closed)) }},
			{"MinkowskiDiffD", func() any { return clip.MinkowskiDiffD(s[0], c[0], closed, prec) }, func() any { return u(clip.MinkowskiDiff64(q(s)[0], q(c)[0], closed)) }},
			{"RectClipPathsD", func() any { return clip.RectClipPathsD(rectD, s, prec) }, func() any { return u(clip.RectClipPaths64(rect64, q(s))) }},
			{"RectClipLinesPathsD", func() any { return clip.RectClipLinesPathsD(rectD, s, prec) }, func() any { return u(clip.RectClipLinesPaths64(rect64, q(s))) }},
			{"TrimCollinearD", func() any { return clip.PathsD{clip.TrimCollinearD(s[0], prec, isOpen)} }, func() any { return u(clip.Paths64{clip.TrimCollinear64(q(s)[0], isOpen)}) }},
		}
		for _, cl := range calls {
			var got, want any
			perr := safeCall(func() { got = cl.d() })
			desc := map[string]any{"api": cl.name, "precision": prec, "subject": pathsDHex(s), "clip": pathsDHex(c), "ct": int(ct), "fr": int(fr),
				"delta": delta, "arc_tolerance": arct, "jt": int(jt), "et": int(et), "closed": closed, "is_open": isOpen, "rect": []float64{rl, rt, rr, rb}}
			e.Count("api=" + cl.name)
			if !legal {
				if perr != clip.ErrPrecisionRange.Error() {
					desc["kind"] = fmt.Sprintf("precision %d is outside [-8, 8] but the call did not raise the precision-range panic (got: %q)", prec, perr)
					desc["known_key"] = "precision-not-validated:" + cl.name
					e.Fail(desc)
				}
				continue
			}
			if perr != "" {
				desc["kind"] = "panic for a legal precision: " + perr
				e.Fail(desc)
				continue
			}
			werr := safeCall(func() { want = cl.ref() })
			if werr != "" {
				desc["kind"] = "the 64-bit counterpart panics on the quantised input: " + werr
				e.Fail(desc)
				continue
			}
			same := reflect.DeepEqual(got, want)
			if gd, ok := got.(clip.PathsD); ok {
				same = bitsEqualD(gd, want.(clip.PathsD))
			}
			if !same {
				desc["kind"] = "result differs from the 64-bit counterpart on quantised input"
				if prec == 0 {
					desc["known_key"] = "precision-zero-means-two"
				}
				desc["got"], desc["want"] = fmt.Sprint(got), fmt.Sprint(want)
				for _, k := range []string{"got", "want"} {
					if v := desc[k].(string); len(v) > 1500 {
						desc[k] = v[:1500]
					}
				}
				e.Fail(desc)
			}
		}
		e.Case(fmt.Sprintf("c07-%d", i), "noop", map[string]any{"precision": prec, "calls": len(calls), "subject": pathsDHex(s)})
		e.Count(fmt.Sprintf("precision=%d", prec))
		e.Nontrivial(fmt.Sprint(i))
	}
}

func pathsDHex(ps clip.PathsD) [][][2]string {
	out := make([][][2]string, len(ps))
	for i, p := range ps {
		out[i] = make([][2]string, len(p))
		for j, q := range p {
			out[i][j] = [2]string{fmt.Sprintf("%x", q.X), fmt.Sprintf("%x", q.Y)}
		}
	}
	return out
}

func normD(p clip.PathsD) clip.PathsD {
	if len(p) == 0 {
		return nil
	}
	return p
}
