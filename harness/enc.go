package main

import (
	"fmt"
	"math/big"
	"strings"

	clip "github.com/bolom009/go-clipper2"
)

func encPath(sb *strings.Builder, p clip.Path64) {
	fmt.Fprintf(sb, " %d", len(p))
	for _, pt := range p {
		fmt.Fprintf(sb, " %d %d", pt.X, pt.Y)
	}
}

func encPaths(sb *strings.Builder, ps clip.Paths64) {
	fmt.Fprintf(sb, " %d", len(ps))
	for _, p := range ps {
		encPath(sb, p)
	}
}

func encRats(sb *strings.Builder, ys []*big.Rat) {
	fmt.Fprintf(sb, " %d", len(ys))
	for _, y := range ys {
		if y.IsInt() {
			fmt.Fprintf(sb, " %s", y.Num().String())
		} else {
			fmt.Fprintf(sb, " %s/%s", y.Num().String(), y.Denom().String())
		}
	}
}

func pathsJSON(ps clip.Paths64) [][][2]int64 {
	out := make([][][2]int64, len(ps))
	for i, p := range ps {
		out[i] = make([][2]int64, len(p))
		for j, pt := range p {
			out[i][j] = [2]int64{pt.X, pt.Y}
		}
	}
	return out
}

func pathsFromJSON(j [][][2]int64) clip.Paths64 {
	out := make(clip.Paths64, len(j))
	for i, p := range j {
		out[i] = make(clip.Path64, len(p))
		for k, pt := range p {
			out[i][k] = clip.Point64{X: pt[0], Y: pt[1]}
		}
	}
	return out
}

func clonePaths(ps clip.Paths64) clip.Paths64 {
	if ps == nil {
		return nil
	}
	out := make(clip.Paths64, len(ps))
	for i, p := range ps {
		out[i] = append(clip.Path64{}, p...)
	}
	return out
}

func pathsEqual(a, b clip.Paths64) bool {
	if len(a) != len(b) {
		return false
	}
	for i := range a {
		if len(a[i]) != len(b[i]) {
			return false
		}
		for j := range a[i] {
			if a[i][j] != b[i][j] {
				return false
			}
		}
	}
	return true
}
