package main

// K3 decision rules: clipper_base.go:isContributingClosed and isContributingOpen — the
// fill-rule / clip-type decision tables of the sweep — are translated from /repo's
// current source into Gallina functions of (fill rule, clip type, the edge's two wind
// counts, subject-or-clip) in coq/Gen/Decisions_gen.v on every run.  The theorems
// (Model/DecisionProofs.v, Props/C01.v, C09.v, C19.v) state that the translated rule
// says "contributing" exactly when the expected region (Base/Geom.v: filled, expected)
// differs across the edge.
//
// Supported Go subset: switch on c.fillRule / c.clipType with constant cases (no
// fallthrough), if/else, return, local bool/int variables (var, :=, =), integer and
// boolean expressions, math.Abs(float64(x)), getPolyType(ae) ==/!= Subject|Clip.

import (
	"fmt"
	"go/ast"
	"go/parser"
	"go/token"
	"os"
	"path/filepath"
	"strings"
)

func init() { commands["decisions"] = cmdDecisions }

var enumCtors = map[string][]string{
	"fr": {"EvenOdd", "NonZero", "Positive", "Negative"},
	"ct": {"NoClip", "Intersection", "Union", "Difference", "Xor"},
}

type decTr struct {
	recv, edge string // receiver and edge parameter names
	err        string
}

type decEnv struct {
	val map[string]string // local variable -> Gallina term
	typ map[string]string // local variable -> "bool" | "Z"
}

func (e decEnv) clone() decEnv {
	n := decEnv{map[string]string{}, map[string]string{}}
	for k, v := range e.val {
		n.val[k] = v
	}
	for k, v := range e.typ {
		n.typ[k] = v
	}
	return n
}

func (t *decTr) fail(format string, a ...any) string {
	if t.err == "" {
		t.err = fmt.Sprintf(format, a...)
	}
	return "ERR"
}

func (t *decTr) sel(x ast.Expr) (string, bool) {
	s, ok := x.(*ast.SelectorExpr)
	if !ok {
		return "", false
	}
	id, ok := s.X.(*ast.Ident)
	if !ok {
		return "", false
	}
	switch {
	case id.Name == t.recv && s.Sel.Name == "fillRule":
		return "fr", true
	case id.Name == t.recv && s.Sel.Name == "clipType":
		return "ct", true
	case id.Name == t.edge && s.Sel.Name == "windCount":
		return "wc", true
	case id.Name == t.edge && s.Sel.Name == "windCount2":
		return "wc2", true
	}
	return "", false
}

func (t *decTr) isBool(x ast.Expr, env decEnv) bool {
	switch e := x.(type) {
	case *ast.ParenExpr:
		return t.isBool(e.X, env)
	case *ast.Ident:
		return e.Name == "true" || e.Name == "false" || env.typ[e.Name] == "bool"
	case *ast.UnaryExpr:
		return e.Op == token.NOT
	case *ast.BinaryExpr:
		switch e.Op {
		case token.LAND, token.LOR, token.EQL, token.NEQ, token.LSS, token.GTR, token.LEQ, token.GEQ:
			return true
		}
	}
	return false
}

func (t *decTr) zexpr(x ast.Expr, env decEnv) string {
	switch e := x.(type) {
	case *ast.ParenExpr:
		return t.zexpr(e.X, env)
	case *ast.BasicLit:
		if e.Kind == token.INT {
			return "(" + e.Value + ")"
		}
	case *ast.Ident:
		if v, ok := env.val[e.Name]; ok && env.typ[e.Name] == "Z" {
			return v
		}
	case *ast.UnaryExpr:
		if e.Op == token.SUB {
			return "(- " + t.zexpr(e.X, env) + ")"
		}
	case *ast.SelectorExpr:
		if v, ok := t.sel(e); ok && (v == "wc" || v == "wc2") {
			return v
		}
	case *ast.BinaryExpr:
		switch e.Op {
		case token.ADD:
			return "(" + t.zexpr(e.X, env) + " + " + t.zexpr(e.Y, env) + ")"
		case token.SUB:
			return "(" + t.zexpr(e.X, env) + " - " + t.zexpr(e.Y, env) + ")"
		case token.MUL:
			return "(" + t.zexpr(e.X, env) + " * " + t.zexpr(e.Y, env) + ")"
		}
	case *ast.CallExpr:
		// math.Abs(float64(x)) with x an int: exact, |x| as an integer; float64(x), int(x) are the identity here
		if s, ok := e.Fun.(*ast.SelectorExpr); ok && len(e.Args) == 1 {
			if p, ok := s.X.(*ast.Ident); ok && p.Name == "math" && s.Sel.Name == "Abs" {
				return "(Z.abs " + t.zexpr(e.Args[0], env) + ")"
			}
		}
		if id, ok := e.Fun.(*ast.Ident); ok && len(e.Args) == 1 && (id.Name == "float64" || id.Name == "int" || id.Name == "int64") {
			return t.zexpr(e.Args[0], env)
		}
		if id, ok := e.Fun.(*ast.Ident); ok && len(e.Args) == 1 && id.Name == "absInt" {
			return "(Z.abs " + t.zexpr(e.Args[0], env) + ")"
		}
	}
	return t.fail("unsupported integer expression %T", x)
}

func (t *decTr) bexpr(x ast.Expr, env decEnv) string {
	switch e := x.(type) {
	case *ast.ParenExpr:
		return t.bexpr(e.X, env)
	case *ast.Ident:
		if e.Name == "true" || e.Name == "false" {
			return e.Name
		}
		if v, ok := env.val[e.Name]; ok && env.typ[e.Name] == "bool" {
			return v
		}
	case *ast.UnaryExpr:
		if e.Op == token.NOT {
			return "(negb " + t.bexpr(e.X, env) + ")"
		}
	case *ast.BinaryExpr:
		switch e.Op {
		case token.LOR:
			return "(" + t.bexpr(e.X, env) + " || " + t.bexpr(e.Y, env) + ")"
		case token.LAND:
			return "(" + t.bexpr(e.X, env) + " && " + t.bexpr(e.Y, env) + ")"
		case token.EQL, token.NEQ:
			var inner string
			if c, ok := e.X.(*ast.CallExpr); ok {
				// getPolyType(ae) == Subject / Clip
				if id, ok := c.Fun.(*ast.Ident); ok && id.Name == "getPolyType" {
					if k, ok := e.Y.(*ast.Ident); ok && (k.Name == "Subject" || k.Name == "Clip") {
						inner = "is_subj"
						if k.Name == "Clip" {
							inner = "(negb is_subj)"
						}
					}
				}
			}
			if v, ok := t.sel(e.X); inner == "" && ok && (v == "fr" || v == "ct") {
				if k, ok := e.Y.(*ast.Ident); ok {
					inner = "(match " + v + " with " + k.Name + " => true | _ => false end)"
				}
			}
			if inner == "" {
				if t.isBool(e.X, env) {
					inner = "(Bool.eqb " + t.bexpr(e.X, env) + " " + t.bexpr(e.Y, env) + ")"
				} else {
					inner = "(" + t.zexpr(e.X, env) + " =? " + t.zexpr(e.Y, env) + ")"
				}
			}
			if e.Op == token.NEQ {
				return "(negb " + inner + ")"
			}
			return inner
		case token.LSS:
			return "(" + t.zexpr(e.X, env) + " <? " + t.zexpr(e.Y, env) + ")"
		case token.GTR:
			return "(" + t.zexpr(e.X, env) + " >? " + t.zexpr(e.Y, env) + ")"
		case token.LEQ:
			return "(" + t.zexpr(e.X, env) + " <=? " + t.zexpr(e.Y, env) + ")"
		case token.GEQ:
			return "(" + t.zexpr(e.X, env) + " >=? " + t.zexpr(e.Y, env) + ")"
		}
	}
	return t.fail("unsupported boolean expression %T", x)
}

// continuation-passing translation of a statement list into a boolean term
func (t *decTr) stmts(list []ast.Stmt, env decEnv, k func(decEnv) string) string {
	if t.err != "" {
		return "ERR"
	}
	if len(list) == 0 {
		return k(env)
	}
	rest := list[1:]
	cont := func(e decEnv) string { return t.stmts(rest, e, k) }
	switch s := list[0].(type) {
	case *ast.ReturnStmt:
		if len(s.Results) != 1 {
			return t.fail("return with %d results", len(s.Results))
		}
		return t.bexpr(s.Results[0], env)
	case *ast.DeclStmt:
		gd, ok := s.Decl.(*ast.GenDecl)
		if !ok || gd.Tok != token.VAR {
			return t.fail("unsupported declaration")
		}
		e2 := env.clone()
		for _, sp := range gd.Specs {
			vs := sp.(*ast.ValueSpec)
			ty, _ := vs.Type.(*ast.Ident)
			for i, nm := range vs.Names {
				switch {
				case len(vs.Values) > i && t.isBool(vs.Values[i], env):
					e2.val[nm.Name], e2.typ[nm.Name] = t.bexpr(vs.Values[i], env), "bool"
				case len(vs.Values) > i:
					e2.val[nm.Name], e2.typ[nm.Name] = t.zexpr(vs.Values[i], env), "Z"
				case ty != nil && ty.Name == "bool":
					e2.val[nm.Name], e2.typ[nm.Name] = "false", "bool"
				case ty != nil && strings.HasPrefix(ty.Name, "int"):
					e2.val[nm.Name], e2.typ[nm.Name] = "(0)", "Z"
				default:
					return t.fail("unsupported variable type")
				}
			}
		}
		return cont(e2)
	case *ast.AssignStmt:
		if len(s.Lhs) != len(s.Rhs) || (s.Tok != token.DEFINE && s.Tok != token.ASSIGN) {
			return t.fail("unsupported assignment")
		}
		e2 := env.clone()
		for i, l := range s.Lhs {
			id, ok := l.(*ast.Ident)
			if !ok {
				return t.fail("assignment to a non-local")
			}
			if t.isBool(s.Rhs[i], env) || env.typ[id.Name] == "bool" {
				e2.val[id.Name], e2.typ[id.Name] = t.bexpr(s.Rhs[i], env), "bool"
			} else {
				e2.val[id.Name], e2.typ[id.Name] = t.zexpr(s.Rhs[i], env), "Z"
			}
		}
		return cont(e2)
	case *ast.IfStmt:
		if s.Init != nil {
			return t.fail("if with init statement")
		}
		c := t.bexpr(s.Cond, env)
		thenB := t.stmts(s.Body.List, env.clone(), cont)
		var elseB string
		switch el := s.Else.(type) {
		case nil:
			elseB = cont(env.clone())
		case *ast.BlockStmt:
			elseB = t.stmts(el.List, env.clone(), cont)
		case *ast.IfStmt:
			elseB = t.stmts([]ast.Stmt{el}, env.clone(), cont)
		}
		return "(if " + c + " then " + thenB + " else " + elseB + ")"
	case *ast.SwitchStmt:
		if s.Init != nil || s.Tag == nil {
			return t.fail("unsupported switch form")
		}
		tag, ok := t.sel(s.Tag)
		if !ok || (tag != "fr" && tag != "ct") {
			return t.fail("switch on an unsupported expression")
		}
		covered := map[string]bool{}
		var arms []string
		deflt := ""
		hasDefault := false
		for _, cl := range s.Body.List {
			cc := cl.(*ast.CaseClause)
			for _, st := range cc.Body {
				if b, ok := st.(*ast.BranchStmt); ok && b.Tok == token.FALLTHROUGH {
					return t.fail("fallthrough")
				}
			}
			body := t.stmts(cc.Body, env.clone(), cont)
			if cc.List == nil {
				deflt, hasDefault = body, true
				continue
			}
			var pats []string
			for _, x := range cc.List {
				id, ok := x.(*ast.Ident)
				if !ok {
					return t.fail("non-constant case")
				}
				known := false
				for _, c := range enumCtors[tag] {
					known = known || c == id.Name
				}
				if !known || covered[id.Name] {
					return t.fail("unknown or repeated case %s", id.Name)
				}
				covered[id.Name] = true
				pats = append(pats, id.Name)
			}
			arms = append(arms, "| "+strings.Join(pats, " | ")+" => "+body)
		}
		if !hasDefault {
			deflt = cont(env.clone()) // no case matched: execution continues after the switch
		}
		if len(covered) < len(enumCtors[tag]) {
			arms = append(arms, "| _ => "+deflt)
		}
		return "(match " + tag + " with " + strings.Join(arms, " ") + " end)"
	}
	return t.fail("unsupported statement %T", list[0])
}

func cmdDecisions(r *RNG, n int, e *Emitter, args []string) {
	repo := "/repo"
	out := "/verif/coq/Gen/Decisions_gen.v"
	if len(args) > 0 {
		out = args[0]
	}
	fset := token.NewFileSet()
	src, err := os.ReadFile(repo + "/clipper_base.go")
	if err != nil {
		fmt.Println(err)
		os.Exit(1)
	}
	af, err := parser.ParseFile(fset, "clipper_base.go", src, 0)
	if err != nil {
		fmt.Println("parse error", err)
		os.Exit(1)
	}
	var sb strings.Builder
	sb.WriteString("(* GENERATED by `vh decisions` from /repo/clipper_base.go on every run. Do not edit. *)\n")
	sb.WriteString("From Coq Require Import ZArith Bool String.\nFrom Clip Require Import Base.Geom.\nOpen Scope Z_scope.\nOpen Scope bool_scope.\n\n")
	var found []string
	for _, want := range []string{"isContributingClosed", "isContributingOpen"} {
		var fn *ast.FuncDecl
		for _, d := range af.Decls {
			if f, ok := d.(*ast.FuncDecl); ok && f.Name.Name == want && f.Body != nil && f.Recv != nil {
				fn = f
			}
		}
		if fn == nil {
			fmt.Fprintf(&sb, "(* %s: NOT FOUND *)\nDefinition gen_%s_missing : string := \"not found\"%%string.\n\n", want, want)
			continue
		}
		t := &decTr{}
		if len(fn.Recv.List) == 1 && len(fn.Recv.List[0].Names) == 1 {
			t.recv = fn.Recv.List[0].Names[0].Name
		}
		if len(fn.Type.Params.List) == 1 && len(fn.Type.Params.List[0].Names) == 1 {
			t.edge = fn.Type.Params.List[0].Names[0].Name
		}
		term := t.stmts(fn.Body.List, decEnv{map[string]string{}, map[string]string{}}, func(decEnv) string { return t.fail("a path does not end in a return") })
		if t.err != "" {
			fmt.Fprintf(&sb, "(* clipper_base.go:%s: NOT TRANSLATABLE: %s *)\nDefinition gen_%s_untranslatable : string := \"%s\"%%string.\n\n", want, t.err, want, strings.ReplaceAll(t.err, "\"", "'"))
			continue
		}
		fmt.Fprintf(&sb, "(* clipper_base.go:%s *)\nDefinition gen_%s (fr : fillrule) (ct : cliptype) (wc wc2 : Z) (is_subj : bool) : bool :=\n  %s.\n\n", want, want, term)
		found = append(found, want)
	}
	os.MkdirAll(filepath.Dir(out), 0o755)
	if err := os.WriteFile(out, []byte(sb.String()), 0o644); err != nil {
		fmt.Println(err)
		os.Exit(1)
	}
	e.Case("decisions-0", "noop", map[string]any{"translated": found})
}
