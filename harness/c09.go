package main

import (
	"fmt"
	"math/big"
	"sort"
	"strings"

	clip "github.com/bolom009/go-clipper2"
)

func init() { commands["c09"] = cmdC09 }

// C09: open subject paths clipped against closed clip (and closed subject) polygons.
func cmdC09(r *RNG, n int, e *Emitter, args []string) {
	for i := 0; i < n; i++ {
		clearEvents()
		G := []int64{8, 12, 20, 40, 100}[r.Intn(5)]
		var info GenInfo
		info.Grid = G
		c := genPathSetN(r, G, 2, 6, &info)
		var sc clip.Paths64
		if r.Intn(3) == 0 {
			sc = genPathSetN(r, G, 1, 6, &info)
		}
		nl := 1 + r.Intn(3)
		open := make(clip.Paths64, nl)
		for k := range open {
			open[k] = genPolyline(r, G)
			if r.Intn(4) == 0 && len(c) > 0 && len(c[0]) > 1 {
				// start on a clip vertex / run along a clip edge
				open[k][0] = c[0][0]
				if r.Bool() {
					open[k][1] = c[0][1]
				}
			}
			if r.Intn(4) == 0 { // horizontal segment
				open[k][len(open[k])-1].Y = open[k][len(open[k])-2].Y
			}
			if r.Intn(3) == 0 { // horizontal segments anywhere, the first one included
				for j := 1; j < len(open[k]); j++ {
					if r.Intn(3) == 0 {
						open[k][j].Y = open[k][j-1].Y
					}
				}
				if r.Bool() {
					open[k][1].Y = open[k][0].Y
				}
			}
		}
		ct := clip.ClipType(1 + r.Intn(4))
		fr := clip.FillRule(r.Intn(4))
		var closedSol, openSol, closedOnly clip.Paths64
		ok := true
		perr := safeCall(func() {
			cl := clip.NewClipper64()
			cl.AddPaths(sc, clip.Subject, false)
			cl.AddPaths(open, clip.Subject, true)
			cl.AddPaths(c, clip.Clip, false)
			ok = cl.ExecuteOC(ct, fr, &closedSol, &openSol)
			c2 := clip.NewClipper64()
			c2.AddPaths(sc, clip.Subject, false)
			c2.AddPaths(c, clip.Clip, false)
			c2.Execute(ct, fr, &closedOnly)
		})
		meta := map[string]any{"open": pathsJSON(open), "subject": pathsJSON(sc), "clip": pathsJSON(c), "ct": int(ct), "fr": int(fr), "clip_nil": false}
		if perr != "" || !ok {
			meta["panic"], meta["kind"] = perr, "panic-or-failure"
			e.Fail(meta)
			continue
		}
		meta["open_solution"], meta["closed_solution"], meta["closed_without_open"] = pathsJSON(openSol), pathsJSON(closedSol), pathsJSON(closedOnly)
		var sb strings.Builder
		fmt.Fprintf(&sb, "noop")
		e.Case(fmt.Sprintf("c09-%d", i), sb.String(), meta)
		e.Count(fmt.Sprintf("ct=%d", ct))
		e.Count(fmt.Sprintf("fr=%d", fr))
		e.Count(fmt.Sprintf("open_solution_paths<=%d", bucket(len(openSol))))
		if len(openSol) > 0 {
			e.Nontrivial(fmt.Sprint(i))
		}
		// every open subject segment, against the closed inputs and the open solution
		closedE := allEdges(sc, c)
		for li, line := range open {
			for k := 0; k+1 < len(line); k++ {
				a, b := line[k], line[k+1]
				if a == b {
					continue
				}
				var sb2 strings.Builder
				fmt.Fprintf(&sb2, "c09seg %d %d 10", int(ct), int(fr))
				encPaths(&sb2, sc)
				encPaths(&sb2, c)
				encPaths(&sb2, openSol)
				fmt.Fprintf(&sb2, " %d %d %d %d", a.X, a.Y, b.X, b.Y)
				// certificate: slab boundaries including the segment itself; for horizontal segments the crossing parameters
				ys := slabYs(append(append([]Edge{}, closedE...), Edge{a, b}))
				encRats(&sb2, ys)
				encRats(&sb2, horizontalSplits(a, b, closedE))
				m2 := map[string]any{"open": meta["open"], "subject": meta["subject"], "clip": meta["clip"], "ct": int(ct), "fr": int(fr), "clip_nil": false,
					"open_solution": meta["open_solution"], "segment": [][2]int64{{a.X, a.Y}, {b.X, b.Y}}}
				e.Case(fmt.Sprintf("c09-%d.s%d.%d", i, li, k), sb2.String(), m2)
			}
		}
		// "open paths never appear in, or alter, the closed solution": the closed solution computed in the presence of
		// the open paths describes the same region as the one computed from the closed inputs alone (whether THAT is
		// the right region is C01's business)
		line, _ := genLine("sameodd", "4", []clip.Paths64{closedSol, closedOnly}, append(clonePaths(sc), c...), nil)
		e.Case(fmt.Sprintf("c09-%dc", i), line, meta)
	}
}

// for a horizontal segment: 0, the parameters at which non-horizontal closed edges cross its line, 1
// (re-oriented left to right, as the checker does)
func horizontalSplits(a, b clip.Point64, closed []Edge) []*big.Rat {
	if a.Y != b.Y || a.X == b.X {
		return []*big.Rat{big.NewRat(0, 1), big.NewRat(1, 1)}
	}
	if a.X > b.X {
		a, b = b, a
	}
	ts := []*big.Rat{big.NewRat(0, 1), big.NewRat(1, 1)}
	y := a.Y
	for _, e := range closed {
		lo, hi := e.A.Y, e.B.Y
		if lo > hi {
			lo, hi = hi, lo
		}
		if lo == hi || y < lo || y >= hi {
			continue
		}
		// x = A.x + (y - A.y) (B.x - A.x) / (B.y - A.y)
		x := new(big.Rat).SetFrac(big.NewInt((y-e.A.Y)*(e.B.X-e.A.X)), big.NewInt(e.B.Y-e.A.Y))
		x.Add(x, new(big.Rat).SetInt64(e.A.X))
		t := new(big.Rat).Sub(x, new(big.Rat).SetInt64(a.X))
		t.Quo(t, new(big.Rat).SetInt64(b.X-a.X))
		if t.Sign() > 0 && t.Cmp(big.NewRat(1, 1)) < 0 {
			ts = append(ts, t)
		}
	}
	sort.Slice(ts, func(i, j int) bool { return ts[i].Cmp(ts[j]) < 0 })
	out := ts[:1]
	for _, t := range ts[1:] {
		if t.Cmp(out[len(out)-1]) != 0 {
			out = append(out, t)
		}
	}
	return out
}
