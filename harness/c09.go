package main

import (
	"fmt"
	"strings"

	clip "github.com/bolom009/go-clipper2"
)

func init() { commands["c09"] = cmdC09 }

// C09: open subject paths clipped against closed clip (and closed subject) polygons.
func cmdC09(r *RNG, n int, e *Emitter, args []string) {
	for i := 0; i < n; i++ {
		takeDiscards()
		G := []int64{8, 12, 20, 40, 100}[r.Intn(5)]
		var info GenInfo
		info.Grid = G
		c := genPathSetN(r, G, 2, 6, &info)
		var sc clip.Paths64
		if r.Intn(3) == 0 {
			sc = genPathSetN(r, G, 1, 6, &info)
		}
		nl := 1 + r.Intn(3)
		open := make(clip.Paths64, nl)
		for k := range open {
			open[k] = genPolyline(r, G)
			if r.Intn(4) == 0 && len(c) > 0 && len(c[0]) > 1 {
				// start on a clip vertex / run along a clip edge
				open[k][0] = c[0][0]
				if r.Bool() {
					open[k][1] = c[0][1]
				}
			}
			if r.Intn(4) == 0 { // horizontal segment
				open[k][len(open[k])-1].Y = open[k][len(open[k])-2].Y
			}
		}
		ct := clip.ClipType(1 + r.Intn(4))
		fr := clip.FillRule(r.Intn(4))
		var closedSol, openSol, closedOnly clip.Paths64
		ok := true
		perr := safeCall(func() {
			cl := clip.NewClipper64()
			cl.AddPaths(sc, clip.Subject, false)
			cl.AddPaths(open, clip.Subject, true)
			cl.AddPaths(c, clip.Clip, false)
			ok = cl.ExecuteOC(ct, fr, &closedSol, &openSol)
			c2 := clip.NewClipper64()
			c2.AddPaths(sc, clip.Subject, false)
			c2.AddPaths(c, clip.Clip, false)
			c2.Execute(ct, fr, &closedOnly)
		})
		meta := map[string]any{"open": pathsJSON(open), "subject": pathsJSON(sc), "clip": pathsJSON(c), "ct": int(ct), "fr": int(fr), "clip_nil": false}
		if perr != "" || !ok {
			meta["panic"], meta["kind"] = perr, "panic-or-failure"
			e.Fail(meta)
			continue
		}
		meta["open_solution"], meta["closed_solution"], meta["closed_without_open"] = pathsJSON(openSol), pathsJSON(closedSol), pathsJSON(closedOnly)
		var sb strings.Builder
		fmt.Fprintf(&sb, "noop")
		e.Case(fmt.Sprintf("c09-%d", i), sb.String(), meta)
		e.Count(fmt.Sprintf("ct=%d", ct))
		e.Count(fmt.Sprintf("fr=%d", fr))
		e.Count(fmt.Sprintf("open_solution_paths<=%d", bucket(len(openSol))))
		if len(openSol) > 0 {
			e.Nontrivial(fmt.Sprint(i))
		}
		// the closed solution must be the boolean region of the CLOSED inputs alone (C01's certificate)
		line, _ := genLine(fmt.Sprintf("bool %d %d", int(ct), int(fr)), "4", []clip.Paths64{sc, c, closedSol}, append(clonePaths(sc), c...), nil)
		e.Case(fmt.Sprintf("c09-%dc", i), line, meta)
	}
}
