package main

// K3 translator: prints the bodies of the wrapper functions of /repo's current
// source as terms of the wrapper IR (coq/Model/WrapperIR.v).  Purely syntactic
// (go/ast); anything outside the supported subset becomes an Unsupported node,
// which makes the Coq evaluation stuck so that no theorem accepts it.

import (
	"fmt"
	"go/ast"
	"go/parser"
	"go/token"
	"os"
	"path/filepath"
	"sort"
	"strings"
)

func init() { commands["translate"] = cmdTranslate }

var wrapperFuncs = []string{
	"checkPrecision",
	"NewClipperD", "clipperD.AddPaths", "clipperD.Execute", "clipperD.ExecuteOC", "clipperD.ExecutePolyTreeD",
	"BooleanOpPathsD", "UnionPathsD", "UnionWithClipPathsD", "IntersectWithClipPathsD", "DifferenceWithClipPathsD", "XorWithClipPathsD", "BooleanOpPolyTreeD",
	"NewClipper64", "clipper64.AddPaths", "clipper64.Execute", "clipper64.ExecuteOC", "clipper64.ExecutePolyTree64",
	"BooleanOpPaths64", "UnionPaths64", "UnionWithClipPaths64", "IntersectWithClipPaths64", "DifferenceWithClipPaths64", "XorWithClipPaths64", "BooleanOpPolyTree64",
	"MinkowskiSumD", "MinkowskiDiffD", "MinkowskiSum64", "MinkowskiDiff64",
	"RectClipPathsD", "RectClipPathD", "RectClipLinesPathsD", "RectClipLinesPathD",
	"RectClipPaths64", "RectClipPath64", "RectClipLinesPaths64", "RectClipLinesPath64",
	"TrimCollinearD",
	"InflatePathsD", "InflatePaths64",
	"NewPolyTreeD", "NewPolyTree64",
	"ScalePathsDToPaths64", "ScalePaths64ToPathsD",
}

func qs(s string) string { return "\"" + strings.ReplaceAll(s, "\"", "'") + "\"" }

func coqList(items []string) string { return "[" + strings.Join(items, "; ") + "]" }

type translator struct {
	fset    *token.FileSet
	structs map[string][]string // struct type -> field names in declaration order (embedded fields by type name)
}

func (t *translator) exprs(es []ast.Expr) string {
	var out []string
	for _, e := range es {
		out = append(out, t.expr(e))
	}
	return coqList(out)
}

func typeName(e ast.Expr) string {
	switch x := e.(type) {
	case *ast.Ident:
		return x.Name
	case *ast.StarExpr:
		return typeName(x.X)
	case *ast.SelectorExpr:
		return typeName(x.X) + "." + x.Sel.Name
	case *ast.ArrayType:
		return "[]" + typeName(x.Elt)
	}
	return "?"
}

func (t *translator) expr(e ast.Expr) string {
	switch x := e.(type) {
	case *ast.Ident:
		switch x.Name {
		case "true":
			return "EBool true"
		case "false":
			return "EBool false"
		case "nil":
			return "ENil"
		}
		return "EVar " + qs(x.Name)
	case *ast.BasicLit:
		switch x.Kind {
		case token.INT:
			return "EInt (" + x.Value + ")%Z"
		case token.FLOAT:
			return "EFloat " + qs(x.Value)
		}
		return "EUnsupported " + qs("literal "+x.Value)
	case *ast.ParenExpr:
		return t.expr(x.X)
	case *ast.BinaryExpr:
		return fmt.Sprintf("EBin %s (%s) (%s)", qs(x.Op.String()), t.expr(x.X), t.expr(x.Y))
	case *ast.UnaryExpr:
		if x.Op == token.AND {
			return fmt.Sprintf("EAddr (%s)", t.expr(x.X))
		}
		if x.Op == token.SUB {
			if bl, ok := x.X.(*ast.BasicLit); ok && bl.Kind == token.INT {
				return "EInt (-" + bl.Value + ")%Z"
			}
		}
		return fmt.Sprintf("EUn %s (%s)", qs(x.Op.String()), t.expr(x.X))
	case *ast.StarExpr:
		return fmt.Sprintf("EDeref (%s)", t.expr(x.X))
	case *ast.SelectorExpr:
		return fmt.Sprintf("EField (%s) %s", t.expr(x.X), qs(x.Sel.Name))
	case *ast.IndexExpr:
		return fmt.Sprintf("EIndex (%s) (%s)", t.expr(x.X), t.expr(x.Index))
	case *ast.SliceExpr:
		if x.Low == nil && x.Max == nil && x.High != nil {
			if bl, ok := x.High.(*ast.BasicLit); ok && bl.Value == "0" {
				return fmt.Sprintf("ESlice0 (%s)", t.expr(x.X))
			}
		}
		return "EUnsupported " + qs("slice expression")
	case *ast.CompositeLit:
		ty := typeName(x.Type)
		var fields []string
		keyed := true
		for _, el := range x.Elts {
			if kv, ok := el.(*ast.KeyValueExpr); ok {
				fields = append(fields, fmt.Sprintf("(%s, %s)", qs(typeName(kv.Key)), t.expr(kv.Value)))
			} else {
				keyed = false
			}
		}
		if !keyed {
			if names, ok := t.structs[ty]; ok && len(names) == len(x.Elts) {
				fields = nil
				for i, el := range x.Elts {
					fields = append(fields, fmt.Sprintf("(%s, %s)", qs(names[i]), t.expr(el)))
				}
				return fmt.Sprintf("EComposite %s %s", qs(ty), coqList(fields))
			}
			return fmt.Sprintf("ECall %s %s", qs("list:"+ty), t.exprs(x.Elts))
		}
		return fmt.Sprintf("EComposite %s %s", qs(ty), coqList(fields))
	case *ast.CallExpr:
		args := make([]string, 0, len(x.Args))
		for i, a := range x.Args {
			s := t.expr(a)
			if x.Ellipsis != token.NoPos && i == len(x.Args)-1 {
				s = fmt.Sprintf("EUn \"spread\" (%s)", s)
			}
			args = append(args, s)
		}
		al := coqList(args)
		switch f := x.Fun.(type) {
		case *ast.Ident:
			if f.Name == "make" {
				return fmt.Sprintf("EMake %s %s", qs(typeName(x.Args[0])), coqList(args[1:]))
			}
			return fmt.Sprintf("ECall %s %s", qs(f.Name), al)
		case *ast.SelectorExpr:
			if id, ok := f.X.(*ast.Ident); ok && (id.Name == "math" || id.Name == "decimal" || id.Name == "fmt" || id.Name == "sort") {
				return fmt.Sprintf("ECall %s %s", qs(id.Name+"."+f.Sel.Name), al)
			}
			return fmt.Sprintf("EMeth (%s) %s %s", t.expr(f.X), qs(f.Sel.Name), al)
		}
		return "EUnsupported " + qs("call of a computed function")
	}
	return "EUnsupported " + qs(fmt.Sprintf("%T", e))
}

func (t *translator) block(b *ast.BlockStmt) string {
	if b == nil {
		return "[]"
	}
	var out []string
	for _, s := range b.List {
		out = append(out, t.stmt(s))
	}
	return coqList(out)
}

func (t *translator) stmt(s ast.Stmt) string {
	switch x := s.(type) {
	case *ast.AssignStmt:
		if len(x.Lhs) == 1 && len(x.Rhs) == 1 && (x.Tok == token.ASSIGN || x.Tok == token.DEFINE) {
			return fmt.Sprintf("SAssign (%s) (%s)", t.expr(x.Lhs[0]), t.expr(x.Rhs[0]))
		}
		return "SUnsupported " + qs("assignment form "+x.Tok.String())
	case *ast.ExprStmt:
		if c, ok := x.X.(*ast.CallExpr); ok {
			if id, ok := c.Fun.(*ast.Ident); ok && id.Name == "panic" && len(c.Args) == 1 {
				return fmt.Sprintf("SPanic (%s)", t.expr(c.Args[0]))
			}
		}
		return fmt.Sprintf("SExpr (%s)", t.expr(x.X))
	case *ast.IfStmt:
		if x.Init != nil {
			return "SUnsupported " + qs("if with init statement")
		}
		el := "[]"
		switch e := x.Else.(type) {
		case *ast.BlockStmt:
			el = t.block(e)
		case *ast.IfStmt:
			el = coqList([]string{t.stmt(e)})
		}
		return fmt.Sprintf("SIf (%s) %s %s", t.expr(x.Cond), t.block(x.Body), el)
	case *ast.ReturnStmt:
		return fmt.Sprintf("SReturn %s", t.exprs(x.Results))
	case *ast.RangeStmt:
		// for _, v := range COLL { DST = append(DST, F) }
		if x.Tok == token.DEFINE && x.Value != nil && len(x.Body.List) == 1 {
			if key, ok := x.Key.(*ast.Ident); ok && key.Name == "_" {
				if val, ok := x.Value.(*ast.Ident); ok {
					if as, ok := x.Body.List[0].(*ast.AssignStmt); ok && as.Tok == token.ASSIGN && len(as.Lhs) == 1 && len(as.Rhs) == 1 {
						if c, ok := as.Rhs[0].(*ast.CallExpr); ok {
							if id, ok := c.Fun.(*ast.Ident); ok && id.Name == "append" && len(c.Args) == 2 && t.expr(c.Args[0]) == t.expr(as.Lhs[0]) {
								return fmt.Sprintf("SRangeAppend %s (%s) (%s) (%s)", qs(val.Name), t.expr(x.X), t.expr(as.Lhs[0]), t.expr(c.Args[1]))
							}
						}
					}
				}
			}
		}
		// for i, v := range COLL { DST[i] = F }   (DST freshly made with len(COLL))
		if x.Tok == token.DEFINE && x.Value != nil && len(x.Body.List) == 1 {
			if key, ok := x.Key.(*ast.Ident); ok && key.Name != "_" {
				if val, ok := x.Value.(*ast.Ident); ok {
					if as, ok := x.Body.List[0].(*ast.AssignStmt); ok && as.Tok == token.ASSIGN && len(as.Lhs) == 1 && len(as.Rhs) == 1 {
						if ix, ok := as.Lhs[0].(*ast.IndexExpr); ok {
							if dst, ok := ix.X.(*ast.Ident); ok {
								if ii, ok := ix.Index.(*ast.Ident); ok && ii.Name == key.Name {
									return fmt.Sprintf("SRangeIndex %s %s (%s) %s (%s)", qs(key.Name), qs(val.Name), t.expr(x.X), qs(dst.Name), t.expr(as.Rhs[0]))
								}
							}
						}
					}
				}
			}
		}
		return "SUnsupported " + qs("range loop")
	case *ast.DeclStmt:
		return "SUnsupported " + qs("declaration statement")
	case *ast.BlockStmt:
		return "SUnsupported " + qs("nested block")
	}
	return "SUnsupported " + qs(fmt.Sprintf("%T", s))
}

func cmdTranslate(r *RNG, n int, e *Emitter, args []string) {
	out := "/verif/coq/Gen/Wrappers_gen.v"
	if len(args) > 0 {
		out = args[0]
	}
	fset := token.NewFileSet()
	files, _ := filepath.Glob("/repo/*.go")
	sort.Strings(files)
	want := map[string]bool{}
	for _, w := range wrapperFuncs {
		want[w] = true
	}
	found := map[string]string{}
	tr := &translator{fset, map[string][]string{}}
	// first pass: struct declarations
	for _, f := range files {
		if strings.HasSuffix(f, "_test.go") {
			continue
		}
		src, _ := os.ReadFile(f)
		if strings.HasPrefix(string(src), "//go:build verif\n") {
			continue
		}
		af, err := parser.ParseFile(fset, f, src, 0)
		if err != nil {
			continue
		}
		for _, d := range af.Decls {
			gd, ok := d.(*ast.GenDecl)
			if !ok || gd.Tok != token.TYPE {
				continue
			}
			for _, sp := range gd.Specs {
				ts := sp.(*ast.TypeSpec)
				st, ok := ts.Type.(*ast.StructType)
				if !ok {
					continue
				}
				var names []string
				for _, fl := range st.Fields.List {
					if len(fl.Names) == 0 {
						names = append(names, typeName(fl.Type))
					}
					for _, nm := range fl.Names {
						names = append(names, nm.Name)
					}
				}
				tr.structs[ts.Name.Name] = names
			}
		}
	}
	for _, f := range files {
		if strings.HasSuffix(f, "_test.go") {
			continue
		}
		src, _ := os.ReadFile(f)
		if strings.HasPrefix(string(src), "//go:build verif\n") {
			continue
		}
		af, err := parser.ParseFile(fset, f, src, 0)
		if err != nil {
			fmt.Println(err)
			os.Exit(1)
		}
		for _, d := range af.Decls {
			fd, ok := d.(*ast.FuncDecl)
			if !ok || fd.Body == nil {
				continue
			}
			name := fd.Name.Name
			recv := "None"
			if fd.Recv != nil && len(fd.Recv.List) == 1 {
				name = typeName(fd.Recv.List[0].Type) + "." + name
				if len(fd.Recv.List[0].Names) == 1 {
					recv = "(Some " + qs(fd.Recv.List[0].Names[0].Name) + ")"
				}
			}
			if !want[name] {
				continue
			}
			var params []string
			variadic := "false"
			for _, p := range fd.Type.Params.List {
				if _, ok := p.Type.(*ast.Ellipsis); ok {
					variadic = "true"
				}
				for _, nm := range p.Names {
					params = append(params, qs(nm.Name))
				}
			}
			found[name] = fmt.Sprintf("  mkFunc %s %s %s %s\n    %s", qs(name), recv, coqList(params), variadic, tr.block(fd.Body))
		}
	}
	var sb strings.Builder
	sb.WriteString("(* GENERATED by `vh translate` from /repo's current source on every run. Do not edit. *)\n")
	sb.WriteString("From Coq Require Import String List ZArith.\nFrom Clip Require Import Model.WrapperIR.\nImport ListNotations.\nOpen Scope string_scope.\n\n")
	sb.WriteString("Definition wrappers : list func := [\n")
	var names []string
	for _, w := range wrapperFuncs {
		if _, ok := found[w]; ok {
			names = append(names, w)
		}
	}
	for i, w := range names {
		sb.WriteString(found[w])
		if i+1 < len(names) {
			sb.WriteString(";\n")
		}
	}
	sb.WriteString("\n].\n\n")
	var missing []string
	for _, w := range wrapperFuncs {
		if _, ok := found[w]; !ok {
			missing = append(missing, qs(w))
		}
	}
	fmt.Fprintf(&sb, "Definition wrappers_missing : list string := %s.\n", coqList(missing))
	os.MkdirAll(filepath.Dir(out), 0o755)
	if err := os.WriteFile(out, []byte(sb.String()), 0o644); err != nil {
		fmt.Println(err)
		os.Exit(1)
	}
	e.Case("translate-0", "noop", map[string]any{"functions": names, "missing": missing})
}
