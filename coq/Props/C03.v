(* Props/C03.v — C03: every entry point is total.  What a theorem carries here
   is the totality of the modelled leaf routines, for ALL inputs: no index
   expression out of range, no loop running out of its (input-bounded) fuel, no
   panic branch reachable.  The sweep, the offsetter's join code and the
   rectangle clipper have no algorithmic model: for them totality is observed
   by the hostile-input stream of the check (PARTIAL, see evidence). *)
From Coq Require Import ZArith List Bool Lia.
From Clip Require Import Base.Int64 Model.Arith Model.Trim Model.TrimProofs Model.Minkowski Model.MinkowskiProofs
     Model.Measures Model.MeasuresProofs.
Import ListNotations.

(* TrimCollinear64: the checked variant (nth_error everywhere, signed index
   arithmetic, None on fuel exhaustion) always succeeds and agrees with the model *)
Theorem C03_trim_total : forall p o, trimE isCollinear p o = Some (TrimCollinear64 p o).
Proof. exact (trim_total isCollinear). Qed.

(* minkowskiInternal never panics (after fix a8d04ba; before it, the empty open path did) *)
Theorem C03_minkowski_total : forall pat p s c, exists r, minkowskiInternal pat p s c = MOk r.
Proof. exact mink_total. Qed.

(* PointInPolygon: the index-walking loop terminates within 2*len+4 rounds and stays in range *)
Theorem C03_pip_total : forall q poly, pip_model q poly = IsOn \/ pip_model q poly = IsInside \/ pip_model q poly = IsOutside.
Proof. exact pip_total. Qed.

(* the documented precision check: exactly the precisions outside [-8, 8] are rejected *)
Definition checkPrecision_panics (p : Z) : bool := (p <? -8)%Z || (p >? 8)%Z.
Theorem C03_precision_total : forall p, checkPrecision_panics p = false <-> (-8 <= p <= 8)%Z.
Proof. intros p. unfold checkPrecision_panics. rewrite orb_false_iff, Z.ltb_ge, Z.gtb_ltb, Z.ltb_ge. lia. Qed.

Print Assumptions C03_trim_total.
Print Assumptions C03_minkowski_total.
Print Assumptions C03_pip_total.
