(* Props/C16.v — C16: SimplifyPath removes only near-collinear vertices and
   stops when none is left.  Theorems about the parametric model
   Model/Simplify.v instantiated with the float-faithful distance
   (Model/SimplifyF64.v); the instance is compared exactly with the Go
   functions on every run. *)
From Coq Require Import QArith ZArith List Bool Lia.
From Clip Require Import Base.Int64 Model.Arith Model.Simplify Model.SimplifyProofs Model.SimplifyF64.
Import ListNotations.

(* totality: the greedy loop terminates and every index is in range, for every
   distance function and comparison (hence for every float behaviour, NaN included) *)
Theorem C16_total : forall eps path c, SimplifyPath64_model eps path c <> None.
Proof. intros. apply simplify_total. Qed.
Theorem C16_total_D : forall eps path c, SimplifyPathD_model eps path c <> None.
Proof. intros. apply simplify_total. Qed.

(* paths with fewer than 4 points are returned as they are *)
Theorem C16_short : forall eps path c, (length path < 4)%nat -> SimplifyPath64_model eps path c = Some path.
Proof. intros. apply simplify_short. assumption. Qed.

(* the result is a sub-sequence of the input *)
Theorem C16_subsequence : forall eps path c r, SimplifyPath64_model eps path c = Some r -> subseq r path.
Proof. intros eps path c r H. eapply simplify_subseq. exact H. Qed.

(* open paths keep both end points, provided epsilon^2 is below MaxFloat64 and no
   distance exceeds MaxFloat64 (true of every finite float64) *)
Theorem C16_open_ends : forall eps path r,
  Qgtb dmax_exact (fmul eps eps) = true ->
  (forall p a b, In p path -> In a path -> In b path -> Qltb dmax_exact (perp_f64 p a b) = false) ->
  (4 <= length path)%nat ->
  SimplifyPath64_model eps path false = Some r ->
  hd_error r = hd_error path /\ forall d, last r d = last path d.
Proof.
  intros eps path r H1 H2 H3 H4.
  eapply (simplify_open_ends pt Q perp_f64 dmax_exact Qgtb Qltb (fmul eps eps) path H1); eauto.
Qed.

(* on return, every retained vertex (end points of open paths aside) is farther
   than epsilon from the line through its two retained neighbours, unless fewer
   than 3 vertices remain.  `gap flags p i` says p is the nearest retained index
   before i, cyclically.  (The disjunction: the code passes the two line points
   in either order, which may differ in the last float bit.) *)
Theorem C16_post : forall eps path c r,
  (4 <= length path)%nat -> SimplifyPath64_model eps path c = Some r -> (3 <= length r)%nat ->
  exists flags, r = select flags path /\ length flags = length path /\
    forall i p nx Pi Pp Pn,
      fl flags i = false -> fl flags p = false -> fl flags nx = false ->
      gap flags p i -> gap flags i nx ->
      (c = true \/ (i <> 0 /\ i <> length path - 1)%nat) ->
      nth_error path i = Some Pi -> nth_error path p = Some Pp -> nth_error path nx = Some Pn ->
      Qgtb (perp_f64 Pi Pp Pn) (fmul eps eps) = true \/ Qgtb (perp_f64 Pi Pn Pp) (fmul eps eps) = true.
Proof.
  intros eps path c r H4 Hs H3.
  destruct (simplify_post_result pt Q perp_f64 dmax_exact Qgtb Qltb (fmul eps eps) path c r H4 Hs H3)
    as [flags [_ [Hr [Hl Hp]]]].
  exists flags. split; [exact Hr|]. split; [exact Hl|]. exact Hp.
Qed.

(* the same post-condition with exact rational distances (the specification reading) *)
Definition C16_post_exact := simplify_exact_post.

Print Assumptions C16_total.
Print Assumptions C16_post.
Print Assumptions C16_open_ends.

(* K3: the distance functions of the model are what /repo's source says now: the terms regenerated
   from clipper.go:PerpendicDistFromLineSqr64 / PerpendicDistFromLineSqrD (and generics.go:sqr) on
   every run (Gen/Kernels_gen.v) ARE perp_f64 / perp_f64D, so the theorems above are about the
   current source, in float64 arithmetic, operation by operation *)
From Clip Require Import Model.KernelOps Gen.Kernels_gen Model.KernelProofs.
Theorem C16_distance_from_source : forall p l1 l2,
  gen_PerpendicDistFromLineSqr64 (px p) (py p) (px l1) (py l1) (px l2) (py l2) = perp_f64 p l1 l2.
Proof. exact gen_perp64_eq. Qed.
Theorem C16_distance_D_from_source : forall p l1 l2 : qpt2,
  gen_PerpendicDistFromLineSqrD (fst p) (snd p) (fst l1) (snd l1) (fst l2) (snd l2) = perp_f64D p l1 l2.
Proof. exact gen_perpD_eq. Qed.
Print Assumptions C16_distance_from_source.

(* the clause "with epsilon 0 only exactly collinear vertices disappear, so a closed path's area is
   unchanged" is FALSE of the code within magnitude 2^29: the float64 cross product a*d - c*b of the
   faithful model is 0 for a vertex whose exact cross product is not (both products exceed 2^53 and
   round to the same float).  Recorded in KNOWN_FINDINGS.txt (simplify-float-cancellation). *)
From Clip Require Import Model.Measures.
Theorem C16_eps0_area_refuted : exists path r,
  path_ok two29 path /\ SimplifyPath64_model 0 path true = Some r /\ shoelace2 r <> shoelace2 path.
Proof.
  exists [(-421936723, 133894770); (-536870909, -536870909); (-268436679, -268436675); (134214664, 134214674)]%Z.
  eexists. split; [|split].
  - repeat constructor; unfold two29; cbn; lia.
  - vm_compute. reflexivity.
  - vm_compute. discriminate.
Qed.

(* K3 tripwire for the hand-written models this file's theorems are about: the source text of the modelled functions is
   the text the models were last reconciled with (Model/Fingerprints.v, written by tools/update_fingerprints.sh after clean
   correspondence runs; Gen/Fingerprints_gen.v is regenerated from /repo on every run).  When this breaks, the functions
   were edited: the check widens its search for a failing input and reports the broken obligation either way. *)
From Coq Require Import String.
From Clip Require Import Gen.Fingerprints_gen Model.Fingerprints.
Theorem C16_modelled_source_unchanged :
  fps_agree gen_fingerprints ["SimplifyPath64"; "SimplifyPathD"; "getNext"; "getPrior"]%string = true.
Proof. vm_compute. reflexivity. Qed.
