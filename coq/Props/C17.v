(* Props/C17.v — C17: results are independent of how the input is written down.
   (i) The specification itself is invariant under every respelling the
       property lists: lemmas about wn, for all path sets and all real points.
   (ii) Two outputs accepted by the region-equality certificate have the same
       interior at every real point away from the input edges. *)
From Coq Require Import Reals QArith Qreals ZArith List Bool Permutation.
From Clip Require Import Base.Int64 Model.Arith Base.Geom Base.GeomLemmas Cert.Region Cert.RegionSpec
     Cert.Instances Cert.RegionSound.
Import ListNotations.

(* (i) respelling lemmas: restated here so that they cannot be weakened silently *)
Theorem C17_permute_paths : forall P1 P2 q, Permutation P1 P2 -> wn P1 q = wn P2 q.
Proof. exact wn_perm. Qed.
Theorem C17_rotate_start : forall p1 p2 q, wn [p1 ++ p2] q = wn [p2 ++ p1] q.
Proof. exact wn_rotate. Qed.
Theorem C17_repeat_vertex : forall p1 v p2 q, wn [p1 ++ v :: v :: p2] q = wn [p1 ++ v :: p2] q.
Proof. exact wn_dup_vertex. Qed.
Theorem C17_repeat_closing_vertex : forall v p q, wn [v :: p ++ [v]] q = wn [v :: p] q.
Proof. exact wn_dup_close. Qed.
Theorem C17_reverse_all : forall P q, wn (map (@rev pt) P) q = (- wn P q)%Z.
Proof. exact wn_rev_all. Qed.
Theorem C17_reverse_evenodd : forall P q, filled EvenOdd (wn (map (@rev pt) P) q) = filled EvenOdd (wn P q).
Proof. intros. rewrite wn_rev_all. apply filled_evenodd_neg. Qed.
Theorem C17_reverse_nonzero : forall P q, filled NonZero (wn (map (@rev pt) P) q) = filled NonZero (wn P q).
Proof. intros. rewrite wn_rev_all. apply filled_nonzero_neg. Qed.
Theorem C17_reverse_positive_negative : forall P q, filled Positive (wn (map (@rev pt) P) q) = filled Negative (wn P q).
Proof. intros. rewrite wn_rev_all. apply filled_pos_neg. Qed.
Theorem C17_exchange_subject_clip : forall ct s c, ct <> Difference -> expected ct s c = expected ct c s.
Proof. exact expected_comm. Qed.
Theorem C17_translate : forall d P q, wn (shift_paths d P) (fst q + IZR (px d), snd q + IZR (py d))%R = wn P q.
Proof. exact wn_shift. Qed.

(* (ii) certified region equality of two outputs, in the frame of the base input *)
Theorem C17_same_region :
  forall (rm : Z) (fuel : nat) (S C Out1 Out2 : paths) (Y : list Q) (q : rpt),
    gen_check FSameOdd rm fuel 4 [Out1; Out2] (S ++ C) [] Y = true ->
    far (edges_of_paths S ++ edges_of_paths C) 4 q ->
    Z.odd (wn Out1 q) = Z.odd (wn Out2 q).
Proof.
  intros rm fuel S C O1 O2 Y q H Hfar.
  pose proof (gen_sound FSameOdd rm fuel 4 [O1; O2] (S ++ C) [] Y q H) as G.
  rewrite band_closed_only, edges_of_paths_app, Q2R_4 in G. specialize (G Hfar).
  unfold fdec, nth0 in G. cbn [map nth] in G. apply eqb_prop in G. exact G.
Qed.
Print Assumptions C17_same_region.
Print Assumptions C17_reverse_all.

Example C17_accepts_somewhere :
  gen_check FSameOdd 3 0 4 [ [[(0,0);(10,0);(10,10);(0,10)]] ; [[(10,10);(0,10);(0,0);(10,0)]] ]%Z
            [[(0,0);(10,0);(10,10);(0,10)]]%Z [] [0; 10]%Q = true.
Proof. vm_compute. reflexivity. Qed.

(* (iii) the orderings the sweep sorts with (anchors: reset, processIntersectList,
   convertHorzSegsToJoins/horzSegSort), as TRANSLATED FROM /repo's CURRENT SOURCE on every run
   (Gen/Comparators_gen.v; the compared objects are abstract, every field read is a parameter):
   each is a consistent comparator, so the sorted order is a function of the sort keys and not of
   the arrangement in which the sorting routine happens to meet the elements. *)
From Clip Require Import Gen.Comparators_gen Model.ComparatorProofs.
Theorem C17_horzSegSort_consistent :
  forall (obj : Type) (nil_rightOp nil_self : obj -> bool) (leftX : obj -> Z) (a b c : obj),
    let cmp := gen_horzSegSort obj nil_rightOp nil_self leftX in
    nil_self a = false -> nil_self b = false -> nil_self c = false ->
    cmp a b = (- cmp b a)%Z /\
    ((cmp a b <= 0)%Z -> (cmp b c <= 0)%Z -> (cmp a c <= 0)%Z) /\
    ((cmp a b < 0)%Z <-> (nil_rightOp a = false /\ nil_rightOp b <> false) \/
                         (nil_rightOp a = false /\ nil_rightOp b = false /\ (leftX a < leftX b)%Z)).
Proof.
  intros obj nr ns lx a b c cmp Ha Hb Hc. split; [|split].
  - apply horzSegSort_antisym; assumption.
  - apply horzSegSort_trans; assumption.
  - apply horzSegSort_spec; assumption.
Qed.
Theorem C17_intersection_order_strict_weak :
  forall (obj : Type) (X Y : obj -> Z) (a b c : obj),
    let less := gen_intersect_less obj X Y in
    less a a = false /\
    (less a b = true -> less b c = true -> less a c = true) /\
    ((less a b = false /\ less b a = false) <-> (X a = X b /\ Y a = Y b)) /\
    (less a b = true <-> ((Y a > Y b)%Z \/ (Y a = Y b /\ (X a < X b)%Z))).
Proof.
  intros obj X Y a b c less. repeat split.
  - apply intersect_less_irrefl.
  - apply intersect_less_trans.
  - apply (proj1 (intersect_less_incomparable obj X Y a b) H).
  - apply (proj1 (intersect_less_incomparable obj X Y a b) H).
  - apply (proj2 (intersect_less_incomparable obj X Y a b) H).
  - apply (proj2 (intersect_less_incomparable obj X Y a b) H).
  - apply (proj1 (intersect_less_spec obj X Y a b)).
  - apply (proj2 (intersect_less_spec obj X Y a b)).
Qed.
Theorem C17_minima_order_strict_weak :
  forall (obj : Type) (Y : obj -> Z) (a b c : obj),
    let less := gen_minima_less obj Y in
    less a a = false /\
    (less a b = true -> less b c = true -> less a c = true) /\
    ((less a b = false /\ less b a = false) <-> Y a = Y b) /\
    (less a b = true <-> (Y a > Y b)%Z).
Proof.
  intros obj Y a b c less. split; [|split; [|split]].
  - apply minima_less_irrefl.
  - apply minima_less_trans.
  - apply minima_less_incomparable.
  - apply minima_less_spec.
Qed.
(* the comparator as found (never +1: equal left X -> 0, otherwise -1) was not antisymmetric *)
Example C17_old_horzSegSort_refuted :
  let old (x y : Z) := if (x =? y)%Z then 0%Z else (-1)%Z in old 1%Z 2%Z <> (- old 2%Z 1%Z)%Z.
Proof. cbn. discriminate. Qed.
Print Assumptions C17_horzSegSort_consistent.
