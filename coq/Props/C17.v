(* Props/C17.v — C17: results are independent of how the input is written down.
   (i) The specification itself is invariant under every respelling the
       property lists: lemmas about wn, for all path sets and all real points.
   (ii) Two outputs accepted by the region-equality certificate have the same
       interior at every real point away from the input edges. *)
From Coq Require Import Reals QArith Qreals ZArith List Bool Permutation.
From Clip Require Import Base.Int64 Model.Arith Base.Geom Base.GeomLemmas Cert.Region Cert.RegionSpec
     Cert.Instances Cert.RegionSound.
Import ListNotations.

(* (i) respelling lemmas: restated here so that they cannot be weakened silently *)
Theorem C17_permute_paths : forall P1 P2 q, Permutation P1 P2 -> wn P1 q = wn P2 q.
Proof. exact wn_perm. Qed.
Theorem C17_rotate_start : forall p1 p2 q, wn [p1 ++ p2] q = wn [p2 ++ p1] q.
Proof. exact wn_rotate. Qed.
Theorem C17_repeat_vertex : forall p1 v p2 q, wn [p1 ++ v :: v :: p2] q = wn [p1 ++ v :: p2] q.
Proof. exact wn_dup_vertex. Qed.
Theorem C17_repeat_closing_vertex : forall v p q, wn [v :: p ++ [v]] q = wn [v :: p] q.
Proof. exact wn_dup_close. Qed.
Theorem C17_reverse_all : forall P q, wn (map (@rev pt) P) q = (- wn P q)%Z.
Proof. exact wn_rev_all. Qed.
Theorem C17_reverse_evenodd : forall P q, filled EvenOdd (wn (map (@rev pt) P) q) = filled EvenOdd (wn P q).
Proof. intros. rewrite wn_rev_all. apply filled_evenodd_neg. Qed.
Theorem C17_reverse_nonzero : forall P q, filled NonZero (wn (map (@rev pt) P) q) = filled NonZero (wn P q).
Proof. intros. rewrite wn_rev_all. apply filled_nonzero_neg. Qed.
Theorem C17_reverse_positive_negative : forall P q, filled Positive (wn (map (@rev pt) P) q) = filled Negative (wn P q).
Proof. intros. rewrite wn_rev_all. apply filled_pos_neg. Qed.
Theorem C17_exchange_subject_clip : forall ct s c, ct <> Difference -> expected ct s c = expected ct c s.
Proof. exact expected_comm. Qed.
Theorem C17_translate : forall d P q, wn (shift_paths d P) (fst q + IZR (px d), snd q + IZR (py d))%R = wn P q.
Proof. exact wn_shift. Qed.

(* (ii) certified region equality of two outputs, in the frame of the base input *)
Theorem C17_same_region :
  forall (rm : Z) (fuel : nat) (S C Out1 Out2 : paths) (Y : list Q) (q : rpt),
    gen_check FSameOdd rm fuel 4 [Out1; Out2] (S ++ C) [] Y = true ->
    far (edges_of_paths S ++ edges_of_paths C) 4 q ->
    Z.odd (wn Out1 q) = Z.odd (wn Out2 q).
Proof.
  intros rm fuel S C O1 O2 Y q H Hfar.
  pose proof (gen_sound FSameOdd rm fuel 4 [O1; O2] (S ++ C) [] Y q H) as G.
  rewrite band_closed_only, edges_of_paths_app, Q2R_4 in G. specialize (G Hfar).
  unfold fdec, nth0 in G. cbn [map nth] in G. apply eqb_prop in G. exact G.
Qed.
Print Assumptions C17_same_region.
Print Assumptions C17_reverse_all.

Example C17_accepts_somewhere :
  gen_check FSameOdd 3 0 4 [ [[(0,0);(10,0);(10,10);(0,10)]] ; [[(10,10);(0,10);(0,0);(10,0)]] ]%Z
            [[(0,0);(10,0);(10,10);(0,10)]]%Z [] [0; 10]%Q = true.
Proof. vm_compute. reflexivity. Qed.
