(* Props/C13.v — C13: results do not depend on coordinate magnitude.
   K1: exactly where the 64-bit products of the integer predicates are exact,
   why translation is harmless (for ALL int64 inputs) and scaling is not.
   K2: certified region equality of translated/scaled runs (same theorem shape as C01/C17). *)
From Coq Require Import Reals QArith Qreals ZArith List Bool Lia.
From Clip Require Import Base.Int64 Model.Arith Model.ArithProofs Base.Geom Base.GeomLemmas Model.Measures Model.MeasuresProofs
     Model.Magnitude Cert.Region Cert.RegionSpec Cert.Instances Cert.RegionSound.
Import ListNotations.
Local Open Scope Z_scope.

(* int64 arithmetic is a ring homomorphism: the computed cross product is the exact one modulo 2^64 *)
Theorem C13_cross_wrap : forall p1 p2 p3, cross64 p1 p2 p3 = wrap64 (cross_exact p1 p2 p3).
Proof. exact cross64_wrap. Qed.

(* hence translation by ANY int64 vector changes neither the cross product, nor the
   collinearity predicate, nor the area accumulator: no range hypothesis at all *)
Theorem C13_cross_translate : forall v p1 p2 p3, cross64 (shift64 v p1) (shift64 v p2) (shift64 v p3) = cross64 p1 p2 p3.
Proof. exact cross64_translate. Qed.
Theorem C13_collinear_translate : forall v p1 p2 p3, isCollinear (shift64 v p1) (shift64 v p2) (shift64 v p3) = isCollinear p1 p2 p3.
Proof. exact isCollinear_translate. Qed.
Theorem C13_area_translate : forall d p, area2_model (shift_path d p) = area2_model p.
Proof. exact area2_translate. Qed.

(* exactness depends on the coordinate DIFFERENCES only *)
Theorem C13_cross_exact_diff : forall D p1 p2 p3, 0 <= D ->
  Z.abs (px p2 - px p1) <= D -> Z.abs (py p3 - py p2) <= D -> Z.abs (py p2 - py p1) <= D -> Z.abs (px p3 - px p2) <= D ->
  2 * D * D < two63 -> cross64 p1 p2 p3 = cross_exact p1 p2 p3.
Proof. exact cross64_exact_diff. Qed.

(* the exact coordinate range of CrossProduct is |coord| <= 1518500249 = floor(2^30.5) ... *)
Theorem C13_cross_exact_max : forall p1 p2 p3, coord_ok 1518500249 p1 -> coord_ok 1518500249 p2 -> coord_ok 1518500249 p3 ->
  cross64 p1 p2 p3 = cross_exact p1 p2 p3.
Proof. exact cross64_exact_max. Qed.
(* ... and it is tight: one unit further the sign can be wrong.  The advertised MaxCoord is 2^61. *)
Theorem C13_cross_refuted_above_max : exists p1 p2 p3, coord_ok 1518500250 p1 /\ coord_ok 1518500250 p2 /\ coord_ok 1518500250 p3 /\
  Z.sgn (cross64 p1 p2 p3) <> Z.sgn (cross_exact p1 p2 p3).
Proof. exact cross64_refuted_above_max. Qed.

(* scaling multiplies the exact cross product by k^2, so it leaves the exact range: a
   concrete wrong sign inside the advertised range *)
Theorem C13_cross_scale_refuted : exists k p1 p2 p3,
  coord_ok (2^61) (k*px p1, k*py p1) /\ coord_ok (2^61) (k*px p2, k*py p2) /\ coord_ok (2^61) (k*px p3, k*py p3) /\
  Z.sgn (cross64 (k*px p1, k*py p1) (k*px p2, k*py p2) (k*px p3, k*py p3)) <> Z.sgn (cross_exact p1 p2 p3).
Proof. exact cross64_scale_refuted. Qed.
(* the 53-bit detour of productsAreEqual also fails inside the advertised range *)
Theorem C13_products_equal_refuted : exists a b c d, in64 a /\ in64 b /\ in64 c /\ in64 d /\
  Z.abs a <= 2^61 /\ Z.abs b <= 2^61 /\ Z.abs c <= 2^61 /\ Z.abs d <= 2^61 /\ a * b <> c * d /\ productsAreEqual a b c d = true.
Proof. exact products_equal_refuted. Qed.

(* K2, translation: the result on x + v, moved back by -v, has the same interior as the
   result on x at every real point away from the input edges (band 2) *)
Theorem C13_translated_same_region :
  forall (rm : Z) (fuel : nat) (S C Out OutBack : paths) (Y : list Q) (q : rpt),
    gen_check FSameOdd rm fuel 4 [Out; OutBack] (S ++ C) [] Y = true ->
    far (edges_of_paths S ++ edges_of_paths C) 4 q ->
    Z.odd (wn Out q) = Z.odd (wn OutBack q).
Proof.
  intros rm fuel S C O1 O2 Y q H Hfar.
  pose proof (gen_sound FSameOdd rm fuel 4 [O1; O2] (S ++ C) [] Y q H) as G.
  rewrite band_closed_only, Cert.RegionSound.edges_of_paths_app, Q2R_4 in G. specialize (G Hfar).
  unfold fdec, nth0 in G. cbn [map nth] in G. apply eqb_prop in G. exact G.
Qed.

(* K2, scaling: the result on k x is the boolean region of k x at every real point farther
   than sqrt(r2) from the scaled input edges, for whatever squared radius r2 the run used
   (the harness passes (2 + 2^-40 extent)^2 exactly) *)
Theorem C13_scaled_region :
  forall (ct : cliptype) (fr : fillrule) (rm : Z) (fuel : nat) (r2 : Q) (S C Sol : paths) (Y : list Q) (q : rpt),
    gen_check (FBool ct fr) rm fuel r2 [S; C; Sol] (S ++ C) [] Y = true ->
    far (edges_of_paths S ++ edges_of_paths C) (Q2R r2) q ->
    Z.odd (wn Sol q) = expected ct (filled fr (wn S q)) (filled fr (wn C q)).
Proof.
  intros ct fr rm fuel r2 S C Sol Y q H Hfar.
  pose proof (gen_sound (FBool ct fr) rm fuel r2 [S; C; Sol] (S ++ C) [] Y q H) as G.
  rewrite band_closed_only, Cert.RegionSound.edges_of_paths_app in G. specialize (G Hfar).
  unfold fdec, nth0 in G. cbn [map nth] in G. apply eqb_prop in G. exact G.
Qed.

Print Assumptions C13_cross_translate.
Print Assumptions C13_cross_exact_max.
Print Assumptions C13_scaled_region.

(* K3: the 64-bit product kernels are regenerated from /repo's current source on every run
   (Gen/Kernels_gen.v) and proved equal to the models the theorems above are about; the parallel
   test of getSegmentIntersectPt is exact within 2^29 *)
From Coq Require Import QArith.
From Clip Require Import Model.KernelOps Gen.Kernels_gen Model.KernelProofs.
Theorem C13_cross_from_source : forall p1 p2 p3,
  gen_CrossProduct (px p1) (py p1) (px p2) (py p2) (px p3) (py p3) = inject_Z (round53 (wrap64 (cross_exact p1 p2 p3))).
Proof. intros. rewrite gen_CrossProduct_eq. unfold CrossProduct. rewrite C13_cross_wrap. reflexivity. Qed.
Theorem C13_dot_from_source : forall p1 p2 p3,
  gen_dotProduct64 (px p1) (py p1) (px p2) (py p2) (px p3) (py p3) = inject_Z (round53 (dot64 p1 p2 p3)).
Proof. exact gen_dotProduct64_eq. Qed.
Theorem C13_intersect_parallel_test_exact : forall a1 b1 a2 b2,
  coord_ok two29 a1 -> coord_ok two29 b1 -> coord_ok two29 a2 -> coord_ok two29 b2 ->
  snd (gen_getSegmentIntersectPt (px a1) (py a1) (px b1) (py b1) (px a2) (py a2) (px b2) (py b2))
  = negb (det_exact a1 b1 a2 b2 =? 0)%Z.
Proof. exact gen_intersect_flag. Qed.
Print Assumptions C13_cross_from_source.
Print Assumptions C13_intersect_parallel_test_exact.
