(* Props/C11.v — C11: rectangle clipping of open polylines. *)
From Coq Require Import Reals QArith Qreals ZArith List Bool.
From Clip Require Import Base.Int64 Model.Arith Base.Geom Cert.Region Cert.RegionSpec Cert.RectLine Cert.RectLineSound.
Import ListNotations.

(* For every input segment a-b of every input line and EVERY real parameter t in [0,1]:
   if the point a + t(b-a) is more than 2 units from each of the four sides of the
   rectangle, then it is covered by the open solution exactly when it is strictly
   inside the rectangle.  ("covered": t lies between the projections of the two end
   points of a solution segment both of which are within 1 unit of a-b.) *)
Theorem C11_lines :
  forall (Rc : irect) (Lines OS : paths) (a b : pt) (t : R),
    rectlines_check Rc Lines OS = true ->
    In (a, b) (flat_map edges_open Lines) -> a <> b ->
    (0 <= t <= 1)%R ->
    far (rect_sides Rc) 4 (seg_pt a b t) ->
    (covered a b OS t <-> strictly_inside Rc (seg_pt a b t)).
Proof.
  intros Rc Lines OS a b t H Hin Hab Ht Hfar.
  unfold rectlines_check in H. apply andb_true_iff in H. destruct H as [_ H].
  rewrite forallb_forall in H. specialize (H (a, b) Hin). cbn [fst snd] in H.
  apply orb_true_iff in H. destruct H as [H|H].
  - exfalso. apply Hab. unfold pt_eqb in H. apply andb_true_iff in H. destruct H as [Hx Hy].
    apply Z.eqb_eq in Hx. apply Z.eqb_eq in Hy. destruct a, b; cbn in *; congruence.
  - apply rectline_sound; assumption.
Qed.

(* every output vertex lies within the rectangle enlarged by 1 and within 1 unit of an input segment *)
Theorem C11_vertices :
  forall (R : irect) (Lines OS : paths) (p : pt) (path : path),
    rectlines_check R Lines OS = true -> In path OS -> In p path ->
    (rl R - 1 <= px p <= rr R + 1 /\ rt R - 1 <= py p <= rb R + 1)%Z /\
    exists e, In e (flat_map edges_open Lines) /\ near_seg (IP (fst e)) (IP (snd e)) (IP p) 1.
Proof.
  intros R Lines OS p path H Hp Hin.
  unfold rectlines_check in H. apply andb_true_iff in H. destruct H as [H _].
  apply andb_true_iff in H. destruct H as [H1 H2]. split.
  - eapply verts_in_rect_sound; eauto.
  - eapply verts_on_lines_sound; eauto.
Qed.

Example C11_accepts_somewhere :
  rectlines_check (mkRect 0 0 10 10) [[(-5, 5); (15, 5)]]%Z [[(0, 5); (10, 5)]]%Z = true.
Proof. vm_compute. reflexivity. Qed.
(* the defect repaired by 5363ec8: a crossing 2-point segment must not be dropped *)
Example C11_rejects_dropped_segment :
  rectlines_check (mkRect 0 0 10 10) [[(-5, 5); (15, 5)]]%Z [] = false.
Proof. vm_compute. reflexivity. Qed.
Print Assumptions C11_lines.

(* the leaf decisions of the rectangle clipper, as TRANSLATED FROM /repo's CURRENT SOURCE on every run
   (Gen/RectLeaf_gen.v, rect_clip.go: getLocation, headingClockwise, getAdjacentLocation, areOpposites,
   getEdgesForPt), with locations as their integer codes (Left 0, Top 1, Right 2, Bottom 3, Inside 4) *)
From Coq Require Import String.
From Clip Require Import Gen.RectLeaf_gen Model.RectLeafProofs.
Theorem C11_getLocation :
  forall l t r b x y, (l <= r)%Z -> (t <= b)%Z ->
    let '(loc, ok) := gen_getLocation b l r t x y in
    (0 <= loc <= 4)%Z /\
    (ok = false <-> on_boundary l t r b x y) /\
    (ok = false -> (loc = LLeft /\ x = l) \/ (loc = LRight /\ x = r) \/ (loc = LTop /\ y = t) \/ (loc = LBottom /\ y = b)) /\
    (ok = true ->
       (loc = LInside <-> ((l < x < r)%Z /\ (t < y < b)%Z)) /\
       (loc = LLeft <-> (x < l)%Z) /\ (loc = LRight <-> (x > r)%Z) /\
       (loc = LTop <-> ((l <= x <= r)%Z /\ (y < t)%Z)) /\ (loc = LBottom <-> ((l <= x <= r)%Z /\ (y > b)%Z))).
Proof. exact getLocation_spec. Qed.
Theorem C11_location_cycle :
  forall loc, side loc ->
    side (gen_getAdjacentLocation loc true) /\ side (gen_getAdjacentLocation loc false) /\
    gen_headingClockwise loc (gen_getAdjacentLocation loc true) = true /\
    gen_headingClockwise (gen_getAdjacentLocation loc false) loc = true /\
    gen_getAdjacentLocation (gen_getAdjacentLocation loc true) false = loc /\
    gen_getAdjacentLocation (gen_getAdjacentLocation loc false) true = loc.
Proof. exact getAdjacentLocation_spec. Qed.
Theorem C11_heading_and_opposites :
  forall p c, side p -> side c ->
    (gen_headingClockwise p c = true <-> (p = 0 /\ c = 1) \/ (p = 1 /\ c = 2) \/ (p = 2 /\ c = 3) \/ (p = 3 /\ c = 0))%Z /\
    (gen_areOpposites p c = true <-> (p = 0 /\ c = 2) \/ (p = 2 /\ c = 0) \/ (p = 1 /\ c = 3) \/ (p = 3 /\ c = 1))%Z.
Proof. intros p c Hp Hc. split; [apply headingClockwise_spec | apply areOpposites_spec]; assumption. Qed.
Theorem C11_location_codes :
  location_codes = [("Bottom"%string, 3%Z); ("Inside"%string, 4%Z); ("Left"%string, 0%Z); ("Right"%string, 2%Z); ("Top"%string, 1%Z)].
Proof. exact location_codes_are. Qed.
Print Assumptions C11_getLocation.

(* K3, second batch: the segment/rectangle-edge intersection the line clipper cuts with, from rect_clip.go *)
From Clip Require Import Model.Measures Gen.Kernels2_gen Model.Kernel2Proofs.
Theorem C11_segment_intersection_sound : forall p1 p2 p3 p4 ip,
  coord_ok two29 p1 -> coord_ok two29 p2 -> coord_ok two29 p3 -> coord_ok two29 p4 ->
  gen_getSegmentIntersection (px p1) (py p1) (px p2) (py p2) (px p3) (py p3) (px p4) (py p4) = (ip, true) ->
  (on_segment p1 p2 ip = true /\ on_segment p3 p4 ip = true)
  \/ (proper_cross p1 p2 p3 p4 /\
      gen_getSegmentIntersectPt (px p1) (py p1) (px p2) (py p2) (px p3) (py p3) (px p4) (py p4) = (ip, true)).
Proof. exact getSegmentIntersection_sound. Qed.
Theorem C11_rect_intersects_from_source : forall l t r b l' t' r' b',
  gen_Rect64_Intersects l t r b l' t' r' b' = true <->
  exists x y, in_rect l t r b x y /\ in_rect l' t' r' b' x y.
Proof. exact Rect64_Intersects_points. Qed.
Print Assumptions C11_segment_intersection_sound.

(* the proper-crossing branch ends in internal_clipper.go:getSegmentIntersectPt, whose parallel test is exact within 2^29
   (Model/KernelProofs.v, over Gen/Kernels_gen.v): an edit of that kernel breaks this file's obligations too *)
From Clip Require Import Model.KernelProofs.
Definition C11_intersect_kernel_from_source := Model.KernelProofs.gen_intersect_flag.
