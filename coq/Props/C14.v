(* Props/C14.v — C14: geometric measures and predicates are exact.
   Theorems about the faithful models Model/Arith.v, Model/Measures.v (tied to
   the Go functions by exact comparison on every run). *)
From Coq Require Import ZArith List Bool Lia.
From Clip Require Import Base.Int64 Model.Arith Model.ArithProofs Model.Measures Model.MeasuresProofs.
Import ListNotations.
Open Scope Z_scope.

(* --- area and orientation --- *)
Theorem C14_area_exact : forall p, path_ok two29 p -> Z.abs (shoelace2 p) < two63 ->
  Area64_twice p = round53 (shoelace2 p).
Proof. exact area64_twice_exact. Qed.
Theorem C14_area_exact_up_to_7_vertices : forall p, path_ok two29 p -> (length p <= 7)%nat -> area2_model p = shoelace2 p.
Proof. exact area_exact_short. Qed.
Theorem C14_ispositive_exact : forall p, path_ok two29 p -> Z.abs (shoelace2 p) < two63 ->
  IsPositive64_model p = (0 <=? shoelace2 p).
Proof. exact ispositive_exact. Qed.
(* the property as stated (no side condition on the sum) is FALSE of the code: *)
Theorem C14_area_refuted : exists p, path_ok two29 p /\ (3 <= length p)%nat /\ Z.sgn (area2_model p) <> Z.sgn (shoelace2 p).
Proof. exact area_refuted. Qed.

(* --- bounds --- *)
Theorem C14_bounds_exact : forall p, p <> [] -> path_ok two29 p -> GetBounds64_model p = bounds_spec p.
Proof. exact bounds_exact. Qed.
Theorem C14_bounds_empty : GetBounds64_model [] = (0, 0, 0, 0).
Proof. exact bounds_exact_empty. Qed.

(* --- collinearity --- *)
Theorem C14_multiply_exact : forall a b, inu64 a -> inu64 b ->
  let r := multiplyUInt64 a b in inu64 (fst r) /\ inu64 (snd r) /\ snd r * two64 + fst r = a * b.
Proof. exact multiply_exact. Qed.
Theorem C14_collinear_exact_partial : forall p1 p2 p3, coord_ok two29 p1 -> coord_ok two29 p2 -> coord_ok two29 p3 ->
  px p2 - px p1 <> 1 -> py p3 - py p2 <> 1 -> py p2 - py p1 <> 1 -> px p3 - px p2 <> 1 ->
  (isCollinear p1 p2 p3 = true <-> cross_exact p1 p2 p3 = 0).
Proof. exact collinear_exact_partial. Qed.
(* the unrestricted statement is FALSE of the code (triSign 1 = 0): *)
Theorem C14_collinear_refuted_false_positive : exists p1 p2 p3, coord_ok two29 p1 /\ coord_ok two29 p2 /\ coord_ok two29 p3 /\
  isCollinear p1 p2 p3 = true /\ cross_exact p1 p2 p3 <> 0.
Proof. exact collinear_refuted_false_positive. Qed.
Theorem C14_collinear_refuted_false_negative : exists p1 p2 p3, coord_ok two29 p1 /\ coord_ok two29 p2 /\ coord_ok two29 p3 /\
  isCollinear p1 p2 p3 = false /\ cross_exact p1 p2 p3 = 0.
Proof. exact collinear_refuted_false_negative. Qed.
Theorem C14_cross_product_sign : forall p1 p2 p3, coord_ok two29 p1 -> coord_ok two29 p2 -> coord_ok two29 p3 ->
  Z.sgn (CrossProduct p1 p2 p3) = Z.sgn (cross_exact p1 p2 p3).
Proof. exact CrossProduct_sign. Qed.

(* --- point in polygon --- *)
Theorem C14_pip_total : forall q poly, pip_model q poly = IsOn \/ pip_model q poly = IsInside \/ pip_model q poly = IsOutside.
Proof. exact pip_total. Qed.
(* the index-walking loop of PointInPolygon (faithful model, Model/Measures.v) returns exactly what exact
   integer arithmetic dictates (even-odd sense, Model/Measures.v:pip_spec) for EVERY polygon with at least 3
   vertices that is not contained in the horizontal line through the query point, coordinates within 2^29 *)
From Clip Require Import Model.PipProofs.
Theorem C14_pip_exact : forall q poly,
  coord_ok two29 q -> path_ok two29 poly ->
  (3 <= length poly)%nat ->
  (exists v, In v poly /\ py v <> py q) ->
  pip_model q poly = pip_spec q poly.
Proof. exact pip_model_eq_spec. Qed.
(* ... and exactly there: outside that scope the model and the specification differ precisely when the
   specification says IsOn (the code answers IsOutside for fewer than 3 vertices and for polygons all of
   whose vertices are level with the query point) *)
Theorem C14_pip_exact_scope : forall q poly,
  coord_ok two29 q -> path_ok two29 poly ->
  (pip_model q poly = pip_spec q poly
   <-> ((3 <= length poly)%nat /\ (exists v, In v poly /\ py v <> py q)) \/ pip_spec q poly <> IsOn).
Proof. exact pip_model_eq_spec_iff. Qed.
Example C14_pip_refuted_on_a_horizontal_line : exists q poly,
  coord_ok two29 q /\ path_ok two29 poly /\ (3 <= length poly)%nat
  /\ pip_model q poly = IsOutside /\ pip_spec q poly = IsOn.
Proof. exact pip_model_eq_spec_refuted_level. Qed.
Example C14_pip_refuted_two_points : exists q poly,
  coord_ok two29 q /\ path_ok two29 poly /\ (exists v, In v poly /\ py v <> py q)
  /\ pip_model q poly = IsOutside /\ pip_spec q poly = IsOn.
Proof. exact pip_model_eq_spec_refuted_short. Qed.
(* the exhaustively enumerated scope of the first version of this file, kept as a regression *)
Theorem C14_pip_exact_partial : forall q poly, on_grid5 q -> (length poly = 3 \/ length poly = 4)%nat ->
  Forall on_grid3 poly -> (exists a b, In a poly /\ In b poly /\ py a <> py b) ->
  pip_model q poly = pip_spec q poly.
Proof. exact pip_model_eq_spec_small. Qed.

Print Assumptions C14_area_exact.
Print Assumptions C14_bounds_exact.
Print Assumptions C14_collinear_exact_partial.
Print Assumptions C14_pip_exact_partial.
Print Assumptions C14_pip_exact.
Print Assumptions C14_pip_exact_scope.

(* K3: the kernels the theorems above are about are regenerated from /repo's current source on every
   run (Gen/Kernels_gen.v: internal_clipper.go multiplyUInt64, productsAreEqual, isCollinear,
   CrossProduct, getBounds; clipper.go Area64's guard / initialisation / loop body, GetBounds64) and
   proved equal to the models *)
From Coq Require Import QArith.
From Clip Require Import Model.KernelOps Gen.Kernels_gen Model.KernelProofs.
Open Scope Z_scope.
Theorem C14_multiply_from_source : forall a b, inu64 a -> inu64 b ->
  let r := gen_multiplyUInt64 a b in inu64 (fst r) /\ inu64 (snd r) /\ snd r * two64 + fst r = a * b.
Proof. intros a b Ha Hb. rewrite gen_multiplyUInt64_eq. exact (multiply_exact a b Ha Hb). Qed.
Theorem C14_area_from_source : forall p, gen_area2 p = area2_model p.
Proof. exact gen_area2_eq. Qed.
Theorem C14_area_source_exact : forall p, path_ok two29 p -> Z.abs (shoelace2 p) < two63 -> gen_area2 p = shoelace2 p.
Proof. intros p H1 H2. rewrite gen_area2_eq. apply area_exact; assumption. Qed.
Theorem C14_bounds_from_source : forall p, gen_GetBounds64 p = GetBounds64_model p /\ gen_getBounds p = getBounds_model p.
Proof. intros p. split; [apply gen_GetBounds64_eq | apply gen_getBounds_eq]. Qed.
Theorem C14_collinear_from_source : forall p1 sh p2,
  gen_isCollinear (px p1) (py p1) (px sh) (py sh) (px p2) (py p2) = isCollinear p1 sh p2.
Proof. exact gen_isCollinear_eq. Qed.
Theorem C14_cross_from_source : forall p1 p2 p3,
  gen_CrossProduct (px p1) (py p1) (px p2) (py p2) (px p3) (py p3) = inject_Z (CrossProduct p1 p2 p3).
Proof. exact gen_CrossProduct_eq. Qed.
Print Assumptions C14_area_source_exact.
Print Assumptions C14_multiply_from_source.

(* K3 tripwire for the hand-written models this file's theorems are about: the source text of the modelled functions is
   the text the models were last reconciled with (Model/Fingerprints.v, written by tools/update_fingerprints.sh after clean
   correspondence runs; Gen/Fingerprints_gen.v is regenerated from /repo on every run).  When this breaks, the functions
   were edited: the check widens its search for a failing input and reports the broken obligation either way. *)
From Coq Require Import String.
From Clip Require Import Gen.Fingerprints_gen Model.Fingerprints.
Theorem C14_modelled_source_unchanged :
  fps_agree gen_fingerprints ["PointInPolygon"; "StripDuplicates"; "IsPositive64"; "Area64"; "GetBounds64"; "getBounds"]%string = true.
Proof. vm_compute. reflexivity. Qed.
