(* Props/C01.v — C01: Boolean operations return the set-theoretic region.
   Statement only; the proof is one application of the region-checker
   soundness theorem.  The hypothesis is what the extracted checker decides
   on the implementation's actual output on every run. *)
From Coq Require Import Reals QArith Qreals ZArith List Bool Lra.
From Clip Require Import Base.Int64 Model.Arith Base.Geom Cert.Region Cert.RegionSpec
     Cert.Instances Cert.RegionSound.
Import ListNotations.

(* For every subject S, clip C, clip type, fill rule and returned solution Sol:
   if the certificate check accepts, then at EVERY real point q more than 2
   units (squared distance > 4) from every input edge, q is inside the solution
   (odd winding) exactly when the boolean combination of "inside subject" and
   "inside clip" under the fill rule holds.  No bound on sizes or coordinates. *)
Theorem C01_region :
  forall (ct : cliptype) (fr : fillrule) (rm : Z) (fuel : nat) (S C Sol : paths) (Y : list Q) (q : rpt),
    gen_check (FBool ct fr) rm fuel 4 [S; C; Sol] (S ++ C) [] Y = true ->
    far (edges_of_paths S ++ edges_of_paths C) 4 q ->
    Z.odd (wn Sol q) = expected ct (filled fr (wn S q)) (filled fr (wn C q)).
Proof.
  intros ct fr rm fuel S C Sol Y q H Hfar.
  pose proof (gen_sound (FBool ct fr) rm fuel 4 [S; C; Sol] (S ++ C) [] Y q H) as G.
  rewrite band_closed_only, edges_of_paths_app, Q2R_4 in G.
  specialize (G Hfar). unfold fdec, nth0 in G. cbn [map nth] in G.
  apply eqb_prop in G. exact G.
Qed.
Print Assumptions C01_region.

(* non-vacuity: a concrete subject/clip pair with an actual output of
   BooleanOpPaths64 (Intersection, NonZero) is accepted by the checker *)
Example C01_accepts_somewhere :
  gen_check (FBool Intersection NonZero) 3 0 4
    [ [[(0,0);(10,0);(10,10);(0,10)]]%Z ; [[(5,5);(15,5);(15,15);(5,15)]]%Z ;
      [[(10,10);(5,10);(5,5);(10,5)]]%Z ]
    ([[(0,0);(10,0);(10,10);(0,10)]] ++ [[(5,5);(15,5);(15,15);(5,15)]])%Z []
    [0; 5; 10; 15]%Q = true.
Proof. vm_compute. reflexivity. Qed.

(* and it does reject a wrong answer (the subject itself instead of the intersection) *)
Example C01_rejects_wrong_output :
  gen_check (FBool Intersection NonZero) 3 0 4
    [ [[(0,0);(10,0);(10,10);(0,10)]]%Z ; [[(5,5);(15,5);(15,15);(5,15)]]%Z ;
      [[(0,0);(10,0);(10,10);(0,10)]]%Z ]
    ([[(0,0);(10,0);(10,10);(0,10)]] ++ [[(5,5);(15,5);(15,15);(5,15)]])%Z []
    [0; 5; 10; 15]%Q = false.
Proof. vm_compute. reflexivity. Qed.

(* the sweep's contribution rule for closed edges, as TRANSLATED FROM /repo's CURRENT SOURCE on every
   run (Gen/Decisions_gen.v, clipper_base.go:isContributingClosed): for every fill rule, clip type and
   pair of wind counts an edge contributes to the solution exactly when the expected region
   (Base/Geom.v: expected ct (filled fr .) (filled fr .)) differs across it *)
From Clip Require Import Gen.Decisions_gen Model.DecisionProofs.
Theorem C01_contribution_rule :
  forall fr ct wc wc2 is_subj, counts_ok fr wc wc2 ->
    gen_isContributingClosed fr ct wc wc2 is_subj = boundary_of_expected fr ct wc wc2 is_subj.
Proof. exact isContributingClosed_is_boundary. Qed.
Example C01_contribution_rule_nonvacuous :
  counts_ok Positive 1 (-1) /\ gen_isContributingClosed Positive Difference 1 (-1) true = true /\
  counts_ok EvenOdd (-1) 1 /\ gen_isContributingClosed EvenOdd Intersection (-1) 1 false = true.
Proof.
  unfold counts_ok. split; [split; [discriminate | intro H; discriminate H]|].
  split; [reflexivity|]. split; [|reflexivity].
  split; [discriminate | intros _; split; right; reflexivity].
Qed.
Print Assumptions C01_contribution_rule.

(* the sweep's wind-count arithmetic, as TRANSLATED FROM /repo's CURRENT SOURCE on every run
   (Gen/Windcount_gen.v: the wind-count statement of setWindCountForClosedPathEdge and the wind-count
   update of intersectEdges), maintains the encoding the contribution rule relies on
   (Model/WindcountProofs.v: left_of / right_of decode the two sides of an edge from its windCount) *)
From Clip Require Import Gen.Windcount_gen Model.WindcountProofs.
Theorem C01_windcount_new_edge :
  forall fr w2 dx2 dx, wc_ok w2 dx2 -> unit dx ->
    let r := gen_windcount_step fr w2 dx2 dx false in
    r <> 0%Z /\ left_of r dx = right_of w2 dx2.
Proof. exact windcount_step_correct. Qed.
Theorem C01_windcount_crossing_same_set :
  forall fr w1 c1 dx1 w2 c2 dx2,
    fr <> EvenOdd -> wc_ok w1 dx1 -> wc_ok w2 dx2 ->
    right_of w1 dx1 = left_of w2 dx2 ->
    let '(w1', w2', c1', c2') := gen_intersect_windcounts fr w1 c1 dx1 w2 c2 dx2 true in
    w1' <> 0%Z /\ w2' <> 0%Z /\ c1' = c1 /\ c2' = c2 /\
    left_of w2' dx2 = left_of w1 dx1 /\
    right_of w2' dx2 = left_of w1' dx1 /\
    right_of w1' dx1 = right_of w2 dx2.
Proof. exact intersect_same_type_correct. Qed.
Theorem C01_windcount_crossing_other_set :
  forall fr w1 c1 dx1 w2 c2 dx2,
    gen_intersect_windcounts fr w1 c1 dx1 w2 c2 dx2 false =
    match fr with
    | EvenOdd => (w1, w2, if (c1 =? 0)%Z then 1%Z else 0%Z, if (c2 =? 0)%Z then 1%Z else 0%Z)
    | _ => (w1, w2, (c1 + dx2)%Z, (c2 - dx1)%Z)
    end.
Proof. exact intersect_other_type_correct. Qed.
(* the stored count is the side farther from zero; the other side is windCount - sgn windCount, which is
   what C01_contribution_rule (boundary_of_expected) uses *)
Theorem C01_windcount_decoding :
  forall w dx, wc_ok w dx ->
    (left_of w dx = w /\ right_of w dx = (w - Z.sgn w)%Z) \/ (right_of w dx = w /\ left_of w dx = (w - Z.sgn w)%Z).
Proof. exact decode_far. Qed.
Print Assumptions C01_windcount_crossing_same_set.

(* the decision at the end of intersectEdges (do two crossing, non-hot edges of the same path set start a new
   output polygon?), as TRANSLATED FROM /repo's CURRENT SOURCE on every run (Gen/NewPoly_gen.v), is: both
   edges are contributing (C01_contribution_rule) with their updated wind counts *)
From Clip Require Import Gen.NewPoly_gen Model.NewPolyProofs.
Theorem C01_new_polygon_at_crossing :
  forall fr ct w1 w2 c is_subj,
    ct <> NoClip -> counts_ok fr w1 c -> counts_ok fr w2 c ->
    gen_newpoly fr ct c c is_subj (norm fr w1) (norm fr w2) true =
    gen_isContributingClosed fr ct w1 c is_subj && gen_isContributingClosed fr ct w2 c is_subj.
Proof. exact newpoly_same_set_is_both_contributing. Qed.
Print Assumptions C01_new_polygon_at_crossing.

(* K3, second batch (Gen/Kernels2_gen.v, regenerated from engine.go on every run): topX — the x of an active edge at
   a scanline is EXACTLY the input vertex at both ends of the edge and on vertical edges, whatever the stored slope:
   the vertices the sweep emits at local minima, maxima and intermediate vertices are input vertices, not rounded *)
From Clip Require Import Model.KernelOps Model.SimplifyF64 Gen.Kernels2_gen Model.Kernel2Proofs.
Theorem C01_topX_exact_at_vertices : forall bx by_ dx tx ty,
  gen_topX ty bx by_ dx tx ty = tx /\ (ty <> by_ -> gen_topX by_ bx by_ dx tx ty = bx) /\
  (forall y, gen_topX y bx by_ dx bx ty = bx).
Proof.
  intros. split; [apply topX_at_top | split; [apply topX_at_bot | intro; apply topX_vertical]].
Qed.
Theorem C01_topX_between_from_source : forall y bx by_ dx tx ty,
  y <> ty -> tx <> bx -> y <> by_ ->
  gen_topX y bx by_ dx tx ty = add64 bx (i64_of_f (fround (fmul dx (fsub (f_of_int y) (f_of_int by_))))).
Proof. exact topX_between. Qed.
Theorem C01_IsOdd_from_source : forall v, gen_IsOdd v = Z.odd v.
Proof. exact IsOdd_spec. Qed.
Example C01_topX_example : gen_topX 5 0 10 (Qmake (-1) 2) 5 0 = 3%Z /\ gen_topX 7 0 10 (Qmake (-1) 2) 5 0 = 2%Z.
Proof. vm_compute. split; reflexivity. Qed.
Print Assumptions C01_topX_exact_at_vertices.

(* K3 (Gen/Kernels2_gen.v: the first statements of engine.go:isValidAelOrder, regenerated on every run): the order in
   which insertLeftEdge places a new edge in the active edge list.  Different current X: by X.  Same X, edges not
   collinear: the newcomer goes to the right exactly when it IS to the right of the resident at every real ordinate above
   the scanline (both edges leaving the common point upwards; coordinates within 2^29).  The collinear tie-breaks that
   follow in the source are not modelled (parameter rest). *)
From Clip Require Import Model.AelOrderProofs.
Theorem C01_ael_order_by_curX : forall nb nt rt ncx rcx rest, ncx <> rcx ->
  gen_isValidAelOrder_prefix (px nb) (py nb) ncx (px nt) (py nt) rcx (px rt) (py rt) rest = (rcx <? ncx)%Z.
Proof. exact ael_order_by_curX. Qed.
Theorem C01_ael_order_geometric : forall P nt rt cx rest,
  coord_ok two29 P -> coord_ok two29 nt -> coord_ok two29 rt ->
  (py nt < py P)%Z -> (py rt < py P)%Z -> cross_exact rt P nt <> 0%Z ->
  forall y : R, (y < IZR (py P))%R ->
  (gen_isValidAelOrder_prefix (px P) (py P) cx (px nt) (py nt) cx (px rt) (py rt) rest = true
   <-> (edge_x P rt y < edge_x P nt y)%R).
Proof. exact ael_order_geometric. Qed.
Theorem C01_ael_order_prefix_covers_three_statements : gen_isValidAelOrder_prefix_len = 3%Z.
Proof. exact isValidAelOrder_prefix_len. Qed.
Example C01_ael_order_example :
  (* resident goes up-left to (0,0), newcomer up-right to (10,0), both from (5,10): newcomer is on the right *)
  gen_isValidAelOrder_prefix 5 10 5 10 0 5 0 0 false = true /\
  gen_isValidAelOrder_prefix 5 10 5 0 0 5 10 0 true = false.
Proof. vm_compute. split; reflexivity. Qed.
Print Assumptions C01_ael_order_geometric.
