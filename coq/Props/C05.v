(* Props/C05.v — C05: polygon offsetting grows/shrinks the region by delta.
   The per-vertex join construction (float trigonometry) is not modelled: the
   result is certified, instance by instance, by the proved region checker. *)
From Coq Require Import Reals QArith Qreals ZArith List Bool.
From Clip Require Import Base.Int64 Model.Arith Base.Geom Cert.Region Cert.RegionSpec Cert.Instances Cert.RegionSound.
Import ListNotations.

(* one statement serves every clause: for path sets A, B, a band (closed paths Bc, open
   polylines Bo) and a squared radius r2: at EVERY real point farther than sqrt r2 from
   the band, inside A implies inside B.
     growth:   (A,B,band,r2) = (input, result, input, 4)                the input region is kept
                               (strips+discs, result, result, 4)        within |delta| along a normal => inside
                               (result, input, input, (k delta+tol)^2)  nothing farther than k delta + tol
     shrink:   (result, input, input, 4), (input, result, input, (k|delta|+tol)^2)              *)
Theorem C05_implication :
  forall (rm : Z) (fuel : nat) (r2 : Q) (A B Bc Bo : paths) (Y : list Q) (q : rpt),
    gen_check FImp rm fuel r2 [A; B] Bc Bo Y = true ->
    far (band_edges Bc Bo) (Q2R r2) q ->
    wn A q <> 0%Z -> wn B q <> 0%Z.
Proof.
  intros rm fuel r2 A B Bc Bo Y q H Hfar Hn.
  pose proof (gen_sound FImp rm fuel r2 [A; B] Bc Bo Y q H Hfar) as G.
  unfold fdec, nth0, nz in G. cbn [map nth] in G.
  destruct (Z.eqb_spec (wn A q) 0) as [E|E]; [contradiction|].
  destruct (Z.eqb_spec (wn B q) 0) as [E2|E2]; [discriminate G|exact E2].
Qed.

(* shrinking: the inward strips are disjoint from the result *)
Theorem C05_disjoint :
  forall (rm : Z) (fuel : nat) (r2 : Q) (A B Bc Bo : paths) (Y : list Q) (q : rpt),
    gen_check FDisj rm fuel r2 [A; B] Bc Bo Y = true ->
    far (band_edges Bc Bo) (Q2R r2) q ->
    ~ (wn A q <> 0%Z /\ wn B q <> 0%Z).
Proof.
  intros rm fuel r2 A B Bc Bo Y q H Hfar [Ha Hb].
  pose proof (gen_sound FDisj rm fuel r2 [A; B] Bc Bo Y q H Hfar) as G.
  unfold fdec, nth0, nz in G. cbn [map nth] in G.
  destruct (Z.eqb_spec (wn A q) 0); [contradiction|].
  destruct (Z.eqb_spec (wn B q) 0); [contradiction|]. discriminate G.
Qed.

(* canonical form with the input's global orientation s; with s = 0 and the band the input
   this is also the over-shrinking premise (no interior point farther than |delta|-tol
   from the boundary) and, for strokes, "nothing farther than k delta + tol" *)
Theorem C05_winding_zero_or :
  forall (s rm : Z) (fuel : nat) (r2 : Q) (R Bc Bo : paths) (Y : list Q) (q : rpt),
    gen_check (FCanon s) rm fuel r2 [R] Bc Bo Y = true ->
    far (band_edges Bc Bo) (Q2R r2) q ->
    wn R q = 0%Z \/ wn R q = s.
Proof.
  intros s rm fuel r2 R Bc Bo Y q H Hfar.
  pose proof (gen_sound (FCanon s) rm fuel r2 [R] Bc Bo Y q H Hfar) as G.
  unfold fdec, nth0 in G. cbn [map nth] in G.
  apply orb_true_iff in G. destruct G as [G|G]; apply Z.eqb_eq in G; [left|right]; exact G.
Qed.

Print Assumptions C05_implication.
