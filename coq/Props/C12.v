(* Props/C12.v — C12: an engine's answer depends only on the paths added, not on
   its history.  Theorems about the state machine Model/Engine.v (the engine
   between calls; the sweep is an oracle), quantified over ALL operation
   sequences.  The model's state is compared with the real engine's (verif hook
   VerifScratch) after every generated history, and the oracle hypotheses are
   what the history-vs-fresh-engine comparison of the check tests. *)
From Coq Require Import List Bool.
From Clip Require Import Model.Engine.
Import ListNotations.

Section C12.
  Variables Paths Sol Tree : Type.
  Variable empty_sol : Sol.
  Variable empty_tree : Tree.
  Variable n_minima : list (add Paths) -> nat.
  Variable sweep_out : list (add Paths) -> nat -> nat -> bool -> Sol * Sol.
  Variable sweep_dirty : scratch -> list (add Paths) -> nat -> nat -> bool -> Sol * Sol.
  Variable sweep_scratch : list (add Paths) -> nat -> nat -> bool -> scratch.
  Variable sweep_ok : scratch -> list (add Paths) -> nat -> nat -> bool -> bool.
  Variable tree_out : list (add Paths) -> nat -> nat -> Tree * Sol.
  Variable tree_dirty : scratch -> list (add Paths) -> nat -> nat -> Tree * Sol.
  Variable valid_ct : nat -> bool.

  Let RUN := run empty_sol empty_tree n_minima sweep_out sweep_dirty sweep_scratch sweep_ok tree_out tree_dirty valid_ct (new_engine Paths).
  Let EXEC := execute_oc empty_sol n_minima sweep_out sweep_dirty sweep_scratch sweep_ok valid_ct.

  (* between calls every per-execution list is empty, whatever happened before
     (so reset's append-without-clearing of the scan-line list is harmless) *)
  Theorem C12_scratch_clean : forall ops, scr (RUN ops) = clean.
  Proof. intros. apply scratch_clean_invariant. Qed.

  (* the output of an Execute after ANY history is the sweep's output on the paths added so
     far: it does not depend on the solution arguments passed in (they are replaced), on
     earlier executions, their clip types or fill rules — only on the sticky tree flag *)
  Theorem C12_history_only_adds : forall ops ct fr solC solO, valid_ct ct = true ->
    oc_out (EXEC (RUN ops) ct fr solC solO) = sweep_out (adds_of ops) ct fr (existsb (@is_tree Paths Sol) ops).
  Proof. intros. apply C12_history. assumption. Qed.

  (* if the sweep's flat output ignores the tree flag, any history equals a fresh engine
     given the same AddPaths calls *)
  Theorem C12_equals_fresh_engine :
    (forall a ct fr b, sweep_out a ct fr b = sweep_out a ct fr false) ->
    forall ops ct fr solC solO solC' solO', valid_ct ct = true ->
      oc_out (EXEC (RUN ops) ct fr solC solO) = oc_out (EXEC (RUN (map (OAdd Sol) (adds_of ops))) ct fr solC' solO').
  Proof. intros Hflat ops ct fr a b c d Hv. apply C12_fresh_engine; assumption. Qed.

  (* NoClip and out-of-range clip types: empty solutions, success (after fix 32a9754) *)
  Theorem C12_noclip : forall ops ct fr solC solO, valid_ct ct = false ->
    oc_ok (EXEC (RUN ops) ct fr solC solO) = true /\ oc_out (EXEC (RUN ops) ct fr solC solO) = (empty_sol, empty_sol).
  Proof. intros. apply noclip_succeeds. assumption. Qed.

  (* the one thing that is sticky *)
  Theorem C12_tree_flag_is_sticky : forall ops, using_tree (RUN ops) = existsb (@is_tree Paths Sol) ops.
  Proof. intros. apply using_tree_of_run. Qed.
End C12.

(* without the flat-output hypothesis the refinement is FALSE of the model: the sticky
   usingPolyTree flag is the one channel through which history can leak *)
Theorem C12_refuted_without_flat_hypothesis :
  adds_of Refute.R_ops1 = adds_of Refute.R_ops2 /\ Refute.R_valid_ct 1 = true /\
  oc_out (Refute.R_execute_oc (Refute.R_run Refute.R_ops1) 1 0 false false) <>
  oc_out (Refute.R_execute_oc (Refute.R_run Refute.R_ops2) 1 0 false false).
Proof. exact C12_history_refuted_without_Hflat. Qed.

Print Assumptions C12_scratch_clean.
Print Assumptions C12_history_only_adds.
Print Assumptions C12_equals_fresh_engine.
