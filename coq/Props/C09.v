(* Props/C09.v — C09: open subject paths are cut exactly at the clip region boundary. *)
From Coq Require Import Reals QArith Qreals ZArith List Bool.
From Clip Require Import Base.Int64 Model.Arith Base.Geom Cert.Region Cert.RegionSpec Cert.RegionTop Cert.RectLine Cert.RectLineSound Cert.Line Cert.LineSound.
Import ListNotations.

(* For an open subject segment a-b (re-oriented upward / rightward by [orient]) whose
   certificate the extracted checker accepted, and EVERY real parameter t in [0,1]:
   if the point a' + t(b'-a') is more than 2 units from every closed input edge, it is
   covered by the open solution OS exactly when [want_open] of the exact windings says so.
   ("covered": t lies between the projections of the end points of a solution segment both
   of which are within sqrt 2 of a'-b'.) *)
Theorem C09_open_cut :
  forall ct fr fuel (S C OS : paths) (a b : pt) (Y T : list Q) (t : R),
    c09_seg_check ct fr fuel S C OS a b Y T = true -> a <> b ->
    (0 <= t <= 1)%R ->
    let a' := fst (orient a b) in let b' := snd (orient a b) in
    far (edges_of_paths S ++ edges_of_paths C) 4 (seg_pt a' b' t) ->
    (covered_by (cov_intervals a' b' 2 OS) t <->
     want_open ct fr [wn S (seg_pt a' b' t); wn C (seg_pt a' b' t)] = true).
Proof. exact c09_seg_sound. Qed.

(* what [want_open] says, clip type by clip type (the property's wording) *)
Theorem C09_want_intersection : forall fr ws wc, want_open Intersection fr [ws; wc] = filled fr wc.
Proof. reflexivity. Qed.
Theorem C09_want_difference : forall fr ws wc, want_open Difference fr [ws; wc] = negb (filled fr wc).
Proof. reflexivity. Qed.
Theorem C09_want_union : forall fr ws wc, want_open Union fr [ws; wc] = negb (filled fr ws) && negb (filled fr wc).
Proof. reflexivity. Qed.

(* the two building blocks, for an arbitrary number of closed sets and decision function *)
Theorem C09_upward_segments : forall n Es E r2 fuel g cov a b Y t,
  upseg_check n Es E r2 fuel g cov a b Y = true ->
  (forall te, In te Es -> In (snd te) E) -> (0 <= Q2R r2)%R -> (0 <= t <= 1)%R ->
  far E (Q2R r2) (seg_pt a b t) ->
  (covered_by cov t <-> g (wnvec n Es (seg_pt a b t)) = true).
Proof. exact upseg_sound. Qed.
Theorem C09_horizontal_segments : forall n Es E r2 fuel g cov a b T t,
  hseg_check n Es E r2 fuel g cov a b T = true ->
  (forall te, In te Es -> In (snd te) E) -> (0 <= Q2R r2)%R -> (0 <= t <= 1)%R ->
  far E (Q2R r2) (seg_pt a b t) ->
  (covered_by cov t <-> g (wnvec n Es (seg_pt a b t)) = true).
Proof. exact hseg_sound. Qed.

(* non-vacuity: the vertical open segment (5,-5)-(5,15) clipped to the square [0,10]^2 *)
Example C09_accepts_somewhere :
  c09_seg_check Intersection NonZero 6 [] [[(0,0); (10,0); (10,10); (0,10)]]%Z [[(5,0); (5,10)]]%Z
                (5,-5)%Z (5,15)%Z [(-5)#1; 0#1; 10#1; 15#1] [] = true.
Proof. vm_compute. reflexivity. Qed.
(* an emptied open solution is rejected *)
Example C09_rejects_empty_solution :
  c09_seg_check Intersection NonZero 6 [] [[(0,0); (10,0); (10,10); (0,10)]]%Z []
                (5,-5)%Z (5,15)%Z [(-5)#1; 0#1; 10#1; 15#1] [] = false.
Proof. vm_compute. reflexivity. Qed.
(* a horizontal segment, Difference *)
Example C09_accepts_horizontal :
  c09_seg_check Difference EvenOdd 6 [] [[(0,0); (10,0); (10,10); (0,10)]]%Z [[(-5,5); (0,5)]; [(10,5); (15,5)]]%Z
                (-5,5)%Z (15,5)%Z [] [0#1; 1#4; 3#4; 1#1] = true.
Proof. vm_compute. reflexivity. Qed.
Print Assumptions C09_open_cut.

(* the sweep's contribution rule for OPEN edges, as TRANSLATED FROM /repo's CURRENT SOURCE on every run
   (Gen/Decisions_gen.v, clipper_base.go:isContributingOpen), is want_open of the closed windings *)
From Clip Require Import Gen.Decisions_gen Model.DecisionProofs.
Theorem C09_open_contribution_rule :
  forall fr ct wc wc2 is_subj, ct <> NoClip -> open_counts_ok fr wc wc2 ->
    gen_isContributingOpen fr ct wc wc2 is_subj = want_open ct fr [wc; wc2].
Proof. exact isContributingOpen_is_want_open. Qed.
Print Assumptions C09_open_contribution_rule.
