(* Props/C19.v — C19: the four boolean operations are mutually consistent. *)
From Coq Require Import Reals QArith Qreals ZArith List Bool.
From Clip Require Import Base.Int64 Model.Arith Base.Geom Cert.Region Cert.RegionSpec
     Cert.Instances Cert.RegionSound.
Import ListNotations.

Definition ins (P : paths) (q : rpt) : bool := Z.odd (wn P q).

(* Directly between the five outputs (no reference to the subject/clip winding
   numbers, so a shared misreading of a fill rule cannot hide here): at EVERY
   real point more than 2 units from every input edge
     Xor = Union minus Intersection,
     Union = Diff(S,C) + Intersection + Diff(C,S), pairwise disjoint. *)
Theorem C19_identities :
  forall (fr : fillrule) (rm : Z) (fuel : nat) (S C U I D X D' : paths) (Y : list Q) (q : rpt),
    gen_check (FFour fr) rm fuel 4 [U; I; D; X; D'] (S ++ C) [] Y = true ->
    far (edges_of_paths S ++ edges_of_paths C) 4 q ->
    ins X q = (ins U q && negb (ins I q)) /\
    ins U q = (ins D q || ins I q || ins D' q) /\
    (ins D q && ins I q = false) /\ (ins D q && ins D' q = false) /\ (ins I q && ins D' q = false).
Proof.
  intros fr rm fuel S C U I D X D' Y q H Hfar.
  pose proof (gen_sound (FFour fr) rm fuel 4 [U; I; D; X; D'] (S ++ C) [] Y q H) as G.
  rewrite band_closed_only, edges_of_paths_app, Q2R_4 in G. specialize (G Hfar).
  unfold fdec, nth0 in G. cbn [map nth] in G. unfold ins.
  repeat (apply andb_true_iff in G; destruct G as [G ?]).
  repeat match goal with
         | h : Bool.eqb _ _ = true |- _ => apply eqb_prop in h
         | h : negb _ = true |- _ => apply negb_true_iff in h
         end.
  repeat split; assumption.
Qed.
Print Assumptions C19_identities.

(* The same identities follow from C01 alone (Boolean algebra on `expected`),
   for any winding values: proved once, for all inputs. *)
Theorem C19_from_C01 : forall s c : bool,
  expected Xor s c = (expected Union s c && negb (expected Intersection s c)) /\
  expected Difference s c = (s && negb (expected Intersection s c)) /\
  expected Union s c = (expected Difference s c || expected Intersection s c || expected Difference c s) /\
  (expected Difference s c && expected Intersection s c = false) /\
  (expected Difference s c && expected Difference c s = false) /\
  (expected Intersection s c && expected Difference c s = false).
Proof. intros [|] [|]; cbn; repeat split; reflexivity. Qed.

Example C19_accepts_somewhere :
  gen_check (FFour NonZero) 3 0 4
    [ [[(15,5);(15,15);(5,15);(5,10);(0,10);(0,0);(10,0);(10,5)]];
      [[(10,10);(5,10);(5,5);(10,5)]];
      [[(5,10);(0,10);(0,0);(10,0);(10,5);(5,5)]];
      [[(15,5);(15,15);(5,15);(5,10);(10,10);(10,5)]; [(5,10);(0,10);(0,0);(10,0);(10,5);(5,5)]];
      [[(15,5);(15,15);(5,15);(5,10);(10,10);(10,5)]] ]%Z
    ([[(0,0);(10,0);(10,10);(0,10)]] ++ [[(5,5);(15,5);(15,15);(5,15)]])%Z []
    [0; 5; 10; 15]%Q = true.
Proof. vm_compute. reflexivity. Qed.

(* ---- wrapper clause (K3): from the wrapper terms regenerated from /repo's current
   source: UnionPaths64 of a single set is the union with NO clip set, and the four
   *WithClip wrappers are BooleanOpPaths64 with the corresponding clip type ---- *)
From Coq Require Import String.
From Clip Require Import Model.WrapperIR Gen.Wrappers_gen Props.C07.
Open Scope string_scope.
Theorem C19_wrappers :
  RZ "UnionPaths64" [S; fr] = RZ "BooleanOpPaths64" [VSym "Union"; S; VNil; fr] /\
  RZ "UnionWithClipPaths64" [S; C; fr] = RZ "BooleanOpPaths64" [VSym "Union"; S; C; fr] /\
  RZ "IntersectWithClipPaths64" [S; C; fr] = RZ "BooleanOpPaths64" [VSym "Intersection"; S; C; fr] /\
  RZ "DifferenceWithClipPaths64" [S; C; fr] = RZ "BooleanOpPaths64" [VSym "Difference"; S; C; fr] /\
  RZ "XorWithClipPaths64" [S; C; fr] = RZ "BooleanOpPaths64" [VSym "Xor"; S; C; fr].
Proof. split; [|split; [|split; [|split]]]; vm_compute; reflexivity. Qed.
(* and with no clip set only the subject is ever handed to the engine *)
Theorem C19_union_without_clip_adds_only_subject :
  RZ "UnionPaths64" [S; fr] =
  VApp "execute.out#002" [VApp "addPaths" [VApp "newClipperBase" []; S; VSym "Subject"; VBool false]; VSym "Union"; fr; VSym "_"; VSym "_"].
Proof. vm_compute. reflexivity. Qed.

(* the sweep's contribution rule for closed edges, as TRANSLATED FROM /repo's CURRENT SOURCE on every
   run (Gen/Decisions_gen.v, clipper_base.go:isContributingClosed): for every fill rule, clip type and
   pair of wind counts an edge contributes to the solution exactly when the expected region
   (Base/Geom.v: expected ct (filled fr .) (filled fr .)) differs across it *)
From Clip Require Import Gen.Decisions_gen Model.DecisionProofs.
Theorem C19_contribution_rule :
  forall fr ct wc wc2 is_subj, counts_ok fr wc wc2 ->
    gen_isContributingClosed fr ct wc wc2 is_subj = boundary_of_expected fr ct wc wc2 is_subj.
Proof. exact isContributingClosed_is_boundary. Qed.
Example C19_contribution_rule_nonvacuous :
  counts_ok Positive 1 (-1) /\ gen_isContributingClosed Positive Difference 1 (-1) true = true /\
  counts_ok EvenOdd (-1) 1 /\ gen_isContributingClosed EvenOdd Intersection (-1) 1 false = true.
Proof.
  unfold counts_ok. split; [split; [discriminate | intro H; discriminate H]|].
  split; [reflexivity|]. split; [|reflexivity].
  split; [discriminate | intros _; split; right; reflexivity].
Qed.
Print Assumptions C19_contribution_rule.

(* the decision at the end of intersectEdges (do two crossing, non-hot edges of the same path set start a new
   output polygon?), as TRANSLATED FROM /repo's CURRENT SOURCE on every run (Gen/NewPoly_gen.v), is: both
   edges are contributing (C19_contribution_rule) with their updated wind counts *)
From Clip Require Import Gen.NewPoly_gen Model.NewPolyProofs.
Theorem C19_new_polygon_at_crossing :
  forall fr ct w1 w2 c is_subj,
    ct <> NoClip -> counts_ok fr w1 c -> counts_ok fr w2 c ->
    gen_newpoly fr ct c c is_subj (norm fr w1) (norm fr w2) true =
    gen_isContributingClosed fr ct w1 c is_subj && gen_isContributingClosed fr ct w2 c is_subj.
Proof. exact newpoly_same_set_is_both_contributing. Qed.
Print Assumptions C19_new_polygon_at_crossing.

(* K3, second batch (engine.go, regenerated on every run): the very-small-triangle filter that every operation's output
   passes through drops a ring only when two vertices are within one unit in BOTH coordinates — an operation cannot lose a
   triangle the other three keep *)
From Clip Require Import Gen.Kernels2_gen Model.Kernel2Proofs.
Theorem C19_ptsReallyClose_from_source : forall x1 y1 x2 y2,
  (Z.abs x1 < 2 ^ 62 -> Z.abs y1 < 2 ^ 62 -> Z.abs x2 < 2 ^ 62 -> Z.abs y2 < 2 ^ 62 ->
  (gen_ptsReallyClose x1 y1 x2 y2 = true <-> (Z.abs (x1 - x2) < 2 /\ Z.abs (y1 - y2) < 2)))%Z.
Proof. exact ptsReallyClose_spec. Qed.
