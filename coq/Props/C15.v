(* Props/C15.v — C15: TrimCollinear64 removes exactly the redundant vertices.
   Statements about the Gallina model Model/Trim.v (tied to the Go code by exact
   output comparison on every run).  `TrimCollinear64 = trim isCollinear` is the
   faithful model; theorems marked "any col" hold for every collinearity
   predicate, hence for the code's own (defective) one. *)
From Coq Require Import ZArith List Bool Lia.
From Clip Require Import Base.Int64 Model.Arith Model.Trim Model.TrimProofs.
Import ListNotations.

(* totality: no index expression of the Go function can go out of range, no loop can run away *)
Theorem C15_total : forall p o, trimE isCollinear p o = Some (TrimCollinear64 p o).
Proof. exact (trim_total isCollinear). Qed.

(* the result is a sub-sequence of the input (closed results too) *)
Theorem C15_subsequence : forall p o, subseq (TrimCollinear64 p o) p.
Proof. exact (trim_subseq isCollinear). Qed.

(* open paths keep both end points *)
Theorem C15_open_ends : forall p, TrimCollinear64 p true <> [] ->
  hd pt0 (TrimCollinear64 p true) = hd pt0 p /\ last (TrimCollinear64 p true) pt0 = last p pt0 /\
  (2 <= length (TrimCollinear64 p true))%nat.
Proof. exact (trim_open_ends isCollinear). Qed.

(* every vertex dropped by the main loop was collinear (in the sense of the
   predicate in use) with its then-current neighbours *)
Theorem C15_removed_collinear : forall p o, Forall (drop_ok isCollinear p) (snd (trimT isCollinear p o)).
Proof. exact (trim_removed_collinear isCollinear). Qed.

(* with any SOUND predicate (reports collinear only when the exact cross product
   vanishes) the exact doubled signed area of a closed path is unchanged *)
Theorem C15_area_preserved : forall col, col_sound col -> forall p, shoelace2 (trim col p false) = shoelace2 p.
Proof. exact trim_shoelace. Qed.

(* with a predicate that recognises spikes (col a z a), a non-empty closed result has >= 3 vertices *)
Theorem C15_at_least_three : forall col, (forall a z, col a z a = true) ->
  forall p, trim col p false <> [] -> (3 <= length (trim col p false))%nat.
Proof. exact trim_small. Qed.

(* ---- clauses of the property that are FALSE of the faithful model (findings) ---- *)

(* idempotence fails even with the exact predicate: the main loop tests path[i]
   against path[i+1], which may itself be dropped later *)
Theorem C15_idempotent_refuted :
  exists p, trim col_exact (trim col_exact p false) false <> trim col_exact p false.
Proof. exact trim_not_idempotent. Qed.

(* a collinear triple can survive, for the same reason *)
Theorem C15_no_collinear_triple_refuted :
  cyc_collinear col_exact (trim col_exact idem_cex false) = true.
Proof. exact (proj1 trim_no_collinear_refuted). Qed.

(* with the code's own predicate (triSign 1 = 0) a closed result can have 2 vertices *)
Theorem C15_at_least_three_refuted :
  TrimCollinear64 [(1,5); (3,15); (0,0)]%Z false = [(1,5); (0,0)]%Z.
Proof. exact (proj1 trim_small_refuted_isCollinear). Qed.

(* both clauses do hold on the exhaustively enumerated small scope (<= 5 points, 3x3 lattice),
   which is why a test suite does not see them *)
Print Assumptions C15_total.
Print Assumptions C15_subsequence.
Print Assumptions C15_area_preserved.
Print Assumptions C15_idempotent_refuted.

(* K3: the collinearity predicate the theorems above are instantiated with is the one /repo's source
   defines now: internal_clipper.go:isCollinear, productsAreEqual, multiplyUInt64 and triSign are
   regenerated on every run (Gen/Kernels_gen.v) and proved equal to the model's predicate *)
From Clip Require Import Model.ArithProofs Model.KernelOps Gen.Kernels_gen Model.KernelProofs.
Theorem C15_collinear_from_source : forall p1 sh p2,
  gen_isCollinear (px p1) (py p1) (px sh) (py sh) (px p2) (py p2) = isCollinear p1 sh p2.
Proof. exact gen_isCollinear_eq. Qed.
Theorem C15_triSign_from_source : forall x, gen_triSign x = (if x =? 1 then 0 else Z.sgn x)%Z.
Proof. intros x. rewrite gen_triSign_eq. apply triSign_spec. Qed.
Print Assumptions C15_collinear_from_source.

(* K3 tripwire for the hand-written models this file's theorems are about: the source text of the modelled functions is
   the text the models were last reconciled with (Model/Fingerprints.v, written by tools/update_fingerprints.sh after clean
   correspondence runs; Gen/Fingerprints_gen.v is regenerated from /repo on every run).  When this breaks, the functions
   were edited: the check widens its search for a failing input and reports the broken obligation either way. *)
From Coq Require Import String.
From Clip Require Import Gen.Fingerprints_gen Model.Fingerprints.
Theorem C15_modelled_source_unchanged :
  fps_agree gen_fingerprints ["TrimCollinear64"]%string = true.
Proof. vm_compute. reflexivity. Qed.
