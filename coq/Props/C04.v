(* Props/C04.v — C04: PolyTree results are the same polygons, correctly nested. *)
From Coq Require Import Reals QArith Qreals ZArith List Bool.
From Clip Require Import Base.Int64 Model.Arith Base.Geom Cert.Region Cert.RegionSpec Cert.Instances Cert.RegionSound Model.PolyTree.
Import ListNotations.

(* node API: IsHole() alternates with the nesting level (for every tree) *)
Theorem C04_is_hole_alternates : forall l : nat, (1 <= l)%nat -> is_hole (S l) = negb (is_hole l).
Proof. exact is_hole_alternates. Qed.
Theorem C04_is_hole_iff_even_level : forall l : nat, (1 <= l)%nat -> (is_hole l = true <-> Nat.even l = true).
Proof. exact is_hole_iff_even. Qed.
Theorem C04_level_of_child : forall (Poly : Type) (l : nat) (p : Poly) (cs : list (tree Poly)),
  levels Poly l (Node Poly p cs) = (p, l) :: flat_map (levels Poly (S l)) cs.
Proof. exact level_child. Qed.

(* (b) a node's polygon lies inside its parent's: at EVERY real point more than 2 units from
   both polygons' edges, inside the node implies inside the parent *)
Theorem C04_child_inside_parent :
  forall (rm : Z) (fuel : nat) (node parent : path) (Y : list Q) (q : rpt),
    gen_check FImp rm fuel 4 [[node]; [parent]] ([node] ++ [parent]) [] Y = true ->
    far (edges_of_paths [node] ++ edges_of_paths [parent]) 4 q ->
    wn [node] q <> 0%Z -> wn [parent] q <> 0%Z.
Proof.
  intros rm fuel node parent Y q H Hfar Hn.
  pose proof (gen_sound FImp rm fuel 4 [[node]; [parent]] ([node] ++ [parent]) [] Y q H) as G.
  rewrite band_closed_only, edges_of_paths_app, Q2R_4 in G. specialize (G Hfar).
  unfold fdec, nth0, nz in G. cbn [map nth] in G.
  destruct (Z.eqb_spec (wn [node] q) 0) as [E|E]; [contradiction|].
  destruct (Z.eqb_spec (wn [parent] q) 0) as [E2|E2]; [discriminate G|exact E2].
Qed.

(* (c) sibling polygons do not overlap away from their edges *)
Theorem C04_siblings_disjoint :
  forall (rm : Z) (fuel : nat) (a b : path) (Y : list Q) (q : rpt),
    gen_check FDisj rm fuel 4 [[a]; [b]] ([a] ++ [b]) [] Y = true ->
    far (edges_of_paths [a] ++ edges_of_paths [b]) 4 q ->
    ~ (wn [a] q <> 0%Z /\ wn [b] q <> 0%Z).
Proof.
  intros rm fuel a b Y q H Hfar [Ha Hb].
  pose proof (gen_sound FDisj rm fuel 4 [[a]; [b]] ([a] ++ [b]) [] Y q H) as G.
  rewrite band_closed_only, edges_of_paths_app, Q2R_4 in G. specialize (G Hfar).
  unfold fdec, nth0, nz in G. cbn [map nth] in G.
  destruct (Z.eqb_spec (wn [a] q) 0); [contradiction|].
  destruct (Z.eqb_spec (wn [b] q) 0); [contradiction|]. discriminate G.
Qed.

(* consequence of (b) and (c) at a point: the polygons containing it form a chain, hence the
   parent of a node is the INNERMOST polygon around it (abstract forest, pointwise) *)
Theorem C04_parent_is_innermost :
  forall (parent : nat -> option nat) (inside : nat -> Prop),
    (forall i j, parent j = Some i -> (i < j)%nat) ->
    (forall i j, parent j = Some i -> inside j -> inside i) ->
    (forall i j, i <> j -> parent i = parent j -> ~ (inside i /\ inside j)) ->
    forall h p m, parent h = Some p -> inside h -> inside m -> m <> h ->
    ~ ancestor parent h m -> m = p \/ ancestor parent m p.
Proof. exact parent_is_innermost. Qed.

Print Assumptions C04_child_inside_parent.
Print Assumptions C04_parent_is_innermost.

(* K3 tripwire for the hand-written models this file's theorems are about: the source text of the modelled functions is
   the text the models were last reconciled with (Model/Fingerprints.v, written by tools/update_fingerprints.sh after clean
   correspondence runs; Gen/Fingerprints_gen.v is regenerated from /repo on every run).  When this breaks, the functions
   were edited: the check widens its search for a failing input and reports the broken obligation either way. *)
From Coq Require Import String.
From Clip Require Import Gen.Fingerprints_gen Model.Fingerprints.
Theorem C04_modelled_source_unchanged :
  fps_agree gen_fingerprints ["PolyPathBase.AddChild"; "PolyPathBase.IsHole"; "PolyPathBase.Level"; "PolyPathBase.Count"; "PolyPathBase.Clear"]%string = true.
Proof. vm_compute. reflexivity. Qed.
