(* Props/C10.v — C10: open-path offsetting produces the stroke of half-width delta.
   Same certified statements as C05, with the band given by the OPEN polyline. *)
From Coq Require Import Reals QArith Qreals ZArith List Bool.
From Clip Require Import Base.Int64 Model.Arith Base.Geom Cert.Region Cert.RegionSpec Cert.Instances Cert.RegionSound Props.C05.
Import ListNotations.

(* both normal strips of every segment (and the end-cap boxes / discs) lie inside the result,
   at every real point more than 2 units from the result's own edges *)
Theorem C10_strips_inside :
  forall (rm : Z) (fuel : nat) (Strips R : paths) (Y : list Q) (q : rpt),
    gen_check FImp rm fuel 4 [Strips; R] R [] Y = true ->
    far (edges_of_paths R) 4 q ->
    wn Strips q <> 0%Z -> wn R q <> 0%Z.
Proof.
  intros rm fuel Strips R Y q H Hfar.
  pose proof (C05_implication rm fuel 4 Strips R R [] Y q H) as G.
  rewrite band_closed_only, Q2R_4 in G. exact (G Hfar).
Qed.

(* the result contains no point farther than sqrt r2 = k delta + tol from the polyline L
   (band = the open edges of L) *)
Theorem C10_nothing_far :
  forall (rm : Z) (fuel : nat) (r2 : Q) (R : paths) (L : path) (Y : list Q) (q : rpt),
    gen_check (FCanon 0) rm fuel r2 [R] [] [L] Y = true ->
    far (edges_open L) (Q2R r2) q ->
    wn R q = 0%Z.
Proof.
  intros rm fuel r2 R L Y q H Hfar.
  assert (Hb : band_edges [] [L] = edges_open L).
  { unfold band_edges. cbn. rewrite app_nil_r. reflexivity. }
  pose proof (C05_winding_zero_or 0 rm fuel r2 R [] [L] Y q H) as G.
  rewrite Hb in G. destruct (G Hfar); assumption.
Qed.
Print Assumptions C10_nothing_far.
