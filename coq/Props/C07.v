(* Props/C07.v — C07: the floating-point API equals the integer API on quantised
   input.  The wrapper bodies are NOT written here: `wrappers` (Gen/Wrappers_gen.v)
   is printed from /repo's current source by harness/translate.go on every run,
   and the theorems below are re-checked against it.  Each theorem evaluates a
   float wrapper and its 64-bit counterpart symbolically (Model/WrapperIR.v) and
   states that the float wrapper computes

        unscale_{1/10^p} ( F64 ( quantise_{10^p} inputs ) )

   as TERMS over uninterpreted primitives: for all inputs, all engine behaviours
   and every precision p satisfying the scenario's assumptions.  Scenarios:
     A  p <> 0, -8 <= p <= 8, non-nil inputs, non-empty rectangle, the engine succeeds;
     B  p < -8 or p > 8  (every wrapper must raise the precision-range panic);
     Z  p = 0 (the one legal precision the ClipperD-based wrappers do NOT honour). *)
From Coq Require Import String List ZArith Bool.
From Clip Require Import Model.WrapperIR Gen.Wrappers_gen.
Import ListNotations.
Open Scope string_scope.

Definition muts := ["addPaths"; "execute"; "executeInternal"; "buildTree"; "clearSolutionOnly"; "SetScale"; "Clear"].
Definition allocs := ["newClipperBase"; "NewPolyPathBase"].

(* every function the theorems mention is present in the regenerated model *)
Theorem C07_all_wrappers_translated : wrappers_missing = [].
Proof. reflexivity. Qed.

Definition common (v : val) : option bool :=
  match v with
  | VApp "execute.result" _ => Some true               (* the sweep reports success *)
  | VApp "field.succeeded" _ => Some true
  | VApp "!=" [_; VNil] => Some true                   (* inputs are not nil *)
  | VApp "==" [_; VNil] => Some false
  | VApp "||" [VApp "IsEmpty" _; _] => Some false      (* rectangle not empty, path set not empty *)
  | _ => None
  end.
Definition decA (v : val) : option bool :=
  match v with
  | VApp "==" [VSym "p"; VInt 0] => Some false
  | VApp "||" [VApp "<" [VSym "p"; VInt (-8)]; VApp ">" [VSym "p"; VInt 8]] => Some false
  | _ => common v
  end.
Definition decB (v : val) : option bool :=
  match v with
  | VApp "==" [VSym "p"; VInt 0] => Some false
  | VApp "||" [VApp "<" [VSym "p"; VInt (-8)]; VApp ">" [VSym "p"; VInt 8]] => Some true
  | _ => common v
  end.
Definition RA := run_func wrappers decA muts allocs.
Definition RB := run_func wrappers decB muts allocs.
Definition RZ := run_func wrappers common muts allocs.

Definition p := VSym "p".
Definition scale := VApp "math.Pow" [VInt 10; VApp "float64" [p]].
Definition inv := VApp "/" [VInt 1; scale].
Definition qPaths (x : val) := VMap (VApp "ScalePathDToPath64" [VSym "$elem"; scale]) x.    (* = ScalePathsDToPaths64 x scale *)
Definition qPath (x : val) := VApp "ScalePathDToPath64" [x; scale].
Definition unscale (r : val) := VMap (VApp "ScalePath64ToPathD" [VSym "$elem"; inv]) r.    (* = ScalePaths64ToPathsD r (1/scale) *)
Definition unscale1 (r : val) := VApp "ScalePath64ToPathD" [r; inv].
Definition S := VSym "subject". Definition C := VSym "clip". Definition ct := VSym "ct". Definition fr := VSym "fr".
Definition precision_panic := VApp "$panic" [VSym "ErrPrecisionRange"].

(* the scale helpers are the per-path maps the definitions above say they are *)
Theorem C07_scale_helpers :
  RA "ScalePathsDToPaths64" [S; scale] = qPaths S /\ RA "ScalePaths64ToPathsD" [S; inv] = unscale S.
Proof. split; vm_compute; reflexivity. Qed.

(* ---- scenario A ---- *)
Theorem C07_BooleanOpPathsD :
  RA "BooleanOpPathsD" [ct; S; C; fr; p] = unscale (RA "BooleanOpPaths64" [ct; qPaths S; qPaths C; fr]).
Proof. vm_compute. reflexivity. Qed.

Theorem C07_wrappersD :
  RA "UnionPathsD" [S; fr; p] = unscale (RA "UnionPaths64" [qPaths S; fr]) /\
  RA "UnionWithClipPathsD" [S; C; fr; p] = unscale (RA "UnionWithClipPaths64" [qPaths S; qPaths C; fr]) /\
  RA "IntersectWithClipPathsD" [S; C; fr; p] = unscale (RA "IntersectWithClipPaths64" [qPaths S; qPaths C; fr]) /\
  RA "DifferenceWithClipPathsD" [S; C; fr; p] = unscale (RA "DifferenceWithClipPaths64" [qPaths S; qPaths C; fr]) /\
  RA "XorWithClipPathsD" [S; C; fr; p] = unscale (RA "XorWithClipPaths64" [qPaths S; qPaths C; fr]).
Proof. split; [|split; [|split; [|split]]]; vm_compute; reflexivity. Qed.

(* the PolyTree variants build the same tree from the same engine state (the float tree
   stores the quantised integer polygons) *)
Theorem C07_BooleanOpPolyTreeD :
  match RA "BooleanOpPolyTreeD" [ct; S; C; fr; p], RA "BooleanOpPolyTree64" [ct; qPaths S; qPaths C; fr] with
  | VRec "PolyTreeD" [("PolyPathBase", VApp "buildTree.out#000" (e1 :: _))],
    VRec "PolyTree64" [("PolyPathBase", VApp "buildTree.out#000" (e2 :: _))] => val_eqb e1 e2 = true
  | _, _ => False
  end.
Proof. vm_compute. reflexivity. Qed.

Theorem C07_MinkowskiD :
  RA "MinkowskiSumD" [VSym "pattern"; VSym "path"; VSym "closed"; p]
    = unscale (RA "MinkowskiSum64" [qPath (VSym "pattern"); qPath (VSym "path"); VSym "closed"]) /\
  RA "MinkowskiDiffD" [VSym "pattern"; VSym "path"; VSym "closed"; p]
    = unscale (RA "MinkowskiDiff64" [qPath (VSym "pattern"); qPath (VSym "path"); VSym "closed"]).
Proof. split; vm_compute; reflexivity. Qed.

(* rectangle clipping: the bounds handed to the integer clipper are ScaleRectD of the float bounds *)
Definition qRect (r : val) := VApp "ScaleRectD" [r; scale].
Theorem C07_RectClipD :
  RA "RectClipPathsD" [VSym "rect"; S; p] = unscale (RA "RectClipPaths64" [qRect (VSym "rect"); qPaths S]) /\
  RA "RectClipLinesPathsD" [VSym "rect"; S; p] = unscale (RA "RectClipLinesPaths64" [qRect (VSym "rect"); qPaths S]).
Proof. split; vm_compute; reflexivity. Qed.

Theorem C07_TrimCollinearD :
  RA "TrimCollinearD" [VSym "path"; p; VSym "open"] = unscale1 (VApp "TrimCollinear64" [qPath (VSym "path"); VSym "open"]).
Proof. vm_compute. reflexivity. Qed.

(* ---- scenario B: a precision outside [-8, 8] is rejected with the documented panic, by every entry point ---- *)
Theorem C07_precision_rejected :
  RB "BooleanOpPathsD" [ct; S; C; fr; p] = precision_panic /\
  RB "UnionPathsD" [S; fr; p] = precision_panic /\
  RB "BooleanOpPolyTreeD" [ct; S; C; fr; p] = precision_panic /\
  RB "MinkowskiSumD" [VSym "pattern"; VSym "path"; VSym "closed"; p] = precision_panic /\
  RB "MinkowskiDiffD" [VSym "pattern"; VSym "path"; VSym "closed"; p] = precision_panic /\
  RB "RectClipPathsD" [VSym "rect"; S; p] = precision_panic /\
  RB "RectClipLinesPathsD" [VSym "rect"; S; p] = precision_panic /\
  RB "TrimCollinearD" [VSym "path"; p; VSym "open"] = precision_panic /\
  RB "NewClipperD" [p] = precision_panic.
Proof. split; [|split; [|split; [|split; [|split; [|split; [|split; [|split]]]]]]]; vm_compute; reflexivity. Qed.

(* ---- scenario Z: precision 0 is silently replaced by 2 (known finding precision-zero-means-two) ---- *)
Theorem C07_precision_zero_refuted :
  RZ "BooleanOpPathsD" [ct; S; C; fr; VInt 0] = RZ "BooleanOpPathsD" [ct; S; C; fr; VInt 2].
Proof. vm_compute. reflexivity. Qed.

(* the default precision (no argument) is 2 *)
Theorem C07_default_precision :
  RZ "BooleanOpPathsD" [ct; S; C; fr] = RZ "BooleanOpPathsD" [ct; S; C; fr; VInt 2].
Proof. vm_compute. reflexivity. Qed.

(* NOT covered by a theorem: InflatePathsD / InflatePaths64 apply their options in a loop over
   function values, which the IR does not express (the translator prints SUnsupported and the
   evaluation is stuck); they are covered by the differential run only. *)
Theorem C07_inflate_not_expressible :
  match RA "InflatePathsD" [S; VSym "delta"; VSym "jt"; VSym "et"] with VStuck _ => True | _ => False end.
Proof. vm_compute. exact I. Qed.

Print Assumptions C07_BooleanOpPathsD.
Print Assumptions C07_precision_rejected.
