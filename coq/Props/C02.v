(* Props/C02.v — C02: closed solutions are a canonical, non-overlapping
   polygon set.  Statements only; proofs are applications of gen_sound. *)
From Coq Require Import Reals QArith Qreals ZArith List Bool Lia.
From Clip Require Import Base.Int64 Model.Arith Base.Geom Cert.Region Cert.RegionSpec
     Cert.Instances Cert.RegionSound.
Import ListNotations.

(* the winding number of the whole solution is 0 or s (s = 1, or -1 with the
   reverse-solution option) at EVERY real point more than 2 units from every
   solution edge *)
Theorem C02_canonical :
  forall (s rm : Z) (fuel : nat) (Sol : paths) (Y : list Q) (q : rpt),
    gen_check (FCanon s) rm fuel 4 [Sol] Sol [] Y = true ->
    far (edges_of_paths Sol) 4 q ->
    wn Sol q = 0%Z \/ wn Sol q = s.
Proof.
  intros s rm fuel Sol Y q H Hfar.
  pose proof (gen_sound (FCanon s) rm fuel 4 [Sol] Sol [] Y q H) as G.
  rewrite band_closed_only, Q2R_4 in G. specialize (G Hfar).
  unfold fdec, nth0 in G. cbn [map nth] in G.
  apply orb_true_iff in G. destruct G as [G|G]; apply Z.eqb_eq in G; [left|right]; exact G.
Qed.
Print Assumptions C02_canonical.

(* consequence: where the winding number is 0 or 1 the EvenOdd, NonZero and
   Positive readings agree *)
Theorem C02_readings_agree :
  forall w : Z, (w = 0 \/ w = 1)%Z ->
    filled EvenOdd w = filled NonZero w /\ filled NonZero w = filled Positive w.
Proof. intros w [->| ->]; split; reflexivity. Qed.

(* consequence: re-uniting changes nothing.  If Sol2 is accepted as the
   NonZero union of Sol with nothing (C01's certificate) and Sol is canonical,
   both have the same interior away from Sol's edges *)
Theorem C02_reunion :
  forall (rm : Z) (fuel : nat) (Sol Sol2 : paths) (Y : list Q) (q : rpt),
    gen_check FSameNZ rm fuel 4 [Sol; Sol2] Sol [] Y = true ->
    far (edges_of_paths Sol) 4 q ->
    (wn Sol q <> 0%Z <-> wn Sol2 q <> 0%Z).
Proof.
  intros rm fuel Sol Sol2 Y q H Hfar.
  pose proof (gen_sound FSameNZ rm fuel 4 [Sol; Sol2] Sol [] Y q H) as G.
  rewrite band_closed_only, Q2R_4 in G. specialize (G Hfar).
  unfold fdec, nth0, nz in G. cbn [map nth] in G. apply eqb_prop in G.
  destruct (Z.eqb_spec (wn Sol q) 0); destruct (Z.eqb_spec (wn Sol2 q) 0); simpl in G; try discriminate; tauto.
Qed.

Example C02_accepts_somewhere :
  gen_check (FCanon 1) 3 0 4 [ [[(0,0);(10,0);(10,10);(0,10)]; [(2,2);(2,8);(8,8);(8,2)]]%Z ]
            [[(0,0);(10,0);(10,10);(0,10)]; [(2,2);(2,8);(8,8);(8,2)]]%Z [] [0; 2; 8; 10]%Q = true.
Proof. vm_compute. reflexivity. Qed.
(* two overlapping positively oriented squares have winding 2 in the overlap *)
Example C02_rejects_overlap :
  gen_check (FCanon 1) 3 0 4 [ [[(0,0);(10,0);(10,10);(0,10)]; [(2,2);(8,2);(8,8);(2,8)]]%Z ]
            [[(0,0);(10,0);(10,10);(0,10)]; [(2,2);(8,2);(8,8);(2,8)]]%Z [] [0; 2; 8; 10]%Q = false.
Proof. vm_compute. reflexivity. Qed.

(* K3, second batch (Gen/Kernels2_gen.v, regenerated from engine.go on every run): the "very small triangle"
   filter drops a three-vertex ring only when two of its vertices are within one unit in BOTH coordinates *)
From Clip Require Import Gen.Kernels2_gen Model.Kernel2Proofs.
Theorem C02_ptsReallyClose_from_source : forall x1 y1 x2 y2,
  (Z.abs x1 < 2 ^ 62 -> Z.abs y1 < 2 ^ 62 -> Z.abs x2 < 2 ^ 62 -> Z.abs y2 < 2 ^ 62 ->
  (gen_ptsReallyClose x1 y1 x2 y2 = true <-> (Z.abs (x1 - x2) < 2 /\ Z.abs (y1 - y2) < 2)))%Z.
Proof. exact ptsReallyClose_spec. Qed.
Theorem C02_pointsEqual_from_source : forall x1 y1 x2 y2,
  gen_pointsEqual x1 y1 x2 y2 = true <-> (x1, y1) = (x2, y2).
Proof. exact pointsEqual_spec. Qed.
Example C02_ptsReallyClose_example :
  gen_ptsReallyClose 5 5 6 4 = true /\ gen_ptsReallyClose 5 5 5 7 = false /\ gen_ptsReallyClose 5 5 7 5 = false.
Proof. vm_compute. repeat split; reflexivity. Qed.
Print Assumptions C02_ptsReallyClose_from_source.
