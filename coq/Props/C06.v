(* Props/C06.v — C06: rectangle clipping keeps exactly what is inside. *)
From Coq Require Import Reals QArith Qreals ZArith List Bool Lra.
From Clip Require Import Base.Int64 Model.Arith Base.Geom Base.GeomLemmas Cert.Region Cert.RegionSpec
     Cert.Instances Cert.RegionSound.
Import ListNotations.

Definition rect_path (l t r b : Z) : path := [(l, t); (r, t); (r, b); (l, b)].

(* At EVERY real point more than 2 units from the rectangle boundary and from
   every input edge: strictly inside the rectangle the output's total winding
   number equals the input's; outside it is zero.  ("inside the rectangle" is
   expressed through the rectangle's own winding number, characterised below.) *)
Theorem C06_rect :
  forall (rm : Z) (fuel : nat) (l t r b : Z) (In Out : paths) (Y : list Q) (q : rpt),
    gen_check FRect rm fuel 4 [In; Out; [rect_path l t r b]] (In ++ [rect_path l t r b]) [] Y = true ->
    far (edges_of_paths In ++ edges_of_paths [rect_path l t r b]) 4 q ->
    (wn [rect_path l t r b] q <> 0%Z -> wn Out q = wn In q) /\
    (wn [rect_path l t r b] q = 0%Z -> wn Out q = 0%Z).
Proof.
  intros rm fuel l t r b In Out Y q H Hfar.
  pose proof (gen_sound FRect rm fuel 4 [In; Out; [rect_path l t r b]] (In ++ [rect_path l t r b]) [] Y q H) as G.
  rewrite band_closed_only, Cert.RegionSound.edges_of_paths_app, Q2R_4 in G. specialize (G Hfar).
  unfold fdec, nth0, nz in G. cbn [map nth] in G.
  destruct (Z.eqb_spec (wn [rect_path l t r b] q) 0) as [E|E]; cbn [negb] in G; apply Z.eqb_eq in G; split; intros; try congruence; tauto.
Qed.
Print Assumptions C06_rect.

(* the rectangle's winding number is 1 strictly inside and 0 strictly outside *)
Theorem C06_rect_inside : forall l t r b q, (l < r)%Z -> (t < b)%Z ->
  (IZR l < fst q < IZR r)%R -> (IZR t < snd q < IZR b)%R -> wn [rect_path l t r b] q = 1%Z.
Proof. intros. apply wn_rect_inside; assumption. Qed.
Theorem C06_rect_outside : forall l t r b q, (l < r)%Z -> (t < b)%Z ->
  (fst q < IZR l \/ IZR r < fst q \/ snd q < IZR t \/ IZR b < snd q)%R -> wn [rect_path l t r b] q = 0%Z.
Proof. intros. apply wn_rect_outside; assumption. Qed.

Example C06_accepts_somewhere :
  gen_check FRect 3 0 4 [ [[(0,0);(20,0);(20,20);(0,20)]]; [[(5,5);(20,5);(20,15);(5,15)]]; [rect_path 5 5 30 15] ]%Z
            ([[(0,0);(20,0);(20,20);(0,20)]] ++ [rect_path 5 5 30 15])%Z [] [0; 5; 15; 20]%Q = true.
Proof. vm_compute. reflexivity. Qed.

(* the leaf decisions of the rectangle clipper, as TRANSLATED FROM /repo's CURRENT SOURCE on every run
   (Gen/RectLeaf_gen.v, rect_clip.go: getLocation, headingClockwise, getAdjacentLocation, areOpposites,
   getEdgesForPt), with locations as their integer codes (Left 0, Top 1, Right 2, Bottom 3, Inside 4) *)
From Coq Require Import String.
From Clip Require Import Gen.RectLeaf_gen Model.RectLeafProofs.
Theorem C06_getLocation :
  forall l t r b x y, (l <= r)%Z -> (t <= b)%Z ->
    let '(loc, ok) := gen_getLocation b l r t x y in
    (0 <= loc <= 4)%Z /\
    (ok = false <-> on_boundary l t r b x y) /\
    (ok = false -> (loc = LLeft /\ x = l) \/ (loc = LRight /\ x = r) \/ (loc = LTop /\ y = t) \/ (loc = LBottom /\ y = b)) /\
    (ok = true ->
       (loc = LInside <-> ((l < x < r)%Z /\ (t < y < b)%Z)) /\
       (loc = LLeft <-> (x < l)%Z) /\ (loc = LRight <-> (x > r)%Z) /\
       (loc = LTop <-> ((l <= x <= r)%Z /\ (y < t)%Z)) /\ (loc = LBottom <-> ((l <= x <= r)%Z /\ (y > b)%Z))).
Proof. exact getLocation_spec. Qed.
Theorem C06_location_cycle :
  forall loc, side loc ->
    side (gen_getAdjacentLocation loc true) /\ side (gen_getAdjacentLocation loc false) /\
    gen_headingClockwise loc (gen_getAdjacentLocation loc true) = true /\
    gen_headingClockwise (gen_getAdjacentLocation loc false) loc = true /\
    gen_getAdjacentLocation (gen_getAdjacentLocation loc true) false = loc /\
    gen_getAdjacentLocation (gen_getAdjacentLocation loc false) true = loc.
Proof. exact getAdjacentLocation_spec. Qed.
Theorem C06_heading_and_opposites :
  forall p c, side p -> side c ->
    (gen_headingClockwise p c = true <-> (p = 0 /\ c = 1) \/ (p = 1 /\ c = 2) \/ (p = 2 /\ c = 3) \/ (p = 3 /\ c = 0))%Z /\
    (gen_areOpposites p c = true <-> (p = 0 /\ c = 2) \/ (p = 2 /\ c = 0) \/ (p = 1 /\ c = 3) \/ (p = 3 /\ c = 1))%Z.
Proof. intros p c Hp Hc. split; [apply headingClockwise_spec | apply areOpposites_spec]; assumption. Qed.
Theorem C06_location_codes :
  location_codes = [("Bottom"%string, 3%Z); ("Inside"%string, 4%Z); ("Left"%string, 0%Z); ("Right"%string, 2%Z); ("Top"%string, 1%Z)].
Proof. exact location_codes_are. Qed.

(* getNextLocation (both the polygon and the polyline driver call it): the decisions cut out of the source *)
Theorem C06_nextLocation_opposite_first : forall x y b l r t,
  ((x >= r)%Z -> gen_next_Left x y b l r t = LRight) /\ ((y >= b)%Z -> gen_next_Top x y b l r t = LBottom) /\
  ((x <= l)%Z -> gen_next_Right x y b l r t = LLeft) /\ ((y <= t)%Z -> gen_next_Bottom x y b l r t = LTop).
Proof. exact next_opposite_first. Qed.
Theorem C06_nextLocation_stay : forall x y b l r t,
  (gen_stay_Left x y b l r t = true <-> (x <= l)%Z) /\ (gen_stay_Top x y b l r t = true <-> (y <= t)%Z) /\
  (gen_stay_Right x y b l r t = true <-> (x >= r)%Z) /\ (gen_stay_Bottom x y b l r t = true <-> (y >= b)%Z).
Proof. exact stay_spec. Qed.
Definition C06_nextLocation_adjacent_or_inside := next_adjacent_or_inside.
Definition C06_nextLocation_from_inside := next_Inside_spec.
Definition C06_nextLocation_is_another_location := next_is_another_location.
Print Assumptions C06_getLocation.
Print Assumptions C06_nextLocation_opposite_first.

(* K3, second batch of kernels (Gen/Kernels2_gen.v, regenerated from core.go / rect_clip.go on every run): the
   rectangle predicates the drivers decide with ("wholly inside: unchanged", "bounds do not meet: nothing") and the
   end-point branches of getSegmentIntersection *)
From Clip Require Import Model.Measures Gen.Kernels2_gen Model.Kernel2Proofs.
Theorem C06_rect_contains_from_source : forall l t r b l' t' r' b', (l' <= r')%Z -> (t' <= b')%Z ->
  (gen_Rect64_Contains l t r b l' t' r' b' = true <->
   forall x y, in_rect l' t' r' b' x y -> in_rect l t r b x y).
Proof. exact Rect64_Contains_points. Qed.
Theorem C06_rect_intersects_from_source : forall l t r b l' t' r' b',
  gen_Rect64_Intersects l t r b l' t' r' b' = true <->
  exists x y, in_rect l t r b x y /\ in_rect l' t' r' b' x y.
Proof. exact Rect64_Intersects_points. Qed.
Theorem C06_rect_isEmpty_from_source : forall l t r b,
  gen_Rect64_IsEmpty l t r b = false <-> (l < r /\ t < b)%Z.
Proof. exact Rect64_IsEmpty_spec. Qed.
Theorem C06_rect_midpoint_inside : forall l t r b,
  (Z.abs l < 2 ^ 62 -> Z.abs t < 2 ^ 62 -> Z.abs r < 2 ^ 62 -> Z.abs b < 2 ^ 62 -> l <= r -> t <= b ->
  let m := gen_Rect64_MidPoint l t r b in in_rect l t r b (fst m) (snd m))%Z.
Proof. exact Rect64_MidPoint_inside. Qed.
Theorem C06_overlap_tests_from_source :
  (forall a1 t1 a2 b1 a3 t2 a4 b2, gen_hasVertOverlap a1 t1 a2 b1 a3 t2 a4 b2 = true <-> (t1 < b2 /\ t2 < b1)%Z) /\
  (forall l1 a1 r1 a2 l2 a3 r2 a4, gen_hasHorzOverlap l1 a1 r1 a2 l2 a3 r2 a4 = true <-> (l1 < r2 /\ l2 < r1)%Z).
Proof. split; [exact hasVertOverlap_spec | exact hasHorzOverlap_spec]. Qed.
(* every point getSegmentIntersection reports (within 2^29) lies on BOTH closed segments, exactly, unless the
   segments cross properly, in which case the point is getSegmentIntersectPt's (C13 bounds that one) *)
Theorem C06_segment_intersection_sound : forall p1 p2 p3 p4 ip,
  coord_ok two29 p1 -> coord_ok two29 p2 -> coord_ok two29 p3 -> coord_ok two29 p4 ->
  gen_getSegmentIntersection (px p1) (py p1) (px p2) (py p2) (px p3) (py p3) (px p4) (py p4) = (ip, true) ->
  (on_segment p1 p2 ip = true /\ on_segment p3 p4 ip = true)
  \/ (proper_cross p1 p2 p3 p4 /\
      gen_getSegmentIntersectPt (px p1) (py p1) (px p2) (py p2) (px p3) (py p3) (px p4) (py p4) = (ip, true)).
Proof. exact getSegmentIntersection_sound. Qed.
Example C06_segment_intersection_example :
  gen_getSegmentIntersection 0 0 10 10 0 10 10 0 = ((5, 5), true)%Z /\
  gen_getSegmentIntersection 0 0 10 0 5 0 5 7 = ((5, 0), true)%Z /\
  gen_getSegmentIntersection 0 0 10 0 11 0 11 7 = ((0, 0), false)%Z.
Proof. vm_compute. repeat split; reflexivity. Qed.
Print Assumptions C06_rect_contains_from_source.
Print Assumptions C06_segment_intersection_sound.
