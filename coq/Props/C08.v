(* Props/C08.v — C08: Minkowski sum and difference. *)
From Coq Require Import Reals QArith Qreals ZArith List Bool Lia.
From Clip Require Import Base.Int64 Model.Arith Base.Geom Cert.Region Cert.RegionSpec
     Cert.Instances Cert.RegionSound Model.Minkowski Model.MinkowskiProofs.
Import ListNotations.

(* K1: the quad construction, for all patterns, paths and flags *)
Theorem C08_total : forall pat p s c, exists r, minkowskiInternal pat p s c = MOk r.
Proof. exact mink_total. Qed.

Theorem C08_count : forall pat p s c r, minkowskiInternal pat p s c = MOk r ->
  length r = ((length p - (if c then 0 else 1)) * length pat)%nat /\ Forall (fun q => length q = 4%nat) r.
Proof. exact mink_count. Qed.

(* one positively oriented parallelogram per (path edge, pattern edge); path edges
   are the n cyclic ones when closed and the n-1 consecutive ones when open *)
Theorem C08_quads_closed : forall (pat p : path) (s : bool) (r : paths),
  path_ok two29 pat -> path_ok two29 p -> minkowskiInternal pat p s true = MOk r ->
  forall i j : nat, (i < length p)%nat -> (j < length pat)%nat ->
  let n := length p in let m := length pat in
  let a := nth ((i + n - 1) mod n) p (0, 0)%Z in let b := nth i p (0, 0)%Z in
  let u := nth ((j + m - 1) mod m) pat (0, 0)%Z in let v := nth j pat (0, 0)%Z in
  let Q := [pt_op s a u; pt_op s b u; pt_op s b v; pt_op s a v] in
  nth (i * m + j) r [] = Q \/ nth (i * m + j) r [] = rev Q.
Proof. exact mink_quads_closed. Qed.

Theorem C08_quads_positive : forall (pat p : path) (s c : bool) (r : paths),
  path_ok two29 pat -> path_ok two29 p -> minkowskiInternal pat p s c = MOk r ->
  forall q : path, In q r -> (0 <= shoelace2_exact q)%Z.
Proof. exact mink_positive. Qed.

(* K2: the returned polygon set R equals the union of the quads Q at EVERY real
   point more than 2 units from every quad edge ... *)
Theorem C08_region :
  forall (rm : Z) (fuel : nat) (R Qs : paths) (Y : list Q) (q : rpt),
    gen_check FOddNZ rm fuel 4 [R; Qs] Qs [] Y = true ->
    far (edges_of_paths Qs) 4 q ->
    Z.odd (wn R q) = negb (wn Qs q =? 0)%Z.
Proof.
  intros rm fuel R Qs Y q H Hfar.
  pose proof (gen_sound FOddNZ rm fuel 4 [R; Qs] Qs [] Y q H) as G.
  rewrite band_closed_only, Q2R_4 in G. specialize (G Hfar).
  unfold fdec, nth0, nz in G. cbn [map nth] in G. apply eqb_prop in G. exact G.
Qed.
Print Assumptions C08_region.
Print Assumptions C08_total.
(* ... is canonical (C02_canonical applies verbatim to R), and sum(A,B), sum(B,A)
   agree in parity away from the quad edges (C17_same_region with band Qs). *)

(* K3: the orientation test the Minkowski routine relies on (IsPositive64 = Area64 >= 0) as /repo's
   source has it now: the accumulator of Area64 regenerated from the source equals the model's, and
   IsPositive64's body is the comparison with 0 *)
From Coq Require Import String.
From Clip Require Import Model.Measures Model.KernelOps Gen.Kernels_gen Model.KernelProofs.
Theorem C08_orientation_from_source : forall p,
  gen_IsPositive64_body = "return Area64(poly) >= 0"%string /\ IsPositive64_model p = (0 <=? gen_area2 p)%Z.
Proof. intros p. split; [exact gen_IsPositive64_body_eq|]. rewrite gen_area2_eq. reflexivity. Qed.

(* K3 tripwire for the hand-written models this file's theorems are about: the source text of the modelled functions is
   the text the models were last reconciled with (Model/Fingerprints.v, written by tools/update_fingerprints.sh after clean
   correspondence runs; Gen/Fingerprints_gen.v is regenerated from /repo on every run).  When this breaks, the functions
   were edited: the check widens its search for a failing input and reports the broken obligation either way. *)
From Coq Require Import String.
From Clip Require Import Gen.Fingerprints_gen Model.Fingerprints.
Theorem C08_modelled_source_unchanged :
  fps_agree gen_fingerprints ["minkowskiInternal"; "MinkowskiSum64"; "MinkowskiDiff64"]%string = true.
Proof. vm_compute. reflexivity. Qed.
