(* Model/Fingerprints.v — WRITTEN by tools/update_fingerprints.sh (never at check time): the SHA-256 of the normalised
   source text of every function that coq/Model models by hand, as it was when the model was last reconciled with the
   code (correspondence runs clean).  Gen/Fingerprints_gen.v holds the same list for the source as it is NOW. *)
From Coq Require Import String List Bool.
Import ListNotations.
Open Scope string_scope.

Definition expected_fingerprints : list (string * string) := [
  ("PointInPolygon", "60fa9ae775f0c863bc430c0c018cc68214ae3fb906f3d5e6effbb033b7fed5dd");
  ("StripDuplicates", "519d744227f3ba993264e6661d6cd0db606f85cb839eb27e0278600cc5f1517e");
  ("IsPositive64", "0f01a49a99cadf36286444825afd0c1c9060ae22966ccda4a05b68d292585ddc");
  ("Area64", "17daac5ec3178c623c82260fb4544bddae18e9a52795c2ebc378e4b9de2456c0");
  ("GetBounds64", "d6a07d349389d123c4b2cb096fb3bc8e501bacc6a4f653160ad7988c890340f4");
  ("getBounds", "99a6a987367c1fda21503efefc45681638c92fe0c940cebd06b6bc62f0d94952");
  ("TrimCollinear64", "d264c9d6781c2e24d7c24da13418b617e5e3ac99a0745157ccbc8abac6b713ac");
  ("SimplifyPath64", "7225d0aba9bde69107c2036273767e6b9abceb81ca5b9a9cb8968b8317a94871");
  ("SimplifyPathD", "45ef92ba81d88b4e31ae7889a6c08de41eae8c531cf1cfbf2b9dea427322ffc8");
  ("getNext", "c4d4eba78d192713dfd8673e3252f27ba01036dd77c3f4c00dfd023dd7bb4434");
  ("getPrior", "d52a148a09e13ffb51d318ca8b13613c14f5bb65c7a783cafba6ad7b91015e90");
  ("minkowskiInternal", "47fb45725a5dbb97e099dd8411cdc9c00a7d576722491a8f87a47ee731b07b38");
  ("MinkowskiSum64", "5e1f9d45f8221fcac220431fbab13d143df9da26083881820b921287bb150169");
  ("MinkowskiDiff64", "1ae2261b21620cb41af54a8001c6c919b05e2f7080d1f4def4f8743012b91c07");
  ("PolyPathBase.AddChild", "cd2173ff330c876e201f2bcbff6546b83660f83db793dc6bd97f7df8134b5b9f");
  ("PolyPathBase.IsHole", "308e9cd1b3c5a619f91a2b1068654b445d08ff14f5a49dbcb06c4b0bcacbe750");
  ("PolyPathBase.Level", "ed3de49677221457c0d04cfff9fa51aae49d3c10f4ca7e8210870da442b9492b");
  ("PolyPathBase.Count", "cde39c6163d3dd194ec048bce94b8086344e270158846994a859c0e8e57a1f06");
  ("PolyPathBase.Clear", "4356c3e0bce62117c7ec2de6b3181a4eeb86b756ff7a17fe063a2befc6c75098")
].

Fixpoint fp_of (n : string) (l : list (string * string)) : option string :=
  match l with
  | [] => None
  | (k, v) :: tl => if String.eqb k n then Some v else fp_of n tl
  end.

(* every named function is present on both sides with the same fingerprint *)
Definition fps_agree (now : list (string * string)) (names : list string) : bool :=
  forallb (fun n => match fp_of n now, fp_of n expected_fingerprints with
                    | Some a, Some b => String.eqb a b
                    | _, _ => false
                    end) names.
