(* Footprint.v -- an abstract model of "n independent library calls running
   concurrently, each on its own private object, all reading one shared
   read-only input", together with the theorem that every interleaving gives
   each call exactly the result it gets when run alone.

   Self-contained: standard library only.

   Reading guide
   -------------
   Section Footprint       the model with a READ-ONLY shared part, and the
                           positive theorems (interleave_seq,
                           result_independent_of_schedule, finished_stable,
                           fair_result).
   Section SharedWrite     the same machine except that a step may also WRITE
                           the shared part; a concrete two-thread instance
                           (shared scratch counter) shows that independence
                           fails there (shared_write_breaks_independence).

   The hypotheses of the positive theorems are entirely in the TYPE of [step]:
     step : Shared -> Priv -> Priv * option Out
   i.e. a step reads the shared part and its own private state only, and
   writes its own private state only.  Whether real code satisfies that shape
   (no package-level variable is written; caller-owned input slices are not
   mutated; no two calls share an engine object) is a separate obligation
   that has to be established about the code, not about this model. *)

Require Import List Arith Lia Permutation.
Import ListNotations.

Set Implicit Arguments.

(* ------------------------------------------------------------------------- *)
(* Generic list update, used by both sections.                               *)
(* ------------------------------------------------------------------------- *)

Section Upd.
  Variable A : Type.

  (* apply [f] to the element at index [i]; out-of-range index is a no-op *)
  Fixpoint upd (i : nat) (f : A -> A) (l : list A) : list A :=
    match l with
    | [] => []
    | x :: r =>
        match i with
        | 0 => f x :: r
        | S i' => x :: upd i' f r
        end
    end.

  Lemma upd_length : forall i f l, length (upd i f l) = length l.
  Proof.
    intros i f l; revert i.
    induction l as [|x r IH]; intros [|i]; simpl; auto.
  Qed.

  Lemma upd_nth_same : forall i f l d,
      i < length l -> nth i (upd i f l) d = f (nth i l d).
  Proof.
    intros i f l d; revert i.
    induction l as [|x r IH]; intros [|i] H; simpl in *; try lia; auto.
    apply IH; lia.
  Qed.

  Lemma upd_nth_other : forall i j f l d,
      i <> j -> nth i (upd j f l) d = nth i l d.
  Proof.
    intros i j f l d; revert i j.
    induction l as [|x r IH]; intros [|i] [|j] H; simpl; auto; try congruence.
  Qed.

  Lemma upd_out_of_range : forall j f l, length l <= j -> upd j f l = l.
  Proof.
    intros j f l; revert j.
    induction l as [|x r IH]; intros [|j] H; simpl in *; auto; try lia.
    f_equal; apply IH; lia.
  Qed.
End Upd.

Unset Implicit Arguments.

(* ------------------------------------------------------------------------- *)
(* The model with a read-only shared part.                                   *)
(* ------------------------------------------------------------------------- *)

Section Footprint.
  Variable Shared : Type.   (* read-only shared part: package-level constants,
                               caller-owned input slices *)
  Variable Priv : Type.     (* private state of one call / one engine object *)
  Variable Out : Type.

  (* One atomic step of a call: reads the shared part and its own private
     state only, writes its own private state only; returns [Some result]
     when finished. *)
  Variable step : Shared -> Priv -> Priv * option Out.

  (* A thread: private state, and its result if finished. *)
  Definition thread := (Priv * option Out)%type.

  (* Global state: one entry per thread.  The shared part is NOT part of what
     [exec] returns -- see Remark (4) below. *)
  Definition threads := list thread.

  (* default element for [nth] *)
  Variable d : thread.

  Definition run1 (sh : Shared) (t : thread) : thread :=
    match snd t with
    | Some _ => t
    | None => step sh (fst t)
    end.

  (* A schedule is a list of thread indices; each entry lets that thread take
     one step.  Indices that name no thread are no-ops. *)
  Fixpoint exec (sh : Shared) (sched : list nat) (ts : threads) : threads :=
    match sched with
    | [] => ts
    | j :: s => exec sh s (upd j (run1 sh) ts)
    end.

  (* Running one thread alone for k steps. *)
  Fixpoint alone (sh : Shared) (k : nat) (t : thread) : thread :=
    match k with
    | 0 => t
    | S k' => alone sh k' (run1 sh t)
    end.

  (* --- basic facts ------------------------------------------------------- *)

  Lemma exec_length : forall sh sched ts,
      length (exec sh sched ts) = length ts.
  Proof.
    intros sh sched; induction sched as [|j s IH]; intros ts; simpl; auto.
    rewrite IH; apply upd_length.
  Qed.

  Lemma exec_app : forall sh s1 s2 ts,
      exec sh (s1 ++ s2) ts = exec sh s2 (exec sh s1 ts).
  Proof.
    intros sh s1; induction s1 as [|j s IH]; intros s2 ts; simpl; auto.
  Qed.

  (* out-of-range indices in a schedule are no-ops *)
  Lemma exec_out_of_range : forall sh j s ts,
      length ts <= j -> exec sh (j :: s) ts = exec sh s ts.
  Proof.
    intros sh j s ts H; simpl; rewrite upd_out_of_range; auto.
  Qed.

  Lemma alone_add : forall sh a b t,
      alone sh (a + b) t = alone sh b (alone sh a t).
  Proof.
    intros sh a; induction a as [|a IH]; intros b t; simpl; auto.
  Qed.

  (* --- (1) every interleaving is, per thread, a sequential run ----------- *)

  Theorem interleave_seq : forall sh sched ts i,
      i < length ts ->
      nth i (exec sh sched ts) d
      = alone sh (count_occ Nat.eq_dec sched i) (nth i ts d).
  Proof.
    intros sh sched; induction sched as [|j s IH]; intros ts i Hi.
    - reflexivity.
    - simpl exec.
      rewrite IH by (rewrite upd_length; exact Hi).
      destruct (Nat.eq_dec j i) as [E|NE].
      + subst j.
        rewrite count_occ_cons_eq by reflexivity.
        rewrite upd_nth_same by exact Hi.
        reflexivity.
      + rewrite count_occ_cons_neq by exact NE.
        rewrite upd_nth_other by congruence.
        reflexivity.
  Qed.

  (* --- (2) the result depends only on how many steps the thread got ------ *)

  Theorem result_independent_of_schedule : forall sh s1 s2 ts i,
      i < length ts ->
      count_occ Nat.eq_dec s1 i = count_occ Nat.eq_dec s2 i ->
      nth i (exec sh s1 ts) d = nth i (exec sh s2 ts) d.
  Proof.
    intros sh s1 s2 ts i Hi Hc.
    rewrite !interleave_seq by exact Hi.
    rewrite Hc; reflexivity.
  Qed.

  (* In particular any permutation of a schedule gives every thread the same
     state and result. *)
  Corollary permuted_schedule_same_result : forall sh s1 s2 ts i,
      i < length ts ->
      Permutation s1 s2 ->
      nth i (exec sh s1 ts) d = nth i (exec sh s2 ts) d.
  Proof.
    intros sh s1 s2 ts i Hi HP.
    apply result_independent_of_schedule; auto.
    apply (proj1 (Permutation_count_occ Nat.eq_dec s1 s2) HP).
  Qed.

  (* A thread is unaffected by what the OTHER threads are, not only by when
     they run: its final state is a function of its own initial state, the
     shared part, and its own step count.  This is immediate from (1), whose
     right-hand side mentions no other thread; stated explicitly: *)
  Corollary other_threads_irrelevant : forall sh s1 s2 ts1 ts2 i,
      i < length ts1 -> i < length ts2 ->
      nth i ts1 d = nth i ts2 d ->
      count_occ Nat.eq_dec s1 i = count_occ Nat.eq_dec s2 i ->
      nth i (exec sh s1 ts1) d = nth i (exec sh s2 ts2) d.
  Proof.
    intros sh s1 s2 ts1 ts2 i H1 H2 Ht Hc.
    rewrite !interleave_seq by assumption.
    rewrite Ht, Hc; reflexivity.
  Qed.

  (* --- (3) finished threads are stable; fairness gives the alone-result -- *)

  Lemma run1_finished : forall sh t o, snd t = Some o -> run1 sh t = t.
  Proof.
    intros sh t o H; unfold run1; rewrite H; reflexivity.
  Qed.

  Theorem finished_stable : forall sh k t o,
      snd t = Some o -> alone sh k t = t.
  Proof.
    intros sh k; induction k as [|k IH]; intros t o H; simpl; auto.
    rewrite (run1_finished sh t o H); eauto.
  Qed.

  Corollary finished_stable_le : forall sh k n t o,
      snd (alone sh k t) = Some o -> k <= n ->
      alone sh n t = alone sh k t.
  Proof.
    intros sh k n t o H Hle.
    replace n with (k + (n - k)) by lia.
    rewrite alone_add.
    eapply finished_stable; eauto.
  Qed.

  (* the same, phrased on [exec]: once thread i has a result, no extension of
     the schedule changes thread i *)
  Corollary finished_stable_exec : forall sh s1 s2 ts i o,
      i < length ts ->
      snd (nth i (exec sh s1 ts) d) = Some o ->
      nth i (exec sh (s1 ++ s2) ts) d = nth i (exec sh s1 ts) d.
  Proof.
    intros sh s1 s2 ts i o Hi H.
    rewrite exec_app.
    rewrite interleave_seq by (rewrite exec_length; exact Hi).
    eapply finished_stable; eauto.
  Qed.

  Theorem fair_result : forall sh sched ts i o k,
      i < length ts ->
      snd (alone sh k (nth i ts d)) = Some o ->
      k <= count_occ Nat.eq_dec sched i ->
      snd (nth i (exec sh sched ts) d) = Some o.
  Proof.
    intros sh sched ts i o k Hi H Hle.
    rewrite interleave_seq by exact Hi.
    rewrite (finished_stable_le sh k _ (nth i ts d) o H Hle).
    exact H.
  Qed.

  (* --- (4) Remark: the shared part is never written ---------------------- *)
  (* This holds by construction and is therefore not a theorem: [exec] takes
     [sh] as an input and does not return a new shared state, and [step]
     has no [Shared] component in its codomain, so there is no term of this
     model that denotes "the shared part after the run" other than [sh]
     itself.  All the content is in the claim that real code HAS this shape;
     Section SharedWrite below shows that the theorems above are false as
     soon as that claim fails. *)

End Footprint.

(* ------------------------------------------------------------------------- *)
(* What goes wrong if a step may write the shared part.                      *)
(* ------------------------------------------------------------------------- *)

Section SharedWrite.
  Variable Shared : Type.
  Variable Priv : Type.
  Variable Out : Type.

  (* a step may now also WRITE the shared part *)
  Variable step' : Shared -> Priv -> Shared * Priv * option Out.

  Definition thread' := (Priv * option Out)%type.

  (* let thread j take one step in global state (sh, ts) *)
  Fixpoint step_at (j : nat) (sh : Shared) (ts : list thread')
    : Shared * list thread' :=
    match ts with
    | [] => (sh, [])
    | t :: r =>
        match j with
        | 0 =>
            match snd t with
            | Some _ => (sh, t :: r)
            | None =>
                match step' sh (fst t) with
                | (sh', p', o') => (sh', (p', o') :: r)
                end
            end
        | S j' =>
            match step_at j' sh r with
            | (sh', r') => (sh', t :: r')
            end
        end
    end.

  Fixpoint exec' (sched : list nat) (g : Shared * list thread')
    : Shared * list thread' :=
    match sched with
    | [] => g
    | j :: s => exec' s (step_at j (fst g) (snd g))
    end.

  Fixpoint alone' (k : nat) (g : Shared * thread') : Shared * thread' :=
    match k with
    | 0 => g
    | S k' =>
        match snd (snd g) with
        | Some _ => g
        | None =>
            match step' (fst g) (fst (snd g)) with
            | (sh', p', o') => alone' k' (sh', (p', o'))
            end
        end
    end.
End SharedWrite.

Arguments step_at {Shared Priv Out} step' j sh ts.
Arguments exec' {Shared Priv Out} step' sched g.
Arguments alone' {Shared Priv Out} step' k g.

(* Concrete instance: the shared part is a nat used as a scratch counter.
   Each call finishes in one step: it returns the current counter value as its
   result and bumps the counter (think: a package-level "next id" variable, or
   a package-level scratch buffer reused across calls). *)

Definition counter_step (sh : nat) (p : unit) : nat * unit * option nat :=
  (S sh, p, Some sh).

Definition two_threads : list (thread' unit nat) := [(tt, None); (tt, None)].

Definition sched_a : list nat := [0; 1].
Definition sched_b : list nat := [1; 0].

(* the two schedules give EVERY thread the same number of steps ... *)
Lemma sched_a_b_same_counts : forall i,
    count_occ Nat.eq_dec sched_a i = count_occ Nat.eq_dec sched_b i.
Proof.
  intros [|[|i]]; reflexivity.
Qed.

(* ... and both run every thread to completion ... *)
Lemma sched_a_b_all_finished :
  map snd (snd (exec' counter_step sched_a (0, two_threads))) = [Some 0; Some 1]
  /\ map snd (snd (exec' counter_step sched_b (0, two_threads))) = [Some 1; Some 0].
Proof.
  split; vm_compute; reflexivity.
Qed.

(* ... yet thread 0 gets a different result, and under [sched_b] its result
   also differs from what it gets when run alone from the same initial shared
   state.  So the analogues of [result_independent_of_schedule] and
   [interleave_seq] are both FALSE once steps may write the shared part. *)
Example shared_write_breaks_independence :
  (forall i, count_occ Nat.eq_dec sched_a i = count_occ Nat.eq_dec sched_b i)
  /\ nth 0 (snd (exec' counter_step sched_a (0, two_threads))) (tt, None)
     <> nth 0 (snd (exec' counter_step sched_b (0, two_threads))) (tt, None)
  /\ nth 0 (snd (exec' counter_step sched_b (0, two_threads))) (tt, None)
     <> snd (alone' counter_step
               (count_occ Nat.eq_dec sched_b 0)
               (0, nth 0 two_threads (tt, None))).
Proof.
  split; [exact sched_a_b_same_counts|].
  split; vm_compute; discriminate.
Qed.

(* The same fact in the exact shape of [result_independent_of_schedule],
   negated: there is no way to prove that statement for [exec']. *)
Example shared_write_refutes_schedule_independence :
  ~ (forall (s1 s2 : list nat) (ts : list (thread' unit nat)) (i : nat),
        i < length ts ->
        count_occ Nat.eq_dec s1 i = count_occ Nat.eq_dec s2 i ->
        nth i (snd (exec' counter_step s1 (0, ts))) (tt, None)
        = nth i (snd (exec' counter_step s2 (0, ts))) (tt, None)).
Proof.
  intros H.
  specialize (H sched_a sched_b two_threads 0).
  assert (L : 0 < length two_threads) by (simpl; lia).
  specialize (H L (sched_a_b_same_counts 0)).
  vm_compute in H.
  discriminate H.
Qed.

Print Assumptions interleave_seq.
Print Assumptions result_independent_of_schedule.
Print Assumptions permuted_schedule_same_result.
Print Assumptions other_threads_irrelevant.
Print Assumptions finished_stable.
Print Assumptions finished_stable_exec.
Print Assumptions fair_result.
Print Assumptions shared_write_breaks_independence.
Print Assumptions shared_write_refutes_schedule_independence.
