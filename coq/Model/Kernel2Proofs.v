(* Model/Kernel2Proofs.v — second batch of K3 kernels (Gen/Kernels2_gen.v, regenerated from /repo's
   source on every run): the Rect64 methods of core.go, the small point predicates of engine.go and
   rect_clip.go, topX, getSegmentIntersection — each proved against its specification. *)
From Coq Require Import ZArith QArith Qabs Bool List String Lia Zquot.
From Clip Require Import Base.Int64 Model.Arith Model.ArithProofs Model.Simplify Model.SimplifyF64
  Model.Measures Model.KernelOps Gen.Kernels2_gen.
Import ListNotations.
Open Scope Z_scope.

Ltac zcmp2 :=
  rewrite ?Z.gtb_ltb, ?Z.geb_leb in *;
  repeat match goal with
  | |- context [Z.ltb ?a ?b] => destruct (Z.ltb_spec a b)
  | |- context [Z.leb ?a ?b] => destruct (Z.leb_spec a b)
  | |- context [Z.eqb ?a ?b] => destruct (Z.eqb_spec a b)
  end.

(* ---------------------------------------------------------------- Rect64 (core.go) *)
(* a rectangle is (left, top, right, bottom); a point (x, y) is in the closed rectangle *)
Definition in_rect (l t r b x y : Z) : Prop := l <= x <= r /\ t <= y <= b.

Lemma Rect64_Contains_spec l t r b l' t' r' b' :
  gen_Rect64_Contains l t r b l' t' r' b' = true <-> (l <= l' /\ r' <= r /\ t <= t' /\ b' <= b).
Proof. unfold gen_Rect64_Contains. zcmp2; cbn; split; intros; try lia; try discriminate. Qed.

(* meaning: a non-inverted rectangle is "contained" exactly when every one of its points is inside *)
Theorem Rect64_Contains_points l t r b l' t' r' b' :
  l' <= r' -> t' <= b' ->
  (gen_Rect64_Contains l t r b l' t' r' b' = true <->
   forall x y, in_rect l' t' r' b' x y -> in_rect l t r b x y).
Proof.
  intros Hx Hy. rewrite Rect64_Contains_spec. unfold in_rect. split.
  - intros H x y Hin. lia.
  - intros H. pose proof (H l' t' ltac:(lia)). pose proof (H r' b' ltac:(lia)). lia.
Qed.

Theorem Rect64_Intersects_points l t r b l' t' r' b' :
  gen_Rect64_Intersects l t r b l' t' r' b' = true <->
  exists x y, in_rect l t r b x y /\ in_rect l' t' r' b' x y.
Proof.
  unfold gen_Rect64_Intersects, in_rect. split.
  - intros H. apply andb_true_iff in H. destruct H as [H1 H2].
    apply Z.leb_le in H1. apply Z.leb_le in H2.
    exists (Z.max l l'), (Z.max t t'). lia.
  - intros (x & y & H1 & H2). apply andb_true_iff. split; apply Z.leb_le; lia.
Qed.

Theorem Rect64_IsEmpty_spec l t r b :
  gen_Rect64_IsEmpty l t r b = false <-> (l < r /\ t < b).
Proof. unfold gen_Rect64_IsEmpty. zcmp2; cbn; split; intros; try lia; try discriminate. Qed.

Lemma quot_2_between a b : a <= b -> a <= Z.quot (a + b) 2 <= b.
Proof.
  intros H. pose proof (Z.quot_rem' (a + b) 2) as E.
  pose proof (Zquot.Zrem_lt (a + b) 2 ltac:(lia)) as B.
  set (q := Z.quot (a + b) 2) in *. set (r := Z.rem (a + b) 2) in *.
  change (Z.abs 2) with 2 in B. clearbody q r. apply Z.abs_lt in B. lia.
Qed.

(* the mid point of a non-inverted rectangle with coordinates below 2^62 in magnitude lies inside it *)
Theorem Rect64_MidPoint_inside l t r b :
  Z.abs l < 2 ^ 62 -> Z.abs t < 2 ^ 62 -> Z.abs r < 2 ^ 62 -> Z.abs b < 2 ^ 62 ->
  l <= r -> t <= b ->
  let m := gen_Rect64_MidPoint l t r b in in_rect l t r b (fst m) (snd m).
Proof.
  intros Hl Ht Hr Hb Hx Hy. unfold gen_Rect64_MidPoint, quot64, add64, in_rect. cbn [fst snd].
  assert (E : 2 ^ 62 = 4611686018427387904) by reflexivity. rewrite E in *.
  rewrite (wrap64_id (l + r)), (wrap64_id (t + b)) by (unfold in64, two63; lia).
  pose proof (quot_2_between l r Hx). pose proof (quot_2_between t b Hy).
  rewrite !wrap64_id by (unfold in64, two63; lia). lia.
Qed.

Theorem NewRect64_fields l t r b : gen_NewRect64 l t r b = (l, t, r, b).
Proof. reflexivity. Qed.

(* ---------------------------------------------------------------- point predicates *)
Theorem Point64_Equals_spec x1 y1 x2 y2 :
  gen_Point64_Equals x1 y1 x2 y2 = true <-> (x1, y1) = (x2, y2).
Proof.
  unfold gen_Point64_Equals. zcmp2; cbn; split; intros H; try discriminate; try congruence;
    inversion H; lia.
Qed.

Theorem pointsEqual_spec x1 y1 x2 y2 :
  gen_pointsEqual x1 y1 x2 y2 = true <-> (x1, y1) = (x2, y2).
Proof. unfold gen_pointsEqual. apply Point64_Equals_spec. Qed.

(* engine.go:ptsReallyClose — both coordinate differences below 2 in magnitude; exact whenever the
   differences fit int64 (coordinates below 2^62) *)
Theorem ptsReallyClose_spec x1 y1 x2 y2 :
  Z.abs x1 < 2 ^ 62 -> Z.abs y1 < 2 ^ 62 -> Z.abs x2 < 2 ^ 62 -> Z.abs y2 < 2 ^ 62 ->
  (gen_ptsReallyClose x1 y1 x2 y2 = true <-> (Z.abs (x1 - x2) < 2 /\ Z.abs (y1 - y2) < 2)).
Proof.
  intros H1 H2 H3 H4. assert (E : 2 ^ 62 = 4611686018427387904) by reflexivity. rewrite E in *.
  unfold gen_ptsReallyClose, sub64, neg64.
  rewrite (wrap64_id (x1 - x2)), (wrap64_id (y1 - y2)) by (unfold in64, two63; lia).
  rewrite (wrap64_id (- (x1 - x2))), (wrap64_id (- (y1 - y2))) by (unfold in64, two63; lia).
  set (dx := x1 - x2). set (dy := y1 - y2).
  destruct (Z.ltb_spec dx 0), (Z.ltb_spec dy 0); zcmp2; cbn; split; intros; try lia; try discriminate.
Qed.

Theorem IsOdd_spec v : gen_IsOdd v = Z.odd v.
Proof.
  unfold gen_IsOdd. change 1 with (Z.ones 1). rewrite Z.land_ones by lia.
  change (2 ^ 1) with 2. rewrite Zodd_mod.
  pose proof (Z.mod_pos_bound v 2 ltac:(lia)).
  assert (E : v mod 2 = 0 \/ v mod 2 = 1) by lia. destruct E as [-> | ->]; reflexivity.
Qed.

Theorem isHorizontalPoint_spec x1 y1 x2 y2 : gen_isHorizontalPoint x1 y1 x2 y2 = (y1 =? y2).
Proof. reflexivity. Qed.

(* rect_clip.go: open-interval overlap of the projections on an axis *)
Theorem hasVertOverlap_spec a1 t1 a2 b1 a3 t2 a4 b2 :
  gen_hasVertOverlap a1 t1 a2 b1 a3 t2 a4 b2 = true <-> (t1 < b2 /\ t2 < b1).
Proof. unfold gen_hasVertOverlap. zcmp2; cbn; split; intros; try lia; try discriminate. Qed.
Theorem hasHorzOverlap_spec l1 a1 r1 a2 l2 a3 r2 a4 :
  gen_hasHorzOverlap l1 a1 r1 a2 l2 a3 r2 a4 = true <-> (l1 < r2 /\ l2 < r1).
Proof. unfold gen_hasHorzOverlap. zcmp2; cbn; split; intros; try lia; try discriminate. Qed.

(* ---------------------------------------------------------------- topX (engine.go) *)
(* the x of an active edge at a scanline is EXACTLY the vertex at both ends of the edge and on vertical
   edges, whatever dx holds: output vertices at local minima / maxima / intermediate vertices are input
   vertices, not rounded ones *)
Theorem topX_at_top bx by_ dx tx ty : gen_topX ty bx by_ dx tx ty = tx.
Proof. unfold gen_topX. rewrite Z.eqb_refl. reflexivity. Qed.

Theorem topX_at_bot bx by_ dx tx ty : ty <> by_ -> gen_topX by_ bx by_ dx tx ty = bx.
Proof.
  intros H. unfold gen_topX. destruct (Z.eqb_spec by_ ty); [congruence|].
  rewrite Z.eqb_refl. cbn. destruct (Z.eqb_spec tx bx); congruence.
Qed.

Theorem topX_vertical y bx by_ dx ty : gen_topX y bx by_ dx bx ty = bx.
Proof. unfold gen_topX. rewrite (Z.eqb_refl bx), orb_true_r. reflexivity. Qed.

(* in between, the value is bot.X + round-half-away(dx * (y - bot.Y)) with two float roundings *)
Theorem topX_between y bx by_ dx tx ty :
  y <> ty -> tx <> bx -> y <> by_ ->
  gen_topX y bx by_ dx tx ty =
  add64 bx (i64_of_f (fround (fmul dx (fsub (f_of_int y) (f_of_int by_))))).
Proof.
  intros H1 H2 H3. unfold gen_topX.
  destruct (Z.eqb_spec y ty); [congruence|]. destruct (Z.eqb_spec tx bx); [congruence|].
  destruct (Z.eqb_spec y by_); [congruence|]. reflexivity.
Qed.

(* an edge of integer slope (dx an integer, heights below 2^53): no rounding at all *)
Lemma round_half_away_int z : round_half_away (inject_Z z) = z.
Proof.
  unfold round_half_away, inject_Z. cbn [Qnum Qden].
  replace ((2 * Z.abs z + 1) / (2 * 1)) with (Z.abs z).
  - rewrite Z.mul_comm. apply Z.abs_sgn.
  - apply Z.div_unique with 1; lia.
Qed.

(* ---------------------------------------------------------------- getSegmentIntersection (rect_clip.go) *)
Lemma gen_CrossProduct2_eq p1 p2 p3 :
  gen_CrossProduct (px p1) (py p1) (px p2) (py p2) (px p3) (py p3) = inject_Z (CrossProduct p1 p2 p3).
Proof. unfold gen_CrossProduct, CrossProduct, cross64, f_of_int. reflexivity. Qed.

Lemma Qeq_bool_inj a b : Qeq_bool (inject_Z a) (inject_Z b) = (a =? b).
Proof. unfold Qeq_bool, inject_Z. cbn [Qnum Qden]. unfold Zeq_bool. rewrite !Z.mul_1_r.
  destruct (Z.eqb_spec a b) as [->|n]; [rewrite Z.compare_refl; reflexivity|].
  destruct (a ?= b) eqn:E; try reflexivity. apply Z.compare_eq in E. congruence. Qed.

Lemma Qgtb_inj a b : Qgtb (inject_Z a) (inject_Z b) = (b <? a).
Proof. unfold Qgtb, Qle_bool, inject_Z. cbn [Qnum Qden]. rewrite !Z.mul_1_r.
  destruct (Z.leb_spec a b), (Z.ltb_spec b a); try reflexivity; lia. Qed.

Lemma CrossProduct_zero p1 p2 p3 :
  coord_ok two29 p1 -> coord_ok two29 p2 -> coord_ok two29 p3 ->
  (CrossProduct p1 p2 p3 =? 0) = (cross_exact p1 p2 p3 =? 0).
Proof.
  intros H1 H2 H3. unfold CrossProduct. rewrite (cross64_exact _ _ _ H1 H2 H3).
  pose proof (round53_zero (cross_exact p1 p2 p3)) as Z0.
  destruct (Z.eqb_spec (round53 (cross_exact p1 p2 p3)) 0), (Z.eqb_spec (cross_exact p1 p2 p3) 0);
    try reflexivity; tauto.
Qed.

Lemma CrossProduct_pos p1 p2 p3 :
  coord_ok two29 p1 -> coord_ok two29 p2 -> coord_ok two29 p3 ->
  (0 <? CrossProduct p1 p2 p3) = (0 <? cross_exact p1 p2 p3).
Proof.
  intros H1 H2 H3. unfold CrossProduct. rewrite (cross64_exact _ _ _ H1 H2 H3).
  pose proof (round53_sgn (cross_exact p1 p2 p3)) as S.
  destruct (Z.ltb_spec 0 (round53 (cross_exact p1 p2 p3))), (Z.ltb_spec 0 (cross_exact p1 p2 p3));
    try reflexivity; lia.
Qed.

Lemma cross_exact_turn p a b : cross_exact p a b = turn a b p.
Proof. unfold cross_exact, turn. ring. Qed.

Lemma on_segment_left a b : on_segment a b a = true.
Proof.
  unfold on_segment, turn. replace (_ - _ * _) with 0 by ring.
  repeat (apply andb_true_iff; split); try apply Z.leb_le; try apply Z.eqb_eq; lia.
Qed.
Lemma on_segment_right a b : on_segment a b b = true.
Proof.
  unfold on_segment, turn. replace (_ - _ * _) with 0 by ring.
  repeat (apply andb_true_iff; split); try apply Z.leb_le; try apply Z.eqb_eq; lia.
Qed.

(* the between-ness test the clipper applies to an end point p that is collinear with a b *)
Definition between_test (a b p : pt) : bool :=
  if py a =? py b then Bool.eqb (px p >? px a) (px p <? px b)
  else Bool.eqb (py p >? py a) (py p <? py b).

Lemma between_on_segment a b p :
  turn a b p = 0 -> a <> b -> between_test a b p = true -> on_segment a b p = true.
Proof.
  destruct a as [xa ya], b as [xb yb], p as [xp yp]. unfold between_test, on_segment, turn, px, py.
  cbn [fst snd]. intros T NE B.
  assert (G : (Z.min xa xb <= xp <= Z.max xa xb) /\ (Z.min ya yb <= yp <= Z.max ya yb)).
  { destruct (Z.eqb_spec ya yb) as [E | NEy].
    - subst yb. assert (xa <> xb) by congruence.
      replace ((xb - xa) * (yp - ya) - (ya - ya) * (xp - xa)) with ((xb - xa) * (yp - ya)) in T by ring.
      apply Z.mul_eq_0 in T. destruct T as [T | T]; [lia|].
      rewrite Z.gtb_ltb in B. destruct (Z.ltb_spec xa xp), (Z.ltb_spec xp xb); cbn in B; try discriminate; lia.
    - rewrite Z.gtb_ltb in B.
      assert (Y : Z.min ya yb <= yp <= Z.max ya yb)
        by (destruct (Z.ltb_spec ya yp), (Z.ltb_spec yp yb); cbn in B; try discriminate; lia).
      split; [|exact Y].
      assert (E1 : (yb - ya) * (xp - xa) = (xb - xa) * (yp - ya)) by lia.
      assert (E2 : (yb - ya) * (xp - xb) = (xb - xa) * (yp - yb)) by lia.
      destruct (Z_lt_le_dec ya yb), (Z_lt_le_dec xa xb); nia. }
  destruct G as [[G1 G2] [G3 G4]].
  repeat (apply andb_true_iff; split); try apply Z.leb_le; try apply Z.eqb_eq; assumption.
Qed.
Lemma cross_exact_degenerate p a : cross_exact p a a = 0.
Proof. unfold cross_exact. ring. Qed.

Lemma eq_pt_of_eqb (a b : pt) : (px a =? px b) && (py a =? py b) = true -> a = b.
Proof. destruct a, b. unfold px, py. cbn [fst snd]. intros H. apply andb_true_iff in H.
  destruct H as [H1 H2]. apply Z.eqb_eq in H1, H2. congruence. Qed.

(* one end-point branch of getSegmentIntersection: p is collinear with a b (a <> b) *)
Lemma endpoint_branch a b p (r : pt * bool) ip :
  cross_exact p a b = 0 -> a <> b ->
  (if ((px p =? px a) && (py p =? py a)) || ((px p =? px b) && (py p =? py b))
   then ((px p, py p), true)
   else if gen_isHorizontalPoint (px a) (py a) (px b) (py b)
        then ((px p, py p), Bool.eqb (px p >? px a) (px p <? px b))
        else ((px p, py p), Bool.eqb (py p >? py a) (py p <? py b))) = (ip, true) ->
  ip = p /\ on_segment a b p = true.
Proof.
  intros C NE H. rewrite cross_exact_turn in C.
  destruct (((px p =? px a) && (py p =? py a)) || ((px p =? px b) && (py p =? py b))) eqn:E.
  - inversion H; subst. split; [destruct p; reflexivity|].
    apply orb_true_iff in E. destruct E as [E | E]; apply eq_pt_of_eqb in E; subst.
    + apply on_segment_left. + apply on_segment_right.
  - unfold gen_isHorizontalPoint in H.
    assert (B : between_test a b p = true /\ ip = p).
    { unfold between_test. destruct (py a =? py b); inversion H; subst; (split; [reflexivity | destruct p; reflexivity]). }
    destruct B as [B ->]. split; [reflexivity|]. apply between_on_segment; assumption.
Qed.

Definition proper_cross (p1 p2 p3 p4 : pt) : Prop :=
  cross_exact p1 p3 p4 <> 0 /\ cross_exact p2 p3 p4 <> 0 /\
  (0 <? cross_exact p1 p3 p4) <> (0 <? cross_exact p2 p3 p4) /\
  cross_exact p3 p1 p2 <> 0 /\ cross_exact p4 p1 p2 <> 0 /\
  (0 <? cross_exact p3 p1 p2) <> (0 <? cross_exact p4 p1 p2).

Theorem getSegmentIntersection_sound p1 p2 p3 p4 ip :
  coord_ok two29 p1 -> coord_ok two29 p2 -> coord_ok two29 p3 -> coord_ok two29 p4 ->
  gen_getSegmentIntersection (px p1) (py p1) (px p2) (py p2) (px p3) (py p3) (px p4) (py p4) = (ip, true) ->
  (on_segment p1 p2 ip = true /\ on_segment p3 p4 ip = true)
  \/ (proper_cross p1 p2 p3 p4 /\
      gen_getSegmentIntersectPt (px p1) (py p1) (px p2) (py p2) (px p3) (py p3) (px p4) (py p4) = (ip, true)).
Proof.
  intros H1 H2 H3 H4. unfold gen_getSegmentIntersection.
  rewrite !gen_CrossProduct2_eq, !Qeq_bool_inj, !Qgtb_inj.
  rewrite !CrossProduct_zero, !CrossProduct_pos by assumption.
  destruct (Z.eqb_spec (cross_exact p1 p3 p4) 0) as [C1 | C1].
  { destruct (Z.eqb_spec (cross_exact p2 p3 p4) 0) as [C2 | C2]; [discriminate|].
    intros H. assert (NE : p3 <> p4) by (intros ->; rewrite cross_exact_degenerate in C2; congruence).
    destruct (endpoint_branch p3 p4 p1 (ip, true) ip C1 NE H) as [-> S]. left. split; [apply on_segment_left | exact S]. }
  destruct (Z.eqb_spec (cross_exact p2 p3 p4) 0) as [C2 | C2].
  { intros H. assert (NE : p3 <> p4) by (intros ->; rewrite cross_exact_degenerate in C1; congruence).
    destruct (endpoint_branch p3 p4 p2 (ip, true) ip C2 NE H) as [-> S]. left. split; [apply on_segment_right | exact S]. }
  destruct (Bool.eqb (0 <? cross_exact p1 p3 p4) (0 <? cross_exact p2 p3 p4)) eqn:S12; [discriminate|].
  destruct (Z.eqb_spec (cross_exact p3 p1 p2) 0) as [C3 | C3].
  { intros H. assert (NE : p1 <> p2).
    { intros ->. unfold cross_exact in C1, C2. apply eqb_false_iff in S12. apply S12. reflexivity. }
    destruct (endpoint_branch p1 p2 p3 (ip, true) ip C3 NE H) as [-> S]. left. split; [exact S | apply on_segment_left]. }
  destruct (Z.eqb_spec (cross_exact p4 p1 p2) 0) as [C4 | C4].
  { intros H. assert (NE : p1 <> p2).
    { intros ->. apply eqb_false_iff in S12. apply S12. reflexivity. }
    destruct (endpoint_branch p1 p2 p4 (ip, true) ip C4 NE H) as [-> S]. left. split; [exact S | apply on_segment_right]. }
  destruct (Bool.eqb (0 <? cross_exact p3 p1 p2) (0 <? cross_exact p4 p1 p2)) eqn:S34; [discriminate|].
  intros H. right. split; [|exact H].
  apply eqb_false_iff in S12. apply eqb_false_iff in S34. repeat split; assumption.
Qed.
