(* Model/SimplifyProofs.v — theorems about the model of SimplifyPath64/D in
   Model/Simplify.v, for ARBITRARY perp, gtb, ltb, dmax, eps2.

   Main results (all closed under the global context):
     simplify_short      len < 4: the path is returned unchanged
     simplify_subseq     the result is a subsequence of the input
     simplify_total      the model never returns None: every loop terminates
                         within its fuel and every index is in range
     simplify_open_ends  open paths keep their first and last point
     simplify_post       on return every retained vertex (for open paths:
                         every retained interior vertex) is farther than
                         epsilon from the line through its retained neighbours,
                         unless at most two vertices are retained *)
From Coq Require Import List Bool Arith Lia.
From Clip Require Import Model.Simplify.
Import ListNotations.
Open Scope nat_scope.

(* ================================================================== *)
(* 1. slices                                                           *)
(* ================================================================== *)
Section ListLemmas.
  Context {A : Type}.
  Implicit Types l : list A.

  Lemma length_upd l i v : length (upd l i v) = length l.
  Proof.
    revert i; induction l as [|x t IH]; intros [|i]; cbn [upd length]; auto.
  Qed.

  Lemma nth_error_upd_eq l i v : i < length l -> nth_error (upd l i v) i = Some v.
  Proof.
    revert i; induction l as [|x t IH]; intros [|i] H; cbn [upd length nth_error] in *;
      try lia; auto. apply IH; lia.
  Qed.

  Lemma nth_error_upd_neq l i j v : i <> j -> nth_error (upd l i v) j = nth_error l j.
  Proof.
    revert i j; induction l as [|x t IH]; intros [|i] [|j] H; cbn [upd nth_error];
      try congruence; auto.
  Qed.

  Lemma set_nth_ok l i v : i < length l -> set_nth l i v = Some (upd l i v).
  Proof.
    intros H. unfold set_nth. destruct (Nat.ltb_spec i (length l)); [reflexivity|lia].
  Qed.

  Lemma set_nth_some l i v l' : set_nth l i v = Some l' -> i < length l /\ l' = upd l i v.
  Proof.
    unfold set_nth. destruct (Nat.ltb_spec i (length l)); intros E; [|discriminate].
    inversion E; auto.
  Qed.

  Lemma nth_error_in_range l i : i < length l -> exists x, nth_error l i = Some x.
  Proof.
    intros H. destruct (nth_error l i) eqn:E; [eauto|].
    apply nth_error_None in E. lia.
  Qed.
End ListLemmas.

(* ================================================================== *)
(* 2. flags, cyclic intervals, gaps                                    *)
(* ================================================================== *)

(* flags[k], reading `true' outside the slice; so [fl flags k = false]
   means: k is in range and not flagged (vertex k is still retained) *)
Definition fl (flags : list bool) (k : nat) : bool := nth k flags true.

Lemma fl_false_lt flags k : fl flags k = false -> k < length flags.
Proof.
  unfold fl. intros H. destruct (Nat.lt_ge_cases k (length flags)); [assumption|].
  rewrite nth_overflow in H by assumption. discriminate.
Qed.

Lemma fl_ge flags k : length flags <= k -> fl flags k = true.
Proof. intros H. unfold fl. apply nth_overflow. assumption. Qed.

Lemma nth_error_fl flags k : k < length flags -> nth_error flags k = Some (fl flags k).
Proof. intros H. unfold fl. apply nth_error_nth'. assumption. Qed.

Lemma nth_error_fl_inv flags k b : nth_error flags k = Some b -> fl flags k = b.
Proof. intros H. unfold fl. apply nth_error_nth. assumption. Qed.

Lemma fl_upd flags x k :
  fl (upd flags x true) k = if k =? x then true else fl flags k.
Proof.
  destruct (Nat.eqb_spec k x) as [->|Hne].
  - destruct (Nat.lt_ge_cases x (length flags)) as [Hlt|Hge].
    + apply nth_error_fl_inv. apply nth_error_upd_eq. assumption.
    + apply fl_ge. rewrite length_upd. assumption.
  - destruct (Nat.lt_ge_cases k (length flags)) as [Hlt|Hge].
    + apply nth_error_fl_inv. rewrite nth_error_upd_neq by congruence.
      apply nth_error_fl. assumption.
    + rewrite !fl_ge; auto. rewrite length_upd. assumption.
Qed.

Lemma fl_upd_neq flags x k : k <> x -> fl (upd flags x true) k = fl flags k.
Proof. intros H. rewrite fl_upd. destruct (Nat.eqb_spec k x); congruence. Qed.

Lemma fl_upd_true flags x k : fl flags k = true -> fl (upd flags x true) k = true.
Proof. intros H. rewrite fl_upd. destruct (k =? x); auto. Qed.

Lemma fl_upd_false flags x k :
  fl (upd flags x true) k = false -> k <> x /\ fl flags k = false.
Proof.
  rewrite fl_upd. destruct (Nat.eqb_spec k x); [discriminate|auto].
Qed.

(* k lies strictly inside the cyclic interval that starts after a and ends
   before b; for a = b this is every index other than a *)
Definition between (a b k : nat) : Prop :=
  (a < b /\ a < k < b) \/ (b <= a /\ (a < k \/ k < b)).

(* every index strictly between a and b (cyclically) is flagged: if a and b
   are unflagged, b is the next unflagged index after a and a is the prior
   unflagged index before b *)
Definition gap (flags : list bool) (a b : nat) : Prop :=
  forall k, between a b k -> fl flags k = true.

Lemma gap_mono flags x a b : gap flags a b -> gap (upd flags x true) a b.
Proof. intros H k Hk. apply fl_upd_true. apply H. assumption. Qed.

(* removing x joins the two gaps around it *)
Lemma gap_join flags a x b :
  gap flags a x -> gap flags x b ->
  fl flags a = false -> fl flags b = false -> a <> x -> b <> x ->
  gap (upd flags x true) a b.
Proof.
  intros Hax Hxb Ha Hb Hne1 Hne2 k Hk.
  rewrite fl_upd. destruct (Nat.eqb_spec k x) as [->|Hkx]; [reflexivity|].
  assert (H : between a x k \/ between x b k \/ between x b a \/ between a x b)
    by (unfold between in *; lia).
  destruct H as [H|[H|[H|H]]].
  - apply Hax; assumption.
  - apply Hxb; assumption.
  - apply Hxb in H. congruence.
  - apply Hax in H. congruence.
Qed.

Lemma gap_unique_r flags a c c' :
  gap flags a c -> gap flags a c' -> fl flags c = false -> fl flags c' = false -> c = c'.
Proof.
  intros H1 H2 Hc Hc'.
  destruct (Nat.eq_dec c c') as [|Hne]; [assumption|exfalso].
  assert (H : between a c c' \/ between a c' c) by (unfold between; lia).
  destruct H as [H|H].
  - apply H1 in H. congruence.
  - apply H2 in H. congruence.
Qed.

Lemma gap_unique_l flags a c c' :
  gap flags c a -> gap flags c' a -> fl flags c = false -> fl flags c' = false -> c = c'.
Proof.
  intros H1 H2 Hc Hc'.
  destruct (Nat.eq_dec c c') as [|Hne]; [assumption|exfalso].
  assert (H : between c a c' \/ between c' a c) by (unfold between; lia).
  destruct H as [H|H].
  - apply H1 in H. congruence.
  - apply H2 in H. congruence.
Qed.

(* gaps in both directions: only the two end points are unflagged *)
Lemma gap_two flags c j :
  gap flags c j -> gap flags j c -> forall k, k <> c -> k <> j -> fl flags k = true.
Proof.
  intros H1 H2 k Hkc Hkj.
  assert (H : between c j k \/ between j c k) by (unfold between; lia).
  destruct H as [H|H]; [apply H1|apply H2]; assumption.
Qed.

Lemma gap_self flags c : gap flags c c -> forall k, k <> c -> fl flags k = true.
Proof. intros H k Hk. apply H. unfold between. lia. Qed.

(* a gap of the flags after removing x that is not the joined gap (a,b) was
   already a gap before *)
Lemma gap_restrict flags a x b p i :
  gap (upd flags x true) p i ->
  fl flags p = false -> fl flags i = false -> p <> x -> i <> x ->
  gap flags a x -> gap flags x b ->
  fl flags a = false -> fl flags b = false -> a <> x -> b <> x ->
  (p <> a \/ i <> b) ->
  gap flags p i.
Proof.
  intros Hg Hp Hi Hpx Hix Hax Hxb Ha Hb Hnax Hnbx Hor k Hk.
  destruct (Nat.eq_dec k x) as [->|Hkx].
  2:{ rewrite <- (fl_upd_neq flags x k Hkx). apply Hg. assumption. }
  exfalso.
  assert (Ha' : fl (upd flags x true) a = false) by (rewrite fl_upd_neq; assumption).
  assert (Hb' : fl (upd flags x true) b = false) by (rewrite fl_upd_neq; assumption).
  destruct Hor as [Hpa|Hib].
  - assert (H : between p i a \/ between a x p) by (unfold between in *; lia).
    destruct H as [H|H].
    + apply Hg in H. congruence.
    + apply Hax in H. congruence.
  - assert (H : between p i b \/ between x b i) by (unfold between in *; lia).
    destruct H as [H|H].
    + apply Hg in H. congruence.
    + apply Hxb in H. congruence.
Qed.

(* ================================================================== *)
(* 3. getNext / getPrior                                               *)
(* ================================================================== *)

Lemma next_up_spec fuel : forall flags high cur,
  length flags = S high -> cur <= S high -> S high - cur < fuel ->
  exists c, next_up fuel flags high cur = Some c /\ cur <= c <= S high /\
            (forall k, cur <= k < c -> fl flags k = true) /\
            (c <= high -> fl flags c = false).
Proof.
  induction fuel as [|f IH]; intros flags high cur Hlen Hcur Hf; [lia|].
  cbn [next_up]. destruct (Nat.leb_spec cur high) as [Hle|Hgt].
  - rewrite nth_error_fl by lia. destruct (fl flags cur) eqn:Ec.
    + destruct (IH flags high (S cur) Hlen ltac:(lia) ltac:(lia))
        as (c & E & Hr & Hall & Hc).
      exists c. split; [assumption|]. split; [lia|]. split; [|assumption].
      intros k Hk. destruct (Nat.eq_dec k cur) as [->|]; [assumption|].
      apply Hall. lia.
    + exists cur. split; [reflexivity|]. split; [lia|]. split; [intros; lia|auto].
  - exists cur. split; [reflexivity|]. split; [lia|]. split; intros; lia.
Qed.

Lemma first_clear_up_spec fuel : forall flags cur j,
  cur <= j -> fl flags j = false -> j - cur < fuel ->
  exists c, first_clear_up fuel flags cur = Some c /\ cur <= c <= j /\
            fl flags c = false /\ (forall k, cur <= k < c -> fl flags k = true).
Proof.
  induction fuel as [|f IH]; intros flags cur j Hcj Hj Hf; [lia|].
  cbn [first_clear_up]. pose proof (fl_false_lt _ _ Hj) as Hjl.
  rewrite nth_error_fl by lia. destruct (fl flags cur) eqn:Ec.
  - assert (cur <> j) by congruence.
    destruct (IH flags (S cur) j ltac:(lia) Hj ltac:(lia)) as (c & E & Hr & Hc & Hall).
    exists c. split; [assumption|]. split; [lia|]. split; [assumption|].
    intros k Hk. destruct (Nat.eq_dec k cur) as [->|]; [assumption|]. apply Hall. lia.
  - exists cur. split; [reflexivity|]. split; [lia|]. split; [assumption|intros; lia].
Qed.

Lemma getNext_spec flags high cur :
  length flags = S high -> cur <= high -> (exists j, fl flags j = false) ->
  exists c, getNext flags high cur = Some c /\ fl flags c = false /\ gap flags cur c.
Proof.
  intros Hlen Hcur [j Hj]. unfold getNext, scan_fuel.
  destruct (next_up_spec (2 * length flags + 2) flags high (S cur) Hlen ltac:(lia) ltac:(lia))
    as (c1 & E1 & Hr1 & Hall1 & Hc1).
  rewrite E1. destruct (Nat.leb_spec c1 high) as [Hle|Hgt].
  - exists c1. split; [reflexivity|]. split; [auto|].
    intros k Hk. apply Hall1. unfold between in Hk. lia.
  - pose proof (fl_false_lt _ _ Hj) as Hjl.
    destruct (first_clear_up_spec (2 * length flags + 2) flags 0 j ltac:(lia) Hj ltac:(lia))
      as (c2 & E2 & Hr2 & Hc2 & Hall2).
    exists c2. split; [assumption|]. split; [assumption|].
    intros k Hk.
    destruct (Nat.lt_ge_cases k c2) as [Hlt|Hge]; [apply Hall2; lia|].
    destruct (Nat.lt_ge_cases k (S high)) as [Hlt2|Hge2].
    + apply Hall1. unfold between in Hk. lia.
    + apply fl_ge. lia.
Qed.

Lemma prior_down_spec fuel : forall flags cur,
  cur < length flags -> cur < fuel ->
  exists c, prior_down fuel flags cur = Some c /\ c <= cur /\
            (forall k, c < k <= cur -> fl flags k = true) /\
            (0 < c -> fl flags c = false).
Proof.
  induction fuel as [|f IH]; intros flags cur Hlen Hf; [lia|].
  cbn [prior_down]. destruct (Nat.ltb_spec 0 cur) as [Hpos|Hz].
  - rewrite nth_error_fl by lia. destruct (fl flags cur) eqn:Ec.
    + destruct (IH flags (cur - 1) ltac:(lia) ltac:(lia)) as (c & E & Hr & Hall & Hc).
      exists c. split; [assumption|]. split; [lia|]. split; [|assumption].
      intros k Hk. destruct (Nat.eq_dec k cur) as [->|]; [assumption|]. apply Hall. lia.
    + exists cur. split; [reflexivity|]. split; [lia|]. split; [intros; lia|auto].
  - exists cur. split; [reflexivity|]. split; [lia|]. split; intros; lia.
Qed.

Lemma first_clear_down_spec fuel : forall flags cur j,
  j <= cur -> cur < length flags -> fl flags j = false -> cur - j < fuel ->
  exists c, first_clear_down fuel flags cur = Some c /\ j <= c <= cur /\
            fl flags c = false /\ (forall k, c < k <= cur -> fl flags k = true).
Proof.
  induction fuel as [|f IH]; intros flags cur j Hjc Hlen Hj Hf; [lia|].
  cbn [first_clear_down]. rewrite nth_error_fl by lia. destruct (fl flags cur) eqn:Ec.
  - assert (cur <> j) by congruence.
    destruct cur as [|cur']; [lia|].
    destruct (IH flags cur' j ltac:(lia) ltac:(lia) Hj ltac:(lia)) as (c & E & Hr & Hc & Hall).
    exists c. split; [assumption|]. split; [lia|]. split; [assumption|].
    intros k Hk. destruct (Nat.eq_dec k (S cur')) as [->|]; [assumption|]. apply Hall. lia.
  - exists cur. split; [reflexivity|]. split; [lia|]. split; [assumption|intros; lia].
Qed.

Lemma getPrior_spec flags high cur :
  length flags = S high -> cur <= high -> (exists j, fl flags j = false) ->
  exists c, getPrior flags high cur = Some c /\ fl flags c = false /\ gap flags c cur.
Proof.
  intros Hlen Hcur [j Hj]. unfold getPrior, scan_fuel.
  set (c0 := if cur =? 0 then high else cur - 1).
  assert (Hc0 : c0 <= high) by (unfold c0; destruct (cur =? 0); lia).
  destruct (prior_down_spec (2 * length flags + 2) flags c0 ltac:(lia) ltac:(lia))
    as (c1 & E1 & Hr1 & Hall1 & Hc1).
  rewrite E1. rewrite nth_error_fl by lia. destruct (fl flags c1) eqn:Ec1.
  - assert (c1 = 0).
    { destruct c1 as [|c1']; [reflexivity|]. specialize (Hc1 ltac:(lia)). congruence. }
    subst c1. pose proof (fl_false_lt _ _ Hj) as Hjl.
    destruct (first_clear_down_spec (2 * length flags + 2) flags high j
                ltac:(lia) ltac:(lia) Hj ltac:(lia)) as (c2 & E2 & Hr2 & Hc2 & Hall2).
    assert (Hlow : forall k, k <= c0 -> fl flags k = true).
    { intros k Hk. destruct k; [assumption|]. apply Hall1. lia. }
    assert (Hc2c : cur <= c2).
    { destruct (Nat.lt_ge_cases c2 cur) as [Hlt|]; [|assumption].
      assert (c2 <= c0) by (unfold c0; destruct (Nat.eqb_spec cur 0); lia).
      rewrite Hlow in Hc2 by assumption. discriminate. }
    exists c2. split; [assumption|]. split; [assumption|].
    intros k Hk.
    destruct (Nat.lt_ge_cases c2 k) as [Hgt|Hle].
    + destruct (Nat.lt_ge_cases k (S high)); [apply Hall2; lia|apply fl_ge; lia].
    + apply Hlow. unfold between in Hk. unfold c0. destruct (Nat.eqb_spec cur 0); lia.
  - exists c1. split; [reflexivity|]. split; [assumption|].
    intros k Hk. unfold between in Hk. unfold c0 in *.
    destruct (Nat.eqb_spec cur 0).
    + destruct (Nat.lt_ge_cases k (S high)); [apply Hall1; lia|apply fl_ge; lia].
    + apply Hall1. lia.
Qed.

(* ================================================================== *)
(* 3b. subsequences and [select]                                        *)
(* ================================================================== *)
Inductive subseq {A : Type} : list A -> list A -> Prop :=
| subseq_nil : subseq [] []
| subseq_skip x l1 l2 : subseq l1 l2 -> subseq l1 (x :: l2)
| subseq_take x l1 l2 : subseq l1 l2 -> subseq (x :: l1) (x :: l2).

Section SelectLemmas.
  Context {A : Type}.
  Implicit Types l : list A.

  Lemma subseq_nil_l l : subseq [] l.
  Proof. induction l; constructor; assumption. Qed.

  Lemma subseq_refl l : subseq l l.
  Proof. induction l; constructor; assumption. Qed.

  Lemma select_subseq flags : forall l, subseq (select flags l) l.
  Proof.
    induction flags as [|b fs IH]; intros [|x t]; cbn [select];
      try apply subseq_nil_l.
    - destruct b; apply subseq_nil_l.
    - destruct b; constructor; apply IH.
  Qed.

  Lemma select_hd flags l :
    fl flags 0 = false -> hd_error (select flags l) = hd_error l.
  Proof.
    destruct flags as [|b fs]; [discriminate|].
    unfold fl; cbn [nth]. intros ->. destruct l; reflexivity.
  Qed.

  Lemma last_indep l : l <> [] -> forall d d', last l d = last l d'.
  Proof.
    induction l as [|x t IH]; intros Hne d d'; [contradiction|].
    destruct t as [|y t']; [reflexivity|].
    change (last (y :: t') d = last (y :: t') d'). apply IH. discriminate.
  Qed.

  Lemma last_cons_default l x d : last (x :: l) d = last l x.
  Proof.
    destruct l as [|y t]; [reflexivity|].
    change (last (y :: t) d = last (y :: t) x). apply last_indep. discriminate.
  Qed.

  Lemma select_last flags : forall l,
    length flags = length l -> fl flags (length l - 1) = false ->
    forall d, last (select flags l) d = last l d.
  Proof.
    induction flags as [|b fs IH]; intros [|x t] Hlen Hf d; try discriminate.
    cbn [length] in Hlen. destruct t as [|y t'].
    - destruct fs; [|discriminate]. cbn [length] in Hf.
      unfold fl in Hf. cbn [nth Nat.sub] in Hf. subst b. reflexivity.
    - assert (Hf' : fl fs (length (y :: t') - 1) = false).
      { unfold fl in *. cbn [length Nat.sub nth] in *.
        rewrite Nat.sub_0_r in *. assumption. }
      assert (Hlen' : length fs = length (y :: t')) by lia.
      destruct b; cbn [select].
      + rewrite (IH (y :: t') Hlen' Hf' d). reflexivity.
      + rewrite last_cons_default. rewrite (IH (y :: t') Hlen' Hf' x).
        symmetry. apply last_cons_default.
  Qed.

  Lemma filter_len_le (f : nat -> bool) (S : list nat) : length (filter f S) <= length S.
  Proof.
    induction S as [|k S IH]; [reflexivity|]. cbn [filter].
    destruct (f k); cbn [length]; lia.
  Qed.

  Lemma select_length_le2 flags : forall l u v,
    (forall k, k <> u -> k <> v -> fl flags k = true) ->
    length (select flags l) <= 2.
  Proof.
    (* count the unflagged positions: they are among {u, v} *)
    assert (Hgen : forall (fs : list bool) (l : list A) (S : list nat),
               (forall k, fl fs k = false -> In k S) -> NoDup S ->
               length (select fs l) <= length S).
    { induction fs as [|b fs IH]; intros l S HS Hnd.
      - cbn [select]. cbn [length]. lia.
      - destruct l as [|x t]; [destruct b; cbn [select length]; lia|].
        set (S' := map pred (filter (fun k => negb (k =? 0)) S)).
        assert (HS' : forall k, fl fs k = false -> In k S').
        { intros k Hk. unfold S'. apply in_map_iff. exists (Datatypes.S k).
          split; [reflexivity|]. apply filter_In. split; [|reflexivity].
          apply HS. unfold fl. cbn [nth]. exact Hk. }
        assert (Hnd' : NoDup S').
        { unfold S'. clear - Hnd. induction Hnd as [|k S Hk Hnd IHn];
            cbn [filter map]; [constructor|].
          destruct (Nat.eqb_spec k 0) as [->|Hk0]; cbn [negb map]; [assumption|].
          constructor; [|assumption].
          intros Hin. apply in_map_iff in Hin. destruct Hin as (k' & Hp & Hin').
          apply filter_In in Hin'. destruct Hin' as [Hin' Hk'].
          destruct (Nat.eqb_spec k' 0); [discriminate|].
          assert (k' = k) by lia. subst k'. contradiction. }
        assert (Hlen' : length S' = length (filter (fun k => negb (k =? 0)) S))
          by (unfold S'; apply map_length).
        specialize (IH t S' HS' Hnd').
        destruct b; cbn [select length].
        + pose proof (filter_len_le (fun k => negb (k =? 0)) S). lia.
        + assert (H0 : In 0 S) by (apply HS; reflexivity).
          assert (Hlt : length (filter (fun k => negb (k =? 0)) S) < length S).
          { clear - H0. induction S as [|k S IHS]; [contradiction|].
            cbn [filter]. destruct (Nat.eqb_spec k 0) as [->|Hk0]; cbn [negb length].
            - pose proof (filter_len_le (fun k => negb (k =? 0)) S). lia.
            - destruct H0 as [|H0]; [congruence|]. specialize (IHS H0). lia. }
          lia. }
    intros l u v H.
    destruct (Nat.eq_dec u v) as [->|Huv].
    - specialize (Hgen flags l [v]). cbn [length] in Hgen.
      etransitivity; [apply Hgen|lia].
      + intros k Hk. destruct (Nat.eq_dec k v) as [->|Hne]; [left; reflexivity|].
        rewrite H in Hk by assumption. discriminate.
      + constructor; [intros []|constructor].
    - specialize (Hgen flags l [u; v]). cbn [length] in Hgen.
      apply Hgen.
      + intros k Hk. destruct (Nat.eq_dec k u) as [->|Hne1]; [left; reflexivity|].
        destruct (Nat.eq_dec k v) as [->|Hne2]; [right; left; reflexivity|].
        rewrite H in Hk by assumption. discriminate.
      + constructor; [intros [|[]]; congruence|]. constructor; [intros []|constructor].
  Qed.
End SelectLemmas.

(* ================================================================== *)
(* 4. the main loop, for arbitrary perp / gtb / ltb / dmax / eps2       *)
(* ================================================================== *)
Section Proofs.
  Variable P : Type.
  Variable D : Type.
  Variable perp : P -> P -> P -> D.
  Variable dmax : D.
  Variable gtb : D -> D -> bool.
  Variable ltb : D -> D -> bool.
  Variable eps2 : D.

  Notation scan := (scan D gtb eps2).
  Notation find_curr := (find_curr D gtb eps2).
  Notation refresh := (refresh P D perp).
  Notation step := (step P D perp gtb ltb eps2).
  Notation main_loop := (main_loop P D perp gtb ltb eps2).
  Notation init_loop := (init_loop P D perp).
  Notation init_dsq := (init_dsq P D perp dmax).
  Notation simplify_flags := (simplify_flags P D perp dmax gtb ltb eps2).
  Notation simplify := (simplify P D perp dmax gtb ltb eps2).

  (* dsq[k] > epsSq *)
  Definition far (dsq : list D) (k : nat) : Prop :=
    exists d, nth_error dsq k = Some d /\ gtb d eps2 = true.

  (* number of forward steps from k to start, in 1..n (n for k = start) *)
  Definition dd (n start k : nat) : nat :=
    if k <? start then start - k else start + n - k.

  (* --- the inner scanning loop --- *)
  Lemma scan_spec fuel : forall flags dsq high start curr m,
    length flags = S high -> length dsq = S high ->
    fl flags start = false -> curr <= high ->
    (curr + m = start \/ curr + m = start + S high) -> 1 <= m <= S high -> m <= fuel ->
    (forall k, fl flags k = false -> k <> start -> m <= dd (S high) start k -> far dsq k) ->
    exists c, scan fuel flags dsq high start curr = Some c /\ fl flags c = false /\
      ((c = start /\ forall k, fl flags k = false -> k <> start -> far dsq k) \/
       (c <> start /\ exists d, nth_error dsq c = Some d /\ gtb d eps2 = false)).
  Proof.
    induction fuel as [|f IH];
      intros flags dsq high start curr m Hlen Hdl Hst Hcur Hm Hmr Hf Hfar; [lia|].
    cbn [Simplify.scan].
    destruct (getNext_spec flags high curr Hlen Hcur (ex_intro _ start Hst))
      as (c1 & E1 & Hc1 & Hg1).
    rewrite E1.
    pose proof (fl_false_lt _ _ Hc1) as Hc1l. pose proof (fl_false_lt _ _ Hst) as Hstl.
    assert (Hns : ~ between curr c1 start) by (intros Hb; apply Hg1 in Hb; congruence).
    destruct (Nat.eqb_spec c1 start) as [->|Hne].
    - exists start. split; [reflexivity|]. split; [assumption|]. left.
      split; [reflexivity|]. intros k Hk Hks.
      destruct (Nat.le_gt_cases m (dd (S high) start k)) as [Hle|Hgt];
        [apply Hfar; assumption|].
      exfalso. pose proof (fl_false_lt _ _ Hk) as Hkl.
      assert (Hb : between curr start k).
      { clear - Hgt Hkl Hks Hm Hmr Hlen Hstl Hcur. unfold between, dd in *.
        destruct (Nat.ltb_spec k start); lia. }
      apply Hg1 in Hb. congruence.
    - destruct (nth_error_in_range dsq c1 ltac:(lia)) as [d Ed]. rewrite Ed.
      destruct (gtb d eps2) eqn:Eg; cbn [negb].
      + set (m1 := dd (S high) start c1).
        assert (Hm1 : m1 < m /\ 1 <= m1 /\
                      (c1 + m1 = start \/ c1 + m1 = start + S high)).
        { clear - Hns Hne Hc1l Hstl Hm Hmr Hlen Hcur. unfold m1, dd, between in *.
          destruct (Nat.ltb_spec c1 start); lia. }
        destruct (IH flags dsq high start c1 m1 Hlen Hdl Hst ltac:(lia) ltac:(tauto)
                     ltac:(lia) ltac:(lia)) as (c & E & Hc & Hpost).
        { intros k Hk Hks Hmk.
          destruct (Nat.le_gt_cases m (dd (S high) start k)) as [Hle|Hgt];
            [apply Hfar; assumption|].
          destruct (Nat.eq_dec k c1) as [->|Hkc]; [exists d; auto|].
          exfalso. pose proof (fl_false_lt _ _ Hk) as Hkl.
          assert (Hb : between curr c1 k).
          { clear - Hns Hne Hc1l Hstl Hm Hmr Hlen Hcur Hgt Hmk Hkc Hks Hkl.
            unfold m1, dd, between in *.
            destruct (Nat.ltb_spec c1 start); destruct (Nat.ltb_spec k start); lia. }
          apply Hg1 in Hb. congruence. }
        exists c. auto.
      + exists c1. split; [reflexivity|]. split; [assumption|]. right.
        split; [assumption|]. exists d; auto.
  Qed.

  (* --- what is known at the head of the main loop, for termination --- *)
  Record basic (path : list P) (high : nat) (flags : list bool) (dsq : list D)
         (curr : nat) : Prop := {
    b_flags : length flags = S high;
    b_dsq : length dsq = S high;
    b_path : length path = S high;
    b_curr : fl flags curr = false;
    b_other : exists j, j <> curr /\ fl flags j = false }.

  Lemma find_curr_spec path high flags dsq curr :
    basic path high flags dsq curr ->
    (find_curr flags dsq high curr = Some None /\
     forall k, fl flags k = false -> far dsq k) \/
    (exists c1 d1, find_curr flags dsq high curr = Some (Some c1) /\
                   fl flags c1 = false /\ nth_error dsq c1 = Some d1 /\
                   gtb d1 eps2 = false).
  Proof.
    intros [Hfl Hdl Hpl Hcur _].
    pose proof (fl_false_lt _ _ Hcur) as Hcl.
    unfold Simplify.find_curr.
    destruct (nth_error_in_range dsq curr ltac:(lia)) as [d0 E0]. rewrite E0.
    destruct (gtb d0 eps2) eqn:Eg.
    - destruct (scan_spec (length flags + 1) flags dsq high curr curr (S high)
                  Hfl Hdl Hcur ltac:(lia) ltac:(lia) ltac:(lia) ltac:(lia))
        as (c & E & Hc & Hpost).
      { intros k Hk Hkc Hm. exfalso. pose proof (fl_false_lt _ _ Hk).
        unfold dd in Hm. destruct (Nat.ltb_spec k curr); lia. }
      rewrite E. destruct Hpost as [[-> Hall]|[Hne (d & Ed & Egd)]].
      + rewrite Nat.eqb_refl. left. split; [reflexivity|].
        intros k Hk. destruct (Nat.eq_dec k curr) as [->|Hne]; [exists d0; auto|auto].
      + destruct (Nat.eqb_spec c curr); [contradiction|].
        right. exists c, d. auto.
    - right. exists curr, d0. auto.
  Qed.

  (* description of one full iteration: vertex x, whose unflagged neighbours
     are a (before) and b (after), is flagged; p2 is the unflagged vertex
     before a, nx the unflagged vertex after b once x is flagged; the new
     current vertex is b; dsq[b] and dsq[a] are recomputed (guarded) *)
  Record removal (path : list P) (c : bool) (high : nat) (flags : list bool)
         (dsq : list D) (x a b p2 nx : nat) (dsq' : list D) : Prop := {
    r_x : fl flags x = false;
    r_a : fl flags a = false;
    r_b : fl flags b = false;
    r_p2 : fl flags p2 = false;
    r_ax : a <> x;
    r_bx : b <> x;
    r_ab : a <> b;
    r_gax : gap flags a x;
    r_gxb : gap flags x b;
    r_gpa : gap flags p2 a;
    r_nx : fl (upd flags x true) nx = false;
    r_gbn : gap (upd flags x true) b nx;
    r_why : exists dx, nth_error dsq x = Some dx /\
                       (gtb dx eps2 = false \/
                        exists k d, nth_error dsq k = Some d /\ ltb dx d = true);
    r_dsq : exists Pa Pb Pp2 Pnx,
        nth_error path a = Some Pa /\ nth_error path b = Some Pb /\
        nth_error path p2 = Some Pp2 /\ nth_error path nx = Some Pnx /\
        dsq' = (let dsq1 := if guard c high b then upd dsq b (perp Pb Pa Pnx) else dsq in
                if guard c high a then upd dsq1 a (perp Pa Pp2 Pb) else dsq1) }.

  Definition tail (path : list P) (c : bool) (high : nat) (flags : list bool)
             (dsq : list D) (x a b p2 : nat) : option (outcome D) :=
    match set_nth flags x true with
    | None => None
    | Some flags' =>
        match getNext flags' high b with
        | None => None
        | Some next =>
            match (if guard c high b then refresh path dsq b a next else Some dsq) with
            | None => None
            | Some dsq1 =>
                match (if guard c high a then refresh path dsq1 a p2 b else Some dsq1) with
                | None => None
                | Some dsq2 => Some (Continue flags' dsq2 b)
                end
            end
        end
    end.

  Lemma refresh_ok path dsq i l1 l2 :
    i < length path -> l1 < length path -> l2 < length path -> i < length dsq ->
    exists Pi P1 P2, nth_error path i = Some Pi /\ nth_error path l1 = Some P1 /\
                     nth_error path l2 = Some P2 /\
                     refresh path dsq i l1 l2 = Some (upd dsq i (perp Pi P1 P2)).
  Proof.
    intros Hi H1 H2 Hd.
    destruct (nth_error_in_range path i Hi) as [Pi Ei].
    destruct (nth_error_in_range path l1 H1) as [P1 E1].
    destruct (nth_error_in_range path l2 H2) as [P2 E2].
    exists Pi, P1, P2. unfold Simplify.refresh. rewrite Ei, E1, E2.
    rewrite set_nth_ok by assumption. auto.
  Qed.

  Lemma tail_spec path c high flags dsq x a b p2 :
    length flags = S high -> length dsq = S high -> length path = S high ->
    fl flags x = false -> fl flags a = false -> fl flags b = false ->
    fl flags p2 = false -> a <> x -> b <> x -> a <> b ->
    gap flags a x -> gap flags x b -> gap flags p2 a ->
    (exists dx, nth_error dsq x = Some dx /\
                (gtb dx eps2 = false \/
                 exists k d, nth_error dsq k = Some d /\ ltb dx d = true)) ->
    exists nx dsq',
      tail path c high flags dsq x a b p2 = Some (Continue (upd flags x true) dsq' b) /\
      removal path c high flags dsq x a b p2 nx dsq'.
  Proof.
    intros Hfl Hdl Hpl Hx Ha Hb Hp2 Hax Hbx Hab Hgax Hgxb Hgpa Hwhy.
    pose proof (fl_false_lt _ _ Hx) as Hxl. pose proof (fl_false_lt _ _ Ha) as Hal.
    pose proof (fl_false_lt _ _ Hb) as Hbl. pose proof (fl_false_lt _ _ Hp2) as Hp2l.
    unfold tail. rewrite set_nth_ok by assumption.
    assert (Hb' : fl (upd flags x true) b = false) by (rewrite fl_upd_neq; assumption).
    destruct (getNext_spec (upd flags x true) high b
                ltac:(rewrite length_upd; assumption) ltac:(lia) (ex_intro _ b Hb'))
      as (nx & En & Hnx & Hgn).
    rewrite En.
    pose proof (fl_false_lt _ _ Hnx) as Hnxl. rewrite length_upd in Hnxl.
    destruct (nth_error_in_range path a ltac:(lia)) as [Pa Ea].
    destruct (nth_error_in_range path b ltac:(lia)) as [Pb Eb].
    destruct (nth_error_in_range path p2 ltac:(lia)) as [Pp2 Ep2].
    destruct (nth_error_in_range path nx ltac:(lia)) as [Pnx Enx].
    set (dsq1 := if guard c high b then upd dsq b (perp Pb Pa Pnx) else dsq).
    assert (Hd1 : (if guard c high b then refresh path dsq b a nx else Some dsq) = Some dsq1).
    { unfold dsq1. destruct (guard c high b); [|reflexivity].
      unfold Simplify.refresh. rewrite Eb, Ea, Enx. apply set_nth_ok. lia. }
    assert (Hd1l : length dsq1 = S high).
    { unfold dsq1. destruct (guard c high b); [rewrite length_upd|]; assumption. }
    set (dsq2 := if guard c high a then upd dsq1 a (perp Pa Pp2 Pb) else dsq1).
    assert (Hd2 : (if guard c high a then refresh path dsq1 a p2 b else Some dsq1) = Some dsq2).
    { unfold dsq2. destruct (guard c high a); [|reflexivity].
      unfold Simplify.refresh. rewrite Ea, Ep2, Eb. apply set_nth_ok. lia. }
    rewrite Hd1, Hd2. exists nx, dsq2. split; [reflexivity|].
    constructor; try assumption.
    exists Pa, Pb, Pp2, Pnx. repeat (split; [assumption|]). reflexivity.
  Qed.

  (* some vertex is unflagged on return, or at most two are *)
  Definition break_post (flags : list bool) (dsq : list D) : Prop :=
    (forall k, fl flags k = false -> far dsq k) \/
    (exists u v, forall k, k <> u -> k <> v -> fl flags k = true).

  Lemma step_spec path c high flags dsq curr :
    basic path high flags dsq curr ->
    (step path c high flags dsq curr = Some Break /\ break_post flags dsq) \/
    (exists x a b p2 nx dsq',
        step path c high flags dsq curr = Some (Continue (upd flags x true) dsq' b) /\
        removal path c high flags dsq x a b p2 nx dsq').
  Proof.
    intros HB. pose proof HB as [Hfl Hdl Hpl Hcur (j & Hjc & Hj)].
    unfold Simplify.step.
    destruct (find_curr_spec path high flags dsq curr HB)
      as [[E Hall]|(c1 & d1 & E & Hc1 & Ed1 & Eg1)]; rewrite E.
    { left. split; [reflexivity|]. left. assumption. }
    pose proof (fl_false_lt _ _ Hc1) as Hc1l.
    destruct (getPrior_spec flags high c1 Hfl ltac:(lia) (ex_intro _ c1 Hc1))
      as (prev & Ep & Hprev & Hgp).
    destruct (getNext_spec flags high c1 Hfl ltac:(lia) (ex_intro _ c1 Hc1))
      as (next & En & Hnext & Hgn).
    rewrite Ep, En.
    destruct (Nat.eqb_spec next prev) as [Heq|Hnp].
    { left. split; [reflexivity|]. right. exists c1, next. subst prev.
      apply gap_two; assumption. }
    assert (Hnc : next <> c1).
    { intros ->. apply Hnp. symmetry.
      destruct (Nat.eq_dec prev c1) as [|Hne]; [assumption|].
      rewrite (gap_self _ _ Hgn prev Hne) in Hprev. discriminate. }
    assert (Hpc : prev <> c1).
    { intros ->. apply Hnp.
      destruct (Nat.eq_dec next c1) as [|Hne]; [assumption|].
      rewrite (gap_self _ _ Hgp next Hne) in Hnext. discriminate. }
    pose proof (fl_false_lt _ _ Hnext) as Hnl. pose proof (fl_false_lt _ _ Hprev) as Hprl.
    destruct (nth_error_in_range dsq next ltac:(lia)) as [dn Edn].
    rewrite Edn, Ed1.
    right. destruct (ltb dn d1) eqn:El.
    - (* the vertex after curr is removed *)
      destruct (getNext_spec flags high next Hfl ltac:(lia) (ex_intro _ c1 Hc1))
        as (n2 & En2 & Hn2 & Hgn2).
      rewrite En2.
      assert (Hn2n : n2 <> next).
      { intros ->. rewrite (gap_self _ _ Hgn2 c1 ltac:(congruence)) in Hc1. discriminate. }
      assert (Hn2c : c1 <> n2).
      { intros <-. rewrite (gap_two _ _ _ Hgn Hgn2 prev Hpc ltac:(congruence)) in Hprev.
        discriminate. }
      destruct (tail_spec path c high flags dsq next c1 n2 prev Hfl Hdl Hpl
                  Hnext Hc1 Hn2 Hprev ltac:(congruence) Hn2n Hn2c Hgn Hgn2 Hgp)
        as (nx & dsq' & Et & HR).
      { exists dn. split; [assumption|]. right. exists c1, d1. auto. }
      exists next, c1, n2, prev, nx, dsq'. split; [exact Et|exact HR].
    - (* curr is removed *)
      destruct (getPrior_spec flags high prev Hfl ltac:(lia) (ex_intro _ c1 Hc1))
        as (p2 & Ep2 & Hp2 & Hgp2).
      rewrite Ep2.
      destruct (tail_spec path c high flags dsq c1 prev next p2 Hfl Hdl Hpl
                  Hc1 Hprev Hnext Hp2 Hpc Hnc ltac:(congruence) Hgp Hgn Hgp2)
        as (nx & dsq' & Et & HR).
      { exists d1. split; [assumption|]. left. assumption. }
      exists c1, prev, next, p2, nx, dsq'. split; [exact Et|exact HR].
  Qed.

  (* --- preservation of [basic]; the termination measure --- *)
  Lemma removal_length path c high flags dsq x a b p2 nx dsq' :
    removal path c high flags dsq x a b p2 nx dsq' -> length dsq' = length dsq.
  Proof.
    intros HR. destruct (r_dsq _ _ _ _ _ _ _ _ _ _ _ HR)
      as (Pa & Pb & Pp2 & Pnx & _ & _ & _ & _ & ->).
    cbv zeta. destruct (guard c high a), (guard c high b); rewrite ?length_upd; reflexivity.
  Qed.

  Lemma removal_basic path c high flags dsq curr x a b p2 nx dsq' :
    basic path high flags dsq curr ->
    removal path c high flags dsq x a b p2 nx dsq' ->
    basic path high (upd flags x true) dsq' b.
  Proof.
    intros [Hfl Hdl Hpl Hcur _] HR. constructor.
    - rewrite length_upd. assumption.
    - rewrite (removal_length _ _ _ _ _ _ _ _ _ _ _ HR). assumption.
    - assumption.
    - rewrite fl_upd_neq; [apply (r_b _ _ _ _ _ _ _ _ _ _ _ HR)|apply (r_bx _ _ _ _ _ _ _ _ _ _ _ HR)].
    - exists a. split; [apply (r_ab _ _ _ _ _ _ _ _ _ _ _ HR)|].
      rewrite fl_upd_neq; [apply (r_a _ _ _ _ _ _ _ _ _ _ _ HR)|apply (r_ax _ _ _ _ _ _ _ _ _ _ _ HR)].
  Qed.

  (* number of unflagged vertices *)
  Fixpoint nclear (flags : list bool) : nat :=
    match flags with
    | [] => 0
    | b :: t => (if b then 0 else 1) + nclear t
    end.

  Lemma nclear_upd flags : forall x,
    fl flags x = false -> S (nclear (upd flags x true)) = nclear flags.
  Proof.
    induction flags as [|b t IH]; intros x Hx.
    - unfold fl in Hx. destruct x; discriminate.
    - destruct x as [|x].
      + unfold fl in Hx. cbn [nth] in Hx. subst b. cbn [upd nclear]. lia.
      + unfold fl in Hx. cbn [nth] in Hx. cbn [upd nclear].
        specialize (IH x Hx). lia.
  Qed.

  Lemma main_loop_total path c high fuel : forall flags dsq curr,
    basic path high flags dsq curr -> nclear flags < fuel ->
    exists r, main_loop fuel path c high flags dsq curr = Some r.
  Proof.
    induction fuel as [|f IH]; intros flags dsq curr HB Hf; [lia|].
    cbn [Simplify.main_loop].
    destruct (step_spec path c high flags dsq curr HB)
      as [[E _]|(x & a & b & p2 & nx & dsq' & E & HR)]; rewrite E.
    - eauto.
    - apply IH.
      + eapply removal_basic; eassumption.
      + pose proof (nclear_upd flags x (r_x _ _ _ _ _ _ _ _ _ _ _ HR)). lia.
  Qed.

  (* generic invariant rule for the main loop *)
  Lemma main_loop_inv path c high (I : list bool -> list D -> nat -> Prop) :
    (forall flags dsq curr x a b p2 nx dsq',
        basic path high flags dsq curr -> I flags dsq curr ->
        removal path c high flags dsq x a b p2 nx dsq' ->
        I (upd flags x true) dsq' b) ->
    forall fuel flags dsq curr r,
      basic path high flags dsq curr -> I flags dsq curr ->
      main_loop fuel path c high flags dsq curr = Some r ->
      exists dsqF currF,
        basic path high r dsqF currF /\ I r dsqF currF /\ break_post r dsqF.
  Proof.
    intros Hstep. induction fuel as [|f IH]; intros flags dsq curr r HB HI Hm;
      [discriminate|].
    cbn [Simplify.main_loop] in Hm.
    destruct (step_spec path c high flags dsq curr HB)
      as [[E Hpost]|(x & a & b & p2 & nx & dsq' & E & HR)]; rewrite E in Hm.
    - inversion Hm; subst r. eauto.
    - eapply IH; [| |exact Hm].
      + eapply removal_basic; eassumption.
      + eapply Hstep; eassumption.
  Qed.

  (* --- initialisation --- *)
  Lemma fl_repeat_false l : forall k, k < l -> fl (repeat false l) k = false.
  Proof.
    induction l as [|l IH]; intros k Hk; [lia|].
    destruct k as [|k]; [reflexivity|]. unfold fl. cbn [repeat nth]. apply IH. lia.
  Qed.

  Lemma nclear_repeat_false l : nclear (repeat false l) = l.
  Proof. induction l as [|l IH]; cbn [repeat nclear]; [reflexivity|lia]. Qed.

  Lemma init_loop_spec path high fuel : forall i dsq,
    length path = S high -> length dsq = S high -> 1 <= i -> high - i < fuel ->
    exists dsq', init_loop fuel path high i dsq = Some dsq' /\ length dsq' = S high /\
      (forall k, k < i \/ high <= k -> nth_error dsq' k = nth_error dsq k) /\
      (forall k Pk Pp Pn, i <= k < high ->
          nth_error path k = Some Pk -> nth_error path (k - 1) = Some Pp ->
          nth_error path (k + 1) = Some Pn ->
          nth_error dsq' k = Some (perp Pk Pp Pn)).
  Proof.
    induction fuel as [|f IH]; intros i dsq Hpl Hdl Hi Hf; [lia|].
    cbn [Simplify.init_loop]. destruct (Nat.ltb_spec i high) as [Hlt|Hge].
    - destruct (refresh_ok path dsq i (i - 1) (i + 1) ltac:(lia) ltac:(lia) ltac:(lia) ltac:(lia))
        as (Pi & P1 & P2 & Ei & E1 & E2 & Er).
      rewrite Er.
      destruct (IH (S i) (upd dsq i (perp Pi P1 P2)) Hpl
                   ltac:(rewrite length_upd; assumption) ltac:(lia) ltac:(lia))
        as (dsq' & E & Hl & Hsame & Hnew).
      exists dsq'. split; [assumption|]. split; [assumption|]. split.
      + intros k Hk. rewrite Hsame by lia. apply nth_error_upd_neq. lia.
      + intros k Pk Pp Pn Hk Ek Ep En.
        destruct (Nat.eq_dec k i) as [->|Hne].
        * rewrite Hsame by lia. rewrite nth_error_upd_eq by lia. congruence.
        * apply Hnew; try assumption. lia.
    - exists dsq. split; [reflexivity|]. split; [assumption|]. split; [reflexivity|].
      intros; lia.
  Qed.

  Lemma init_dsq_spec path c :
    2 <= length path ->
    exists dsq, init_dsq path c = Some dsq /\ length dsq = length path /\
      (c = false -> nth_error dsq 0 = Some dmax /\
                    nth_error dsq (length path - 1) = Some dmax) /\
      (c = true -> forall P0 Ph P1 Ph1,
          nth_error path 0 = Some P0 -> nth_error path (length path - 1) = Some Ph ->
          nth_error path 1 = Some P1 -> nth_error path (length path - 1 - 1) = Some Ph1 ->
          nth_error dsq 0 = Some (perp P0 Ph P1) /\
          nth_error dsq (length path - 1) = Some (perp Ph P0 Ph1)) /\
      (forall k Pk Pp Pn, 1 <= k < length path - 1 ->
          nth_error path k = Some Pk -> nth_error path (k - 1) = Some Pp ->
          nth_error path (k + 1) = Some Pn ->
          nth_error dsq k = Some (perp Pk Pp Pn)).
  Proof.
    intros Hl. unfold Simplify.init_dsq.
    set (l := length path) in *. set (high := l - 1).
    assert (Hpl : length path = S high) by (unfold high; fold l; lia).
    assert (Hrl : length (repeat dmax l) = S high) by (rewrite repeat_length; unfold high; lia).
    destruct c.
    - destruct (refresh_ok path (repeat dmax l) 0 high 1
                  ltac:(lia) ltac:(lia) ltac:(lia) ltac:(lia))
        as (P0 & Ph & P1 & E0 & Eh & E1 & Er1).
      rewrite Er1.
      destruct (refresh_ok path (upd (repeat dmax l) 0 (perp P0 Ph P1)) high 0 (high - 1)
                  ltac:(lia) ltac:(lia) ltac:(lia) ltac:(rewrite length_upd; lia))
        as (Ph' & P0' & Ph1 & Eh' & E0' & Eh1 & Er2).
      rewrite Er2.
      destruct (init_loop_spec path high l 1
                  (upd (upd (repeat dmax l) 0 (perp P0 Ph P1)) high (perp Ph' P0' Ph1)) Hpl
                  ltac:(rewrite !length_upd; assumption) ltac:(lia) ltac:(lia))
        as (dsq & E & Hdl & Hsame & Hnew).
      exists dsq. split; [assumption|]. split; [lia|]. split; [discriminate|]. split.
      + intros _ Q0 Qh Q1 Qh1 F0 Fh F1 Fh1. split.
        * rewrite Hsame by lia. rewrite nth_error_upd_neq by lia.
          rewrite nth_error_upd_eq by lia. congruence.
        * rewrite Hsame by lia. rewrite nth_error_upd_eq by (rewrite length_upd; lia).
          congruence.
      + intros k Pk Pp Pn Hk. apply Hnew. lia.
    - rewrite set_nth_ok by lia. rewrite set_nth_ok by (rewrite length_upd; lia).
      destruct (init_loop_spec path high l 1
                  (upd (upd (repeat dmax l) 0 dmax) high dmax) Hpl
                  ltac:(rewrite !length_upd; assumption) ltac:(lia) ltac:(lia))
        as (dsq & E & Hdl & Hsame & Hnew).
      exists dsq. split; [assumption|]. split; [lia|]. split; [|split; [discriminate|]].
      + intros _. split.
        * rewrite Hsame by lia. rewrite nth_error_upd_neq by lia.
          apply nth_error_upd_eq. lia.
        * rewrite Hsame by lia. apply nth_error_upd_eq. rewrite length_upd. lia.
      + intros k Pk Pp Pn Hk. apply Hnew. lia.
  Qed.

  Lemma init_basic path dsq :
    2 <= length path -> length dsq = length path ->
    basic path (length path - 1) (repeat false (length path)) dsq 0.
  Proof.
    intros Hl Hdl. constructor.
    - rewrite repeat_length. lia.
    - lia.
    - lia.
    - apply fl_repeat_false. lia.
    - exists 1. split; [lia|]. apply fl_repeat_false. lia.
  Qed.

  (* ================================================================ *)
  (* 5. (a) short paths, (b) subsequence, (c) totality                 *)
  (* ================================================================ *)

  Theorem simplify_short path c :
    length path < 4 -> simplify path c = Some path.
  Proof.
    intros H. unfold Simplify.simplify.
    destruct (Nat.ltb_spec (length path) 4); [reflexivity|lia].
  Qed.

  Theorem simplify_flags_total path c : simplify_flags path c <> None.
  Proof.
    unfold Simplify.simplify_flags.
    destruct (Nat.ltb_spec (length path) 4) as [|Hl]; [discriminate|].
    destruct (init_dsq_spec path c ltac:(lia)) as (dsq & E & Hdl & _).
    rewrite E.
    destruct (main_loop_total path c (length path - 1) (length path + 1)
                (repeat false (length path)) dsq 0
                (init_basic path dsq ltac:(lia) Hdl)
                ltac:(rewrite nclear_repeat_false; lia)) as [r Er].
    rewrite Er. discriminate.
  Qed.

  Theorem simplify_total path c : simplify path c <> None.
  Proof.
    unfold Simplify.simplify.
    destruct (Nat.ltb_spec (length path) 4) as [|Hl]; [discriminate|].
    pose proof (simplify_flags_total path c) as H.
    destruct (simplify_flags path c); [discriminate|contradiction].
  Qed.

  Lemma simplify_flags_length path c flags :
    simplify_flags path c = Some flags -> length flags = length path.
  Proof.
    unfold Simplify.simplify_flags.
    destruct (Nat.ltb_spec (length path) 4) as [|Hl].
    - intros E. inversion E. apply repeat_length.
    - destruct (init_dsq_spec path c ltac:(lia)) as (dsq & E & Hdl & _).
      rewrite E. intros Hm.
      destruct (main_loop_inv path c (length path - 1) (fun _ _ _ => True)
                  ltac:(auto) _ _ _ _ _ (init_basic path dsq ltac:(lia) Hdl) I Hm)
        as (dsqF & currF & HB & _).
      rewrite (b_flags _ _ _ _ _ HB). lia.
  Qed.

  Lemma simplify_select path c r :
    simplify path c = Some r -> 4 <= length path ->
    exists flags, simplify_flags path c = Some flags /\ r = select flags path.
  Proof.
    unfold Simplify.simplify. intros H Hl.
    destruct (Nat.ltb_spec (length path) 4); [lia|].
    destruct (simplify_flags path c) as [flags|]; [|discriminate].
    inversion H. eauto.
  Qed.

  (* ================================================================ *)
  (* 6. (d) open paths keep both end points                            *)
  (* ================================================================ *)

  Lemma guard_true_iff c high i :
    guard c high i = true <-> (c = true \/ (i <> 0 /\ i <> high)).
  Proof.
    unfold guard. destruct c; cbn [orb].
    - split; auto.
    - destruct (Nat.eqb_spec i high), (Nat.eqb_spec i 0); cbn [negb andb];
        split; intros H; try discriminate; try reflexivity;
        try (destruct H as [H|[H1 H2]]; [discriminate|contradiction]).
      right. auto.
  Qed.

  Lemma nth_error_cond_upd (g : bool) (l : list D) i v k :
    (g = true -> i <> k) ->
    nth_error (if g then upd l i v else l) k = nth_error l k.
  Proof.
    intros H. destruct g; [|reflexivity]. apply nth_error_upd_neq. auto.
  Qed.

  Section OpenEnds.
  Variable path : list P.

  (* epsSq < MaxFloat64; no distance computed from points of the path, nor
     MaxFloat64 itself, is greater than MaxFloat64 *)
  Hypothesis dmax_gt_eps : gtb dmax eps2 = true.
  Hypothesis dmax_not_lt_self : ltb dmax dmax = false.
  Hypothesis dmax_not_lt_perp : forall p a b,
      In p path -> In a path -> In b path -> ltb dmax (perp p a b) = false.

  Definition dval (d : D) : Prop :=
    d = dmax \/ exists p a b, In p path /\ In a path /\ In b path /\ d = perp p a b.

  (* for open paths: the end points are unflagged and their dsq is dmax;
     every dsq value is dmax or a distance between points of the path *)
  Definition ends_inv (high : nat) (flags : list bool) (dsq : list D) (curr : nat) : Prop :=
    fl flags 0 = false /\ fl flags high = false /\
    nth_error dsq 0 = Some dmax /\ nth_error dsq high = Some dmax /\
    forall k d, nth_error dsq k = Some d -> dval d.

  Lemma dval_not_lt d : dval d -> ltb dmax d = false.
  Proof.
    intros [->|(p & a & b & Hp & Ha & Hb & ->)]; auto.
  Qed.

  Lemma nth_error_cond_upd_cases (g : bool) (l : list D) i v k d :
    nth_error (if g then upd l i v else l) k = Some d -> d = v \/ nth_error l k = Some d.
  Proof.
    destruct g; [|auto]. destruct (Nat.eq_dec i k) as [->|Hne].
    - destruct (Nat.lt_ge_cases k (length l)) as [Hlt|Hge].
      + rewrite nth_error_upd_eq by assumption. intros E. inversion E. auto.
      + intros E. assert (nth_error (upd l k v) k = None)
          by (apply nth_error_None; rewrite length_upd; assumption). congruence.
    - rewrite nth_error_upd_neq by assumption. auto.
  Qed.

  Lemma ends_inv_step high flags dsq curr x a b p2 nx dsq' :
    basic path high flags dsq curr -> ends_inv high flags dsq curr ->
    removal path false high flags dsq x a b p2 nx dsq' ->
    ends_inv high (upd flags x true) dsq' b.
  Proof.
    intros HB (H0 & Hh & Hd0 & Hdh & Hval) HR.
    destruct (r_why _ _ _ _ _ _ _ _ _ _ _ HR) as (dx & Edx & Hwhy).
    assert (Hdx : dx <> dmax).
    { intros ->. destruct Hwhy as [Hw|(k & d & Ek & Hw)]; [congruence|].
      rewrite (dval_not_lt d (Hval k d Ek)) in Hw. discriminate. }
    assert (Hx0 : x <> 0) by (intros ->; congruence).
    assert (Hxh : x <> high) by (intros ->; congruence).
    destruct (r_dsq _ _ _ _ _ _ _ _ _ _ _ HR)
      as (Pa & Pb & Pp2 & Pnx & Ea & Eb & Ep2 & Enx & ->).
    cbv zeta. unfold ends_inv. rewrite !fl_upd_neq by congruence.
    split; [assumption|]. split; [assumption|].
    split; [|split].
    - rewrite !nth_error_cond_upd; [assumption| |];
        intros Hg; apply guard_true_iff in Hg; destruct Hg as [|[? ?]]; congruence.
    - rewrite !nth_error_cond_upd; [assumption| |];
        intros Hg; apply guard_true_iff in Hg; destruct Hg as [|[? ?]]; congruence.
    - intros k d Ek.
      apply nth_error_In in Ea, Eb, Ep2, Enx.
      apply nth_error_cond_upd_cases in Ek. destruct Ek as [->|Ek].
      { right. exists Pa, Pp2, Pb. auto. }
      apply nth_error_cond_upd_cases in Ek. destruct Ek as [->|Ek].
      { right. exists Pb, Pa, Pnx. auto. }
      apply (Hval k d Ek).
  Qed.

  Theorem simplify_flags_open_ends flags :
    4 <= length path -> simplify_flags path false = Some flags ->
    fl flags 0 = false /\ fl flags (length path - 1) = false.
  Proof.
    intros Hl. unfold Simplify.simplify_flags.
    destruct (Nat.ltb_spec (length path) 4); [lia|].
    destruct (init_dsq_spec path false ltac:(lia)) as (dsq & E & Hdl & Hopen & _ & Hint).
    rewrite E. intros Hm. destruct (Hopen eq_refl) as [Hd0 Hdh].
    assert (Hinit : ends_inv (length path - 1) (repeat false (length path)) dsq 0).
    { unfold ends_inv. rewrite !fl_repeat_false by lia.
      repeat (split; [auto; fail|]).
      intros k d Ek.
      assert (Hk : k < length path).
      { rewrite <- Hdl. apply nth_error_Some. congruence. }
      destruct (Nat.eq_dec k 0) as [->|Hk0]; [left; congruence|].
      destruct (Nat.eq_dec k (length path - 1)) as [->|Hkh]; [left; congruence|].
      destruct (nth_error_in_range path k ltac:(lia)) as [Pk Ekk].
      destruct (nth_error_in_range path (k - 1) ltac:(lia)) as [Pp Ekp].
      destruct (nth_error_in_range path (k + 1) ltac:(lia)) as [Pn Ekn].
      rewrite (Hint k Pk Pp Pn ltac:(lia) Ekk Ekp Ekn) in Ek. inversion Ek.
      right. exists Pk, Pp, Pn.
      split; [eapply nth_error_In; eassumption|].
      split; [eapply nth_error_In; eassumption|].
      split; [eapply nth_error_In; eassumption|reflexivity]. }
    destruct (main_loop_inv path false (length path - 1) (ends_inv (length path - 1))
                (fun flags dsq curr x a b p2 nx dsq' HB HI HR =>
                   ends_inv_step _ flags dsq curr x a b p2 nx dsq' HB HI HR)
                _ _ _ _ _ (init_basic path dsq ltac:(lia) Hdl) Hinit Hm)
      as (dsqF & currF & _ & (H0 & Hh & _) & _).
    auto.
  Qed.

  Theorem simplify_open_ends r :
    4 <= length path -> simplify path false = Some r ->
    hd_error r = hd_error path /\ forall d, last r d = last path d.
  Proof.
    intros Hl H. destruct (simplify_select path false r H Hl) as (flags & Ef & ->).
    destruct (simplify_flags_open_ends flags Hl Ef) as [H0 Hh].
    pose proof (simplify_flags_length path false flags Ef) as Hlen.
    split; [apply select_hd; assumption|].
    intros d. apply select_last; assumption.
  Qed.
  End OpenEnds.

  (* ================================================================ *)
  (* 7. (b) the result is a subsequence of the input                   *)
  (* ================================================================ *)
  Theorem simplify_subseq path c r : simplify path c = Some r -> subseq r path.
  Proof.
    unfold Simplify.simplify.
    destruct (Nat.ltb_spec (length path) 4).
    - intros E. inversion E. apply subseq_refl.
    - destruct (simplify_flags path c); [|discriminate].
      intros E. inversion E. apply select_subseq.
  Qed.

  (* ================================================================ *)
  (* 8. (e) the post-condition                                         *)
  (* ================================================================ *)

  (* the lazily maintained table: for every unflagged vertex i whose dsq cell
     is live (closed path, or interior vertex of an open path), dsq[i] is the
     distance of i from the line through its unflagged neighbours p (before)
     and nx (after).  The line points are passed in the order (p, nx) by every
     recomputation in the loop and by the initialisation of all cells except
     dsq[high] of a closed path, which is initialised with the order (nx, p):
     hence the disjunction. *)
  Definition dsq_inv (path : list P) (c : bool) (high : nat)
             (flags : list bool) (dsq : list D) (curr : nat) : Prop :=
    forall i p nx Pi Pp Pn,
      fl flags i = false -> fl flags p = false -> fl flags nx = false ->
      gap flags p i -> gap flags i nx -> guard c high i = true ->
      nth_error path i = Some Pi -> nth_error path p = Some Pp ->
      nth_error path nx = Some Pn ->
      nth_error dsq i = Some (perp Pi Pp Pn) \/ nth_error dsq i = Some (perp Pi Pn Pp).

  Lemma dsq_inv_step path c high flags dsq curr x a b p2 nx dsq' :
    basic path high flags dsq curr -> dsq_inv path c high flags dsq curr ->
    removal path c high flags dsq x a b p2 nx dsq' ->
    dsq_inv path c high (upd flags x true) dsq' b.
  Proof.
    intros HB HI HR i p n' Pi Pp Pn Hi' Hp' Hn' Hgp Hgn Hg Ei Ep En.
    destruct (fl_upd_false _ _ _ Hi') as [Hix Hi].
    destruct (fl_upd_false _ _ _ Hp') as [Hpx Hp].
    destruct (fl_upd_false _ _ _ Hn') as [Hnx' Hn].
    pose proof HB as [Hfl Hdl Hpl _ _].
    pose proof HR as [Hx Ha Hb Hp2 Hax Hbx Hab Hgax Hgxb Hgpa Hnx Hgbn _
                        (Pa & Pb & Pp2 & Pnx & Ea & Eb & Ep2 & Enx & ->)].
    pose proof (gap_join flags a x b Hgax Hgxb Ha Hb Hax Hbx) as Hjoin.
    assert (Hp2x : p2 <> x).
    { intros ->. rewrite (gap_two flags a x Hgax Hgpa b ltac:(congruence) Hbx) in Hb.
      discriminate. }
    assert (Ha' : fl (upd flags x true) a = false) by (rewrite fl_upd_neq; assumption).
    assert (Hb' : fl (upd flags x true) b = false) by (rewrite fl_upd_neq; assumption).
    assert (Hp2' : fl (upd flags x true) p2 = false) by (rewrite fl_upd_neq; assumption).
    pose proof (fl_false_lt _ _ Ha) as Hal. pose proof (fl_false_lt _ _ Hb) as Hbl.
    cbv zeta.
    destruct (Nat.eq_dec i b) as [->|Hib].
    - assert (p = a) by (apply (gap_unique_l (upd flags x true) b); assumption).
      assert (n' = nx) by (apply (gap_unique_r (upd flags x true) b); assumption).
      subst p n'. left. rewrite Hg.
      rewrite nth_error_cond_upd by (intros _; assumption).
      rewrite nth_error_upd_eq by lia. congruence.
    - destruct (Nat.eq_dec i a) as [->|Hia].
      + assert (n' = b) by (apply (gap_unique_r (upd flags x true) a); assumption).
        assert (p = p2).
        { apply (gap_unique_l (upd flags x true) a); try assumption.
          apply gap_mono. assumption. }
        subst p n'. left. rewrite Hg.
        rewrite nth_error_upd_eq
          by (destruct (guard c high b); rewrite ?length_upd; lia).
        congruence.
      + rewrite !nth_error_cond_upd by congruence.
        apply (HI i p n'); try assumption.
        * apply (gap_restrict flags a x b p i); auto.
        * apply (gap_restrict flags a x b i n'); auto.
  Qed.

  Lemma gap_clear_prev flags n p i :
    (forall k, k < n -> fl flags k = false) -> p < n -> i < n -> gap flags p i ->
    p = if i =? 0 then n - 1 else i - 1.
  Proof.
    intros Hall Hp Hi Hg. destruct (Nat.eqb_spec i 0) as [->|Hi0].
    - destruct (Nat.eq_dec p (n - 1)) as [|Hne]; [assumption|exfalso].
      assert (H : between p 0 (n - 1)) by (unfold between; lia).
      apply Hg in H. rewrite Hall in H by lia. discriminate.
    - destruct (Nat.eq_dec p (i - 1)) as [|Hne]; [assumption|exfalso].
      assert (H : between p i (i - 1)) by (unfold between; lia).
      apply Hg in H. rewrite Hall in H by lia. discriminate.
  Qed.

  Lemma gap_clear_next flags n i nx :
    (forall k, k < n -> fl flags k = false) -> nx < n -> i < n -> gap flags i nx ->
    nx = if i =? n - 1 then 0 else i + 1.
  Proof.
    intros Hall Hn Hi Hg. destruct (Nat.eqb_spec i (n - 1)) as [Hin|Hin].
    - destruct (Nat.eq_dec nx 0) as [|Hne]; [assumption|exfalso].
      assert (H : between i nx 0) by (unfold between; lia).
      apply Hg in H. rewrite Hall in H by lia. discriminate.
    - destruct (Nat.eq_dec nx (i + 1)) as [|Hne]; [assumption|exfalso].
      assert (H : between i nx (i + 1)) by (unfold between; lia).
      apply Hg in H. rewrite Hall in H by lia. discriminate.
  Qed.

  Lemma dsq_inv_init path c dsq :
    4 <= length path -> init_dsq path c = Some dsq ->
    dsq_inv path c (length path - 1) (repeat false (length path)) dsq 0.
  Proof.
    intros Hl E.
    destruct (init_dsq_spec path c ltac:(lia)) as (dsq0 & E0 & Hdl & _ & Hclosed & Hint).
    rewrite E in E0. inversion E0; subst dsq0. clear E0.
    set (n := length path) in *.
    intros i p nx Pi Pp Pn Hi Hp Hnx Hgp Hgn Hg Ei Ep En.
    apply fl_false_lt in Hi, Hp, Hnx. rewrite repeat_length in Hi, Hp, Hnx.
    pose proof (gap_clear_prev _ n p i (fl_repeat_false n) Hp Hi Hgp) as Hpe.
    pose proof (gap_clear_next _ n i nx (fl_repeat_false n) Hnx Hi Hgn) as Hne.
    destruct (Nat.eq_dec i 0) as [->|Hi0].
    - apply guard_true_iff in Hg. destruct Hg as [->|[? _]]; [|congruence].
      cbn [Nat.eqb] in Hpe. destruct (Nat.eqb_spec 0 (n - 1)); [lia|]. subst p nx.
      destruct (nth_error_in_range path (n - 1 - 1) ltac:(lia)) as [Ph1 Eh1].
      left. apply (Hclosed eq_refl Pi Pp Pn Ph1); assumption.
    - destruct (Nat.eqb_spec i 0); [contradiction|].
      destruct (Nat.eqb_spec i (n - 1)) as [->|Hih].
      + apply guard_true_iff in Hg. destruct Hg as [->|[_ ?]]; [|congruence].
        subst p nx.
        destruct (nth_error_in_range path 1 ltac:(lia)) as [P1 E1].
        right. apply (Hclosed eq_refl Pn Pi P1 Pp); assumption.
      + subst p nx. left. apply Hint; try assumption. lia.
  Qed.

  (* Main correctness statement, on the final flags.  [fl flags i = false]
     says vertex i is retained; [gap flags p i] with p retained says p is the
     nearest retained vertex before i (cyclically), [gap flags i nx] with nx
     retained says nx is the nearest retained vertex after i. *)
  Theorem simplify_post path c flags :
    4 <= length path -> simplify_flags path c = Some flags ->
    (exists u v, forall k, k <> u -> k <> v -> fl flags k = true) \/
    (forall i p nx Pi Pp Pn,
        fl flags i = false -> fl flags p = false -> fl flags nx = false ->
        gap flags p i -> gap flags i nx ->
        (c = true \/ (i <> 0 /\ i <> length path - 1)) ->
        nth_error path i = Some Pi -> nth_error path p = Some Pp ->
        nth_error path nx = Some Pn ->
        gtb (perp Pi Pp Pn) eps2 = true \/ gtb (perp Pi Pn Pp) eps2 = true).
  Proof.
    intros Hl. unfold Simplify.simplify_flags.
    destruct (Nat.ltb_spec (length path) 4); [lia|].
    destruct (init_dsq_spec path c ltac:(lia)) as (dsq & E & Hdl & _).
    rewrite E. intros Hm.
    destruct (main_loop_inv path c (length path - 1) (dsq_inv path c (length path - 1))
                (fun flags dsq curr x a b p2 nx dsq' HB HI HR =>
                   dsq_inv_step path c _ flags dsq curr x a b p2 nx dsq' HB HI HR)
                _ _ _ _ _ (init_basic path dsq ltac:(lia) Hdl)
                (dsq_inv_init path c dsq Hl E) Hm)
      as (dsqF & currF & _ & HI & [Hfar|Htwo]).
    - right. intros i p nx Pi Pp Pn Hi Hp Hnx Hgp Hgn Hg Ei Ep En.
      apply guard_true_iff in Hg.
      destruct (Hfar i Hi) as (d & Ed & Egt).
      destruct (HI i p nx Pi Pp Pn Hi Hp Hnx Hgp Hgn Hg Ei Ep En) as [Hd|Hd];
        rewrite Hd in Ed; inversion Ed; subst d; auto.
    - left. assumption.
  Qed.

  (* the same statement on the result path *)
  Theorem simplify_post_result path c r :
    4 <= length path -> simplify path c = Some r -> 3 <= length r ->
    exists flags,
      simplify_flags path c = Some flags /\ r = select flags path /\
      length flags = length path /\
      forall i p nx Pi Pp Pn,
        fl flags i = false -> fl flags p = false -> fl flags nx = false ->
        gap flags p i -> gap flags i nx ->
        (c = true \/ (i <> 0 /\ i <> length path - 1)) ->
        nth_error path i = Some Pi -> nth_error path p = Some Pp ->
        nth_error path nx = Some Pn ->
        gtb (perp Pi Pp Pn) eps2 = true \/ gtb (perp Pi Pn Pp) eps2 = true.
  Proof.
    intros Hl H Hr. destruct (simplify_select path c r H Hl) as (flags & Ef & ->).
    exists flags. split; [assumption|]. split; [reflexivity|].
    split; [apply (simplify_flags_length path c); assumption|].
    destruct (simplify_post path c flags Hl Ef) as [(u & v & Huv)|Hpost]; [|assumption].
    pose proof (select_length_le2 flags path u v Huv). lia.
  Qed.

  (* with a perp that is symmetric in its two line points (true of the exact
     squared distance) the disjunction disappears *)
  Corollary simplify_post_sym path c r :
    (forall p a b, perp p a b = perp p b a) ->
    4 <= length path -> simplify path c = Some r -> 3 <= length r ->
    exists flags,
      simplify_flags path c = Some flags /\ r = select flags path /\
      length flags = length path /\
      forall i p nx Pi Pp Pn,
        fl flags i = false -> fl flags p = false -> fl flags nx = false ->
        gap flags p i -> gap flags i nx ->
        (c = true \/ (i <> 0 /\ i <> length path - 1)) ->
        nth_error path i = Some Pi -> nth_error path p = Some Pp ->
        nth_error path nx = Some Pn ->
        gtb (perp Pi Pp Pn) eps2 = true.
  Proof.
    intros Hsym Hl H Hr.
    destruct (simplify_post_result path c r Hl H Hr) as (flags & Ef & Er & Hlen & Hpost).
    exists flags. repeat (split; [assumption|]).
    intros i p nx Pi Pp Pn Hi Hp Hnx Hgp Hgn Hg Ei Ep En.
    destruct (Hpost i p nx Pi Pp Pn Hi Hp Hnx Hgp Hgn Hg Ei Ep En) as [Hd|Hd];
      [assumption|]. rewrite Hsym. assumption.
  Qed.
End Proofs.

(* ================================================================== *)
(* 9. getNext / getPrior compute the neighbours used in the statements *)
(* ================================================================== *)
Lemma getNext_of_gap flags high i nx :
  length flags = S high -> i <= high -> fl flags nx = false -> gap flags i nx ->
  getNext flags high i = Some nx.
Proof.
  intros Hlen Hi Hnx Hg.
  destruct (getNext_spec flags high i Hlen Hi (ex_intro _ nx Hnx)) as (c & E & Hc & Hgc).
  rewrite E. f_equal. apply (gap_unique_r flags i); assumption.
Qed.

Lemma getPrior_of_gap flags high i p :
  length flags = S high -> i <= high -> fl flags p = false -> gap flags p i ->
  getPrior flags high i = Some p.
Proof.
  intros Hlen Hi Hp Hg.
  destruct (getPrior_spec flags high i Hlen Hi (ex_intro _ p Hp)) as (c & E & Hc & Hgc).
  rewrite E. f_equal. apply (gap_unique_l flags i); assumption.
Qed.

(* ================================================================== *)
(* 10. the exact rational instance                                     *)
(* ================================================================== *)
From Coq Require Import ZArith QArith.
From Clip Require Import Model.Arith.
Close Scope Q_scope.
Close Scope Z_scope.
Open Scope nat_scope.

Lemma perp_exact_sym p a b : perp_exact p a b = perp_exact p b a.
Proof.
  unfold perp_exact. cbv zeta.
  destruct (Z.eqb_spec (px b - px a) 0), (Z.eqb_spec (py b - py a) 0),
           (Z.eqb_spec (px a - px b) 0), (Z.eqb_spec (py a - py b) 0);
    cbn [andb]; try reflexivity; try lia.
  all: f_equal; [ring | f_equal; ring].
Qed.

Theorem simplify_exact_post (eps2 : Q) pth c r :
  4 <= length pth -> simplify_exact eps2 pth c = Some r -> 3 <= length r ->
  exists flags,
    simplify_exact_flags eps2 pth c = Some flags /\ r = select flags pth /\
    length flags = length pth /\
    forall i p nx Pi Pp Pn,
      fl flags i = false -> fl flags p = false -> fl flags nx = false ->
      gap flags p i -> gap flags i nx ->
      (c = true \/ (i <> 0 /\ i <> length pth - 1)) ->
      nth_error pth i = Some Pi -> nth_error pth p = Some Pp ->
      nth_error pth nx = Some Pn ->
      Qgtb (perp_exact Pi Pp Pn) eps2 = true.
Proof.
  apply (simplify_post_sym pt Q perp_exact dmax_exact Qgtb Qltb eps2 pth c r perp_exact_sym).
Qed.

(* ================================================================== *)
Print Assumptions simplify_short.
Print Assumptions simplify_subseq.
Print Assumptions simplify_total.
Print Assumptions simplify_flags_total.
Print Assumptions simplify_open_ends.
Print Assumptions simplify_post.
Print Assumptions simplify_post_result.
Print Assumptions simplify_post_sym.
Print Assumptions simplify_exact_post.
