(* Model/Arith.v — faithful models of the integer predicates of
   internal_clipper.go: triSign, multiplyUInt64, productsAreEqual,
   isCollinear, CrossProduct, dotProduct64.  Definitions only (plus
   computational sanity checks); theorems are in ArithProofs.v. *)
From Coq Require Import ZArith List Bool.
From Clip Require Import Base.Int64.
Import ListNotations.
Open Scope Z_scope.

Definition pt : Type := (Z * Z)%type.
Definition path : Type := list pt.
Definition paths : Type := list path.
Definition px (p : pt) : Z := fst p.
Definition py (p : pt) : Z := snd p.

Definition pt_eqb (a b : pt) : bool := (px a =? px b) && (py a =? py b).

(* internal_clipper.go:triSign — faithful: the code tests x > 1, so triSign 1 = 0
   (a genuine defect recorded in KNOWN_FINDINGS.txt; repairing it breaks the
   pinned expectation of TestOffsetVariableCallback4, so it is not repaired) *)
Definition triSign (x : Z) : Z :=
  if x <? 0 then -1 else if x >? 1 then 1 else 0.

(* internal_clipper.go:multiplyUInt64 — all intermediate values are uint64 *)
Definition mask32 : Z := 4294967295.
Definition multiplyUInt64 (a b : Z) : Z * Z (* lo, hi *) :=
  let x1 := umul64 (Z.land a mask32) (Z.land b mask32) in
  let x2 := uadd64 (umul64 (Z.shiftr a 32) (Z.land b mask32)) (Z.shiftr x1 32) in
  let x3 := uadd64 (umul64 (Z.land a mask32) (Z.shiftr b 32)) (Z.land x2 mask32) in
  let lo := Z.lor (u64 (Z.shiftl (Z.land x3 mask32) 32)) (Z.land x1 mask32) in
  let hi := uadd64 (uadd64 (umul64 (Z.shiftr a 32) (Z.shiftr b 32)) (Z.shiftr x2 32))
                   (Z.shiftr x3 32) in
  (lo, hi).

(* internal_clipper.go:productsAreEqual *)
Definition productsAreEqual (a b c d : Z) : bool :=
  let absA := absf_u64 a in
  let absB := absf_u64 b in
  let absC := absf_u64 c in
  let absD := absf_u64 d in
  let mulAB := multiplyUInt64 absA absB in
  let mulCD := multiplyUInt64 absC absD in
  let signAB := triSign a * triSign b in
  let signCD := triSign c * triSign d in
  (fst mulAB =? fst mulCD) && (snd mulAB =? snd mulCD) && (signAB =? signCD).

(* internal_clipper.go:isCollinear (int64 subtractions wrap) *)
Definition isCollinear (p1 sh p2 : pt) : bool :=
  let a := sub64 (px sh) (px p1) in
  let b := sub64 (py p2) (py sh) in
  let c := sub64 (py sh) (py p1) in
  let d := sub64 (px p2) (px sh) in
  productsAreEqual a b c d.

(* exact cross product of (p1->p2) x (p2->p3), no wrap: the specification *)
Definition cross_exact (p1 p2 p3 : pt) : Z :=
  (px p2 - px p1) * (py p3 - py p2) - (py p2 - py p1) * (px p3 - px p2).

(* internal_clipper.go:CrossProduct: the int64 expression, then float64().
   The float conversion preserves sign and zero-ness and is monotone; all
   callers only use sign, zero test, or products of signs, except
   areaTriangle.  The model returns the value of the float as an integer. *)
Definition cross64 (p1 p2 p3 : pt) : Z :=
  sub64 (mul64 (sub64 (px p2) (px p1)) (sub64 (py p3) (py p2)))
        (mul64 (sub64 (py p2) (py p1)) (sub64 (px p3) (px p2))).
Definition CrossProduct (p1 p2 p3 : pt) : Z := round53 (cross64 p1 p2 p3).

Definition dot_exact (p1 p2 p3 : pt) : Z :=
  (px p2 - px p1) * (px p3 - px p2) + (py p2 - py p1) * (py p3 - py p2).
Definition dot64 (p1 p2 p3 : pt) : Z :=
  add64 (mul64 (sub64 (px p2) (px p1)) (sub64 (px p3) (px p2)))
        (mul64 (sub64 (py p2) (py p1)) (sub64 (py p3) (py p2))).

(* coordinate-range predicates used as hypotheses *)
Definition coord_ok (B : Z) (p : pt) : Prop := Z.abs (px p) <= B /\ Z.abs (py p) <= B.
Definition coord_okb (B : Z) (p : pt) : bool := (Z.abs (px p) <=? B) && (Z.abs (py p) <=? B).
Definition path_ok (B : Z) (l : path) : Prop := Forall (coord_ok B) l.
Definition two29 : Z := 536870912.
