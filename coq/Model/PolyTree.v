(** * PolyTree: the nested-result tree of /repo/poly_tree.go

    Go side (poly_tree.go):
    - [PolyPathBase] has [parent], [childs], [polygon].
    - [AddChild pth] appends a fresh node whose [parent] is the receiver.
    - [Level()] counts the ancestors (root = 0; the root carries no polygon).
    - [IsHole()] = [lvl != 0 && (lvl&1) == 0].

    Part 1 models the node API on all finite trees.
    Part 2 is the abstract nesting lemma: at a fixed point q, the polygons
    that contain q form a root-to-leaf chain, and the parent of a node is the
    innermost polygon around it.

    Standard library only; self-contained. *)

From Coq Require Import List Arith Lia Bool.
Import ListNotations.

(* ------------------------------------------------------------------ *)
(** ** Part 1: the node API                                            *)
(* ------------------------------------------------------------------ *)

Section Tree.
  Variable Poly : Type.

  (** A node below the root: its polygon and its [childs] (in AddChild order). *)
  Inductive tree := Node (p : Poly) (children : list tree).

  Definition root_poly (t : tree) : Poly := match t with Node p _ => p end.
  Definition childs (t : tree) : list tree := match t with Node _ cs => cs end.

  (** [AddChild]: append a fresh leaf holding [pth] to the child list. *)
  Definition add_child (t : tree) (pth : Poly) : tree :=
    match t with Node p cs => Node p (cs ++ [Node pth nil]) end.

  (** Every node with its level, preorder.  The forest below the root is a
      [list tree]; its members are at level 1. *)
  Fixpoint levels (lvl : nat) (t : tree) : list (Poly * nat) :=
    match t with
    | Node p cs => (p, lvl) :: flat_map (levels (S lvl)) cs
    end.

  (** Same function written with an explicit nested fixpoint. *)
  Fixpoint node_levels (lvl : nat) (t : tree) : list (Poly * nat) :=
    match t with
    | Node p cs =>
        (p, lvl) ::
        (fix go (l : list tree) : list (Poly * nat) :=
           match l with
           | nil => nil
           | c :: l' => node_levels (S lvl) c ++ go l'
           end) cs
    end.

  (** Levels of the whole result: the root's children are level 1. *)
  Definition forest_levels (f : list tree) : list (Poly * nat) :=
    flat_map (levels 1) f.

  Definition is_hole (lvl : nat) : bool := negb (Nat.eqb lvl 0) && Nat.even lvl.

  (** The children of a node at level [l] are listed at level [S l]. *)
  Lemma level_child : forall l p cs,
    levels l (Node p cs) = (p, l) :: flat_map (levels (S l)) cs.
  Proof. intros; reflexivity. Qed.

  Lemma node_levels_child : forall l p cs,
    node_levels l (Node p cs) = (p, l) :: flat_map (node_levels (S l)) cs.
  Proof.
    intros l p cs. reflexivity.
  Qed.

  (** Induction principle that reaches through the child list. *)
  Lemma tree_ind' (P : tree -> Prop) :
    (forall p cs, Forall P cs -> P (Node p cs)) -> forall t, P t.
  Proof.
    intros H. fix IH 1. intros [p cs]. apply H.
    induction cs as [|c cs IHcs]; constructor; [apply IH | exact IHcs].
  Qed.

  Lemma node_levels_eq : forall t l, node_levels l t = levels l t.
  Proof.
    induction t as [p cs IH] using tree_ind'. intros l.
    rewrite node_levels_child, level_child. apply f_equal.
    induction IH as [|c cs Hc _ IHcs]; [reflexivity|].
    cbn [flat_map]. now rewrite Hc, IHcs.
  Qed.

  Lemma levels_head : forall l t,
    exists rest, levels l t = (root_poly t, l) :: rest.
  Proof. intros l [p cs]. eexists. reflexivity. Qed.

  Lemma levels_root_in : forall l t, In (root_poly t, l) (levels l t).
  Proof. intros l [p cs]. left. reflexivity. Qed.

  (** Everything listed for a child (at level [S l]) is listed for the parent. *)
  Lemma levels_child_incl : forall l p cs c,
    In c cs -> incl (levels (S l) c) (levels l (Node p cs)).
  Proof.
    intros l p cs c Hc x Hx. rewrite level_child. right.
    apply in_flat_map. exists c. split; assumption.
  Qed.

  (** [at_level l t k s]: [s] is a node of [t] and sits at level [k] when [t]
      itself is at level [l] (i.e. [k - l] parent links separate them). *)
  Inductive at_level : nat -> tree -> nat -> tree -> Prop :=
  | al_here : forall l t, at_level l t l t
  | al_child : forall l p cs c k s,
      In c cs -> at_level (S l) c k s -> at_level l (Node p cs) k s.

  Lemma at_level_incl : forall l t k s,
    at_level l t k s -> incl (levels k s) (levels l t).
  Proof.
    induction 1 as [l t | l p cs c k s Hc _ IH].
    - apply incl_refl.
    - eapply incl_tran; [exact IH|]. apply levels_child_incl; assumption.
  Qed.

  (** Every node at level [k] is listed with [k], and each of its children is
      listed with [S k] — whichever tree [t] / start level [l] we list from. *)
  Theorem level_child_listed : forall l t k p cs,
    at_level l t k (Node p cs) ->
    In (p, k) (levels l t) /\
    forall c, In c cs -> In (root_poly c, S k) (levels l t).
  Proof.
    intros l t k p cs H. pose proof (at_level_incl _ _ _ _ H) as Hin. split.
    - apply Hin. left. reflexivity.
    - intros c Hc. apply Hin. eapply levels_child_incl; [exact Hc|].
      apply levels_root_in.
  Qed.

  Lemma at_level_le : forall l t k s, at_level l t k s -> l <= k.
  Proof. induction 1; lia. Qed.

  (** [AddChild] puts the new polygon one level below the receiver. *)
  Lemma add_child_levels : forall l t pth,
    levels l (add_child t pth) = levels l t ++ [(pth, S l)].
  Proof.
    intros l [p cs] pth. cbn [add_child]. rewrite !level_child.
    rewrite flat_map_app. reflexivity.
  Qed.

  (** *** IsHole *)

  Lemma is_hole_level0 : is_hole 0 = false.
  Proof. reflexivity. Qed.

  Lemma is_hole_level1 : is_hole 1 = false.
  Proof. reflexivity. Qed.

  Lemma is_hole_level2 : is_hole 2 = true.
  Proof. reflexivity. Qed.

  Lemma is_hole_pos : forall l, 1 <= l -> is_hole l = Nat.even l.
  Proof.
    intros l Hl. unfold is_hole.
    destruct l as [|l]; [lia|]. reflexivity.
  Qed.

  Lemma is_hole_alternates : forall l, 1 <= l -> is_hole (S l) = negb (is_hole l).
  Proof.
    intros l Hl. rewrite !is_hole_pos by lia.
    rewrite Nat.even_succ. rewrite <- Nat.negb_even. reflexivity.
  Qed.

  Lemma is_hole_iff_even : forall l, 1 <= l -> (is_hole l = true <-> Nat.even l = true).
  Proof. intros l Hl. rewrite is_hole_pos by exact Hl. reflexivity. Qed.

  (** [IsHole] as written in Go: [lvl != 0 && (lvl & 1) == 0]. *)
  Lemma is_hole_go : forall l,
    is_hole l = negb (Nat.eqb l 0) && Nat.eqb (Nat.land l 1) 0.
  Proof.
    intros l. unfold is_hole. f_equal.
    change 1 with (Nat.ones 1). rewrite Nat.land_ones. change (2 ^ 1) with 2.
    destruct (Nat.even l) eqn:E.
    - apply Nat.even_spec in E. destruct E as [m ->].
      symmetry. apply Nat.eqb_eq.
      rewrite Nat.mul_comm. apply Nat.mod_mul. discriminate.
    - symmetry. apply Nat.eqb_neq. intros H0.
      assert (Nat.even l = true); [|congruence].
      apply Nat.even_spec. exists (l / 2).
      pose proof (Nat.div_mod l 2 ltac:(discriminate)) as Hd.
      rewrite H0, Nat.add_0_r in Hd. exact Hd.
  Qed.
End Tree.

(* ------------------------------------------------------------------ *)
(** ** Part 2: the nesting lemma (abstract, at one fixed point q)      *)
(* ------------------------------------------------------------------ *)

Section Nesting.
  Variable n : nat.                         (* nodes are 0 .. n-1 *)
  Variable parent : nat -> option nat.      (* None = child of the root *)
  Variable inside : nat -> Prop.            (* "the point q is inside polygon i" *)

  (** [ancestor i j]: [i] is a proper ancestor of [j]. *)
  Inductive ancestor : nat -> nat -> Prop :=
  | anc_parent : forall i j, parent j = Some i -> ancestor i j
  | anc_step : forall i j k, parent k = Some j -> ancestor i j -> ancestor i k.

  (** Preorder numbering: parents come first (this makes it a forest). *)
  Hypothesis parent_lt : forall i j, parent j = Some i -> i < j.
  (** Clause (b) at q: a child lies inside its parent. *)
  Hypothesis child_in_parent : forall i j, parent j = Some i -> inside j -> inside i.
  (** Clause (c) at q: siblings (root children included) are disjoint. *)
  Hypothesis siblings_disjoint :
    forall i j, i <> j -> parent i = parent j -> ~ (inside i /\ inside j).

  Lemma ancestor_lt : forall i j, ancestor i j -> i < j.
  Proof.
    induction 1 as [i j H | i j k H _ IH].
    - apply parent_lt; assumption.
    - apply parent_lt in H. lia.
  Qed.

  Lemma ancestor_trans : forall i j k, ancestor i j -> ancestor j k -> ancestor i k.
  Proof.
    intros i j k Hij Hjk. induction Hjk as [j k H | j m k H _ IH].
    - eapply anc_step; eassumption.
    - eapply anc_step; [eassumption|]. apply IH; assumption.
  Qed.

  Lemma ancestor_has_parent : forall i j, ancestor i j -> parent j <> None.
  Proof. intros i j H. inversion H; congruence. Qed.

  (** An ancestor of [h] is [h]'s parent or an ancestor of that parent. *)
  Lemma ancestor_inv : forall m h p,
    ancestor m h -> parent h = Some p -> m = p \/ ancestor m p.
  Proof.
    intros m h p H Hp. inversion H as [i j Hj | i j k Hk Hij]; subst.
    - left. congruence.
    - right. assert (j = p) by congruence. subst. assumption.
  Qed.

  (** The first step on the way down from [p] to a descendant [i]. *)
  Lemma ancestor_first_child : forall p i,
    ancestor p i -> exists c, parent c = Some p /\ (c = i \/ ancestor c i).
  Proof.
    induction 1 as [p i H | p j k Hk _ IH].
    - exists i. split; [assumption | left; reflexivity].
    - destruct IH as (c & Hc & [-> | Hcj]).
      + exists j. split; [assumption|]. right. apply anc_parent; assumption.
      + exists c. split; [assumption|]. right. eapply anc_step; eassumption.
  Qed.

  (** 1. Containment propagates to every ancestor. *)
  Theorem inside_ancestors : forall i j, ancestor i j -> inside j -> inside i.
  Proof.
    induction 1 as [i j H | i j k H _ IH]; intros Hin.
    - eapply child_in_parent; eassumption.
    - apply IH. eapply child_in_parent; eassumption.
  Qed.

  (** Ordered form of the chain property. *)
  Lemma chain_lt : forall s i j,
    i + j < s -> i < j -> inside i -> inside j -> ancestor i j.
  Proof.
    induction s as [|s IH]; intros i j Hs Hij Hi Hj; [lia|].
    destruct (parent j) as [p|] eqn:Pj.
    - (* j has a parent p, which contains q too *)
      assert (Hpj : p < j) by (apply parent_lt; assumption).
      assert (Hp : inside p) by (eapply child_in_parent; eassumption).
      destruct (lt_eq_lt_dec i p) as [[Hlt | Heq] | Hgt].
      + eapply anc_step; [eassumption|]. apply IH; [lia | assumption ..].
      + subst. apply anc_parent; assumption.
      + (* p < i < j: p is an ancestor of i; the child of p towards i is a
           sibling of j containing q, hence is j itself: but then j <= i *)
        exfalso.
        assert (Hpi : ancestor p i) by (apply IH; [lia | assumption ..]).
        destruct (ancestor_first_child _ _ Hpi) as (c & Hc & Hci).
        assert (Hcin : inside c).
        { destruct Hci as [-> | Hci]; [assumption|].
          eapply inside_ancestors; eassumption. }
        assert (Hcle : c <= i).
        { destruct Hci as [-> | Hci]; [lia|]. apply ancestor_lt in Hci. lia. }
        apply (siblings_disjoint c j); [lia | congruence | split; assumption].
    - (* j is a child of the root *)
      exfalso. destruct (parent i) as [p'|] eqn:Pi.
      + assert (Hp'i : p' < i) by (apply parent_lt; assumption).
        assert (Hp' : inside p') by (eapply child_in_parent; eassumption).
        assert (Ha : ancestor p' j) by (apply IH; [lia | lia | assumption ..]).
        apply ancestor_has_parent in Ha. congruence.
      + apply (siblings_disjoint i j); [lia | congruence | split; assumption].
  Qed.

  (** 2. The polygons containing q form a chain (a root-to-leaf path). *)
  Theorem chain : forall i j,
    inside i -> inside j -> i = j \/ ancestor i j \/ ancestor j i.
  Proof.
    intros i j Hi Hj. destruct (lt_eq_lt_dec i j) as [[Hlt | Heq] | Hgt].
    - right; left. apply (chain_lt (S (i + j))); [lia | assumption ..].
    - left; assumption.
    - right; right. apply (chain_lt (S (j + i))); [lia | assumption ..].
  Qed.

  (** 3. The parent is the innermost polygon around [h]: anything else that
      contains q (other than [h] and its descendants) is the parent or one of
      the parent's ancestors. *)
  Theorem parent_is_innermost : forall h p m,
    parent h = Some p -> inside h -> inside m -> m <> h -> ~ ancestor h m ->
    m = p \/ ancestor m p.
  Proof.
    intros h p m Hp Hh Hm Hne Hna.
    destruct (chain m h Hm Hh) as [Heq | [Hmh | Hhm]].
    - contradiction.
    - eapply ancestor_inv; eassumption.
    - contradiction.
  Qed.

  (** Corollary: the set of containing polygons is totally ordered by depth,
      so at most one containing polygon has any given parent. *)
  Corollary inside_same_parent_eq : forall i j,
    inside i -> inside j -> parent i = parent j -> i = j.
  Proof.
    intros i j Hi Hj Hp. destruct (Nat.eq_dec i j) as [|Hne]; [assumption|].
    exfalso. apply (siblings_disjoint i j Hne Hp). split; assumption.
  Qed.
End Nesting.

Check level_child.
Check level_child_listed.
Check is_hole_alternates.
Check is_hole_level1.
Check is_hole_iff_even.
Check inside_ancestors.
Check chain.
Check ancestor_inv.
Check parent_is_innermost.

Print Assumptions level_child_listed.
Print Assumptions is_hole_go.
Print Assumptions chain.
Print Assumptions parent_is_innermost.
