(* Model/KernelOps.v — the few operations the generated kernel terms (Gen/Kernels_gen.v) use
   beyond Base/Int64.v and Model/SimplifyF64.v.  Definitions only. *)
From Coq Require Import ZArith QArith Bool.
From Clip Require Import Base.Int64.
Open Scope Z_scope.

(* conversion of a float64 (given by its exact value) to an integer type truncates toward zero;
   Go leaves the result unspecified when the truncated value does not fit: the theorems that use
   these state the range *)
Definition trunc_q (q : Q) : Z := Z.quot (Qnum q) (Zpos (Qden q)).
Definition u64_of_f (q : Q) : Z := u64 (trunc_q q).
Definition i64_of_f (q : Q) : Z := wrap64 (trunc_q q).
Definition Qgeb (a b : Q) : bool := Qle_bool b a.
Definition usub64 (a b : Z) : Z := u64 (a - b).

(* kernels2: Go's integer division truncates toward zero (Z.quot / Z.rem), the one overflowing case
   MinInt64 / -1 wraps; math.Round rounds half away from zero and is exact (its result is an integer
   of magnitude at most |q| + 1/2: the theorems that use it state the range) *)
Definition quot64 (a b : Z) : Z := wrap64 (Z.quot a b).
Definition rem64 (a b : Z) : Z := wrap64 (Z.rem a b).
Definition round_half_away (q : Q) : Z :=
  let n := Qnum q in
  let d := Zpos (Qden q) in
  Z.sgn n * ((2 * Z.abs n + d) / (2 * d)).
Definition fround (q : Q) : Q := inject_Z (round_half_away q).
