(* Model/AelOrderProofs.v — engine.go:isValidAelOrder, the comparison insertLeftEdge places a new edge
   in the active edge list with.  Its first three statements (regenerated from the source on every run,
   Gen/Kernels2_gen.v: gen_isValidAelOrder_prefix) decide every case in which the two edges are not
   collinear; they are proved to order the edges by their x just above the scanline. *)
From Coq Require Import ZArith QArith Bool Lia Reals Lra Psatz.
From Clip Require Import Base.Int64 Model.Arith Model.ArithProofs Model.Simplify Model.SimplifyF64
  Model.Measures Model.KernelOps Gen.Kernels2_gen Model.Kernel2Proofs.
Open Scope Z_scope.

Lemma isValidAelOrder_prefix_len : gen_isValidAelOrder_prefix_len = 3.
Proof. reflexivity. Qed.

Lemma Qltb_inj a b : Qltb (inject_Z a) (inject_Z b) = (a <? b).
Proof. unfold Qltb, Qle_bool, inject_Z. cbn [Qnum Qden]. rewrite !Z.mul_1_r.
  destruct (Z.leb_spec b a), (Z.ltb_spec a b); try reflexivity; lia. Qed.

Lemma CrossProduct_neg p1 p2 p3 :
  coord_ok two29 p1 -> coord_ok two29 p2 -> coord_ok two29 p3 ->
  (CrossProduct p1 p2 p3 <? 0) = (cross_exact p1 p2 p3 <? 0).
Proof.
  intros H1 H2 H3. unfold CrossProduct. rewrite (cross64_exact _ _ _ H1 H2 H3).
  pose proof (round53_sgn (cross_exact p1 p2 p3)) as S.
  destruct (Z.ltb_spec (round53 (cross_exact p1 p2 p3)) 0), (Z.ltb_spec (cross_exact p1 p2 p3) 0);
    try reflexivity; lia.
Qed.

(* different current X: the larger one goes to the right, whatever the rest says *)
Theorem ael_order_by_curX nb nt rt ncx rcx rest :
  ncx <> rcx ->
  gen_isValidAelOrder_prefix (px nb) (py nb) ncx (px nt) (py nt) rcx (px rt) (py rt) rest = (rcx <? ncx).
Proof.
  intros H. unfold gen_isValidAelOrder_prefix. destruct (Z.eqb_spec ncx rcx); [congruence|].
  cbn. apply Z.gtb_ltb.
Qed.

(* same current X, edges not collinear: the slope comparison, exactly (coordinates within 2^29).
   P = newcomer.bot is the common point; nt, rt the two tops *)
Theorem ael_order_by_turn P nt rt cx rest :
  coord_ok two29 P -> coord_ok two29 nt -> coord_ok two29 rt ->
  cross_exact rt P nt <> 0 ->
  gen_isValidAelOrder_prefix (px P) (py P) cx (px nt) (py nt) cx (px rt) (py rt) rest
  = ((px nt - px P) * (py rt - py P) <? (px rt - px P) * (py nt - py P)).
Proof.
  intros HP Hn Hr D. unfold gen_isValidAelOrder_prefix. rewrite Z.eqb_refl. cbn [negb].
  rewrite !gen_CrossProduct2_eq, Qeq_bool_inj, Qltb_inj.
  rewrite CrossProduct_zero, CrossProduct_neg by assumption.
  destruct (Z.eqb_spec (cross_exact rt P nt) 0); [congruence|]. cbn [negb].
  unfold cross_exact.
  destruct (Z.ltb_spec ((px P - px rt) * (py nt - py P) - (py P - py rt) * (px nt - px P)) 0),
           (Z.ltb_spec ((px nt - px P) * (py rt - py P)) ((px rt - px P) * (py nt - py P))); try reflexivity; lia.
Qed.

(* what the slope comparison means: both edges leave P upwards (tops strictly above, Y grows downwards);
   at every real ordinate y above P the newcomer's x exceeds the resident's exactly when the comparison holds *)
Open Scope R_scope.
Definition edge_x (P T : pt) (y : R) : R :=
  IZR (px P) + IZR (px T - px P) * (y - IZR (py P)) / IZR (py T - py P).

Lemma edge_order_R (a b c e s : R) : b < 0 -> e < 0 -> s < 0 -> (a * s / b < c * s / e <-> c * b < a * e).
Proof.
  intros Hb He Hs.
  assert (Eu : a * s / b * b = a * s) by (field; lra).
  assert (Ev : c * s / e * e = c * s) by (field; lra).
  set (u := a * s / b) in *. set (v := c * s / e) in *. clearbody u v.
  assert (Hbe : 0 < b * e) by nra.
  assert (K : (v - u) * (b * e) = s * (c * b - a * e))
    by (replace ((v - u) * (b * e)) with ((v * e) * b - (u * b) * e) by ring; rewrite Eu, Ev; ring).
  split; intro H.
  - assert (H0 : 0 < (v - u) * (b * e)) by (apply Rmult_lt_0_compat; lra). rewrite K in H0. nra.
  - assert (H0 : 0 < s * (c * b - a * e)) by nra. rewrite <- K in H0.
    assert (0 < v - u); [|lra]. destruct (Rlt_or_le 0 (v - u)); [assumption|]. exfalso.
    assert ((v - u) * (b * e) <= 0) by nra. lra.
Qed.

Theorem slope_comparison_meaning P nt rt :
  (py nt < py P)%Z -> (py rt < py P)%Z ->
  forall y : R, y < IZR (py P) ->
  (edge_x P rt y < edge_x P nt y <->
   ((px nt - px P) * (py rt - py P) < (px rt - px P) * (py nt - py P))%Z).
Proof.
  intros Hn Hr y Hy. unfold edge_x.
  assert (Hb : IZR (py rt - py P) < 0) by (apply IZR_lt; lia).
  assert (He : IZR (py nt - py P) < 0) by (apply IZR_lt; lia).
  pose proof (edge_order_R (IZR (px rt - px P)) (IZR (py rt - py P)) (IZR (px nt - px P)) (IZR (py nt - py P))
                (y - IZR (py P)) Hb He ltac:(lra)) as E.
  rewrite <- !mult_IZR in E. split; intro H.
  - apply lt_IZR. apply E. lra.
  - apply IZR_lt in H. apply E in H. lra.
Qed.

(* together: with equal current X and non-collinear edges leaving P upwards, isValidAelOrder says "newcomer to the
   right" exactly when the newcomer IS to the right of the resident at every ordinate above the scanline *)
Theorem ael_order_geometric P nt rt cx rest :
  coord_ok two29 P -> coord_ok two29 nt -> coord_ok two29 rt ->
  (py nt < py P)%Z -> (py rt < py P)%Z -> cross_exact rt P nt <> 0%Z ->
  forall y : R, y < IZR (py P) ->
  (gen_isValidAelOrder_prefix (px P) (py P) cx (px nt) (py nt) cx (px rt) (py rt) rest = true
   <-> edge_x P rt y < edge_x P nt y).
Proof.
  intros HP Hn Hr Yn Yr D y Hy. rewrite (ael_order_by_turn P nt rt cx rest HP Hn Hr D).
  rewrite (slope_comparison_meaning P nt rt Yn Yr y Hy). apply Z.ltb_lt.
Qed.
