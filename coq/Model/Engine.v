(* Model/Engine.v

   The clipper engine BETWEEN calls, as a state machine (property C12:
   "the result of Execute depends only on the paths that were added, not on the
   history of earlier executions on the same engine object").

   Modelled Go text (/repo):
     clipper_base.go : struct clipperBase, newClipperBase, baseAddPaths, execute,
                       executeInternal, reset, clearSolutionOnly, buildPaths, buildTree
     clipper64.go    : Execute, ExecuteOC, ExecutePolyTree64
     clipperd.go     : Execute, ExecuteOC, ExecutePolyTreeD (same call structure)

   The sweep itself (everything executeInternal does after reset, and what
   buildPaths / buildTree read out of outrecList) is NOT modelled: it is a
   Section variable (an oracle).  What IS modelled is the bookkeeping around it:
   which fields survive from one call to the next, and in which state the sweep
   finds them.

   Standard library only; self-contained. *)

From Coq Require Import List Bool Arith.
Import ListNotations.

Set Implicit Arguments.

Section Engine.

  Variable Paths : Type.                 (* a set of paths as passed to AddPaths *)
  Variable Sol : Type.                   (* a list-of-paths result *)
  Variable Tree : Type.
  Variable empty_sol : Sol.
  Variable empty_tree : Tree.            (* polytree.Clear() *)

  (* one AddPaths call: paths, polytype (Clip?), isOpen *)
  Record add := mkAdd { a_paths : Paths; a_clip : bool; a_open : bool }.

  (* scratch = the per-execution lists of clipperBase, abstracted to their
     lengths / emptiness:
       s_scan          len(scanlineList)
       s_intersect     len(intersectList)
       s_outrec        len(outrecList)
       s_horzseg       len(horzSegList)
       s_horzjoin      len(horzJoinList)
       s_actives_empty actives == nil                                         *)
  Record scratch := mkScratch {
    s_scan : nat; s_intersect : nat; s_outrec : nat;
    s_horzseg : nat; s_horzjoin : nat; s_actives_empty : bool }.

  Definition clean : scratch := mkScratch 0 0 0 0 0 true.

  Definition scratch_is_clean (s : scratch) : bool :=
    match s with
    | mkScratch 0 0 0 0 0 true => true
    | _ => false
    end.

  Lemma scratch_is_clean_spec : forall s, scratch_is_clean s = true <-> s = clean.
  Proof.
    intros [a b c d e f]; unfold clean; split.
    - destruct a, b, c, d, e, f; simpl; intro H; try discriminate H; reflexivity.
    - intro H; inversion H; reflexivity.
  Qed.

  (* The engine object between calls.
       adds       the AddPaths calls so far, in order (minimaList + vertexList are a
                  function of these; sorting the minima is idempotent and is covered
                  by the [sorted] flag)
       using_tree usingPolyTree
       has_open   hasOpenPaths
       sorted     isSortedMinimaList
       succeeded  succeeded
       scr        the scratch lists                                            *)
  Record engine := mkEngine {
    adds : list add; using_tree : bool; has_open : bool;
    sorted : bool; succeeded : bool; scr : scratch }.

  (* ORACLES.
     sweep_out     what a sweep that starts from CLEAN scratch with these added paths
                   produces, as read out by buildPaths: (closed, open).  It may depend
                   on the using_tree flag.
     sweep_dirty   the result when the scratch state is NOT clean on entry is
                   unconstrained (a separate oracle, which also sees the dirty
                   scratch) - which is why the invariant below matters.
     sweep_scratch the scratch state the sweep leaves behind (arbitrary).
     sweep_ok      the value of [succeeded] when the sweep returns (the sweep can set
                   it to false, e.g. in buildIntersectList); it sees the scratch on
                   entry, so it is unconstrained too.
     tree_out      what buildTree reads out after a clean sweep: (tree, open).
     tree_dirty    the same after a sweep that started from dirty scratch.
     n_minima      len(minimaList) as a function of the added paths.
     valid_ct      Intersection..Xor, i.e. not (ct == NoClip || ct > Xor).      *)
  Variable n_minima : list add -> nat.
  Variable sweep_out : list add -> nat -> nat -> bool -> Sol * Sol.
                       (* adds, clip type, fill rule, using_tree *)
  Variable sweep_dirty : scratch -> list add -> nat -> nat -> bool -> Sol * Sol.
  Variable sweep_scratch : list add -> nat -> nat -> bool -> scratch.
  Variable sweep_ok : scratch -> list add -> nat -> nat -> bool -> bool.
  Variable tree_out : list add -> nat -> nat -> Tree * Sol.
  Variable tree_dirty : scratch -> list add -> nat -> nat -> Tree * Sol.
  Variable valid_ct : nat -> bool.

  (* ---- field updates ---------------------------------------------------- *)

  Definition set_scr (e : engine) (s : scratch) : engine :=
    mkEngine (adds e) (using_tree e) (has_open e) (sorted e) (succeeded e) s.
  Definition set_succeeded (e : engine) (b : bool) : engine :=
    mkEngine (adds e) (using_tree e) (has_open e) (sorted e) b (scr e).
  Definition set_sorted (e : engine) (b : bool) : engine :=
    mkEngine (adds e) (using_tree e) (has_open e) b (succeeded e) (scr e).
  Definition set_using_tree (e : engine) (b : bool) : engine :=
    mkEngine (adds e) b (has_open e) (sorted e) (succeeded e) (scr e).

  (* ---- newClipperBase ---------------------------------------------------
     all lists made empty, all flags at their zero value (succeeded = false). *)
  Definition new_engine : engine :=
    mkEngine [] false false false false clean.

  (* ---- baseAddPaths -----------------------------------------------------
       if isOpen { c.hasOpenPaths = true }
       c.isSortedMinimaList = false
       addPathsToVertexList(...)           -- appends to minimaList / vertexList
     The scratch lists are not touched.                                        *)
  Definition add_paths (e : engine) (a : add) : engine :=
    mkEngine (adds e ++ [a]) (using_tree e) (has_open e || a_open a)
             false (succeeded e) (scr e).

  (* ---- reset ------------------------------------------------------------
       if !isSortedMinimaList { sort; isSortedMinimaList = true }
       for each local minimum: scanlineList = append(scanlineList, y)
                                              -- APPENDS, does not clear first
       actives = nil; sel = nil; succeeded = true                              *)
  Definition reset (e : engine) : engine :=
    let s := scr e in
    mkEngine (adds e) (using_tree e) (has_open e) true true
             (mkScratch (s_scan s + n_minima (adds e)) (s_intersect s) (s_outrec s)
                        (s_horzseg s) (s_horzjoin s) true).

  (* ---- the sweep proper (oracle) ------------------------------------------
     [pre] is the scratch state the call found on entry, i.e. BEFORE reset.
     The sweep leaves some arbitrary scratch behind and may clear [succeeded]. *)
  Definition sweep (pre : scratch) (e : engine) (ct fr : nat) : engine :=
    set_succeeded
      (set_scr e (sweep_scratch (adds e) ct fr (using_tree e)))
      (sweep_ok pre (adds e) ct fr (using_tree e)).

  (* what buildPaths will read out of the outrecList this sweep leaves behind *)
  Definition sweep_result (pre : scratch) (e : engine) (ct fr : nat) : Sol * Sol :=
    if scratch_is_clean pre
    then sweep_out (adds e) ct fr (using_tree e)
    else sweep_dirty pre (adds e) ct fr (using_tree e).

  (* ---- executeInternal --------------------------------------------------
       if ct == NoClip || ct > Xor { c.succeeded = true; return }   -- NO reset
       ...; c.reset(); <sweep>
     The second component is what a subsequent buildPaths produces.  In the NoClip
     branch nothing has been swept: buildPaths walks the (clean, see the invariant)
     outrecList and yields two empty solutions.                                *)
  Definition execute_internal (e : engine) (ct fr : nat) : engine * (Sol * Sol) :=
    if valid_ct ct then
      let pre := scr e in
      let e1 := reset e in
      (sweep pre e1 ct fr, sweep_result pre e1 ct fr)
    else
      (set_succeeded e true, (empty_sol, empty_sol)).

  (* ---- clearSolutionOnly ------------------------------------------------
     empties actives, scanlineList, intersectList, outrecList, horzSegList,
     horzJoinList.                                                             *)
  Definition clear_solution_only (e : engine) : engine := set_scr e clean.

  (* ---- buildPaths -------------------------------------------------------
       solutionClosed = solutionClosed[:0]; solutionOpen = solutionOpen[:0]  (through the pointers)
       <append one path per outrec>
     The previous contents of the caller's slices are discarded; the result is what
     the sweep left in outrecList.                                             *)
  Definition build_paths (pending : Sol * Sol) (solC solO : Sol) : Sol * Sol :=
    pending.

  (* ---- clipperBase.execute ------------------------------------------------
       c.executeInternal(ct, fr); c.buildPaths(solC, solO);
       c.clearSolutionOnly(); return c.succeeded                               *)
  Definition execute (e : engine) (ct fr : nat) (solC solO : Sol)
    : engine * (Sol * Sol * bool) :=
    let (e1, pending) := execute_internal e ct fr in
    let out := build_paths pending solC solO in
    let e2 := clear_solution_only e1 in
    (e2, (out, succeeded e2)).

  (* ---- Clipper64.ExecuteOC / ClipperD.ExecuteOC ---------------------------
       solutionClosed = solutionClosed[:0]; solutionOpen = solutionOpen[:0]  (through the pointers)
       success := c.clipperBase.execute(ct, fr, solutionClosed, solutionOpen)
       c.clearSolutionOnly()                       -- a second time
       return success
     (ClipperD additionally rescales the result; if !success it returns the cleared
     caller slices.  Rescaling is a function of the output and is not modelled.)
     The caller's solC, solO are DISCARDED.                                    *)
  Definition execute_oc (e : engine) (ct fr : nat) (solC solO : Sol)
    : engine * (Sol * Sol * bool) :=
    let solC0 := empty_sol in
    let solO0 := empty_sol in
    let (e1, r) := execute e ct fr solC0 solO0 in
    (clear_solution_only e1, r).

  (* ---- buildTree (oracle) ------------------------------------------------- *)
  Definition tree_result (pre : scratch) (e : engine) (ct fr : nat) : Tree * Sol :=
    if valid_ct ct then
      if scratch_is_clean pre then tree_out (adds e) ct fr
      else tree_dirty pre (adds e) ct fr
    else (empty_tree, empty_sol).

  (* ---- Clipper64.ExecutePolyTree64 / ClipperD.ExecutePolyTreeD ------------
       c.usingPolyTree = true                      -- never reset afterwards
       polytree.Clear(); openPaths = openPaths[:0]
       c.clipperBase.executeInternal(ct, fr)
       c.buildTree(polytree, &oPaths)
       c.clearSolutionOnly()
       return c.succeeded                                                      *)
  Definition execute_tree (e : engine) (ct fr : nat) : engine * (Tree * Sol * bool) :=
    let e0 := set_using_tree e true in
    let pre := scr e0 in
    let (e1, _) := execute_internal e0 ct fr in
    let t := tree_result pre e0 ct fr in
    let e2 := clear_solution_only e1 in
    (e2, (t, succeeded e2)).

  (* ---- histories --------------------------------------------------------- *)

  Inductive op :=
  | OAdd (a : add)
  | OExec (ct fr : nat) (solC solO : Sol)
  | OTree (ct fr : nat).

  Definition step (e : engine) (o : op) : engine * option (Sol * Sol) :=
    match o with
    | OAdd a => (add_paths e a, None)
    | OExec ct fr solC solO =>
        let (e', r) := execute_oc e ct fr solC solO in (e', Some (fst r))
    | OTree ct fr => (fst (execute_tree e ct fr), None)
    end.

  Fixpoint run (e : engine) (ops : list op) : engine :=
    match ops with
    | [] => e
    | o :: ops' => run (fst (step e o)) ops'
    end.

  Fixpoint adds_of (ops : list op) : list add :=
    match ops with
    | [] => []
    | OAdd a :: ops' => a :: adds_of ops'
    | _ :: ops' => adds_of ops'
    end.

  Definition is_tree (o : op) : bool :=
    match o with OTree _ _ => true | _ => false end.

  (* projections of an ExecuteOC result *)
  Definition oc_out (r : engine * (Sol * Sol * bool)) : Sol * Sol := fst (snd r).
  Definition oc_ok (r : engine * (Sol * Sol * bool)) : bool := snd (snd r).

  (* ---- what one step does to each field ---------------------------------- *)

  Lemma execute_internal_adds : forall e ct fr,
    adds (fst (execute_internal e ct fr)) = adds e.
  Proof. intros; unfold execute_internal; destruct (valid_ct ct); reflexivity. Qed.

  Lemma execute_internal_using_tree : forall e ct fr,
    using_tree (fst (execute_internal e ct fr)) = using_tree e.
  Proof. intros; unfold execute_internal; destruct (valid_ct ct); reflexivity. Qed.

  Lemma execute_internal_has_open : forall e ct fr,
    has_open (fst (execute_internal e ct fr)) = has_open e.
  Proof. intros; unfold execute_internal; destruct (valid_ct ct); reflexivity. Qed.

  Lemma execute_oc_engine : forall e ct fr solC solO,
    fst (execute_oc e ct fr solC solO)
    = clear_solution_only (clear_solution_only (fst (execute_internal e ct fr))).
  Proof.
    intros; unfold execute_oc, execute.
    destruct (execute_internal e ct fr) as [e1 p]; reflexivity.
  Qed.

  Lemma execute_tree_engine : forall e ct fr,
    fst (execute_tree e ct fr)
    = clear_solution_only (fst (execute_internal (set_using_tree e true) ct fr)).
  Proof.
    intros; unfold execute_tree.
    destruct (execute_internal (set_using_tree e true) ct fr) as [e1 p]; reflexivity.
  Qed.

  Lemma step_exec_engine : forall e ct fr solC solO,
    fst (step e (OExec ct fr solC solO)) = fst (execute_oc e ct fr solC solO).
  Proof.
    intros; simpl. destruct (execute_oc e ct fr solC solO) as [e' r]; reflexivity.
  Qed.

  Lemma step_scr : forall e o, scr e = clean -> scr (fst (step e o)) = clean.
  Proof.
    intros e o H; destruct o as [a | ct fr solC solO | ct fr].
    - simpl; exact H.
    - rewrite step_exec_engine, execute_oc_engine; reflexivity.
    - simpl; rewrite execute_tree_engine; reflexivity.
  Qed.

  Lemma step_adds : forall e o,
    adds (fst (step e o)) = adds e ++ adds_of [o].
  Proof.
    intros e o; destruct o as [a | ct fr solC solO | ct fr].
    - reflexivity.
    - rewrite step_exec_engine, execute_oc_engine; simpl.
      rewrite execute_internal_adds, app_nil_r; reflexivity.
    - simpl; rewrite execute_tree_engine; simpl.
      rewrite execute_internal_adds, app_nil_r; reflexivity.
  Qed.

  Lemma step_has_open : forall e o,
    has_open (fst (step e o)) = has_open e || existsb a_open (adds_of [o]).
  Proof.
    intros e o; destruct o as [a | ct fr solC solO | ct fr].
    - simpl; rewrite orb_false_r; reflexivity.
    - rewrite step_exec_engine, execute_oc_engine; simpl.
      rewrite execute_internal_has_open, orb_false_r; reflexivity.
    - simpl; rewrite execute_tree_engine; simpl.
      rewrite execute_internal_has_open, orb_false_r; reflexivity.
  Qed.

  Lemma step_using_tree : forall e o,
    using_tree (fst (step e o)) = using_tree e || is_tree o.
  Proof.
    intros e o; destruct o as [a | ct fr solC solO | ct fr].
    - simpl; rewrite orb_false_r; reflexivity.
    - rewrite step_exec_engine, execute_oc_engine; simpl.
      rewrite execute_internal_using_tree, orb_false_r; reflexivity.
    - simpl; rewrite execute_tree_engine; simpl.
      rewrite execute_internal_using_tree, orb_true_r; reflexivity.
  Qed.

  (* ---- generalised over the start engine ----------------------------------- *)

  Lemma run_scr : forall ops e, scr e = clean -> scr (run e ops) = clean.
  Proof.
    induction ops as [| o ops IH]; intros e H; simpl.
    - exact H.
    - apply IH, step_scr, H.
  Qed.

  Lemma adds_of_cons : forall o ops, adds_of (o :: ops) = adds_of [o] ++ adds_of ops.
  Proof. intros o ops; destruct o; reflexivity. Qed.

  Lemma run_adds : forall ops e, adds (run e ops) = adds e ++ adds_of ops.
  Proof.
    induction ops as [| o ops IH]; intros e.
    - simpl; rewrite app_nil_r; reflexivity.
    - simpl run; rewrite IH, step_adds, (adds_of_cons o ops), app_assoc; reflexivity.
  Qed.

  Lemma run_has_open : forall ops e,
    has_open (run e ops) = has_open e || existsb a_open (adds_of ops).
  Proof.
    induction ops as [| o ops IH]; intros e.
    - simpl; rewrite orb_false_r; reflexivity.
    - simpl run; rewrite IH, step_has_open, (adds_of_cons o ops), existsb_app, orb_assoc.
      reflexivity.
  Qed.

  Lemma run_using_tree : forall ops e,
    using_tree (run e ops) = using_tree e || existsb is_tree ops.
  Proof.
    induction ops as [| o ops IH]; intros e.
    - simpl; rewrite orb_false_r; reflexivity.
    - simpl run; rewrite IH, step_using_tree; simpl; rewrite orb_assoc; reflexivity.
  Qed.

  (* ---- 1. the scratch state is clean between calls ------------------------- *)

  Theorem scratch_clean_invariant : forall ops, scr (run new_engine ops) = clean.
  Proof. intros ops; apply run_scr; reflexivity. Qed.

  (* ---- 2. the added paths are exactly the AddPaths calls, in order --------- *)

  Theorem adds_of_run : forall ops, adds (run new_engine ops) = adds_of ops.
  Proof. intros ops; rewrite run_adds; reflexivity. Qed.

  Theorem has_open_of_run : forall ops,
    has_open (run new_engine ops) = existsb a_open (adds_of ops).
  Proof. intros ops; rewrite run_has_open; reflexivity. Qed.

  (* ---- 3. usingPolyTree is sticky ------------------------------------------ *)

  Theorem using_tree_of_run : forall ops,
    using_tree (run new_engine ops) = existsb is_tree ops.
  Proof. intros ops; rewrite run_using_tree; reflexivity. Qed.

  (* ---- 4. C12: the output depends on the history only through the adds and
             the tree flag ----------------------------------------------------- *)

  Lemma execute_oc_out_clean : forall e ct fr solC solO,
    valid_ct ct = true -> scr e = clean ->
    oc_out (execute_oc e ct fr solC solO) = sweep_out (adds e) ct fr (using_tree e).
  Proof.
    intros e ct fr solC solO Hv Hc.
    unfold oc_out, execute_oc, execute, execute_internal, build_paths, sweep_result.
    rewrite Hv, Hc; reflexivity.
  Qed.

  Theorem C12_history : forall ops ct fr solC solO,
    valid_ct ct = true ->
    oc_out (execute_oc (run new_engine ops) ct fr solC solO)
    = sweep_out (adds_of ops) ct fr (existsb is_tree ops).
  Proof.
    intros ops ct fr solC solO Hv.
    rewrite execute_oc_out_clean by (assumption || apply scratch_clean_invariant).
    rewrite adds_of_run, using_tree_of_run; reflexivity.
  Qed.

  (* ---- 5. C12 against a fresh engine ---------------------------------------- *)

  Lemma adds_of_map_OAdd : forall l, adds_of (map OAdd l) = l.
  Proof. induction l as [| a l IH]; simpl; [ | rewrite IH ]; reflexivity. Qed.

  Lemma no_tree_in_map_OAdd : forall l, existsb is_tree (map OAdd l) = false.
  Proof. induction l as [| a l IH]; simpl; [ reflexivity | exact IH ]. Qed.

  Theorem C12_fresh_engine :
    forall Hflat : (forall a ct fr b, sweep_out a ct fr b = sweep_out a ct fr false),
    forall ops ct fr solC solO solC' solO',
    valid_ct ct = true ->
    oc_out (execute_oc (run new_engine ops) ct fr solC solO)
    = oc_out (execute_oc (run new_engine (map OAdd (adds_of ops))) ct fr solC' solO').
  Proof.
    intros Hflat ops ct fr solC solO solC' solO' Hv.
    rewrite !C12_history by assumption.
    rewrite adds_of_map_OAdd, no_tree_in_map_OAdd.
    apply Hflat.
  Qed.

  (* ---- 7. NoClip / out-of-range clip types succeed with empty solutions ----- *)

  Lemma execute_oc_noclip : forall e ct fr solC solO,
    valid_ct ct = false ->
    snd (execute_oc e ct fr solC solO) = (empty_sol, empty_sol, true).
  Proof.
    intros e ct fr solC solO Hv.
    unfold execute_oc, execute, execute_internal, build_paths.
    rewrite Hv; reflexivity.
  Qed.

  Theorem noclip_succeeds : forall ops ct fr solC solO,
    valid_ct ct = false ->
    oc_ok (execute_oc (run new_engine ops) ct fr solC solO) = true
    /\ oc_out (execute_oc (run new_engine ops) ct fr solC solO) = (empty_sol, empty_sol).
  Proof.
    intros ops ct fr solC solO Hv.
    unfold oc_ok, oc_out; rewrite execute_oc_noclip by assumption; split; reflexivity.
  Qed.

End Engine.

(* ---- 6. without Hflat the sticky usingPolyTree flag DOES leak history ---------

   A tiny concrete instantiation of the oracles: Paths = Tree = unit, Sol = bool,
   and a "sweep" whose flat output is just the tree flag.  Every other oracle is as
   hostile as the model allows (the sweep leaves dirty scratch behind).  Two
   histories with the same AddPaths calls, one of which contains an earlier
   ExecutePolyTree call, give different ExecuteOC outputs.  By C12_history the
   tree flag is the ONLY channel through which this can happen. *)

Module Refute.

  Definition R_add : add unit := mkAdd tt false false.
  Definition R_dirty : scratch := mkScratch 3 1 2 1 1 false.

  Definition R_sweep_out (_ : list (add unit)) (_ _ : nat) (b : bool) : bool * bool := (b, b).
  Definition R_sweep_dirty (_ : scratch) (_ : list (add unit)) (_ _ : nat) (_ : bool)
    : bool * bool := (false, false).
  Definition R_sweep_scratch (_ : list (add unit)) (_ _ : nat) (_ : bool) : scratch := R_dirty.
  Definition R_sweep_ok (_ : scratch) (_ : list (add unit)) (_ _ : nat) (_ : bool) : bool := true.
  Definition R_tree_out (_ : list (add unit)) (_ _ : nat) : unit * bool := (tt, false).
  Definition R_tree_dirty (_ : scratch) (_ : list (add unit)) (_ _ : nat) : unit * bool := (tt, false).
  Definition R_n_minima (l : list (add unit)) : nat := length l.
  Definition R_valid_ct (ct : nat) : bool := Nat.leb 1 ct && Nat.leb ct 4.

  Definition R_op := op unit bool.

  Definition R_run (ops : list R_op) : engine unit :=
    @run unit bool unit false tt R_n_minima R_sweep_out R_sweep_dirty R_sweep_scratch
         R_sweep_ok R_tree_out R_tree_dirty R_valid_ct (@new_engine unit) ops.

  Definition R_execute_oc (e : engine unit) (ct fr : nat) (solC solO : bool) :=
    @execute_oc unit bool false R_n_minima R_sweep_out R_sweep_dirty R_sweep_scratch
                R_sweep_ok R_valid_ct e ct fr solC solO.

  (* same AddPaths call; the second history ran ExecutePolyTree once before *)
  Definition R_ops1 : list R_op := [OAdd bool R_add].
  Definition R_ops2 : list R_op := [OAdd bool R_add; OTree unit bool 1 0].

End Refute.

Theorem C12_history_refuted_without_Hflat :
  adds_of Refute.R_ops1 = adds_of Refute.R_ops2
  /\ Refute.R_valid_ct 1 = true
  /\ oc_out (Refute.R_execute_oc (Refute.R_run Refute.R_ops1) 1 0 false false)
     <> oc_out (Refute.R_execute_oc (Refute.R_run Refute.R_ops2) 1 0 false false).
Proof.
  split; [ reflexivity | split; [ reflexivity | ] ].
  vm_compute. discriminate.
Qed.

Print Assumptions scratch_clean_invariant.
Print Assumptions C12_history.
Print Assumptions C12_fresh_engine.
Print Assumptions C12_history_refuted_without_Hflat.
