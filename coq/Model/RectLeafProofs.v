(* Model/RectLeafProofs.v — the leaf decisions of the rectangle clipper, as translated from
   /repo/rect_clip.go on every run (Gen/RectLeaf_gen.v), do what the state machines of
   RectClip64 / RectClipLines64 assume of them.  Locations are their integer codes. *)
From Coq Require Import ZArith Bool Lia List String.
From Clip Require Import Gen.RectLeaf_gen.
Import ListNotations.
Open Scope Z_scope.

(* the codes the theorems below speak about (read from the const block of rect_clip.go) *)
Theorem location_codes_are :
  location_codes = [("Bottom"%string, 3); ("Inside"%string, 4); ("Left"%string, 0); ("Right"%string, 2); ("Top"%string, 1)].
Proof. reflexivity. Qed.

Definition LLeft := 0. Definition LTop := 1. Definition LRight := 2. Definition LBottom := 3. Definition LInside := 4.
Definition side (p : Z) : Prop := 0 <= p <= 3.

Ltac zc :=
  rewrite ?Z.gtb_ltb, ?Z.geb_leb in *;
  repeat match goal with
  | |- context [Z.eqb ?a ?b] => destruct (Z.eqb_spec a b)
  | |- context [Z.ltb ?a ?b] => destruct (Z.ltb_spec a b)
  | |- context [Z.leb ?a ?b] => destruct (Z.leb_spec a b)
  end; cbn [andb orb negb fst snd] in *.

Definition on_boundary (l t r b x y : Z) : Prop :=
  ((x = l \/ x = r) /\ t <= y <= b) \/ ((y = t \/ y = b) /\ l <= x <= r).

(* getLocation: (side, false) for a point ON the rectangle's boundary (the side is one that contains
   it); otherwise (where the point is relative to the rectangle, true), x being tested before y *)
Theorem getLocation_spec :
  forall l t r b x y, l <= r -> t <= b ->
    let '(loc, ok) := gen_getLocation b l r t x y in
    0 <= loc <= 4 /\
    (ok = false <-> on_boundary l t r b x y) /\
    (ok = false -> (loc = LLeft /\ x = l) \/ (loc = LRight /\ x = r) \/ (loc = LTop /\ y = t) \/ (loc = LBottom /\ y = b)) /\
    (ok = true ->
       (loc = LInside <-> (l < x < r /\ t < y < b)) /\
       (loc = LLeft <-> x < l) /\ (loc = LRight <-> x > r) /\
       (loc = LTop <-> (l <= x <= r /\ y < t)) /\ (loc = LBottom <-> (l <= x <= r /\ y > b))).
Proof.
  intros l t r b x y Hlr Htb. unfold gen_getLocation, on_boundary, LLeft, LTop, LRight, LBottom, LInside.
  zc; repeat split; intros; try discriminate; try lia.
Qed.

Lemma side_cases p : side p -> p = 0 \/ p = 1 \/ p = 2 \/ p = 3.
Proof. unfold side. lia. Qed.

(* headingClockwise: Left -> Top -> Right -> Bottom -> Left *)
Theorem headingClockwise_spec :
  forall p c, side p -> side c ->
    (gen_headingClockwise p c = true <-> (p = 0 /\ c = 1) \/ (p = 1 /\ c = 2) \/ (p = 2 /\ c = 3) \/ (p = 3 /\ c = 0)).
Proof.
  intros p c Hp Hc.
  destruct (side_cases p Hp) as [->|[->|[->| ->]]], (side_cases c Hc) as [->|[->|[->| ->]]];
  vm_compute; split; intros H; try discriminate; try reflexivity; try lia;
  repeat match goal with H : _ \/ _ |- _ => destruct H end; lia.
Qed.

Theorem getAdjacentLocation_spec :
  forall loc, side loc ->
    side (gen_getAdjacentLocation loc true) /\ side (gen_getAdjacentLocation loc false) /\
    gen_headingClockwise loc (gen_getAdjacentLocation loc true) = true /\
    gen_headingClockwise (gen_getAdjacentLocation loc false) loc = true /\
    gen_getAdjacentLocation (gen_getAdjacentLocation loc true) false = loc /\
    gen_getAdjacentLocation (gen_getAdjacentLocation loc false) true = loc.
Proof.
  intros loc H. destruct (side_cases loc H) as [->|[->|[->| ->]]]; vm_compute; repeat split; try discriminate; try reflexivity.
Qed.

(* areOpposites: Left/Right and Top/Bottom *)
Theorem areOpposites_spec :
  forall p c, side p -> side c ->
    (gen_areOpposites p c = true <-> (p = 0 /\ c = 2) \/ (p = 2 /\ c = 0) \/ (p = 1 /\ c = 3) \/ (p = 3 /\ c = 1)).
Proof.
  intros p c Hp Hc.
  destruct (side_cases p Hp) as [->|[->|[->| ->]]], (side_cases c Hc) as [->|[->|[->| ->]]];
  vm_compute; split; intros H; try discriminate; try reflexivity; try lia;
  repeat match goal with H : _ \/ _ |- _ => destruct H end; lia.
Qed.

(* getEdgesForPt: bit 1 = on the left side's line, 4 = right, 2 = top, 8 = bottom *)
Theorem getEdgesForPt_spec :
  forall l t r b x y, l < r -> t < b ->
    gen_getEdgesForPt x y b l r t =
    (if x =? l then 1 else if x =? r then 4 else 0) + (if y =? t then 2 else if y =? b then 8 else 0).
Proof. intros. unfold gen_getEdgesForPt. zc; lia. Qed.

(* ------------------------------------------------------------------ getNextLocation *)
(* The five decisions of (r *RectClip64) getNextLocation, cut out of the source on every run:
   gen_stay_L   — the condition under which the scan stays in the outside state L,
   gen_next_L   — the state chosen for the first point that left L,
   gen_next_Inside — the state chosen for a point met in state Inside (5 = the point is kept).
   Arguments: pt_X pt_Y rec_bottom rec_left rec_right rec_top. *)

(* a point stays in the outside state L exactly while it lies in the closed half-plane of side L *)
Theorem stay_spec : forall x y b l r t,
  (gen_stay_Left x y b l r t = true <-> x <= l) /\ (gen_stay_Top x y b l r t = true <-> y <= t) /\
  (gen_stay_Right x y b l r t = true <-> x >= r) /\ (gen_stay_Bottom x y b l r t = true <-> y >= b).
Proof.
  intros. unfold gen_stay_Left, gen_stay_Top, gen_stay_Right, gen_stay_Bottom.
  zc; repeat split; intros; try discriminate; try reflexivity; try lia.
Qed.

(* OPPOSITE SIDE FIRST: a point that left L and lies in the closed half-plane of the side opposite to L
   is given that side, whatever its other coordinate (corner zones included) — executeInternal asks
   isClockwise only for opposite sides; an adjacent side would make it assume the shorter way round *)
Theorem next_opposite_first : forall x y b l r t,
  (x >= r -> gen_next_Left x y b l r t = LRight) /\ (y >= b -> gen_next_Top x y b l r t = LBottom) /\
  (x <= l -> gen_next_Right x y b l r t = LLeft) /\ (y <= t -> gen_next_Bottom x y b l r t = LTop).
Proof.
  intros. unfold gen_next_Left, gen_next_Top, gen_next_Right, gen_next_Bottom, LLeft, LTop, LRight, LBottom.
  zc; repeat split; intros; try reflexivity; try lia.
Qed.

(* otherwise: the adjacent side whose closed half-plane contains the point (for a non-empty rectangle at
   most one does once the opposite side is excluded ... the x-sides before the y-sides or vice versa does
   not matter), and Inside exactly when the point is strictly inside *)
Theorem next_adjacent_or_inside : forall x y b l r t, l < r -> t < b ->
  (x > l -> x < r ->
     (gen_next_Left x y b l r t = LTop <-> y <= t) /\ (gen_next_Left x y b l r t = LBottom <-> y >= b) /\
     (gen_next_Left x y b l r t = LInside <-> t < y < b)) /\
  (x < r -> x > l ->
     (gen_next_Right x y b l r t = LTop <-> y <= t) /\ (gen_next_Right x y b l r t = LBottom <-> y >= b) /\
     (gen_next_Right x y b l r t = LInside <-> t < y < b)) /\
  (y > t -> y < b ->
     (gen_next_Top x y b l r t = LLeft <-> x <= l) /\ (gen_next_Top x y b l r t = LRight <-> x >= r) /\
     (gen_next_Top x y b l r t = LInside <-> l < x < r)) /\
  (y < b -> y > t ->
     (gen_next_Bottom x y b l r t = LLeft <-> x <= l) /\ (gen_next_Bottom x y b l r t = LRight <-> x >= r) /\
     (gen_next_Bottom x y b l r t = LInside <-> l < x < r)).
Proof.
  intros x y b l r t Hlr Htb.
  unfold gen_next_Left, gen_next_Top, gen_next_Right, gen_next_Bottom, LLeft, LTop, LRight, LBottom, LInside.
  zc; repeat split; intros; try reflexivity; try discriminate; try lia.
Qed.

(* the state chosen never is the state that was left, and it is a location *)
Theorem next_is_another_location : forall x y b l r t,
  (x > l -> gen_next_Left x y b l r t <> LLeft) /\ (y > t -> gen_next_Top x y b l r t <> LTop) /\
  (x < r -> gen_next_Right x y b l r t <> LRight) /\ (y < b -> gen_next_Bottom x y b l r t <> LBottom) /\
  0 <= gen_next_Left x y b l r t <= 4 /\ 0 <= gen_next_Top x y b l r t <= 4 /\
  0 <= gen_next_Right x y b l r t <= 4 /\ 0 <= gen_next_Bottom x y b l r t <= 4.
Proof.
  intros. unfold gen_next_Left, gen_next_Top, gen_next_Right, gen_next_Bottom, LLeft, LTop, LRight, LBottom.
  zc; repeat split; intros; try discriminate; try lia.
Qed.

(* from Inside: a point of the closed rectangle is kept (5); a point outside goes to a side whose OPEN
   half-plane contains it, the x-sides first *)
Theorem next_Inside_spec : forall x y b l r t, l <= r -> t <= b ->
  (gen_next_Inside x y b l r t = 5 <-> (l <= x <= r /\ t <= y <= b)) /\
  (gen_next_Inside x y b l r t = LLeft <-> x < l) /\ (gen_next_Inside x y b l r t = LRight <-> x > r) /\
  (gen_next_Inside x y b l r t = LBottom <-> (l <= x <= r /\ y > b)) /\
  (gen_next_Inside x y b l r t = LTop <-> (l <= x <= r /\ y < t)).
Proof.
  intros x y b l r t Hlr Htb. unfold gen_next_Inside, LLeft, LTop, LRight, LBottom.
  zc; repeat split; intros; try reflexivity; try discriminate; try lia.
Qed.
