(* Model/RectLeafProofs.v — the leaf decisions of the rectangle clipper, as translated from
   /repo/rect_clip.go on every run (Gen/RectLeaf_gen.v), do what the state machines of
   RectClip64 / RectClipLines64 assume of them.  Locations are their integer codes. *)
From Coq Require Import ZArith Bool Lia List String.
From Clip Require Import Gen.RectLeaf_gen.
Import ListNotations.
Open Scope Z_scope.

(* the codes the theorems below speak about (read from the const block of rect_clip.go) *)
Theorem location_codes_are :
  location_codes = [("Bottom"%string, 3); ("Inside"%string, 4); ("Left"%string, 0); ("Right"%string, 2); ("Top"%string, 1)].
Proof. reflexivity. Qed.

Definition LLeft := 0. Definition LTop := 1. Definition LRight := 2. Definition LBottom := 3. Definition LInside := 4.
Definition side (p : Z) : Prop := 0 <= p <= 3.

Ltac zc :=
  rewrite ?Z.gtb_ltb, ?Z.geb_leb in *;
  repeat match goal with
  | |- context [Z.eqb ?a ?b] => destruct (Z.eqb_spec a b)
  | |- context [Z.ltb ?a ?b] => destruct (Z.ltb_spec a b)
  | |- context [Z.leb ?a ?b] => destruct (Z.leb_spec a b)
  end; cbn [andb orb negb fst snd] in *.

Definition on_boundary (l t r b x y : Z) : Prop :=
  ((x = l \/ x = r) /\ t <= y <= b) \/ ((y = t \/ y = b) /\ l <= x <= r).

(* getLocation: (side, false) for a point ON the rectangle's boundary (the side is one that contains
   it); otherwise (where the point is relative to the rectangle, true), x being tested before y *)
Theorem getLocation_spec :
  forall l t r b x y, l <= r -> t <= b ->
    let '(loc, ok) := gen_getLocation b l r t x y in
    0 <= loc <= 4 /\
    (ok = false <-> on_boundary l t r b x y) /\
    (ok = false -> (loc = LLeft /\ x = l) \/ (loc = LRight /\ x = r) \/ (loc = LTop /\ y = t) \/ (loc = LBottom /\ y = b)) /\
    (ok = true ->
       (loc = LInside <-> (l < x < r /\ t < y < b)) /\
       (loc = LLeft <-> x < l) /\ (loc = LRight <-> x > r) /\
       (loc = LTop <-> (l <= x <= r /\ y < t)) /\ (loc = LBottom <-> (l <= x <= r /\ y > b))).
Proof.
  intros l t r b x y Hlr Htb. unfold gen_getLocation, on_boundary, LLeft, LTop, LRight, LBottom, LInside.
  zc; repeat split; intros; try discriminate; try lia.
Qed.

Lemma side_cases p : side p -> p = 0 \/ p = 1 \/ p = 2 \/ p = 3.
Proof. unfold side. lia. Qed.

(* headingClockwise: Left -> Top -> Right -> Bottom -> Left *)
Theorem headingClockwise_spec :
  forall p c, side p -> side c ->
    (gen_headingClockwise p c = true <-> (p = 0 /\ c = 1) \/ (p = 1 /\ c = 2) \/ (p = 2 /\ c = 3) \/ (p = 3 /\ c = 0)).
Proof.
  intros p c Hp Hc.
  destruct (side_cases p Hp) as [->|[->|[->| ->]]], (side_cases c Hc) as [->|[->|[->| ->]]];
  vm_compute; split; intros H; try discriminate; try reflexivity; try lia;
  repeat match goal with H : _ \/ _ |- _ => destruct H end; lia.
Qed.

Theorem getAdjacentLocation_spec :
  forall loc, side loc ->
    side (gen_getAdjacentLocation loc true) /\ side (gen_getAdjacentLocation loc false) /\
    gen_headingClockwise loc (gen_getAdjacentLocation loc true) = true /\
    gen_headingClockwise (gen_getAdjacentLocation loc false) loc = true /\
    gen_getAdjacentLocation (gen_getAdjacentLocation loc true) false = loc /\
    gen_getAdjacentLocation (gen_getAdjacentLocation loc false) true = loc.
Proof.
  intros loc H. destruct (side_cases loc H) as [->|[->|[->| ->]]]; vm_compute; repeat split; try discriminate; try reflexivity.
Qed.

(* areOpposites: Left/Right and Top/Bottom *)
Theorem areOpposites_spec :
  forall p c, side p -> side c ->
    (gen_areOpposites p c = true <-> (p = 0 /\ c = 2) \/ (p = 2 /\ c = 0) \/ (p = 1 /\ c = 3) \/ (p = 3 /\ c = 1)).
Proof.
  intros p c Hp Hc.
  destruct (side_cases p Hp) as [->|[->|[->| ->]]], (side_cases c Hc) as [->|[->|[->| ->]]];
  vm_compute; split; intros H; try discriminate; try reflexivity; try lia;
  repeat match goal with H : _ \/ _ |- _ => destruct H end; lia.
Qed.

(* getEdgesForPt: bit 1 = on the left side's line, 4 = right, 2 = top, 8 = bottom *)
Theorem getEdgesForPt_spec :
  forall l t r b x y, l < r -> t < b ->
    gen_getEdgesForPt x y b l r t =
    (if x =? l then 1 else if x =? r then 4 else 0) + (if y =? t then 2 else if y =? b then 8 else 0).
Proof. intros. unfold gen_getEdgesForPt. zc; lia. Qed.
