(* Model/Measures.v — faithful executable models of the "measure" functions
   of go-clipper2 and their exact-arithmetic specifications:

     clipper.go           Area64, IsPositive64, GetBounds64, StripDuplicates
     internal_clipper.go  getBounds, PointInPolygon
     core.go              Rect64, NewRect64Invalid (left = top = MaxInt64,
                          right = bottom = MinInt64)

   Definitions and computational sanity checks only; the theorems are in
   Model/MeasuresProofs.v. *)
From Coq Require Import ZArith List Bool.
From Clip Require Import Base.Int64 Model.Arith.
Import ListNotations.
Open Scope Z_scope.

(* ------------------------------------------------------------------ *)
(* 1. Area64 / IsPositive64                                            *)
(* ------------------------------------------------------------------ *)

(* the loop  for _, pt := range path { a += (prevPt.Y + pt.Y) * (prevPt.X - pt.X); prevPt = pt }
   every +, -, * is an int64 operation *)
Fixpoint area2_loop (prev : pt) (l : path) (a : Z) : Z :=
  match l with
  | [] => a
  | p :: tl =>
      area2_loop p tl
        (add64 a (mul64 (add64 (py prev) (py p)) (sub64 (px prev) (px p))))
  end.

(* the int64 accumulator a of Area64 at the end of the loop *)
Definition area2_model (p : path) : Z :=
  if (length p <? 3)%nat then 0 else area2_loop (last p (0, 0)) p 0.

(* Area64 returns the float64 nearest to a/2; halving is exact in binary
   floating point, so twice the Go result is float64(a) = round53 a. *)
Definition Area64_twice (p : path) : Z := round53 (area2_model p).

(* IsPositive64: Area64(poly) >= 0, and a/2 >= 0 iff a >= 0 *)
Definition IsPositive64_model (p : path) : bool := 0 <=? area2_model p.

(* the specification: the same sum over Z, no wrapping *)
Fixpoint shoelace_loop (prev : pt) (l : path) (a : Z) : Z :=
  match l with
  | [] => a
  | p :: tl => shoelace_loop p tl (a + (py prev + py p) * (px prev - px p))
  end.

Definition shoelace2 (p : path) : Z :=
  if (length p <? 3)%nat then 0 else shoelace_loop (last p (0, 0)) p 0.

(* ------------------------------------------------------------------ *)
(* 2. GetBounds64 / getBounds                                          *)
(* ------------------------------------------------------------------ *)

Definition rect : Type := (Z * Z * Z * Z)%type.   (* left, top, right, bottom *)

Definition minint64 : Z := - two63.

(* core.go:NewRect64Invalid(false) *)
Definition rect_invalid : rect := (maxint64, maxint64, minint64, minint64).

(* one iteration of the loop body (four independent ifs) *)
Definition bounds_step (r : rect) (p : pt) : rect :=
  let '(l, t, rr, b) := r in
  (if px p <? l then px p else l,
   if py p <? t then py p else t,
   if px p >? rr then px p else rr,
   if py p >? b then py p else b).

Definition bounds_loop (p : path) : rect := fold_left bounds_step p rect_invalid.

(* clipper.go:GetBounds64 *)
Definition GetBounds64_model (p : path) : rect :=
  let '(l, t, r, b) := bounds_loop p in
  if l =? maxint64 then (0, 0, 0, 0) else (l, t, r, b).

(* internal_clipper.go:getBounds *)
Definition getBounds_model (p : path) : rect :=
  match p with
  | [] => (0, 0, 0, 0)
  | _ => bounds_loop p
  end.

(* specification: exact extremes of a list of integers (0 for the empty list) *)
Definition zmin_list (l : list Z) : Z :=
  match l with [] => 0 | x :: tl => fold_right Z.min x tl end.
Definition zmax_list (l : list Z) : Z :=
  match l with [] => 0 | x :: tl => fold_right Z.max x tl end.
Definition bounds_spec (p : path) : rect :=
  (zmin_list (map px p), zmin_list (map py p),
   zmax_list (map px p), zmax_list (map py p)).

(* ------------------------------------------------------------------ *)
(* 3. StripDuplicates                                                  *)
(* ------------------------------------------------------------------ *)

(* for i := 1; i < cnt; i++ { if lastPt.NEquals(path[i]) { lastPt = path[i]; append } } *)
Fixpoint strip_loop (lastPt : pt) (l : path) : path :=
  match l with
  | [] => []
  | p :: tl =>
      if pt_eqb lastPt p then strip_loop lastPt tl
      else p :: strip_loop p tl
  end.

(* lastPt at the end of the loop is the last element of result *)
Definition StripDuplicates_model (p : path) (isClosed : bool) : path :=
  match p with
  | [] => []
  | a :: tl =>
      let result := a :: strip_loop a tl in
      if isClosed && pt_eqb (last result a) a
      then removelast result          (* removeAtIndex(result, len(result)-1) *)
      else result
  end.

(* ------------------------------------------------------------------ *)
(* 4. PointInPolygon                                                   *)
(* ------------------------------------------------------------------ *)

(* engine.go: IsOn = iota (0), IsInside (1), IsOutside (2) *)
Definition IsOn : Z := 0.
Definition IsInside : Z := 1.
Definition IsOutside : Z := 2.
(* not a Go value: the model returns it when an index would be out of range
   or the fuel of the outer loop runs out; pip_total shows it never does *)
Definition pip_err : Z := 3.

(* for start < lenP && polygon[start].Y == pt.Y { start++ } *)
Fixpoint pip_start (qy : Z) (l : path) : nat :=
  match l with
  | [] => O
  | p :: tl => if py p =? qy then S (pip_start qy tl) else O
  end.

(* for i < end && polygon[i].Y < pt.Y { i++ }   (isAbove)
   for i < end && polygon[i].Y > pt.Y { i++ }   (not isAbove)
   n is end - i; None = index out of range *)
Fixpoint pip_skip (isAbove : bool) (qy : Z) (poly : path) (i n : nat) : option nat :=
  match n with
  | O => Some i
  | S n' =>
      match nth_error poly i with
      | None => None
      | Some c =>
          if (if isAbove then py c <? qy else py c >? qy)
          then pip_skip isAbove qy poly (S i) n'
          else Some i
      end
  end.

(* how the outer  for { }  is left *)
Inductive pip_out : Type :=
| PipBreak (i : nat) (isAbove : bool) (val : Z)   (* break *)
| PipRet (r : Z).                                 (* return r *)

(* the body of the outer  for { }  from the skip loops on; i and e are the
   values of i and end after the  if i == end { ... }  block.  k i e isAbove val
   stands for "go round the outer loop again with these values" (both
   `continue` and falling off the end of the body). *)
Definition pip_body (k : nat -> nat -> bool -> Z -> pip_out)
           (q : pt) (poly : path) (lenP start : nat)
           (i e : nat) (isAbove : bool) (val : Z) : pip_out :=
  match pip_skip isAbove (py q) poly i (e - i) with
  | None => PipRet pip_err
  | Some i2 =>
      (* if i == end { continue } *)
      if Nat.eqb i2 e then k i2 e isAbove val
      else
        (* curr = polygon[i]; prev = polygon[i-1] if i > 0 else polygon[lenP-1] *)
        match nth_error poly i2,
              nth_error poly (if Nat.ltb 0 i2 then i2 - 1 else lenP - 1)%nat with
        | Some curr, Some prev =>
            if py curr =? py q then
              if (px curr =? px q)
                 || ((py curr =? py prev)
                     && negb (Bool.eqb (px q <? px prev) (px q <? px curr)))
              then PipRet IsOn
              else
                (* i++; if i == start { break }; continue *)
                if Nat.eqb (S i2) start then PipBreak (S i2) isAbove val
                else k (S i2) e isAbove val
            else if (px q <? px curr) && (px q <? px prev) then
              (* only interested in edges crossing on the left *)
              k (S i2) e (negb isAbove) val
            else if (px q >? px prev) && (px q >? px curr) then
              k (S i2) e (negb isAbove) (1 - val)
            else
              let d := CrossProduct prev curr q in
              if d =? 0 then PipRet IsOn
              else
                let val' := if Bool.eqb (d <? 0) isAbove then 1 - val else val in
                k (S i2) e (negb isAbove) val'
        | _, _ => PipRet pip_err
        end
  end.

(* the outer  for { }  of PointInPolygon; one unit of fuel per iteration *)
Fixpoint pip_loop (fuel : nat) (q : pt) (poly : path) (lenP start : nat)
         (i e : nat) (isAbove : bool) (val : Z) : pip_out :=
  match fuel with
  | O => PipRet pip_err
  | S fuel' =>
      (* if i == end { if end == 0 || start == 0 { break }; end = start; i = 0 } *)
      let atEnd := Nat.eqb i e in
      if atEnd && (Nat.eqb e 0 || Nat.eqb start 0) then PipBreak i isAbove val
      else
        pip_body (pip_loop fuel' q poly lenP start) q poly lenP start
                 (if atEnd then O else i) (if atEnd then start else e) isAbove val
  end.

(* the code after the outer loop *)
Definition pip_finish (q : pt) (poly : path) (lenP : nat) (startingAbove : bool)
           (i : nat) (isAbove : bool) (val : Z) : Z :=
  if Bool.eqb isAbove startingAbove then
    (if val =? 0 then IsOutside else IsInside)
  else
    let i' := if Nat.eqb i lenP then O else i in
    let ends :=
      if Nat.eqb i' 0 then (nth_error poly (lenP - 1), nth_error poly 0)
      else (nth_error poly (i' - 1), nth_error poly i') in
    match ends with
    | (Some a, Some b) =>
        let d := CrossProduct a b q in
        if d =? 0 then IsOn
        else
          let val' := if Bool.eqb (d <? 0) isAbove then 1 - val else val in
          if val' =? 0 then IsOutside else IsInside
    | _ => pip_err
    end.

Definition pip_fuel (poly : path) : nat := (2 * length poly + 4)%nat.

Definition pip_model (q : pt) (poly : path) : Z :=
  let lenP := length poly in
  if (lenP <? 3)%nat then IsOutside
  else
    let start := pip_start (py q) poly in
    if Nat.eqb start lenP then IsOutside
    else
      match nth_error poly start with
      | None => pip_err
      | Some s =>
          let isAbove := py s <? py q in
          match pip_loop (pip_fuel poly) q poly lenP start (S start) lenP isAbove 0 with
          | PipRet r => r
          | PipBreak i isAbove' val => pip_finish q poly lenP isAbove i isAbove' val
          end
      end.

(* ------------------------------------------------------------------ *)
(* 5. Specification of PointInPolygon: even-odd rule, exact integers   *)
(* ------------------------------------------------------------------ *)

(* closed edge list (prev, curr), prev starting at the last vertex *)
Fixpoint edges_from (prev : pt) (l : path) : list (pt * pt) :=
  match l with
  | [] => []
  | p :: tl => (prev, p) :: edges_from p tl
  end.
Definition closed_edges (p : path) : list (pt * pt) := edges_from (last p (0, 0)) p.

(* (b - a) x (q - a), exact *)
Definition turn (a b q : pt) : Z :=
  (px b - px a) * (py q - py a) - (py b - py a) * (px q - px a).

(* q lies on the closed segment [a,b] *)
Definition on_segment (a b q : pt) : bool :=
  (turn a b q =? 0)
  && (Z.min (px a) (px b) <=? px q) && (px q <=? Z.max (px a) (px b))
  && (Z.min (py a) (py b) <=? py q) && (py q <=? Z.max (py a) (py b)).

(* the left-pointing ray from q crosses the edge a->b, half-open rule
   (Base/Geom.v:cr up to sign): the edge spans q.y and the x-coordinate of
   the edge at height q.y is strictly less than q.x.  For an upward edge
   (a.y <= q.y < b.y) this is turn < 0, for a downward one turn > 0. *)
Definition crosses_left (a b q : pt) : bool :=
  if (py a <=? py q) && (py q <? py b) then turn a b q <? 0
  else if (py b <=? py q) && (py q <? py a) then 0 <? turn a b q
  else false.

Definition pip_spec (q : pt) (poly : path) : Z :=
  let E := closed_edges poly in
  if existsb (fun e => on_segment (fst e) (snd e) q) E then IsOn
  else if Nat.odd (length (filter (fun e => crosses_left (fst e) (snd e) q) E))
       then IsInside else IsOutside.

(* ------------------------------------------------------------------ *)
(* 6. Sanity checks                                                    *)
(* ------------------------------------------------------------------ *)

Definition sq10 : path := [(0, 0); (10, 0); (10, 10); (0, 10)].

Example area2_sq10 : area2_model sq10 = 200.
Proof. vm_compute. reflexivity. Qed.
Example area2_sq10_rev : area2_model (rev sq10) = -200.
Proof. vm_compute. reflexivity. Qed.
Example shoelace2_sq10 : shoelace2 sq10 = 200.
Proof. vm_compute. reflexivity. Qed.
Example area2_short : area2_model [(0, 0); (5, 7)] = 0.
Proof. vm_compute. reflexivity. Qed.
Example area64_twice_sq10 : Area64_twice sq10 = 200.
Proof. vm_compute. reflexivity. Qed.
Example ispositive_sq10 : IsPositive64_model sq10 = true.
Proof. vm_compute. reflexivity. Qed.
Example ispositive_sq10_rev : IsPositive64_model (rev sq10) = false.
Proof. vm_compute. reflexivity. Qed.
(* a term overflows (2^62 + 2^62 wraps to -2^63, times -1 wraps again) but the
   true sum fits, and the wrapped accumulator is still right (area_wrap) *)
Example area2_transient_overflow :
  area2_model [(0, 4611686018427387904); (1, 4611686018427387904); (1, 0)]
  = shoelace2 [(0, 4611686018427387904); (1, 4611686018427387904); (1, 0)].
Proof. vm_compute. reflexivity. Qed.
(* the true sum does not fit: 2 * (2^61 * 2) = 2^63 wraps to -2^63 *)
Example area2_wraps :
  let p := [(0, 0); (2305843009213693952, 0); (2305843009213693952, 2); (0, 2)] in
  shoelace2 p = two63 /\ area2_model p = - two63 /\ IsPositive64_model p = false.
Proof. vm_compute. repeat split; reflexivity. Qed.

Example bounds_sq : GetBounds64_model [(3, -4); (-7, 9); (5, 2)] = (-7, -4, 5, 9).
Proof. vm_compute. reflexivity. Qed.
Example bounds_empty : GetBounds64_model [] = (0, 0, 0, 0).
Proof. vm_compute. reflexivity. Qed.
Example bounds_single : GetBounds64_model [(3, -4)] = (3, -4, 3, -4).
Proof. vm_compute. reflexivity. Qed.
Example getBounds_sq : getBounds_model [(3, -4); (-7, 9); (5, 2)] = (-7, -4, 5, 9).
Proof. vm_compute. reflexivity. Qed.
Example getBounds_empty : getBounds_model [] = (0, 0, 0, 0).
Proof. vm_compute. reflexivity. Qed.
Example bounds_spec_sq : bounds_spec [(3, -4); (-7, 9); (5, 2)] = (-7, -4, 5, 9).
Proof. vm_compute. reflexivity. Qed.
(* the sentinel: a path whose x-coordinates are all MaxInt64 is reported as empty *)
Example bounds_sentinel :
  GetBounds64_model [(maxint64, 1); (maxint64, 2)] = (0, 0, 0, 0)
  /\ getBounds_model [(maxint64, 1); (maxint64, 2)] = (maxint64, 1, maxint64, 2).
Proof. vm_compute. split; reflexivity. Qed.

Example strip_open_ex :
  StripDuplicates_model [(1, 1); (1, 1); (2, 2); (2, 2); (2, 2); (1, 1)] false
  = [(1, 1); (2, 2); (1, 1)].
Proof. vm_compute. reflexivity. Qed.
Example strip_closed_ex :
  StripDuplicates_model [(1, 1); (1, 1); (2, 2); (2, 2); (2, 2); (1, 1)] true
  = [(1, 1); (2, 2)].
Proof. vm_compute. reflexivity. Qed.
Example strip_closed_all_equal :
  StripDuplicates_model [(1, 1); (1, 1); (1, 1)] true = [].
Proof. vm_compute. reflexivity. Qed.
Example strip_open_all_equal :
  StripDuplicates_model [(1, 1); (1, 1); (1, 1)] false = [(1, 1)].
Proof. vm_compute. reflexivity. Qed.

Example pip_inside : pip_model (5, 5) sq10 = IsInside /\ pip_spec (5, 5) sq10 = IsInside.
Proof. vm_compute. split; reflexivity. Qed.
Example pip_outside : pip_model (15, 5) sq10 = IsOutside /\ pip_spec (15, 5) sq10 = IsOutside.
Proof. vm_compute. split; reflexivity. Qed.
Example pip_outside_left : pip_model (-5, 5) sq10 = IsOutside /\ pip_spec (-5, 5) sq10 = IsOutside.
Proof. vm_compute. split; reflexivity. Qed.
Example pip_on_edge : pip_model (10, 5) sq10 = IsOn /\ pip_spec (10, 5) sq10 = IsOn.
Proof. vm_compute. split; reflexivity. Qed.
Example pip_on_horizontal_edge : pip_model (5, 0) sq10 = IsOn /\ pip_spec (5, 0) sq10 = IsOn.
Proof. vm_compute. split; reflexivity. Qed.
Example pip_on_vertex : pip_model (10, 10) sq10 = IsOn /\ pip_spec (10, 10) sq10 = IsOn.
Proof. vm_compute. split; reflexivity. Qed.
Example pip_level_with_vertex_outside :
  pip_model (15, 10) sq10 = IsOutside /\ pip_spec (15, 10) sq10 = IsOutside.
Proof. vm_compute. split; reflexivity. Qed.
Example pip_diamond :
  let d := [(0, 5); (5, 0); (10, 5); (5, 10)] in
  pip_model (5, 5) d = IsInside /\ pip_model (1, 1) d = IsOutside
  /\ pip_model (2, 3) d = IsOn /\ pip_model (9, 5) d = IsInside
  /\ pip_model (11, 5) d = IsOutside /\ pip_model (-1, 5) d = IsOutside.
Proof. vm_compute. repeat split; reflexivity. Qed.
Example pip_short : pip_model (0, 0) [(0, 0); (1, 1)] = IsOutside.
Proof. vm_compute. reflexivity. Qed.
(* a polygon contained in the horizontal line through q: the Go code answers
   IsOutside even when q is on it (start == lenP); the specification says IsOn *)
Example pip_flat :
  pip_model (1, 0) [(0, 0); (2, 0); (1, 0)] = IsOutside
  /\ pip_spec (1, 0) [(0, 0); (2, 0); (1, 0)] = IsOn.
Proof. vm_compute. split; reflexivity. Qed.
