(* Model/DecisionProofs.v — the sweep's contribution rules, as translated from
   /repo/clipper_base.go on every run (Gen/Decisions_gen.v), agree with the specification
   vocabulary of Base/Geom.v (filled, expected) for every fill rule, clip type and wind count.

   Convention of the sweep (setWindCountForClosedPathEdge): a closed edge stores in windCount the
   winding number of its own path set on the side of the edge where that number is farther from
   zero; the other side has windCount - sgn(windCount).  windCount2 is the winding number of the
   OTHER path set (the same on both sides).  Under EvenOdd the counts are kept as parities:
   windCount = +-1, windCount2 in {0, 1}. *)
From Coq Require Import ZArith Bool Lia List.
From Clip Require Import Base.Geom Gen.Decisions_gen Cert.Region Cert.Instances Cert.Line.
Import ListNotations.
Open Scope Z_scope.

Definition counts_ok (fr : fillrule) (wc wc2 : Z) : Prop :=
  wc <> 0 /\ (fr = EvenOdd -> (wc = 1 \/ wc = -1) /\ (wc2 = 0 \/ wc2 = 1)).

(* does the expected region differ across a closed edge of the subject / of the clip ? *)
Definition boundary_of_expected (fr : fillrule) (ct : cliptype) (wc wc2 : Z) (is_subj : bool) : bool :=
  let a := filled fr wc in
  let b := filled fr (wc - Z.sgn wc) in
  let o := filled fr wc2 in
  if is_subj then xorb (expected ct a o) (expected ct b o)
  else xorb (expected ct o a) (expected ct o b).

Ltac zcases :=
  rewrite ?Z.gtb_ltb, ?Z.geb_leb in *;
  repeat match goal with
  | |- context [Z.eqb ?a ?b] => destruct (Z.eqb_spec a b)
  | |- context [Z.ltb ?a ?b] => destruct (Z.ltb_spec a b)
  | |- context [Z.leb ?a ?b] => destruct (Z.leb_spec a b)
  end.

Theorem isContributingClosed_is_boundary :
  forall fr ct wc wc2 is_subj, counts_ok fr wc wc2 ->
    gen_isContributingClosed fr ct wc wc2 is_subj = boundary_of_expected fr ct wc wc2 is_subj.
Proof.
  intros fr ct wc wc2 s [Hnz Heo].
  destruct fr.
  - (* EvenOdd: parities *)
    destruct (Heo eq_refl) as [[Hw|Hw] [Hv|Hv]]; subst wc wc2; destruct ct, s; reflexivity.
  - (* NonZero *) clear Heo.
    unfold gen_isContributingClosed, boundary_of_expected, filled, expected.
    destruct ct, s; cbn [negb xorb andb orb]; zcases; cbn [negb xorb andb orb]; try reflexivity; try lia.
  - (* Positive *) clear Heo.
    unfold gen_isContributingClosed, boundary_of_expected, filled, expected.
    destruct ct, s; cbn [negb xorb andb orb]; zcases; cbn [negb xorb andb orb]; try reflexivity; try lia.
  - (* Negative *) clear Heo.
    unfold gen_isContributingClosed, boundary_of_expected, filled, expected.
    destruct ct, s; cbn [negb xorb andb orb]; zcases; cbn [negb xorb andb orb]; try reflexivity; try lia.
Qed.

(* open subject edges: windCount / windCount2 are the winding numbers of the closed subject and
   clip sets at the edge (parities 0/1 under EvenOdd) *)
Definition open_counts_ok (fr : fillrule) (wc wc2 : Z) : Prop :=
  fr = EvenOdd -> (wc = 0 \/ wc = 1) /\ (wc2 = 0 \/ wc2 = 1).

Theorem isContributingOpen_is_want_open :
  forall fr ct wc wc2 is_subj, ct <> NoClip -> open_counts_ok fr wc wc2 ->
    gen_isContributingOpen fr ct wc wc2 is_subj = want_open ct fr [wc; wc2].
Proof.
  intros fr ct wc wc2 s Hct Heo.
  destruct fr.
  - destruct (Heo eq_refl) as [[Hw|Hw] [Hv|Hv]]; subst wc wc2; destruct ct; try reflexivity; exfalso; apply Hct; reflexivity.
  - clear Heo. unfold gen_isContributingOpen, want_open, filled. cbn [nth0 nth].
    destruct ct; try (exfalso; apply Hct; reflexivity); zcases; cbn [negb andb]; try reflexivity; try lia.
  - clear Heo. unfold gen_isContributingOpen, want_open, filled. cbn [nth0 nth].
    destruct ct; try (exfalso; apply Hct; reflexivity); zcases; cbn [negb andb]; try reflexivity; try lia.
  - clear Heo. unfold gen_isContributingOpen, want_open, filled. cbn [nth0 nth].
    destruct ct; try (exfalso; apply Hct; reflexivity); zcases; cbn [negb andb]; try reflexivity; try lia.
Qed.
