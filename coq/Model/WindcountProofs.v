(* Model/WindcountProofs.v — the wind-count arithmetic of the sweep, as translated from
   /repo/clipper_base.go on every run (Gen/Windcount_gen.v), maintains the encoding that the
   contribution rule (Model/DecisionProofs.v) relies on.

   Encoding.  An edge of direction dx (= windDx, +1 or -1) separates a region of winding number L
   on its left from R = L + dx on its right (winding of the edge's OWN path set).  The sweep stores
   in windCount whichever of L, R is farther from zero (never 0).  Decoding: *)
From Coq Require Import ZArith Bool Lia.
From Clip Require Import Base.Geom Gen.Windcount_gen.
Open Scope Z_scope.

Definition left_of (w dx : Z) : Z := if w * dx >? 0 then w - dx else w.
Definition right_of (w dx : Z) : Z := if w * dx >? 0 then w else w + dx.
Definition unit (dx : Z) : Prop := dx = 1 \/ dx = -1.
Definition wc_ok (w dx : Z) : Prop := w <> 0 /\ unit dx.

Lemma decode_sides w dx : unit dx -> right_of w dx = left_of w dx + dx.
Proof.
  unfold left_of, right_of. intros [->| ->];
  match goal with |- context [Z.gtb ?a ?b] => destruct (Z.gtb a b) end; lia.
Qed.
(* the stored count is the side farther from zero, the other side is w - sgn w *)
Lemma decode_far w dx : wc_ok w dx ->
  (left_of w dx = w /\ right_of w dx = w - Z.sgn w) \/ (right_of w dx = w /\ left_of w dx = w - Z.sgn w).
Proof.
  unfold left_of, right_of. intros [Hw [->| ->]]; rewrite Z.gtb_ltb;
  match goal with |- context [Z.ltb ?a ?b] => destruct (Z.ltb_spec a b) end; lia.
Qed.

Ltac cmp :=
  rewrite ?Z.gtb_ltb in *;
  repeat match goal with
  | |- context [Z.eqb ?a ?b] => destruct (Z.eqb_spec a b)
  | |- context [Z.ltb ?a ?b] => destruct (Z.ltb_spec a b)
  end.

(* setWindCountForClosedPathEdge (fill rules other than EvenOdd): the new edge e (direction dx),
   inserted immediately to the right of the edge e2 (count w2, direction dx2) of the same path set,
   gets a non-zero count whose left side is e2's right side *)
Theorem windcount_step_correct :
  forall fr w2 dx2 dx, wc_ok w2 dx2 -> unit dx ->
    let r := gen_windcount_step fr w2 dx2 dx false in
    r <> 0 /\ left_of r dx = right_of w2 dx2.
Proof.
  intros fr w2 dx2 dx [Hw Hd2] Hd r. subst r.
  unfold gen_windcount_step, left_of, right_of.
  destruct Hd2 as [-> | ->], Hd as [-> | ->]; cmp; lia.
Qed.

(* intersectEdges, two edges of the SAME path set, fill rules other than EvenOdd.
   Before: A | e1 | B | e2 | C  (e1 immediately left of e2);  after they cross: A | e2 | B' | e1 | C
   with B' = A + dx2.  The updated counts are non-zero and encode exactly those regions. *)
Theorem intersect_same_type_correct :
  forall fr w1 c1 dx1 w2 c2 dx2,
    fr <> EvenOdd -> wc_ok w1 dx1 -> wc_ok w2 dx2 ->
    right_of w1 dx1 = left_of w2 dx2 ->
    let '(w1', w2', c1', c2') := gen_intersect_windcounts fr w1 c1 dx1 w2 c2 dx2 true in
    w1' <> 0 /\ w2' <> 0 /\ c1' = c1 /\ c2' = c2 /\
    left_of w2' dx2 = left_of w1 dx1 /\
    right_of w2' dx2 = left_of w1' dx1 /\
    right_of w1' dx1 = right_of w2 dx2.
Proof.
  intros fr w1 c1 dx1 w2 c2 dx2 Hfr [Hw1 Hd1] [Hw2 Hd2].
  unfold gen_intersect_windcounts, left_of, right_of.
  destruct fr; try (exfalso; apply Hfr; reflexivity);
  destruct Hd1 as [-> | ->], Hd2 as [-> | ->]; intros Hadj;
  repeat (cmp; cbv beta iota in * ); repeat split; lia.
Qed.

(* intersectEdges, edges of DIFFERENT path sets: only the counts of the other set change, by the
   direction of the edge that moved across (parities toggle under EvenOdd) *)
Theorem intersect_other_type_correct :
  forall fr w1 c1 dx1 w2 c2 dx2,
    gen_intersect_windcounts fr w1 c1 dx1 w2 c2 dx2 false =
    match fr with
    | EvenOdd => (w1, w2, if c1 =? 0 then 1 else 0, if c2 =? 0 then 1 else 0)
    | _ => (w1, w2, c1 + dx2, c2 - dx1)
    end.
Proof.
  intros. unfold gen_intersect_windcounts. destruct fr; cbn [negb]; cmp; reflexivity.
Qed.

(* non-vacuity: e2 = (+1, going up) seen from outside, a new edge of the same direction *)
Example windcount_step_example :
  wc_ok 1 1 /\ unit 1 /\ gen_windcount_step NonZero 1 1 1 false = 2 /\ left_of 2 1 = 1 /\ right_of 1 1 = 1.
Proof. repeat split; try discriminate; try (left; reflexivity). Qed.
