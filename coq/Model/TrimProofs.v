(* Model/TrimProofs.v — theorems about the model of TrimCollinear64 (Trim.v).
   Everything is proved for an arbitrary collinearity predicate [col] unless a
   hypothesis on [col] is stated explicitly in the theorem. *)
From Coq Require Import ZArith List Bool Arith Lia.
From Clip Require Import Base.Int64 Model.Arith Model.Trim.
Import ListNotations.
Local Open Scope nat_scope.

(* ------------------------------------------------------------------ *)
(** * Slices: the window path[i..l-1] as a list *)

Definition slice (p : list pt) (i l : nat) : list pt := firstn (l - i) (skipn i p).

Lemma slice_length p i l : l <= length p -> length (slice p i l) = l - i.
Proof. intros H. unfold slice. rewrite firstn_length, skipn_length. lia. Qed.

Lemma slice_nil p i l : l <= i -> slice p i l = [].
Proof. intros H. unfold slice. replace (l - i) with 0 by lia. reflexivity. Qed.

Lemma slice_all p : slice p 0 (length p) = p.
Proof. unfold slice. rewrite Nat.sub_0_r. simpl. apply firstn_all. Qed.

Lemma skipn_cons_at p : forall i, i < length p -> skipn i p = at_ p i :: skipn (S i) p.
Proof.
  induction p as [|a p IH]; intros [|i] H; simpl in *; try lia; try reflexivity.
  rewrite IH by lia. reflexivity.
Qed.

Lemma slice_cons p i l : i < l -> l <= length p ->
  slice p i l = at_ p i :: slice p (S i) l.
Proof.
  intros Hi Hl. unfold slice. rewrite skipn_cons_at by lia.
  replace (l - i) with (S (l - S i)) by lia. reflexivity.
Qed.

Lemma firstn_S_snoc : forall n (xs : list pt), n < length xs ->
  firstn (S n) xs = firstn n xs ++ [nth n xs pt0].
Proof.
  induction n as [|n IH]; intros [|x xs] H; simpl in *; try lia; try reflexivity.
  f_equal. apply IH. lia.
Qed.

Lemma nth_skipn_at : forall i (p : list pt) n, nth n (skipn i p) pt0 = nth (i + n) p pt0.
Proof.
  induction i as [|i IH]; intros [|a p] n; simpl; try reflexivity.
  - destruct n; reflexivity.
  - apply IH.
Qed.

Lemma slice_snoc p i l : i < l -> l <= length p ->
  slice p i l = slice p i (l - 1) ++ [at_ p (l - 1)].
Proof.
  intros Hi Hl. unfold slice.
  replace (l - i) with (S (l - 1 - i)) by lia.
  rewrite firstn_S_snoc by (rewrite skipn_length; lia).
  rewrite nth_skipn_at. unfold at_.
  replace (i + (l - 1 - i)) with (l - 1) by lia. reflexivity.
Qed.

Lemma last_at : forall p : list pt, last p pt0 = at_ p (length p - 1).
Proof.
  induction p as [|a [|b p] IH]; try reflexivity.
  change (last (a :: b :: p) pt0) with (last (b :: p) pt0). rewrite IH.
  unfold at_. simpl. rewrite Nat.sub_0_r. reflexivity.
Qed.

Lemma last_snoc (xs : list pt) y : last (xs ++ [y]) pt0 = y.
Proof. apply last_last. Qed.

(* decomposition of a list with more than 2 elements *)
Lemma decomp_snoc2 : forall t : list pt, 2 <= length t ->
  exists r y' y, t = r ++ [y'; y].
Proof.
  intros t H.
  destruct (exists_last (l := t)) as (t1 & y & ->).
  { intros ->. simpl in H. lia. }
  rewrite app_length in H. simpl in H.
  destruct (exists_last (l := t1)) as (r & y' & ->).
  { intros ->. simpl in H. lia. }
  exists r, y', y. rewrite <- app_assoc. reflexivity.
Qed.

Lemma at_app_snoc2_last (xs : list pt) y' y : at_ (xs ++ [y'; y]) (length xs + 1) = y.
Proof.
  unfold at_. rewrite app_nth2 by lia.
  replace (length xs + 1 - length xs) with 1 by lia. reflexivity.
Qed.

Lemma at_app_snoc2_prev (xs : list pt) y' y : at_ (xs ++ [y'; y]) (length xs) = y'.
Proof.
  unfold at_. rewrite app_nth2 by lia.
  replace (length xs - length xs) with 0 by lia. reflexivity.
Qed.

Lemma firstn_app_snoc2 (xs : list pt) y' y :
  firstn (length xs + 1) (xs ++ [y'; y]) = xs ++ [y'].
Proof.
  rewrite firstn_app. rewrite firstn_all2 by lia.
  replace (length xs + 1 - length xs) with 1 by lia. reflexivity.
Qed.

(* ------------------------------------------------------------------ *)
(** * Subsequences *)

Inductive subseq : list pt -> list pt -> Prop :=
| ss_nil : subseq [] []
| ss_skip a xs ys : subseq xs ys -> subseq xs (a :: ys)
| ss_take a xs ys : subseq xs ys -> subseq (a :: xs) (a :: ys).

Lemma subseq_nil_l : forall ys, subseq [] ys.
Proof. induction ys; constructor; auto. Qed.

Lemma subseq_refl : forall xs, subseq xs xs.
Proof. induction xs; [apply ss_nil | apply ss_take; assumption]. Qed.

Lemma subseq_trans : forall a b c, subseq a b -> subseq b c -> subseq a c.
Proof.
  intros a b c H1 H2. revert a H1.
  induction H2 as [|x ys zs H2 IH|x ys zs H2 IH]; intros a H1.
  - exact H1.
  - apply ss_skip. apply IH. exact H1.
  - inversion H1; subst.
    + apply ss_skip. apply IH. assumption.
    + apply ss_take. apply IH. assumption.
Qed.

Lemma subseq_app : forall a b c d, subseq a b -> subseq c d -> subseq (a ++ c) (b ++ d).
Proof.
  intros a b c d H1 H2. induction H1; simpl.
  - exact H2.
  - apply ss_skip. assumption.
  - apply ss_take. assumption.
Qed.

Lemma subseq_app_l : forall a b, subseq a (a ++ b).
Proof.
  intros a b. rewrite <- (app_nil_r a) at 1.
  apply subseq_app; [apply subseq_refl | apply subseq_nil_l].
Qed.

Lemma subseq_app_r : forall a b, subseq b (a ++ b).
Proof.
  intros a b. change b with ([] ++ b) at 1.
  apply subseq_app; [apply subseq_nil_l | apply subseq_refl].
Qed.

Lemma subseq_rev : forall a b, subseq a b -> subseq (rev a) (rev b).
Proof.
  intros a b H. induction H; simpl.
  - apply ss_nil.
  - rewrite <- (app_nil_r (rev xs)). apply subseq_app; [assumption | apply subseq_nil_l].
  - apply subseq_app; [assumption | apply subseq_refl].
Qed.

Lemma subseq_firstn : forall k (l : list pt), subseq (firstn k l) l.
Proof.
  intros k l. rewrite <- (firstn_skipn k l) at 2. apply subseq_app_l.
Qed.

Lemma subseq_length : forall a b, subseq a b -> length a <= length b.
Proof. intros a b H. induction H; simpl; lia. Qed.

(* ------------------------------------------------------------------ *)
(** * List-level versions of the four loops *)

(* scan loop 1 on the window xs = path[i..l-1], z = path[l-1]:
   drop the head x while there are >= 2 elements and c z x y.
   scan loop 2 is the same function on the reversed window with the
   flipped predicate. *)
Fixpoint drop1 (c : pt -> pt -> pt -> bool) (z : pt) (xs : list pt) : list pt :=
  match xs with
  | x :: ((y :: _) as tl) => if c z x y then drop1 c z tl else xs
  | _ => xs
  end.

Definition flip3 (c : pt -> pt -> pt -> bool) : pt -> pt -> pt -> bool :=
  fun z x y => c y x z.

(* main loop on xs = path[i..l-1] (the final element is not processed) *)
Fixpoint filt (c : pt -> pt -> pt -> bool) (last : pt) (xs : list pt) : pt * list pt :=
  match xs with
  | x :: ((y :: _) as tl) =>
      if c last x y then filt c last tl
      else let '(l', r) := filt c x tl in (l', x :: r)
  | _ => (last, [])
  end.

Lemma drop1_cons2 c z x y t :
  drop1 c z (x :: y :: t) = if c z x y then drop1 c z (y :: t) else x :: y :: t.
Proof. reflexivity. Qed.

Lemma filt_cons2 c last x y t :
  filt c last (x :: y :: t) =
  if c last x y then filt c last (y :: t)
  else let '(l', r) := filt c x (y :: t) in (l', x :: r).
Proof. reflexivity. Qed.

Section Loops.
  Variable col : pt -> pt -> pt -> bool.

  Lemma scan1_spec : forall f p l i, l <= length p -> i <= l -> l - i <= f ->
    i <= scan1 col f p l i /\ scan1 col f p l i <= l /\
    (i < l -> scan1 col f p l i < l) /\
    slice p (scan1 col f p l i) l = drop1 col (at_ p (l - 1)) (slice p i l).
  Proof.
    induction f as [|f IH]; intros p l i Hl Hi Hf.
    - cbn [scan1]. assert (i = l) by lia. subst i.
      rewrite slice_nil by lia. cbn. repeat split; lia.
    - cbn [scan1]. destruct (i + 1 <? l) eqn:E.
      + apply Nat.ltb_lt in E. cbn [andb].
        replace (i + 1) with (S i) by lia.
        rewrite (slice_cons p i l), (slice_cons p (S i) l) by lia.
        rewrite drop1_cons2.
        destruct (col (at_ p (l - 1)) (at_ p i) (at_ p (S i))) eqn:C.
        * destruct (IH p l (S i)) as (A & B & D & F); try lia.
          rewrite F. rewrite (slice_cons p (S i) l) by lia.
          repeat split; try lia.
        * rewrite <- (slice_cons p (S i) l), <- (slice_cons p i l) by lia.
          repeat split; lia.
      + apply Nat.ltb_ge in E. cbn [andb].
        assert (i = l \/ S i = l) as [->| <-] by lia.
        * rewrite slice_nil by lia. cbn. repeat split; lia.
        * rewrite (slice_cons p i (S i)) by lia. rewrite slice_nil by lia.
          cbn. repeat split; lia.
  Qed.

  Lemma rev_slice_2 p i l : i + 1 < l -> l <= length p ->
    rev (slice p i l) = at_ p (l - 1) :: at_ p (l - 2) :: rev (slice p i (l - 2)).
  Proof.
    intros Hi Hl. rewrite (slice_snoc p i l) by lia.
    rewrite (slice_snoc p i (l - 1)) by lia.
    rewrite !rev_app_distr. cbn [rev app].
    replace (l - 1 - 1) with (l - 2) by lia. reflexivity.
  Qed.

  Lemma rev_slice_1 p i l : i < l -> l <= length p ->
    rev (slice p i l) = at_ p (l - 1) :: rev (slice p i (l - 1)).
  Proof.
    intros Hi Hl. rewrite (slice_snoc p i l) by lia.
    rewrite rev_app_distr. reflexivity.
  Qed.

  Lemma scan2_spec : forall f p l i, l <= length p -> i <= l -> l - i <= f ->
    scan2 col f p l i <= l /\ i <= scan2 col f p l i /\
    (i < l -> i < scan2 col f p l i) /\
    rev (slice p i (scan2 col f p l i)) =
      drop1 (flip3 col) (at_ p i) (rev (slice p i l)).
  Proof.
    induction f as [|f IH]; intros p l i Hl Hi Hf.
    - cbn [scan2]. assert (i = l) by lia. subst i.
      rewrite slice_nil by lia. cbn. repeat split; lia.
    - cbn [scan2]. destruct (i + 1 <? l) eqn:E.
      + apply Nat.ltb_lt in E. cbn [andb].
        rewrite (rev_slice_2 p i l) by lia. rewrite drop1_cons2.
        unfold flip3 at 1.
        destruct (col (at_ p (l - 2)) (at_ p (l - 1)) (at_ p i)) eqn:C.
        * destruct (IH p (l - 1) i) as (A & B & D & F); try lia.
          rewrite F. rewrite (rev_slice_1 p i (l - 1)) by lia.
          replace (l - 1 - 1) with (l - 2) by lia.
          repeat split; try lia.
        * repeat split; try lia. apply rev_slice_2; lia.
      + apply Nat.ltb_ge in E. cbn [andb].
        assert (i = l \/ S i = l) as [->| <-] by lia.
        * rewrite slice_nil by lia. cbn. repeat split; lia.
        * rewrite (slice_cons p i (S i)) by lia. rewrite slice_nil by lia.
          cbn. repeat split; lia.
  Qed.

  Lemma mainloop_spec : forall f p l i last res, l <= length p -> l - i <= f ->
    mainloop col f p l i last res =
    (fst (filt col last (slice p i l)), res ++ snd (filt col last (slice p i l))).
  Proof.
    induction f as [|f IH]; intros p l i last res Hl Hf.
    - cbn [mainloop]. rewrite slice_nil by lia. cbn. rewrite app_nil_r. reflexivity.
    - cbn [mainloop]. destruct (i + 1 <? l) eqn:E.
      + apply Nat.ltb_lt in E. replace (i + 1) with (S i) by lia.
        rewrite (slice_cons p i l), (slice_cons p (S i) l) by lia.
        rewrite filt_cons2. rewrite <- (slice_cons p (S i) l) by lia.
        destruct (col last (at_ p i) (at_ p (S i))) eqn:C.
        * apply IH; lia.
        * rewrite IH by lia.
          destruct (filt col (at_ p i) (slice p (S i) l)) as [l' r]. cbn [fst snd].
          rewrite <- app_assoc. reflexivity.
      + apply Nat.ltb_ge in E.
        assert (l <= i \/ S i = l) as [H| <-] by lia.
        * rewrite slice_nil by lia. cbn. rewrite app_nil_r. reflexivity.
        * rewrite (slice_cons p i (S i)) by lia. rewrite slice_nil by lia.
          cbn. rewrite app_nil_r. reflexivity.
  Qed.

  (* invariant principle for the pop loop *)
  Lemma poploop_inv (P : list pt -> Prop) :
    (forall a r y' y, col y y' a = true ->
        P (a :: r ++ [y'; y]) -> P (a :: r ++ [y'])) ->
    forall f res, P res -> P (poploop col f res).
  Proof.
    intros Hstep. induction f as [|f IH]; intros res HP; cbn [poploop]; auto.
    destruct (2 <? length res) eqn:E; cbn [andb]; auto.
    apply Nat.ltb_lt in E.
    destruct res as [|a t]; [simpl in E; lia|].
    destruct (decomp_snoc2 t) as (r & y' & y & ->). { simpl in E. lia. }
    change (a :: r ++ [y'; y]) with ((a :: r) ++ [y'; y]) in *.
    replace (length ((a :: r) ++ [y'; y]) - 1) with (length (a :: r) + 1)
      by (rewrite app_length; simpl; lia).
    replace (length ((a :: r) ++ [y'; y]) - 2) with (length (a :: r))
      by (rewrite app_length; simpl; lia).
    rewrite at_app_snoc2_last, at_app_snoc2_prev, firstn_app_snoc2.
    change (at_ ((a :: r) ++ [y'; y]) 0) with a.
    destruct (col y y' a) eqn:C; auto.
    apply IH. apply (Hstep a r y' y C HP).
  Qed.
End Loops.

(* ------------------------------------------------------------------ *)
(** * List-level form of the whole function, and its equality with [trim] *)

Section TrimL.
  Variable col : pt -> pt -> pt -> bool.

  (* the window path[i..l-1] after the two scan loops *)
  Definition window (p : list pt) (isOpen : bool) : list pt :=
    if isOpen then p
    else
      let w1 := drop1 col (last p pt0) p in
      rev (drop1 (flip3 col) (hd pt0 w1) (rev w1)).

  (* main loop + closing logic on the window a :: rest *)
  Definition closeL (isOpen : bool) (a : pt) (rest : list pt) : list pt :=
    let '(lst, mid) := filt col a rest in
    let z := last rest pt0 in
    if isOpen then (a :: mid) ++ [z]
    else if negb (col lst z a) then (a :: mid) ++ [z]
    else
      let r := poploop col (S (length (a :: mid))) (a :: mid) in
      if length r <? 3 then [] else r.

  Definition trimL (p : list pt) (isOpen : bool) : list pt :=
    let w := window p isOpen in
    if length w <? 3 then
      if negb isOpen || (length p <? 2) || pt_eqb (at_ p 0) (at_ p 1)
      then [] else p
    else
      match w with
      | a :: rest => closeL isOpen a rest
      | [] => []
      end.

  Definition idx_i (p : list pt) (isOpen : bool) : nat :=
    if isOpen then 0 else scan1 col (S (length p)) p (length p) 0.
  Definition idx_l (p : list pt) (isOpen : bool) : nat :=
    if isOpen then length p
    else scan2 col (S (length p)) p (length p) (idx_i p isOpen).

  Lemma window_slice p o :
    idx_i p o <= idx_l p o /\ idx_l p o <= length p /\
    (p <> [] -> idx_i p o < idx_l p o) /\
    window p o = slice p (idx_i p o) (idx_l p o).
  Proof.
    unfold idx_l, idx_i, window. destruct o.
    - rewrite slice_all. repeat split; try lia.
      intros H. destruct p; [congruence | simpl; lia].
    - destruct p as [|a0 p0]; [cbn; repeat split; try lia; congruence|].
      set (p := a0 :: p0) in *.
      assert (Hp : 0 < length p) by (unfold p; simpl; lia).
      destruct (scan1_spec col (S (length p)) p (length p) 0) as (A & B & C & D);
        try lia.
      set (i := scan1 col (S (length p)) p (length p) 0) in *.
      specialize (C Hp).
      destruct (scan2_spec col (S (length p)) p (length p) i) as (A2 & B2 & C2 & D2);
        try lia.
      set (l := scan2 col (S (length p)) p (length p) i) in *.
      specialize (C2 C).
      repeat split; try lia.
      rewrite slice_all in D. rewrite last_at, <- D.
      rewrite (slice_cons p i (length p)) at 1 by lia. cbn [hd].
      rewrite <- D2. rewrite rev_involutive. reflexivity.
  Qed.

  Theorem trim_trimL : forall p o, trim col p o = trimL p o.
  Proof.
    intros p o.
    destruct (window_slice p o) as (Hil & Hl & _ & Hw).
    unfold trim, trimL. fold (idx_i p o). fold (idx_l p o).
    rewrite Hw. set (i := idx_i p o) in *. set (l := idx_l p o) in *.
    rewrite slice_length by lia.
    assert (Hlo : o = true -> l = length p) by (intros ->; reflexivity).
    destruct (l <? i + 3) eqn:E.
    - apply Nat.ltb_lt in E.
      replace (l - i <? 3) with true by (symmetry; apply Nat.ltb_lt; lia).
      destruct o; [rewrite (Hlo eq_refl)|]; reflexivity.
    - apply Nat.ltb_ge in E.
      replace (l - i <? 3) with false by (symmetry; apply Nat.ltb_ge; lia).
      rewrite (slice_cons p i l) by lia. unfold closeL.
      rewrite mainloop_spec by lia. replace (i + 1) with (S i) by lia.
      assert (Hz : last (slice p (S i) l) pt0 = at_ p (l - 1)).
      { rewrite (slice_snoc p (S i) l) by lia. apply last_snoc. }
      rewrite Hz.
      destruct (filt col (at_ p i) (slice p (S i) l)) as [lst mid].
      cbn [fst snd app]. change (at_ (at_ p i :: mid) 0) with (at_ p i).
      reflexivity.
  Qed.
End TrimL.

(* ------------------------------------------------------------------ *)
(** * (a) The model never reads out of range and never runs out of fuel *)

Lemma nth_error_at (p : list pt) i : i < length p -> nth_error p i = Some (at_ p i).
Proof. intros H. unfold at_. apply nth_error_nth'. exact H. Qed.

Lemma getm_at (p : list pt) a b : b <= a -> a - b < length p ->
  getm p a b = Some (at_ p (a - b)).
Proof.
  intros H1 H2. unfold getm.
  replace (b <=? a) with true by (symmetry; apply Nat.leb_le; exact H1).
  apply nth_error_at. exact H2.
Qed.

Section Total.
  Variable col : pt -> pt -> pt -> bool.

  Lemma scan1E_ok : forall f p l i, l <= length p -> i <= l -> l - i < f ->
    scan1E col f p l i = Some (scan1 col f p l i).
  Proof.
    induction f as [|f IH]; intros p l i Hl Hi Hf; [lia|].
    cbn [scan1E scan1]. destruct (i + 1 <? l) eqn:E; [|reflexivity].
    apply Nat.ltb_lt in E. cbn [andb].
    rewrite getm_at, !nth_error_at by lia.
    destruct (col (at_ p (l - 1)) (at_ p i) (at_ p (i + 1))); [|reflexivity].
    apply IH; lia.
  Qed.

  Lemma scan2E_ok : forall f p l i, l <= length p -> i <= l -> l - i < f ->
    scan2E col f p l i = Some (scan2 col f p l i).
  Proof.
    induction f as [|f IH]; intros p l i Hl Hi Hf; [lia|].
    cbn [scan2E scan2]. destruct (i + 1 <? l) eqn:E; [|reflexivity].
    apply Nat.ltb_lt in E. cbn [andb].
    rewrite !getm_at, nth_error_at by lia.
    destruct (col (at_ p (l - 2)) (at_ p (l - 1)) (at_ p i)); [|reflexivity].
    apply IH; lia.
  Qed.

  Lemma mainloopE_ok : forall f p l i last res, l <= length p -> l - i < f ->
    mainloopE col f p l i last res = Some (mainloop col f p l i last res).
  Proof.
    induction f as [|f IH]; intros p l i last res Hl Hf; [lia|].
    cbn [mainloopE mainloop]. destruct (i + 1 <? l) eqn:E; [|reflexivity].
    apply Nat.ltb_lt in E.
    rewrite !nth_error_at by lia.
    destruct (col last (at_ p i) (at_ p (i + 1))); apply IH; lia.
  Qed.

  Lemma poploopE_ok : forall f res, length res < f ->
    poploopE col f res = Some (poploop col f res).
  Proof.
    induction f as [|f IH]; intros res Hf; [lia|].
    cbn [poploopE poploop]. destruct (2 <? length res) eqn:E; [|reflexivity].
    apply Nat.ltb_lt in E. cbn [andb].
    rewrite !getm_at, nth_error_at by lia.
    destruct (col (at_ res (length res - 1)) (at_ res (length res - 2)) (at_ res 0));
      [|reflexivity].
    apply IH. rewrite firstn_length. lia.
  Qed.

  (* The checked variant (nth_error everywhere, signed index subtraction,
     failure on fuel exhaustion) never fails and agrees with the model. *)
  Theorem trim_total : forall p o, trimE col p o = Some (trim col p o).
  Proof.
    intros p o.
    destruct (window_slice col p o) as (Hil & Hl & _ & _).
    assert (Hi0 : idx_i col p o <= length p) by lia.
    unfold trimE, trim.
    assert (H1 : (if o then Some 0 else scan1E col (S (length p)) p (length p) 0)
                 = Some (idx_i col p o)).
    { unfold idx_i. destruct o; [reflexivity|]. apply scan1E_ok; lia. }
    rewrite H1.
    assert (H2 : (if o then Some (length p)
                  else scan2E col (S (length p)) p (length p) (idx_i col p o))
                 = Some (idx_l col p o)).
    { unfold idx_l. destruct o; [reflexivity|]. apply scan2E_ok; lia. }
    rewrite H2. fold (idx_i col p o). fold (idx_l col p o).
    assert (Hlo : o = true -> idx_l col p o = length p /\ idx_i col p o = 0)
      by (intros ->; split; reflexivity).
    set (i := idx_i col p o) in *. set (l := idx_l col p o) in *.
    destruct (l <? i + 3) eqn:E.
    - destruct o; cbn [negb orb]; [|reflexivity].
      destruct (Hlo eq_refl) as [Hl' Hi'].
      destruct (l <? 2) eqn:E2; [reflexivity|].
      apply Nat.ltb_ge in E2. rewrite !nth_error_at by lia.
      destruct (pt_eqb (at_ p 0) (at_ p 1)); reflexivity.
    - apply Nat.ltb_ge in E.
      rewrite nth_error_at by lia. rewrite mainloopE_ok by lia.
      pose proof (mainloop_spec col (S (length p)) p l (i + 1) (at_ p i) [at_ p i]
                                ltac:(lia) ltac:(lia)) as M.
      destruct (mainloop col (S (length p)) p l (i + 1) (at_ p i) [at_ p i])
        as [lst res].
      injection M as _ Hres. cbn [app] in Hres.
      rewrite getm_at by lia.
      destruct o; [reflexivity|].
      assert (H0 : nth_error res 0 = Some (at_ res 0)) by (rewrite Hres; reflexivity).
      rewrite H0.
      destruct (negb (col lst (at_ p (l - 1)) (at_ res 0))); [reflexivity|].
      rewrite poploopE_ok by lia.
      destruct (length (poploop col (S (length res)) res) <? 3); reflexivity.
  Qed.
End Total.

(* ------------------------------------------------------------------ *)
(** * (b) The result is a subsequence of the input (open and closed) *)

Lemma drop1_subseq c z : forall xs, subseq (drop1 c z xs) xs.
Proof.
  induction xs as [|x xs IH]; [apply ss_nil|].
  destruct xs as [|y t]; [apply subseq_refl|].
  rewrite drop1_cons2. destruct (c z x y); [apply ss_skip; exact IH | apply subseq_refl].
Qed.

Lemma filt_subseq c : forall xs lst, xs <> [] ->
  subseq (snd (filt c lst xs) ++ [last xs pt0]) xs.
Proof.
  induction xs as [|x xs IH]; intros lst H; [congruence|].
  destruct xs as [|y t]; [apply subseq_refl|].
  rewrite filt_cons2. change (last (x :: y :: t) pt0) with (last (y :: t) pt0).
  destruct (c lst x y).
  - apply ss_skip. apply IH. discriminate.
  - specialize (IH x ltac:(discriminate)).
    destruct (filt c x (y :: t)) as [l' r]. cbn [snd app] in *.
    apply ss_take. exact IH.
Qed.

Lemma filt_fst c : forall xs lst,
  fst (filt c lst xs) = last (lst :: snd (filt c lst xs)) pt0.
Proof.
  induction xs as [|x xs IH]; intros lst; [reflexivity|].
  destruct xs as [|y t]; [reflexivity|].
  rewrite filt_cons2. destruct (c lst x y); [apply IH|].
  specialize (IH x). destruct (filt c x (y :: t)) as [l' r].
  cbn [fst snd] in *. rewrite IH. reflexivity.
Qed.

Lemma subseq_drop_last (xs : list pt) y' y : subseq (xs ++ [y']) (xs ++ [y'; y]).
Proof.
  apply subseq_app; [apply subseq_refl|]. apply ss_take, ss_skip, ss_nil.
Qed.

Section Props.
  Variable col : pt -> pt -> pt -> bool.

  Lemma window_subseq p o : subseq (window col p o) p.
  Proof.
    unfold window. destruct o; [apply subseq_refl|].
    eapply subseq_trans; [|apply (drop1_subseq col (last p pt0) p)].
    set (w1 := drop1 col (last p pt0) p).
    rewrite <- (rev_involutive w1) at 3.
    apply subseq_rev. apply drop1_subseq.
  Qed.

  Lemma poploop_prefix f res : subseq (poploop col f res) res.
  Proof.
    apply (poploop_inv col (fun r => subseq r res)); [|apply subseq_refl].
    intros a r y' y _ H. eapply subseq_trans; [|exact H].
    apply (subseq_drop_last (a :: r)).
  Qed.

  Lemma closeL_subseq o a rest : rest <> [] -> subseq (closeL col o a rest) (a :: rest).
  Proof.
    intros Hr. unfold closeL.
    pose proof (filt_subseq col rest a Hr) as H.
    destruct (filt col a rest) as [lst mid]. cbn [snd] in H.
    assert (H' : subseq ((a :: mid) ++ [last rest pt0]) (a :: rest))
      by (apply ss_take; exact H).
    destruct o; [exact H'|].
    destruct (negb (col lst (last rest pt0) a)); [exact H'|].
    destruct (length (poploop col (S (length (a :: mid))) (a :: mid)) <? 3);
      [apply subseq_nil_l|].
    eapply subseq_trans; [apply poploop_prefix|].
    eapply subseq_trans; [apply subseq_app_l|exact H'].
  Qed.

  Theorem trim_subseq : forall p o, subseq (trim col p o) p.
  Proof.
    intros p o. rewrite trim_trimL. unfold trimL.
    pose proof (window_subseq p o) as Hw.
    destruct (length (window col p o) <? 3) eqn:E.
    - destruct (negb o || (length p <? 2) || pt_eqb (at_ p 0) (at_ p 1));
        [apply subseq_nil_l | apply subseq_refl].
    - apply Nat.ltb_ge in E.
      destruct (window col p o) as [|a rest]; [apply subseq_nil_l|].
      eapply subseq_trans; [|exact Hw]. apply closeL_subseq.
      intros ->. simpl in E. lia.
  Qed.

  Corollary trim_subseq_open : forall p, subseq (trim col p true) p.
  Proof. intros p. apply trim_subseq. Qed.

  Corollary trim_subseq_closed : forall p, subseq (trim col p false) p.
  Proof. intros p. apply trim_subseq. Qed.

  Corollary trim_length_le : forall p o, length (trim col p o) <= length p.
  Proof. intros p o. apply subseq_length, trim_subseq. Qed.

  (* ---------------------------------------------------------------- *)
  (** * (c) Open paths: exact behaviour at the ends *)

  (* An open result is empty exactly for < 2 points or 2 equal points ... *)
  Theorem trim_open_nil_iff : forall p,
    trim col p true = [] <->
    (length p < 2 \/ (length p = 2 /\ pt_eqb (at_ p 0) (at_ p 1) = true)).
  Proof.
    intros p. rewrite trim_trimL. unfold trimL, window. cbn [negb orb].
    destruct (length p <? 3) eqn:E.
    - apply Nat.ltb_lt in E. destruct (length p <? 2) eqn:E2.
      + apply Nat.ltb_lt in E2. cbn [orb]. split; auto.
      + apply Nat.ltb_ge in E2. cbn [orb].
        destruct (pt_eqb (at_ p 0) (at_ p 1)) eqn:Q.
        * split; [intros _; right; split; [lia|reflexivity] | reflexivity].
        * split.
          -- intros ->. simpl in E2. lia.
          -- intros [H|[_ H]]; [lia|discriminate].
    - apply Nat.ltb_ge in E. destruct p as [|a rest]; [simpl in E; lia|].
      unfold closeL. destruct (filt col a rest) as [lst mid]. cbn [app].
      split; [discriminate|]. simpl in E. intros [H|[H _]]; simpl in H; lia.
  Qed.

  (* ... and otherwise it has >= 2 points and keeps both end points. *)
  Theorem trim_open_ends : forall p, trim col p true <> [] ->
    hd pt0 (trim col p true) = hd pt0 p /\
    last (trim col p true) pt0 = last p pt0 /\
    2 <= length (trim col p true).
  Proof.
    intros p. rewrite trim_trimL. unfold trimL, window. cbn [negb orb].
    destruct (length p <? 3) eqn:E.
    - destruct (length p <? 2) eqn:E2; cbn [orb]; [congruence|].
      apply Nat.ltb_ge in E2.
      destruct (pt_eqb (at_ p 0) (at_ p 1)); [congruence|]. intros _. auto.
    - apply Nat.ltb_ge in E. destruct p as [|a rest]; [simpl in E; lia|].
      intros _. unfold closeL. destruct (filt col a rest) as [lst mid].
      destruct rest as [|b rest']; [simpl in E; lia|].
      split; [reflexivity|]. split.
      + rewrite last_snoc. reflexivity.
      + rewrite app_length. simpl. lia.
  Qed.

  (* open paths with >= 3 points are never emptied and never returned
     unchanged by the early exit: the main loop always runs *)
  Theorem trim_open_long : forall p, 3 <= length p -> trim col p true <> [].
  Proof.
    intros p H E. apply trim_open_nil_iff in E. lia.
  Qed.

  (* ---------------------------------------------------------------- *)
  (** * (d) Size of a non-empty closed result *)

  (* For an arbitrary predicate only 2 can be guaranteed ... *)
  Theorem trim_closed_len2 : forall p, trim col p false <> [] ->
    2 <= length (trim col p false).
  Proof.
    intros p. rewrite trim_trimL. unfold trimL. cbn [negb orb].
    destruct (length (window col p false) <? 3); [congruence|].
    destruct (window col p false) as [|a rest]; [congruence|].
    unfold closeL. destruct (filt col a rest) as [lst mid].
    destruct (negb (col lst (last rest pt0) a)).
    - intros _. rewrite app_length. simpl. lia.
    - destruct (length (poploop col (S (length (a :: mid))) (a :: mid)) <? 3) eqn:E;
        [congruence|].
      apply Nat.ltb_ge in E. intros _. lia.
  Qed.

  (* ... and 3 needs that a spike a -> z -> a counts as collinear (true of
     exact collinearity, FALSE of the Go isCollinear: see
     [trim_small_refuted_isCollinear] below). *)
  Theorem trim_small : (forall a z, col a z a = true) ->
    forall p, trim col p false <> [] -> 3 <= length (trim col p false).
  Proof.
    intros Hspike p. rewrite trim_trimL. unfold trimL. cbn [negb orb].
    destruct (length (window col p false) <? 3); [congruence|].
    destruct (window col p false) as [|a rest]; [congruence|].
    unfold closeL. pose proof (filt_fst col rest a) as Hf.
    destruct (filt col a rest) as [lst mid]. cbn [fst snd] in Hf.
    destruct (negb (col lst (last rest pt0) a)) eqn:C.
    - intros _. rewrite app_length. simpl.
      destruct mid as [|m mid']; [|simpl; lia].
      cbn in Hf. subst lst. rewrite Hspike in C. discriminate.
    - destruct (length (poploop col (S (length (a :: mid))) (a :: mid)) <? 3) eqn:E;
        [congruence|].
      apply Nat.ltb_ge in E. intros _. lia.
  Qed.

  (* ---------------------------------------------------------------- *)
  (** * (e) Every vertex dropped by the main loop was collinear when dropped *)

  Definition drop_ok (p : list pt) (r : drop_rec) : Prop :=
    let '(k, a, b, c) := r in
    col a b c = true /\ b = at_ p k /\ c = at_ p (k + 1).

  Lemma mainloopT_fst : forall f p l i lst res tr,
    fst (mainloopT col f p l i lst res tr) = mainloop col f p l i lst res.
  Proof.
    induction f as [|f IH]; intros p l i lst res tr; [reflexivity|].
    cbn [mainloopT mainloop]. destruct (i + 1 <? l); [|reflexivity].
    destruct (col lst (at_ p i) (at_ p (i + 1))); apply IH.
  Qed.

  Lemma mainloopT_trace : forall f p l i lst res tr,
    Forall (drop_ok p) tr ->
    Forall (drop_ok p) (snd (mainloopT col f p l i lst res tr)).
  Proof.
    induction f as [|f IH]; intros p l i lst res tr H; [exact H|].
    cbn [mainloopT]. destruct (i + 1 <? l); [|exact H].
    destruct (col lst (at_ p i) (at_ p (i + 1))) eqn:C; apply IH; [|exact H].
    apply Forall_app. split; [exact H|].
    constructor; [|constructor]. cbn. auto.
  Qed.

  (* kept + dropped = number of iterations: nothing disappears silently *)
  Lemma mainloopT_count : forall f p l i lst res tr, l - i <= f -> i + 1 <= l ->
    length (snd (fst (mainloopT col f p l i lst res tr))) +
    length (snd (mainloopT col f p l i lst res tr)) =
    length res + length tr + (l - 1 - i).
  Proof.
    induction f as [|f IH]; intros p l i lst res tr Hf Hi.
    - cbn. lia.
    - cbn [mainloopT]. destruct (i + 1 <? l) eqn:E.
      + apply Nat.ltb_lt in E.
        destruct (col lst (at_ p i) (at_ p (i + 1))); rewrite IH by lia;
          rewrite app_length; simpl; lia.
      + apply Nat.ltb_ge in E. cbn. lia.
  Qed.

  Theorem trimT_fst : forall p o, fst (trimT col p o) = trim col p o.
  Proof.
    intros p o. unfold trimT, trim.
    set (i := if o then 0 else scan1 col (S (length p)) p (length p) 0).
    set (l := if o then length p else scan2 col (S (length p)) p (length p) i).
    destruct (l <? i + 3); [reflexivity|].
    pose proof (mainloopT_fst (S (length p)) p l (i + 1) (at_ p i) [at_ p i] []) as H.
    destruct (mainloopT col (S (length p)) p l (i + 1) (at_ p i) [at_ p i] [])
      as [[lst res] tr].
    cbn [fst] in H. rewrite <- H. reflexivity.
  Qed.

  Theorem trim_removed_collinear : forall p o,
    Forall (drop_ok p) (snd (trimT col p o)).
  Proof.
    intros p o. unfold trimT.
    set (i := if o then 0 else scan1 col (S (length p)) p (length p) 0).
    set (l := if o then length p else scan2 col (S (length p)) p (length p) i).
    destruct (l <? i + 3); [constructor|].
    pose proof (mainloopT_trace (S (length p)) p l (i + 1) (at_ p i) [at_ p i] []
                                (Forall_nil _)) as H.
    destruct (mainloopT col (S (length p)) p l (i + 1) (at_ p i) [at_ p i] [])
      as [[lst res] tr].
    exact H.
  Qed.
End Props.

(* ------------------------------------------------------------------ *)
(** * (f) The doubled signed area is preserved on closed paths *)

Local Open Scope Z_scope.

Definition det (a b : pt) : Z := px a * py b - px b * py a.

(* sum over consecutive pairs of an open list *)
Fixpoint osum (l : list pt) : Z :=
  match l with
  | a :: ((b :: _) as t) => det a b + osum t
  | _ => 0
  end.

(* sum over cyclically consecutive pairs: the open sum plus the closing pair *)
Definition shoelace2 (l : list pt) : Z := osum l + det (last l pt0) (hd pt0 l).

Lemma osum_cons2 a b t : osum (a :: b :: t) = det a b + osum (b :: t).
Proof. reflexivity. Qed.

Lemma osum_single a : osum [a] = 0.
Proof. reflexivity. Qed.

Lemma osum_app1 : forall xs a ys, osum (xs ++ a :: ys) = osum (xs ++ [a]) + osum (a :: ys).
Proof.
  induction xs as [|x xs IH]; intros a ys.
  - cbn [app]. rewrite osum_single. lia.
  - destruct xs as [|x' xs'].
    + cbn [app]. rewrite !osum_cons2, osum_single. lia.
    + change ((x :: x' :: xs') ++ a :: ys) with (x :: x' :: (xs' ++ a :: ys)).
      change ((x :: x' :: xs') ++ [a]) with (x :: x' :: (xs' ++ [a])).
      rewrite !osum_cons2.
      change (x' :: xs' ++ a :: ys) with ((x' :: xs') ++ a :: ys).
      change (x' :: xs' ++ [a]) with ((x' :: xs') ++ [a]).
      rewrite IH. lia.
Qed.

Lemma cross_det a b c : cross_exact a b c = det a b + det b c - det a c.
Proof. unfold cross_exact, det. ring. Qed.

Lemma det_antisym a b : det a b = - det b a.
Proof. unfold det. ring. Qed.

Lemma det_self a : det a a = 0.
Proof. unfold det. ring. Qed.

Lemma cross_swap a b c : cross_exact c b a = - cross_exact a b c.
Proof. unfold cross_exact. ring. Qed.

Lemma cross_swap12 a b c : cross_exact b a c = - cross_exact a b c.
Proof. unfold cross_exact. ring. Qed.

(* the definition agrees with "append the first vertex and sum all pairs" *)
Lemma shoelace2_alt : forall l, shoelace2 l = osum (l ++ firstn 1 l).
Proof.
  intros [|h t]; [reflexivity|].
  destruct (exists_last (l := h :: t)) as (xs & z & E); [discriminate|].
  cbn [firstn]. unfold shoelace2. cbn [hd]. rewrite E.
  rewrite last_snoc. rewrite <- app_assoc. cbn [app].
  rewrite (osum_app1 xs z [h]), osum_cons2, osum_single. lia.
Qed.

Lemma shoelace2_small : forall l, (length l < 3)%nat -> shoelace2 l = 0.
Proof.
  intros [|a [|b [|c t]]] H.
  - reflexivity.
  - unfold shoelace2. cbn [last hd]. rewrite osum_single, det_self. reflexivity.
  - unfold shoelace2. cbn [last hd]. rewrite osum_cons2, osum_single, (det_antisym b a). lia.
  - simpl in H. lia.
Qed.

Lemma osum_rev : forall l, osum (rev l) = - osum l.
Proof.
  induction l as [|x l IH]; [reflexivity|].
  destruct l as [|y t]; [reflexivity|].
  change (rev (x :: y :: t)) with (rev (y :: t) ++ [x]).
  rewrite osum_cons2. cbn [rev] in *. rewrite <- app_assoc. cbn [app].
  rewrite osum_app1, IH, osum_cons2, osum_single, (det_antisym y x). lia.
Qed.

Lemma hd_rev : forall l : list pt, hd pt0 (rev l) = last l pt0.
Proof.
  induction l as [|x l _] using rev_ind; [reflexivity|].
  rewrite rev_app_distr, last_snoc. reflexivity.
Qed.

Lemma last_rev : forall l : list pt, last (rev l) pt0 = hd pt0 l.
Proof. intros [|h t]; [reflexivity|]. cbn [rev hd]. apply last_snoc. Qed.

Lemma shoelace2_rev : forall l, shoelace2 (rev l) = - shoelace2 l.
Proof.
  intros l. unfold shoelace2. rewrite osum_rev, hd_rev, last_rev.
  rewrite (det_antisym (hd pt0 l)). lia.
Qed.

Definition col_sound (c : pt -> pt -> pt -> bool) : Prop :=
  forall a b d, c a b d = true -> cross_exact a b d = 0.

Lemma flip3_sound c : col_sound c -> col_sound (flip3 c).
Proof.
  intros H a b d E. unfold flip3 in E. apply H in E.
  rewrite cross_swap. lia.
Qed.

Lemma col_exact_sound : col_sound col_exact.
Proof. intros a b d E. apply Z.eqb_eq. exact E. Qed.

Lemma drop1_shoelace c : col_sound c ->
  forall xs z, last xs pt0 = z -> shoelace2 (drop1 c z xs) = shoelace2 xs.
Proof.
  intros Hc. induction xs as [|x xs IH]; intros z Hz; [reflexivity|].
  destruct xs as [|y t]; [reflexivity|].
  rewrite drop1_cons2. destruct (c z x y) eqn:C; [|reflexivity].
  change (last (x :: y :: t) pt0) with (last (y :: t) pt0) in Hz.
  rewrite (IH z Hz). unfold shoelace2.
  change (last (x :: y :: t) pt0) with (last (y :: t) pt0).
  rewrite Hz. cbn [hd]. rewrite osum_cons2.
  apply Hc in C. rewrite cross_det in C. lia.
Qed.

Lemma filt_osum c : col_sound c -> forall xs lst, xs <> [] ->
  osum (lst :: snd (filt c lst xs) ++ [last xs pt0]) = osum (lst :: xs).
Proof.
  intros Hc. induction xs as [|x xs IH]; intros lst H; [congruence|].
  destruct xs as [|y t]; [reflexivity|].
  rewrite filt_cons2. change (last (x :: y :: t) pt0) with (last (y :: t) pt0).
  destruct (c lst x y) eqn:C.
  - rewrite IH by discriminate. rewrite !osum_cons2.
    apply Hc in C. rewrite cross_det in C. lia.
  - specialize (IH x ltac:(discriminate)).
    destruct (filt c x (y :: t)) as [l' r]. cbn [snd app] in *.
    rewrite (osum_cons2 lst x (r ++ _)), IH, (osum_cons2 lst x (y :: t)). reflexivity.
Qed.

Section Shoelace.
  Variable col : pt -> pt -> pt -> bool.
  Variable Hc : col_sound col.

  Lemma window_shoelace p : shoelace2 (window col p false) = shoelace2 p.
  Proof.
    unfold window. set (w1 := drop1 col (last p pt0) p).
    rewrite shoelace2_rev.
    rewrite (drop1_shoelace (flip3 col) (flip3_sound col Hc)) by apply last_rev.
    rewrite shoelace2_rev. unfold w1.
    rewrite (drop1_shoelace col Hc) by reflexivity. lia.
  Qed.

  Lemma poploop_shoelace f res : shoelace2 (poploop col f res) = shoelace2 res.
  Proof.
    apply (poploop_inv col (fun r => shoelace2 r = shoelace2 res)); [|reflexivity].
    intros a r y' y C H. rewrite <- H. clear H.
    apply Hc in C. rewrite cross_det in C.
    unfold shoelace2. cbn [hd].
    change (a :: r ++ [y'; y]) with ((a :: r) ++ y' :: [y]).
    change (a :: r ++ [y']) with ((a :: r) ++ [y']).
    rewrite (osum_app1 (a :: r) y' [y]), osum_cons2, osum_single.
    rewrite last_snoc.
    replace ((a :: r) ++ [y'; y]) with (((a :: r) ++ [y']) ++ [y])
      by (rewrite <- app_assoc; reflexivity).
    rewrite last_snoc.
    rewrite (det_antisym y y') in C. lia.
  Qed.

  Lemma closeL_shoelace a rest : rest <> [] ->
    shoelace2 (closeL col false a rest) = shoelace2 (a :: rest).
  Proof.
    intros Hr. unfold closeL.
    pose proof (filt_osum col Hc rest a Hr) as H.
    pose proof (filt_fst col rest a) as Hf.
    destruct (filt col a rest) as [lst mid]. cbn [fst snd] in *.
    set (z := last rest pt0) in *.
    assert (Hz : last (a :: rest) pt0 = z).
    { destruct rest; [congruence|reflexivity]. }
    assert (HX : shoelace2 ((a :: mid) ++ [z]) = shoelace2 (a :: rest)).
    { unfold shoelace2. rewrite last_snoc, Hz. cbn [hd app]. rewrite H. reflexivity. }
    destruct (negb (col lst z a)) eqn:C; [exact HX|].
    apply negb_false_iff in C. apply Hc in C. rewrite cross_det in C.
    assert (HY : shoelace2 (a :: mid) = shoelace2 (a :: rest)).
    { rewrite <- HX. unfold shoelace2. rewrite last_snoc, <- Hf. cbn [hd app].
      destruct (exists_last (l := a :: mid)) as (xs & w & E); [discriminate|].
      change (a :: mid ++ [z]) with ((a :: mid) ++ [z]).
      rewrite E in *. rewrite last_snoc in Hf. subst w.
      rewrite <- app_assoc. cbn [app].
      rewrite (osum_app1 xs lst [z]), osum_cons2, osum_single. lia. }
    pose proof (poploop_shoelace (S (length (a :: mid))) (a :: mid)) as HP.
    destruct (length (poploop col (S (length (a :: mid))) (a :: mid)) <? 3)%nat eqn:E.
    - apply Nat.ltb_lt in E. apply shoelace2_small in E.
      rewrite <- HY, <- HP, E. reflexivity.
    - rewrite HP. exact HY.
  Qed.

  (* shoelace2 [] = 0, so this single equation says both: a non-empty result
     has the same doubled area as the input, and an emptied input had area 0 *)
  Theorem trim_shoelace : forall p, shoelace2 (trim col p false) = shoelace2 p.
  Proof.
    intros p. rewrite trim_trimL. unfold trimL. cbn [negb orb].
    rewrite <- (window_shoelace p).
    destruct (length (window col p false) <? 3)%nat eqn:E.
    - apply Nat.ltb_lt in E. rewrite (shoelace2_small _ E). reflexivity.
    - apply Nat.ltb_ge in E.
      destruct (window col p false) as [|a rest]; [reflexivity|].
      apply closeL_shoelace. intros ->. simpl in E. lia.
  Qed.

  Corollary trim_shoelace_nonempty : forall p, trim col p false <> [] ->
    shoelace2 (trim col p false) = shoelace2 p.
  Proof. intros p _. apply trim_shoelace. Qed.

  Corollary trim_shoelace_empty : forall p, trim col p false = [] -> shoelace2 p = 0.
  Proof. intros p E. rewrite <- trim_shoelace, E. reflexivity. Qed.
End Shoelace.

Theorem trim_shoelace_exact : forall p,
  shoelace2 (trim col_exact p false) = shoelace2 p.
Proof. apply trim_shoelace, col_exact_sound. Qed.

Theorem trim_shoelace_exact_empty : forall p,
  trim col_exact p false = [] -> shoelace2 p = 0.
Proof. apply trim_shoelace_empty, col_exact_sound. Qed.

Lemma col_exact_spike : forall a z, col_exact a z a = true.
Proof. intros a z. unfold col_exact, cross_exact. apply Z.eqb_eq. ring. Qed.

Theorem trim_small_exact : forall p, trim col_exact p false <> [] ->
  (3 <= length (trim col_exact p false))%nat.
Proof. apply trim_small, col_exact_spike. Qed.

(* ------------------------------------------------------------------ *)
(** * (g) Idempotence and "no collinear triple in the result" are FALSE *)

Local Open Scope nat_scope.

Fixpoint list_eqb (a b : list pt) : bool :=
  match a, b with
  | [], [] => true
  | x :: a', y :: b' => pt_eqb x y && list_eqb a' b'
  | _, _ => false
  end.

Fixpoint first_some {A B} (f : A -> option B) (l : list A) : option B :=
  match l with
  | [] => None
  | a :: t => match f a with Some b => Some b | None => first_some f t end
  end.

(* depth-first search through all paths over the point set g of length <= n
   (extending acc at the front) for one satisfying [bad] *)
Fixpoint search (g : list pt) (n : nat) (bad : list pt -> bool) (acc : list pt)
  : option (list pt) :=
  if bad acc then Some acc
  else match n with
       | O => None
       | S k => first_some (fun a => search g k bad (a :: acc)) g
       end.

Definition grid3 : list pt :=
  [(0,0);(0,1);(0,2);(1,0);(1,1);(1,2);(2,0);(2,1);(2,2)]%Z.

Definition idem_bad (c : pt -> pt -> pt -> bool) (o : bool) (p : list pt) : bool :=
  let r := trim c p o in negb (list_eqb (trim c r o) r).

(* some three cyclically consecutive vertices of r satisfy c *)
Definition cyc_collinear (c : pt -> pt -> pt -> bool) (r : list pt) : bool :=
  let n := length r in
  existsb (fun k => c (at_ r k) (at_ r ((k + 1) mod n)) (at_ r ((k + 2) mod n)))
          (seq 0 n).

(* Both properties do hold for every closed path with <= 5 vertices on the
   3x3 grid (66430 paths, exhaustive) ... *)
Example trim_idem_exact_upto5 :
  search grid3 5 (idem_bad col_exact false) [] = None.
Proof. vm_compute. reflexivity. Qed.

Example trim_no_collinear_exact_upto5 :
  search grid3 5 (fun p => cyc_collinear col_exact (trim col_exact p false)) [] = None.
Proof. vm_compute. reflexivity. Qed.

(* ... and both fail with 6 vertices.  The main loop compares path[i] with
   path[i+1], but path[i+1] may itself be dropped afterwards: here (10,0) is
   kept because (10,10) follows, then the spike (10,10) and the duplicate
   (10,0) are dropped, and (10,0) ends up between (0,0) and (20,0).
   Cross-checked against the Go function: same two outputs. *)
Definition idem_cex : list pt := [(0,0); (10,0); (10,10); (10,0); (20,0); (20,20)]%Z.

Example trim_idem_refuted :
  trim col_exact idem_cex false = [(0,0); (10,0); (20,0); (20,20)]%Z /\
  trim col_exact (trim col_exact idem_cex false) false = [(0,0); (20,0); (20,20)]%Z.
Proof. vm_compute. auto. Qed.

Example trim_idem_refuted_go :
  TrimCollinear64 idem_cex false = [(0,0); (10,0); (20,0); (20,20)]%Z /\
  TrimCollinear64 (TrimCollinear64 idem_cex false) false = [(0,0); (20,0); (20,20)]%Z.
Proof. vm_compute. auto. Qed.

Theorem trim_not_idempotent :
  exists p, trim col_exact (trim col_exact p false) false <> trim col_exact p false.
Proof. exists idem_cex. vm_compute. discriminate. Qed.

Example trim_no_collinear_refuted :
  cyc_collinear col_exact (trim col_exact idem_cex false) = true /\
  col_exact (0,0)%Z (10,0)%Z (20,0)%Z = true.
Proof. vm_compute. auto. Qed.

(* a 6-vertex counterexample on the 3x3 grid itself *)
Example trim_idem_refuted_grid3 :
  search grid3 6 (idem_bad col_exact false) []
  = Some [(1,0); (0,2); (0,1); (1,0); (0,1); (0,0)]%Z.
Proof. vm_compute. reflexivity. Qed.

(* Open paths: not idempotent either, and the result can contain duplicate
   consecutive points (Go outputs identical). *)
Example trim_open_idem_refuted :
  TrimCollinear64 [(10,0); (10,0); (10,0)]%Z true = [(10,0); (10,0)]%Z /\
  TrimCollinear64 [(10,0); (10,0)]%Z true = [].
Proof. vm_compute. auto. Qed.

Example trim_open_duplicate_kept :
  TrimCollinear64 [(10,0); (0,0); (0,10); (0,0)]%Z true = [(10,0); (0,0); (0,0)]%Z.
Proof. vm_compute. reflexivity. Qed.

(* (d) fails for the Go predicate: triSign(1) = 0 makes
   isCollinear (1,5) (0,0) (1,5) = false, so a closed "polygon" with 2
   vertices is returned (Go output identical: [{1 5} {0 0}]). *)
Example trim_small_refuted_isCollinear :
  TrimCollinear64 [(1,5); (3,15); (0,0)]%Z false = [(1,5); (0,0)]%Z /\
  isCollinear (1,5)%Z (0,0)%Z (1,5)%Z = false.
Proof. vm_compute. auto. Qed.

(* ------------------------------------------------------------------ *)
Print Assumptions trim_trimL.
Print Assumptions trim_total.
Print Assumptions trim_subseq.
Print Assumptions trim_open_nil_iff.
Print Assumptions trim_open_ends.
Print Assumptions trim_closed_len2.
Print Assumptions trim_small.
Print Assumptions trim_small_exact.
Print Assumptions trimT_fst.
Print Assumptions trim_removed_collinear.
Print Assumptions trim_shoelace.
Print Assumptions trim_shoelace_exact.
Print Assumptions trim_not_idempotent.
Print Assumptions trim_small_refuted_isCollinear.
