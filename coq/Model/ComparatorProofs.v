(* Model/ComparatorProofs.v — the three orderings the sweep sorts with, as translated from
   /repo/clipper_base.go on every run (Gen/Comparators_gen.v), are consistent comparators:
   horzSegSort is an antisymmetric, transitive three-way comparison that puts the valid
   segments first, ordered by left X; the intersection order and the local-minima order are
   strict weak orders whose incomparability is equality of the sort key.  An inconsistent
   comparator makes the order produced by sort.Slice / slices.SortFunc depend on how the
   input happened to be arranged (and, for horzSegSort, made joins bridge unrelated rings:
   the defect repaired by /repo 3b375a2, which this file would have rejected). *)
From Coq Require Import ZArith Bool Lia.
From Clip Require Import Gen.Comparators_gen.
Open Scope Z_scope.

Ltac zb :=
  repeat match goal with
  | |- context [Z.eqb ?a ?b] => destruct (Z.eqb_spec a b)
  | |- context [Z.ltb ?a ?b] => destruct (Z.ltb_spec a b)
  | |- context [Z.leb ?a ?b] => destruct (Z.leb_spec a b)
  | H : context [Z.eqb ?a ?b] |- _ => destruct (Z.eqb_spec a b)
  | H : context [Z.ltb ?a ?b] |- _ => destruct (Z.ltb_spec a b)
  | H : context [Z.leb ?a ?b] |- _ => destruct (Z.leb_spec a b)
  end.

Lemma cmpZ_spec a b : (cmpZ a b = -1 /\ a < b) \/ (cmpZ a b = 0 /\ a = b) \/ (cmpZ a b = 1 /\ a > b).
Proof. unfold cmpZ. destruct (Z.compare_spec a b); lia. Qed.

(* shape-independent case analysis: every boolean test on the objects, every integer comparison and every
   three-way comparison is split, whatever the nesting of the conditionals in the generated term *)
Ltac split_tests :=
  unfold cmpZ in *;
  rewrite ?Z.gtb_ltb, ?Z.geb_leb in *;
  repeat match goal with
  | |- context [Z.compare ?a ?b] => destruct (Z.compare_spec a b)
  | |- context [Z.eqb ?a ?b] => destruct (Z.eqb_spec a b)
  | |- context [Z.ltb ?a ?b] => destruct (Z.ltb_spec a b)
  | |- context [Z.leb ?a ?b] => destruct (Z.leb_spec a b)
  | |- context [if ?c then _ else _] => let E := fresh "E" in destruct c eqn:E
  end; cbn [negb andb orb] in *.

Section HorzSegSort.
  Variable obj : Type.
  Variable nil_rightOp nil_self : obj -> bool.
  Variable leftX : obj -> Z.
  Let hss := gen_horzSegSort obj nil_rightOp nil_self leftX.
  Definition hs_valid (a : obj) : Prop := nil_rightOp a = false.

  Theorem horzSegSort_range a b : hss a b = -1 \/ hss a b = 0 \/ hss a b = 1.
  Proof. unfold hss, gen_horzSegSort. split_tests; lia. Qed.

  Theorem horzSegSort_antisym a b :
    nil_self a = false -> nil_self b = false -> hss a b = - hss b a.
  Proof.
    intros Ha Hb. unfold hss, gen_horzSegSort. rewrite ?Ha, ?Hb.
    destruct (nil_rightOp a), (nil_rightOp b); split_tests; try lia; try congruence.
  Qed.

  (* exactly the upstream order: valid segments first, by increasing left X *)
  Theorem horzSegSort_spec a b :
    nil_self a = false -> nil_self b = false ->
    (hss a b < 0 <-> (hs_valid a /\ ~ hs_valid b) \/ (hs_valid a /\ hs_valid b /\ leftX a < leftX b)).
  Proof.
    intros Ha Hb. unfold hss, gen_horzSegSort, hs_valid. rewrite ?Ha, ?Hb.
    destruct (nil_rightOp a) eqn:Ra, (nil_rightOp b) eqn:Rb; split_tests;
    (split; [intro L; try lia; first [ left; split; [reflexivity | discriminate] | right; repeat split; (reflexivity || lia) ]
            | intros [[V N]|[V [V2 L]]]; try discriminate; try lia; try (exfalso; apply N; reflexivity) ]).
  Qed.

  Theorem horzSegSort_trans a b c :
    nil_self a = false -> nil_self b = false -> nil_self c = false ->
    hss a b <= 0 -> hss b c <= 0 -> hss a c <= 0.
  Proof.
    intros Ha Hb Hc. unfold hss, gen_horzSegSort. rewrite ?Ha, ?Hb, ?Hc.
    destruct (nil_rightOp a), (nil_rightOp b), (nil_rightOp c); split_tests; try lia; try congruence.
  Qed.
End HorzSegSort.

Section IntersectLess.
  Variable obj : Type.
  Variable X Y : obj -> Z.
  Let less := gen_intersect_less obj X Y.

  (* by decreasing Y, then increasing X *)
  Theorem intersect_less_spec a b : less a b = true <-> (Y a > Y b \/ (Y a = Y b /\ X a < X b)).
  Proof.
    unfold less, gen_intersect_less. rewrite Z.gtb_ltb.
    destruct (Z.eqb_spec (Y a) (Y b)); cbn.
    - destruct (Z.eqb_spec (X a) (X b)).
      + split; [discriminate | lia].
      + destruct (Z.ltb_spec (X a) (X b)); split; try lia; try discriminate; auto.
    - destruct (Z.ltb_spec (Y b) (Y a)); split; try lia; try discriminate; auto.
  Qed.
  Theorem intersect_less_irrefl a : less a a = false.
  Proof. destruct (less a a) eqn:E; [apply intersect_less_spec in E; lia | reflexivity]. Qed.
  Theorem intersect_less_trans a b c : less a b = true -> less b c = true -> less a c = true.
  Proof. rewrite !intersect_less_spec. lia. Qed.
  Theorem intersect_less_incomparable a b :
    (less a b = false /\ less b a = false) <-> (X a = X b /\ Y a = Y b).
  Proof.
    split.
    - intros [H1 H2].
      assert (N1 : ~ (Y a > Y b \/ (Y a = Y b /\ X a < X b))) by (rewrite <- intersect_less_spec; congruence).
      assert (N2 : ~ (Y b > Y a \/ (Y b = Y a /\ X b < X a))) by (rewrite <- intersect_less_spec; congruence).
      lia.
    - intros [Hx Hy]. split.
      + destruct (less a b) eqn:E; [apply intersect_less_spec in E; lia | reflexivity].
      + destruct (less b a) eqn:E; [apply intersect_less_spec in E; lia | reflexivity].
  Qed.
End IntersectLess.

Section MinimaLess.
  Variable obj : Type.
  Variable Y : obj -> Z.
  Let less := gen_minima_less obj Y.
  Theorem minima_less_spec a b : less a b = true <-> Y a > Y b.
  Proof. unfold less, gen_minima_less. rewrite Z.gtb_ltb. destruct (Z.ltb_spec (Y b) (Y a)); split; try lia; discriminate. Qed.
  Theorem minima_less_irrefl a : less a a = false.
  Proof. destruct (less a a) eqn:E; [apply minima_less_spec in E; lia | reflexivity]. Qed.
  Theorem minima_less_trans a b c : less a b = true -> less b c = true -> less a c = true.
  Proof. rewrite !minima_less_spec. lia. Qed.
  (* incomparability (same Y) is transitive: a strict weak order *)
  Theorem minima_less_incomparable a b : (less a b = false /\ less b a = false) <-> Y a = Y b.
  Proof.
    split.
    - intros [H1 H2].
      assert (N1 : ~ Y a > Y b) by (rewrite <- minima_less_spec; congruence).
      assert (N2 : ~ Y b > Y a) by (rewrite <- minima_less_spec; congruence). lia.
    - intros E. split.
      + destruct (less a b) eqn:E1; [apply minima_less_spec in E1; lia | reflexivity].
      + destruct (less b a) eqn:E1; [apply minima_less_spec in E1; lia | reflexivity].
  Qed.
End MinimaLess.
