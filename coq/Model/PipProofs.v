(* Model/PipProofs.v — PointInPolygon (Model/Measures.v:pip_model, the
   index-walking model of internal_clipper.go:PointInPolygon) equals the exact
   even-odd specification pip_spec for every polygon and query point with
   coordinates of magnitude at most 2^29, provided the polygon has at least
   three vertices and some vertex is not level with the query point.  Both
   provisos are necessary (pip_model_eq_spec_refuted_level / _short) and
   pip_model_eq_spec_iff gives the exact scope of the equality.

   Architecture:
     1. CrossProduct has the sign of turn (from ArithProofs.CrossProduct_sign)
     2. pstep / walk: one iteration of the Go loop as a function of the edge
        (prev, curr); pstep_correct is the geometric core: with
          Inv  : isAbove is the side of the last vertex unless it is level,
                 and a level last vertex differs from q
          corr : the crossing the half-open rule has already counted but the
                 algorithm has not decided yet (came from y > q.y onto the
                 level line left of q)
        the step returns IsOn iff q is on the edge, and otherwise keeps
          val = parity of crosses_left over the edges passed  xor  corr
     3. walk_correct: the same for a list of vertices
     4. spec_rot: pip_spec of pre ++ s :: post read along the rotated list
     5. pip_list / pip_list_eq_spec: the list form equals the specification
     6. skip_walk, sweep1, sweep2, pip_model_eq_list: the index-walking model
        (two sweeps, inner skip loops, fuel) refines the list form
     7. pip_model_eq_spec
     8. refutations without the side conditions; pip_model_eq_spec_iff
     9. non-vacuity examples, a small enumerated cross-check *)
From Coq Require Import ZArith List Bool Lia.
From Clip Require Import Base.Int64 Model.Arith Model.ArithProofs Model.Measures
  Model.MeasuresProofs.
Import ListNotations.
Open Scope Z_scope.

(* ------------------------------------------------------------------ *)
(* 1. CrossProduct has the sign of turn                                *)
(* ------------------------------------------------------------------ *)

Lemma cross_exact_turn : forall a b q, cross_exact a b q = turn a b q.
Proof. intros a b q. unfold cross_exact, turn. ring. Qed.

Lemma CrossProduct_turn_sgn : forall a b q,
  coord_ok two29 a -> coord_ok two29 b -> coord_ok two29 q ->
  Z.sgn (CrossProduct a b q) = Z.sgn (turn a b q).
Proof.
  intros a b q Ha Hb Hq. rewrite CrossProduct_sign by assumption.
  rewrite cross_exact_turn. reflexivity.
Qed.

Lemma sgn_eq_zero_iff x y : Z.sgn x = Z.sgn y -> (x =? 0) = (y =? 0).
Proof. destruct x, y; cbn; intros H; try reflexivity; discriminate. Qed.

Lemma sgn_eq_neg_iff x y : Z.sgn x = Z.sgn y -> (x <? 0) = (y <? 0).
Proof. destruct x, y; cbn; intros H; try reflexivity; discriminate. Qed.

(* ------------------------------------------------------------------ *)
(* 2. One step of the walk, as a function of (prev, curr)              *)
(* ------------------------------------------------------------------ *)

Inductive sres : Type := SOn | SGo (ab : bool) (val : Z).

Definition pstep (q prev c : pt) (ab : bool) (val : Z) : sres :=
  if (if ab then py c <? py q else py c >? py q) then SGo ab val
  else if py c =? py q then
    if (px c =? px q)
       || ((py c =? py prev) && negb (Bool.eqb (px q <? px prev) (px q <? px c)))
    then SOn else SGo ab val
  else if (px q <? px c) && (px q <? px prev) then SGo (negb ab) val
  else if (px q >? px prev) && (px q >? px c) then SGo (negb ab) (1 - val)
  else
    let d := CrossProduct prev c q in
    if d =? 0 then SOn
    else SGo (negb ab) (if Bool.eqb (d <? 0) ab then 1 - val else val).

Fixpoint walk (q prev : pt) (l : path) (ab : bool) (val : Z) : sres :=
  match l with
  | [] => SGo ab val
  | c :: tl =>
      match pstep q prev c ab val with
      | SOn => SOn
      | SGo ab' val' => walk q c tl ab' val'
      end
  end.

Definition b2z (b : bool) : Z := if b then 1 else 0.

Lemma b2z_eqb0 b : (b2z b =? 0) = negb b.
Proof. destruct b; reflexivity. Qed.
Lemma b2z_neg b : 1 - b2z b = b2z (negb b).
Proof. destruct b; reflexivity. Qed.
Lemma if_b2z (c x y : bool) : (if c then b2z x else b2z y) = b2z (if c then x else y).
Proof. destruct c; reflexivity. Qed.

(* the state invariant: isAbove is the side of the last vertex when that vertex
   is not level with q; a level last vertex is not q itself *)
Definition Inv (q v : pt) (ab : bool) : Prop :=
  (py v <> py q -> ab = (py v <? py q)) /\ (py v = py q -> px v <> px q).

(* the pending crossing: the walk came from the side y > q.y onto the level
   line; the half-open rule has already counted that edge if it reached the
   line to the left of q, the algorithm has not decided yet *)
Definition corr (q v : pt) (ab : bool) : bool :=
  (py v =? py q) && negb ab && (px v <? px q).

Definition onseg (q : pt) (e : pt * pt) : bool := on_segment (fst e) (snd e) q.
Definition cleft (q : pt) (e : pt * pt) : bool := crosses_left (fst e) (snd e) q.

Lemma turn_split ax ay cx cy qx qy :
  (cx - ax) * (qy - ay) - (cy - ay) * (qx - ax)
  = (cx - qx) * (qy - ay) + (cy - qy) * (ax - qx).
Proof. ring. Qed.

Ltac zb1 :=
  match goal with
  | |- context [?a <? ?b] => destruct (Z.ltb_spec a b)
  | |- context [?a <=? ?b] => destruct (Z.leb_spec a b)
  | |- context [?a =? ?b] => destruct (Z.eqb_spec a b)
  | |- context [?a >? ?b] => rewrite (Z.gtb_ltb a b)
  end.
Ltac zbl := repeat (zb1; try (exfalso; lia); cbn [andb orb negb xorb Bool.eqb b2z]).

Lemma mul_zero a b : a = 0 \/ b = 0 -> a * b = 0.
Proof. intros [-> | ->]; ring. Qed.

Ltac geo_brute T HT ax ay cx cy qx qy I1 I2 ab val P :=
  clearbody T;
  set (p1 := (cx - qx) * (qy - ay)) in HT; set (p2 := (cy - qy) * (ax - qx)) in HT;
  destruct (Z.lt_trichotomy ay qy) as [Ha|[Ha|Ha]];
  destruct (Z.lt_trichotomy cy qy) as [Hc|[Hc|Hc]];
  destruct (Z.lt_trichotomy ax qx) as [Hax|[Hax|Hax]];
  destruct (Z.lt_trichotomy cx qx) as [Hcx|[Hcx|Hcx]];
  try (exfalso; lia);
  (first [ assert (0 < p1) by (apply Z.mul_pos_pos; lia)
         | assert (0 < p1) by (apply Z.mul_neg_neg; lia)
         | assert (p1 < 0) by (apply Z.mul_pos_neg; lia)
         | assert (p1 < 0) by (apply Z.mul_neg_pos; lia)
         | assert (p1 = 0) by (apply mul_zero; lia) ]);
  (first [ assert (0 < p2) by (apply Z.mul_pos_pos; lia)
         | assert (0 < p2) by (apply Z.mul_neg_neg; lia)
         | assert (p2 < 0) by (apply Z.mul_pos_neg; lia)
         | assert (p2 < 0) by (apply Z.mul_neg_pos; lia)
         | assert (p2 = 0) by (apply mul_zero; lia) ]);
  clearbody p1 p2;
  try (specialize (I2 Ha); clear I1; destruct ab);
  try (specialize (I1 ltac:(lia)); subst ab; clear I2);
  try subst val; cbn [negb xorb andb b2z];
  zbl; cbn; try (exfalso; lia);
  repeat split; try reflexivity; try discriminate; try lia; try (destruct P; reflexivity).

Lemma pstep_correct : forall q prev c ab val P,
  Z.sgn (CrossProduct prev c q) = Z.sgn (turn prev c q) ->
  Inv q prev ab -> val = b2z (xorb P (corr q prev ab)) ->
  match pstep q prev c ab val with
  | SOn => on_segment prev c q = true
  | SGo ab' val' =>
      on_segment prev c q = false /\ Inv q c ab'
      /\ val' = b2z (xorb (xorb P (crosses_left prev c q)) (corr q c ab'))
  end.
Proof.
  intros [qx qy] [ax ay] [cx cy] ab val P Hs [I1 I2] Hval.
  unfold pstep. cbv zeta.
  rewrite (sgn_eq_zero_iff _ _ Hs), (sgn_eq_neg_iff _ _ Hs).
  unfold Inv, corr, on_segment, crosses_left, turn, px, py in *. cbn [fst snd] in *.
  clear Hs.
  set (T := (cx - ax) * (qy - ay) - (cy - ay) * (qx - ax)).
  assert (HT : T = (cx - qx) * (qy - ay) + (cy - qy) * (ax - qx)) by apply turn_split.
  geo_brute T HT ax ay cx cy qx qy I1 I2 ab val P.
Qed.

(* the code after the loop, as a function of the closing edge (a, s) *)
Definition pfinish (q a s : pt) (sa ab : bool) (val : Z) : Z :=
  if Bool.eqb ab sa then (if val =? 0 then IsOutside else IsInside)
  else
    let d := CrossProduct a s q in
    if d =? 0 then IsOn
    else
      let val' := if Bool.eqb (d <? 0) ab then 1 - val else val in
      if val' =? 0 then IsOutside else IsInside.

Lemma pfinish_correct : forall q a s ab val P,
  Z.sgn (CrossProduct a s q) = Z.sgn (turn a s q) ->
  Inv q a ab -> val = b2z (xorb P (corr q a ab)) -> py s <> py q ->
  pfinish q a s (py s <? py q) ab val
  = if on_segment a s q then IsOn
    else if xorb P (crosses_left a s q) then IsInside else IsOutside.
Proof.
  intros [qx qy] [ax ay] [cx cy] ab val P Hs [I1 I2] Hval Hne.
  unfold pfinish. cbv zeta.
  rewrite (sgn_eq_zero_iff _ _ Hs), (sgn_eq_neg_iff _ _ Hs).
  unfold Inv, corr, on_segment, crosses_left, turn, px, py in *. cbn [fst snd] in *.
  clear Hs.
  set (T := (cx - ax) * (qy - ay) - (cy - ay) * (qx - ax)).
  assert (HT : T = (cx - qx) * (qy - ay) + (cy - qy) * (ax - qx)) by apply turn_split.
  subst val. rewrite b2z_neg, if_b2z, !b2z_eqb0.
  geo_brute T HT ax ay cx cy qx qy I1 I2 ab val P.
Qed.

(* ------------------------------------------------------------------ *)
(* 3. The walk over a list of vertices decides the edges it passes     *)
(* ------------------------------------------------------------------ *)

Definition par (q : pt) (E : list (pt * pt)) : bool :=
  Nat.odd (length (filter (cleft q) E)).

Lemma par_nil q : par q [] = false.
Proof. reflexivity. Qed.

Lemma par_cons q e E : par q (e :: E) = xorb (cleft q e) (par q E).
Proof.
  unfold par. cbn [filter]. destruct (cleft q e); cbn [length xorb].
  - rewrite Nat.odd_succ, <- Nat.negb_odd. reflexivity.
  - destruct (Nat.odd _); reflexivity.
Qed.

Lemma par_app q A B : par q (A ++ B) = xorb (par q A) (par q B).
Proof.
  induction A as [|e A IH]; cbn [app].
  - rewrite par_nil. destruct (par q B); reflexivity.
  - rewrite !par_cons, IH. rewrite xorb_assoc. reflexivity.
Qed.

Lemma last_cons {A} (a : A) l d : last (a :: l) d = last l a.
Proof.
  revert a d. induction l as [|b l IH]; intros a d; [reflexivity|].
  change (last (a :: b :: l) d) with (last (b :: l) d). rewrite !IH. reflexivity.
Qed.

Lemma last_In {A} (l : list A) d : In (last l d) (d :: l).
Proof.
  revert d. induction l as [|a l IH]; intros d; [left; reflexivity|].
  rewrite last_cons. right. apply IH.
Qed.

Lemma last_app2 {A} (l1 l2 : list A) d : last (l1 ++ l2) d = last l2 (last l1 d).
Proof.
  revert d. induction l1 as [|a l1 IH]; intros d; [reflexivity|].
  cbn [app]. rewrite !last_cons. apply IH.
Qed.

Lemma edges_from_app p l1 l2 :
  edges_from p (l1 ++ l2) = edges_from p l1 ++ edges_from (last l1 p) l2.
Proof.
  revert p. induction l1 as [|a l1 IH]; intros p; [reflexivity|].
  cbn [app edges_from]. rewrite IH, last_cons. reflexivity.
Qed.

Lemma walk_correct : forall q, coord_ok two29 q -> forall l prev ab val P,
  Forall (coord_ok two29) (prev :: l) ->
  Inv q prev ab -> val = b2z (xorb P (corr q prev ab)) ->
  match walk q prev l ab val with
  | SOn => existsb (onseg q) (edges_from prev l) = true
  | SGo ab' val' =>
      existsb (onseg q) (edges_from prev l) = false
      /\ Inv q (last l prev) ab'
      /\ val' = b2z (xorb (xorb P (par q (edges_from prev l))) (corr q (last l prev) ab'))
  end.
Proof.
  intros q Hq. induction l as [|c tl IH]; intros prev ab val P Hok HI Hval.
  - cbn [walk edges_from existsb last]. split; [reflexivity|]. split; [exact HI|].
    rewrite par_nil, xorb_false_r. exact Hval.
  - pose proof (Forall_inv Hok) as Hprev. pose proof (Forall_inv_tail Hok) as Hrest.
    pose proof (Forall_inv Hrest) as Hc.
    cbn [walk edges_from existsb].
    pose proof (pstep_correct q prev c ab val P
                  (CrossProduct_turn_sgn prev c q Hprev Hc Hq) HI Hval) as Hstep.
    destruct (pstep q prev c ab val) as [|ab1 val1].
    + change (onseg q (prev, c)) with (on_segment prev c q). rewrite Hstep. reflexivity.
    + destruct Hstep as [Hon [HI1 Hval1]].
      specialize (IH c ab1 val1 (xorb P (crosses_left prev c q)) Hrest HI1 Hval1).
      rewrite last_cons, par_cons.
      change (onseg q (prev, c)) with (on_segment prev c q).
      change (cleft q (prev, c)) with (crosses_left prev c q).
      rewrite Hon. cbn [orb].
      destruct (walk q c tl ab1 val1) as [|ab2 val2]; [exact IH|].
      destruct IH as [H1 [H2 H3]]. split; [exact H1|]. split; [exact H2|].
      rewrite H3. rewrite <- xorb_assoc. reflexivity.
Qed.

(* ------------------------------------------------------------------ *)
(* 4. The specification read off a rotated polygon                     *)
(* ------------------------------------------------------------------ *)

Lemma closed_edges_rot pre s post :
  closed_edges (pre ++ s :: post)
  = edges_from (last post s) pre ++ (last pre (last post s), s) :: edges_from s post.
Proof.
  unfold closed_edges.
  replace (last (pre ++ s :: post) (0, 0)) with (last post s)
    by (rewrite last_app2, last_cons; reflexivity).
  rewrite edges_from_app. reflexivity.
Qed.

Lemma walk_edges_rot s pre post :
  edges_from s (post ++ pre) ++ [(last (post ++ pre) s, s)]
  = edges_from s post ++ edges_from (last post s) pre ++ [(last pre (last post s), s)].
Proof. rewrite edges_from_app, last_app2, <- app_assoc. reflexivity. Qed.

Lemma spec_rot q pre s post :
  pip_spec q (pre ++ s :: post)
  = if existsb (onseg q) (edges_from s (post ++ pre))
       || on_segment (last (post ++ pre) s) s q then IsOn
    else if xorb (par q (edges_from s (post ++ pre)))
                 (crosses_left (last (post ++ pre) s) s q)
         then IsInside else IsOutside.
Proof.
  unfold pip_spec. cbv zeta.
  change (fun e : pt * pt => on_segment (fst e) (snd e) q) with (onseg q).
  change (fun e : pt * pt => crosses_left (fst e) (snd e) q) with (cleft q).
  change (Nat.odd (length (filter (cleft q) (closed_edges (pre ++ s :: post)))))
    with (par q (closed_edges (pre ++ s :: post))).
  rewrite closed_edges_rot, edges_from_app, last_app2.
  rewrite !existsb_app, !par_app. cbn [existsb]. rewrite par_cons.
  change (onseg q (last pre (last post s), s)) with (on_segment (last pre (last post s)) s q).
  change (cleft q (last pre (last post s), s)) with (crosses_left (last pre (last post s)) s q).
  destruct (existsb (onseg q) (edges_from (last post s) pre)),
           (existsb (onseg q) (edges_from s post)),
           (on_segment (last pre (last post s)) s q); cbn [orb]; try reflexivity.
  destruct (par q (edges_from (last post s) pre)), (par q (edges_from s post)),
           (crosses_left (last pre (last post s)) s q); reflexivity.
Qed.

(* ------------------------------------------------------------------ *)
(* 5. The list form of the whole function                              *)
(* ------------------------------------------------------------------ *)

Definition pip_list (q s : pt) (R : path) : Z :=
  let sa := py s <? py q in
  match walk q s R sa 0 with
  | SOn => IsOn
  | SGo ab val => pfinish q (last R s) s sa ab val
  end.

Theorem pip_list_eq_spec : forall q pre s post,
  coord_ok two29 q -> path_ok two29 (pre ++ s :: post) -> py s <> py q ->
  pip_list q s (post ++ pre) = pip_spec q (pre ++ s :: post).
Proof.
  intros q pre s post Hq Hok Hs.
  assert (Hs_ok : coord_ok two29 s).
  { unfold path_ok in Hok. rewrite Forall_forall in Hok. apply Hok.
    apply in_or_app. right. left. reflexivity. }
  assert (HR : Forall (coord_ok two29) (s :: post ++ pre)).
  { unfold path_ok in Hok. rewrite Forall_forall in *. intros v [<-|Hv]; [exact Hs_ok|].
    apply Hok. apply in_app_or in Hv. apply in_or_app.
    destruct Hv as [Hv|Hv]; [right; right; exact Hv|left; exact Hv]. }
  assert (HI : Inv q s (py s <? py q)) by (split; [reflexivity|contradiction]).
  assert (Hc : corr q s (py s <? py q) = false).
  { unfold corr. destruct (Z.eqb_spec (py s) (py q)); [contradiction|reflexivity]. }
  pose proof (walk_correct q Hq (post ++ pre) s (py s <? py q) 0 false HR HI
                ltac:(rewrite Hc; reflexivity)) as Hw.
  rewrite spec_rot. unfold pip_list. cbv zeta.
  destruct (walk q s (post ++ pre) (py s <? py q) 0) as [|ab val].
  - rewrite Hw. reflexivity.
  - destruct Hw as [Hex [HI' Hval]]. rewrite Hex. cbn [orb].
    assert (Hl : coord_ok two29 (last (post ++ pre) s)).
    { rewrite Forall_forall in HR. apply HR. apply last_In. }
    rewrite (pfinish_correct q (last (post ++ pre) s) s ab val
               (xorb false (par q (edges_from s (post ++ pre))))
               (CrossProduct_turn_sgn _ _ _ Hl Hs_ok Hq) HI' Hval Hs).
    rewrite xorb_false_l. reflexivity.
Qed.

(* ------------------------------------------------------------------ *)
(* 6. The index-walking model refines the list form                    *)
(* ------------------------------------------------------------------ *)

Lemma skipn_nth_error {A} (l : list A) i c :
  nth_error l i = Some c -> skipn i l = c :: skipn (S i) l.
Proof.
  revert i. induction l as [|a l IH]; intros i H.
  - destruct i; discriminate.
  - destruct i as [|i]; cbn in H.
    + injection H as ->. reflexivity.
    + cbn [skipn]. rewrite (IH i H). reflexivity.
Qed.

Lemma pstep_skip q prev c (ab : bool) val :
  (if ab then py c <? py q else py c >? py q) = true -> pstep q prev c ab val = SGo ab val.
Proof. intros H. unfold pstep. rewrite H. reflexivity. Qed.

(* the inner skip loop is a run of skipping steps of the walk *)
Lemma skip_walk q poly : forall n i prev ab val,
  (0 < i)%nat -> (i + n <= length poly)%nat -> nth_error poly (i - 1) = Some prev ->
  exists i2 prev2,
    pip_skip ab (py q) poly i n = Some i2 /\ (i <= i2 <= i + n)%nat
    /\ nth_error poly (i2 - 1) = Some prev2
    /\ walk q prev (skipn i poly) ab val = walk q prev2 (skipn i2 poly) ab val
    /\ ((i2 < i + n)%nat -> exists c, nth_error poly i2 = Some c
          /\ (if ab then py c <? py q else py c >? py q) = false).
Proof.
  induction n as [|n IH]; intros i prev ab val Hi Hn Hprev; cbn [pip_skip].
  - exists i, prev. split; [reflexivity|]. split; [lia|]. split; [exact Hprev|].
    split; [reflexivity|]. intros; lia.
  - destruct (nth_error_ex poly i ltac:(lia)) as [c Hc]. rewrite Hc.
    destruct (if ab then py c <? py q else py c >? py q) eqn:Ht.
    + destruct (IH (S i) c ab val ltac:(lia) ltac:(lia)) as [i2 [prev2 [E [Hr [Hp [Hw Hlast]]]]]].
      { replace (S i - 1)%nat with i by lia. exact Hc. }
      exists i2, prev2. split; [exact E|]. split; [lia|]. split; [exact Hp|]. split.
      * rewrite (skipn_nth_error poly i c Hc). cbn [walk].
        rewrite (pstep_skip q prev c ab val Ht). exact Hw.
      * intros Hlt. apply Hlast. lia.
    + exists i, prev. split; [reflexivity|]. split; [lia|]. split; [exact Hprev|].
      split; [reflexivity|]. intros _. exists c. split; [exact Hc|exact Ht].
Qed.

(* the loop body at a vertex that is not skipped is one step of the walk *)
Lemma body_tail_eq q (k : nat -> nat -> bool -> Z -> pip_out) i2 e start prev curr (ab : bool) val :
  (if ab then py curr <? py q else py curr >? py q) = false ->
  (if py curr =? py q then
     if (px curr =? px q)
        || ((py curr =? py prev)
            && negb (Bool.eqb (px q <? px prev) (px q <? px curr)))
     then PipRet IsOn
     else
       if Nat.eqb (S i2) start then PipBreak (S i2) ab val
       else k (S i2) e ab val
   else if (px q <? px curr) && (px q <? px prev) then
     k (S i2) e (negb ab) val
   else if (px q >? px prev) && (px q >? px curr) then
     k (S i2) e (negb ab) (1 - val)
   else
     let d := CrossProduct prev curr q in
     if d =? 0 then PipRet IsOn
     else
       let val' := if Bool.eqb (d <? 0) ab then 1 - val else val in
       k (S i2) e (negb ab) val')
  = match pstep q prev curr ab val with
    | SOn => PipRet IsOn
    | SGo ab' val' =>
        if (py curr =? py q) && Nat.eqb (S i2) start then PipBreak (S i2) ab' val'
        else k (S i2) e ab' val'
    end.
Proof.
  intros Ht. unfold pstep. rewrite Ht. cbv zeta.
  destruct (py curr =? py q); cbn [andb].
  - destruct ((px curr =? px q)
              || (py curr =? py prev) && negb (Bool.eqb (px q <? px prev) (px q <? px curr)));
      reflexivity.
  - destruct ((px q <? px curr) && (px q <? px prev)); [reflexivity|].
    destruct ((px q >? px prev) && (px q >? px curr)); [reflexivity|].
    destruct (CrossProduct prev curr q =? 0); reflexivity.
Qed.

Section Refine.
  Context (q : pt) (pre : path) (s : pt) (post : path).
  Let poly := pre ++ s :: post.
  Let lenP := length poly.
  Let start := length pre.
  Context (Hpre : Forall (fun v => py v = py q) pre).
  Context (Hs : py s <> py q).

  Lemma start_lt : (start < lenP)%nat.
  Proof. unfold start, lenP, poly. rewrite app_length. cbn [length]. lia. Qed.

  Lemma nth_start : nth_error poly start = Some s.
  Proof.
    unfold poly, start. rewrite nth_error_app2 by lia. rewrite Nat.sub_diag. reflexivity.
  Qed.

  Lemma nth_pre i : (i < start)%nat -> nth_error poly i = nth_error pre i.
  Proof. intros H. unfold poly. apply nth_error_app1. exact H. Qed.

  Lemma pip_start_pre : pip_start (py q) poly = start.
  Proof.
    unfold poly, start. clear poly lenP start.
    induction pre as [|a l IH]; cbn [app pip_start length].
    - destruct (Z.eqb_spec (py s) (py q)); [contradiction|reflexivity].
    - pose proof (Forall_inv Hpre) as Ha. cbn beta in Ha.
      rewrite Ha, Z.eqb_refl. f_equal. apply IH. exact (Forall_inv_tail Hpre).
  Qed.

  Definition after2 (r : sres) : pip_out :=
    match r with
    | SOn => PipRet IsOn
    | SGo ab val => PipBreak start ab val
    end.

  Definition after1 (lastv : pt) (r : sres) : pip_out :=
    match r with
    | SOn => PipRet IsOn
    | SGo ab val =>
        if Nat.eqb start 0 then PipBreak lenP ab val
        else after2 (walk q lastv pre ab val)
    end.

  (* second sweep: i runs over the level prefix *)
  Lemma sweep2 : forall fuel i prev ab val,
    (i < start)%nat ->
    nth_error poly (if Nat.ltb 0 i then i - 1 else lenP - 1)%nat = Some prev ->
    (start - i <= fuel)%nat ->
    pip_loop fuel q poly lenP start i start ab val
    = after2 (walk q prev (skipn i pre) ab val).
  Proof.
    induction fuel as [|fuel IH]; intros i prev ab val Hi Hprev Hf; [lia|].
    cbn [pip_loop]. cbv zeta.
    destruct (Nat.eqb_spec i start) as [E|_]; [lia|]. cbn [andb].
    unfold pip_body.
    destruct (nth_error_ex pre i Hi) as [curr Hcurr].
    assert (Hcurr' : nth_error poly i = Some curr) by (rewrite nth_pre by exact Hi; exact Hcurr).
    assert (Ey : py curr = py q).
    { rewrite Forall_forall in Hpre. apply Hpre. apply (nth_error_In pre i). exact Hcurr. }
    rewrite (pip_skip_stay ab (py q) poly (start - i) i curr Hcurr' Ey).
    destruct (Nat.eqb_spec i start) as [E|_]; [lia|].
    rewrite Hcurr', Hprev.
    assert (Ht : (if ab then py curr <? py q else py curr >? py q) = false).
    { rewrite Ey, Z.gtb_ltb, Z.ltb_irrefl. destruct ab; reflexivity. }
    rewrite (body_tail_eq q _ i start start prev curr ab val Ht).
    rewrite (skipn_nth_error pre i curr Hcurr). cbn [walk].
    destruct (pstep q prev curr ab val) as [|ab' val']; [reflexivity|].
    rewrite Ey, Z.eqb_refl. cbn [andb].
    destruct (Nat.eqb_spec (S i) start) as [E|E].
    - assert (Hsk : skipn start pre = []) by apply skipn_all.
      rewrite E, Hsk. reflexivity.
    - apply IH; [lia| |lia].
      cbn [Nat.ltb Nat.leb]. replace (S i - 1)%nat with i by lia. exact Hcurr'.
  Qed.

  (* first sweep: i runs from start+1 to lenP *)
  Lemma sweep1 : forall fuel i prev ab val lastv,
    (start < i <= lenP)%nat ->
    nth_error poly (i - 1) = Some prev ->
    nth_error poly (lenP - 1) = Some lastv ->
    (lenP - i + 1 + start < fuel)%nat ->
    pip_loop fuel q poly lenP start i lenP ab val
    = after1 lastv (walk q prev (skipn i poly) ab val).
  Proof.
    induction fuel as [|fuel IH]; intros i prev ab val lastv Hi Hprev Hlast Hf; [lia|].
    pose proof start_lt as Hsl.
    destruct (Nat.eq_dec i lenP) as [E|E].
    - (* wrap around or stop *)
      subst i. assert (Hsk : skipn lenP poly = []) by apply skipn_all.
      rewrite Hsk. cbn [walk after1].
      cbn [pip_loop]. cbv zeta. rewrite Nat.eqb_refl. cbn [andb].
      destruct (Nat.eqb_spec lenP 0) as [E0|_]; [lia|]. cbn [orb].
      destruct (Nat.eqb_spec start 0) as [E0|E0]; [reflexivity|].
      pose proof (sweep2 (S fuel) 0 lastv ab val ltac:(lia) Hlast ltac:(lia)) as H2.
      cbn [pip_loop] in H2. cbv zeta in H2.
      destruct (Nat.eqb_spec 0 start) as [E1|_]; [lia|]. cbn [andb] in H2.
      exact H2.
    - cbn [pip_loop]. cbv zeta.
      destruct (Nat.eqb_spec i lenP) as [E1|_]; [contradiction|]. cbn [andb].
      unfold pip_body.
      destruct (skip_walk q poly (lenP - i) i prev ab val ltac:(lia) ltac:(fold lenP; lia) Hprev)
        as [i2 [prev2 [Esk [Hr [Hp2 [Hw Hnext]]]]]].
      rewrite Esk, Hw.
      destruct (Nat.eqb_spec i2 lenP) as [E2|E2].
      + subst i2. apply (IH lenP prev2 ab val lastv); [lia|exact Hp2|exact Hlast|lia].
      + destruct (Hnext ltac:(lia)) as [curr [Hcurr Ht]].
        assert (Hlt : Nat.ltb 0 i2 = true) by (apply Nat.ltb_lt; lia).
        rewrite Hlt, Hcurr, Hp2.
        rewrite (body_tail_eq q _ i2 lenP start prev2 curr ab val Ht).
        rewrite (skipn_nth_error poly i2 curr Hcurr). cbn [walk].
        destruct (pstep q prev2 curr ab val) as [|ab' val']; [reflexivity|].
        destruct (Nat.eqb_spec (S i2) start) as [E3|_]; [lia|].
        rewrite andb_false_r.
        apply IH; [lia| |exact Hlast|lia].
        replace (S i2 - 1)%nat with i2 by lia. exact Hcurr.
  Qed.
End Refine.

(* ------------------------------------------------------------------ *)
(* 7. The theorem                                                      *)
(* ------------------------------------------------------------------ *)

Lemma walk_app q : forall l1 l2 prev ab val,
  walk q prev (l1 ++ l2) ab val
  = match walk q prev l1 ab val with
    | SOn => SOn
    | SGo ab' val' => walk q (last l1 prev) l2 ab' val'
    end.
Proof.
  induction l1 as [|c l1 IH]; intros l2 prev ab val; [reflexivity|].
  cbn [app walk]. destruct (pstep q prev c ab val) as [|ab' val']; [reflexivity|].
  rewrite IH, last_cons. reflexivity.
Qed.

Lemma nth_last {A} (l : list A) d :
  l <> [] -> nth_error l (length l - 1) = Some (last l d).
Proof.
  induction l as [|a l IH]; intros H; [contradiction|].
  destruct l as [|b l]; [reflexivity|].
  change (last (a :: b :: l) d) with (last (b :: l) d).
  rewrite <- IH by discriminate. cbn [length]. 
  replace (S (S (length l)) - 1)%nat with (S (S (length l) - 1)) by lia. reflexivity.
Qed.

Lemma skipn_S_app {A} (pre : list A) s post :
  skipn (S (length pre)) (pre ++ s :: post) = post.
Proof. induction pre as [|a l IH]; [reflexivity|]. cbn [length app]. exact IH. Qed.

Lemma pip_finish_pfinish q poly lenP sa i ab val a b :
  nth_error poly (if Nat.eqb (if Nat.eqb i lenP then O else i) 0 then lenP - 1
                  else (if Nat.eqb i lenP then O else i) - 1)%nat = Some a ->
  nth_error poly (if Nat.eqb i lenP then O else i) = Some b ->
  pip_finish q poly lenP sa i ab val = pfinish q a b sa ab val.
Proof.
  intros Ha Hb. unfold pip_finish, pfinish. cbv zeta.
  destruct (Bool.eqb ab sa); [reflexivity|].
  destruct (Nat.eqb (if Nat.eqb i lenP then O else i) 0) eqn:E.
  - apply Nat.eqb_eq in E. rewrite E in Hb. rewrite Ha, Hb. reflexivity.
  - rewrite Ha, Hb. reflexivity.
Qed.

Theorem pip_model_eq_list : forall q pre s post,
  Forall (fun v => py v = py q) pre -> py s <> py q ->
  (3 <= length (pre ++ s :: post))%nat ->
  pip_model q (pre ++ s :: post) = pip_list q s (post ++ pre).
Proof.
  intros q pre s post Hpre Hs Hlen.
  set (poly := pre ++ s :: post) in *.
  pose proof (start_lt pre s post) as Hsl. fold poly in Hsl.
  pose proof (nth_start pre s post) as Hns. fold poly in Hns.
  assert (Hne : poly <> []) by (unfold poly; destruct pre; discriminate).
  pose proof (nth_last poly (0, 0) Hne) as Hlast.
  assert (Elast : last poly (0, 0) = last post s).
  { unfold poly. rewrite last_app2, last_cons. reflexivity. }
  rewrite Elast in Hlast.
  unfold pip_model. cbv zeta.
  destruct (Nat.ltb_spec (length poly) 3) as [Hlt|_]; [lia|].
  pose proof (pip_start_pre q pre s post Hpre Hs) as Hst. fold poly in Hst. rewrite Hst.
  destruct (Nat.eqb_spec (length pre) (length poly)) as [E|_]; [lia|].
  rewrite Hns.
  pose proof (sweep1 q pre s post Hpre (pip_fuel poly) (S (length pre)) s
             (py s <? py q) 0 (last post s)) as Hsw.
  fold poly in Hsw. rewrite Hsw; clear Hsw.
  2: { lia. }
  2: { replace (S (length pre) - 1)%nat with (length pre) by lia. exact Hns. }
  2: { exact Hlast. }
  2: { unfold pip_fuel. lia. }
  unfold poly at 1. rewrite skipn_S_app.
  unfold pip_list. cbv zeta. rewrite walk_app.
  destruct (walk q s post (py s <? py q) 0) as [|ab val]; [reflexivity|].
  cbn [after1]. rewrite last_app2.
  destruct (Nat.eqb_spec (length pre) 0) as [E0|E0].
  - (* start = 0 *)
    destruct pre as [|? ?]; [|discriminate]. cbn [walk last]. fold poly.
    apply pip_finish_pfinish; rewrite Nat.eqb_refl; cbn [Nat.eqb]; [exact Hlast|exact Hns].
  - assert (Hpne : pre <> []) by (destruct pre; [contradiction|discriminate]).
    destruct (walk q (last post s) pre ab val) as [|ab2 val2]; [reflexivity|].
    cbn [after2]. fold poly.
    apply pip_finish_pfinish.
    + destruct (Nat.eqb_spec (length pre) (length poly)) as [E|_]; [lia|].
      destruct (Nat.eqb_spec (length pre) 0) as [E|_]; [contradiction|].
      unfold poly. rewrite nth_error_app1 by lia. apply nth_last. exact Hpne.
    + destruct (Nat.eqb_spec (length pre) (length poly)) as [E|_]; [lia|]. exact Hns.
Qed.

(* the first vertex that is not level with q splits the polygon *)
Lemma split_nonlevel : forall (qy : Z) (poly : path),
  (exists v, In v poly /\ py v <> qy) ->
  exists pre s post, poly = pre ++ s :: post
    /\ Forall (fun v => py v = qy) pre /\ py s <> qy.
Proof.
  intros qy. induction poly as [|a l IH]; intros [v [Hin Hv]]; [destruct Hin|].
  destruct (Z.eq_dec (py a) qy) as [E|E].
  - destruct Hin as [->|Hin]; [contradiction|].
    destruct (IH (ex_intro _ v (conj Hin Hv))) as [pre [s [post [Hp [Hf Hs]]]]].
    exists (a :: pre), s, post. split; [rewrite Hp; reflexivity|].
    split; [constructor; assumption|exact Hs].
  - exists [], a, l. split; [reflexivity|]. split; [constructor|exact E].
Qed.

Theorem pip_model_eq_spec : forall q poly,
  coord_ok two29 q -> path_ok two29 poly ->
  (3 <= length poly)%nat ->
  (exists v, In v poly /\ py v <> py q) ->
  pip_model q poly = pip_spec q poly.
Proof.
  intros q poly Hq Hok Hlen Hnl.
  destruct (split_nonlevel (py q) poly Hnl) as [pre [s [post [-> [Hpre Hs]]]]].
  rewrite (pip_model_eq_list q pre s post Hpre Hs Hlen).
  apply pip_list_eq_spec; assumption.
Qed.

(* ------------------------------------------------------------------ *)
(* 8. The two side conditions are necessary, and exactly so            *)
(* ------------------------------------------------------------------ *)

Lemma coord_ok_small x y : Z.abs x <= 100 -> Z.abs y <= 100 -> coord_ok two29 (x, y).
Proof. intros Hx Hy. unfold coord_ok, two29, px, py. cbn [fst snd]. lia. Qed.

Ltac small_path :=
  repeat (apply Forall_cons; [apply coord_ok_small; cbn; lia|]); apply Forall_nil.

(* without any side condition the statement is false *)
Example pip_model_eq_spec_refuted : exists q poly,
  coord_ok two29 q /\ path_ok two29 poly /\ pip_model q poly <> pip_spec q poly.
Proof.
  exists (1, 0), [(0, 0); (2, 0); (1, 0)].
  split; [apply coord_ok_small; cbn; lia|].
  split; [small_path|].
  vm_compute. discriminate.
Qed.

(* three vertices are not enough: the polygon may lie in the line y = q.y *)
Example pip_model_eq_spec_refuted_level : exists q poly,
  coord_ok two29 q /\ path_ok two29 poly /\ (3 <= length poly)%nat
  /\ pip_model q poly = IsOutside /\ pip_spec q poly = IsOn.
Proof.
  exists (1, 0), [(0, 0); (2, 0); (1, 0)].
  split; [apply coord_ok_small; cbn; lia|].
  split; [small_path|].
  split; [cbn; lia|]. vm_compute. split; reflexivity.
Qed.

(* a vertex off the line is not enough: the code rejects paths of length < 3 *)
Example pip_model_eq_spec_refuted_short : exists q poly,
  coord_ok two29 q /\ path_ok two29 poly /\ (exists v, In v poly /\ py v <> py q)
  /\ pip_model q poly = IsOutside /\ pip_spec q poly = IsOn.
Proof.
  exists (1, 1), [(0, 0); (2, 2)].
  split; [apply coord_ok_small; cbn; lia|].
  split; [small_path|].
  split; [exists (0, 0); split; [left; reflexivity|cbn; lia]|].
  vm_compute. split; reflexivity.
Qed.

Lemma pip_start_all qy : forall l, Forall (fun v => py v = qy) l -> pip_start qy l = length l.
Proof.
  induction l as [|a l IH]; intros H; [reflexivity|].
  cbn [pip_start length]. rewrite (Forall_inv H), Z.eqb_refl. f_equal.
  apply IH. exact (Forall_inv_tail H).
Qed.

Lemma all_level_or_not qy : forall l : path,
  Forall (fun v => py v = qy) l \/ exists v, In v l /\ py v <> qy.
Proof.
  induction l as [|a l [IH|[v [Hin Hv]]]].
  - left. constructor.
  - destruct (Z.eq_dec (py a) qy) as [E|E].
    + left. constructor; assumption.
    + right. exists a. split; [left; reflexivity|exact E].
  - right. exists v. split; [right; exact Hin|exact Hv].
Qed.

Lemma degenerate_model q poly :
  ~ ((3 <= length poly)%nat /\ exists v, In v poly /\ py v <> py q) ->
  pip_model q poly = IsOutside.
Proof.
  intros H. unfold pip_model. cbv zeta.
  destruct (Nat.ltb_spec (length poly) 3) as [Hlt|Hge]; [reflexivity|].
  destruct (all_level_or_not (py q) poly) as [Hall|Hnl].
  - rewrite (pip_start_all (py q) poly Hall), Nat.eqb_refl. reflexivity.
  - exfalso. apply H. split; assumption.
Qed.

Lemma crosses_left_level a b q : py a = py q -> py b = py q -> crosses_left a b q = false.
Proof.
  intros Ha Hb. unfold crosses_left. rewrite Ha, Hb, Z.ltb_irrefl, !andb_false_r. reflexivity.
Qed.

Lemma crosses_left_sym a b q : crosses_left a b q = crosses_left b a q.
Proof.
  unfold crosses_left.
  assert (HT : turn b a q = - turn a b q) by (unfold turn; ring).
  rewrite HT. generalize (turn a b q). intros T.
  zbl; cbn; try reflexivity; try (exfalso; lia).
Qed.

Lemma filter_level q : forall l prev,
  Forall (fun v => py v = py q) (prev :: l) -> filter (cleft q) (edges_from prev l) = [].
Proof.
  induction l as [|c l IH]; intros prev H; [reflexivity|].
  cbn [edges_from filter]. unfold cleft at 1. cbn [fst snd].
  pose proof (Forall_inv H) as Hp. pose proof (Forall_inv_tail H) as Ht.
  pose proof (Forall_inv Ht) as Hc. cbn beta in Hp, Hc.
  rewrite (crosses_left_level prev c q Hp Hc). apply IH. exact Ht.
Qed.

Lemma degenerate_spec q poly :
  ~ ((3 <= length poly)%nat /\ exists v, In v poly /\ py v <> py q) ->
  pip_spec q poly <> IsOn -> pip_spec q poly = IsOutside.
Proof.
  intros H Hon. unfold pip_spec in *. cbv zeta in *.
  destruct (existsb (fun e => on_segment (fst e) (snd e) q) (closed_edges poly));
    [contradiction|]. clear Hon.
  change (fun e : pt * pt => crosses_left (fst e) (snd e) q) with (cleft q).
  destruct (all_level_or_not (py q) poly) as [Hall|Hnl].
  - destruct poly as [|a l]; [reflexivity|].
    unfold closed_edges. rewrite filter_level; [reflexivity|].
    constructor; [|exact Hall].
    rewrite Forall_forall in Hall. apply Hall. rewrite last_cons. apply last_In.
  - assert (Hlen : (length poly < 3)%nat).
    { destruct (Nat.ltb_spec (length poly) 3) as [Hlt|Hge]; [exact Hlt|].
      exfalso. apply H. split; assumption. }
    destruct poly as [|a [|b [|c l]]]; [reflexivity| | |cbn in Hlen; lia].
    + cbn. unfold cleft. cbn [fst snd].
      unfold crosses_left.
      destruct ((py a <=? py q) && (py q <? py a)) eqn:E; [|reflexivity].
      apply andb_true_iff in E. destruct E as [E1 E2].
      apply Z.leb_le in E1. apply Z.ltb_lt in E2. lia.
    + cbn [closed_edges last edges_from filter]. unfold cleft. cbn [fst snd].
      rewrite (crosses_left_sym b a q).
      destruct (crosses_left a b q); reflexivity.
Qed.

(* the exact scope of the equality *)
Theorem pip_model_eq_spec_iff : forall q poly,
  coord_ok two29 q -> path_ok two29 poly ->
  (pip_model q poly = pip_spec q poly
   <-> ((3 <= length poly)%nat /\ (exists v, In v poly /\ py v <> py q))
       \/ pip_spec q poly <> IsOn).
Proof.
  intros q poly Hq Hok. split.
  - intros E.
    destruct (Nat.ltb_spec (length poly) 3) as [Hlt|Hge].
    + right. rewrite <- E, degenerate_model; [discriminate|]. intros [H _]. lia.
    + destruct (all_level_or_not (py q) poly) as [Hall|Hnl].
      * right. rewrite <- E, degenerate_model; [discriminate|].
        intros [_ [v [Hin Hv]]]. rewrite Forall_forall in Hall. apply Hv, Hall, Hin.
      * left. split; assumption.
  - intros [[Hlen Hnl]|Hon].
    + apply pip_model_eq_spec; assumption.
    + destruct (Nat.ltb_spec (length poly) 3) as [Hlt|Hge].
      * rewrite degenerate_model, degenerate_spec; try reflexivity; try exact Hon;
          intros [H _]; lia.
      * destruct (all_level_or_not (py q) poly) as [Hall|Hnl].
        -- assert (Hd : ~ ((3 <= length poly)%nat /\ exists v, In v poly /\ py v <> py q)).
           { intros [_ [v [Hin Hv]]]. rewrite Forall_forall in Hall. apply Hv, Hall, Hin. }
           rewrite degenerate_model, degenerate_spec; try reflexivity; assumption.
        -- apply pip_model_eq_spec; assumption.
Qed.

(* ------------------------------------------------------------------ *)
(* 9. Non-vacuity                                                      *)
(* ------------------------------------------------------------------ *)

Example pip_nonvacuous_inside :
  coord_ok two29 (5, 5) /\ path_ok two29 sq10 /\ (3 <= length sq10)%nat
  /\ (exists v, In v sq10 /\ py v <> py (5, 5))
  /\ pip_model (5, 5) sq10 = IsInside /\ pip_spec (5, 5) sq10 = IsInside.
Proof.
  split; [apply coord_ok_small; cbn; lia|].
  split; [unfold sq10; small_path|].
  split; [cbn; lia|].
  split; [exists (0, 0); split; [left; reflexivity|cbn; lia]|].
  vm_compute. split; reflexivity.
Qed.

Example pip_nonvacuous_on :
  coord_ok two29 (10, 5) /\ path_ok two29 sq10 /\ (3 <= length sq10)%nat
  /\ (exists v, In v sq10 /\ py v <> py (10, 5))
  /\ pip_model (10, 5) sq10 = IsOn /\ pip_spec (10, 5) sq10 = IsOn.
Proof.
  split; [apply coord_ok_small; cbn; lia|].
  split; [unfold sq10; small_path|].
  split; [cbn; lia|].
  split; [exists (0, 0); split; [left; reflexivity|cbn; lia]|].
  vm_compute. split; reflexivity.
Qed.

(* at the edge of the coordinate range, starting on a level vertex (the walk
   wraps around and the closing decision uses the edge into polygon[start]) *)
Example pip_nonvacuous_big :
  let p := [(-536870912, 0); (536870912, -536870912); (536870912, 536870912)] in
  coord_ok two29 (0, 0) /\ path_ok two29 p
  /\ pip_model (0, 0) p = IsInside /\ pip_spec (0, 0) p = IsInside
  /\ pip_model (-536870912, 0) p = IsOn /\ pip_model (-536870911, 1) p = IsOutside.
Proof.
  cbv zeta.
  split; [apply coord_ok_small; cbn; lia|].
  split; [repeat (apply Forall_cons; [unfold coord_ok, two29, px, py; cbn [fst snd]; lia|]);
          apply Forall_nil|].
  vm_compute. repeat split; reflexivity.
Qed.

(* ------------------------------------------------------------------ *)
(* 10. Enumerated cross-check of the statements (by computation)       *)
(* ------------------------------------------------------------------ *)

(* The statements were tested before they were proved; the larger runs
   (all true) are not repeated here because CrossProduct's float rounding is
   slow under vm_compute:
     3 vertices on {0..3}^2, q in {-1..4}^2   (147456 cases,   14 s)
     4 vertices on {0..3}^2, q in {-1..4}^2   (2359296 cases, 257 s)
     5 vertices on {0..2}^2, q in {-1..3}^2   (1476225 cases, 117 s)
   and the exact characterisation pip_model_eq_spec_iff for 0-3 vertices on
   {0..3}^2 and 4 vertices on {0..2}^2. *)
Definition nonlevelb (q : pt) (p : path) : bool := existsb (fun v => negb (py v =? py q)) p.
Definition pip_agree_iff (q : pt) (p : path) : bool :=
  Bool.eqb (pip_model q p =? pip_spec q p)
           (((3 <=? length p)%nat && nonlevelb q p) || negb (pip_spec q p =? IsOn)).
Definition pip_check_iff (n : nat) : bool :=
  forallb (fun p => forallb (fun q => pip_agree_iff q p) grid5) (tuples n).

Example pip_check_iff_small :
  pip_check_iff 0 = true /\ pip_check_iff 1 = true /\ pip_check_iff 2 = true
  /\ pip_check_iff 3 = true.
Proof. vm_compute. repeat split; reflexivity. Qed.

Print Assumptions pip_model_eq_spec.
Print Assumptions pip_model_eq_spec_iff.
Print Assumptions pip_model_eq_list.
Print Assumptions pip_list_eq_spec.
