(* Model/Exports.v — the executable entry points handed to extraction. *)
From Coq Require Import ZArith List Bool.
From Clip Require Import Base.Int64 Model.Arith Model.Trim Model.Minkowski Model.Measures Model.Simplify Model.SimplifyF64.
Definition trim_faithful (p : list pt) (isOpen : bool) : list pt := TrimCollinear64 p isOpen.
Definition trim_exact (p : list pt) (isOpen : bool) : list pt := trim col_exact p isOpen.
Definition mink_model (pattern path : list pt) (isSum isClosed : bool) : option paths :=
  match minkowskiInternal pattern path isSum isClosed with MOk r => Some r | MPanic => None end.
