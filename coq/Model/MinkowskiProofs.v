(* Model/MinkowskiProofs.v — theorems about the model of
   minkowski.go:minkowskiInternal (Model/Minkowski.v).

   (a) mink_total / mink_empty_open : the Go code never panics (since a8d04ba)
   (b) mink_count        : number of quads and size of each quad
   (c) mink_quads (+ _wrap, _open, _closed) : what the k-th quad is
   (d) mink_positive     : every emitted quad has non-negative exact area
   All proofs end in Qed; nothing is assumed. *)
From Coq Require Import ZArith List Bool Lia Arith.
From Clip Require Import Base.Int64 Model.Arith Model.Minkowski.
Import ListNotations.
Open Scope Z_scope.

(* ================================================================== *)
(* generic list facts *)

Lemma nth_map_lt {A B} (f : A -> B) (l : list A) (k : nat) (dA : A) (dB : B) :
  (k < length l)%nat -> nth k (map f l) dB = f (nth k l dA).
Proof.
  intros Hk. rewrite (nth_indep _ dB (f dA)) by (rewrite map_length; exact Hk).
  apply map_nth.
Qed.

Lemma length_flat_map_uniform {A B} (f : A -> list B) (m : nat) (l : list A) :
  (forall x, In x l -> length (f x) = m) ->
  length (flat_map f l) = (length l * m)%nat.
Proof.
  induction l as [|x l IH]; intros Hf; [reflexivity|].
  cbn [flat_map length]. rewrite app_length, Hf by (left; reflexivity).
  rewrite IH by (intros y Hy; apply Hf; right; exact Hy). lia.
Qed.

Lemma nth_flat_map_uniform {A B} (f : A -> list B) (m : nat) (dA : A) (dB : B) (l : list A) :
  (forall x, In x l -> length (f x) = m) ->
  forall a b, (a < length l)%nat -> (b < m)%nat ->
  nth (a * m + b) (flat_map f l) dB = nth b (f (nth a l dA)) dB.
Proof.
  induction l as [|x l IH]; intros Hf a b Ha Hb; [cbn in Ha; lia|].
  cbn [flat_map].
  assert (Hx : length (f x) = m) by (apply Hf; left; reflexivity).
  destruct a as [|a].
  - cbn [nth Nat.mul Nat.add]. apply app_nth1. lia.
  - rewrite app_nth2 by (rewrite Hx; lia).
    rewrite Hx. replace (S a * m + b - m)%nat with (a * m + b)%nat by lia.
    cbn [nth]. apply IH; [|cbn in Ha; lia|exact Hb].
    intros y Hy. apply Hf. right. exact Hy.
Qed.

(* ================================================================== *)
(* the loops *)

(* cyclic predecessor of index j in a cycle of length m *)
Definition predc (m j : nat) : nat :=
  match j with O => (m - 1)%nat | S j' => j' end.

Lemma predc_S m j : predc m (S j) = j.
Proof. reflexivity. Qed.

Lemma predc_lt m j : (j < m)%nat -> (predc m j < m)%nat.
Proof. destruct j; cbn; lia. Qed.

(* predc is (j-1) mod m *)
Lemma predc_mod m j : (j < m)%nat -> predc m j = ((j + m - 1) mod m)%nat.
Proof.
  intros Hj. destruct j as [|j]; cbn [predc].
  - replace (0 + m - 1)%nat with (m - 1)%nat by lia.
    rewrite Nat.mod_small; lia.
  - replace (S j + m - 1)%nat with (j + 1 * m)%nat by lia.
    rewrite Nat.mod_add by lia. rewrite Nat.mod_small; lia.
Qed.

(* the inner loop, for an arbitrary entry state (j, h): the carried h is used
   for the first quad only, afterwards h = previous j. *)
Lemma mink_inner_spec tmp g i cnt : forall j h,
  mink_inner tmp g i cnt j h =
  (match cnt with O => h | S c => (j + c)%nat end,
   map (fun k => mink_orient
                   (mink_quad tmp g i (if (k =? j)%nat then h else (k - 1)%nat) k))
       (seq j cnt)).
Proof.
  induction cnt as [|c IH]; intros j h; [reflexivity|].
  cbn [mink_inner]. rewrite IH. cbn [seq map]. rewrite Nat.eqb_refl.
  f_equal.
  - destruct c; lia.
  - f_equal. apply map_ext_in. intros k Hk. apply in_seq in Hk.
    destruct (Nat.eqb_spec k (S j)) as [E1|E1], (Nat.eqb_spec k j) as [E2|E2];
      try lia; subst; repeat f_equal; lia.
Qed.

(* one full run of the inner loop as the Go code performs it *)
Definition mink_block (tmp : paths) (m g i : nat) : paths :=
  map (fun j => mink_orient (mink_quad tmp g i (predc m j) j)) (seq 0 m).

(* Entered with h = patLen-1, the inner loop leaves h = patLen-1 again: the
   variable carried across the iterations of i is always patLen-1 on entry,
   so inside the loop h is the cyclic predecessor of j. *)
Lemma mink_inner_full tmp g i m :
  mink_inner tmp g i m 0 (m - 1) = ((m - 1)%nat, mink_block tmp m g i).
Proof.
  rewrite mink_inner_spec. f_equal.
  - destruct m; lia.
  - unfold mink_block. apply map_ext. intros k.
    destruct k as [|k]; [reflexivity|].
    cbn [Nat.eqb predc]. repeat f_equal. lia.
Qed.

Lemma flat_map_ext_in {A B} (f g : A -> list B) (l : list A) :
  (forall x, In x l -> f x = g x) -> flat_map f l = flat_map g l.
Proof.
  induction l as [|x l IH]; intros H; [reflexivity|].
  cbn [flat_map]. rewrite H by (left; reflexivity).
  rewrite IH by (intros y Hy; apply H; right; exact Hy). reflexivity.
Qed.

Lemma mink_outer_spec tmp m cnt : forall i g,
  mink_outer tmp m cnt i g (m - 1) =
  flat_map (fun k => mink_block tmp m (if (k =? i)%nat then g else (k - 1)%nat) k)
           (seq i cnt).
Proof.
  induction cnt as [|c IH]; intros i g; [reflexivity|].
  cbn [mink_outer]. rewrite mink_inner_full. rewrite IH.
  cbn [seq flat_map]. rewrite Nat.eqb_refl. f_equal.
  apply flat_map_ext_in. intros k Hk. apply in_seq in Hk.
  destruct (Nat.eqb_spec k (S i)) as [E1|E1], (Nat.eqb_spec k i) as [E2|E2];
    try lia; subst; f_equal; lia.
Qed.

Definition mink_delta (c : bool) : nat := if c then 0%nat else 1%nat.

(* closed form of the whole result *)
Definition mink_result (pat p : list pt) (s c : bool) : paths :=
  let tmp := mink_tmp pat p s in
  let n := length p in
  let m := length pat in
  flat_map (fun i => mink_block tmp m (predc n i) i)
           (seq (mink_delta c) (n - mink_delta c)).

Lemma mink_spec pat p s c r :
  minkowskiInternal pat p s c = MOk r -> r = mink_result pat p s c.
Proof.
  unfold minkowskiInternal, mink_result.
  cbv zeta. destruct (_ <? 0) eqn:Ecap; [discriminate|].
  intros H. injection H as <-.
  fold (mink_delta c). rewrite mink_outer_spec.
  apply flat_map_ext_in. intros k Hk. apply in_seq in Hk.
  f_equal. destruct c; cbn [mink_delta] in *.
  - destruct k as [|k]; [reflexivity|]. cbn [Nat.eqb predc]. lia.
  - destruct (Nat.eqb_spec k 1) as [->|E]; [reflexivity|].
    destruct k; [lia|]. cbn [predc]. lia.
Qed.

(* the Go index expressions tmp[g][h], tmp[i][h], tmp[i][j], tmp[g][j] are in
   range whenever the loop body runs *)
Lemma mink_indices_in_range (c : bool) (n m i j : nat) :
  In i (seq (mink_delta c) (n - mink_delta c)) -> In j (seq 0 m) ->
  (predc n i < n /\ i < n /\ predc m j < m /\ j < m)%nat.
Proof.
  intros Hi Hj. apply in_seq in Hi. apply in_seq in Hj.
  assert (i < n)%nat by lia. assert (j < m)%nat by lia.
  repeat split; try lia; apply predc_lt; lia.
Qed.

(* ================================================================== *)
(* (a) totality: the clamped capacity is never negative, so make never panics
   (before commit a8d04ba the model had
      minkowskiInternal pat p s c = MPanic <-> p = [] /\ c = false /\ pat <> []) *)

Theorem mink_total pat p s c : exists r, minkowskiInternal pat p s c = MOk r.
Proof.
  unfold minkowskiInternal. cbv zeta.
  set (cap0 := (Z.of_nat (length p) - Z.of_nat (if c then 0%nat else 1%nat))
               * Z.of_nat (length pat)).
  destruct (Z.ltb_spec (if cap0 <? 0 then 0 else cap0) 0) as [Hlt|Hge].
  - exfalso. destruct (Z.ltb_spec cap0 0); lia.
  - eexists. reflexivity.
Qed.

Corollary mink_never_panics pat p s c : minkowskiInternal pat p s c <> MPanic.
Proof. destruct (mink_total pat p s c) as [r ->]. discriminate. Qed.

(* the former panic witness: empty open path, non-empty pattern *)
Example mink_empty_open :
  minkowskiInternal [(0, 0); (1, 0); (0, 1)] [] true false = MOk [].
Proof. vm_compute. reflexivity. Qed.

(* ================================================================== *)
(* (b) counting *)

Lemma mink_orient_length q : length (mink_orient q) = length q.
Proof.
  unfold mink_orient, ReversePath. destruct (negb _); [apply rev_length|reflexivity].
Qed.

Lemma mink_block_length tmp m g i : length (mink_block tmp m g i) = m.
Proof. unfold mink_block. rewrite map_length, seq_length. reflexivity. Qed.

Lemma mink_block_quads tmp m g i :
  Forall (fun q => length q = 4%nat) (mink_block tmp m g i).
Proof.
  unfold mink_block. apply Forall_forall. intros q Hq.
  apply in_map_iff in Hq. destruct Hq as (j & <- & _).
  rewrite mink_orient_length. reflexivity.
Qed.

Theorem mink_count pat p s c r :
  minkowskiInternal pat p s c = MOk r ->
  length r = ((length p - (if c then 0 else 1)) * length pat)%nat /\
  Forall (fun q => length q = 4%nat) r.
Proof.
  intros H. apply mink_spec in H. subst r. unfold mink_result.
  fold (mink_delta c). split.
  - rewrite (length_flat_map_uniform _ (length pat)).
    + rewrite seq_length. reflexivity.
    + intros i _. apply mink_block_length.
  - apply Forall_forall. intros q Hq. apply in_flat_map in Hq.
    destruct Hq as (i & _ & Hq).
    exact (proj1 (Forall_forall _ _) (mink_block_quads _ _ _ _) q Hq).
Qed.

(* in general an empty path gives an empty result, open or closed *)
Lemma mink_empty_path pat s c : minkowskiInternal pat [] s c = MOk [].
Proof.
  destruct (mink_total pat [] s c) as [r Hr]. rewrite Hr. f_equal.
  destruct (mink_count _ _ _ _ _ Hr) as [Hlen _]. cbn [length] in Hlen.
  apply length_zero_iff_nil. rewrite Hlen. destruct c; reflexivity.
Qed.

(* ================================================================== *)
(* (c) the k-th quad *)

(* tmp[i][j] in the model's wrapping arithmetic *)
Definition pt_op64 (s : bool) (a b : pt) : pt :=
  if s then pt_add64 a b else pt_sub64 a b.

Lemma tget_tmp pat p s i j :
  (i < length p)%nat -> (j < length pat)%nat ->
  tget (mink_tmp pat p s) i j = pt_op64 s (nth i p (0, 0)) (nth j pat (0, 0)).
Proof.
  intros Hi Hj. unfold tget, mink_tmp.
  rewrite (nth_map_lt _ _ _ (0, 0)) by exact Hi.
  unfold mink_row, pt_op64. destruct s; apply nth_map_lt; exact Hj.
Qed.

Definition mink_quad64 (s : bool) (a b u v : pt) : list pt :=
  [pt_op64 s a u; pt_op64 s b u; pt_op64 s b v; pt_op64 s a v].

(* position k = i' * patLen + j of the result, with no hypothesis on the
   coordinates (everything in wrapping arithmetic) *)
Theorem mink_quads_wrap pat p s c r :
  minkowskiInternal pat p s c = MOk r ->
  forall i' j, (i' < length p - mink_delta c)%nat -> (j < length pat)%nat ->
  let n := length p in
  let m := length pat in
  let i := (mink_delta c + i')%nat in
  nth (i' * m + j) r [] =
  mink_orient (mink_quad64 s (nth (predc n i) p (0, 0)) (nth i p (0, 0))
                             (nth (predc m j) pat (0, 0)) (nth j pat (0, 0))).
Proof.
  intros H i' j Hi' Hj n m i. apply mink_spec in H. subst r.
  unfold mink_result. fold n m.
  rewrite (nth_flat_map_uniform _ m 0%nat).
  - rewrite seq_nth by exact Hi'. fold i.
    unfold mink_block. rewrite (nth_map_lt _ _ _ 0%nat) by (rewrite seq_length; exact Hj).
    rewrite seq_nth by exact Hj. cbn [Nat.add].
    assert (Hin : (i < n)%nat) by (unfold i, n; lia).
    assert (Hgn : (predc n i < n)%nat) by (apply predc_lt; exact Hin).
    assert (Hhm : (predc m j < m)%nat) by (apply predc_lt; exact Hj).
    unfold mink_quad, mink_quad64.
    rewrite !tget_tmp by assumption. reflexivity.
  - intros x _. apply mink_block_length.
  - rewrite seq_length. exact Hi'.
  - exact Hj.
Qed.

(* ------------------------------------------------------------------ *)
(* exact (unbounded) arithmetic *)

Definition pt_op (s : bool) (a b : pt) : pt :=
  if s then (px a + px b, py a + py b) else (px a - px b, py a - py b).

Definition mink_exact_quad (s : bool) (a b u v : pt) : list pt :=
  [pt_op s a u; pt_op s b u; pt_op s b v; pt_op s a v].

(* exact doubled signed area, the same traversal as Area64 but over Z *)
Fixpoint shoelace_go (prev : pt) (l : list pt) : Z :=
  match l with
  | [] => 0
  | q :: t => (py prev + py q) * (px prev - px q) + shoelace_go q t
  end.
Definition shoelace2_exact (l : list pt) : Z := shoelace_go (last l (0, 0)) l.

Lemma shoelace2_rev4 a b c d :
  shoelace2_exact (rev [a; b; c; d]) = - shoelace2_exact [a; b; c; d].
Proof.
  unfold shoelace2_exact. cbn [rev app last shoelace_go]. ring.
Qed.

(* the wrapped accumulator is the wrap of the exact sum, for every list *)
Lemma mul64_add_sub a b c d :
  mul64 (add64 a b) (sub64 c d) = wrap64 ((a + b) * (c - d)).
Proof. unfold mul64, add64, sub64. rewrite wrap64_mul_l, wrap64_mul_r. reflexivity. Qed.

Lemma area2_go_wrap l : forall acc prev,
  wrap64 (area2_go acc prev l) = wrap64 (acc + shoelace_go prev l).
Proof.
  induction l as [|q t IH]; intros acc prev; cbn [area2_go shoelace_go].
  - f_equal. lia.
  - rewrite IH. rewrite mul64_add_sub. unfold add64.
    rewrite wrap64_add_l.
    replace (acc + wrap64 ((py prev + py q) * (px prev - px q)) + shoelace_go q t)
      with (acc + shoelace_go q t + wrap64 ((py prev + py q) * (px prev - px q))) by lia.
    rewrite wrap64_add_r. f_equal. lia.
Qed.

Lemma area2_go_in64 l : forall acc prev, in64 acc -> in64 (area2_go acc prev l).
Proof.
  induction l as [|q t IH]; intros acc prev Hacc; cbn [area2_go]; [exact Hacc|].
  apply IH. apply wrap64_range.
Qed.

Lemma quad_area2_wrap l :
  (3 <= length l)%nat -> quad_area2 l = wrap64 (shoelace2_exact l).
Proof.
  intros Hl. unfold quad_area2, shoelace2_exact.
  destruct (Nat.ltb_spec (length l) 3) as [Hlt|_]; [lia|].
  rewrite <- (wrap64_id (area2_go 0 (last l (0, 0)) l)).
  - rewrite area2_go_wrap. f_equal.
  - apply area2_go_in64. unfold in64, two63. lia.
Qed.

(* the quads are parallelograms: exact doubled area = +-2 * cross product of
   the path edge with the pattern edge *)
Definition par_cross (a b u v : pt) : Z :=
  (px b - px a) * (py v - py u) - (py b - py a) * (px v - px u).

Lemma mink_exact_quad_area s a b u v :
  shoelace2_exact (mink_exact_quad s a b u v) =
  (if s then 2 else -2) * par_cross a b u v.
Proof.
  unfold shoelace2_exact, mink_exact_quad, par_cross, pt_op.
  destruct s; cbn [last shoelace_go px py fst snd]; ring.
Qed.

Lemma abs_mul_le a b A B : Z.abs a <= A -> Z.abs b <= B -> Z.abs (a * b) <= A * B.
Proof.
  intros Ha Hb. rewrite Z.abs_mul.
  apply Z.mul_le_mono_nonneg; try assumption; apply Z.abs_nonneg.
Qed.

Lemma par_cross_bound a b u v :
  coord_ok two29 a -> coord_ok two29 b -> coord_ok two29 u -> coord_ok two29 v ->
  Z.abs (par_cross a b u v) <= 2305843009213693952 (* 2^61 *).
Proof.
  unfold coord_ok, par_cross, two29. intros [Ha1 Ha2] [Hb1 Hb2] [Hu1 Hu2] [Hv1 Hv2].
  assert (H1 : Z.abs (px b - px a) <= 1073741824) by lia.
  assert (H2 : Z.abs (py v - py u) <= 1073741824) by lia.
  assert (H3 : Z.abs (py b - py a) <= 1073741824) by lia.
  assert (H4 : Z.abs (px v - px u) <= 1073741824) by lia.
  pose proof (abs_mul_le _ _ _ _ H1 H2) as P1.
  pose proof (abs_mul_le _ _ _ _ H3 H4) as P2.
  remember ((px b - px a) * (py v - py u)) as X.
  remember ((py b - py a) * (px v - px u)) as Y.
  change (1073741824 * 1073741824) with 1152921504606846976 in *.
  lia.
Qed.

Lemma pt_op64_exact s a u :
  coord_ok two29 a -> coord_ok two29 u -> pt_op64 s a u = pt_op s a u.
Proof.
  unfold coord_ok, two29, pt_op64, pt_op, pt_add64, pt_sub64, add64, sub64.
  intros [Ha1 Ha2] [Hu1 Hu2].
  destruct s; f_equal; apply wrap64_id; unfold in64, two63; lia.
Qed.

Lemma mink_quad64_exact s a b u v :
  coord_ok two29 a -> coord_ok two29 b -> coord_ok two29 u -> coord_ok two29 v ->
  mink_quad64 s a b u v = mink_exact_quad s a b u v.
Proof.
  intros Ha Hb Hu Hv. unfold mink_quad64, mink_exact_quad.
  rewrite !pt_op64_exact by assumption. reflexivity.
Qed.

(* in range, Area64's accumulator on a Minkowski quad is the exact value *)
Lemma mink_exact_quad_area2 s a b u v :
  coord_ok two29 a -> coord_ok two29 b -> coord_ok two29 u -> coord_ok two29 v ->
  quad_area2 (mink_exact_quad s a b u v) = shoelace2_exact (mink_exact_quad s a b u v).
Proof.
  intros Ha Hb Hu Hv.
  rewrite quad_area2_wrap by (cbn; lia).
  apply wrap64_id. rewrite mink_exact_quad_area.
  pose proof (par_cross_bound a b u v Ha Hb Hu Hv) as HB.
  remember (par_cross a b u v) as X.
  unfold in64, two63. destruct s; lia.
Qed.

Lemma mink_orient_exact s a b u v :
  coord_ok two29 a -> coord_ok two29 b -> coord_ok two29 u -> coord_ok two29 v ->
  let Q := mink_exact_quad s a b u v in
  mink_orient Q = if 0 <=? shoelace2_exact Q then Q else rev Q.
Proof.
  intros Ha Hb Hu Hv Q. unfold mink_orient, IsPositive64, ReversePath.
  unfold Q. rewrite mink_exact_quad_area2 by assumption.
  destruct (0 <=? _); reflexivity.
Qed.

Lemma path_ok_nth B l k : path_ok B l -> (k < length l)%nat -> coord_ok B (nth k l (0, 0)).
Proof.
  intros Hl Hk. unfold path_ok in Hl.
  exact (proj1 (Forall_forall _ _) Hl _ (nth_In _ _ Hk)).
Qed.

(* Position k = i' * patLen + j of the result, when nothing wraps
   (|coordinates| <= 2^29 for pattern and path).  i = delta + i' is the Go loop
   variable; the path edge is (a,b) = (p[pred i], p[i]) where pred is cyclic
   (only i = 0, closed, uses the wrap-around); the pattern edge is
   (u,v) = (pat[(j-1) mod patLen], pat[j]). *)
Theorem mink_quads pat p s c r :
  path_ok two29 pat -> path_ok two29 p ->
  minkowskiInternal pat p s c = MOk r ->
  forall i' j, (i' < length p - mink_delta c)%nat -> (j < length pat)%nat ->
  let n := length p in
  let m := length pat in
  let i := (mink_delta c + i')%nat in
  let a := nth (predc n i) p (0, 0) in
  let b := nth i p (0, 0) in
  let u := nth (predc m j) pat (0, 0) in
  let v := nth j pat (0, 0) in
  let Q := [pt_op s a u; pt_op s b u; pt_op s b v; pt_op s a v] in
  nth (i' * m + j) r [] = (if 0 <=? shoelace2_exact Q then Q else rev Q).
Proof.
  intros Hpat Hp H i' j Hi' Hj. cbv zeta.
  pose proof (mink_quads_wrap pat p s c r H i' j Hi' Hj) as HW. cbv zeta in HW.
  rewrite HW. clear HW.
  set (i := (mink_delta c + i')%nat).
  set (a := nth (predc (length p) i) p (0, 0)).
  set (b := nth i p (0, 0)).
  set (u := nth (predc (length pat) j) pat (0, 0)).
  set (v := nth j pat (0, 0)).
  assert (Hin : (i < length p)%nat) by (unfold i; lia).
  assert (Ha : coord_ok two29 a) by (apply path_ok_nth; [exact Hp|apply predc_lt; exact Hin]).
  assert (Hb : coord_ok two29 b) by (apply path_ok_nth; [exact Hp|exact Hin]).
  assert (Hu : coord_ok two29 u) by (apply path_ok_nth; [exact Hpat|apply predc_lt; exact Hj]).
  assert (Hv : coord_ok two29 v) by (apply path_ok_nth; [exact Hpat|exact Hj]).
  rewrite mink_quad64_exact by assumption.
  exact (mink_orient_exact s a b u v Ha Hb Hu Hv).
Qed.

(* the two cases spelled out, "up to reversal" *)
Corollary mink_quads_open pat p s r :
  path_ok two29 pat -> path_ok two29 p ->
  minkowskiInternal pat p s false = MOk r ->
  forall i' j, (i' < length p - 1)%nat -> (j < length pat)%nat ->
  let m := length pat in
  let a := nth i' p (0, 0) in
  let b := nth (S i') p (0, 0) in
  let u := nth ((j + m - 1) mod m) pat (0, 0) in
  let v := nth j pat (0, 0) in
  let Q := [pt_op s a u; pt_op s b u; pt_op s b v; pt_op s a v] in
  nth (i' * m + j) r [] = Q \/ nth (i' * m + j) r [] = rev Q.
Proof.
  intros Hpat Hp H i' j Hi' Hj m a b u v Q.
  pose proof (mink_quads pat p s false r Hpat Hp H i' j Hi' Hj) as HQ.
  cbn [mink_delta Nat.add predc] in HQ. cbv zeta in HQ.
  rewrite (predc_mod _ _ Hj) in HQ. fold m a b u v Q in HQ.
  rewrite HQ. destruct (0 <=? _); [left|right]; reflexivity.
Qed.

Corollary mink_quads_closed pat p s r :
  path_ok two29 pat -> path_ok two29 p ->
  minkowskiInternal pat p s true = MOk r ->
  forall i j, (i < length p)%nat -> (j < length pat)%nat ->
  let n := length p in
  let m := length pat in
  let a := nth ((i + n - 1) mod n) p (0, 0) in
  let b := nth i p (0, 0) in
  let u := nth ((j + m - 1) mod m) pat (0, 0) in
  let v := nth j pat (0, 0) in
  let Q := [pt_op s a u; pt_op s b u; pt_op s b v; pt_op s a v] in
  nth (i * m + j) r [] = Q \/ nth (i * m + j) r [] = rev Q.
Proof.
  intros Hpat Hp H i j Hi Hj n m a b u v Q.
  assert (Hi' : (i < length p - mink_delta true)%nat) by (cbn [mink_delta]; lia).
  pose proof (mink_quads pat p s true r Hpat Hp H i j Hi' Hj) as HQ.
  cbn [mink_delta Nat.add] in HQ. cbv zeta in HQ.
  rewrite (predc_mod _ _ Hj), (predc_mod _ _ Hi) in HQ. fold n m a b u v Q in HQ.
  rewrite HQ. destruct (0 <=? _); [left|right]; reflexivity.
Qed.

(* ================================================================== *)
(* (d) orientation of the output *)

Theorem mink_positive pat p s c r :
  path_ok two29 pat -> path_ok two29 p ->
  minkowskiInternal pat p s c = MOk r ->
  forall q, In q r -> 0 <= shoelace2_exact q.
Proof.
  intros Hpat Hp H q Hq.
  destruct (In_nth r q [] Hq) as (k & Hk & Hnth).
  destruct (mink_count pat p s c r H) as [Hlen _].
  fold (mink_delta c) in Hlen. rewrite Hlen in Hk.
  set (m := length pat) in *.
  assert (Hm : (0 < m)%nat) by (destruct m; [lia|lia]).
  assert (Hj : (k mod m < m)%nat) by (apply Nat.mod_upper_bound; lia).
  assert (Hi' : (k / m < length p - mink_delta c)%nat)
    by (apply Nat.div_lt_upper_bound; [lia|rewrite Nat.mul_comm; exact Hk]).
  pose proof (mink_quads pat p s c r Hpat Hp H (k / m)%nat (k mod m)%nat Hi' Hj) as HQ.
  cbv zeta in HQ. fold m in HQ.
  replace (k / m * m + k mod m)%nat with k in HQ
    by (rewrite (Nat.div_mod k m) at 1 by lia; lia).
  rewrite <- Hnth, HQ. clear HQ.
  match goal with |- 0 <= shoelace2_exact (if 0 <=? shoelace2_exact ?Q then _ else _) =>
    destruct (Z.leb_spec 0 (shoelace2_exact Q)) as [Hpos|Hneg]; [exact Hpos|];
    rewrite shoelace2_rev4; lia
  end.
Qed.

(* ... and the Go predicate itself holds of every element of the output:
   on the emitted quad (reversed or not) Area64's accumulator does not wrap *)
Lemma mink_exact_quad_area2_any s a b u v q :
  coord_ok two29 a -> coord_ok two29 b -> coord_ok two29 u -> coord_ok two29 v ->
  q = mink_exact_quad s a b u v \/ q = rev (mink_exact_quad s a b u v) ->
  quad_area2 q = shoelace2_exact q.
Proof.
  intros Ha Hb Hu Hv [->| ->]; [apply mink_exact_quad_area2; assumption|].
  rewrite quad_area2_wrap by (cbn; lia).
  apply wrap64_id. unfold mink_exact_quad at 1. rewrite shoelace2_rev4.
  fold (mink_exact_quad s a b u v). rewrite mink_exact_quad_area.
  pose proof (par_cross_bound a b u v Ha Hb Hu Hv) as HB.
  remember (par_cross a b u v) as X.
  unfold in64, two63. destruct s; lia.
Qed.

Theorem mink_IsPositive64 pat p s c r :
  path_ok two29 pat -> path_ok two29 p ->
  minkowskiInternal pat p s c = MOk r ->
  forall q, In q r -> IsPositive64 q = true.
Proof.
  intros Hpat Hp H q Hq.
  pose proof (mink_positive pat p s c r Hpat Hp H q Hq) as Hpos.
  destruct (In_nth r q [] Hq) as (k & Hk & Hnth).
  destruct (mink_count pat p s c r H) as [Hlen _].
  fold (mink_delta c) in Hlen. rewrite Hlen in Hk.
  set (m := length pat) in *.
  assert (Hm : (0 < m)%nat) by (destruct m; [lia|lia]).
  assert (Hj : (k mod m < m)%nat) by (apply Nat.mod_upper_bound; lia).
  assert (Hi' : (k / m < length p - mink_delta c)%nat)
    by (apply Nat.div_lt_upper_bound; [lia|rewrite Nat.mul_comm; exact Hk]).
  pose proof (mink_quads pat p s c r Hpat Hp H (k / m)%nat (k mod m)%nat Hi' Hj) as HQ.
  cbv zeta in HQ. fold m in HQ.
  replace (k / m * m + k mod m)%nat with k in HQ
    by (rewrite (Nat.div_mod k m) at 1 by lia; lia).
  rewrite Hnth in HQ.
  assert (Hin : (mink_delta c + k / m < length p)%nat) by lia.
  unfold IsPositive64. apply Z.leb_le.
  rewrite (mink_exact_quad_area2_any s
             (nth (predc (length p) (mink_delta c + k / m)) p (0, 0))
             (nth (mink_delta c + k / m) p (0, 0))
             (nth (predc m (k mod m)) pat (0, 0))
             (nth (k mod m) pat (0, 0)) q).
  - exact Hpos.
  - apply path_ok_nth; [exact Hp|apply predc_lt; exact Hin].
  - apply path_ok_nth; [exact Hp|exact Hin].
  - apply path_ok_nth; [exact Hpat|apply predc_lt; exact Hj].
  - apply path_ok_nth; [exact Hpat|exact Hj].
  - unfold mink_exact_quad. rewrite HQ.
    destruct (0 <=? _); [left|right]; reflexivity.
Qed.

Print Assumptions mink_total.
Print Assumptions mink_never_panics.
Print Assumptions mink_empty_open.
Print Assumptions mink_empty_path.
Print Assumptions mink_count.
Print Assumptions mink_inner_full.
Print Assumptions mink_spec.
Print Assumptions mink_quads_wrap.
Print Assumptions mink_quads.
Print Assumptions mink_quads_open.
Print Assumptions mink_quads_closed.
Print Assumptions mink_exact_quad_area.
Print Assumptions mink_positive.
Print Assumptions mink_IsPositive64.
