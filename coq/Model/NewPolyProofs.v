(* Model/NewPolyProofs.v — the decision at the end of intersectEdges (two crossing edges, neither of them
   "hot": does a new output polygon start at the crossing?), as translated from /repo/clipper_base.go on
   every run (Gen/NewPoly_gen.v), agrees with the contribution rule (Gen/Decisions_gen.v, proved in
   Model/DecisionProofs.v to be "the expected region differs across the edge"): for two edges of the SAME
   path set, which see the same winding count c of the other set, a polygon starts exactly when both edges
   are contributing with their updated wind counts. *)
From Coq Require Import ZArith Bool Lia.
From Clip Require Import Base.Geom Gen.Decisions_gen Gen.NewPoly_gen Model.DecisionProofs.
Open Scope Z_scope.

(* how intersectEdges normalises a wind count before the comparison with 0 / 1 *)
Definition norm (fr : fillrule) (w : Z) : Z :=
  match fr with Positive => w | Negative => - w | _ => Z.abs w end.

Ltac zc2 :=
  rewrite ?Z.gtb_ltb, ?Z.geb_leb in *;
  repeat match goal with
  | |- context [Z.eqb ?a ?b] => destruct (Z.eqb_spec a b)
  | |- context [Z.ltb ?a ?b] => destruct (Z.ltb_spec a b)
  | |- context [Z.leb ?a ?b] => destruct (Z.leb_spec a b)
  end; cbn [negb andb orb] in *.

Theorem newpoly_same_set_is_both_contributing :
  forall fr ct w1 w2 c is_subj,
    ct <> NoClip -> counts_ok fr w1 c -> counts_ok fr w2 c ->
    gen_newpoly fr ct c c is_subj (norm fr w1) (norm fr w2) true =
    gen_isContributingClosed fr ct w1 c is_subj && gen_isContributingClosed fr ct w2 c is_subj.
Proof.
  intros fr ct w1 w2 c s Hct [Hw1 He1] [Hw2 He2].
  destruct fr.
  - destruct (He1 eq_refl) as [[A|A] [B|B]], (He2 eq_refl) as [[A'|A'] _]; subst;
    destruct ct, s; try reflexivity; exfalso; apply Hct; reflexivity.
  - clear He1 He2. unfold gen_newpoly, gen_isContributingClosed, norm.
    destruct ct, s; try (exfalso; apply Hct; reflexivity); cbn [negb andb orb]; zc2; try reflexivity; try lia.
  - clear He1 He2. unfold gen_newpoly, gen_isContributingClosed, norm.
    destruct ct, s; try (exfalso; apply Hct; reflexivity); cbn [negb andb orb]; zc2; try reflexivity; try lia.
  - clear He1 He2. unfold gen_newpoly, gen_isContributingClosed, norm.
    destruct ct, s; try (exfalso; apply Hct; reflexivity); cbn [negb andb orb]; zc2; try reflexivity; try lia.
Qed.

(* edges of different path sets: a polygon always starts (both counts having passed the 0-or-1 filter earlier
   in intersectEdges) *)
Theorem newpoly_other_set :
  forall fr ct c1 c2 is_subj o1 o2, gen_newpoly fr ct c1 c2 is_subj o1 o2 false = true.
Proof. intros. unfold gen_newpoly. destruct fr; reflexivity. Qed.
