(* Model/WrapperIR.v — a small deep embedding of the Go subset in which the
   library's wrapper functions are written, and a symbolic big-step
   interpreter for it.  The terms themselves (Gen/Wrappers_gen.v) are printed
   from /repo's current source by harness/translate.go on every run; this file
   gives them meaning.

   Values are SYMBOLIC: inputs are opaque symbols and the primitives (the
   engine's addPaths/execute, the scale helpers, math.Pow, the 64-bit clippers
   that are not themselves translated) are uninterpreted applications.  Two
   wrapper calls are "the same computation" when they evaluate to the same
   term.  Conditions on symbolic values are decided by an explicit list of
   assumptions; an undecided condition makes the evaluation stuck, and no
   theorem accepts a stuck result. *)
From Coq Require Import String List ZArith Bool Ascii.
Import ListNotations.
Open Scope string_scope.

Inductive expr :=
| EVar (x : string)
| EInt (n : Z)
| EFloat (s : string)
| EBool (b : bool)
| ENil
| ECall (f : string) (args : list expr)
| EMeth (recv : expr) (m : string) (args : list expr)
| EField (e : expr) (f : string)
| EIndex (e i : expr)
| EBin (op : string) (a b : expr)
| EUn (op : string) (a : expr)
| EAddr (e : expr)
| EDeref (e : expr)
| ESlice0 (e : expr)
| EComposite (ty : string) (fields : list (string * expr))
| EMake (ty : string) (args : list expr)
| EUnsupported (what : string).

Inductive stmt :=
| SAssign (lhs rhs : expr)
| SExpr (e : expr)
| SIf (c : expr) (th el : list stmt)
| SReturn (es : list expr)
| SPanic (e : expr)
| SRangeAppend (elem : string) (coll dst f : expr)   (* for _, elem := range coll { dst = append(dst, f) } *)
| SRangeIndex (idx elem : string) (coll : expr) (dst : string) (f : expr)
                                                     (* dst := make(T, len(coll)); for idx, elem := range coll { dst[idx] = f } *)
| SUnsupported (what : string).

Record func := mkFunc {
  fname : string;                       (* "Name" or "recvtype.Name" *)
  frecv : option string;                (* receiver variable name *)
  fparams : list string;
  fvariadic : bool;                     (* last parameter is variadic *)
  fbody : list stmt }.

Inductive val :=
| VSym (name : string)
| VInt (z : Z)
| VFloat (s : string)
| VBool (b : bool)
| VNil
| VEmpty                                  (* an empty, non-nil slice *)
| VList (l : list val)                    (* a concrete slice (variadic arguments) *)
| VApp (f : string) (args : list val)     (* uninterpreted application *)
| VRec (ty : string) (fields : list (string * val))
| VPtr (cell : string)
| VMap (f : val) (coll : val)             (* the slice [f(x) | x in coll]; f mentions VSym "$elem" *)
| VStuck (why : string).

Inductive outcome :=
| ONormal                                  (* fell off the end / continue *)
| OReturn (vs : list val)
| OPanic (v : val)
| OStuck (why : string).

Definition store := list (string * val).

Fixpoint lookup (s : store) (x : string) : option val :=
  match s with
  | [] => None
  | (y, v) :: t => if String.eqb x y then Some v else lookup t x
  end.
Definition update (s : store) (x : string) (v : val) : store := (x, v) :: s.

Fixpoint field_get (fs : list (string * val)) (f : string) : option val :=
  match fs with
  | [] => None
  | (g, v) :: t => if String.eqb f g then Some v else field_get t f
  end.
Fixpoint field_set (fs : list (string * val)) (f : string) (v : val) : list (string * val) :=
  match fs with
  | [] => [(f, v)]
  | (g, w) :: t => if String.eqb f g then (g, v) :: t else (g, w) :: field_set t f v
  end.

(* structural equality of symbolic values (for assumption lookup) *)
Fixpoint val_eqb (a b : val) {struct a} : bool :=
  let fix list_eqb (l1 l2 : list val) {struct l1} : bool :=
    match l1, l2 with
    | [], [] => true
    | x :: t1, y :: t2 => val_eqb x y && list_eqb t1 t2
    | _, _ => false
    end in
  let fix fields_eqb (l1 l2 : list (string * val)) {struct l1} : bool :=
    match l1, l2 with
    | [], [] => true
    | (f, x) :: t1, (g, y) :: t2 => String.eqb f g && val_eqb x y && fields_eqb t1 t2
    | _, _ => false
    end in
  match a, b with
  | VSym x, VSym y => String.eqb x y
  | VInt x, VInt y => Z.eqb x y
  | VFloat x, VFloat y => String.eqb x y
  | VBool x, VBool y => Bool.eqb x y
  | VNil, VNil => true
  | VEmpty, VEmpty => true
  | VList x, VList y => list_eqb x y
  | VApp f x, VApp g y => String.eqb f g && list_eqb x y
  | VRec t x, VRec u y => String.eqb t u && fields_eqb x y
  | VPtr x, VPtr y => String.eqb x y
  | VMap f x, VMap g y => val_eqb f g && val_eqb x y
  | VStuck x, VStuck y => String.eqb x y
  | _, _ => false
  end.

Section Interp.
  Variable funcs : list func.
  (* assumptions deciding symbolic conditions *)
  Variable assume : val -> option bool.
  (* primitives that mutate their receiver (first argument is a pointer to the object) *)
  Variable mutators : list string.
  (* primitives that return a pointer to a fresh object *)
  Variable allocators : list string.

  Fixpoint find_func (l : list func) (n : string) : option func :=
    match l with
    | [] => None
    | f :: t => if String.eqb (fname f) n then Some f else find_func t n
    end.

  Definition is_mutator (n : string) : bool := existsb (String.eqb n) mutators.

  (* concrete evaluation of the few operators the wrappers use *)
  Definition bin_op (op : string) (a b : val) : val :=
    match op, a, b with
    | "==", VInt x, VInt y => VBool (Z.eqb x y)
    | "!=", VInt x, VInt y => VBool (negb (Z.eqb x y))
    | "<", VInt x, VInt y => VBool (Z.ltb x y)
    | ">", VInt x, VInt y => VBool (Z.gtb x y)
    | "<=", VInt x, VInt y => VBool (Z.leb x y)
    | ">=", VInt x, VInt y => VBool (Z.geb x y)
    | "||", VBool x, VBool y => VBool (x || y)
    | "&&", VBool x, VBool y => VBool (x && y)
    | "!=", VNil, VNil => VBool false
    | "==", VNil, VNil => VBool true
    | "!=", VEmpty, VNil => VBool true
    | "!=", VList _, VNil => VBool true
    | "!=", VMap _ _, VNil => VBool true
    | _, _, _ => VApp op [a; b]
    end.

  Definition truth (c : val) : option bool :=
    match c with
    | VBool b => Some b
    | _ => assume c
    end.

  Definition is_allocator (n : string) : bool := existsb (String.eqb n) allocators.

  Definition to_ident (c : nat) : string :=
    "#" ++ String (ascii_of_nat (48 + c / 100 mod 10)) (String (ascii_of_nat (48 + c / 10 mod 10)) (String (ascii_of_nat (48 + c mod 10)) "")).

  (* state: store, counter for fresh frames/cells *)
  Record st := mkSt { sto : store; ctr : nat }.

  Definition mangle (frame : string) (x : string) : string := frame ++ "." ++ x.

  (* evaluation of expressions; [frame] names the current activation.
     Calls need the statement interpreter, so both are defined together on fuel. *)
  Fixpoint eval (fuel : nat) (frame : string) (s : st) (e : expr) {struct fuel} : st * val :=
    match fuel with
    | O => (s, VStuck "fuel")
    | S fuel' =>
      let eval_list := fix eval_list (s : st) (es : list expr) : st * list val :=
        match es with
        | [] => (s, [])
        | e :: t => let '(s1, v) := eval fuel' frame s e in
                    let '(s2, vs) := eval_list s1 t in
                    match v with
                    | VApp "$spread" [VList l] => (s2, app l vs)
                    | _ => (s2, v :: vs)
                    end
        end in
      match e with
      | EVar x => match lookup (sto s) (mangle frame x) with
                  | Some v => (s, v)
                  | None => (s, VSym x)             (* package-level constant or enum value *)
                  end
      | EInt n => (s, VInt n)
      | EFloat f => (s, VFloat f)
      | EBool b => (s, VBool b)
      | ENil => (s, VNil)
      | EUnsupported w => (s, VStuck ("unsupported expression: " ++ w))
      | EBin op a b => let '(s1, va) := eval fuel' frame s a in
                       let '(s2, vb) := eval fuel' frame s1 b in
                       (s2, bin_op op va vb)
      | EUn op a => let '(s1, va) := eval fuel' frame s a in
                    match op, va with
                    | "!", _ => match truth va with
                                | Some b => (s1, VBool (negb b))
                                | None => (s1, VApp "unary!" [va])
                                end
                    | "-", VInt z => (s1, VInt (- z))
                    | "spread", _ => (s1, VApp "$spread" [va])
                    | _, _ => (s1, VApp ("unary" ++ op) [va])
                    end
      | EAddr (EVar x) => (s, VPtr (mangle frame x))
      | EAddr e1 => (* &T{...}: allocate a cell *)
          let '(s1, v) := eval fuel' frame s e1 in
          let cell := "cell" ++ to_ident (ctr s1) in
          (mkSt (update (sto s1) cell v) (S (ctr s1)), VPtr cell)
      | EDeref e1 => let '(s1, v) := eval fuel' frame s e1 in
                     match v with
                     | VPtr c => match lookup (sto s1) c with Some w => (s1, w) | None => (s1, VStuck "dangling pointer") end
                     | _ => (s1, VStuck "deref of non-pointer")
                     end
      | ESlice0 e1 => let '(s1, _) := eval fuel' frame s e1 in (s1, VEmpty)
      | EComposite ty fs =>
          let fix go (s : st) (fs : list (string * expr)) : st * list (string * val) :=
            match fs with
            | [] => (s, [])
            | (f, e1) :: t => let '(s1, v) := eval fuel' frame s e1 in
                              let '(s2, r) := go s1 t in (s2, (f, v) :: r)
            end in
          let '(s1, vs) := go s fs in
          match fs with
          | [] => (s1, VEmpty)                       (* T{} of a slice type: empty slice *)
          | _ => (s1, VRec ty vs)
          end
      | EMake ty args => (s, VEmpty)                 (* make(T, 0[, cap]): an empty slice *)
      | EField e1 f => let '(s1, v) := eval fuel' frame s e1 in
                       let r := match v with
                                | VPtr c => match lookup (sto s1) c with Some w => w | None => VStuck "dangling pointer" end
                                | w => w
                                end in
                       match r with
                       | VRec _ fs =>
                           match field_get fs f with
                           | Some w => (s1, w)
                           | None =>
                               (* promoted field of an embedded object *)
                               match field_get fs "clipperBase" with
                               | Some (VPtr c) => match lookup (sto s1) c with Some w => (s1, VApp ("field." ++ f) [w]) | None => (s1, VStuck "dangling") end
                               | _ => (s1, VStuck ("no field " ++ f))
                               end
                           end
                       | _ => (s1, VApp ("field." ++ f) [r])
                       end
      | EIndex e1 i => let '(s1, v) := eval fuel' frame s e1 in
                       let '(s2, vi) := eval fuel' frame s1 i in
                       match v, vi with
                       | VList l, VInt z => (s2, nth (Z.to_nat z) l (VStuck "index out of range"))
                       | _, _ => (s2, VApp "index" [v; vi])
                       end
      | ECall "len" [a] => let '(s1, v) := eval fuel' frame s a in
                           match v with
                           | VList l => (s1, VInt (Z.of_nat (length l)))
                           | VEmpty => (s1, VInt 0)
                           | _ => (s1, VApp "len" [v])
                           end
      | ECall f args =>
          let '(s1, vs) := eval_list s args in
          match find_func funcs f with
          | Some fn => call fuel' s1 fn None vs
          | None =>
              if is_allocator f then
                let cell := "cell" ++ to_ident (ctr s1) in
                (mkSt (update (sto s1) cell (VApp f vs)) (S (ctr s1)), VPtr cell)
              else (s1, VApp f vs)
          end
      | EMeth r m args =>
          let '(s1, vr) := eval fuel' frame s r in
          let '(s2, vs) := eval_list s1 args in
          method fuel' s2 vr m vs
      end
    end
  (* call a translated function: bind parameters in a fresh frame, run the body *)
  with call (fuel : nat) (s : st) (fn : func) (recv : option val) (args : list val) {struct fuel} : st * val :=
    match fuel with
    | O => (s, VStuck "fuel")
    | S fuel' =>
      let frame := "f" ++ to_ident (ctr s) in
      let s0 := mkSt (sto s) (S (ctr s)) in
      let nfix := length (fparams fn) - (if fvariadic fn then 1 else 0) in
      let fixed := firstn nfix args in
      let rest := skipn nfix args in
      let bind := fix bind (sto0 : store) (ps : list string) (vs : list val) : store :=
        match ps, vs with
        | p :: pt, v :: vt => bind (update sto0 (mangle frame p) v) pt vt
        | _, _ => sto0
        end in
      let sto1 := bind (sto s0) (firstn nfix (fparams fn)) fixed in
      let sto2 := if fvariadic fn then update sto1 (mangle frame (last (fparams fn) "")) (VList rest) else sto1 in
      let sto3 := match frecv fn, recv with Some rn, Some rv => update sto2 (mangle frame rn) rv | _, _ => sto2 end in
      let '(s1, o) := exec fuel' frame (mkSt sto3 (ctr s0)) (fbody fn) in
      match o with
      | OReturn [v] => (s1, v)
      | OReturn [] => (s1, VNil)
      | OReturn vs => (s1, VList vs)
      | ONormal => (s1, VNil)
      | OPanic v => (s1, VApp "$panic" [v])
      | OStuck w => (s1, VStuck w)
      end
    end
  (* method call on a (pointer to a) record: translated method, else promoted from an
     embedded field, else an uninterpreted primitive (possibly mutating its receiver) *)
  with method (fuel : nat) (s : st) (vr : val) (m : string) (args : list val) {struct fuel} : st * val :=
    match fuel with
    | O => (s, VStuck "fuel")
    | S fuel' =>
      let obj := match vr with
                 | VPtr c => match lookup (sto s) c with Some w => w | None => VStuck "dangling" end
                 | w => w
                 end in
      match obj with
      | VRec ty fs =>
          match find_func funcs (ty ++ "." ++ m) with
          | Some fn => call fuel' s fn (Some vr) args
          | None =>
              (* promotion: look for an embedded field (field named like its type) that has the method *)
              let fix promote (l : list (string * val)) : option val :=
                match l with
                | [] => None
                | (f, v) :: t => if String.eqb f "clipperBase" || String.eqb f "PolyPathBase" || String.eqb f "RectClip64" then Some v else promote t
                end in
              match promote fs with
              | Some emb => method fuel' s emb m args
              | None => (s, VApp (ty ++ "." ++ m) (vr :: args))
              end
          end
      | _ =>
          (* primitive object (e.g. the clipperBase engine): uninterpreted; mutators update the cell *)
          let name := m in
          match vr with
          | VPtr c =>
              if is_mutator name then
                (* value arguments: pointers are out-parameters, represented by "_" *)
                let vargs := map (fun a => match a with
                                           | VPtr p => match lookup (sto s) p with
                                                       | Some (VApp g l) => VApp g l
                                                       | Some (VRec t l) => VRec t l
                                                       | _ => VSym "_"
                                                       end
                                           | _ => a end) args in
                let newobj := VApp name (obj :: vargs) in
                let sto1 := update (sto s) c newobj in
                let fix outs (sto0 : store) (l : list val) (i : nat) : store :=
                  match l with
                  | [] => sto0
                  | VPtr p :: t => outs (update sto0 p (VApp (name ++ ".out" ++ to_ident i) (obj :: vargs))) t (S i)
                  | _ :: t => outs sto0 t (S i)
                  end in
                (mkSt (outs sto1 args 0) (ctr s), VApp (name ++ ".result") (obj :: vargs))
              else (s, VApp name (obj :: args))
          | _ => (s, VApp name (obj :: args))
          end
      end
    end
  with exec (fuel : nat) (frame : string) (s : st) (body : list stmt) {struct fuel} : st * outcome :=
    match fuel with
    | O => (s, OStuck "fuel")
    | S fuel' =>
      match body with
      | [] => (s, ONormal)
      | stt :: rest =>
        let continue_ (s : st) := exec fuel' frame s rest in
        match stt with
        | SUnsupported w => (s, OStuck ("unsupported statement: " ++ w))
        | SExpr e => let '(s1, v) := eval fuel' frame s e in
                     match v with
                     | VApp "$panic" [p] => (s1, OPanic p)
                     | VStuck w => (s1, OStuck w)
                     | _ => continue_ s1
                     end
        | SPanic e => let '(s1, v) := eval fuel' frame s e in (s1, OPanic v)
        | SReturn es =>
            let fix go (s : st) (es : list expr) : st * list val :=
              match es with
              | [] => (s, [])
              | e :: t => let '(s1, v) := eval fuel' frame s e in let '(s2, r) := go s1 t in (s2, v :: r)
              end in
            let '(s1, vs) := go s es in
            match vs with
            | [VApp "$panic" [p]] => (s1, OPanic p)
            | [VStuck w] => (s1, OStuck w)
            | _ => (s1, OReturn vs)
            end
        | SAssign lhs rhs =>
            let '(s1, v) := eval fuel' frame s rhs in
            match v with
            | VApp "$panic" [p] => (s1, OPanic p)
            | VStuck w => (s1, OStuck w)
            | _ =>
              match lhs with
              | EVar x => continue_ (mkSt (update (sto s1) (mangle frame x) v) (ctr s1))
              | EDeref e1 =>
                  let '(s2, p) := eval fuel' frame s1 e1 in
                  match p with
                  | VPtr c => continue_ (mkSt (update (sto s2) c v) (ctr s2))
                  | _ => (s2, OStuck "assignment through a non-pointer")
                  end
              | EField e1 f =>
                  let '(s2, p) := eval fuel' frame s1 e1 in
                  match p with
                  | VPtr c => match lookup (sto s2) c with
                              | Some (VRec ty fs) =>
                                  match field_get fs f, field_get fs "clipperBase" with
                                  | None, Some (VPtr cb) =>
                                      match lookup (sto s2) cb with
                                      | Some w => continue_ (mkSt (update (sto s2) cb (VApp ("set." ++ f) [w; v])) (ctr s2))
                                      | None => (s2, OStuck "dangling embedded object")
                                      end
                                  | _, _ => continue_ (mkSt (update (sto s2) c (VRec ty (field_set fs f v))) (ctr s2))
                                  end
                              | Some (VApp g a) => continue_ (mkSt (update (sto s2) c (VApp ("set." ++ f) [VApp g a; v])) (ctr s2))
                              | _ => (s2, OStuck "field assignment on unknown object")
                              end
                  | _ => (s2, OStuck "field assignment through a non-pointer")
                  end
              | _ => (s1, OStuck "unsupported assignment target")
              end
            end
        | SIf c th el =>
            let '(s1, vc) := eval fuel' frame s c in
            match truth vc with
            | Some true => let '(s2, o) := exec fuel' frame s1 th in
                           match o with ONormal => continue_ s2 | _ => (s2, o) end
            | Some false => let '(s2, o) := exec fuel' frame s1 el in
                            match o with ONormal => continue_ s2 | _ => (s2, o) end
            | None => (s1, OStuck "undecided condition")
            end
        | SRangeIndex idx elem coll dst f =>
            let '(s1, vcoll) := eval fuel' frame s coll in
            let s2 := mkSt (update (sto s1) (mangle frame elem) (VSym "$elem")) (ctr s1) in
            let '(s3, vf) := eval fuel' frame s2 f in
            continue_ (mkSt (update (sto s3) (mangle frame dst) (VMap vf vcoll)) (ctr s3))
        | SRangeAppend elem coll dst f =>
            (* dst = dst ++ [f(elem) | elem in coll]; supported when dst is empty so far *)
            let '(s1, vcoll) := eval fuel' frame s coll in
            let '(s2, vdst) := eval fuel' frame s1 dst in
            let s3 := mkSt (update (sto s2) (mangle frame elem) (VSym "$elem")) (ctr s2) in
            let '(s4, vf) := eval fuel' frame s3 f in
            let result := match vdst with
                          | VEmpty => VMap vf vcoll
                          | VNil => VMap vf vcoll
                          | _ => VApp "append_all" [vdst; VMap vf vcoll]
                          end in
            match dst with
            | EVar x => continue_ (mkSt (update (sto s4) (mangle frame x) result) (ctr s4))
            | EDeref e1 =>
                let '(s5, p) := eval fuel' frame s4 e1 in
                match p with
                | VPtr c => continue_ (mkSt (update (sto s5) c result) (ctr s5))
                | _ => (s5, OStuck "range-append through a non-pointer")
                end
            | _ => (s4, OStuck "unsupported range-append target")
            end
        end
      end
    end.

  (* read a result back: pointers are replaced by what they point to in the final store *)
  Fixpoint resolve (fuel : nat) (sto0 : store) (v : val) {struct fuel} : val :=
    match fuel with
    | O => v
    | S fuel' =>
      match v with
      | VPtr c => match lookup sto0 c with Some w => resolve fuel' sto0 w | None => v end
      | VRec ty fs => VRec ty (map (fun fv => (fst fv, resolve fuel' sto0 (snd fv))) fs)
      | VApp f args => VApp f (map (resolve fuel' sto0) args)
      | VList l => VList (map (resolve fuel' sto0) l)
      | VMap f c => VMap (resolve fuel' sto0 f) (resolve fuel' sto0 c)
      | _ => v
      end
    end.

  (* run a translated function on symbolic arguments *)
  Definition run_func (name : string) (args : list val) : val :=
    match find_func funcs name with
    | Some fn => let '(s1, v) := call 2000 (mkSt [] 0) fn None args in resolve 12 (sto s1) v
    | None => VStuck ("no such function: " ++ name)
    end.
End Interp.
