(* Model/MeasuresProofs.v — theorems about the models of Model/Measures.v.
   Everything is closed with Qed; no axioms. *)
From Coq Require Import ZArith Lia List Bool Arith.
From Clip Require Import Base.Int64 Model.Arith Model.ArithProofs Model.Measures.
Import ListNotations.
Open Scope Z_scope.

(* ------------------------------------------------------------------ *)
(* (a) Area64: the accumulator is the shoelace sum modulo 2^64         *)
(* ------------------------------------------------------------------ *)

Lemma area_term_wrap a y1 y2 x1 x2 :
  add64 (wrap64 a) (mul64 (add64 y1 y2) (sub64 x1 x2))
  = wrap64 (a + (y1 + y2) * (x1 - x2)).
Proof.
  unfold add64, mul64, sub64.
  rewrite wrap64_mul_l, wrap64_mul_r, wrap64_add_l, wrap64_add_r.
  reflexivity.
Qed.

Lemma area2_loop_wrap : forall l prev a,
  area2_loop prev l (wrap64 a) = wrap64 (shoelace_loop prev l a).
Proof.
  induction l as [|p tl IH]; intros prev a; cbn [area2_loop shoelace_loop].
  - reflexivity.
  - rewrite area_term_wrap. apply IH.
Qed.

Lemma wrap64_0 : wrap64 0 = 0.
Proof. reflexivity. Qed.

(* holds for every path: int64 arithmetic is arithmetic modulo 2^64 *)
Theorem area_wrap_any : forall p, area2_model p = wrap64 (shoelace2 p).
Proof.
  intros p. unfold area2_model, shoelace2.
  destruct (length p <? 3)%nat.
  - symmetry. exact wrap64_0.
  - exact (area2_loop_wrap p (last p (0, 0)) 0).
Qed.

Theorem area_wrap : forall p, path_ok two29 p -> area2_model p = wrap64 (shoelace2 p).
Proof. intros p _. apply area_wrap_any. Qed.

(* no coordinate hypothesis is needed: only the final sum has to fit *)
Theorem area_exact_any : forall p,
  Z.abs (shoelace2 p) < two63 -> area2_model p = shoelace2 p.
Proof.
  intros p H. rewrite area_wrap_any. apply wrap64_id_abs. exact H.
Qed.

Theorem area_exact : forall p,
  path_ok two29 p -> Z.abs (shoelace2 p) < two63 -> area2_model p = shoelace2 p.
Proof. intros p _ H. apply area_exact_any. exact H. Qed.

Theorem area64_twice_exact : forall p,
  path_ok two29 p -> Z.abs (shoelace2 p) < two63 ->
  Area64_twice p = round53 (shoelace2 p).
Proof. intros p Hp H. unfold Area64_twice. rewrite area_exact by assumption. reflexivity. Qed.

(* a sufficient condition on the input alone: each term is at most 2^60 in
   magnitude, so up to 7 vertices within 2^29 can never overflow *)
Lemma shoelace_loop_bound : forall l prev a,
  coord_ok two29 prev -> path_ok two29 l ->
  Z.abs (shoelace_loop prev l a) <= Z.abs a + Z.of_nat (length l) * (two31 * two29).
Proof.
  induction l as [|p tl IH]; intros prev a Hprev Hl.
  - cbn [shoelace_loop length]. lia.
  - inversion Hl as [|p' tl' Hp Htl]; subst.
    cbn [shoelace_loop]. specialize (IH p (a + (py prev + py p) * (px prev - px p)) Hp Htl).
    destruct Hprev as [Hx1 Hy1]. destruct Hp as [Hx2 Hy2].
    assert (Hs : Z.abs (py prev + py p) <= 2 * two29) by lia.
    assert (Hd : Z.abs (px prev - px p) <= 2 * two29) by lia.
    pose proof (mul_abs_bound _ _ _ Hs Hd) as Hm.
    set (t := (py prev + py p) * (px prev - px p)) in *. clearbody t.
    replace (length (p :: tl)) with (S (length tl)) by reflexivity.
    rewrite Nat2Z.inj_succ.
    set (n := Z.of_nat (length tl)) in *. clearbody n.
    unfold two31, two29 in *. lia.
Qed.

Lemma path_ok_last : forall p d, path_ok two29 p -> coord_ok two29 d -> coord_ok two29 (last p d).
Proof.
  induction p as [|a tl IH]; intros d Hp Hd.
  - exact Hd.
  - inversion Hp as [|a' tl' Ha Htl]; subst.
    destruct tl as [|b tl2].
    + exact Ha.
    + change (last (a :: b :: tl2) d) with (last (b :: tl2) d). apply IH; assumption.
Qed.

Theorem area_exact_short : forall p,
  path_ok two29 p -> (length p <= 7)%nat -> area2_model p = shoelace2 p.
Proof.
  intros p Hp Hlen. apply area_exact_any.
  unfold shoelace2. destruct (length p <? 3)%nat.
  - unfold two63. lia.
  - assert (H0 : coord_ok two29 (0, 0)).
    { unfold coord_ok, px, py, two29. cbn [fst snd]. lia. }
    pose proof (shoelace_loop_bound p (last p (0, 0)) 0
                  (path_ok_last p (0, 0) Hp H0) Hp) as Hb.
    assert (Hn : Z.of_nat (length p) <= 7) by lia.
    set (n := Z.of_nat (length p)) in *. clearbody n.
    unfold two31, two29, two63 in *. lia.
Qed.

(* ------------------------------------------------------------------ *)
(* (b) ... and beyond that the sign of the area can be wrong           *)
(* ------------------------------------------------------------------ *)

Definition big_square : path :=
  [(-two29, -two29); (two29, -two29); (two29, two29); (-two29, two29)].
Definition area_witness : path := big_square ++ big_square ++ big_square ++ big_square.

Lemma big_square_ok : path_ok two29 big_square.
Proof.
  unfold big_square. repeat constructor; unfold px, py, two29; cbn [fst snd]; lia.
Qed.

Theorem area_refuted : exists p,
  path_ok two29 p /\ (3 <= length p)%nat /\ Z.sgn (area2_model p) <> Z.sgn (shoelace2 p).
Proof.
  exists area_witness. split; [|split].
  - unfold area_witness, path_ok. repeat (apply Forall_app; split); apply big_square_ok.
  - cbn. lia.
  - vm_compute. discriminate.
Qed.

(* the witness in numbers: the true doubled area is +2^63, Go computes -2^63,
   IsPositive64 answers false for a positively oriented polygon *)
Theorem area_refuted_values :
  shoelace2 area_witness = two63 /\ area2_model area_witness = - two63
  /\ IsPositive64_model area_witness = false /\ length area_witness = 16%nat.
Proof. vm_compute. repeat split; reflexivity. Qed.

(* ------------------------------------------------------------------ *)
(* (c) IsPositive64                                                    *)
(* ------------------------------------------------------------------ *)

Theorem ispositive_exact : forall p,
  path_ok two29 p -> Z.abs (shoelace2 p) < two63 ->
  IsPositive64_model p = (0 <=? shoelace2 p).
Proof.
  intros p Hp H. unfold IsPositive64_model. rewrite area_exact by assumption. reflexivity.
Qed.

Theorem ispositive_refuted : exists p,
  path_ok two29 p /\ (3 <= length p)%nat /\ IsPositive64_model p <> (0 <=? shoelace2 p).
Proof.
  exists area_witness. split; [|split].
  - unfold area_witness, path_ok. repeat (apply Forall_app; split); apply big_square_ok.
  - cbn. lia.
  - vm_compute. discriminate.
Qed.

(* ------------------------------------------------------------------ *)
(* (d) GetBounds64 / getBounds compute the exact extremes              *)
(* ------------------------------------------------------------------ *)

Definition minF (acc x : Z) : Z := if x <? acc then x else acc.
Definition maxF (acc x : Z) : Z := if x >? acc then x else acc.

Lemma minF_min acc x : minF acc x = Z.min x acc.
Proof. unfold minF. destruct (Z.ltb_spec x acc); lia. Qed.

Lemma maxF_max acc x : maxF acc x = Z.max x acc.
Proof. unfold maxF. rewrite Z.gtb_ltb. destruct (Z.ltb_spec acc x); lia. Qed.

Lemma bounds_fold_split : forall p l t r b,
  fold_left bounds_step p (l, t, r, b)
  = (fold_left minF (map px p) l, fold_left minF (map py p) t,
     fold_left maxF (map px p) r, fold_left maxF (map py p) b).
Proof.
  induction p as [|a tl IH]; intros l t r b.
  - reflexivity.
  - cbn [fold_left map]. rewrite <- IH. reflexivity.
Qed.

Lemma fold_right_min_push : forall tl x y,
  fold_right Z.min (Z.min y x) tl = Z.min y (fold_right Z.min x tl).
Proof.
  induction tl as [|z tl IH]; intros x y; cbn [fold_right].
  - reflexivity.
  - rewrite IH. lia.
Qed.

Lemma fold_right_max_push : forall tl x y,
  fold_right Z.max (Z.max y x) tl = Z.max y (fold_right Z.max x tl).
Proof.
  induction tl as [|z tl IH]; intros x y; cbn [fold_right].
  - reflexivity.
  - rewrite IH. lia.
Qed.

Lemma fold_left_minF : forall tl x, fold_left minF tl x = fold_right Z.min x tl.
Proof.
  induction tl as [|y tl IH]; intros x; cbn [fold_left fold_right].
  - reflexivity.
  - rewrite IH, minF_min. apply fold_right_min_push.
Qed.

Lemma fold_left_maxF : forall tl x, fold_left maxF tl x = fold_right Z.max x tl.
Proof.
  induction tl as [|y tl IH]; intros x; cbn [fold_left fold_right].
  - reflexivity.
  - rewrite IH, maxF_max. apply fold_right_max_push.
Qed.

Lemma fold_minF_init : forall l a,
  l <> [] -> (forall y, In y l -> y <= a) -> fold_left minF l a = zmin_list l.
Proof.
  intros [|x tl] a Hne Hle; [congruence|].
  cbn [fold_left zmin_list].
  assert (Hx : x <= a) by (apply Hle; left; reflexivity).
  replace (minF a x) with x by (rewrite minF_min; lia).
  apply fold_left_minF.
Qed.

Lemma fold_maxF_init : forall l a,
  l <> [] -> (forall y, In y l -> a <= y) -> fold_left maxF l a = zmax_list l.
Proof.
  intros [|x tl] a Hne Hle; [congruence|].
  cbn [fold_left zmax_list].
  assert (Hx : a <= x) by (apply Hle; left; reflexivity).
  replace (maxF a x) with x by (rewrite maxF_max; lia).
  apply fold_left_maxF.
Qed.

Definition pt_in64 (q : pt) : Prop := in64 (px q) /\ in64 (py q).

Lemma map_neq_nil {A B} (f : A -> B) (l : list A) : l <> [] -> map f l <> [].
Proof. destruct l; cbn; congruence. Qed.

(* the loop itself: exact for every non-empty path of int64 points *)
Theorem bounds_loop_exact : forall p,
  p <> [] -> Forall pt_in64 p -> bounds_loop p = bounds_spec p.
Proof.
  intros p Hne Hp. unfold bounds_loop, rect_invalid, bounds_spec.
  rewrite bounds_fold_split.
  rewrite Forall_forall in Hp.
  assert (Hx : forall y, In y (map px p) -> in64 y).
  { intros y Hy. apply in_map_iff in Hy. destruct Hy as [q [<- Hq]]. apply (Hp q Hq). }
  assert (Hy : forall y, In y (map py p) -> in64 y).
  { intros y Hy. apply in_map_iff in Hy. destruct Hy as [q [<- Hq]]. apply (Hp q Hq). }
  rewrite (fold_minF_init (map px p)), (fold_minF_init (map py p)),
          (fold_maxF_init (map px p)), (fold_maxF_init (map py p)); try reflexivity;
    try (apply map_neq_nil; exact Hne).
  - intros y Hin. apply Hy in Hin. unfold in64, minint64 in *. lia.
  - intros y Hin. apply Hx in Hin. unfold in64, minint64 in *. lia.
  - intros y Hin. apply Hy in Hin. unfold in64, maxint64, two63 in *. lia.
  - intros y Hin. apply Hx in Hin. unfold in64, maxint64, two63 in *. lia.
Qed.

Theorem getBounds_exact : forall p,
  p <> [] -> Forall pt_in64 p -> getBounds_model p = bounds_spec p.
Proof.
  intros p Hne Hp. unfold getBounds_model. destruct p as [|a tl]; [congruence|].
  apply bounds_loop_exact; assumption.
Qed.

Theorem getBounds_exact_empty : getBounds_model [] = (0, 0, 0, 0).
Proof. reflexivity. Qed.

(* GetBounds64 uses left == MaxInt64 as its "empty" test, so the smallest
   x-coordinate must not be MaxInt64 *)
Theorem bounds_exact_gen : forall p,
  p <> [] -> Forall pt_in64 p -> zmin_list (map px p) <> maxint64 ->
  GetBounds64_model p = bounds_spec p.
Proof.
  intros p Hne Hp Hm. unfold GetBounds64_model.
  rewrite bounds_loop_exact by assumption. unfold bounds_spec.
  destruct (Z.eqb_spec (zmin_list (map px p)) maxint64); [contradiction|reflexivity].
Qed.

Theorem bounds_exact_empty : GetBounds64_model [] = (0, 0, 0, 0).
Proof. reflexivity. Qed.

(* zmin_list / zmax_list are what they say *)
Lemma zmin_list_spec : forall l, l <> [] ->
  In (zmin_list l) l /\ forall x, In x l -> zmin_list l <= x.
Proof.
  intros [|x tl] Hne; [congruence|]. clear Hne. cbn [zmin_list].
  induction tl as [|y tl [IHin IHle]].
  - cbn. split; [left; reflexivity|]. intros z [<-|[]]. lia.
  - cbn [fold_right]. split.
    + destruct (Z.min_spec y (fold_right Z.min x tl)) as [[_ ->]|[_ ->]].
      * right; left; reflexivity.
      * destruct IHin as [E|Hin]; [left; exact E|right; right; exact Hin].
    + intros z [<-|[<-|Hz]].
      * specialize (IHle x (or_introl eq_refl)). lia.
      * lia.
      * specialize (IHle z (or_intror Hz)). lia.
Qed.

Lemma zmax_list_spec : forall l, l <> [] ->
  In (zmax_list l) l /\ forall x, In x l -> x <= zmax_list l.
Proof.
  intros [|x tl] Hne; [congruence|]. clear Hne. cbn [zmax_list].
  induction tl as [|y tl [IHin IHle]].
  - cbn. split; [left; reflexivity|]. intros z [<-|[]]. lia.
  - cbn [fold_right]. split.
    + destruct (Z.max_spec y (fold_right Z.max x tl)) as [[_ ->]|[_ ->]].
      * destruct IHin as [E|Hin]; [left; exact E|right; right; exact Hin].
      * right; left; reflexivity.
    + intros z [<-|[<-|Hz]].
      * specialize (IHle x (or_introl eq_refl)). lia.
      * lia.
      * specialize (IHle z (or_intror Hz)). lia.
Qed.

Lemma path_ok_in64 : forall p, path_ok two29 p -> Forall pt_in64 p.
Proof.
  intros p Hp. unfold path_ok in Hp. rewrite Forall_forall in *.
  intros q Hq. destruct (Hp q Hq) as [Hx Hy].
  unfold pt_in64, in64, two29, two63 in *. lia.
Qed.

Theorem bounds_exact : forall p,
  p <> [] -> path_ok two29 p -> GetBounds64_model p = bounds_spec p.
Proof.
  intros p Hne Hp. apply bounds_exact_gen; [exact Hne|apply path_ok_in64; exact Hp|].
  destruct (zmin_list_spec (map px p) (map_neq_nil px p Hne)) as [Hin _].
  apply in_map_iff in Hin. destruct Hin as [q [Hq Hqin]].
  unfold path_ok in Hp. rewrite Forall_forall in Hp. destruct (Hp q Hqin) as [Hx _].
  rewrite <- Hq. unfold two29, maxint64 in *. lia.
Qed.

(* the same statement without reference to zmin_list / zmax_list *)
Theorem bounds_exact_char : forall p l t r b,
  p <> [] -> path_ok two29 p -> GetBounds64_model p = (l, t, r, b) ->
  (exists q, In q p /\ px q = l) /\ (forall q, In q p -> l <= px q) /\
  (exists q, In q p /\ py q = t) /\ (forall q, In q p -> t <= py q) /\
  (exists q, In q p /\ px q = r) /\ (forall q, In q p -> px q <= r) /\
  (exists q, In q p /\ py q = b) /\ (forall q, In q p -> py q <= b).
Proof.
  intros p l t r b Hne Hp Heq.
  rewrite bounds_exact in Heq by assumption. unfold bounds_spec in Heq.
  injection Heq as <- <- <- <-.
  destruct (zmin_list_spec (map px p) (map_neq_nil px p Hne)) as [A1 A2].
  destruct (zmin_list_spec (map py p) (map_neq_nil py p Hne)) as [B1 B2].
  destruct (zmax_list_spec (map px p) (map_neq_nil px p Hne)) as [C1 C2].
  destruct (zmax_list_spec (map py p) (map_neq_nil py p Hne)) as [D1 D2].
  apply in_map_iff in A1, B1, C1, D1.
  repeat split.
  - destruct A1 as [q [E I]]; exists q; split; assumption.
  - intros q Hq. apply A2. apply in_map. exact Hq.
  - destruct B1 as [q [E I]]; exists q; split; assumption.
  - intros q Hq. apply B2. apply in_map. exact Hq.
  - destruct C1 as [q [E I]]; exists q; split; assumption.
  - intros q Hq. apply C2. apply in_map. exact Hq.
  - destruct D1 as [q [E I]]; exists q; split; assumption.
  - intros q Hq. apply D2. apply in_map. exact Hq.
Qed.

(* ------------------------------------------------------------------ *)
(* (e) StripDuplicates                                                 *)
(* ------------------------------------------------------------------ *)

Lemma pt_eqb_eq a b : pt_eqb a b = true <-> a = b.
Proof.
  destruct a as [ax ay], b as [bx by_]. unfold pt_eqb, px, py. cbn [fst snd].
  rewrite andb_true_iff, !Z.eqb_eq. split.
  - intros [-> ->]. reflexivity.
  - intros E. injection E as -> ->. split; reflexivity.
Qed.

Lemma pt_eqb_neq a b : pt_eqb a b = false <-> a <> b.
Proof.
  split.
  - intros H E. apply pt_eqb_eq in E. congruence.
  - intros H. destruct (pt_eqb a b) eqn:E; [|reflexivity].
    apply pt_eqb_eq in E. contradiction.
Qed.

(* no two equal adjacent elements *)
Fixpoint no_adj_dup (l : path) : Prop :=
  match l with
  | a :: tl => match tl with b :: _ => a <> b | [] => True end /\ no_adj_dup tl
  | [] => True
  end.

(* l1 is a subsequence of l2 (order preserved, elements dropped) *)
Inductive subseq : path -> path -> Prop :=
| subseq_nil : subseq [] []
| subseq_skip : forall x l1 l2, subseq l1 l2 -> subseq l1 (x :: l2)
| subseq_keep : forall x l1 l2, subseq l1 l2 -> subseq (x :: l1) (x :: l2).

Lemma subseq_nil_l : forall l, subseq [] l.
Proof. induction l; constructor; assumption. Qed.

Lemma subseq_removelast : forall l1 l2, subseq l1 l2 -> subseq (removelast l1) l2.
Proof.
  intros l1 l2 H. induction H as [|x l1 l2 H IH|x l1 l2 H IH].
  - constructor.
  - constructor. exact IH.
  - destruct l1 as [|y l1'].
    + cbn. apply subseq_nil_l.
    + change (removelast (x :: y :: l1')) with (x :: removelast (y :: l1')).
      apply subseq_keep. exact IH.
Qed.

Lemma strip_loop_subseq : forall l a, subseq (strip_loop a l) l.
Proof.
  induction l as [|p tl IH]; intros a; cbn [strip_loop].
  - constructor.
  - destruct (pt_eqb a p); [apply subseq_skip|apply subseq_keep]; apply IH.
Qed.

Lemma strip_loop_nad : forall l a, no_adj_dup (a :: strip_loop a l).
Proof.
  induction l as [|p tl IH]; intros a; cbn [strip_loop].
  - cbn. tauto.
  - destruct (pt_eqb a p) eqn:E.
    + apply IH.
    + apply pt_eqb_neq in E. specialize (IH p).
      cbn [no_adj_dup] in *. split; [exact E|exact IH].
Qed.

Lemma nad_removelast : forall l, no_adj_dup l -> no_adj_dup (removelast l).
Proof.
  induction l as [|a tl IH]; intros H.
  - exact I.
  - destruct tl as [|b tl2].
    + exact I.
    + change (removelast (a :: b :: tl2)) with (a :: removelast (b :: tl2)).
      destruct H as [Hab Htl]. specialize (IH Htl).
      destruct tl2 as [|c tl3].
      * cbn. tauto.
      * change (removelast (b :: c :: tl3)) with (b :: removelast (c :: tl3)) in *.
        split; [exact Hab|exact IH].
Qed.

Lemma nad_last_removelast : forall l d,
  no_adj_dup l -> (2 <= length l)%nat -> last (removelast l) d <> last l d.
Proof.
  induction l as [|a tl IH]; intros d H Hlen.
  - cbn in Hlen. lia.
  - destruct tl as [|b tl2]; [cbn in Hlen; lia|].
    destruct tl2 as [|c tl3].
    + cbn. destruct H as [Hab _]. exact Hab.
    + change (removelast (a :: b :: c :: tl3)) with (a :: removelast (b :: c :: tl3)).
      change (removelast (b :: c :: tl3)) with (b :: removelast (c :: tl3)).
      change (last (a :: b :: removelast (c :: tl3)) d)
        with (last (b :: removelast (c :: tl3)) d).
      change (last (a :: b :: c :: tl3) d) with (last (b :: c :: tl3) d).
      change (b :: removelast (c :: tl3)) with (removelast (b :: c :: tl3)).
      apply IH; [apply H|cbn; lia].
Qed.

Lemma last_cons_indep : forall (l : path) a d d', last (a :: l) d = last (a :: l) d'.
Proof.
  induction l as [|b tl IH]; intros a d d'.
  - reflexivity.
  - change (last (a :: b :: tl) d) with (last (b :: tl) d).
    change (last (a :: b :: tl) d') with (last (b :: tl) d'). apply IH.
Qed.

Theorem strip_spec : forall p c,
  let r := StripDuplicates_model p c in
  no_adj_dup r /\ subseq r p /\
  (c = true -> (length r <= 1)%nat \/ forall d, last r d <> hd d r).
Proof.
  intros p c. destruct p as [|a tl].
  - cbn. repeat split; [constructor|]. intros _. left. lia.
  - cbn [StripDuplicates_model]. cbv zeta.
    pose proof (strip_loop_nad tl a) as Hnad.
    assert (Hsub : subseq (a :: strip_loop a tl) (a :: tl)).
    { apply subseq_keep. apply strip_loop_subseq. }
    set (res := a :: strip_loop a tl) in *.
    destruct (c && pt_eqb (last res a) a) eqn:E.
    + apply andb_true_iff in E. destruct E as [_ E]. apply pt_eqb_eq in E.
      split; [apply nad_removelast; exact Hnad|].
      split; [apply subseq_removelast; exact Hsub|].
      intros _.
      destruct (le_lt_dec (length (removelast res)) 1) as [Hle|Hgt]; [left; exact Hle|].
      right. intros d.
      assert (Hlen : (2 <= length res)%nat).
      { unfold res in *. destruct (strip_loop a tl) as [|b s]; cbn in *; lia. }
      pose proof (nad_last_removelast res d Hnad Hlen) as Hne.
      assert (Hl : last res d = a).
      { unfold res in *. rewrite (last_cons_indep _ a d a). exact E. }
      assert (Hh : hd d (removelast res) = a).
      { unfold res in *. destruct (strip_loop a tl) as [|b s]; [cbn in Hlen; lia|].
        reflexivity. }
      rewrite Hh, <- Hl. exact Hne.
    + split; [exact Hnad|]. split; [exact Hsub|].
      intros ->. cbn [andb] in E. apply pt_eqb_neq in E.
      right. intros d. unfold res in *. cbn [hd].
      rewrite (last_cons_indep _ a d a). exact E.
Qed.

(* an open path keeps its first point *)
Theorem strip_open_hd : forall a tl d, hd d (StripDuplicates_model (a :: tl) false) = a.
Proof. intros. reflexivity. Qed.

(* the only indexed accesses of the Go code are path[0] (guarded by cnt == 0),
   path[i] for 1 <= i < cnt, result[0] and removeAtIndex(result, len(result)-1);
   result always contains path[0], so the last index is in range and the
   panic(ErrInvalidRemoveListIndex) branch is dead.  The model is structurally
   recursive, so this is all there is to say. *)
Theorem strip_total : forall a tl,
  let result := a :: strip_loop a tl in
  (0 <= length result - 1 < length result)%nat /\ nth_error result 0 = Some a.
Proof. intros a tl. cbn. split; [lia|reflexivity]. Qed.

(* ------------------------------------------------------------------ *)
(* (f) PointInPolygon = even-odd specification on the 3x3 grid         *)
(* ------------------------------------------------------------------ *)

Definition grid_of (xs : list Z) : list pt := flat_map (fun x => map (fun y => (x, y)) xs) xs.
Definition grid3 : list pt := grid_of [0; 1; 2].
Definition grid5 : list pt := grid_of [-1; 0; 1; 2; 3].

Fixpoint tuples (n : nat) : list path :=
  match n with
  | O => [[]]
  | S n' => flat_map (fun t => map (fun g => g :: t) grid3) (tuples n')
  end.

(* every vertex has the same y as the first one *)
Definition flatb (p : path) : bool :=
  match p with [] => true | a :: tl => forallb (fun b => py b =? py a) tl end.

Definition pip_agree (q : pt) (p : path) : bool := pip_model q p =? pip_spec q p.

Definition pip_check (n : nat) : bool :=
  forallb (fun p => flatb p || forallb (fun q => pip_agree q p) grid5) (tuples n).

Lemma pip_check_3 : pip_check 3 = true.
Proof. vm_compute. reflexivity. Qed.
Lemma pip_check_4 : pip_check 4 = true.
Proof. vm_compute. reflexivity. Qed.

Definition on_grid3 (v : pt) : Prop := 0 <= px v <= 2 /\ 0 <= py v <= 2.
Definition on_grid5 (v : pt) : Prop := -1 <= px v <= 3 /\ -1 <= py v <= 3.

Lemma on_grid3_in : forall v, on_grid3 v -> In v grid3.
Proof.
  intros [x y] [Hx Hy]. unfold px, py in *. cbn [fst snd] in *.
  assert (Ex : x = 0 \/ x = 1 \/ x = 2) by lia.
  assert (Ey : y = 0 \/ y = 1 \/ y = 2) by lia.
  destruct Ex as [-> | [-> | ->]]; destruct Ey as [-> | [-> | ->]]; cbn; tauto.
Qed.

Lemma on_grid5_in : forall v, on_grid5 v -> In v grid5.
Proof.
  intros [x y] [Hx Hy]. unfold px, py in *. cbn [fst snd] in *.
  assert (Ex : x = -1 \/ x = 0 \/ x = 1 \/ x = 2 \/ x = 3) by lia.
  assert (Ey : y = -1 \/ y = 0 \/ y = 1 \/ y = 2 \/ y = 3) by lia.
  destruct Ex as [->|[->|[-> | [-> | ->]]]]; destruct Ey as [->|[->|[-> | [-> | ->]]]]; cbn; tauto.
Qed.

Lemma tuples_complete : forall n p,
  length p = n -> Forall on_grid3 p -> In p (tuples n).
Proof.
  induction n as [|n IH]; intros p Hlen Hp.
  - destruct p; [left; reflexivity|discriminate].
  - destruct p as [|a tl]; [discriminate|].
    inversion Hp as [|a' tl' Ha Htl]; subst.
    cbn [tuples]. apply in_flat_map. exists tl. split.
    + apply IH; [cbn in Hlen; lia|exact Htl].
    + apply in_map_iff. exists a. split; [reflexivity|]. apply on_grid3_in. exact Ha.
Qed.

Lemma flatb_true : forall p a b, flatb p = true -> In a p -> In b p -> py a = py b.
Proof.
  intros [|h tl] a b H Ha Hb; [destruct Ha|].
  cbn [flatb] in H. rewrite forallb_forall in H.
  assert (Hh : forall v, In v (h :: tl) -> py v = py h).
  { intros v [<-|Hv]; [reflexivity|]. apply Z.eqb_eq. apply H. exact Hv. }
  rewrite (Hh a Ha), (Hh b Hb). reflexivity.
Qed.

(* For every polygon with 3 or 4 vertices in {0,1,2}^2 (repeated vertices,
   self-intersections and degenerate shapes included) that is not contained
   in one horizontal line, and every point q in {-1,..,3}^2, the Go algorithm
   agrees with the even-odd specification. *)
Theorem pip_model_eq_spec_small : forall q poly,
  on_grid5 q ->
  (length poly = 3 \/ length poly = 4)%nat ->
  Forall on_grid3 poly ->
  (exists a b, In a poly /\ In b poly /\ py a <> py b) ->
  pip_model q poly = pip_spec q poly.
Proof.
  intros q poly Hq Hlen Hp [a [b [Ha [Hb Hab]]]].
  assert (Hchk : pip_check (length poly) = true).
  { destruct Hlen as [E|E]; rewrite E; [exact pip_check_3|exact pip_check_4]. }
  unfold pip_check in Hchk. rewrite forallb_forall in Hchk.
  specialize (Hchk poly (tuples_complete _ poly eq_refl Hp)).
  apply orb_true_iff in Hchk. destruct Hchk as [Hflat|Hall].
  - exfalso. apply Hab. apply (flatb_true poly a b Hflat Ha Hb).
  - rewrite forallb_forall in Hall. specialize (Hall q (on_grid5_in q Hq)).
    unfold pip_agree in Hall. apply Z.eqb_eq. exact Hall.
Qed.

(* the excluded case is a real difference: a polygon lying in the horizontal
   line through q is reported IsOutside by the code even when q is on it *)
Theorem pip_flat_differs : exists q poly,
  on_grid3 q /\ length poly = 3%nat /\ Forall on_grid3 poly /\
  pip_model q poly = IsOutside /\ pip_spec q poly = IsOn.
Proof.
  exists (1, 0), [(0, 0); (2, 0); (1, 0)].
  split; [unfold on_grid3, px, py; cbn; lia|].
  split; [reflexivity|]. split.
  - repeat constructor; unfold px, py; cbn; lia.
  - vm_compute. split; reflexivity.
Qed.

(* ------------------------------------------------------------------ *)
(* (g) PointInPolygon terminates within its fuel and never indexes out *)
(*     of range: the model never returns pip_err                       *)
(* ------------------------------------------------------------------ *)

Lemma pip_start_le : forall qy l, (pip_start qy l <= length l)%nat.
Proof.
  induction l as [|p tl IH]; cbn [pip_start length]; [lia|].
  destruct (py p =? qy); lia.
Qed.

Lemma pip_start_prefix : forall qy l i c,
  (i < pip_start qy l)%nat -> nth_error l i = Some c -> py c = qy.
Proof.
  induction l as [|p tl IH]; intros i c Hi Hn; cbn [pip_start] in Hi; [lia|].
  destruct (Z.eqb_spec (py p) qy) as [E|E]; [|lia].
  destruct i as [|i].
  - cbn in Hn. injection Hn as <-. exact E.
  - cbn in Hn. apply (IH i c); [lia|exact Hn].
Qed.

Lemma nth_error_ex : forall (l : path) i, (i < length l)%nat -> exists c, nth_error l i = Some c.
Proof.
  intros l i Hi. destruct (nth_error l i) eqn:E; [eexists; reflexivity|].
  apply nth_error_None in E. lia.
Qed.

Lemma pip_skip_total : forall ab qy poly n i,
  (i + n <= length poly)%nat ->
  exists i2, pip_skip ab qy poly i n = Some i2 /\ (i <= i2 <= i + n)%nat.
Proof.
  induction n as [|n IH]; intros i Hi; cbn [pip_skip].
  - exists i. split; [reflexivity|lia].
  - destruct (nth_error_ex poly i ltac:(lia)) as [c Hc]. rewrite Hc.
    destruct (if ab then py c <? qy else py c >? qy).
    + destruct (IH (S i) ltac:(lia)) as [i2 [E Hr]]. exists i2. split; [exact E|lia].
    + exists i. split; [reflexivity|lia].
Qed.

Lemma pip_skip_stay : forall ab qy poly n i c,
  nth_error poly i = Some c -> py c = qy -> pip_skip ab qy poly i n = Some i.
Proof.
  intros ab qy poly n i c Hc E. destruct n as [|n]; cbn [pip_skip]; [reflexivity|].
  rewrite Hc, E. rewrite Z.ltb_irrefl, Z.gtb_ltb, Z.ltb_irrefl.
  destruct ab; reflexivity.
Qed.

Definition res_ok (r : Z) : Prop := r = IsOn \/ r = IsInside \/ r = IsOutside.

Section PipTotal.
  Context (q : pt) (poly : path).
  Let lenP := length poly.
  Let start := pip_start (py q) poly.
  Context (Hstart : (start < lenP)%nat).

  (* end is lenP during the first sweep (i runs from start+1 to lenP) and
     start during the second (i runs from 0 to start) *)
  Definition pip_inv (i e : nat) : Prop :=
    (e = lenP /\ start < i <= lenP)%nat \/ (e = start /\ 0 < start /\ i < start)%nat.

  Definition pip_mu (i e : nat) : nat :=
    if Nat.eqb e lenP then (lenP - i + 1 + start)%nat else (start - i)%nat.

  Lemma pip_mu_1 i : pip_mu i lenP = (lenP - i + 1 + start)%nat.
  Proof. unfold pip_mu. rewrite Nat.eqb_refl. reflexivity. Qed.

  Lemma pip_mu_2 i : pip_mu i start = (start - i)%nat.
  Proof.
    unfold pip_mu. destruct (Nat.eqb_spec start lenP) as [E|E]; [lia|reflexivity].
  Qed.

  Definition out_ok (o : pip_out) : Prop :=
    match o with
    | PipRet r => res_ok r
    | PipBreak i _ _ => (i <= lenP)%nat
    end.

  Lemma res_ok_IsOn : res_ok IsOn.
  Proof. left. reflexivity. Qed.

  Lemma pip_body_ok : forall (k : nat -> nat -> bool -> Z -> pip_out) M i e ab val,
    (forall i' e' ab' val', pip_inv i' e' -> (pip_mu i' e' < M)%nat -> out_ok (k i' e' ab' val')) ->
    pip_inv i e -> (i < e)%nat -> (pip_mu i e <= M)%nat ->
    out_ok (pip_body k q poly lenP start i e ab val).
  Proof.
    intros k M i e ab val Hk Hinv Hie Hmu. unfold pip_body.
    destruct Hinv as [[He Hi]|[He [Hs Hi]]]; subst e.
    - (* first sweep *)
      rewrite pip_mu_1 in Hmu.
      destruct (pip_skip_total ab (py q) poly (lenP - i) i ltac:(fold lenP; lia))
        as [i2 [Esk Hi2]].
      rewrite Esk.
      destruct (Nat.eqb_spec i2 lenP) as [E2|E2].
      + apply Hk; [left; lia|rewrite pip_mu_1; lia].
      + destruct (nth_error_ex poly i2 ltac:(fold lenP; lia)) as [curr Hcurr].
        destruct (nth_error_ex poly (if Nat.ltb 0 i2 then i2 - 1 else lenP - 1)%nat)
          as [prev Hprev].
        { fold lenP. destruct (Nat.ltb 0 i2); lia. }
        rewrite Hcurr, Hprev.
        assert (Hnext : forall ab' val', out_ok (k (S i2) lenP ab' val')).
        { intros ab' val'. apply Hk; [left; lia|rewrite pip_mu_1; lia]. }
        destruct (py curr =? py q).
        * destruct ((px curr =? px q)
                    || (py curr =? py prev)
                       && negb (Bool.eqb (px q <? px prev) (px q <? px curr))).
          -- exact res_ok_IsOn.
          -- destruct (Nat.eqb (S i2) start); [cbn; lia|apply Hnext].
        * destruct ((px q <? px curr) && (px q <? px prev)); [apply Hnext|].
          destruct ((px q >? px prev) && (px q >? px curr)); [apply Hnext|].
          cbv zeta.
          destruct (CrossProduct prev curr q =? 0); [exact res_ok_IsOn|apply Hnext].
    - (* second sweep: every vertex before start is level with q *)
      rewrite pip_mu_2 in Hmu.
      destruct (nth_error_ex poly i ltac:(fold lenP; lia)) as [curr Hcurr].
      assert (Ey : py curr = py q) by (apply (pip_start_prefix (py q) poly i curr); [exact Hi|exact Hcurr]).
      rewrite (pip_skip_stay ab (py q) poly (start - i) i curr Hcurr Ey).
      destruct (Nat.eqb_spec i start) as [E|_]; [lia|].
      destruct (nth_error_ex poly (if Nat.ltb 0 i then i - 1 else lenP - 1)%nat)
        as [prev Hprev].
      { fold lenP. destruct (Nat.ltb 0 i); lia. }
      rewrite Hcurr, Hprev. rewrite Ey, Z.eqb_refl.
      destruct ((px curr =? px q)
                || (py q =? py prev)
                   && negb (Bool.eqb (px q <? px prev) (px q <? px curr))).
      + exact res_ok_IsOn.
      + destruct (Nat.eqb_spec (S i) start) as [E|E]; [cbn; lia|].
        apply Hk; [right; lia|rewrite pip_mu_2; lia].
  Qed.

  Lemma pip_loop_ok : forall fuel i e ab val,
    pip_inv i e -> (pip_mu i e < fuel)%nat ->
    out_ok (pip_loop fuel q poly lenP start i e ab val).
  Proof.
    induction fuel as [|fuel IH]; intros i e ab val Hinv Hmu; [lia|].
    cbn [pip_loop]. cbv zeta.
    destruct (Nat.eqb_spec i e) as [Eie|Nie].
    - subst i. cbn [andb].
      destruct (Nat.eqb e 0 || Nat.eqb start 0) eqn:G.
      + cbn. destruct Hinv as [[He _]|[He [_ Hi]]]; lia.
      + apply orb_false_iff in G. destruct G as [_ G]. apply Nat.eqb_neq in G.
        destruct Hinv as [[He Hi]|[He [_ Hi]]]; [|lia]. subst e.
        rewrite pip_mu_1 in Hmu.
        apply (pip_body_ok _ fuel); [exact IH|right; lia|lia|rewrite pip_mu_2; lia].
    - cbn [andb].
      apply (pip_body_ok _ fuel); [exact IH|exact Hinv| |lia].
      destruct Hinv as [[He Hi]|[He [_ Hi]]]; lia.
  Qed.

  Lemma pip_finish_ok : forall sa i ab val,
    (1 <= lenP)%nat -> (i <= lenP)%nat -> res_ok (pip_finish q poly lenP sa i ab val).
  Proof.
    intros sa i ab val Hl Hi. unfold pip_finish.
    destruct (Bool.eqb ab sa).
    - destruct (val =? 0); [right; right; reflexivity|right; left; reflexivity].
    - cbv zeta.
      set (i' := if Nat.eqb i lenP then O else i).
      assert (Hi' : (i' < lenP)%nat).
      { unfold i'. destruct (Nat.eqb_spec i lenP); lia. }
      clearbody i'.
      destruct (Nat.eqb_spec i' 0) as [E|E].
      + destruct (nth_error_ex poly (lenP - 1) ltac:(fold lenP; lia)) as [a Ha].
        destruct (nth_error_ex poly 0 ltac:(fold lenP; lia)) as [b Hb].
        rewrite Ha, Hb.
        destruct (CrossProduct a b q =? 0); [exact res_ok_IsOn|].
        destruct ((if Bool.eqb (CrossProduct a b q <? 0) ab then 1 - val else val) =? 0);
          [right; right; reflexivity|right; left; reflexivity].
      + destruct (nth_error_ex poly (i' - 1) ltac:(fold lenP; lia)) as [a Ha].
        destruct (nth_error_ex poly i' ltac:(fold lenP; lia)) as [b Hb].
        rewrite Ha, Hb.
        destruct (CrossProduct a b q =? 0); [exact res_ok_IsOn|].
        destruct ((if Bool.eqb (CrossProduct a b q <? 0) ab then 1 - val else val) =? 0);
          [right; right; reflexivity|right; left; reflexivity].
  Qed.
End PipTotal.

(* no hypothesis on the coordinates or on the shape of the polygon *)
Theorem pip_total : forall q poly,
  pip_model q poly = IsOn \/ pip_model q poly = IsInside \/ pip_model q poly = IsOutside.
Proof.
  intros q poly. change (res_ok (pip_model q poly)). unfold pip_model. cbv zeta.
  destruct (Nat.ltb_spec (length poly) 3) as [Hlt|Hge]; [right; right; reflexivity|].
  destruct (Nat.eqb_spec (pip_start (py q) poly) (length poly)) as [E|E];
    [right; right; reflexivity|].
  pose proof (pip_start_le (py q) poly) as Hle.
  assert (Hst : (pip_start (py q) poly < length poly)%nat) by lia.
  destruct (nth_error_ex poly _ Hst) as [s Hs]. rewrite Hs.
  pose proof (pip_loop_ok q poly Hst (pip_fuel poly) (S (pip_start (py q) poly))
                (length poly) (py s <? py q) 0) as Hloop.
  assert (Hinv : pip_inv q poly (S (pip_start (py q) poly)) (length poly)).
  { left. lia. }
  assert (Hmu : (pip_mu q poly (S (pip_start (py q) poly)) (length poly) < pip_fuel poly)%nat).
  { rewrite pip_mu_1. unfold pip_fuel. lia. }
  specialize (Hloop Hinv Hmu).
  destruct (pip_loop (pip_fuel poly) q poly (length poly) (pip_start (py q) poly)
              (S (pip_start (py q) poly)) (length poly) (py s <? py q) 0) as [i ab val|r].
  - cbn in Hloop. apply pip_finish_ok; lia.
  - exact Hloop.
Qed.

Corollary pip_no_err : forall q poly, pip_model q poly <> pip_err.
Proof.
  intros q poly. destruct (pip_total q poly) as [E|[E|E]]; rewrite E; discriminate.
Qed.

(* ------------------------------------------------------------------ *)

Print Assumptions area_wrap.
Print Assumptions area_exact.
Print Assumptions area_exact_short.
Print Assumptions area_refuted.
Print Assumptions ispositive_exact.
Print Assumptions ispositive_refuted.
Print Assumptions bounds_exact.
Print Assumptions bounds_exact_char.
Print Assumptions getBounds_exact.
Print Assumptions strip_spec.
Print Assumptions strip_total.
Print Assumptions pip_model_eq_spec_small.
Print Assumptions pip_flat_differs.
Print Assumptions pip_total.
