(* Model/Minkowski.v — faithful executable model of minkowski.go:minkowskiInternal
   together with the two helpers it calls on every quad: clipper.go:IsPositive64
   (through Area64) and generics.go:ReversePath.  Definitions only, plus
   computational sanity checks (the expected values of the checks marked
   "Go" were produced by running the Go function itself); the theorems are in
   MinkowskiProofs.v.

   Go source being modelled (minkowski.go):

     delta := 1; if isClosed { delta = 0 }
     patLen := len(pattern); pathLen := len(path)
     tmp[i][j] = path[i] (+|-) pattern[j]            // int64, wraps
     resultCap := (pathLen-delta)*patLen
     if resultCap < 0 { resultCap = 0 }               // repair a8d04ba
     result := make(Paths64, 0, resultCap)            // make panics iff cap < 0
     g := 0; if isClosed { g = pathLen - 1 }
     h := patLen - 1
     for i := delta; i < pathLen; i++ {
       for j := 0; j < patLen; j++ {
         quad := Path64{tmp[g][h], tmp[i][h], tmp[i][j], tmp[g][j]}
         if !IsPositive64(quad) { result = append(result, ReversePath(quad)) }
         else                   { result = append(result, quad) }
         h = j
       }
       g = i
     }
     return result
*)
From Coq Require Import ZArith List Bool.
From Clip Require Import Base.Int64 Model.Arith.
Import ListNotations.
Open Scope Z_scope.

(* ------------------------------------------------------------------ *)
(* clipper.go:Area64, the int64 accumulator `a`:
       var a int64 = 0
       prevPt := path[len(path)-1]
       for _, pt := range path { a += (prevPt.Y + pt.Y) * (prevPt.X - pt.X); prevPt = pt }
   Every operation is a wrapping int64 operation. *)
Fixpoint area2_go (a : Z) (prev : pt) (l : list pt) : Z :=
  match l with
  | [] => a
  | q :: t =>
      area2_go (add64 a (mul64 (add64 (py prev) (py q)) (sub64 (px prev) (px q)))) q t
  end.

(* `if len(path) < 3 { return 0 }`, otherwise the accumulator above.  (Named
   quad_area2 because minkowskiInternal only ever applies it to 4 points; the
   definition is nevertheless the general one.) *)
Definition quad_area2 (l : list pt) : Z :=
  if (length l <? 3)%nat then 0 else area2_go 0 (last l (0, 0)) l.

(* clipper.go:IsPositive64 = Area64(poly) >= 0.  Area64 returns
   float64(decimal(a) * 0.5): decimal.New(a,0) is exact for every int64 (|a| <
   10^19), multiplying by 0.5 and rounding to 19 digits / to float64 preserves
   the sign and maps only 0 to 0, so `Area64(poly) >= 0` is `a >= 0`. *)
Definition IsPositive64 (q : list pt) : bool := 0 <=? quad_area2 q.

(* generics.go:ReversePath: rp[i] = p[n-1-i] *)
Definition ReversePath (q : list pt) : list pt := rev q.

(* ------------------------------------------------------------------ *)
(* minkowski.go:minkowskiInternal *)

Inductive mres := MOk (r : paths) | MPanic.

(* Point64{X: pathPt.X + basePt.X, Y: pathPt.Y + basePt.Y}   (int64, wraps) *)
Definition pt_add64 (a b : pt) : pt := (add64 (px a) (px b), add64 (py a) (py b)).
Definition pt_sub64 (a b : pt) : pt := (sub64 (px a) (px b), sub64 (py a) (py b)).

(* path2: one row of tmp, for path point q *)
Definition mink_row (pattern : list pt) (isSum : bool) (q : pt) : list pt :=
  if isSum then map (pt_add64 q) pattern else map (pt_sub64 q) pattern.

(* tmp: one row per path point *)
Definition mink_tmp (pattern path : list pt) (isSum : bool) : paths :=
  map (mink_row pattern isSum) path.

(* tmp[i][j].  Whenever the loop body runs, g,i < pathLen and h,j < patLen, so
   the Go index expressions never go out of range (MinkowskiProofs.v,
   mink_indices_in_range); the defaults are never used. *)
Definition tget (tmp : paths) (i j : nat) : pt := nth j (nth i tmp []) (0, 0).

Definition mink_quad (tmp : paths) (g i h j : nat) : list pt :=
  [tget tmp g h; tget tmp i h; tget tmp i j; tget tmp g j].

(* the if/else around append *)
Definition mink_orient (quad : list pt) : list pt :=
  if negb (IsPositive64 quad) then ReversePath quad else quad.

(* inner loop: `cnt` remaining iterations, loop variable j, carried variable h.
   Returns the final value of h and the quads appended, in order. *)
Fixpoint mink_inner (tmp : paths) (g i : nat) (cnt j h : nat) : nat * paths :=
  match cnt with
  | O => (h, [])
  | S cnt' =>
      let q := mink_orient (mink_quad tmp g i h j) in
      let (h', r) := mink_inner tmp g i cnt' (S j) j (* h = j; j++ *) in
      (h', q :: r)
  end.

(* outer loop: `cnt` remaining iterations, loop variable i, carried g and h
   (h is NOT reset between iterations of i: it is literally carried). *)
Fixpoint mink_outer (tmp : paths) (patLen : nat) (cnt i g h : nat) : paths :=
  match cnt with
  | O => []
  | S cnt' =>
      let (h', r) := mink_inner tmp g i patLen 0 h in
      r ++ mink_outer tmp patLen cnt' (S i) i (* g = i; i++ *) h'
  end.

(* The capacity expression is evaluated over Z so that its sign is visible:
   make(Paths64, 0, n) panics at run time ("makeslice: cap out of range") when
   n < 0.  Before commit a8d04ba the raw product (pathLen-delta)*patLen was
   passed to make, which is negative exactly for an empty open path with a
   non-empty pattern (a genuine defect, since repaired); the current code
   clamps it at 0 first.  The model keeps both steps literally: the clamp, then
   make's own test, so MPanic is still a constructor of the result type but is
   unreachable (MinkowskiProofs.v, mink_total).
   g and h are nat: in Go `g = pathLen-1` is -1 when the closed path is
   empty and `h = patLen-1` is -1 when the pattern is empty, but in both cases
   no loop body that reads them ever runs (pathLen-delta = 0 outer iterations,
   resp. 0 inner iterations), so the truncated subtraction is unobservable.
   Likewise the outer loop `for i := delta; i < pathLen; i++` runs
   max(0, pathLen-delta) times, which is the truncated nat subtraction. *)
Definition minkowskiInternal (pattern path : list pt) (isSum isClosed : bool) : mres :=
  let delta := if isClosed then 0%nat else 1%nat in
  let patLen := length pattern in
  let pathLen := length path in
  let tmp := mink_tmp pattern path isSum in
  let resultCap0 := (Z.of_nat pathLen - Z.of_nat delta) * Z.of_nat patLen in
  let resultCap := if resultCap0 <? 0 then 0 else resultCap0 in
  if resultCap <? 0 then MPanic (* make(Paths64, 0, resultCap) *)
  else
    let g := if isClosed then (pathLen - 1)%nat else 0%nat in
    let h := (patLen - 1)%nat in
    MOk (mink_outer tmp patLen (pathLen - delta) delta g h).

(* ------------------------------------------------------------------ *)
(* Computational sanity checks.  Every expected value below was produced by
   the Go code itself (an in-package test calling minkowskiInternal /
   IsPositive64 in a scratch copy of /repo), then pasted here. *)
Definition mk_sq  : list pt := [(0, 0); (10, 0); (10, 10); (0, 10)].
Definition mk_tri : list pt := [(0, 0); (5, 0); (0, 5)].
Definition mk_ln  : list pt := [(100, 100); (200, 100); (200, 300)].
Definition mk_big : Z := 9223372036854775807.

Example mink_go_e1 :
  minkowskiInternal mk_tri mk_ln true false =
  MOk
    [[(100, 100); (200, 100); (200, 105); (100, 105)];
     [(100, 100); (200, 100); (205, 100); (105, 100)];
     [(105, 100); (205, 100); (200, 105); (100, 105)];
     [(200, 105); (200, 305); (200, 300); (200, 100)];
     [(205, 100); (205, 300); (200, 300); (200, 100)];
     [(205, 100); (205, 300); (200, 305); (200, 105)]].
Proof. vm_compute. reflexivity. Qed.

Example mink_go_e2 :
  minkowskiInternal mk_tri mk_ln true true =
  MOk
    [[(200, 305); (100, 105); (100, 100); (200, 300)];
     [(200, 300); (100, 100); (105, 100); (205, 300)];
     [(200, 305); (100, 105); (105, 100); (205, 300)];
     [(100, 100); (200, 100); (200, 105); (100, 105)];
     [(100, 100); (200, 100); (205, 100); (105, 100)];
     [(105, 100); (205, 100); (200, 105); (100, 105)];
     [(200, 105); (200, 305); (200, 300); (200, 100)];
     [(205, 100); (205, 300); (200, 300); (200, 100)];
     [(205, 100); (205, 300); (200, 305); (200, 105)]].
Proof. vm_compute. reflexivity. Qed.

Example mink_go_e3 :
  minkowskiInternal mk_sq mk_ln false false =
  MOk
    [[(100, 90); (200, 90); (200, 100); (100, 100)];
     [(100, 100); (200, 100); (190, 100); (90, 100)];
     [(90, 90); (190, 90); (190, 100); (90, 100)];
     [(90, 90); (190, 90); (200, 90); (100, 90)];
     [(200, 90); (200, 290); (200, 300); (200, 100)];
     [(200, 100); (200, 300); (190, 300); (190, 100)];
     [(190, 100); (190, 300); (190, 290); (190, 90)];
     [(200, 90); (200, 290); (190, 290); (190, 90)]].
Proof. vm_compute. reflexivity. Qed.

Example mink_go_e4 :
  minkowskiInternal mk_tri [(1, 2); (-7, 3)] false true =
  MOk
    [[(-7, -2); (1, -3); (1, 2); (-7, 3)];
     [(-12, 3); (-4, 2); (1, 2); (-7, 3)];
     [(-7, -2); (1, -3); (-4, 2); (-12, 3)];
     [(1, 2); (-7, 3); (-7, -2); (1, -3)];
     [(1, 2); (-7, 3); (-12, 3); (-4, 2)];
     [(-4, 2); (-12, 3); (-7, -2); (1, -3)]].
Proof. vm_compute. reflexivity. Qed.

(* before a8d04ba this call panicked (makeslice: cap out of range) *)
Example mink_go_e5 :
  minkowskiInternal mk_tri [] true false =
  MOk
    [].
Proof. vm_compute. reflexivity. Qed.

Example mink_go_e6 :
  minkowskiInternal mk_tri [] true true =
  MOk
    [].
Proof. vm_compute. reflexivity. Qed.

Example mink_go_e7 :
  minkowskiInternal [] [] true false =
  MOk
    [].
Proof. vm_compute. reflexivity. Qed.

Example mink_go_e8 :
  minkowskiInternal [] mk_ln true false =
  MOk
    [].
Proof. vm_compute. reflexivity. Qed.

Example mink_go_e9 :
  minkowskiInternal mk_tri [(1, 1)] true false =
  MOk
    [].
Proof. vm_compute. reflexivity. Qed.

Example mink_go_e10 :
  minkowskiInternal mk_tri [(1, 1)] true true =
  MOk
    [[(1, 6); (1, 6); (1, 1); (1, 1)];
     [(1, 1); (1, 1); (6, 1); (6, 1)];
     [(6, 1); (6, 1); (1, 6); (1, 6)]].
Proof. vm_compute. reflexivity. Qed.

Example mink_go_e11 :
  minkowskiInternal [(mk_big, 1); (3, mk_big)] [(5, 5); (mk_big, - mk_big); (7, 9)] true false =
  MOk
    [[(-9223372036854775804, 6); (-2, -9223372036854775806); (-9223372036854775806, 0); (8, -9223372036854775804)];
     [(-9223372036854775804, 6); (-2, -9223372036854775806); (-9223372036854775806, 0); (8, -9223372036854775804)];
     [(-9223372036854775806, 0); (10, -9223372036854775800); (-9223372036854775802, 10); (-2, -9223372036854775806)];
     [(-9223372036854775806, 0); (10, -9223372036854775800); (-9223372036854775802, 10); (-2, -9223372036854775806)]].
Proof. vm_compute. reflexivity. Qed.

Example mink_go_e12 :
  minkowskiInternal [(mk_big, 1); (3, - mk_big); (- mk_big - 1, 17)] [(5, 5); (- mk_big, - mk_big - 1); (7, 9)] false true =
  MOk
    [[(-9223372036854775800, 8); (-9223372036854775802, 4); (-9223372036854775803, -12); (-9223372036854775801, -8)];
     [(4, -9223372036854775800); (2, -9223372036854775804); (-9223372036854775802, 4); (-9223372036854775800, 8)];
     [(4, -9223372036854775800); (2, -9223372036854775804); (-9223372036854775803, -12); (-9223372036854775801, -8)];
     [(-9223372036854775802, 4); (2, 9223372036854775807); (1, 9223372036854775791); (-9223372036854775803, -12)];
     [(2, -9223372036854775804); (9223372036854775806, -1); (2, 9223372036854775807); (-9223372036854775802, 4)];
     [(2, -9223372036854775804); (9223372036854775806, -1); (1, 9223372036854775791); (-9223372036854775803, -12)];
     [(1, 9223372036854775791); (-9223372036854775801, -8); (-9223372036854775800, 8); (2, 9223372036854775807)];
     [(2, 9223372036854775807); (-9223372036854775800, 8); (4, -9223372036854775800); (9223372036854775806, -1)];
     [(1, 9223372036854775791); (-9223372036854775801, -8); (4, -9223372036854775800); (9223372036854775806, -1)]].
Proof. vm_compute. reflexivity. Qed.

Example ispos_go_a0 :
  IsPositive64 [(0, 0); (3037000500, 0); (3037000500, 3037000500); (0, 3037000500)] = true.
Proof. vm_compute. reflexivity. Qed.

Example ispos_go_a1 :
  IsPositive64 [(0, 0); (0, 3037000500); (3037000500, 3037000500); (3037000500, 0)] = false.
Proof. vm_compute. reflexivity. Qed.

Example ispos_go_a2 :
  IsPositive64 [(0, 0); (0, 1); (1, 1); (1, 0)] = false.
Proof. vm_compute. reflexivity. Qed.

Example ispos_go_a3 :
  IsPositive64 [(0, 0); (1, 1); (2, 2); (3, 3)] = true.
Proof. vm_compute. reflexivity. Qed.

Example ispos_go_a4 :
  IsPositive64 [(0, 0); (0, 2147483648); (2147483648, 2147483648); (2147483648, 0)] = false.
Proof. vm_compute. reflexivity. Qed.

Example ispos_go_a5 :
  IsPositive64 [(0, 0); (2147483647, 0); (2147483647, 2147483647); (0, 2147483647)] = true.
Proof. vm_compute. reflexivity. Qed.

Example ispos_go_a6 :
  IsPositive64 [(0, 0); (0, 2147483647); (2147483647, 2147483647); (2147483647, 0)] = false.
Proof. vm_compute. reflexivity. Qed.

Example ispos_go_a7 :
  IsPositive64 [(0, 0); (2000000000, 0); (2000000000, 2000000001); (0, 2000000001)] = true.
Proof. vm_compute. reflexivity. Qed.

Example ispos_go_a8 :
  IsPositive64 [(0, 0); (0, 2000000001); (2000000000, 2000000001); (2000000000, 0)] = false.
Proof. vm_compute. reflexivity. Qed.

Example ispos_go_a9 :
  IsPositive64 [(-4611686018427387904, 0); (0, 1); (4611686018427387903, 0); (0, -1)] = true.
Proof. vm_compute. reflexivity. Qed.

