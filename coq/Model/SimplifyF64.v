(* Model/SimplifyF64.v — the instance of the parametric SimplifyPath model that
   reproduces the Go code bit for bit: float64 arithmetic is modelled as exact
   rational arithmetic followed by rounding to 53 significant bits, nearest,
   ties to even (IEEE-754 binary64 in its normal range; overflow, underflow and
   NaN do not occur for the magnitudes the harness generates).  Values of type
   Q below are always the exact values of float64 numbers. *)
From Coq Require Import QArith ZArith List Bool.
From Clip Require Import Base.Int64 Model.Arith Model.Simplify.
Import ListNotations.
Open Scope Z_scope.

Definition two52 : Z := 4503599627370496.

(* mantissa/remainder of |q| at binary exponent e:  |q| = (m + r/den) * 2^e *)
Definition mant_at (a d e : Z) : Z * Z * Z :=
  let num := if 0 <=? e then a else a * 2 ^ (- e) in
  let den := if 0 <=? e then d * 2 ^ e else d in
  (num / den, num mod den, den).

Definition rndQ (q : Q) : Q :=
  let n := Qnum q in
  let d := Zpos (Qden q) in
  if n =? 0 then 0%Q else
  let a := Z.abs n in
  let e0 := Z.log2 a - Z.log2 d - 52 in
  let '(m0, _, _) := mant_at a d e0 in
  let e := if two53 <=? m0 then e0 + 1 else if m0 <? two52 then e0 - 1 else e0 in
  let '(m, r, den) := mant_at a d e in
  let m' := if 2 * r <? den then m else if den <? 2 * r then m + 1 else if Z.even m then m else m + 1 in
  let v := if 0 <=? e then Qmake (m' * 2 ^ e) 1 else Qmake m' (Z.to_pos (2 ^ (- e))) in
  Qred (if n <? 0 then Qopp v else v).

Definition fmul (a b : Q) : Q := rndQ (Qmult a b).
Definition fadd (a b : Q) : Q := rndQ (Qplus a b).
Definition fsub (a b : Q) : Q := rndQ (Qminus a b).
Definition fdiv (a b : Q) : Q := rndQ (Qdiv a b).
Definition f_of_int (z : Z) : Q := inject_Z (round53 z).

(* clipper.go:PerpendicDistFromLineSqr64 (after fix a59c50a: differences are
   converted to float64 before multiplying) *)
Definition perp_f64 (p l1 l2 : pt) : Q :=
  let a := f_of_int (sub64 (px p) (px l1)) in
  let b := f_of_int (sub64 (py p) (py l1)) in
  let c := f_of_int (sub64 (px l2) (px l1)) in
  let d := f_of_int (sub64 (py l2) (py l1)) in
  if Qeq_bool c 0 && Qeq_bool d 0 then 0%Q
  else
    let x := fsub (fmul a d) (fmul c b) in
    fdiv (fmul x x) (fadd (fmul c c) (fmul d d)).

(* clipper.go:PerpendicDistFromLineSqrD on float64 points given by their exact values *)
Definition qpt2 : Type := (Q * Q)%type.
Definition perp_f64D (p l1 l2 : qpt2) : Q :=
  let a := fsub (fst p) (fst l1) in
  let b := fsub (snd p) (snd l1) in
  let c := fsub (fst l2) (fst l1) in
  let d := fsub (snd l2) (snd l1) in
  if Qeq_bool c 0 && Qeq_bool d 0 then 0%Q
  else
    let x := fsub (fmul a d) (fmul c b) in
    fdiv (fmul x x) (fadd (fmul c c) (fmul d d)).

(* SimplifyPath64(path, epsilon, isClosed): epsilon is a float64 given by its exact value *)
Definition SimplifyPath64_model (eps : Q) (path : list pt) (isClosed : bool) : option (list pt) :=
  simplify pt Q perp_f64 dmax_exact Qgtb Qltb (fmul eps eps) path isClosed.
Definition SimplifyPathD_model (eps : Q) (path : list qpt2) (isClosed : bool) : option (list qpt2) :=
  simplify qpt2 Q perp_f64D dmax_exact Qgtb Qltb (fmul eps eps) path isClosed.

Example rndQ_third : rndQ (1 # 3) = Qmake 6004799503160661 18014398509481984.
Proof. vm_compute. reflexivity. Qed.  (* 0x3FD5555555555555 *)
Example rndQ_int : rndQ (inject_Z 9007199254740993) = inject_Z 9007199254740992.
Proof. vm_compute. reflexivity. Qed.
Example rndQ_tenth_plus_fifth :   (* 0.1 + 0.2 = 0.30000000000000004 = 0x3FD3333333333334 *)
  fadd (rndQ (1 # 10)) (rndQ (2 # 10)) = Qmake 1351079888211149 4503599627370496.
Proof. vm_compute. reflexivity. Qed.
