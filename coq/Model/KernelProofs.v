(* Model/KernelProofs.v — the terms regenerated from /repo's source on every run
   (Gen/Kernels_gen.v) are the hand-written models the K1 theorems are about. *)
From Coq Require Import ZArith QArith Qabs Bool List String Lia.
From Clip Require Import Base.Int64 Model.Arith Model.ArithProofs Model.Simplify Model.SimplifyF64
  Model.Measures Model.KernelOps Gen.Kernels_gen.
Import ListNotations.
Open Scope Z_scope.

(* ---------------------------------------------------------------- layouts *)
Lemma layouts :
  struct_layouts = [("Point64"%string, "X:i64,Y:i64"%string); ("PointD"%string, "X:f64,Y:f64"%string);
                    ("Rect64"%string, "left:i64,top:i64,right:i64,bottom:i64"%string);
                    ("UInt128Struct"%string, "Lo64:u64,Hi64:u64"%string)].
Proof. reflexivity. Qed.

(* ---------------------------------------------------------------- triSign *)
Lemma neg64_1 : neg64 1 = -1.
Proof. vm_compute. reflexivity. Qed.

(* split on whatever comparisons the generated term contains (robust against reordered / nested tests) *)
Ltac zcmp :=
  rewrite ?Z.gtb_ltb, ?Z.geb_leb in *;
  repeat match goal with
  | |- context [Z.ltb ?a ?b] => destruct (Z.ltb_spec a b)
  | |- context [Z.leb ?a ?b] => destruct (Z.leb_spec a b)
  | |- context [Z.eqb ?a ?b] => destruct (Z.eqb_spec a b)
  end.

Lemma gen_triSign_eq x : gen_triSign x = triSign x.
Proof.
  unfold gen_triSign, triSign. rewrite ?neg64_1. zcmp; try reflexivity; lia.
Qed.

Lemma triSign_cases x : triSign x = -1 \/ triSign x = 0 \/ triSign x = 1.
Proof. unfold triSign. destruct (x <? 0); [auto|]. destruct (x >? 1); auto. Qed.

Lemma mul64_triSign a b : mul64 (triSign a) (triSign b) = triSign a * triSign b.
Proof.
  destruct (triSign_cases a) as [-> | [-> | ->]], (triSign_cases b) as [-> | [-> | ->]];
    vm_compute; reflexivity.
Qed.

(* ---------------------------------------------------------------- multiplyUInt64 *)
Lemma gen_multiplyUInt64_eq a b : gen_multiplyUInt64 a b = multiplyUInt64 a b.
Proof. unfold gen_multiplyUInt64, multiplyUInt64, mask32. cbv zeta. reflexivity. Qed.

(* ---------------------------------------------------------------- productsAreEqual *)
Lemma u64_of_f_abs_int a : u64_of_f (Qabs (f_of_int a)) = absf_u64 a.
Proof.
  unfold u64_of_f, trunc_q, f_of_int, absf_u64, inject_Z, Qabs. cbn [Qnum Qden].
  rewrite Z.quot_1_r. reflexivity.
Qed.

Lemma gen_productsAreEqual_eq a b c d : gen_productsAreEqual a b c d = productsAreEqual a b c d.
Proof.
  unfold gen_productsAreEqual, productsAreEqual.
  rewrite !u64_of_f_abs_int, !gen_multiplyUInt64_eq, !gen_triSign_eq, !mul64_triSign.
  reflexivity.
Qed.

Lemma gen_isCollinear_eq p1 sh p2 :
  gen_isCollinear (px p1) (py p1) (px sh) (py sh) (px p2) (py p2) = isCollinear p1 sh p2.
Proof. unfold gen_isCollinear, isCollinear. rewrite gen_productsAreEqual_eq. reflexivity. Qed.

(* ---------------------------------------------------------------- CrossProduct, dotProduct64 *)
Lemma gen_CrossProduct_eq p1 p2 p3 :
  gen_CrossProduct (px p1) (py p1) (px p2) (py p2) (px p3) (py p3) = inject_Z (CrossProduct p1 p2 p3).
Proof. unfold gen_CrossProduct, CrossProduct, cross64, f_of_int. reflexivity. Qed.

Lemma gen_dotProduct64_eq p1 p2 p3 :
  gen_dotProduct64 (px p1) (py p1) (px p2) (py p2) (px p3) (py p3) = inject_Z (round53 (dot64 p1 p2 p3)).
Proof. unfold gen_dotProduct64, dot64, f_of_int. reflexivity. Qed.

(* ---------------------------------------------------------------- perpendicular distance *)
Lemma gen_perp64_eq p l1 l2 :
  gen_PerpendicDistFromLineSqr64 (px p) (py p) (px l1) (py l1) (px l2) (py l2) = perp_f64 p l1 l2.
Proof. unfold gen_PerpendicDistFromLineSqr64, perp_f64. cbv zeta. reflexivity. Qed.

Lemma gen_perpD_eq (p l1 l2 : qpt2) :
  gen_PerpendicDistFromLineSqrD (fst p) (snd p) (fst l1) (snd l1) (fst l2) (snd l2) = perp_f64D p l1 l2.
Proof. unfold gen_PerpendicDistFromLineSqrD, perp_f64D. cbv zeta. reflexivity. Qed.

(* ---------------------------------------------------------------- Area64 *)
Definition gen_area_state : Type := (Z * (Z * Z))%type.
Definition gen_area_fold (p : path) (st : gen_area_state) : gen_area_state :=
  fold_left (fun st q => gen_Area64_step (fst st) (fst (snd st)) (snd (snd st)) (px q) (py q)) p st.

(* the accumulator of Area64 as the source has it: guard, initialisation, loop body *)
Lemma gen_Area64_guards_eq : gen_Area64_guards = [("<"%string, 3, "0"%string)].
Proof. reflexivity. Qed.   (* if len(path) < 3 { return 0 } *)

Definition gen_area2 (p : path) : Z :=
  if (List.length p <? 3)%nat then 0
  else fst (gen_area_fold p (gen_Area64_init (px (last p (0, 0))) (py (last p (0, 0))))).

Lemma gen_area_fold_eq : forall l prev a,
  fst (gen_area_fold l (a, (px prev, py prev))) = area2_loop prev l a.
Proof.
  induction l as [|q tl IH]; intros prev a; [reflexivity|].
  cbn [gen_area_fold fold_left area2_loop]. unfold gen_Area64_step. cbn [fst snd].
  exact (IH q _).
Qed.

Theorem gen_area2_eq p : gen_area2 p = area2_model p.
Proof.
  unfold gen_area2, area2_model.
  destruct (List.length p <? 3)%nat; [reflexivity|].
  unfold gen_Area64_init. apply gen_area_fold_eq.
Qed.

Lemma gen_Area64_tail_eq :
  gen_Area64_tail = "vA, _ := decimal.New(a, 0) cV, _ := decimal.NewFromFloat64(0.5) mV, _ := vA.Mul(cV) res, _ := mV.Float64() return res"%string.
Proof. reflexivity. Qed.

Lemma gen_IsPositive64_body_eq : gen_IsPositive64_body = "return Area64(poly) >= 0"%string.
Proof. reflexivity. Qed.

(* ---------------------------------------------------------------- getBounds / GetBounds64 *)
Lemma gen_NewRect64Invalid_eq : gen_NewRect64Invalid false = rect_invalid.
Proof. reflexivity. Qed.

Ltac split_ifs :=
  repeat match goal with
         | |- context [if ?c then _ else _] => destruct c eqn:?
         end.

Lemma gen_getBounds_step_eq l t r b x y :
  gen_getBounds_step l t r b x y = bounds_step (l, t, r, b) (x, y).
Proof. unfold gen_getBounds_step, bounds_step, px, py. cbn [fst snd]. split_ifs; reflexivity. Qed.

Lemma gen_GetBounds64_step_eq l t r b x y :
  gen_GetBounds64_step l t r b x y = bounds_step (l, t, r, b) (x, y).
Proof. unfold gen_GetBounds64_step, bounds_step, px, py. cbn [fst snd]. split_ifs; reflexivity. Qed.

Lemma gen_getBounds_init_eq x y : gen_getBounds_init x y = rect_invalid.
Proof. reflexivity. Qed.
Lemma gen_GetBounds64_init_eq x y : gen_GetBounds64_init x y = rect_invalid.
Proof. reflexivity. Qed.

Definition rect_fold (step : Z -> Z -> Z -> Z -> Z -> Z -> rect) (p : path) (r0 : rect) : rect :=
  fold_left (fun r q => let '(l, t, rr, b) := r in step l t rr b (px q) (py q)) p r0.

Lemma rect_fold_eq step : (forall l t r b x y, step l t r b x y = bounds_step (l, t, r, b) (x, y)) ->
  forall p r0, rect_fold step p r0 = fold_left bounds_step p r0.
Proof.
  intros H. induction p as [|q tl IH]; intros r0; [reflexivity|].
  cbn [rect_fold fold_left]. destruct r0 as [[[l t] rr] b]. rewrite H.
  destruct q as [x y]. cbn [px py fst snd]. apply IH.
Qed.

(* getBounds as the source has it *)
Lemma gen_getBounds_shape :
  gen_getBounds_guards = [("=="%string, 0, "Rect64{}"%string)] /\ gen_getBounds_tail = "return result"%string.
Proof. split; reflexivity. Qed.   (* if len(path) == 0 { return Rect64{} } ... return result *)

Definition gen_getBounds (p : path) : rect :=
  match p with
  | [] => (0, 0, 0, 0)
  | _ => rect_fold gen_getBounds_step p (gen_getBounds_init 0 0)
  end.

Theorem gen_getBounds_eq p : gen_getBounds p = getBounds_model p.
Proof.
  unfold gen_getBounds, getBounds_model.
  destruct p as [|q tl]; [reflexivity|].
  rewrite (rect_fold_eq _ gen_getBounds_step_eq). reflexivity.
Qed.

Lemma gen_GetBounds64_shape :
  gen_GetBounds64_guards = [] /\
  gen_GetBounds64_tail = "if result.left == math.MaxInt64 { return Rect64{} } return result"%string.
Proof. split; reflexivity. Qed.

Definition gen_GetBounds64 (p : path) : rect :=
  let '(l, t, r, b) := rect_fold gen_GetBounds64_step p (gen_GetBounds64_init 0 0) in
  if l =? maxint64 then (0, 0, 0, 0) else (l, t, r, b).

Theorem gen_GetBounds64_eq p : gen_GetBounds64 p = GetBounds64_model p.
Proof.
  unfold gen_GetBounds64, GetBounds64_model, bounds_loop.
  rewrite (rect_fold_eq _ gen_GetBounds64_step_eq). reflexivity.
Qed.

(* ---------------------------------------------------------------- getSegmentIntersectPt *)
Definition det_exact (a1 b1 a2 b2 : pt) : Z :=
  (py b1 - py a1) * (px b2 - px a2) - (py b2 - py a2) * (px b1 - px a1).

Lemma sub64_exact B x y : Z.abs x <= B -> Z.abs y <= B -> 2 * B < two63 -> sub64 x y = x - y.
Proof. intros. unfold sub64. apply wrap64_id_abs. unfold two63 in *. lia. Qed.

(* within magnitude 2^29 the parallel test of getSegmentIntersectPt is exact, and the flag it
   returns says exactly "not parallel" *)
Theorem gen_intersect_flag a1 b1 a2 b2 :
  coord_ok two29 a1 -> coord_ok two29 b1 -> coord_ok two29 a2 -> coord_ok two29 b2 ->
  snd (gen_getSegmentIntersectPt (px a1) (py a1) (px b1) (py b1) (px a2) (py a2) (px b2) (py b2))
  = negb (det_exact a1 b1 a2 b2 =? 0).
Proof.
  intros [H1 H2] [H3 H4] [H5 H6] [H7 H8]. unfold two29 in *.
  unfold gen_getSegmentIntersectPt.
  assert (E : sub64 (mul64 (sub64 (py b1) (py a1)) (sub64 (px b2) (px a2)))
                    (mul64 (sub64 (py b2) (py a2)) (sub64 (px b1) (px a1))) = det_exact a1 b1 a2 b2).
  { unfold det_exact.
    rewrite (sub64_exact 536870912 (py b1) (py a1)), (sub64_exact 536870912 (px b2) (px a2)),
            (sub64_exact 536870912 (py b2) (py a2)), (sub64_exact 536870912 (px b1) (px a1))
      by (unfold two63; lia).
    unfold mul64, sub64.
    assert (Hm : forall u v, Z.abs u <= 1073741824 -> Z.abs v <= 1073741824 -> Z.abs (u * v) <= 1152921504606846976).
    { intros u v Hu Hv. rewrite Z.abs_mul.
      change 1152921504606846976 with (1073741824 * 1073741824).
      apply Z.mul_le_mono_nonneg; lia. }
    pose proof (Hm (py b1 - py a1) (px b2 - px a2) ltac:(lia) ltac:(lia)) as Hp1.
    pose proof (Hm (py b2 - py a2) (px b1 - px a1) ltac:(lia) ltac:(lia)) as Hp2.
    rewrite (wrap64_id_abs ((py b1 - py a1) * (px b2 - px a2))),
            (wrap64_id_abs ((py b2 - py a2) * (px b1 - px a1))) by (unfold two63; lia).
    apply wrap64_id_abs. unfold two63. lia. }
  rewrite E.
  destruct (det_exact a1 b1 a2 b2 =? 0); [reflexivity|].
  split_ifs; reflexivity.
Qed.

(* when the flag is true and the float parameter is at an end, the end point itself is returned
   (no rounding): the branches  t <= 0  and  t >= 1  copy ln1a / ln1b *)
Theorem gen_intersect_on_first_segment_ends a1 b1 a2 b2 :
  let r := gen_getSegmentIntersectPt (px a1) (py a1) (px b1) (py b1) (px a2) (py a2) (px b2) (py b2) in
  snd r = false -> fst r = (0, 0).
Proof.
  cbv zeta. unfold gen_getSegmentIntersectPt. split_ifs; cbn [fst snd]; intros; try discriminate; reflexivity.
Qed.
