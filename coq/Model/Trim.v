(* Model/Trim.v — faithful, executable model of clipper.go:TrimCollinear64,
   parametric in the collinearity predicate.  Definitions only (plus
   computational sanity checks); theorems are in TrimProofs.v.

   Conventions.
   - Go slice indexing path[k] is [at_ path k] = [nth k path (0,0)]; the
     theorem [trim_total] (TrimProofs.v) shows that no index is ever out of
     range, by comparing with the checked variant [trimE] below that uses
     [nth_error], signed index arithmetic, and fails on fuel exhaustion.
   - Go ints are signed, nat subtraction truncates.  The guards are therefore
     written in the (integer-equivalent) subtraction-free form:
         i < l-1      is   i + 1 <? l
         l-i < 3      is   l <? i + 3
     Index expressions l-1, l-2 are only evaluated under a guard i+1 < l
     (so 2 <= l), where nat and int subtraction agree; [trimE] checks this.
   - every Go loop is a Fixpoint on a fuel argument; the fuel handed in by
     [trim] is S (length path) (resp. S (length result)), which is never
     exhausted ([trim_total]: the checked variant returns None on exhaustion).
   - `append(result, x)` is [result ++ [x]]; `result[:len(result)-1]` is
     [firstn (length result - 1) result]. *)
From Coq Require Import ZArith List Bool Arith.
From Clip Require Import Base.Int64 Model.Arith.
Import ListNotations.
Local Open Scope nat_scope.

Definition pt0 : pt := (0%Z, 0%Z).
Definition at_ (p : list pt) (i : nat) : pt := nth i p pt0.

Section Trim.
  Variable col : pt -> pt -> pt -> bool.

  (* for i < l-1 && col(path[l-1], path[i], path[i+1]) { i++ } *)
  Fixpoint scan1 (fuel : nat) (p : list pt) (l i : nat) : nat :=
    match fuel with
    | O => i
    | S f =>
        if (i + 1 <? l) && col (at_ p (l - 1)) (at_ p i) (at_ p (i + 1))
        then scan1 f p l (i + 1)
        else i
    end.

  (* for i < l-1 && col(path[l-2], path[l-1], path[i]) { l-- } *)
  Fixpoint scan2 (fuel : nat) (p : list pt) (l i : nat) : nat :=
    match fuel with
    | O => l
    | S f =>
        if (i + 1 <? l) && col (at_ p (l - 2)) (at_ p (l - 1)) (at_ p i)
        then scan2 f p (l - 1) i
        else l
    end.

  (* for i++; i < l-1; i++ {
       if col(last, path[i], path[i+1]) { continue }
       last = path[i]; result = append(result, last) }
     — called with i already incremented; returns (last, result) *)
  Fixpoint mainloop (fuel : nat) (p : list pt) (l i : nat) (last : pt)
           (res : list pt) : pt * list pt :=
    match fuel with
    | O => (last, res)
    | S f =>
        if i + 1 <? l then
          if col last (at_ p i) (at_ p (i + 1))
          then mainloop f p l (i + 1) last res
          else mainloop f p l (i + 1) (at_ p i) (res ++ [at_ p i])
        else (last, res)
    end.

  (* for len(result) > 2 &&
         col(result[len-1], result[len-2], result[0]) { result = result[:len-1] } *)
  Fixpoint poploop (fuel : nat) (res : list pt) : list pt :=
    match fuel with
    | O => res
    | S f =>
        let n := length res in
        if (2 <? n) && col (at_ res (n - 1)) (at_ res (n - 2)) (at_ res 0)
        then poploop f (firstn (n - 1) res)
        else res
    end.

  Definition trim (path : list pt) (isOpen : bool) : list pt :=
    let l := length path in
    let i := 0 in
    let fuel := S (length path) in
    let i := if isOpen then i else scan1 fuel path l i in
    let l := if isOpen then l else scan2 fuel path l i in
    if l <? i + 3 then
      if negb isOpen || (l <? 2) || pt_eqb (at_ path 0) (at_ path 1)
      then [] else path
    else
      let last := at_ path i in
      let result := [last] in
      let '(last, result) := mainloop fuel path l (i + 1) last result in
      if isOpen then result ++ [at_ path (l - 1)]
      else if negb (col last (at_ path (l - 1)) (at_ result 0))
      then result ++ [at_ path (l - 1)]
      else
        let result := poploop (S (length result)) result in
        if length result <? 3 then [] else result.

  (* ---------------------------------------------------------------- *)
  (* Checked variant: every slice access goes through nth_error, index
     subtraction is signed (a negative index is an error), and running out
     of fuel is an error.  None = "the Go code would panic, or the fuel of
     the model was too small". *)
  Definition getm (p : list pt) (a b : nat) : option pt :=   (* p[a-b] *)
    if b <=? a then nth_error p (a - b) else None.

  Fixpoint scan1E (fuel : nat) (p : list pt) (l i : nat) : option nat :=
    match fuel with
    | O => None
    | S f =>
        if i + 1 <? l then
          match getm p l 1, nth_error p i, nth_error p (i + 1) with
          | Some a, Some b, Some c =>
              if col a b c then scan1E f p l (i + 1) else Some i
          | _, _, _ => None
          end
        else Some i
    end.

  Fixpoint scan2E (fuel : nat) (p : list pt) (l i : nat) : option nat :=
    match fuel with
    | O => None
    | S f =>
        if i + 1 <? l then
          match getm p l 2, getm p l 1, nth_error p i with
          | Some a, Some b, Some c =>
              if col a b c then scan2E f p (l - 1) i else Some l
          | _, _, _ => None
          end
        else Some l
    end.

  Fixpoint mainloopE (fuel : nat) (p : list pt) (l i : nat) (last : pt)
           (res : list pt) : option (pt * list pt) :=
    match fuel with
    | O => None
    | S f =>
        if i + 1 <? l then
          match nth_error p i, nth_error p (i + 1) with
          | Some b, Some c =>
              if col last b c
              then mainloopE f p l (i + 1) last res
              else mainloopE f p l (i + 1) b (res ++ [b])
          | _, _ => None
          end
        else Some (last, res)
    end.

  Fixpoint poploopE (fuel : nat) (res : list pt) : option (list pt) :=
    match fuel with
    | O => None
    | S f =>
        let n := length res in
        if 2 <? n then
          match getm res n 1, getm res n 2, nth_error res 0 with
          | Some a, Some b, Some c =>
              if col a b c then poploopE f (firstn (n - 1) res) else Some res
          | _, _, _ => None
          end
        else Some res
    end.

  Definition trimE (path : list pt) (isOpen : bool) : option (list pt) :=
    let l := length path in
    let fuel := S (length path) in
    match (if isOpen then Some 0 else scan1E fuel path l 0) with
    | None => None
    | Some i =>
    match (if isOpen then Some l else scan2E fuel path l i) with
    | None => None
    | Some l =>
      if l <? i + 3 then
        if negb isOpen then Some []
        else if l <? 2 then Some []
        else match nth_error path 0, nth_error path 1 with
             | Some a, Some b => if pt_eqb a b then Some [] else Some path
             | _, _ => None
             end
      else
        match nth_error path i with
        | None => None
        | Some last =>
        match mainloopE fuel path l (i + 1) last [last] with
        | None => None
        | Some (last, result) =>
          if isOpen then
            match getm path l 1 with
            | Some z => Some (result ++ [z])
            | None => None
            end
          else
            match getm path l 1, nth_error result 0 with
            | Some z, Some r0 =>
                if negb (col last z r0) then Some (result ++ [z])
                else match poploopE (S (length result)) result with
                     | None => None
                     | Some result =>
                         if length result <? 3 then Some [] else Some result
                     end
            | _, _ => None
            end
        end
        end
    end
    end.

  (* ---------------------------------------------------------------- *)
  (* Instrumented variant of the main loop: additionally returns, for every
     vertex dropped by the main loop, the record (i, last, path[i], path[i+1])
     at the moment of the drop. *)
  Definition drop_rec : Type := (nat * pt * pt * pt)%type.

  Fixpoint mainloopT (fuel : nat) (p : list pt) (l i : nat) (last : pt)
           (res : list pt) (tr : list drop_rec) : pt * list pt * list drop_rec :=
    match fuel with
    | O => (last, res, tr)
    | S f =>
        if i + 1 <? l then
          if col last (at_ p i) (at_ p (i + 1))
          then mainloopT f p l (i + 1) last res
                         (tr ++ [(i, last, at_ p i, at_ p (i + 1))])
          else mainloopT f p l (i + 1) (at_ p i) (res ++ [at_ p i]) tr
        else (last, res, tr)
    end.

  Definition trimT (path : list pt) (isOpen : bool) : list pt * list drop_rec :=
    let l := length path in
    let i := 0 in
    let fuel := S (length path) in
    let i := if isOpen then i else scan1 fuel path l i in
    let l := if isOpen then l else scan2 fuel path l i in
    if l <? i + 3 then
      (if negb isOpen || (l <? 2) || pt_eqb (at_ path 0) (at_ path 1)
       then [] else path, [])
    else
      let last := at_ path i in
      let result := [last] in
      let '(last, result, tr) := mainloopT fuel path l (i + 1) last result [] in
      (if isOpen then result ++ [at_ path (l - 1)]
       else if negb (col last (at_ path (l - 1)) (at_ result 0))
       then result ++ [at_ path (l - 1)]
       else
         let result := poploop (S (length result)) result in
         if length result <? 3 then [] else result,
       tr).
End Trim.

(* clipper.go:TrimCollinear64 *)
Definition TrimCollinear64 : list pt -> bool -> list pt := trim isCollinear.

(* exact collinearity (the specification of isCollinear) *)
Definition col_exact (a b c : pt) : bool := (cross_exact a b c =? 0)%Z.

(* ------------------------------------------------------------------ *)
(* Sanity checks; every expected value below was cross-checked by running the
   Go function clipper.TrimCollinear64 on the same input (identical outputs).
   Coordinates are multiples of 10 so that no coordinate difference equals 1
   (triSign(1) = 0 makes isCollinear wrong on unit differences; see
   trim_small_refuted_isCollinear in TrimProofs.v). *)
Local Open Scope Z_scope.

(* E1: square with a collinear midpoint on the bottom edge *)
Example trim_ex1 :
  TrimCollinear64 [(0,0); (50,0); (100,0); (100,100); (0,100)] false
  = [(0,0); (100,0); (100,100); (0,100)].
Proof. vm_compute. reflexivity. Qed.

(* E2: spike (100,0)->(200,0)->(100,0): the first (100,0) is dropped (it is
   collinear with (0,0) and (200,0)), then the spike tip (200,0) is dropped,
   and the second (100,0) is kept as a genuine corner *)
Example trim_ex2 :
  TrimCollinear64 [(0,0); (100,0); (200,0); (100,0); (100,100); (0,100)] false
  = [(0,0); (100,0); (100,100); (0,100)].
Proof. vm_compute. reflexivity. Qed.

(* E3: collinear run across index 0: path starts in the middle of the
   bottom edge; both scan loops fire *)
Example trim_ex3 :
  TrimCollinear64 [(50,0); (70,0); (100,0); (100,100); (0,100); (0,0); (20,0)] false
  = [(100,0); (100,100); (0,100); (0,0)].
Proof. vm_compute. reflexivity. Qed.

(* E4: open path: end points always kept, interior collinear points dropped *)
Example trim_ex4 :
  TrimCollinear64 [(0,0); (10,0); (20,0); (20,10); (20,20); (40,40)] true
  = [(0,0); (20,0); (20,20); (40,40)].
Proof. vm_compute. reflexivity. Qed.

(* E5: duplicates are collinear with anything *)
Example trim_ex5 :
  TrimCollinear64 [(0,0); (0,0); (100,0); (100,0); (100,100); (100,100); (0,100)] false
  = [(0,0); (100,0); (100,100); (0,100)].
Proof. vm_compute. reflexivity. Qed.

(* E6: fully collinear closed path collapses to the empty path *)
Example trim_ex6 :
  TrimCollinear64 [(0,0); (10,0); (20,0); (30,0)] false = [].
Proof. vm_compute. reflexivity. Qed.

(* E7: short open paths: 2 distinct points are returned unchanged, 2 equal
   points give [], but 3 equal points give 2 equal points *)
Example trim_ex7a : TrimCollinear64 [(0,0); (10,0)] true = [(0,0); (10,0)].
Proof. vm_compute. reflexivity. Qed.
Example trim_ex7b : TrimCollinear64 [(10,0); (10,0)] true = [].
Proof. vm_compute. reflexivity. Qed.
Example trim_ex7c :
  TrimCollinear64 [(10,0); (10,0); (10,0)] true = [(10,0); (10,0)].
Proof. vm_compute. reflexivity. Qed.

(* E8: triangle is a fixed point; the empty path and a single point give [] *)
Example trim_ex8a :
  TrimCollinear64 [(0,0); (100,0); (0,100)] false = [(0,0); (100,0); (0,100)].
Proof. vm_compute. reflexivity. Qed.
Example trim_ex8b : TrimCollinear64 [] false = [] /\ TrimCollinear64 [] true = []
  /\ TrimCollinear64 [(5,5)] false = [] /\ TrimCollinear64 [(5,5)] true = [].
Proof. vm_compute. auto. Qed.

(* E9: the pop loop at the end: the last kept vertex is collinear with the
   first one once path[l-1] has been dropped *)
Example trim_ex9 :
  TrimCollinear64 [(0,0); (100,0); (100,100); (50,50); (20,20)] false
  = [(0,0); (100,0); (100,100)].
Proof. vm_compute. reflexivity. Qed.
